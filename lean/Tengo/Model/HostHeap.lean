import Tengo.Model.Host
/-!
Heap-based model of script.go's Script / Compiled state machine WITH in-place updates (C15). Core Lean only.

Every global of a Compiled holds a REFERENCE into one store of mutable objects (`Host.store`, shared by all
handles of the process, as Go's heap is). Scripts may alias (`y = x`, `y := x`) and update an object in place
(`x.k = v`, `x[i] = v`). `Compile` puts the very objects made by `Add` into every Compiled (script.go: known
finding C15-1 is representable here), `Clone` deep-copies every non-nil global into a fresh object.

* `hstep` / `hrunOps`  — the concrete machine (one shared store);
* `sstep` / `srunOps`  — the abstract specification over the SAME heap semantics, handle by handle: every
  handle maps its names to an object = (identity tag, value). "A variable reads as the last value the host
  set or the script assigned"; an in-place update through a name changes the value of every name OF THE SAME
  HANDLE that carries the same tag (aliases), and of nothing else. Tags come from one counter; they are never
  observable (Get/GetAll/IsDefined return values only).

Fragment: objects are top-level cells holding a value tree (`Host.TVal`); the element written by an in-place
update is a literal (a fresh tree), and no statement reads an element of container type, so nested containers
cannot be aliased (nested references would need a graph store: not modelled here).
-/
namespace Tengo.Model.HostHeap
open Tengo.Model.Host

inductive Key where
  | field (k : String)   -- x.k = v   /  x["k"] = v
  | index (i : Nat)      -- x[i] = v
  deriving Repr, Inhabited

inductive HStmt where
  | define (dst : String) (e : Expr)             -- dst := e      (e = literal | global: aliasing)
  | assign (dst : String) (e : Expr)             -- dst = e
  | upd (dst : String) (key : Key) (v : TVal)    -- dst.k = <literal>, dst[i] = <literal>: in-place update
  | fail
  | hidden (shape : Nat)
  deriving Repr, Inhabited

def HStmt.pure : HStmt → Bool
  | .upd _ _ _ => false
  | _ => true

/-- Names as `Compile` sees them: an in-place update resolves its target like a selector assignment. -/
def HStmt.toStmt : HStmt → Stmt
  | .define d e => .define d e
  | .assign d e => .assign d e
  | .upd d _ v => .selset d "" v
  | .fail => .fail
  | .hidden k => .hidden k

/-- `IndexSet` on an object: maps take string keys, arrays an index in range; everything else (immutable
containers included) is a run-time error (`none`). -/
def updCell : Key → TVal → TVal → Option TVal
  | .field k, v, .map m => some (.map (upsert k v m))
  | .index i, v, .array xs => if i < xs.length then some (.array (xs.set i v)) else none
  -- `Map.IndexSet` turns any index into a key with `ToString`: `m[0] = v` writes key "0"
  | .index i, v, .map m => some (.map (upsert (toString i) v m))
  | _, _, _ => none

inductive HOp where
  | newScript (src : List HStmt)
  | add (s : Nat) (name : String) (g : GoVal)
  | remove (s : Nat) (name : String)
  | compile (s : Nat)
  | set (c : Nat) (name : String) (g : GoVal)
  | run (c : Nat)
  | get (c : Nat) (name : String)
  | getAll (c : Nat)
  | isDefined (c : Nat) (name : String)
  | clone (c : Nat)
  deriving Repr, Inhabited

/-! ### Concrete machine: one shared store -/

structure ScriptSt where
  vars : List (String × Nat)
  src : List HStmt
  deriving Repr, Inhabited

structure CompiledSt where
  slots : List (String × Option Nat)
  code : List HStmt
  cloned : Bool                      -- made by Clone (true) or by Compile (false)
  deriving Repr, Inhabited

structure Host where
  store : List TVal := []
  scripts : List ScriptSt := []
  compiled : List CompiledSt := []
  deriving Repr, Inhabited

def execC : List HStmt → List TVal → List (String × Option Nat) → List TVal × List (String × Option Nat) × Bool
  | [], st, sl => (st, sl, false)
  | .define d (.const v) :: rest, st, sl => execC rest (st ++ [v]) (setKey d (some st.length) sl)
  | .define d (.var n) :: rest, st, sl => execC rest st (setKey d (slotOf sl n) sl)
  | .assign d (.const v) :: rest, st, sl => execC rest (st ++ [v]) (setKey d (some st.length) sl)
  | .assign d (.var n) :: rest, st, sl => execC rest st (setKey d (slotOf sl n) sl)
  | .upd d key v :: rest, st, sl =>
      match slotOf sl d with
      | some r => match updCell key v (deref st r) with
          | some c => execC rest (st.set r c) sl
          | none => (st, sl, true)
      | none => (st, sl, true)
  | .fail :: _, st, sl => (st, sl, true)
  | .hidden _ :: rest, st, sl => execC rest st sl

def hstep (L : Limits) (h : Host) : HOp → Host × Out
  | .newScript src => ({ h with scripts := h.scripts ++ [{ vars := [], src := src }] }, .script h.scripts.length)
  | .add s n g =>
      match h.scripts[s]? with
      | none => (h, .noHandle)
      | some sc => match fromInterface L g with
        | .error e => (h, .err (.conv e))
        | .ok v => ({ h with store := h.store ++ [v],
                             scripts := h.scripts.set s { sc with vars := upsert n h.store.length sc.vars } }, .ok)
  | .remove s n =>
      match h.scripts[s]? with
      | none => (h, .noHandle)
      | some sc =>
        if hasKey n sc.vars then
          ({ h with scripts := h.scripts.set s { sc with vars := eraseKey n sc.vars } }, .bool true)
        else (h, .bool false)
  | .compile s =>
      match h.scripts[s]? with
      | none => (h, .noHandle)
      | some sc => match compileNames (sc.src.map HStmt.toStmt) (sc.vars.map (·.1)) with
        | .error e => (h, .err e)
        | .ok names =>
          -- the SAME objects go into every Compiled of this Script (C15-1)
          let slots := sc.vars.map (fun p => (p.1, some p.2)) ++
            ((names.drop sc.vars.length).map (fun n => (n, none)))
          ({ h with compiled := h.compiled ++ [{ slots := slots, code := sc.src, cloned := false }] },
            .compiled h.compiled.length)
  | .set c n g =>
      match h.compiled[c]? with
      | none => (h, .noHandle)
      | some cs => match fromInterface L g with
        | .error e => (h, .err (.conv e))
        | .ok v =>
          if hasKey n cs.slots then
            ({ h with store := h.store ++ [v],
                      compiled := h.compiled.set c { cs with slots := setKey n (some h.store.length) cs.slots } }, .ok)
          else (h, .err (.notDefined n))
  | .run c =>
      match h.compiled[c]? with
      | none => (h, .noHandle)
      | some cs =>
        ({ h with store := (execC cs.code h.store cs.slots).1,
                  compiled := h.compiled.set c { cs with slots := (execC cs.code h.store cs.slots).2.1 } },
          if (execC cs.code h.store cs.slots).2.2 then .err .runtime else .ok)
  | .get c n =>
      match h.compiled[c]? with
      | none => (h, .noHandle)
      | some cs => (h, .val (((slotOf cs.slots n).map (deref h.store)).getD .undefined))
  | .getAll c =>
      match h.compiled[c]? with
      | none => (h, .noHandle)
      | some cs => (h, .vars (cs.slots.map (fun p => (p.1, (p.2.map (deref h.store)).getD .undefined))))
  | .isDefined c n =>
      match h.compiled[c]? with
      | none => (h, .noHandle)
      | some cs => (h, .bool (match slotOf cs.slots n with
          | some r => !isUndef (deref h.store r)
          | none => false))
  | .clone c =>
      match h.compiled[c]? with
      | none => (h, .noHandle)
      | some cs =>
        ({ h with store := (cloneSlots cs.slots h.store).1,
                  compiled := h.compiled ++ [{ slots := (cloneSlots cs.slots h.store).2, code := cs.code, cloned := true }] },
          .compiled h.compiled.length)

def hrunOps (L : Limits) : Host → List HOp → List Out
  | _, [] => []
  | h, op :: ops => (hstep L h op).2 :: hrunOps L (hstep L h op).1 ops

def hstate (L : Limits) : Host → List HOp → Host
  | h, [] => h
  | h, op :: ops => hstate L (hstep L h op).1 ops

/-- Side condition that excludes C15-1: a Compiled whose code updates objects in place is only ever Run
if it was made by `Clone` (a Compiled made by `Compile` shares its objects with its siblings). -/
def safeOp (h : Host) : HOp → Bool
  | .run c => match h.compiled[c]? with
      | some cs => cs.cloned || cs.code.all HStmt.pure
      | none => true
  | _ => true

def safeOps (L : Limits) : Host → List HOp → Bool
  | _, [] => true
  | h, op :: ops => safeOp h op && safeOps L (hstep L h op).1 ops

/-! ### Abstract specification: every handle maps names to objects (tag, value) of its own -/

abbrev Obj := Nat × TVal

structure AScript where
  vars : List (String × Obj)
  src : List HStmt
  deriving Repr, Inhabited

structure ACompiled where
  env : List (String × Option Obj)
  code : List HStmt
  deriving Repr, Inhabited

structure Abs where
  next : Nat := 0                 -- tag counter (object identities; never observable)
  scripts : List AScript := []
  compiled : List ACompiled := []
  deriving Repr, Inhabited

def objOf (env : List (String × Option Obj)) (n : String) : Option Obj := (env.lookup n).join

/-- The value of the object tagged `t` becomes `c` — under every name of THIS handle that holds it. -/
def updTag (t : Nat) (c : TVal) (env : List (String × Option Obj)) : List (String × Option Obj) :=
  env.map (fun p => (p.1, p.2.map (fun o => if o.1 = t then (t, c) else o)))

def execS : List HStmt → Nat → List (String × Option Obj) → Nat × List (String × Option Obj) × Bool
  | [], nx, env => (nx, env, false)
  | .define d (.const v) :: rest, nx, env => execS rest (nx + 1) (setKey d (some (nx, v)) env)
  | .define d (.var n) :: rest, nx, env => execS rest nx (setKey d (objOf env n) env)
  | .assign d (.const v) :: rest, nx, env => execS rest (nx + 1) (setKey d (some (nx, v)) env)
  | .assign d (.var n) :: rest, nx, env => execS rest nx (setKey d (objOf env n) env)
  | .upd d key v :: rest, nx, env =>
      match objOf env d with
      | some o => match updCell key v o.2 with
          | some c => execS rest nx (updTag o.1 c env)
          | none => (nx, env, true)
      | none => (nx, env, true)
  | .fail :: _, nx, env => (nx, env, true)
  | .hidden _ :: rest, nx, env => execS rest nx env

/-- `Clone` in the specification: every non-nil global becomes a new object holding a deep copy. -/
def cloneEnv : List (String × Option Obj) → Nat → Nat × List (String × Option Obj)
  | [], nx => (nx, [])
  | (n, none) :: rest, nx => ((cloneEnv rest nx).1, (n, none) :: (cloneEnv rest nx).2)
  | (n, some o) :: rest, nx => ((cloneEnv rest (nx + 1)).1, (n, some (nx, copyT o.2)) :: (cloneEnv rest (nx + 1)).2)

def sstep (L : Limits) (a : Abs) : HOp → Abs × Out
  | .newScript src => ({ a with scripts := a.scripts ++ [{ vars := [], src := src }] }, .script a.scripts.length)
  | .add s n g =>
      match a.scripts[s]? with
      | none => (a, .noHandle)
      | some sc => match fromInterface L g with
        | .error e => (a, .err (.conv e))
        | .ok v => ({ a with next := a.next + 1,
                             scripts := a.scripts.set s { sc with vars := upsert n (a.next, v) sc.vars } }, .ok)
  | .remove s n =>
      match a.scripts[s]? with
      | none => (a, .noHandle)
      | some sc =>
        if hasKey n sc.vars then
          ({ a with scripts := a.scripts.set s { sc with vars := eraseKey n sc.vars } }, .bool true)
        else (a, .bool false)
  | .compile s =>
      match a.scripts[s]? with
      | none => (a, .noHandle)
      | some sc => match compileNames (sc.src.map HStmt.toStmt) (sc.vars.map (·.1)) with
        | .error e => (a, .err e)
        | .ok names =>
          -- the new handle starts from the values given to Add: objects of its own
          let env := sc.vars.map (fun p => (p.1, some p.2)) ++
            ((names.drop sc.vars.length).map (fun n => (n, none)))
          ({ a with compiled := a.compiled ++ [{ env := env, code := sc.src }] }, .compiled a.compiled.length)
  | .set c n g =>
      match a.compiled[c]? with
      | none => (a, .noHandle)
      | some cs => match fromInterface L g with
        | .error e => (a, .err (.conv e))
        | .ok v =>
          if hasKey n cs.env then
            ({ a with next := a.next + 1,
                      compiled := a.compiled.set c { cs with env := setKey n (some (a.next, v)) cs.env } }, .ok)
          else (a, .err (.notDefined n))
  | .run c =>
      match a.compiled[c]? with
      | none => (a, .noHandle)
      | some cs =>
        ({ a with next := (execS cs.code a.next cs.env).1,
                  compiled := a.compiled.set c { cs with env := (execS cs.code a.next cs.env).2.1 } },
          if (execS cs.code a.next cs.env).2.2 then .err .runtime else .ok)
  | .get c n =>
      match a.compiled[c]? with
      | none => (a, .noHandle)
      | some cs => (a, .val (((objOf cs.env n).map (·.2)).getD .undefined))
  | .getAll c =>
      match a.compiled[c]? with
      | none => (a, .noHandle)
      | some cs => (a, .vars (cs.env.map (fun p => (p.1, (p.2.map (·.2)).getD .undefined))))
  | .isDefined c n =>
      match a.compiled[c]? with
      | none => (a, .noHandle)
      | some cs => (a, .bool (match objOf cs.env n with
          | some o => !isUndef o.2
          | none => false))
  | .clone c =>
      match a.compiled[c]? with
      | none => (a, .noHandle)
      | some cs =>
        ({ a with next := (cloneEnv cs.env a.next).1,
                  compiled := a.compiled ++ [{ env := (cloneEnv cs.env a.next).2, code := cs.code }] },
          .compiled a.compiled.length)

def srunOps (L : Limits) : Abs → List HOp → List Out
  | _, [] => []
  | a, op :: ops => (sstep L a op).2 :: srunOps L (sstep L a op).1 ops

/-! ### The exact side condition (ghost bookkeeping, not part of the machine)

`dirty`: the objects that may have been updated in place through a Compile-made handle, each with the value
it had before the first such Run. A Run of code with in-place updates through `c` is safe when `c` is a clone,
or when no OTHER Compiled holds an object of `c` at that moment (`exclusive`); a Compile is safe when none of
the Script's Add-time objects is dirty (they still hold the value given to Add). The C15-1 history fails the
first test; "Compile, Run with updates, Compile again" fails the second. -/

def refsOf (sl : List (String × Option Nat)) : List Nat := sl.filterMap (·.2)

def disjointRefs (a b : List (String × Option Nat)) : Bool :=
  (refsOf a).all (fun r => !(refsOf b).contains r)

def exclusive (h : Host) (c : Nat) (cs : CompiledSt) : Bool :=
  (List.range h.compiled.length).all (fun j => j == c ||
    match h.compiled[j]? with
    | some cj => disjointRefs cj.slots cs.slots
    | none => true)

def dirtyStep (h : Host) (dirty : List (Nat × TVal)) : HOp → List (Nat × TVal)
  | .run c => match h.compiled[c]? with
      | some cs => if cs.cloned || cs.code.all HStmt.pure then dirty
                   else dirty ++ (refsOf cs.slots).map (fun r => (r, deref h.store r))
      | none => dirty
  | _ => dirty

def safeOpG (h : Host) (dirty : List (Nat × TVal)) : HOp → Bool
  | .run c => match h.compiled[c]? with
      | some cs => cs.cloned || cs.code.all HStmt.pure || exclusive h c cs
      | none => true
  | .compile s => match h.scripts[s]? with
      | some sc => sc.vars.all (fun p => (dirty.lookup p.2).isNone)
      | none => true
  | _ => true

def safeOpsG (L : Limits) : Host → List (Nat × TVal) → List HOp → Bool
  | _, _, [] => true
  | h, dirty, op :: ops => safeOpG h dirty op && safeOpsG L (hstep L h op).1 (dirtyStep h dirty op) ops

end Tengo.Model.HostHeap

/-
Model of tengo runtime values and of the object-level operations of property C10:
`Equals`, the comparison arms of `BinaryOp`, `IsFalsy`, `Copy` (objects.go), the `To*` conversions
(tengo.go) and the conversion builtins (builtins.go). Core Lean only.

Values are trees. What a tree cannot say is named here:
* aliasing/cycles: invisible to the operations below (they only read); cyclic values are outside (O9);
* object identity, which `Error.Equals` uses: every error carries an identity `id`; `id = 0` means
  "freshly allocated, identical to nothing else" (what `Copy` returns);
* Go maps: association lists kept strictly sorted by key (unique keys). `Map.Equals` (same length,
  every key of the receiver present in the argument with an equal value) is, on such lists, the
  pointwise comparison used below;
* time: `time.Time` without monotonic reading, as nanoseconds since the Unix epoch in an unbounded
  `Int` (`Before/After/Equal` compare the internal second count and the nanoseconds).
External text functions (`strconv.FormatFloat`, `strconv.ParseFloat`, `strconv.Quote`, `Time.String`)
are not guessed: the model answers `unsupported`.
-/
namespace Tengo.Model.Val

abbrev Bytes := List UInt8

/-! ### float64 by bit pattern (DESIGN §2.1) -/
namespace F64

def infMag : Nat := 0x7FF0000000000000
/-- magnitude bits (exponent and fraction) -/
def magOf (b : BitVec 64) : Nat := b.toNat % 2 ^ 63
def isNeg (b : BitVec 64) : Bool := decide (2 ^ 63 ≤ b.toNat)
def isNaN (b : BitVec 64) : Bool := decide (infMag < magOf b)
/-- order key: monotone in the float value, `-0 ↦ 0` -/
def key (b : BitVec 64) : Int := if isNeg b then - (magOf b : Int) else (magOf b : Int)

def cmpInt (x y : Int) : Ordering := if x < y then .lt else if x = y then .eq else .gt

/-- IEEE comparison: `none` when an operand is NaN. -/
def cmp (a b : BitVec 64) : Option Ordering :=
  if isNaN a || isNaN b then none else some (cmpInt (key a) (key b))

/-- Go `a == b` on float64. -/
def eq (a b : BitVec 64) : Bool :=
  match cmp a b with
  | some .eq => true
  | _ => false

/-- magnitude bits of `float64(m)` for `m > 0`, round to nearest even -/
def ofNatMag (m : Nat) : Nat :=
  let e := m.log2
  if e ≤ 52 then (e + 1022) * 2 ^ 52 + m * 2 ^ (52 - e)
  else
    let sh := e - 52
    let q := m / 2 ^ sh
    let r := m % 2 ^ sh
    let half := 2 ^ (sh - 1)
    let q' := if half < r ∨ (r = half ∧ q % 2 = 1) then q + 1 else q
    (e + 1022) * 2 ^ 52 + q'

/-- Go `float64(n)` for an int64 `n`. -/
def ofInt (n : Int) : BitVec 64 :=
  if n = 0 then 0#64
  else if 0 < n then BitVec.ofNat 64 (ofNatMag n.toNat)
  else BitVec.ofNat 64 (2 ^ 63 + ofNatMag (-n).toNat)

def minInt64 : BitVec 64 := BitVec.ofNat 64 (2 ^ 63)

/-- Go `int64(f)` on amd64 (CVTTSD2SQ): truncation; NaN and out of range give `0x8000…`. -/
def toI64 (b : BitVec 64) : BitVec 64 :=
  let m := magOf b
  let e := m / 2 ^ 52
  let sig := 2 ^ 52 + m % 2 ^ 52
  if e < 1023 then 0#64
  else if 1086 ≤ e then minInt64
  else
    let sh := e - 1023
    let t : Nat := if 52 ≤ sh then sig * 2 ^ (sh - 52) else sig / 2 ^ (52 - sh)
    if isNeg b then BitVec.ofInt 64 (-(t : Int)) else BitVec.ofNat 64 t

end F64

open F64 (cmpInt)

/-! ### text helpers -/

def asciiBytes (s : String) : Bytes := s.toList.map (fun c => UInt8.ofNat c.toNat)

/-- `strconv.FormatInt(n, 10)` -/
def decimal (n : Int) : Bytes :=
  if n < 0 then UInt8.ofNat 45 :: asciiBytes (String.ofList (Nat.toDigits 10 (-n).toNat))
  else asciiBytes (String.ofList (Nat.toDigits 10 n.toNat))

/-- Go `string(rune(r))`: UTF-8, U+FFFD for surrogates and out-of-range values. -/
def utf8 (r : Int) : Bytes :=
  if r < 0 ∨ 0x10FFFF < r ∨ (0xD800 ≤ r ∧ r ≤ 0xDFFF) then [0xEF, 0xBF, 0xBD]
  else
    let n := r.toNat
    if n < 0x80 then [UInt8.ofNat n]
    else if n < 0x800 then [UInt8.ofNat (0xC0 + n / 64), UInt8.ofNat (0x80 + n % 64)]
    else if n < 0x10000 then
      [UInt8.ofNat (0xE0 + n / 4096), UInt8.ofNat (0x80 + n / 64 % 64), UInt8.ofNat (0x80 + n % 64)]
    else
      [UInt8.ofNat (0xF0 + n / 262144), UInt8.ofNat (0x80 + n / 4096 % 64),
       UInt8.ofNat (0x80 + n / 64 % 64), UInt8.ofNat (0x80 + n % 64)]

def digitsVal : Bytes → Nat → Option Nat
  | [], acc => some acc
  | d :: ds, acc => if 48 ≤ d.toNat ∧ d.toNat ≤ 57 then digitsVal ds (acc * 10 + (d.toNat - 48)) else none

/-- `strconv.ParseInt(s, 10, 64)`; `none` = any error (syntax or range). -/
def parseInt (s : Bytes) : Option (BitVec 64) :=
  let (neg, ds) : Bool × Bytes :=
    match s with
    | c :: rest => if c.toNat = 45 then (true, rest) else if c.toNat = 43 then (false, rest) else (false, s)
    | [] => (false, [])
  match ds with
  | [] => none
  | _ =>
    match digitsVal ds 0 with
    | none => none
    | some n =>
      if neg then (if n ≤ 2 ^ 63 then some (BitVec.ofInt 64 (-(n : Int))) else none)
      else (if n < 2 ^ 63 then some (BitVec.ofNat 64 n) else none)

/-! ### values -/

inductive Kind where
  | undefined | bool | int | float | char | string | bytes | array | immutableArray | map | immutableMap
  | error | time | compiledFunction | builtinFunction | userFunction
  deriving DecidableEq, Repr

mutual
  inductive Value where
    | undef
    | bool (b : Bool)
    | int (n : BitVec 64)
    | float (bits : BitVec 64)
    | char (c : BitVec 32)
    | str (s : Bytes)
    | bytes (s : Bytes)
    | arr (xs : VList)
    | imarr (xs : VList)
    | map (es : VMap)
    | immap (es : VMap)
    | err (id : Nat) (v : Value)
    | time (ns : Int)
    | fn
    | builtin (name : Bytes)
    | userfn
    deriving DecidableEq
  inductive VList where
    | nil
    | cons (v : Value) (tl : VList)
    deriving DecidableEq
  inductive VMap where
    | nil
    | cons (k : Bytes) (v : Value) (tl : VMap)
    deriving DecidableEq
end

instance : Inhabited Value := ⟨.undef⟩

def Value.kind : Value → Kind
  | .undef => .undefined | .bool _ => .bool | .int _ => .int | .float _ => .float | .char _ => .char
  | .str _ => .string | .bytes _ => .bytes | .arr _ => .array | .imarr _ => .immutableArray
  | .map _ => .map | .immap _ => .immutableMap | .err _ _ => .error | .time _ => .time
  | .fn => .compiledFunction | .builtin _ => .builtinFunction | .userfn => .userFunction

def VList.isNil : VList → Bool
  | .nil => true
  | .cons _ _ => false

def VMap.isNil : VMap → Bool
  | .nil => true
  | .cons _ _ _ => false

/-- `time.Time{}` (January 1, year 1 UTC) in Unix nanoseconds -/
def zeroTimeNs : Int := -62135596800 * 1000000000

/-! ### Equals (one arm per receiver type, as in objects.go) -/

mutual
  def equals : Value → Value → Bool
    | .undef, b => match b with | .undef => true | _ => false          -- o == x (singleton)
    | .bool x, b => match b with | .bool y => x == y | _ => false       -- o == x (TrueValue/FalseValue)
    | .int x, b =>
      match b with
      | .int y => x == y
      | .float f => F64.eq (F64.ofInt x.toInt) f
      | _ => false
    | .float f, b =>
      match b with
      | .float g => F64.eq f g
      | .int y => F64.eq f (F64.ofInt y.toInt)
      | _ => false
    | .char c, b => match b with | .char d => c == d | _ => false
    | .str s, b => match b with | .str t => s == t | _ => false
    | .bytes s, b => match b with | .bytes t => s == t | _ => false
    | .arr xs, b => match b with | .arr ys => eqList xs ys | .imarr ys => eqList xs ys | _ => false
    | .imarr xs, b => match b with | .arr ys => eqList xs ys | .imarr ys => eqList xs ys | _ => false
    | .map es, b => match b with | .map fs => eqMap es fs | .immap fs => eqMap es fs | _ => false
    | .immap es, b => match b with | .map fs => eqMap es fs | .immap fs => eqMap es fs | _ => false
    | .err i _, b => match b with | .err j _ => i == j && i != 0 | _ => false   -- pointer equality
    | .time m, b => match b with | .time n => m == n | _ => false       -- Time.Equal
    | .fn, _ => false
    | .builtin _, _ => false
    | .userfn, _ => false
  def eqList : VList → VList → Bool
    | .nil, ys => ys.isNil
    | .cons x xs, ys => match ys with | .cons y ys' => equals x y && eqList xs ys' | .nil => false
  def eqMap : VMap → VMap → Bool
    | .nil, fs => fs.isNil
    | .cons k v es, fs => match fs with | .cons k' v' fs' => k == k' && equals v v' && eqMap es fs' | .nil => false
end

/-- vm.go OpEqual / OpNotEqual: the pushed boolean -/
def opEqual (a b : Value) : Bool := if equals a b then true else false
def opNotEqual (a b : Value) : Bool := if equals a b then false else true

/-! ### comparison arms of BinaryOp -/

inductive CmpOp where
  | lt | le | gt | ge
  deriving DecidableEq, Repr

def CmpOp.holds : CmpOp → Ordering → Bool
  | .lt, .lt => true | .lt, _ => false
  | .le, .gt => false | .le, _ => true
  | .gt, .gt => true | .gt, _ => false
  | .ge, .lt => false | .ge, _ => true

/-- bytewise lexicographic order: Go's `<` on strings -/
def cmpBytes : Bytes → Bytes → Ordering
  | [], [] => .eq
  | [], _ :: _ => .lt
  | _ :: _, [] => .gt
  | a :: as, b :: bs =>
    match cmpInt a.toNat b.toNat with
    | .eq => cmpBytes as bs
    | o => o

/-- how a pair of operands relates under `< <= > >=` -/
inductive Ord3 where
  | invalid                 -- ErrInvalidOperator
  | unordered               -- every comparison is false (NaN)
  | ord (o : Ordering)
  deriving DecidableEq, Repr

def Ord3.ofFloat : Option Ordering → Ord3
  | none => .unordered
  | some o => .ord o

def ordOf : Value → Value → Ord3
  | .int x, .int y => .ord (cmpInt x.toInt y.toInt)
  | .int x, .float f => .ofFloat (F64.cmp (F64.ofInt x.toInt) f)
  | .int x, .char c => .ord (cmpInt x.toInt c.toInt)
  | .float f, .float g => .ofFloat (F64.cmp f g)
  | .float f, .int y => .ofFloat (F64.cmp f (F64.ofInt y.toInt))
  | .char c, .char d => .ord (cmpInt c.toInt d.toInt)
  | .char c, .int y => .ord (cmpInt c.toInt y.toInt)
  | .str s, .str t => .ord (cmpBytes s t)
  | .time m, .time n => .ord (cmpInt m n)
  | _, _ => .invalid

/-- `a.BinaryOp(op, b)` for a comparison token: `none` = ErrInvalidOperator. -/
def Ord3.result (op : CmpOp) : Ord3 → Option Bool
  | .invalid => none
  | .unordered => some false
  | .ord o => some (op.holds o)

def binaryCmp (op : CmpOp) (a b : Value) : Option Bool := (ordOf a b).result op

/-! ### IsFalsy -/

def isFalsy : Value → Bool
  | .undef => true
  | .bool b => !b
  | .int n => n == 0
  | .float f => F64.isNaN f
  | .char c => c == 0
  | .str s => s.isEmpty
  | .bytes s => s.isEmpty
  | .arr xs => xs.isNil
  | .imarr xs => xs.isNil
  | .map es => es.isNil
  | .immap es => es.isNil
  | .err _ _ => true
  | .time n => n == zeroTimeNs
  | .fn => false
  | .builtin _ => false
  | .userfn => false

/-! ### Copy -/

mutual
  def copy : Value → Value
    | .arr xs => .arr (copyList xs)
    | .imarr xs => .arr (copyList xs)
    | .map es => .map (copyMap es)
    | .immap es => .map (copyMap es)
    | .err _ v => .err 0 (copy v)
    | .undef => .undef
    | .bool b => .bool b
    | .int n => .int n
    | .float f => .float f
    | .char c => .char c
    | .str s => .str s
    | .bytes s => .bytes s
    | .time n => .time n
    | .fn => .fn
    | .builtin _ => .builtin []          -- BuiltinFunction.Copy keeps Value only, not Name
    | .userfn => .userfn
  def copyList : VList → VList
    | .nil => .nil
    | .cons v tl => .cons (copy v) (copyList tl)
  def copyMap : VMap → VMap
    | .nil => .nil
    | .cons k v tl => .cons k (copy v) (copyMap tl)
end

/-! ### String() and the conversions -/

def sepBytes : Bytes := [44, 32]      -- ", "

mutual
  /-- `o.String()`; `none` = depends on an external text function or on Go map iteration order -/
  def objString : Value → Option Bytes
    | .undef => some (asciiBytes "<undefined>")
    | .bool b => some (asciiBytes (if b then "true" else "false"))
    | .int n => some (decimal n.toInt)
    | .float _ => none
    | .char c => some (utf8 c.toInt)
    | .str _ => none
    | .bytes s => some s
    | .arr xs => (joinList xs true).map (fun s => [91] ++ s ++ [93])
    | .imarr xs => (joinList xs true).map (fun s => [91] ++ s ++ [93])
    | .map es => (mapString es).map (fun s => [123] ++ s ++ [125])
    | .immap es => (mapString es).map (fun s => [123] ++ s ++ [125])
    | .err _ v => (objString v).map (fun s => asciiBytes "error: " ++ s)
    | .time _ => none
    | .fn => some (asciiBytes "<compiled-function>")
    | .builtin _ => some (asciiBytes "<builtin-function>")
    | .userfn => some (asciiBytes "<user-function>")
  def joinList : VList → Bool → Option Bytes
    | .nil, _ => some []
    | .cons v tl, first =>
      match objString v, joinList tl false with
      | some s, some r => some ((if first then [] else sepBytes) ++ s ++ r)
      | _, _ => none
  def mapString : VMap → Option Bytes
    | .nil => some []
    | .cons k v tl =>
      match tl with
      | .nil => (objString v).map (fun s => k ++ [58, 32] ++ s)
      | .cons _ _ _ => none
end

/-- tengo.go ToString -/
def toStringV : Value → Option (Option Bytes)     -- outer none = unsupported, inner none = not ok
  | .undef => some none
  | .str s => some (some s)
  | v => (objString v).map some

def toInt64 : Value → Option (Option (BitVec 64))
  | .int n => some (some n)
  | .float f => some (some (F64.toI64 f))
  | .char c => some (some (BitVec.ofInt 64 c.toInt))
  | .bool b => some (some (if b then 1#64 else 0#64))
  | .str s => some (parseInt s)
  | _ => some none

def toFloat64 : Value → Option (Option (BitVec 64))
  | .int n => some (some (F64.ofInt n.toInt))
  | .float f => some (some f)
  | .str _ => none                                   -- strconv.ParseFloat
  | _ => some none

def toBool (v : Value) : Bool := !isFalsy v

def toRune : Value → Option (BitVec 32)
  | .int n => some (n.setWidth 32)
  | .char c => some c
  | _ => none

def toByteSlice : Value → Option Bytes
  | .bytes s => some s
  | .str s => some s
  | _ => none

def wrap64 (x : Int) : Int := (BitVec.ofInt 64 x).toInt

/-- `time.Unix(v, 0)`: the internal second count wraps in int64 -/
def timeOfUnix (v : Int) : Int := (wrap64 (v + 62135596800) - 62135596800) * 1000000000

def toTime : Value → Option Int
  | .time n => some n
  | .int v => some (timeOfUnix v.toInt)
  | _ => none

inductive ConvKind where
  | string | int | float | bool | char | bytes | time
  deriving DecidableEq, Repr

def ConvKind.target : ConvKind → Kind
  | .string => .string | .int => .int | .float => .float | .bool => .bool | .char => .char
  | .bytes => .bytes | .time => .time

inductive ConvRes where
  | ok (v : Value)
  | err (kind : String)
  | panic (kind : String)
  | unsupported (why : String)
  deriving DecidableEq

def maxBytesLen : Int := 2147483647

/-- the tail every conversion builtin but `bool` shares: the default if supplied, else undefined -/
def fallback (dflt : Option Value) : ConvRes := .ok (dflt.getD .undef)

/-- builtins.go builtinString/Int/Float/Bool/Char/Bytes/Time on `(a)` or `(a, dflt)`. -/
def conv (k : ConvKind) (a : Value) (dflt : Option Value) : ConvRes :=
  match k with
  | .string =>
    match a with
    | .str _ => .ok a
    | _ =>
      match toStringV a with
      | none => .unsupported "external-string"
      | some (some s) => .ok (.str s)
      | some none => fallback dflt
  | .int =>
    match a with
    | .int _ => .ok a
    | _ =>
      match toInt64 a with
      | none => .unsupported "external"
      | some (some n) => .ok (.int n)
      | some none => fallback dflt
  | .float =>
    match a with
    | .float _ => .ok a
    | _ =>
      match toFloat64 a with
      | none => .unsupported "strconv.ParseFloat"
      | some (some f) => .ok (.float f)
      | some none => fallback dflt
  | .bool =>
    match dflt with
    | some _ => .err "wrongNumArgs"
    | none =>
      match a with
      | .bool _ => .ok a
      | _ => .ok (.bool (toBool a))
  | .char =>
    match a with
    | .char _ => .ok a
    | _ =>
      match toRune a with
      | some c => .ok (.char c)
      | none => fallback dflt
  | .bytes =>
    match a with
    | .int n =>
      if maxBytesLen < n.toInt then .err "bytesLimit"
      else if n.toInt < 0 then .panic "makeslice"
      else if 65536 < n.toInt then .unsupported "large-allocation"
      else .ok (.bytes (List.replicate n.toInt.toNat 0))
    | _ =>
      match toByteSlice a with
      | some s => .ok (.bytes s)
      | none => fallback dflt
  | .time =>
    match a with
    | .time _ => .ok a
    | _ =>
      match toTime a with
      | some n => .ok (.time n)
      | none => fallback dflt

/-! ### BinaryOp arm table (expectation written from docs/operators.md and objects.go)

`(receiver type, right-hand type, token)`; right-hand type `*` is the `default:` arm of
`String + anything`. Compared with the table regenerated from objects.go in `Props/C10`. -/

def arith4 : List String := ["Add", "Sub", "Mul", "Quo"]
def cmp4 : List String := ["Less", "Greater", "LessEq", "GreaterEq"]
def armsOf (l r : String) (toks : List String) : List (String × String × String) := toks.map (fun t => (l, r, t))

def binaryOpArms : List (String × String × String) :=
  armsOf "Array" "Array" ["Add"] ++
  armsOf "Bytes" "Bytes" ["Add"] ++
  armsOf "Char" "Char" (["Add", "Sub"] ++ cmp4) ++
  armsOf "Char" "Int" (["Add", "Sub"] ++ cmp4) ++
  armsOf "Float" "Float" (arith4 ++ cmp4) ++
  armsOf "Float" "Int" (arith4 ++ cmp4) ++
  armsOf "ImmutableArray" "ImmutableArray" ["Add"] ++
  armsOf "Int" "Int" (arith4 ++ ["Rem", "And", "Or", "Xor", "AndNot", "Shl", "Shr"] ++ cmp4) ++
  armsOf "Int" "Float" (arith4 ++ cmp4) ++
  armsOf "Int" "Char" (["Add", "Sub"] ++ cmp4) ++
  armsOf "String" "String" (["Add"] ++ cmp4) ++
  armsOf "String" "*" ["Add"] ++
  armsOf "Time" "Time" (["Sub"] ++ cmp4) ++
  armsOf "Time" "Int" ["Add", "Sub"]

/-- which Object types implement Equals / IsFalsy / Copy / BinaryOp themselves -/
def methodOverrides : List (String × List String) := [
  ("Array", ["BinaryOp", "Copy", "Equals", "IsFalsy"]),
  ("Bool", ["Copy", "Equals", "IsFalsy"]),
  ("BuiltinFunction", ["Copy", "Equals"]),
  ("Bytes", ["BinaryOp", "Copy", "Equals", "IsFalsy"]),
  ("Char", ["BinaryOp", "Copy", "Equals", "IsFalsy"]),
  ("CompiledFunction", ["Copy", "Equals"]),
  ("Error", ["Copy", "Equals", "IsFalsy"]),
  ("Float", ["BinaryOp", "Copy", "Equals", "IsFalsy"]),
  ("ImmutableArray", ["BinaryOp", "Copy", "Equals", "IsFalsy"]),
  ("ImmutableMap", ["Copy", "Equals", "IsFalsy"]),
  ("Int", ["BinaryOp", "Copy", "Equals", "IsFalsy"]),
  ("Map", ["Copy", "Equals", "IsFalsy"]),
  ("ObjectPtr", ["Copy", "Equals", "IsFalsy"]),
  ("String", ["BinaryOp", "Copy", "Equals", "IsFalsy"]),
  ("Time", ["BinaryOp", "Copy", "Equals", "IsFalsy"]),
  ("Undefined", ["Copy", "Equals", "IsFalsy"]),
  ("UserFunction", ["Copy", "Equals"])]

def Kind.goName : Kind → String
  | .undefined => "Undefined" | .bool => "Bool" | .int => "Int" | .float => "Float" | .char => "Char"
  | .string => "String" | .bytes => "Bytes" | .array => "Array" | .immutableArray => "ImmutableArray"
  | .map => "Map" | .immutableMap => "ImmutableMap" | .error => "Error" | .time => "Time"
  | .compiledFunction => "CompiledFunction" | .builtinFunction => "BuiltinFunction"
  | .userFunction => "UserFunction"

end Tengo.Model.Val

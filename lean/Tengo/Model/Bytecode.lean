import Tengo.Model.Opcodes
/-!
Instruction streams: decoding (`iterateInstructions` / `parser.ReadOperands`) and encoding
(`MakeInstruction`) of compiler.go / instructions.go / parser/opcodes.go. Core Lean only.
-/
namespace Tengo.Model
open Opcodes

abbrev Bytes := List UInt8

/-- A decoded instruction: byte offset in its function, opcode byte, operand values. -/
structure Instr where
  pos  : Nat
  op   : Nat
  args : List Nat
  deriving Repr, DecidableEq, Inhabited

/-- Big-endian value of the first `w` bytes. -/
def beVal (bs : Bytes) : Nat := bs.foldl (fun acc b => acc * 256 + b.toNat) 0

/-- `parser.ReadOperands`: `none` when the stream is truncated (Go: index out of range). -/
def readOperands : List Nat → Bytes → Option (List Nat × Bytes)
  | [], bs => some ([], bs)
  | w :: ws, bs =>
    if bs.length < w then none
    else match readOperands ws (bs.drop w) with
      | none => none
      | some (vs, r) => some (beVal (bs.take w) :: vs, r)

def decodeFuel : Nat → Nat → Bytes → Option (List Instr)
  | _, _, [] => some []
  | 0, _, _ :: _ => none
  | f + 1, pos, b :: rest =>
    match widths b.toNat with
    | none => none
    | some ws =>
      match readOperands ws rest with
      | none => none
      | some (args, rest') =>
        match decodeFuel f (pos + 1 + ws.sum) rest' with
        | none => none
        | some tl => some ({ pos := pos, op := b.toNat, args := args } :: tl)

/-- Decode a whole function body. `none` = the Go decoder would panic. -/
def decode (bs : Bytes) : Option (List Instr) := decodeFuel bs.length 0 bs

/-- Big-endian bytes of `v` in `w` bytes (truncating, as Go's byte conversions do). -/
def beBytes : Nat → Nat → Bytes
  | 0, _ => []
  | w + 1, v => UInt8.ofNat ((v / 256 ^ w) % 256) :: beBytes w v

def encodeOperands : List Nat → List Nat → Bytes
  | w :: ws, v :: vs => beBytes w v ++ encodeOperands ws vs
  | w :: ws, [] => beBytes w 0 ++ encodeOperands ws []     -- MakeInstruction leaves missing operands zero
  | [], _ => []

/-- `MakeInstruction`. -/
def encodeInstr (op : Nat) (args : List Nat) : Bytes :=
  UInt8.ofNat op :: encodeOperands ((widths op).getD []) args

def encode (is : List Instr) : Bytes := is.flatMap (fun i => encodeInstr i.op i.args)

/-- Encoded size of an instruction. -/
def Instr.size (i : Instr) : Nat := 1 + ((widths i.op).getD []).sum

end Tengo.Model

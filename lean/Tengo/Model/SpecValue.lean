import Tengo.Model.SpecAst
/-!
Values, heap and object-level operations of the reference semantics (property C01): operators,
equality, truthiness, indexing, string conversion — written from docs/operators.md,
docs/runtime-types.md and objects.go. Core Lean only. Float arithmetic uses core `Float`
(executable, opaque to proofs).
-/
namespace Tengo.Model.Spec

inductive Value where
  | undef
  | bool (b : Bool)
  | int (v : Int)            -- always within int64
  | float (f : Float)
  | char (v : Int)           -- always within int32
  | str (b : Bytes)
  | bytes (b : Bytes)
  | arr (r : Nat)            -- heap reference to an array header
  | imarr (r : Nat)
  | map (r : Nat)
  | immap (r : Nat)
  | err (r : Nat)            -- identity matters: errors compare by pointer
  | fn (r : Nat)
  | builtin (name : String)
  | cfn (r : Nat)            -- VM model: compiled function object (constant index + captured cells)
  | ptr (r : Nat)            -- VM model: ObjectPtr (a boxed local / captured variable cell)
  | iter (r : Nat)           -- VM model: iterator object
  deriving Inhabited

/-- A scope maps names to heap cells; an environment is a stack of scopes, innermost first. The
Bool marks the function boundary (scope opened by a call). -/
abbrev Scope := List (String × Nat)
structure Frame where
  vars : Scope
  isFn : Bool := false
  deriving Inhabited
abbrev Env := List Frame

structure Closure where
  params  : List String
  varargs : Bool
  body    : List Stmt
  env     : Env

inductive Obj where
  | arr (store off len : Nat)          -- array header over a shared element store (Go slice)
  | store (vs : Array Value) (headers : Nat)   -- elements; number of headers ever created over it
  | map (kvs : List (Bytes × Value))   -- kept sorted by key
  | cell (v : Value) (loopGlobal : Bool)
  | err (v : Value)
  | clos (c : Closure)
  | arrIt (store off len : Nat) (i : Nat)                     -- VM model: ArrayIterator over a live slice
  | listIt (kind : Nat) (items : List (Value × Value)) (i : Nat)   -- VM model: string (0) / bytes (1) / undefined (2) iterators
  | mapIt (m : Nat) (keys : List Bytes) (i : Nat)             -- VM model: MapIterator (keys fixed, values looked up live)
  deriving Inhabited

inductive Err where
  | runtime (msg : String)     -- returned through the VM's error path
  | gopanic (msg : String)     -- a Go run-time panic (recovered by RunContext)
  | unsupported (why : String) -- outside the modelled language: the case is skipped
  | fuel
  | excluded (why : String)    -- result depends on something the property excludes
  deriving Inhabited

structure St where
  heap : Array Obj := #[]
  /-- array header ↦ store of the array `append` built from it: in the real implementation the two may
  share storage, depending on hidden capacity -/
  appendedFrom : List (Nat × Nat) := []
  /-- stores written (element assignment, splice) after they were created -/
  dirty : List Nat := []
  deriving Inhabited

abbrev M := StateT St (Except Err)

def throwE {α} (e : Err) : M α := throw e
def rtErr {α} (msg : String) : M α := throw (Err.runtime msg)
def unsupported {α} (why : String) : M α := throw (Err.unsupported why)

def alloc (o : Obj) : M Nat :=
  modifyGet fun s => (s.heap.size, { s with heap := s.heap.push o })

def getObj (r : Nat) : M Obj := do
  let s ← get
  match s.heap[r]? with
  | some o => pure o
  | none => throw (Err.unsupported "dangling reference")

def setObj (r : Nat) (o : Obj) : M Unit :=
  modify fun s => { s with heap := s.heap.setIfInBounds r o }

/-! ### integers -/

def two63 : Int := 9223372036854775808
def two64 : Int := 18446744073709551616
def minInt64 : Int := -two63
def maxInt64 : Int := two63 - 1

def wrap64 (x : Int) : Int := ((x + two63) % two64) - two63
def wrap32 (x : Int) : Int := ((x + 2147483648) % 4294967296) - 2147483648
def toU64 (x : Int) : Nat := (x % two64).toNat

/-- Go truncated division and remainder on int64 (divisor ≠ 0). -/
def quoT (a b : Int) : Int := wrap64 (Int.tdiv a b)
def remT (a b : Int) : Int := wrap64 (Int.tmod a b)

def shl64 (a b : Int) : Int :=
  let n := toU64 b
  if n ≥ 64 then 0 else wrap64 (a * (2 ^ n))
def shr64 (a b : Int) : Int :=
  let n := toU64 b
  if n ≥ 64 then (if a < 0 then -1 else 0) else a / (2 ^ n)   -- Int `/` floors: arithmetic shift

def bitop (f : Nat → Nat → Nat) (a b : Int) : Int := wrap64 (Int.ofNat (f (toU64 a) (toU64 b)))

/-! ### floats -/

def floatOfInt (v : Int) : Float := Float.ofInt v
/-- Go `int64(f)` on amd64: truncation; NaN and out-of-range give MinInt64. -/
def intOfFloat (f : Float) : Int :=
  if f.isNaN || f ≥ 9223372036854775808.0 || f < -9223372036854775808.0 then minInt64
  else f.toInt64.toInt

/-! ### text -/

def digitChar (n : Nat) : UInt8 := UInt8.ofNat (48 + n)

def natDigits (n : Nat) : Bytes :=
  if n < 10 then [digitChar n] else natDigits (n / 10) ++ [digitChar (n % 10)]
decreasing_by omega

def intToBytes (v : Int) : Bytes :=
  if v < 0 then 45 :: natDigits v.natAbs else natDigits v.natAbs

def strBytes (s : String) : Bytes := s.toUTF8.toList

/-- UTF-8 encoding of a rune as Go's `string(rune)` does (invalid runes become U+FFFD). -/
def encodeRune (r : Int) : Bytes :=
  let r : Nat := if r < 0 || r > 0x10FFFF || (0xD800 ≤ r && r ≤ 0xDFFF) then 0xFFFD else r.toNat
  if r < 0x80 then [UInt8.ofNat r]
  else if r < 0x800 then [UInt8.ofNat (0xC0 + r / 64), UInt8.ofNat (0x80 + r % 64)]
  else if r < 0x10000 then [UInt8.ofNat (0xE0 + r / 4096), UInt8.ofNat (0x80 + (r / 64) % 64), UInt8.ofNat (0x80 + r % 64)]
  else [UInt8.ofNat (0xF0 + r / 262144), UInt8.ofNat (0x80 + (r / 4096) % 64), UInt8.ofNat (0x80 + (r / 64) % 64), UInt8.ofNat (0x80 + r % 64)]

def isCont (b : UInt8) : Bool := b.toNat / 64 == 2

/-- Decode one rune as Go's range-over-string does: (rune, width); invalid bytes give (U+FFFD, 1). -/
def decodeRune : Bytes → Option (Nat × Nat)
  | [] => none
  | b0 :: rest =>
    let n0 := b0.toNat
    if n0 < 0x80 then some (n0, 1)
    else if n0 < 0xC2 then some (0xFFFD, 1)
    else if n0 < 0xE0 then
      match rest with
      | b1 :: _ => if isCont b1 then some ((n0 % 32) * 64 + b1.toNat % 64, 2) else some (0xFFFD, 1)
      | _ => some (0xFFFD, 1)
    else if n0 < 0xF0 then
      match rest with
      | b1 :: b2 :: _ =>
        let r := (n0 % 16) * 4096 + (b1.toNat % 64) * 64 + b2.toNat % 64
        if isCont b1 && isCont b2 && r ≥ 0x800 && !(0xD800 ≤ r && r ≤ 0xDFFF) then some (r, 3) else some (0xFFFD, 1)
      | _ => some (0xFFFD, 1)
    else if n0 < 0xF5 then
      match rest with
      | b1 :: b2 :: b3 :: _ =>
        let r := (n0 % 8) * 262144 + (b1.toNat % 64) * 4096 + (b2.toNat % 64) * 64 + b3.toNat % 64
        if isCont b1 && isCont b2 && isCont b3 && r ≥ 0x10000 && r ≤ 0x10FFFF then some (r, 4) else some (0xFFFD, 1)
      | _ => some (0xFFFD, 1)
    else some (0xFFFD, 1)

/-- `[]rune(s)` -/
def runesFuel : Nat → Bytes → List Nat
  | 0, _ => []
  | f + 1, bs =>
    match decodeRune bs with
    | none => []
    | some (r, w) => r :: runesFuel f (bs.drop w)
def runes (bs : Bytes) : List Nat := runesFuel (bs.length + 1) bs

def hexDigitLower (n : Nat) : UInt8 := if n < 10 then UInt8.ofNat (48 + n) else UInt8.ofNat (87 + n)

/-- `strconv.Quote` for the strings the model supports: ASCII, and valid runes ≥ U+00A1 outside the
ranges where Go's IsPrint needs its tables (those make the case unsupported). -/
def quoteFuel : Nat → Bytes → Option Bytes
  | 0, _ => some []
  | f + 1, bs =>
    match bs with
    | [] => some []
    | b :: rest =>
      let n := b.toNat
      if n < 0x80 then
        let esc : Option Bytes :=
          if n == 34 then some [92, 34] else if n == 92 then some [92, 92]
          else if n == 7 then some [92, 97] else if n == 8 then some [92, 98] else if n == 12 then some [92, 102]
          else if n == 10 then some [92, 110] else if n == 13 then some [92, 114] else if n == 9 then some [92, 116]
          else if n == 11 then some [92, 118]
          else if n < 0x20 || n == 0x7f then some [92, 120, hexDigitLower (n / 16), hexDigitLower (n % 16)]
          else some [b]
        match esc, quoteFuel f rest with
        | some e, some tl => some (e ++ tl)
        | _, _ => none
      else
        match decodeRune bs with
        | some (r, w) =>
          if w == 1 then        -- invalid byte: \xNN
            (quoteFuel f rest).map (fun tl => [92, 120, hexDigitLower (n / 16), hexDigitLower (n % 16)] ++ tl)
          else if (0xA1 ≤ r && r < 0x300 && r != 0xAD) || (0x3040 ≤ r && r < 0xA000) then
            (quoteFuel f (bs.drop w)).map (fun tl => bs.take w ++ tl)
          else none
        | none => some []
def quote (bs : Bytes) : Option Bytes := (quoteFuel (bs.length + 1) bs).map (fun q => [34] ++ q ++ [34])

/-! ### type names, truthiness -/

def typeName : Value → String
  | .undef => "undefined" | .bool _ => "bool" | .int _ => "int" | .float _ => "float" | .char _ => "char"
  | .str _ => "string" | .bytes _ => "bytes" | .arr _ => "array" | .imarr _ => "immutable-array"
  | .map _ => "map" | .immap _ => "immutable-map" | .err _ => "error" | .fn _ => "compiled-function"
  | .builtin n => "builtin-function:" ++ n
  | .cfn _ => "compiled-function" | .ptr _ => "<free-var>" | .iter _ => "iterator"

/-- Elements of an array value (mutable or immutable). -/
def arrElems (r : Nat) : M (List Value) := do
  let s ← get
  match s.appendedFrom.lookup r with
  | some p => if s.dirty.contains p then
      throw (Err.excluded "read of an array after the result of append() on it was modified (hidden capacity)")
  | none => pure ()
  match ← getObj r with
  | .arr st off len =>
    match ← getObj st with
    | .store vs _ => pure ((vs.toList.drop off).take len)
    | _ => unsupported "bad store"
  | _ => unsupported "bad array ref"

def mapEntries (r : Nat) : M (List (Bytes × Value)) := do
  match ← getObj r with
  | .map kvs => pure kvs
  | _ => unsupported "bad map ref"

/-- Record that the store behind array header `r` is about to be written. -/
def noteWrite (r : Nat) : M Unit := do
  let s ← get
  if (s.appendedFrom.lookup r).isSome then
    throw (Err.excluded "write to an array after append() was applied to it (hidden capacity)")
  match s.heap[r]? with
  | some (.arr st _ _) => set { s with dirty := st :: s.dirty }
  | _ => pure ()

def noteAppend (src result : Nat) : M Unit := do
  let s ← get
  -- a second append to the same array object: in the real implementation both results may share
  -- the spare capacity of the source, so the later one can overwrite elements of the earlier one
  if (s.appendedFrom.lookup src).isSome then
    throw (Err.excluded "append() applied twice to the same array object (hidden capacity)")
  match s.heap[result]? with
  | some (.arr st _ _) => set { s with appendedFrom := (src, st) :: s.appendedFrom }
  | _ => pure ()

def isFalsy : Value → M Bool
  | .undef => pure true
  | .bool b => pure (!b)
  | .int v => pure (v == 0)
  | .float f => pure f.isNaN
  | .char v => pure (v == 0)
  | .str b => pure b.isEmpty
  | .bytes b => pure b.isEmpty
  | .arr r | .imarr r => do pure (← arrElems r).isEmpty
  | .map r | .immap r => do pure (← mapEntries r).isEmpty
  | .err _ => pure true
  | .fn _ => pure false
  | .builtin _ => pure false
  | .cfn _ => pure false
  | .ptr _ => pure false
  | .iter _ => pure true

/-! ### new containers -/

def newArray (vs : List Value) : M Nat := do
  let st ← alloc (.store vs.toArray 1)
  alloc (.arr st 0 vs.length)

def bytesLt : Bytes → Bytes → Bool
  | [], [] => false
  | [], _ :: _ => true
  | _ :: _, [] => false
  | a :: as, b :: bs => if a < b then true else if a > b then false else bytesLt as bs

def mapInsert (k : Bytes) (v : Value) : List (Bytes × Value) → List (Bytes × Value)
  | [] => [(k, v)]
  | (k', v') :: rest =>
    if k == k' then (k, v) :: rest
    else if bytesLt k k' then (k, v) :: (k', v') :: rest
    else (k', v') :: mapInsert k v rest

def newMap (kvs : List (Bytes × Value)) : M Nat :=
  alloc (.map (kvs.foldl (fun acc (k, v) => mapInsert k v acc) []))

/-! ### String() of values (for string concatenation and conversion) -/

def joinBytes (sep : Bytes) : List Bytes → Bytes
  | [] => []
  | [x] => x
  | x :: xs => x ++ sep ++ joinBytes sep xs

/-- `Object.String()`. Floats and multi-entry maps are outside the model (float text is external,
map order is random). -/
def toStringV : Nat → Value → M Bytes
  | 0, _ => throw Err.fuel
  | d + 1, v =>
    match v with
    | .undef => pure (strBytes "<undefined>")
    | .bool b => pure (strBytes (if b then "true" else "false"))
    | .int n => pure (intToBytes n)
    | .float _ => unsupported "float to text"
    | .char c => pure (encodeRune c)
    | .str b => match quote b with
      | some q => pure q
      | none => unsupported "quote of non-ASCII text"
    | .bytes b => pure b
    | .arr r | .imarr r => do
        let es ← arrElems r
        let parts ← es.mapM (toStringV d)
        pure ([91] ++ joinBytes [44, 32] parts ++ [93])
    | .map r | .immap r => do
        let kvs ← mapEntries r
        match kvs with
        | [] => pure [123, 125]
        | [(k, x)] => do let s ← toStringV d x; pure ([123] ++ k ++ [58, 32] ++ s ++ [125])
        | _ => throw (Err.excluded "text of a map with several entries depends on map order")
    | .err r => do
        match ← getObj r with
        | .err x => do let s ← toStringV d x; pure (strBytes "error: " ++ s)
        | _ => unsupported "bad error ref"
    | .fn _ => pure (strBytes "<compiled-function>")
    | .builtin _ => pure (strBytes "<builtin-function>")
    | .cfn _ => pure (strBytes "<compiled-function>")
    | .ptr _ => pure (strBytes "free-var")
    | .iter _ => unsupported "text of an iterator"

/-- `ToString`: strings as they are, undefined has no conversion. -/
def toStringConv (v : Value) : M (Option Bytes) :=
  match v with
  | .undef => pure none
  | .str b => pure (some b)
  | v => do pure (some (← toStringV 64 v))

/-! ### equality -/

def floatEqInt (f : Float) (n : Int) : Bool := f == floatOfInt n

def equalsV : Nat → Value → Value → M Bool
  | 0, _, _ => throw Err.fuel
  | d + 1, a, b =>
    match a, b with
    | .undef, .undef => pure true
    | .bool x, .bool y => pure (x == y)
    | .int x, .int y => pure (x == y)
    | .int x, .float y => pure (floatEqInt y x)
    | .float x, .float y => pure (x == y)
    | .float x, .int y => pure (floatEqInt x y)
    | .char x, .char y => pure (x == y)
    | .str x, .str y => pure (x == y)
    | .bytes x, .bytes y => pure (x == y)
    | .arr x, .arr y | .arr x, .imarr y | .imarr x, .arr y | .imarr x, .imarr y => do
        let xs ← arrElems x
        let ys ← arrElems y
        if xs.length != ys.length then pure false
        else (xs.zip ys).foldlM (fun acc (p, q) => do if acc then equalsV d p q else pure false) true
    | .map x, .map y | .map x, .immap y | .immap x, .map y | .immap x, .immap y => do
        let xs ← mapEntries x
        let ys ← mapEntries y
        if xs.length != ys.length then pure false
        else xs.foldlM (fun acc (k, v) => do
          if !acc then pure false
          else match ys.lookup k with
            | some w => equalsV d v w
            | none => pure false) true     -- Go: v.Equals(nil) is false for every type
    | .err x, .err y => pure (x == y)
    | .fn _, .fn _ => pure false            -- CompiledFunction.Equals is always false
    | .builtin _, .builtin _ => pure false
    | _, _ => pure false

/-! ### binary operators (`Object.BinaryOp`) -/

def boolV (b : Bool) : Value := .bool b

def tokSym : String → String
  | "Add" => "+" | "Sub" => "-" | "Mul" => "*" | "Quo" => "/" | "Rem" => "%" | "And" => "&" | "Or" => "|"
  | "Xor" => "^" | "Shl" => "<<" | "Shr" => ">>" | "AndNot" => "&^" | "Less" => "<" | "Greater" => ">"
  | "LessEq" => "<=" | "GreaterEq" => ">=" | t => t

def invalidOp {α} (l : Value) (tok : String) (r : Value) : M α :=
  rtErr s!"invalid operation: {typeName l} {tokSym tok} {typeName r}"

def cmpResult (tok : String) (lt eq : Bool) : Option Value :=
  match tok with
  | "Less" => some (boolV lt)
  | "Greater" => some (boolV (!lt && !eq))
  | "LessEq" => some (boolV (lt || eq))
  | "GreaterEq" => some (boolV (!lt))
  | _ => none

def floatCmp (tok : String) (x y : Float) : Option Value :=
  match tok with
  | "Less" => some (boolV (x < y))
  | "Greater" => some (boolV (x > y))
  | "LessEq" => some (boolV (x ≤ y))
  | "GreaterEq" => some (boolV (x ≥ y))
  | _ => none

def floatArith (tok : String) (x y : Float) : Option Value :=
  match tok with
  | "Add" => some (.float (x + y)) | "Sub" => some (.float (x - y))
  | "Mul" => some (.float (x * y)) | "Quo" => some (.float (x / y))
  | t => floatCmp t x y

def maxStringLen : Nat := 2147483647

def binaryOp (tok : String) (l r : Value) : M Value := do
  match l, r with
  | .int a, .int b =>
    match tok with
    | "Add" => pure (.int (wrap64 (a + b))) | "Sub" => pure (.int (wrap64 (a - b)))
    | "Mul" => pure (.int (wrap64 (a * b)))
    | "Quo" => if b == 0 then throw (Err.gopanic "runtime error: integer divide by zero") else pure (.int (quoT a b))
    | "Rem" => if b == 0 then throw (Err.gopanic "runtime error: integer divide by zero") else pure (.int (remT a b))
    | "And" => pure (.int (bitop Nat.land a b)) | "Or" => pure (.int (bitop Nat.lor a b))
    | "Xor" => pure (.int (bitop Nat.xor a b))
    | "AndNot" => pure (.int (bitop (fun x y => Nat.land x (Nat.xor y (2 ^ 64 - 1))) a b))
    | "Shl" => pure (.int (shl64 a b)) | "Shr" => pure (.int (shr64 a b))
    | t => match cmpResult t (a < b) (a == b) with
      | some v => pure v
      | none => invalidOp l tok r
  | .int a, .float b =>
    match floatArith tok (floatOfInt a) b with
    | some v => pure v
    | none => invalidOp l tok r
  | .float a, .float b =>
    match floatArith tok a b with
    | some v => pure v
    | none => invalidOp l tok r
  | .float a, .int b =>
    match floatArith tok a (floatOfInt b) with
    | some v => pure v
    | none => invalidOp l tok r
  | .int a, .char b =>
    match tok with
    | "Add" => pure (.char (wrap32 (wrap32 a + b))) | "Sub" => pure (.char (wrap32 (wrap32 a - b)))
    | t => match cmpResult t (a < b) (a == b) with
      | some v => pure v
      | none => invalidOp l tok r
  | .char a, .char b =>
    match tok with
    | "Add" => pure (.char (wrap32 (a + b))) | "Sub" => pure (.char (wrap32 (a - b)))
    | t => match cmpResult t (a < b) (a == b) with
      | some v => pure v
      | none => invalidOp l tok r
  | .char a, .int b =>
    match tok with
    | "Add" => pure (.char (wrap32 (a + wrap32 b))) | "Sub" => pure (.char (wrap32 (a - wrap32 b)))
    | t => match cmpResult t (a < b) (a == b) with
      | some v => pure v
      | none => invalidOp l tok r
  | .str a, _ =>
    match tok, r with
    | "Add", .str b => pure (.str (a ++ b))
    | "Add", _ => do let s ← toStringV 64 r; pure (.str (a ++ s))
    | t, .str b => match cmpResult t (bytesLt a b) (a == b) with
      | some v => pure v
      | none => invalidOp l tok r
    | _, _ => invalidOp l tok r
  | .bytes a, .bytes b => if tok == "Add" then pure (.bytes (a ++ b)) else invalidOp l tok r
  | .arr a, .arr b =>
    if tok == "Add" then do
      let ys ← arrElems b
      if ys.isEmpty then pure l       -- Go returns the left operand itself
      else do
        let xs ← arrElems a
        pure (.arr (← newArray (xs ++ ys)))
    else invalidOp l tok r
  | .imarr a, .imarr b =>
    if tok == "Add" then do
      let xs ← arrElems a
      let ys ← arrElems b
      pure (.arr (← newArray (xs ++ ys)))
    else invalidOp l tok r
  | _, _ => invalidOp l tok r

end Tengo.Model.Spec

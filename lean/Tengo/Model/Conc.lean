/-!
Protocol model of ONE `Compiled.RunContext` call (script.go) together with the dispatch loop of
`VM.run` / `VM.Run` / `VM.Abort` (vm.go), as a transition system with three agents and an arbitrary
scheduler. Core Lean only.

```go
func (c *Compiled) RunContext(ctx context.Context) (err error) {
    c.lock.Lock()                         // caller: start    -> locked
    defer c.lock.Unlock()                 //         unlocking r -> returned r
    v := NewVM(...); ch := make(chan error, 1)
    go func() {                           // caller: locked   -> waiting   (runner: notStarted -> spawned)
        defer func() { if r := recover(); r != nil { switch … { case …: ch <- … } } }()   // runner: recovering -> sending panicErr
        ch <- v.Run()                     // runner: sending m -> done
    }()
    select {
    case <-ctx.Done():                    // caller: waiting  -> ctxTaken
        v.Abort()                         //         ctxTaken -> draining   (aborting := 1)
        <-ch                              //         draining -> unlocking ctxErr
        err = ctx.Err()
    case err = <-ch:                      // caller: waiting  -> unlocking (res m)
    }
    return
}
func (v *VM) Run() (err error) { …reset…; v.run(); atomic.StoreInt64(&v.aborting, 0); … }
                                          // runner: spawned -> poll 0 ; ranOut m -> sending m (aborting := 0)
func (v *VM) run() { for atomic.LoadInt64(&v.aborting) == 0 { …one instruction… } }
                                          // runner: poll i -> exec i | ranOut nilErr ; exec i -> poll (i+1) | ranOut | recovering | crashed
```

The program is abstracted to its behaviour `Beh`: what the `i`-th dispatched instruction does
(continue, finish the run with ok/err, raise a recoverable Go panic, or hit a Go-fatal condition).
A behaviour may be finite or infinite. Every single instruction step is one atomic transition: the
model ASSUMES that every instruction terminates (a long-running native call is outside the claims).
-/
namespace Tengo.Model.Conc

/-- How a run ends (by itself). `goPanic`: a Go run-time panic `recover` catches. `fatal`: a condition
`recover` cannot catch (Go stack exhaustion by native recursion): the host process dies. -/
inductive Outcome where
  | ok | err | goPanic | fatal
  deriving DecidableEq, Repr

/-- What one dispatched instruction does. -/
inductive StepOut where
  | cont
  | fin (o : Outcome)
  deriving DecidableEq, Repr

/-- Program behaviour: the effect of the `i`-th dispatched instruction (0-based). -/
abbrev Beh := Nat → StepOut

/-- The value travelling through `ch`. -/
inductive Msg where
  | nilErr | runErr | panicErr
  deriving DecidableEq, Repr

def Outcome.msg : Outcome → Msg
  | .ok => .nilErr
  | .err => .runErr
  | .goPanic => .panicErr
  | .fatal => .nilErr   -- never sent: the process is dead

/-- What `RunContext` returns. -/
inductive Ret where
  | ctxErr
  | res (m : Msg)
  deriving DecidableEq, Repr

inductive CallerPc where
  | start                -- before c.lock.Lock()
  | locked               -- lock taken; NewVM, make(chan error, 1), go func(){…}() pending
  | waiting              -- at the select
  | ctxTaken             -- chose the ctx.Done() branch; v.Abort() pending
  | draining             -- Abort done; blocked in <-ch
  | unlocking (r : Ret)  -- err assigned; deferred Unlock pending
  | returned (r : Ret)
  deriving DecidableEq, Repr

inductive RunnerPc where
  | notStarted
  | spawned              -- goroutine exists; VM.Run resets the registers
  | poll (i : Nat)       -- loop head before instruction i: atomic.LoadInt64(&v.aborting) == 0
  | exec (i : Nat)       -- guard passed; instruction i is dispatched (VerifProbe fires here)
  | ranOut (m : Msg)     -- v.run() returned; atomic.StoreInt64(&v.aborting, 0) pending
  | recovering           -- a Go panic unwinds into the deferred func: recover(), type switch
  | sending (m : Msg)    -- ch <- m pending
  | done                 -- goroutine exited
  | crashed              -- Go-fatal: the whole process is gone
  deriving DecidableEq, Repr

structure State where
  lockHeld  : Bool
  chan      : Option Msg   -- contents of ch (capacity 1)
  aborting  : Bool         -- v.aborting of the VM of THIS call
  cancelled : Bool         -- ctx.Done() is closed
  cpc       : CallerPc
  rpc       : RunnerPc
  -- ghost state (observations only; never read by a transition)
  sends     : Nat              -- sends performed on ch
  recvs     : Nat              -- receives performed on ch
  runOut    : Option Outcome   -- the run's own outcome once the program ended by itself
  abortCalled : Bool
  stepsAfterAbort : Nat        -- runner transitions taken after v.Abort()
  instrAfterAbort : Nat        -- of which instruction steps
  deriving DecidableEq, Repr

/-- State before the call; `pre` = the context is already cancelled. -/
def init (pre : Bool) : State :=
  { lockHeld := false, chan := none, aborting := false, cancelled := pre, cpc := .start, rpc := .notStarted,
    sends := 0, recvs := 0, runOut := none, abortCalled := false, stepsAfterAbort := 0, instrAfterAbort := 0 }

/-- The result delivered to the embedding program. -/
def State.result (s : State) : Option Ret :=
  match s.cpc with
  | .returned r => some r
  | _ => none

/-- Scheduler choices. `caller preferCtx` resolves the `select` when both cases are ready. -/
inductive Choice where
  | caller (preferCtx : Bool)
  | runner
  | cancel
  deriving DecidableEq, Repr

def Choice.isCaller : Choice → Bool
  | .caller _ => true
  | _ => false

def Choice.isRunner : Choice → Bool
  | .runner => true
  | _ => false

def recvInto (s : State) (r : Ret) : State :=
  { s with chan := none, recvs := s.recvs + 1, cpc := .unlocking r }

def callerStep (s : State) (preferCtx : Bool) : Option State :=
  match s.cpc with
  | .start => if s.lockHeld then none else some { s with lockHeld := true, cpc := .locked }
  | .locked => some { s with aborting := false, chan := none, rpc := .spawned, cpc := .waiting }
  | .waiting =>
    match s.cancelled, s.chan with
    | true, some m => if preferCtx then some { s with cpc := .ctxTaken } else some (recvInto s (.res m))
    | true, none => some { s with cpc := .ctxTaken }
    | false, some m => some (recvInto s (.res m))
    | false, none => none
  | .ctxTaken => some { s with aborting := true, abortCalled := true, cpc := .draining }
  | .draining =>
    match s.chan with
    | some _ => some (recvInto s .ctxErr)
    | none => none
  | .unlocking r => some { s with lockHeld := false, cpc := .returned r }
  | .returned _ => none

/-- Ghost bookkeeping of a runner transition. -/
def tick (s : State) (instr : Bool) : State :=
  if s.abortCalled then
    { s with stepsAfterAbort := s.stepsAfterAbort + 1,
             instrAfterAbort := s.instrAfterAbort + (if instr then 1 else 0) }
  else s

def runnerStep (b : Beh) (s : State) : Option State :=
  match s.rpc with
  | .notStarted => none
  | .spawned => some { tick s false with rpc := .poll 0 }
  | .poll i =>
    if s.aborting then some { tick s false with rpc := .ranOut .nilErr }
    else some { tick s false with rpc := .exec i }
  | .exec i =>
    match b i with
    | .cont => some { tick s true with rpc := .poll (i + 1) }
    | .fin .ok => some { tick s true with rpc := .ranOut .nilErr, runOut := some .ok }
    | .fin .err => some { tick s true with rpc := .ranOut .runErr, runOut := some .err }
    | .fin .goPanic => some { tick s true with rpc := .recovering, runOut := some .goPanic }
    | .fin .fatal => some { tick s true with rpc := .crashed }
  | .ranOut m => some { tick s false with aborting := false, rpc := .sending m }
  | .recovering => some { tick s false with rpc := .sending .panicErr }
  | .sending m =>
    match s.chan with
    | none => some { tick s false with chan := some m, sends := s.sends + 1, rpc := .done }
    | some _ => none
  | .done => none
  | .crashed => none

/-- One transition; `none` = the chosen agent is not enabled. A crashed process does nothing. -/
def step (b : Beh) (s : State) (c : Choice) : Option State :=
  if s.rpc = .crashed then none else
  match c with
  | .caller p => callerStep s p
  | .runner => runnerStep b s
  | .cancel => if s.cancelled then none else some { s with cancelled := true }

def Step (b : Beh) (s s' : State) : Prop := ∃ c, step b s c = some s'

/-- States reachable from `init pre` under any scheduler. -/
inductive Reach (b : Beh) (pre : Bool) : State → Prop
  | init : Reach b pre (init pre)
  | step {s s' : State} (c : Choice) : Reach b pre s → step b s c = some s' → Reach b pre s'

/-- Neither the caller nor the runner can move (the environment may still cancel). -/
def Terminal (b : Beh) (s : State) : Prop :=
  (∀ p, step b s (.caller p) = none) ∧ step b s .runner = none

/-- A disabled choice stutters. -/
def stepD (b : Beh) (s : State) (c : Choice) : State := (step b s c).getD s

/-- The state after `n` choices of the infinite schedule `σ`. -/
def run (b : Beh) (σ : Nat → Choice) (s : State) : Nat → State
  | 0 => s
  | n + 1 => stepD b (run b σ s n) (σ n)

/-- The state after a finite schedule. -/
def runList (b : Beh) (s : State) : List Choice → State
  | [] => s
  | c :: cs => runList b (stepD b s c) cs

/-- Instruction `i` is reached: all earlier instructions continue. -/
def ReachesInstr (b : Beh) (i : Nat) : Prop := ∀ j, j < i → b j = .cont

def FinishesAt (b : Beh) (i : Nat) (o : Outcome) : Prop := ReachesInstr b i ∧ b i = .fin o

def ReachesFatal (b : Beh) : Prop := ∃ i, FinishesAt b i .fatal

def Terminates (b : Beh) : Prop := ∃ i o, FinishesAt b i o

/-- What the NEXT `RunContext` on the same `Compiled` starts from, given the state `s` the previous call
left behind: the lock is whatever `s` left, `NewVM` gives a VM whose `aborting` is 0, `make` a new empty
channel, a new goroutine; `pre` is the new context. -/
def nextCall (s : State) (pre : Bool) : State :=
  { init pre with lockHeld := s.lockHeld }

/-! ### Finite descriptions used by the driver (cancel-at-k stream) -/

/-- Finite description of a behaviour: `fin n o` = `n` continuing instructions, then instruction `n`
ends the run with `o`; `inf` = every instruction continues (`for {}`, unbounded self tail recursion). -/
inductive Prog where
  | fin (n : Nat) (o : Outcome)
  | inf
  deriving DecidableEq, Repr

def Prog.beh : Prog → Beh
  | .fin n o => fun i => if i < n then .cont else .fin o
  | .inf => fun _ => .cont

inductive CancelAt where
  | at (k : Nat)   -- when instruction k is dispatched (runner at `exec k`)
  | pre            -- before the call
  | post           -- after the call returned
  | never
  deriving DecidableEq, Repr

/-- Observable outcome of a call: what was returned and how many instructions were dispatched. -/
structure Obs where
  ret : Ret
  dispatched : Nat
  instrAfterAbort : Nat
  deriving DecidableEq, Repr

def dispatchedOf : RunnerPc → Nat
  | .poll i => i
  | .exec i => i + 1
  | _ => 0

/-- Drive one agent until it is disabled or fuel ends, remembering the highest dispatch count. -/
def drive (b : Beh) (c : Choice) : Nat → State × Nat → State × Nat
  | 0, x => x
  | fuel + 1, (s, d) =>
    match step b s c with
    | none => (s, d)
    | some s' => drive b c fuel (s', max d (dispatchedOf s'.rpc))

/-- Run the runner until it is at `exec k` (or stuck / out of fuel). -/
def driveTo (b : Beh) (k : Nat) : Nat → State × Nat → State × Nat
  | 0, x => x
  | fuel + 1, (s, d) =>
    if s.rpc = .exec k then (s, d) else
    match step b s .runner with
    | none => (s, d)
    | some s' => driveTo b k fuel (s', max d (dispatchedOf s'.rpc))

/-- Canonical extreme schedules after the cancellation point: `callerFirst` = the caller reacts before the
runner moves again; otherwise the runner runs as far as it can (fuel) before the caller looks, and the
caller then prefers `ctx.Done()` (`preferCtx`) or `ch`. Alternates until both are stuck. -/
def settle (b : Beh) (callerFirst preferCtx : Bool) (fuel : Nat) (x : State × Nat) : State × Nat :=
  let x1 := if callerFirst then drive b (.caller true) 8 x else x
  let x2 := drive b .runner fuel x1
  let x3 := drive b (.caller preferCtx) 8 x2
  let x4 := drive b .runner fuel x3
  drive b (.caller preferCtx) 8 x4

def obsOf (x : State × Nat) : Option Obs :=
  match x.1.cpc with
  | .returned r => some { ret := r, dispatched := x.2, instrAfterAbort := x.1.instrAfterAbort }
  | _ => none

/-- The state at the cancellation point of the cancel-at-k stream. -/
def atCancelPoint (b : Beh) (c : CancelAt) (fuel : Nat) : State × Nat :=
  match c with
  | .pre => drive b (.caller false) 2 (init true, 0)   -- Lock, go: now at the select
  | .post | .never => (init false, 0)
  | .at k =>
    let x := drive b (.caller false) 2 (init false, 0)   -- Lock, go: now at the select
    let y := driveTo b k fuel x
    if y.1.rpc = .exec k then ((step b y.1 .cancel).getD y.1, y.2) else y

/-- Outcomes of the canonical schedules (the extremes; everything between them is a legal outcome
too: `dispatched` ranges over the interval, `ret` over the set). -/
def predict (p : Prog) (c : CancelAt) : List Obs :=
  let b := p.beh
  let fuel := match p with
    | .fin n _ => 2 * n + 16
    | .inf => (match c with | .at k => 2 * k + 16 | _ => 16)
  let x := atCancelPoint b c fuel
  let variants := match p with
    | .fin _ _ => [(true, true), (false, true), (false, false)]
    | .inf => [(true, true)]      -- runner-first schedules of an infinite program never settle
  variants.filterMap (fun (cf, pc) => obsOf (settle b cf pc fuel x))

end Tengo.Model.Conc

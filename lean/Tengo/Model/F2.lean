import Tengo.Model.F0
/-!
Fragment F2 = F1 + `break` + `continue` + the three-clause loop `for ; cond; post { body }` (the loop form in
which `continue` is not simply "jump to the condition"). Expressions, their evaluator `F0.eval`, their
compiler `F0.comp` and the machine `F0.step` are those of F0, unchanged.

* `exec` is the fuel-indexed reference semantics: a statement (list) finishes normally (`done`), leaves the
  innermost enclosing loop (`brk`), skips to the next iteration of it (`cont`), fails (`err`), or the fuel runs
  out (`out`, no claim). Loops catch `brk` / `cont` of their bodies.
* `compS bt ct off` mirrors compiler.go (`compileForStmt`, `BranchStmt`): `break` is `JMP bt`, `continue` is
  `JMP ct`, where a loop compiles its body with `bt` = the first byte after the loop (`postStmtPos`) and
  `ct` = the first byte after the body (`postBodyPos`: the post statement of a three-clause loop, otherwise the
  `JMP` back to the condition). The real compiler emits `JMP 0` and back-patches the operand when the loop is
  finished; that this gives the same bytes is `Tengo.Proofs.C01Bridge.compileFile_fragment2`.
  The post statement of a loop is compiled AFTER the loop record is popped, so a `break` in it (the parser never
  produces one) would belong to the enclosing loop: `compS` and `exec` treat it exactly so.
Core Lean only.
-/
namespace Tengo.Model.F2
open Tengo.Model.F0

mutual
  inductive Stm where
    | expr (e : Ex)
    | assign (i : Nat) (e : Ex)
    | ifs (c : Ex) (body : Stms)
    | ifelse (c : Ex) (body els : Stms)
    | whil (c : Ex) (body : Stms)              -- `for c { body }`
    | forever (body : Stms)                     -- `for { body }`
    | for3 (c : Ex) (body : Stms) (post : Stm)  -- `for ; c; post { body }`
    | brk                                       -- `break`
    | cont                                      -- `continue`
  inductive Stms where
    | nil
    | cons (s : Stm) (ss : Stms)
end

/-- A statement or a statement list (one recursion for both). -/
abbrev Code := Stm ⊕ Stms

inductive Res (V : Type) where
  | done (g : Nat → V)     -- finished normally
  | brk (g : Nat → V)      -- `break` of the innermost enclosing loop is under way
  | cont (g : Nat → V)     -- `continue` of the innermost enclosing loop is under way
  | err                    -- run-time error
  | out                    -- fuel exhausted: no claim

variable {V : Type}

/-- Fuel-indexed big-step reference semantics. -/
def exec (S : Sem V) (cs : Nat → V) : Nat → Code → (Nat → V) → Res V
  | 0, _, _ => .out
  | _ + 1, .inl (.expr e), g =>
    match eval S cs g e with
    | none => .err
    | some _ => .done g
  | _ + 1, .inl (.assign i e), g =>
    match eval S cs g e with
    | none => .err
    | some v => .done (upd g i v)
  | f + 1, .inl (.ifs c body), g =>
    match eval S cs g c with
    | none => .err
    | some a => if S.falsy a then .done g else exec S cs f (.inr body) g
  | f + 1, .inl (.ifelse c body els), g =>
    match eval S cs g c with
    | none => .err
    | some a => if S.falsy a then exec S cs f (.inr els) g else exec S cs f (.inr body) g
  | f + 1, .inl (.whil c body), g =>
    match eval S cs g c with
    | none => .err
    | some a =>
      if S.falsy a then .done g
      else match exec S cs f (.inr body) g with
        | .done g1 => exec S cs f (.inl (.whil c body)) g1
        | .cont g1 => exec S cs f (.inl (.whil c body)) g1
        | .brk g1 => .done g1
        | r => r
  | f + 1, .inl (.forever body), g =>
    match exec S cs f (.inr body) g with
    | .done g1 => exec S cs f (.inl (.forever body)) g1
    | .cont g1 => exec S cs f (.inl (.forever body)) g1
    | .brk g1 => .done g1
    | r => r
  | f + 1, .inl (.for3 c body post), g =>
    match eval S cs g c with
    | none => .err
    | some a =>
      if S.falsy a then .done g
      else match exec S cs f (.inr body) g with
        | .done g1 =>
          match exec S cs f (.inl post) g1 with
          | .done g2 => exec S cs f (.inl (.for3 c body post)) g2
          | r => r
        | .cont g1 =>
          match exec S cs f (.inl post) g1 with
          | .done g2 => exec S cs f (.inl (.for3 c body post)) g2
          | r => r
        | .brk g1 => .done g1
        | r => r
  | _ + 1, .inl .brk, g => .brk g
  | _ + 1, .inl .cont, g => .cont g
  | _ + 1, .inr .nil, g => .done g
  | f + 1, .inr (.cons s ss), g =>
    match exec S cs f (.inl s) g with
    | .done g1 => exec S cs f (.inr ss) g1
    | r => r

/-! ### the compiler -/

/-- Encoded size of the code of an expression (it does not depend on the placement). -/
def esz (e : Ex) : Nat := csize (comp 0 e)

mutual
  /-- Encoded size of the code of a statement. -/
  def ssize : Stm → Nat
    | .expr e => esz e + 1
    | .assign _ e => esz e + 3
    | .ifs c body => esz c + 5 + sssize body
    | .ifelse c body els => esz c + 5 + sssize body + 5 + sssize els
    | .whil c body => esz c + 5 + sssize body + 5
    | .forever body => sssize body + 5
    | .for3 c body post => esz c + 5 + sssize body + ssize post + 5
    | .brk => 5
    | .cont => 5
  def sssize : Stms → Nat
    | .nil => 0
    | .cons s ss => ssize s + sssize ss
end

mutual
  /-- `compS bt ct off s`: code of `s` placed at byte offset `off`, inside a loop whose `break` target is `bt`
  and whose `continue` target is `ct` (both irrelevant for a statement without a `break` / `continue` of an
  enclosing loop). Jump operands are absolute. -/
  def compS (bt ct off : Nat) : Stm → List Ins
    | .expr e => comp off e ++ [.pop]
    | .assign i e => comp off e ++ [.setg i]
    | .ifs c body =>
      let bOff := off + esz c + 5
      comp off c ++ [.jmpf (bOff + sssize body)] ++ compSs bt ct bOff body
    | .ifelse c body els =>
      let bOff := off + esz c + 5
      let eOff := bOff + sssize body + 5
      comp off c ++ [.jmpf eOff] ++ compSs bt ct bOff body ++ [.jmp (eOff + sssize els)] ++ compSs bt ct eOff els
    | .whil c body =>
      -- compileForStmt: cond; JMPF end; body; (postBodyPos:) JMP preCondPos; (postStmtPos:)
      let bOff := off + esz c + 5
      let pOff := bOff + sssize body
      comp off c ++ [.jmpf (pOff + 5)] ++ compSs (pOff + 5) pOff bOff body ++ [.jmp off]
    | .forever body =>
      let pOff := off + sssize body
      compSs (pOff + 5) pOff off body ++ [.jmp off]
    | .for3 c body post =>
      -- cond; JMPF end; body; (postBodyPos:) post; JMP preCondPos; (postStmtPos:)
      let bOff := off + esz c + 5
      let pOff := bOff + sssize body
      let eOff := pOff + ssize post + 5
      comp off c ++ [.jmpf eOff] ++ compSs eOff pOff bOff body ++ compS bt ct pOff post ++ [.jmp off]
    | .brk => [.jmp bt]
    | .cont => [.jmp ct]
  def compSs (bt ct off : Nat) : Stms → List Ins
    | .nil => []
    | .cons s ss => compS bt ct off s ++ compSs bt ct (off + ssize s) ss
end

def compC (bt ct off : Nat) : Code → List Ins
  | .inl s => compS bt ct off s
  | .inr ss => compSs bt ct off ss

/-- A whole program: no enclosing loop (the targets are never used when `scopedSs false ss`). -/
def compProg (ss : Stms) : List Ins := compSs 0 0 0 ss

/-! ### `break` / `continue` only inside loops -/

mutual
  /-- Every `break` / `continue` of the statement is inside a loop (of the statement itself, or — when `inl` —
  of its context). What the real compiler demands (`break not allowed outside loop`). -/
  def scopedS (inl : Bool) : Stm → Bool
    | .expr _ => true
    | .assign _ _ => true
    | .ifs _ body => scopedSs inl body
    | .ifelse _ body els => scopedSs inl body && scopedSs inl els
    | .whil _ body => scopedSs true body
    | .forever body => scopedSs true body
    | .for3 _ body post => scopedSs true body && scopedS inl post
    | .brk => inl
    | .cont => inl
  def scopedSs (inl : Bool) : Stms → Bool
    | .nil => true
    | .cons s ss => scopedS inl s && scopedSs inl ss
end

def scopedC (inl : Bool) : Code → Bool
  | .inl s => scopedS inl s
  | .inr ss => scopedSs inl ss

end Tengo.Model.F2

import Tengo.Model.SpecAst
import Tengo.Model.SpecCheck
import Tengo.Model.F0Compile
import Tengo.Model.Bytecode
import Tengo.Model.Optimizer
/-!
Model of the WHOLE bytecode compiler of compiler.go / symbol_table.go for a single-file program
without imports: from the real parser's AST (`Tengo.Model.Spec.Stmt`) to the complete bytecode
(main function bytes, constant pool with every compiled function's bytes / NumLocals /
NumParameters / VarArgs). `MakeInstruction` is `Tengo.Model.encodeInstr`, `optimizeFunc` is
`Tengo.Model.Optimizer.opt`. Tied to the real compiler byte for byte on every generated program by
the `comp` stream of harness/cmd/c01 (`lib.CompModelCompare`). Core Lean only.

Go pointers. `*Symbol` values are shared between the store of the table that defined them and the
`freeSymbols` lists of the function tables that capture them, and `LocalAssigned` is written
through both. The model gives every symbol a fresh `id` and keeps `LocalAssigned` in a side table
indexed by that id (`CState.assigned`); the other fields of a symbol never change after creation.
`*SymbolTable` values are only reachable through the parent chain and used in a stack discipline,
so the chain is a `List Table` (head = current table, last = root). `*loop` values are only reachable
through `c.loops` (a stack) and the local variable of the loop statement that reads them after
`leaveLoop`, so `leaveLoop` returns the popped record.
-/
namespace Tengo.Model.Compiler
open Tengo.Model
open Tengo.Model.Spec (Expr Stmt)
open Tengo.Model.Opcodes

/-! ### results -/

inductive Const where
  | int (v : Int)
  | float (bits : UInt64)
  | char (v : Int)
  | str (b : Spec.Bytes)
  | fn (code : Bytes) (numLocals numParams : Nat) (varargs : Bool)
  deriving Repr, Inhabited

/-- The compiled program: `Bytecode.MainFunction.Instructions`, `Bytecode.Constants` and
`MaxSymbols()` of the root symbol table (what `Script.Compile` sizes the globals with). -/
structure Bytecode' where
  main : Bytes
  consts : List Const
  maxGlobals : Nat
  deriving Repr, Inhabited

inductive CompileErr where
  | err (msg : String)           -- `CompilerError.Err` (one Char per byte, as `Spec.nameOfBytes`)
  | unsupported (why : String)   -- outside the model (imports, broken AST, fuel)
  | panic (why : String)         -- the Go code would panic
  deriving Repr, Inhabited

/-! ### symbol table (symbol_table.go) -/

inductive Scope where
  | global | local | builtin | free
  deriving DecidableEq, Repr, Inhabited

def Scope.goName : Scope → String
  | .global => "GLOBAL" | .local => "LOCAL" | .builtin => "BUILTIN" | .free => "FREE"

structure Sym where
  name : String
  scope : Scope
  index : Nat
  id : Nat            -- identity of the Go pointer; `LocalAssigned` lives in `CState.assigned[id]`
  deriving Repr, Inhabited

structure Table where
  block : Bool := false
  store : List (String × Sym) := []     -- newest entry first (`store[name] = s` shadows older ones)
  numDefinition : Nat := 0
  maxDefinition : Nat := 0
  freeSymbols : List Sym := []          -- the ORIGINAL symbols, in capture order
  deriving Repr, Inhabited

/-- Head = current table, last = root (`parent == nil`). -/
abbrev Chain := List Table

/-- `nextIndex` -/
def nextIndex : Chain → Nat
  | [] => 0
  | t :: ps => if t.block then nextIndex ps + t.numDefinition else t.numDefinition

/-- `updateMaxDefs` -/
def updateMax (k : Nat) : Chain → Chain
  | [] => []
  | t :: ps =>
    let t' := { t with maxDefinition := max t.maxDefinition k }
    if t.block then t' :: updateMax k ps else t' :: ps

/-- `t.Parent(true) == nil` -/
def globalCtx : Chain → Bool
  | [] => true
  | t :: ps => if t.block then globalCtx ps else ps.isEmpty

/-- `Parent(true)` as a chain. -/
def parentSkip : Chain → Chain
  | [] => []
  | t :: ps => if t.block then parentSkip ps else ps

/-- `numDefinition++` of the root table. -/
def incRoot : Chain → Chain
  | [] => []
  | [t] => [{ t with numDefinition := t.numDefinition + 1 }]
  | t :: p :: ps => t :: incRoot (p :: ps)

/-- `Define` with the fresh pointer identity `id`. -/
def defineIn (n : String) (id : Nat) : Chain → Sym × Chain
  | [] => (⟨n, .global, 0, id⟩, [])
  | t :: ps =>
    let idx := nextIndex (t :: ps)
    let glob := globalCtx (t :: ps)
    let sym : Sym := ⟨n, if glob then .global else .local, idx, id⟩
    let t1 := { t with store := (n, sym) :: t.store }
    let c1 := if glob then incRoot (t1 :: ps)
              else { t1 with numDefinition := t1.numDefinition + 1 } :: ps
    (sym, updateMax (idx + 1) c1)

/-- `defineFree` -/
def Table.defineFree (t : Table) (orig : Sym) (id : Nat) : Sym × Table :=
  let s : Sym := ⟨orig.name, .free, t.freeSymbols.length, id⟩
  (s, { t with freeSymbols := t.freeSymbols ++ [orig], store := (orig.name, s) :: t.store })

/-- `Resolve(name, recur)`: `(symbol, depth)`, the chain after the `defineFree` calls, and the next
fresh id. `asg` reads `LocalAssigned`. -/
def resolveIn (asg : Nat → Bool) (n : String) : Chain → Bool → Nat → Option (Sym × Nat) × Chain × Nat
  | [], _, id => (none, [], id)
  | t :: ps, recur, id =>
    let here : Option Sym :=
      match t.store.lookup n with
      | some s => if s.scope != .local || asg s.id || recur then some s else none
      | none => none
    match here with
    | some s => (some (s, 0), t :: ps, id)
    | none =>
      if ps.isEmpty then (none, t :: ps, id)
      else
        match resolveIn asg n ps true id with
        | (none, ps', id') => (none, t :: ps', id')
        | (some (s, d), ps', id') =>
          if !t.block && s.scope != .global && s.scope != .builtin then
            let (fs, t') := t.defineFree s id'
            (some (fs, d + 1), t' :: ps', id' + 1)
          else (some (s, d + 1), t :: ps', id')

/-! ### compiler state -/

/-- `loop` -/
structure Loop where
  continues : List Nat := []
  breaks : List Nat := []
  deriving Repr, Inhabited

/-- `compilationScope` of an ENCLOSING function (the current one is kept in `CState.insts`). -/
structure Saved where
  insts : Array UInt8
  loops : List Loop
  deriving Inhabited

structure CState where
  consts : Array Const := #[]
  tables : Chain := [{}]
  nextId : Nat := 0
  assigned : Array Bool := #[]        -- `LocalAssigned` by symbol id
  insts : Array UInt8 := #[]          -- `c.currentInstructions()`
  saved : List Saved := []            -- enclosing function scopes, innermost first
  loops : List Loop := []             -- `c.loops` of the current function, innermost first
  deriving Inhabited

abbrev CM := StateT CState (Except CompileErr)

def cerr {α} (msg : String) : CM α := throw (.err msg)
def unsupported {α} (why : String) : CM α := throw (.unsupported why)

def isAssigned (s : CState) (id : Nat) : Bool := s.assigned.getD id false

def freshId : CM Nat := modifyGet fun s =>
  (s.nextId, { s with nextId := s.nextId + 1, assigned := s.assigned.push false })

def setAssigned (sym : Sym) : CM Unit := modify fun s =>
  { s with assigned := s.assigned.setIfInBounds sym.id true }

def localAssigned (sym : Sym) : CM Bool := do return isAssigned (← get) sym.id

def define (n : String) : CM Sym := do
  let id ← freshId
  modifyGet fun s =>
    let (sym, c) := defineIn n id s.tables
    (sym, { s with tables := c })

def resolve (n : String) : CM (Option (Sym × Nat)) := modifyGet fun s =>
  let (r, c, id) := resolveIn (isAssigned s) n s.tables false s.nextId
  -- ids handed to `defineFree` symbols: keep the side table as long as `nextId`
  let extra := id - s.nextId
  (r, { s with tables := c, nextId := id, assigned := s.assigned ++ (List.replicate extra false).toArray })

def fork (block : Bool) : CM Unit := modify fun s => { s with tables := { block := block } :: s.tables }
/-- `c.symbolTable = c.symbolTable.Parent(false)` -/
def unfork : CM Unit := modify fun s => { s with tables := s.tables.drop 1 }

/-! ### emission -/

def curPos : CM Nat := do return (← get).insts.size

/-- `emit` (the source map is not modelled). -/
def emit (op : Nat) (args : List Nat := []) : CM Nat := modifyGet fun s =>
  (s.insts.size, { s with insts := s.insts ++ (encodeInstr op args).toArray })

def overwrite (a : Array UInt8) (pos : Nat) : List UInt8 → Array UInt8
  | [] => a
  | b :: bs => overwrite (a.setIfInBounds pos b) (pos + 1) bs

/-- `changeOperand(opPos, operand)` -/
def changeOperand (pos operand : Nat) : CM Unit := modify fun s =>
  match s.insts[pos]? with
  | some op => { s with insts := overwrite s.insts pos (encodeInstr op.toNat [operand]) }
  | none => s

def addConstant (k : Const) : CM Nat := modifyGet fun s =>
  (s.consts.size, { s with consts := s.consts.push k })

def enterLoop : CM Unit := modify fun s => { s with loops := {} :: s.loops }

/-- `leaveLoop`; returns the record the Go code still holds through its local `loop` pointer. -/
def leaveLoop : CM Loop := modifyGet fun s =>
  (s.loops.headD {}, { s with loops := s.loops.drop 1 })

/-- `enterScope` -/
def enterScope : CM Unit := modify fun s =>
  { s with saved := { insts := s.insts, loops := s.loops } :: s.saved, insts := #[], loops := [],
           tables := { block := false } :: s.tables }

/-- `leaveScope`: the finished function's instructions. -/
def leaveScope : CM (Array UInt8) := modifyGet fun s =>
  match s.saved with
  | sv :: rest => (s.insts, { s with insts := sv.insts, loops := sv.loops, saved := rest, tables := parentSkip s.tables })
  | [] => (s.insts, s)

/-- `optimizeFunc` on the current function. -/
def optimizeFunc : CM Unit := do
  let s ← get
  match Optimizer.opt s.insts.toList [] 0 with
  | .ok r => set { s with insts := r.bytes.toArray }
  | .panic w => throw (.panic w)

/-! ### the compiler proper -/

/-- Binary operator token → the instruction. -/
def emitBinary (tok : String) : CM Unit := do
  if tok == "Equal" then discard <| emit opEqual
  else if tok == "NotEqual" then discard <| emit opNotEqual
  else match F0.tokNumbers.lookup tok with
    | some n => discard <| emit opBinaryOp [n]
    | none => unsupported ("binary-operator-" ++ tok)

/-- `resolveAssignLHS` -/
def resolveAssignLHS : Expr → String × List Expr
  | .sel e s => let (n, sels) := resolveAssignLHS e; (n, sels ++ [s])
  | .idx e i => let (n, sels) := resolveAssignLHS e; (n, sels ++ [i])
  | .ident n => (n, [])
  | _ => ("", [])

def emitGet (sym : Sym) : CM Unit :=
  match sym.scope with
  | .global => discard <| emit opGetGlobal [sym.index]
  | .local => discard <| emit opGetLocal [sym.index]
  | .builtin => discard <| emit opGetBuiltin [sym.index]
  | .free => discard <| emit opGetFree [sym.index]

/-- `:it` access of a for-in statement. -/
def emitIt (it : Sym) : CM Unit :=
  if it.scope == .global then discard <| emit opGetGlobal [it.index] else discard <| emit opGetLocal [it.index]

def patchAll (ps : List Nat) (target : Nat) : CM Unit := ps.forM (fun p => changeOperand p target)

mutual
  /-- `Compile` on expressions. The `Nat` is a depth budget (the AST is a nested inductive). -/
  def compileExpr : Nat → Expr → CM Unit
    | 0, _ => unsupported "fuel"
    | d + 1, e =>
      match e with
      | .paren x => compileExpr d x
      | .bin tok l r =>
        if tok == "LAnd" || tok == "LOr" then do
          compileExpr d l
          let jumpPos ← emit (if tok == "LAnd" then opAndJump else opOrJump) [0]
          compileExpr d r
          changeOperand jumpPos (← curPos)
        else do
          compileExpr d l
          compileExpr d r
          emitBinary tok
      | .int v => do let k ← addConstant (.int v); discard <| emit opConstant [k]
      | .float b => do let k ← addConstant (.float b); discard <| emit opConstant [k]
      | .bool b => discard <| emit (if b then opTrue else opFalse)
      | .str b => do let k ← addConstant (.str b); discard <| emit opConstant [k]
      | .char v => do let k ← addConstant (.char v); discard <| emit opConstant [k]
      | .undef => discard <| emit opNull
      | .un tok x => do
          compileExpr d x
          if tok == "Not" then discard <| emit opLNot
          else if tok == "Sub" then discard <| emit opMinus
          else if tok == "Xor" then discard <| emit opBComplement
          else if tok == "Add" then pure ()
          else unsupported ("unary-operator-" ++ tok)
      | .ident n => do
          match ← resolve n with
          | none => cerr s!"unresolved reference '{n}'"
          | some (sym, _) => emitGet sym
      | .arr es => do
          if es.length > 65535 then
            cerr s!"too many elements in array literal ({es.length} > 65535)"
          compileExprs d es
          discard <| emit opArray [es.length]
      | .map kvs => do
          if kvs.length * 2 > 65535 then
            cerr s!"too many elements in map literal ({kvs.length} > 32767)"
          compileKVs d kvs
          discard <| emit opMap [kvs.length * 2]
      | .sel x s => do compileExpr d x; compileExpr d s; discard <| emit opIndex
      | .idx x i => do compileExpr d x; compileExpr d i; discard <| emit opIndex
      | .slice x lo hi => do
          compileExpr d x
          match lo with
          | some l => compileExpr d l
          | none => discard <| emit opNull
          match hi with
          | some h => compileExpr d h
          | none => discard <| emit opNull
          discard <| emit opSliceIndex
      | .func va ps body => do
          enterScope
          ps.forM (fun p => do let s ← define p; setAssigned s)
          compileBlock d body
          optimizeFunc
          let st ← get
          let fnTable := st.tables.headD {}
          let freeSymbols := fnTable.freeSymbols
          let numLocals := fnTable.maxDefinition
          let instructions ← leaveScope
          if numLocals > 256 then
            cerr s!"too many local variables in function: {numLocals} (limit 256)"
          if freeSymbols.length > 255 then
            cerr s!"too many captured variables in function: {freeSymbols.length} (limit 255)"
          freeSymbols.forM (fun s => do
            match s.scope with
            | .local =>
              if !(← localAssigned s) then
                discard <| emit opNull
                discard <| emit opDefineLocal [s.index]
                setAssigned s
              discard <| emit opGetLocalPtr [s.index]
            | .free => discard <| emit opGetFreePtr [s.index]
            | _ => pure ())
          let k ← addConstant (.fn instructions.toList numLocals ps.length va)
          if freeSymbols.length > 0 then discard <| emit opClosure [k, freeSymbols.length]
          else discard <| emit opConstant [k]
      | .call ell f args => do
          if args.length > 255 then
            cerr s!"too many arguments in call ({args.length} > 255)"
          compileExpr d f
          compileExprs d args
          discard <| emit opCall [args.length, if ell then 1 else 0]
      | .imp _ => unsupported "import"
      | .error x => do compileExpr d x; discard <| emit opError
      | .immutable x => do compileExpr d x; discard <| emit opImmutable
      | .cond c t f => do
          compileExpr d c
          let jumpPos1 ← emit opJumpFalsy [0]
          compileExpr d t
          let jumpPos2 ← emit opJump [0]
          changeOperand jumpPos1 (← curPos)
          compileExpr d f
          changeOperand jumpPos2 (← curPos)
      | .bad => unsupported "bad-expression"

  def compileExprs : Nat → List Expr → CM Unit
    | 0, _ => unsupported "fuel"
    | _ + 1, [] => pure ()
    | d + 1, e :: es => do compileExpr d e; compileExprs d es

  /-- Map literal elements: key constant, then the value. -/
  def compileKVs : Nat → List (Spec.Bytes × Expr) → CM Unit
    | 0, _ => unsupported "fuel"
    | _ + 1, [] => pure ()
    | d + 1, (k, v) :: rest => do
        let i ← addConstant (.str k)
        discard <| emit opConstant [i]
        compileExpr d v
        compileKVs d rest

  /-- Selector expressions of an assignment target, right to left. -/
  def compileSelsRev : Nat → List Expr → CM Unit
    | 0, _ => unsupported "fuel"
    | _ + 1, [] => pure ()
    | d + 1, e :: es => do compileSelsRev d es; compileExpr d e

  /-- `compileAssign` -/
  def compileAssign : Nat → List Expr → List Expr → String → CM Unit
    | 0, _, _, _ => unsupported "fuel"
    | d + 1, lhs, rhs, op => do
      if lhs.length > 1 || rhs.length > 1 then cerr "tuple assignment not allowed"
      match lhs, rhs with
      | [l], [r] =>
        let (ident, selectors) := resolveAssignLHS l
        let numSel := selectors.length
        if op == "Define" && numSel > 0 then cerr "operator ':=' not allowed with selector"
        if numSel > 255 then cerr s!"too many selectors in assignment ({numSel} > 255)"
        let isFunc := match r with
          | .func .. => true
          | _ => false
        let resolved ← resolve ident
        let mut symbol : Option Sym := resolved.map Prod.fst
        if op == "Define" then
          match resolved with
          | some (s, 0) => if s.scope != .builtin then cerr s!"'{ident}' redeclared in this block"
          | _ => pure ()
          if isFunc then symbol := some (← define ident)
        else if resolved.isNone then cerr s!"unresolved reference '{ident}'"
        if op != "Assign" && op != "Define" then compileExpr d l
        compileExpr d r
        if op == "Define" && !isFunc then symbol := some (← define ident)
        if op != "Assign" && op != "Define" then
          match F0.tokNumbers.lookup (op.dropEnd 6).toString with
          | some n => discard <| emit opBinaryOp [n]
          | none => unsupported ("assignment-operator-" ++ op)
        compileSelsRev d selectors
        match symbol with
        | none => throw (.panic "nil symbol in compileAssign")
        | some sym =>
          match sym.scope with
          | .global =>
            if numSel > 0 then discard <| emit opSetSelGlobal [sym.index, numSel]
            else discard <| emit opSetGlobal [sym.index]
          | .local =>
            if numSel > 0 then discard <| emit opSetSelLocal [sym.index, numSel]
            else if op == "Define" && !(← localAssigned sym) then discard <| emit opDefineLocal [sym.index]
            else discard <| emit opSetLocal [sym.index]
            setAssigned sym
          | .free =>
            if numSel > 0 then discard <| emit opSetSelFree [sym.index, numSel]
            else discard <| emit opSetFree [sym.index]
          | .builtin => cerr s!"invalid assignment variable scope: {sym.scope.goName}"
      | _, _ => throw (.panic "index out of range (empty assignment side)")

  /-- `Compile` on statements. -/
  def compileStmt : Nat → Stmt → CM Unit
    | 0, _ => unsupported "fuel"
    | d + 1, s =>
      match s with
      | .expr e => do compileExpr d e; discard <| emit opPop
      | .incdec tok e =>
        compileAssign d [e] [.int 1] (if tok == "Dec" then "SubAssign" else "AddAssign")
      | .assign tok lhs rhs => compileAssign d lhs rhs tok
      | .ifs ini c body els => do
          fork true
          match ini with
          | some st => compileStmt d st
          | none => pure ()
          compileExpr d c
          let jumpPos1 ← emit opJumpFalsy [0]
          compileBlock d body
          match els with
          | some st =>
            let jumpPos2 ← emit opJump [0]
            changeOperand jumpPos1 (← curPos)
            compileStmt d st
            changeOperand jumpPos2 (← curPos)
          | none => changeOperand jumpPos1 (← curPos)
          unfork
      | .fors ini c post body => do
          fork true
          match ini with
          | some st => compileStmt d st
          | none => pure ()
          let preCondPos ← curPos
          let postCondPos ← match c with
            | some c => do compileExpr d c; let p ← emit opJumpFalsy [0]; pure (some p)
            | none => pure none
          enterLoop
          compileBlock d body
          let loop ← leaveLoop
          let postBodyPos ← curPos
          match post with
          | some st => compileStmt d st
          | none => pure ()
          discard <| emit opJump [preCondPos]
          let postStmtPos ← curPos
          match postCondPos with
          | some p => changeOperand p postStmtPos
          | none => pure ()
          patchAll loop.breaks postStmtPos
          patchAll loop.continues postBodyPos
          unfork
      | .forin k v it body => do
          fork true
          let itSym ← define ":it"
          compileExpr d it
          discard <| emit opIteratorInit
          if itSym.scope == .global then discard <| emit opSetGlobal [itSym.index]
          else discard <| emit opDefineLocal [itSym.index]
          let preCondPos ← curPos
          emitIt itSym
          discard <| emit opIteratorNext
          let postCondPos ← emit opJumpFalsy [0]
          enterLoop
          if k != "_" then
            let ks ← define k
            emitIt itSym
            discard <| emit opIteratorKey
            if ks.scope == .global then discard <| emit opSetGlobal [ks.index]
            else
              setAssigned ks
              discard <| emit opDefineLocal [ks.index]
          if v != "_" then
            let vs ← define v
            emitIt itSym
            discard <| emit opIteratorValue
            if vs.scope == .global then discard <| emit opSetGlobal [vs.index]
            else
              setAssigned vs
              discard <| emit opDefineLocal [vs.index]
          compileBlock d body
          let loop ← leaveLoop
          let postBodyPos ← curPos
          discard <| emit opJump [preCondPos]
          let postStmtPos ← curPos
          changeOperand postCondPos postStmtPos
          patchAll loop.breaks postStmtPos
          patchAll loop.continues postBodyPos
          unfork
      | .block ss => compileBlock d ss
      | .branch tok => do
          let st ← get
          match st.loops with
          | [] =>
            if tok == "Break" then cerr "break not allowed outside loop"
            else if tok == "Continue" then cerr "continue not allowed outside loop"
            else throw (.panic ("invalid branch statement: " ++ tok))
          | cur :: rest =>
            if tok == "Break" then
              let pos ← emit opJump [0]
              modify fun s => { s with loops := { cur with breaks := cur.breaks ++ [pos] } :: rest }
            else if tok == "Continue" then
              let pos ← emit opJump [0]
              modify fun s => { s with loops := { cur with continues := cur.continues ++ [pos] } :: rest }
            else throw (.panic ("invalid branch statement: " ++ tok))
      | .ret e => do
          if globalCtx (← get).tables then cerr "return not allowed outside function"
          match e with
          | none => discard <| emit opReturn [0]
          | some x => do compileExpr d x; discard <| emit opReturn [1]
      | .export _ => do
          -- `c.scopeIndex != 0`; at top level of a non-module compile the statement is ignored
          if !(← get).saved.isEmpty then cerr "export not allowed inside function"
      | .empty => pure ()
      | .bad => unsupported "bad-statement"

  /-- `Compile` on a `BlockStmt`: an empty block does not open a scope. -/
  def compileBlock : Nat → List Stmt → CM Unit
    | 0, _ => unsupported "fuel"
    | _ + 1, [] => pure ()
    | d + 1, ss => do
        fork true
        compileStmts d ss
        unfork

  def compileStmts : Nat → List Stmt → CM Unit
    | 0, _ => unsupported "fuel"
    | _ + 1, [] => pure ()
    | d + 1, s :: ss => do compileStmt d s; compileStmts d ss
end

/-- The root symbol table as `lib.CompileSource` + `NewCompiler` build it: the builtins, then the inputs with
`Define` (an input named like a builtin replaces the builtin's `store` entry); `NewCompiler` defines the
builtins once more but skips every name that resolves to a non-builtin symbol (fix O32), so the inputs keep
shadowing. -/
def initState (inputs : List String) : CState :=
  let rec builtins (i : Nat) : List String → List (String × Sym) → List (String × Sym)
    | [], acc => acc
    | n :: ns, acc => builtins (i + 1) ns ((n, ⟨n, .builtin, i, i⟩) :: acc)
  let nb := Spec.builtinNames.length
  let s0 : CState :=
    { tables := [{ store := builtins 0 Spec.builtinNames [] }], nextId := nb,
      assigned := (List.replicate nb false).toArray }
  let step (acc : CState) (n : String) : CState :=
    let (_, c) := defineIn n acc.nextId acc.tables
    { acc with tables := c, nextId := acc.nextId + 1, assigned := acc.assigned.push false }
  inputs.foldl step s0

/-- Depth budget of the traversal (the AST reader's own budget is 4000). -/
def fuel : Nat := 1000000

/-- `Compiler.Compile(file)` then `Bytecode()`. -/
def compileFile (ss : List Stmt) (inputs : List String) : Except CompileErr Bytecode' :=
  match (compileStmts fuel ss).run (initState inputs) with
  | .error e => .error e
  | .ok (_, s) =>
    .ok { main := s.insts.toList ++ [UInt8.ofNat opSuspend], consts := s.consts.toList,
          maxGlobals := (s.tables.getLast?.map (·.maxDefinition)).getD 0 }

end Tengo.Model.Compiler

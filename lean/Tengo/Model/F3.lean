import Tengo.Model.F0
/-!
Fragment F3 = F2 + FIRST-ORDER FUNCTIONS (property C01): top-level function definitions
`fK := func(p1, …, pn) { body }` (fixed arity, no variadics, no closures: a body reads and writes GLOBAL slots,
its own parameters and its own local variables), `return e` / `return`, call expressions `f(e1, …, en)` in
expression position and as expression statements, recursion included.

* Syntax (`Ex` / `Exs` / `Stm` / `Stms`, resolved as in F0–F2): additionally the read of a parameter / local
  variable by frame slot (`loc i`), the call `call f args` (the callee is any expression — in practice the read
  of the global slot that holds the function), the local definition / assignment `defl i e` (`x := e`) /
  `setl i e` (`x = e`), `ret e`, `ret0`. A function literal is the constant `lit k` whose pool entry is a
  function: the real compiler emits `CONST k` for a function literal without free variables.
* `Prog`: the main statements and the table of function definitions by CONSTANT index (`fns k = some fd`:
  constant `k` of the pool is the compiled function `fd`; `nlocals` is its `NumLocals`).
* Reference evaluator `evalE` / `evalEs` / `callFn` / `execS` / `execSs` (fuel indexed, mutual): expressions
  now have effects on the globals (through calls); a call evaluates the callee, then the arguments left to
  right, checks that the callee is a function (`Env.asFn`) and the argument count (`wrong number of
  arguments` is an error as in tengo), binds the arguments to FRESH locals (`bindArgs`: every other slot is
  unassigned), runs the body and yields the returned value or undefined. The call stack is the recursion of
  the evaluator. Locals are `Nat → Option V`: reading a slot that was never assigned in this activation is
  `bad` — not a behaviour of the language (the real compiler resolves a name only after its definition), no
  claim is made about it; likewise `break` / `continue` / `return` that leave a function body resp. the main
  program the wrong way (compile errors of the real compiler).
* Compiler `comp` / `compEs` / `compS` / `compSs` / `compFn` / `compProg` mirror compiler.go: `GETL i`,
  `e; DEFL i`, `e; SETL i`, `f; a1; …; an; CALL n`, `e; RET 1`, `RET 0`; a function body is followed by `RET 0`
  (what `optimizeFunc` appends; the dead-code elimination of `optimizeFunc` is NOT modelled here: the code is
  the "unoptimized twin" of `Tengo.Props.C03Source`).
* Machine `step`: ONE value stack `stk` with stack pointer `sp`, the current frame (`fn`, `ip`, `bp`, `dis`)
  and the list of caller frames, exactly as `Tengo.Model.VM`: locals of a frame are the slots `bp + i`, `CALL n`
  finds the callee at `sp - 1 - n`, makes the arguments the first locals of the new frame (`bp = sp - n`,
  `sp = bp + NumLocals`; the other local slots keep whatever the stack held), `RET` writes the result over
  the callee slot `bp - 1` and continues the caller with `sp = bp`. The SELF TAIL CALL rule of vm.go is part
  of the machine (`tailNext`: the callee is the running function and the next instruction is `RET`, or `POP`
  directly followed by `RET`: the frame is reused, `dis` = the result is discarded).
  `err` = run-time error of the VM (operator without value, not callable, wrong number of arguments),
  `stuck` = what is an internal fault of the VM (no instruction at `ip`, operand-stack underflow, `RET` in the
  main function, dangling function constant).
Core Lean only.
-/
namespace Tengo.Model.F3
open Tengo.Model.F0 (Sem upd)

/-! ### syntax -/

mutual
  inductive Ex where
    | lit (k : Nat) | tru | fls | undef | glob (i : Nat)
    | loc (i : Nat)                                  -- parameter / local variable in frame slot `i`
    | bin (tok : Nat) (l r : Ex) | eq (l r : Ex) | ne (l r : Ex)
    | neg (e : Ex) | bnot (e : Ex) | lnot (e : Ex) | plus (e : Ex)
    | cond (c t f : Ex) | land (l r : Ex) | lor (l r : Ex)
    | call (f : Ex) (args : Exs)                     -- `f(a1, …, an)`
  inductive Exs where
    | nil
    | cons (e : Ex) (es : Exs)
end

def Exs.len : Exs → Nat
  | .nil => 0
  | .cons _ es => es.len + 1

mutual
  inductive Stm where
    | expr (e : Ex)
    | assign (i : Nat) (e : Ex)                      -- global slot
    | defl (i : Nat) (e : Ex)                        -- `x := e`, `x` in local slot `i`
    | setl (i : Nat) (e : Ex)                        -- `x = e`, `x` in local slot `i`
    | ifs (c : Ex) (body : Stms)
    | ifelse (c : Ex) (body els : Stms)
    | whil (c : Ex) (body : Stms)
    | forever (body : Stms)
    | for3 (c : Ex) (body : Stms) (post : Stm)
    | brk
    | cont
    | ret (e : Ex)                                   -- `return e`
    | ret0                                           -- `return`
  inductive Stms where
    | nil
    | cons (s : Stm) (ss : Stms)
end

/-- A function definition: constant of the pool. -/
structure FnDef where
  nparams : Nat
  nlocals : Nat          -- `NumLocals` of the compiled function
  body    : Stms

/-- A program: main statements and the function constants by pool index. -/
structure Prog where
  fns  : Nat → Option FnDef
  main : Stms

/-- The data side: the operator semantics of F0, the values of the constants (a function constant has the
function value the VM pushes for it), and which function constant a callable value denotes. -/
structure Env (V : Type) where
  S    : Sem V
  cs   : Nat → V
  asFn : V → Option Nat

/-! ### reference semantics -/

abbrev Locals (V : Type) := Nat → Option V

inductive ERes (V : Type) where
  | val (v : V) (g : Nat → V)
  | err                       -- run-time error
  | out                       -- fuel exhausted: no claim
  | bad                       -- not a behaviour of the language (unassigned local, stray break/return): no claim

inductive EsRes (V : Type) where
  | vals (vs : List V) (g : Nat → V)
  | err
  | out
  | bad

inductive Res (V : Type) where
  | done (g : Nat → V) (l : Locals V)
  | brk (g : Nat → V) (l : Locals V)
  | cont (g : Nat → V) (l : Locals V)
  | ret (v : V) (g : Nat → V)            -- `return` of the enclosing function is under way
  | err
  | out
  | bad

variable {V : Type}

def updL (l : Locals V) (i : Nat) (v : V) : Locals V := fun j => if j = i then some v else l j

/-- Fresh locals of a call: the arguments in slots `0 … n-1`, nothing else assigned. -/
def bindArgs (vs : List V) : Locals V := fun i => vs[i]?

def ERes.toRes : ERes V → Res V
  | .val _ _ => .bad
  | .err => .err
  | .out => .out
  | .bad => .bad

mutual
  def evalE (E : Env V) (P : Prog) : Nat → Ex → (Nat → V) → Locals V → ERes V
    | 0, _, _, _ => .out
    | _ + 1, .lit k, g, _ => .val (E.cs k) g
    | _ + 1, .tru, g, _ => .val (E.S.ofBool true) g
    | _ + 1, .fls, g, _ => .val (E.S.ofBool false) g
    | _ + 1, .undef, g, _ => .val E.S.undef g
    | _ + 1, .glob i, g, _ => .val (g i) g
    | _ + 1, .loc i, g, l =>
      match l i with
      | some v => .val v g
      | none => .bad
    | f + 1, .bin tok a b, g, l =>
      match evalE E P f a g l with
      | .val x g1 =>
        match evalE E P f b g1 l with
        | .val y g2 =>
          match E.S.binop tok x y with
          | some v => .val v g2
          | none => .err
        | r => r
      | r => r
    | f + 1, .eq a b, g, l =>
      match evalE E P f a g l with
      | .val x g1 =>
        match evalE E P f b g1 l with
        | .val y g2 => .val (E.S.ofBool (E.S.eqv x y)) g2
        | r => r
      | r => r
    | f + 1, .ne a b, g, l =>
      match evalE E P f a g l with
      | .val x g1 =>
        match evalE E P f b g1 l with
        | .val y g2 => .val (E.S.ofBool (!E.S.eqv x y)) g2
        | r => r
      | r => r
    | f + 1, .neg a, g, l =>
      match evalE E P f a g l with
      | .val x g1 =>
        match E.S.neg x with
        | some v => .val v g1
        | none => .err
      | r => r
    | f + 1, .bnot a, g, l =>
      match evalE E P f a g l with
      | .val x g1 =>
        match E.S.bnot x with
        | some v => .val v g1
        | none => .err
      | r => r
    | f + 1, .lnot a, g, l =>
      match evalE E P f a g l with
      | .val x g1 => .val (E.S.ofBool (E.S.falsy x)) g1
      | r => r
    | f + 1, .plus a, g, l => evalE E P f a g l
    | f + 1, .cond c t e, g, l =>
      match evalE E P f c g l with
      | .val x g1 => if E.S.falsy x then evalE E P f e g1 l else evalE E P f t g1 l
      | r => r
    | f + 1, .land a b, g, l =>
      match evalE E P f a g l with
      | .val x g1 => if E.S.falsy x then .val x g1 else evalE E P f b g1 l
      | r => r
    | f + 1, .lor a b, g, l =>
      match evalE E P f a g l with
      | .val x g1 => if E.S.falsy x then evalE E P f b g1 l else .val x g1
      | r => r
    | f + 1, .call fe args, g, l =>
      match evalE E P f fe g l with
      | .val fv g1 =>
        match evalEs E P f args g1 l with
        | .vals vs g2 => callFn E P f fv vs g2
        | .err => .err
        | .out => .out
        | .bad => .bad
      | r => r
  /-- Arguments, left to right. -/
  def evalEs (E : Env V) (P : Prog) : Nat → Exs → (Nat → V) → Locals V → EsRes V
    | 0, _, _, _ => .out
    | _ + 1, .nil, g, _ => .vals [] g
    | f + 1, .cons e es, g, l =>
      match evalE E P f e g l with
      | .val v g1 =>
        match evalEs E P f es g1 l with
        | .vals vs g2 => .vals (v :: vs) g2
        | r => r
      | .err => .err
      | .out => .out
      | .bad => .bad
  /-- The call proper: callee and arguments are values. -/
  def callFn (E : Env V) (P : Prog) : Nat → V → List V → (Nat → V) → ERes V
    | 0, _, _, _ => .out
    | f + 1, fv, vs, g =>
      match E.asFn fv with
      | none => .err                                  -- not callable
      | some k =>
        match P.fns k with
        | none => .bad                                -- dangling function constant
        | some fd =>
          if vs.length ≠ fd.nparams then .err         -- wrong number of arguments
          else
            match execSs E P f fd.body g (bindArgs vs) with
            | .done g' _ => .val E.S.undef g'
            | .ret v g' => .val v g'
            | .brk _ _ => .bad
            | .cont _ _ => .bad
            | .err => .err
            | .out => .out
            | .bad => .bad
  def execS (E : Env V) (P : Prog) : Nat → Stm → (Nat → V) → Locals V → Res V
    | 0, _, _, _ => .out
    | f + 1, .expr e, g, l =>
      match evalE E P f e g l with
      | .val _ g1 => .done g1 l
      | r => r.toRes
    | f + 1, .assign i e, g, l =>
      match evalE E P f e g l with
      | .val v g1 => .done (upd g1 i v) l
      | r => r.toRes
    | f + 1, .defl i e, g, l =>
      match evalE E P f e g l with
      | .val v g1 => .done g1 (updL l i v)
      | r => r.toRes
    | f + 1, .setl i e, g, l =>
      match evalE E P f e g l with
      | .val v g1 => .done g1 (updL l i v)
      | r => r.toRes
    | f + 1, .ifs c body, g, l =>
      match evalE E P f c g l with
      | .val a g1 => if E.S.falsy a then .done g1 l else execSs E P f body g1 l
      | r => r.toRes
    | f + 1, .ifelse c body els, g, l =>
      match evalE E P f c g l with
      | .val a g1 => if E.S.falsy a then execSs E P f els g1 l else execSs E P f body g1 l
      | r => r.toRes
    | f + 1, .whil c body, g, l =>
      match evalE E P f c g l with
      | .val a g1 =>
        if E.S.falsy a then .done g1 l
        else match execSs E P f body g1 l with
          | .done g2 l2 => execS E P f (.whil c body) g2 l2
          | .cont g2 l2 => execS E P f (.whil c body) g2 l2
          | .brk g2 l2 => .done g2 l2
          | r => r
      | r => r.toRes
    | f + 1, .forever body, g, l =>
      match execSs E P f body g l with
      | .done g2 l2 => execS E P f (.forever body) g2 l2
      | .cont g2 l2 => execS E P f (.forever body) g2 l2
      | .brk g2 l2 => .done g2 l2
      | r => r
    | f + 1, .for3 c body post, g, l =>
      match evalE E P f c g l with
      | .val a g1 =>
        if E.S.falsy a then .done g1 l
        else match execSs E P f body g1 l with
          | .done g2 l2 =>
            match execS E P f post g2 l2 with
            | .done g3 l3 => execS E P f (.for3 c body post) g3 l3
            | r => r
          | .cont g2 l2 =>
            match execS E P f post g2 l2 with
            | .done g3 l3 => execS E P f (.for3 c body post) g3 l3
            | r => r
          | .brk g2 l2 => .done g2 l2
          | r => r
      | r => r.toRes
    | _ + 1, .brk, g, l => .brk g l
    | _ + 1, .cont, g, l => .cont g l
    | f + 1, .ret e, g, l =>
      match evalE E P f e g l with
      | .val v g1 => .ret v g1
      | r => r.toRes
    | _ + 1, .ret0, g, _ => .ret E.S.undef g
  def execSs (E : Env V) (P : Prog) : Nat → Stms → (Nat → V) → Locals V → Res V
    | 0, _, _, _ => .out
    | _ + 1, .nil, g, l => .done g l
    | f + 1, .cons s ss, g, l =>
      match execS E P f s g l with
      | .done g1 l1 => execSs E P f ss g1 l1
      | r => r
end

/-- Outcome of a whole program. -/
inductive PRes (V : Type) where
  | done (g : Nat → V)
  | err
  | out
  | bad

/-- The reference semantics of a program: the main statements, from globals `g`, no locals. A `break` /
`continue` / `return` that leaves the main program is not a behaviour of the language. -/
def exec (E : Env V) (P : Prog) (f : Nat) (g : Nat → V) : PRes V :=
  match execSs E P f P.main g (fun _ => none) with
  | .done g' _ => .done g'
  | .err => .err
  | .out => .out
  | _ => .bad

/-! ### instructions -/

/-- `F0.Ins` extended by the local-variable, call and return instructions (operands as in
parser/opcodes.go; `CALL n` has the spread flag 0). -/
inductive Ins where
  | const (k : Nat) | getg (i : Nat) | setg (i : Nat) | binop (tok : Nat)
  | eql | neq | minus | bcompl | lnot | tru | fls | null | pop
  | jmpf (t : Nat) | jmp (t : Nat) | andjmp (t : Nat) | orjmp (t : Nat)
  | getl (i : Nat) | setl (i : Nat) | defl (i : Nat)
  | call (n : Nat)
  | ret (withValue : Bool)
  deriving Repr, DecidableEq

def Ins.size : Ins → Nat
  | .const _ | .getg _ | .setg _ => 3
  | .binop _ => 2
  | .jmpf _ | .jmp _ | .andjmp _ | .orjmp _ => 5
  | .getl _ | .setl _ | .defl _ => 2
  | .call _ => 3
  | .ret _ => 2
  | _ => 1

def csize : List Ins → Nat
  | [] => 0
  | i :: is => i.size + csize is

/-! ### the compiler -/

mutual
  /-- Encoded size of the code of an expression. -/
  def esize : Ex → Nat
    | .lit _ => 3 | .tru => 1 | .fls => 1 | .undef => 1 | .glob _ => 3 | .loc _ => 2
    | .bin _ l r => esize l + esize r + 2
    | .eq l r => esize l + esize r + 1
    | .ne l r => esize l + esize r + 1
    | .neg e => esize e + 1 | .bnot e => esize e + 1 | .lnot e => esize e + 1 | .plus e => esize e
    | .cond c t f => esize c + 5 + esize t + 5 + esize f
    | .land l r => esize l + 5 + esize r
    | .lor l r => esize l + 5 + esize r
    | .call f args => esize f + essize args + 3
  def essize : Exs → Nat
    | .nil => 0
    | .cons e es => esize e + essize es
end

mutual
  /-- `comp off e`: code of `e` placed at byte offset `off` of its function (jump operands are absolute). -/
  def comp (off : Nat) : Ex → List Ins
    | .lit k => [.const k]
    | .tru => [.tru]
    | .fls => [.fls]
    | .undef => [.null]
    | .glob i => [.getg i]
    | .loc i => [.getl i]
    | .bin tok l r => comp off l ++ comp (off + esize l) r ++ [.binop tok]
    | .eq l r => comp off l ++ comp (off + esize l) r ++ [.eql]
    | .ne l r => comp off l ++ comp (off + esize l) r ++ [.neq]
    | .neg e => comp off e ++ [.minus]
    | .bnot e => comp off e ++ [.bcompl]
    | .lnot e => comp off e ++ [.lnot]
    | .plus e => comp off e
    | .cond c t f =>
      let tOff := off + esize c + 5
      let fOff := tOff + esize t + 5
      comp off c ++ [.jmpf fOff] ++ comp tOff t ++ [.jmp (fOff + esize f)] ++ comp fOff f
    | .land l r =>
      let rOff := off + esize l + 5
      comp off l ++ [.andjmp (rOff + esize r)] ++ comp rOff r
    | .lor l r =>
      let rOff := off + esize l + 5
      comp off l ++ [.orjmp (rOff + esize r)] ++ comp rOff r
    | .call f args => comp off f ++ compEs (off + esize f) args ++ [.call args.len]
  def compEs (off : Nat) : Exs → List Ins
    | .nil => []
    | .cons e es => comp off e ++ compEs (off + esize e) es
end

mutual
  def ssize : Stm → Nat
    | .expr e => esize e + 1
    | .assign _ e => esize e + 3
    | .defl _ e => esize e + 2
    | .setl _ e => esize e + 2
    | .ifs c body => esize c + 5 + sssize body
    | .ifelse c body els => esize c + 5 + sssize body + 5 + sssize els
    | .whil c body => esize c + 5 + sssize body + 5
    | .forever body => sssize body + 5
    | .for3 c body post => esize c + 5 + sssize body + ssize post + 5
    | .brk => 5
    | .cont => 5
    | .ret e => esize e + 2
    | .ret0 => 2
  def sssize : Stms → Nat
    | .nil => 0
    | .cons s ss => ssize s + sssize ss
end

mutual
  /-- `compS bt ct off s` as `F2.compS`, plus the local, call and return forms. -/
  def compS (bt ct off : Nat) : Stm → List Ins
    | .expr e => comp off e ++ [.pop]
    | .assign i e => comp off e ++ [.setg i]
    | .defl i e => comp off e ++ [.defl i]
    | .setl i e => comp off e ++ [.setl i]
    | .ifs c body =>
      let bOff := off + esize c + 5
      comp off c ++ [.jmpf (bOff + sssize body)] ++ compSs bt ct bOff body
    | .ifelse c body els =>
      let bOff := off + esize c + 5
      let eOff := bOff + sssize body + 5
      comp off c ++ [.jmpf eOff] ++ compSs bt ct bOff body ++ [.jmp (eOff + sssize els)] ++ compSs bt ct eOff els
    | .whil c body =>
      let bOff := off + esize c + 5
      let pOff := bOff + sssize body
      comp off c ++ [.jmpf (pOff + 5)] ++ compSs (pOff + 5) pOff bOff body ++ [.jmp off]
    | .forever body =>
      let pOff := off + sssize body
      compSs (pOff + 5) pOff off body ++ [.jmp off]
    | .for3 c body post =>
      let bOff := off + esize c + 5
      let pOff := bOff + sssize body
      let eOff := pOff + ssize post + 5
      comp off c ++ [.jmpf eOff] ++ compSs eOff pOff bOff body ++ compS bt ct pOff post ++ [.jmp off]
    | .brk => [.jmp bt]
    | .cont => [.jmp ct]
    | .ret e => comp off e ++ [.ret true]
    | .ret0 => [.ret false]
  def compSs (bt ct off : Nat) : Stms → List Ins
    | .nil => []
    | .cons s ss => compS bt ct off s ++ compSs bt ct (off + ssize s) ss
end

/-- A compiled function: a function constant of the pool. -/
structure CFn where
  code    : List Ins
  nparams : Nat
  nlocals : Nat

/-- The body followed by `RET 0` (the instruction `optimizeFunc` appends to a body that does not end in a
`return`; appended here unconditionally — the unoptimized twin). -/
def compFn (fd : FnDef) : CFn :=
  { code := compSs 0 0 0 fd.body ++ [.ret false], nparams := fd.nparams, nlocals := fd.nlocals }

/-- A compiled program: main code and the compiled function constants. -/
structure Mach where
  main : List Ins
  fns  : Nat → Option CFn

def compProg (P : Prog) : Mach :=
  { main := compSs 0 0 0 P.main, fns := fun k => (P.fns k).map compFn }

/-- Code of function index `fn` (0 = main, `k + 1` = function constant `k`), as `VM.Code.fn`. -/
def Mach.code (M : Mach) : Nat → Option (List Ins)
  | 0 => some M.main
  | k + 1 => (M.fns k).map CFn.code

/-! ### the machine -/

/-- A caller's frame. -/
structure Frame where
  fn  : Nat
  ip  : Nat          -- where the caller continues
  bp  : Nat
  dis : Bool         -- `discardResult` mark of the frame
  deriving DecidableEq, Repr

structure St (V : Type) where
  fn      : Nat              -- 0 = main, k + 1 = function constant k
  ip      : Nat              -- byte offset of the next instruction
  bp      : Nat
  sp      : Nat
  stk     : Nat → V          -- the value stack (slots at and above `sp` hold leftovers)
  g       : Nat → V
  dis     : Bool
  callers : List Frame       -- innermost first

/-- Instruction that starts at byte offset `ip`. -/
def fetch : List Ins → Nat → Option Ins
  | [], _ => none
  | i :: _, 0 => some i
  | i :: is, n + 1 => if n + 1 ≥ i.size then fetch is (n + 1 - i.size) else none

/-- The tail-call test of vm.go on the bytes after a `CALL`: `RET`, or `POP` directly followed by `RET`. -/
def tailNext (code : List Ins) (p : Nat) : Bool :=
  match fetch code p with
  | some (.ret _) => true
  | some .pop =>
    match fetch code (p + 1) with
    | some (.ret _) => true
    | _ => false
  | _ => false

def nextIsPop (code : List Ins) (p : Nat) : Bool :=
  match fetch code p with
  | some .pop => true
  | _ => false

/-- `copyArgs` of the VM model: `stk[bp + p] = stk[src + p]` for `p = numArgs - n, …, numArgs - 1`, one after
the other. -/
def copyArgs (stk : Nat → V) (bp src numArgs : Nat) : Nat → (Nat → V)
  | 0 => stk
  | n + 1 =>
    let p := numArgs - (n + 1)
    copyArgs (upd stk (bp + p) (stk (src + p))) bp src numArgs n

inductive SRes (V : Type) where
  | next (s : St V)
  | err                  -- run-time error of the VM
  | stuck                -- internal fault of the VM

/-- One dispatch of `VM.run` for the fragment's opcodes. -/
def step (E : Env V) (M : Mach) (s : St V) : SRes V :=
  match M.code s.fn with
  | none => .stuck
  | some code =>
    match fetch code s.ip with
    | none => .stuck
    | some i =>
      let nip := s.ip + i.size
      let top := s.stk (s.sp - 1)
      let snd := s.stk (s.sp - 2)
      let push (v : V) : SRes V := .next { s with ip := nip, stk := upd s.stk s.sp v, sp := s.sp + 1 }
      let repl1 (v : V) : SRes V := .next { s with ip := nip, stk := upd s.stk (s.sp - 1) v }
      let repl2 (v : V) : SRes V := .next { s with ip := nip, stk := upd s.stk (s.sp - 2) v, sp := s.sp - 1 }
      match i with
      | .const k => push (E.cs k)
      | .tru => push (E.S.ofBool true)
      | .fls => push (E.S.ofBool false)
      | .null => push E.S.undef
      | .getg j => push (s.g j)
      | .getl j => push (s.stk (s.bp + j))
      | .setg j => if s.sp < 1 then .stuck else .next { s with ip := nip, sp := s.sp - 1, g := upd s.g j top }
      | .setl j => if s.sp < 1 then .stuck
        else .next { s with ip := nip, sp := s.sp - 1, stk := upd s.stk (s.bp + j) top }
      | .defl j => if s.sp < 1 then .stuck
        else .next { s with ip := nip, sp := s.sp - 1, stk := upd s.stk (s.bp + j) top }
      | .pop => if s.sp < 1 then .stuck else .next { s with ip := nip, sp := s.sp - 1 }
      | .binop tok => if s.sp < 2 then .stuck
        else match E.S.binop tok snd top with
          | some v => repl2 v
          | none => .err
      | .eql => if s.sp < 2 then .stuck else repl2 (E.S.ofBool (E.S.eqv snd top))
      | .neq => if s.sp < 2 then .stuck else repl2 (E.S.ofBool (!E.S.eqv snd top))
      | .minus => if s.sp < 1 then .stuck
        else match E.S.neg top with
          | some v => repl1 v
          | none => .err
      | .bcompl => if s.sp < 1 then .stuck
        else match E.S.bnot top with
          | some v => repl1 v
          | none => .err
      | .lnot => if s.sp < 1 then .stuck else repl1 (E.S.ofBool (E.S.falsy top))
      | .jmpf t => if s.sp < 1 then .stuck
        else .next { s with ip := (if E.S.falsy top then t else nip), sp := s.sp - 1 }
      | .jmp t => .next { s with ip := t }
      | .andjmp t => if s.sp < 1 then .stuck
        else if E.S.falsy top then .next { s with ip := t } else .next { s with ip := nip, sp := s.sp - 1 }
      | .orjmp t => if s.sp < 1 then .stuck
        else if E.S.falsy top then .next { s with ip := nip, sp := s.sp - 1 } else .next { s with ip := t }
      | .call n =>
        if s.sp < n + 1 then .stuck
        else match E.asFn (s.stk (s.sp - 1 - n)) with
          | none => .err                                   -- not callable
          | some k =>
            match M.fns k with
            | none => .stuck                               -- dangling function constant
            | some cf =>
              if n ≠ cf.nparams then .err                  -- wrong number of arguments
              else if s.fn == k + 1 && tailNext code nip then
                -- self tail call: the frame is reused
                .next { s with ip := 0, sp := s.sp - n - 1,
                               stk := copyArgs s.stk s.bp (s.sp - n) n n,
                               dis := s.dis || nextIsPop code nip }
              else
                .next { s with fn := k + 1, ip := 0, bp := s.sp - n, sp := s.sp - n + cf.nlocals, dis := false,
                               callers := { fn := s.fn, ip := nip, bp := s.bp, dis := s.dis } :: s.callers }
      | .ret wv =>
        if wv && s.sp < 1 then .stuck
        else
          let r := if wv && !s.dis then top else E.S.undef
          match s.callers with
          | [] => .stuck                                   -- return from main
          | c :: rest =>
            .next { fn := c.fn, ip := c.ip, bp := c.bp, sp := s.bp, stk := upd s.stk (s.bp - 1) r, g := s.g,
                    dis := c.dis, callers := rest }

/-- Outcome of running at most `n` dispatches. -/
inductive Out (V : Type) where
  | at (s : St V)
  | err
  | stuck

def runN (E : Env V) (M : Mach) : Nat → St V → Out V
  | 0, s => .at s
  | n + 1, s =>
    match step E M s with
    | .next s' => runN E M n s'
    | .err => .err
    | .stuck => .stuck

/-- The state `VM.Run` starts from: main function, empty stack, no frames. -/
def St.init (stk g : Nat → V) : St V :=
  { fn := 0, ip := 0, bp := 0, sp := 0, stk := stk, g := g, dis := false, callers := [] }

end Tengo.Model.F3

import Tengo.Model.Format
import Tengo.Model.FormatSpec
/-!
`G` for `%U` on integers, written from the package documentation of Go's `fmt` ("`%U` Unicode format: U+1234; same as
"U+%04X""; "`#` … print the character as well: `%#U` prints U+0078 'x'") and checked against `fmtUnicode` of
`$GOROOT/src/fmt/format.go`:

* the operand is taken as an unsigned 64-bit number (a negative int64 `n` prints as `2^64 + n`: `%U` of -1 is
  `U+FFFFFFFFFFFFFFFF`); values above U+10FFFF print their hex digits all the same;
* `U+`, then the upper-case hex digits, at least four, at least `precision` of them (leading zeros);
* with `#`, when the value is a code point (≤ U+10FFFF) that is printable (`strconv.IsPrint`, an EXTERNAL table: the
  parameter `printable`), a blank and the character in single quotes follow;
* width pads with blanks (`-` on the right); the `0` flag never pads `%U` with zeros; `+` and the space flag do nothing.

Core Lean only. Shared with `M`: `digitsRev`/`digitChar` (through `digitsText`) and `encodeRune`, as in `FormatSpec`.
-/
namespace Tengo.Model.FormatSpecU
open Tengo.Model.Format Tengo.Model.FormatSpec

/-- The int64 `n` as Go's `uint64(n)`. -/
def asUnsigned (n : Int) : Nat := (n % 18446744073709551616).toNat

/-- `%U` on an integer; `printable` stands for `strconv.IsPrint` (only consulted with `#` on a code point). -/
def renderU (printable : Nat → Bool) (d : GDir) (n : Int) : Bytes :=
  let u := asUnsigned n
  let ds := digitsText true 16 u
  let digits := List.replicate (max 4 (d.prec.getD 0) - ds.length) 48 ++ ds
  let quoted : Bytes := if d.sharp ∧ u ≤ 0x10FFFF ∧ printable u = true then [32, 39] ++ encodeRune u ++ [39] else []
  field d false ([85, 43] ++ digits ++ quoted)

end Tengo.Model.FormatSpecU

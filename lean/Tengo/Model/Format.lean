/-!
Model `M` of tengo's formatter (`/repo/formatter.go`): `Format` / `doFormat`, the directive parser
(flags, width, precision, `*`, `[n]`), the error renderings and every verb over the five directly
mapped argument types. Core Lean only.

External (parameters, supplied by the harness as an oracle table, nothing assumed about them):
`strconv.AppendFloat`, `Float.String()`, `int64(float)`, `strconv.Quote*`, `strconv.CanBackquote`,
`strconv.IsPrint`. A missing or malformed oracle answer yields `Err.unsupported`.

The format loop takes no fuel: it recurses on the remaining format bytes (`loop`, well-founded on
their length); every sub-parser returns the number of bytes it consumed.

`Err.panic` marks the places where the Go code would panic with something other than
`ErrStringLimit` (writing below index 0 of `intbuf`); `Props/C17` proves it is never returned.

Not modelled because unobservable: `formatter.wid/prec` keep stale values between directives (they
are read only under `widPresent/precPresent`, or to size a scratch buffer: the model's buffer size
is a lower bound of the real one), the `sync.Pool`.
-/
namespace Tengo.Model.Format

abbrev Bytes := List UInt8

inductive Err where
  | limit        -- ErrStringLimit
  | panic        -- any other Go panic
  | unsupported  -- oracle table incomplete / malformed
  deriving DecidableEq, Repr

abbrev R := Except Err Bytes

/-- Arguments: the five directly mapped types. Floats travel as their bit pattern. -/
inductive Arg where
  | int (v : BitVec 64)
  | float (bits : Nat)
  | str (s : Bytes)
  | bool (b : Bool)
  | bytes (s : Bytes)
  deriving Repr

structure Oracle where
  appendFloat : Nat → Nat → Int → Option Bytes   -- bits, verb, prec ↦ strconv.AppendFloat(nil, v, verb, prec, 64)
  floatStr : Nat → Option Bytes                  -- Float.String()
  floatInt : Nat → Option Int                    -- int64(v)
  quote : Bytes → Option Bytes
  quoteAscii : Bytes → Option Bytes
  canBackquote : Bytes → Option Bool
  quoteRune : Nat → Option Bytes
  quoteRuneAscii : Nat → Option Bytes
  isPrint : Nat → Option Bool

def ask {α} : Option α → Except Err α
  | some x => .ok x
  | none => .error .unsupported

/-! ### Verb tables (compared with the regenerated `Gen.FormatVerbs` in Props) -/

def flagChars : List Nat := [35, 48, 43, 45, 32]                     -- # 0 + - space
def boolVerbs : List Nat := [116, 118]                               -- t v
def intVerbs : List Nat := [118, 100, 98, 111, 79, 120, 88, 99, 113, 85]  -- v d b o O x X c q U
def floatVerbs : List Nat := [118, 98, 103, 71, 120, 88, 102, 101, 69, 70] -- v b g G x X f e E F
def stringVerbs : List Nat := [118, 115, 120, 88, 113]               -- v s x X q
def bytesVerbs : List Nat := [118, 100, 115, 120, 88, 113]           -- v d s x X q
def printArgVerbs : List Nat := [84, 118]                            -- T v
def tooLargeBound : Nat := 1000000
/-- The functions of formatter.go that raise `ErrStringLimit` (modelled by `write`, `writePadding`, `fmtSbx`). -/
def limitGuards : List String := ["writePadding", "fmtSbx", "Write", "WriteString", "WriteSingleByte", "WriteRune"]

/-! ### fmtbuf writes (every one guarded by MaxStringLen = `L`) -/

def write (L : Nat) (buf p : Bytes) : R :=
  if buf.length + p.length > L then .error .limit else .ok (buf ++ p)

/-- `writePadding(n)`: `n ≤ 0` writes nothing. -/
def writePadding (L : Nat) (zero : Bool) (buf : Bytes) (n : Int) : R :=
  if n ≤ 0 then .ok buf
  else if buf.length + n.toNat > L then .error .limit
  else .ok (buf ++ List.replicate n.toNat (if zero then 48 else 32))

/-! ### UTF-8 (unicode/utf8 semantics) -/

def inR (lo hi : Nat) (b : UInt8) : Bool := decide (lo ≤ b.toNat) && decide (b.toNat ≤ hi)
def cont (b : UInt8) : Bool := inR 0x80 0xBF b

/-- `utf8.DecodeRune`: (rune, size); invalid or short encodings give (U+FFFD, 1). -/
def decodeRune : Bytes → Nat × Nat
  | [] => (0xFFFD, 0)
  | b0 :: rest =>
    let x := b0.toNat
    if x < 0x80 then (x, 1)
    else if 0xC2 ≤ x ∧ x ≤ 0xDF then
      match rest with
      | b1 :: _ => if cont b1 then ((x % 32) * 64 + b1.toNat % 64, 2) else (0xFFFD, 1)
      | _ => (0xFFFD, 1)
    else if 0xE0 ≤ x ∧ x ≤ 0xEF then
      match rest with
      | b1 :: b2 :: _ =>
        if inR (if x = 0xE0 then 0xA0 else 0x80) (if x = 0xED then 0x9F else 0xBF) b1 && cont b2 then
          (((x % 16) * 64 + b1.toNat % 64) * 64 + b2.toNat % 64, 3)
        else (0xFFFD, 1)
      | _ => (0xFFFD, 1)
    else if 0xF0 ≤ x ∧ x ≤ 0xF4 then
      match rest with
      | b1 :: b2 :: b3 :: _ =>
        if inR (if x = 0xF0 then 0x90 else 0x80) (if x = 0xF4 then 0x8F else 0xBF) b1 && cont b2 && cont b3 then
          ((((x % 8) * 64 + b1.toNat % 64) * 64 + b2.toNat % 64) * 64 + b3.toNat % 64, 4)
        else (0xFFFD, 1)
      | _ => (0xFFFD, 1)
    else (0xFFFD, 1)

/-- `utf8.EncodeRune` / `AppendRune`: invalid runes (surrogates, > U+10FFFF) encode U+FFFD. -/
def encodeRune (r : Nat) : Bytes :=
  if r < 0x80 then [r.toUInt8]
  else if r < 0x800 then [(0xC0 + r / 64).toUInt8, (0x80 + r % 64).toUInt8]
  else if r > 0x10FFFF ∨ (0xD800 ≤ r ∧ r ≤ 0xDFFF) then [0xEF, 0xBF, 0xBD]
  else if r < 0x10000 then [(0xE0 + r / 4096).toUInt8, (0x80 + r / 64 % 64).toUInt8, (0x80 + r % 64).toUInt8]
  else [(0xF0 + r / 262144).toUInt8, (0x80 + r / 4096 % 64).toUInt8, (0x80 + r / 64 % 64).toUInt8, (0x80 + r % 64).toUInt8]

/-- `utf8.RuneCount`: every invalid byte counts as one rune. -/
def runeCount : Bytes → Nat
  | [] => 0
  | b :: t => 1 + runeCount (t.drop ((decodeRune (b :: t)).2 - 1))
termination_by s => s.length
decreasing_by simp [List.length_drop]; omega

/-- `truncateString` / `truncate`: the first `n` runes of `s`. -/
def takeRunes : Nat → Bytes → Bytes
  | 0, _ => []
  | _ + 1, [] => []
  | n + 1, b :: t =>
    let k := (decodeRune (b :: t)).2
    (b :: t).take k ++ takeRunes n ((b :: t).drop k)

/-! ### Formatting state -/

structure Fl where
  minus : Bool := false
  plus : Bool := false
  sharp : Bool := false
  space : Bool := false
  zero : Bool := false
  plusV : Bool := false
  sharpV : Bool := false
  widPresent : Bool := false
  precPresent : Bool := false
  wid : Nat := 0
  prec : Nat := 0
  deriving Repr, DecidableEq

/-- `formatter.pad` / `padString`. -/
def pad (L : Nat) (f : Fl) (buf b : Bytes) : R :=
  if !f.widPresent || f.wid == 0 then write L buf b
  else
    let width : Int := (f.wid : Int) - (runeCount b : Int)
    if !f.minus then do
      let buf ← writePadding L f.zero buf width
      write L buf b
    else do
      let buf ← write L buf b
      writePadding L f.zero buf width

def truncate (f : Fl) (s : Bytes) : Bytes :=
  if f.precPresent then takeRunes f.prec s else s

/-! ### Integers -/

/-- Digits of `u` in base `b`, least significant first: the loops `for u >= b { … u /= b }` of
`fmtInteger` (b ∈ {2, 8, 10, 16}). -/
def digitsRev (b u : Nat) : List Nat :=
  if h : 2 ≤ b ∧ b ≤ u then (u % b) :: digitsRev b (u / b) else [u]
termination_by u
decreasing_by exact Nat.div_lt_self (by omega) (by omega)

/-- `ldigits` / `udigits`. -/
def digitChar (upper : Bool) (d : Nat) : UInt8 :=
  if d < 10 then (48 + d).toUInt8 else if upper then (55 + d).toUInt8 else (87 + d).toUInt8

def digitsOf (upper : Bool) (b u : Nat) : Bytes := (digitsRev b u).reverse.map (digitChar upper)

def zeros (n : Nat) : Bytes := List.replicate n 48

/-- Magnitude and sign of a signed 64-bit value as `fmtInteger` computes them (`u = -u` on uint64). -/
def isNeg (v : BitVec 64) : Bool := v.msb
def mag (v : BitVec 64) : Nat := if v.msb then (-v).toNat else v.toNat

/-- Size of the scratch buffer `fmtInteger` writes into (a lower bound: a stale `f.prec` can only
make the real one larger). -/
def intBufLen (f : Fl) : Nat := if f.widPresent || f.precPresent then max 68 (3 + f.wid + f.prec) else 68

/-- Minimum number of digits: `%.3d` or `%03d` ("if both are specified the zero flag is ignored"). -/
def intPrec (f : Fl) (negative : Bool) : Nat :=
  if f.precPresent then f.prec
  else if f.zero && f.widPresent then (if negative || f.plus || f.space then f.wid - 1 else f.wid)
  else 0

/-- Digits with leading zeros: `for i > 0 && prec > len(buf)-i { buf[i] = '0' }`. -/
def intZeroPad (bufLen prec : Nat) (ds : Bytes) : Bytes :=
  zeros ((if prec > ds.length then min prec bufLen else ds.length) - ds.length) ++ ds

/-- `#`: leading `0b`, `0` (unless the digits already start with one), `0x` / `0X`. -/
def sharpPrefix (f : Fl) (base : Nat) (upper : Bool) (body : Bytes) : Bytes :=
  if f.sharp then
    (if base = 2 then [48, 98]
     else if base = 8 then (if body.head? != some 48 then [48] else [])
     else if base = 16 then [48, if upper then 88 else 120]
     else [])
  else []

def oPrefix (verb : Nat) : Bytes := if verb = 79 then [48, 111] else []      -- %O: "0o"

def signBytes (f : Fl) (negative : Bool) : Bytes :=
  if negative then [45] else if f.plus then [43] else if f.space then [32] else []

/-- The bytes `fmtInteger` assembles right-to-left in `buf` (before padding), or `none` when it
would write below index 0. -/
def intBody (f : Fl) (u : Nat) (negative : Bool) (base : Nat) (verb : Nat) (upper : Bool) : Option Bytes :=
  let body := intZeroPad (intBufLen f) (intPrec f negative) (digitsOf upper base u)
  let out := signBytes f negative ++ oPrefix verb ++ sharpPrefix f base upper body ++ body
  if out.length > intBufLen f then none else some out

/-- `(*formatter).fmtInteger`. -/
def fmtInteger (L : Nat) (f : Fl) (buf : Bytes) (u : Nat) (negative : Bool) (base : Nat) (verb : Nat) (upper : Bool) : R :=
  if f.precPresent && f.prec == 0 && u == 0 then
    writePadding L false buf f.wid
  else
    match intBody f u negative base verb upper with
    | none => .error .panic
    | some out => pad L { f with zero := false } buf out

/-- The ` 'x'` part of `%#U`: present when the code point is printable (`strconv.IsPrint`). -/
def unicodeQuoted (O : Oracle) (f : Fl) (u : Nat) : Except Err Bytes :=
  if f.sharp && decide (u ≤ 0x10FFFF) then
    match O.isPrint u with
    | none => .error .unsupported
    | some false => .ok []
    | some true =>
      if 0xD800 ≤ u ∧ u ≤ 0xDFFF then .error .unsupported   -- IsPrint is false for surrogates
      else .ok ([32, 39] ++ encodeRune u ++ [39])
  else .ok []

/-- The bytes `fmtUnicode` assembles right-to-left (`U+`, zeros up to the precision, hex digits,
quoted character), or `none` when they do not fit its buffer. -/
def unicodeBody (f : Fl) (u : Nat) (quoted : Bytes) : Option Bytes :=
  let big := f.precPresent && decide (f.prec > 4)
  let prec := if big then f.prec else 4
  let bufLen := if big then max 68 (prec + 9) else 68
  let ds := digitsOf true 16 u
  let out := [85, 43] ++ zeros (prec - ds.length) ++ ds ++ quoted
  if out.length > bufLen then none else some out

/-- `fmtUnicode`. -/
def fmtUnicode (O : Oracle) (L : Nat) (f : Fl) (buf : Bytes) (u : Nat) : R :=
  match unicodeQuoted O f u with
  | .error e => .error e
  | .ok quoted =>
    match unicodeBody f u quoted with
    | none => .error .panic
    | some out => pad L { f with zero := false } buf out

/-- `fmtC`. -/
def fmtC (L : Nat) (f : Fl) (buf : Bytes) (c : Nat) : R :=
  pad L f buf (encodeRune (if c > 0x10FFFF then 0xFFFD else c))

/-- `fmtQc` (called only for `c ≤ utf8.MaxRune`). -/
def fmtQc (O : Oracle) (L : Nat) (f : Fl) (buf : Bytes) (c : Nat) : R := do
  let q ← ask (if f.plus then O.quoteRuneAscii c else O.quoteRune c)
  pad L f buf q

/-! ### Strings and bytes -/

def fmtS (L : Nat) (f : Fl) (buf s : Bytes) : R := pad L f buf (truncate f s)

def hexByte (upper : Bool) (c : UInt8) : Bytes := [digitChar upper (c.toNat / 16), digitChar upper (c.toNat % 16)]

/-- The encoding loop of `fmtSbx` over the first `length` bytes. -/
def sbxEnc (f : Fl) (upper : Bool) : Bool → Bytes → Bytes
  | _, [] => []
  | first, c :: rest =>
    (if f.space && !first then (32 : UInt8) :: (if f.sharp then [48, if upper then 88 else 120] else []) else []) ++
      hexByte upper c ++ sbxEnc f upper false rest

/-- Number of bytes to encode: "not more bytes than the precision demands". -/
def sbxLength (f : Fl) (s : Bytes) : Nat := if f.precPresent && decide (f.prec < s.length) then f.prec else s.length

/-- The `width` of the encoding that `fmtSbx` computes before writing (and checks against MaxStringLen). -/
def sbxWidth (f : Fl) (length : Nat) : Nat :=
  if f.space then (if f.sharp then 2 * (2 * length) else 2 * length) + (length - 1)
  else if f.sharp then 2 * length + 2 else 2 * length

def sbxLead (f : Fl) (upper : Bool) : Bytes := if f.sharp then [48, if upper then 88 else 120] else []

/-- `fmtSbx` (strings and byte slices alike). -/
def fmtSbx (L : Nat) (f : Fl) (buf s : Bytes) (upper : Bool) : R :=
  let length := sbxLength f s
  if length = 0 then
    (if f.widPresent then writePadding L f.zero buf f.wid else .ok buf)
  else
    let width := sbxWidth f length
    match (if f.widPresent && decide (f.wid > width) && !f.minus then writePadding L f.zero buf ((f.wid : Int) - width) else .ok buf) with
    | .error e => .error e
    | .ok buf =>
      if buf.length + width > L then .error .limit
      else
        let buf := buf ++ (sbxLead f upper ++ sbxEnc f upper true (s.take length))
        if f.widPresent && decide (f.wid > width) && f.minus then writePadding L f.zero buf ((f.wid : Int) - width) else .ok buf

/-- `fmtQ`. -/
def fmtQ (O : Oracle) (L : Nat) (f : Fl) (buf s : Bytes) : R :=
  let s := truncate f s
  match (if f.sharp then O.canBackquote s else some false) with
  | none => .error .unsupported
  | some true => pad L f buf ([96] ++ s ++ [96])
  | some false =>
    match (if f.plus then O.quoteAscii s else O.quote s) with
    | none => .error .unsupported
    | some q => pad L f buf q

/-! ### Floats: post-processing of the digit string `strconv.AppendFloat` returns -/

/-- The `#` flag pass of `fmtFloat` over `num` (sign at index 0 excluded): returns
(kept prefix incl. sign, hasDecimalPoint, remaining digit budget, tail). -/
def sharpScan (verb : Nat) : Bytes → Int → Bytes × Bool × Int × Bytes
  | [], d => ([], false, d, [])
  | c :: rest, d =>
    if c = 46 then
      let (p, _, d', t) := sharpScan verb rest d
      (c :: p, true, d', t)
    else if c = 112 ∨ c = 80 then ([], false, d, c :: rest)           -- 'p' 'P'
    else if (c = 101 ∨ c = 69) ∧ verb ≠ 120 ∧ verb ≠ 88 then ([], false, d, c :: rest)  -- 'e' 'E'
    else
      let (p, h, d', t) := sharpScan verb rest (d - 1)
      (c :: p, h, d', t)

/-- Sign byte `num[0]` and the rest `num[1:]` of what `AppendFloat` wrote after the reserved sign
slot; `none` for an answer `AppendFloat` cannot give (empty, or a sign only). -/
def floatSplit : Bytes → Option (UInt8 × Bytes)
  | [] => none
  | c0 :: tl => if c0 = 45 ∨ c0 = 43 then (if tl = [] then none else some (c0, tl)) else some (43, c0 :: tl)

/-- The `#` flag: force a decimal point, restore trailing zeros (`%e %f %g`, not `%b`). -/
def sharpFix (verb : Nat) (prec : Int) (rest : Bytes) : Bytes :=
  let digits : Int :=
    if verb = 118 ∨ verb = 103 ∨ verb = 71 ∨ verb = 120 then (if prec = -1 then 6 else prec) else 0
  let (p, hasDot, d, tail) := sharpScan verb rest digits
  p ++ (if hasDot then [] else [46]) ++ zeros d.toNat ++ tail

/-- The end of `fmtFloat`: sign handling and padding of a finite number (`sign` = `num[0]` after the
space substitution, `rest` = `num[1:]`). -/
def floatEmit (L : Nat) (f : Fl) (buf : Bytes) (sign : UInt8) (rest : Bytes) : R :=
  if f.plus || sign != 43 then
    if f.zero && f.widPresent && decide (f.wid > rest.length + 1) then do
      -- sign first, zero padding, then the digits
      let buf ← write L buf [sign]
      let buf ← writePadding L f.zero buf ((f.wid : Int) - (rest.length + 1 : Nat))
      write L buf rest
    else pad L f buf (sign :: rest)
  else pad L f buf rest

/-- `(*formatter).fmtFloat(v, 64, verb, prec)`. -/
def fmtFloatF (O : Oracle) (L : Nat) (f : Fl) (buf : Bytes) (bits : Nat) (verb : Nat) (defPrec : Int) : R :=
  let prec : Int := if f.precPresent then f.prec else defPrec
  match O.appendFloat bits verb prec with
  | none => .error .unsupported
  | some raw =>
    match floatSplit raw with
    | none => .error .unsupported
    | some (sign0, rest) =>
      let sign : UInt8 := if f.space && sign0 = 43 && !f.plus then 32 else sign0
      if rest.head? = some 73 ∨ rest.head? = some 78 then        -- Inf / NaN: never zero padded
        pad L { f with zero := false } buf (if rest.head? = some 78 && !f.space && !f.plus then rest else sign :: rest)
      else floatEmit L f buf sign (if f.sharp && verb ≠ 98 then sharpFix verb prec rest else rest)

/-! ### Arguments -/

def typeName : Arg → Bytes
  | .int _ => [105, 110, 116]
  | .float _ => [102, 108, 111, 97, 116]
  | .str _ => [115, 116, 114, 105, 110, 103]
  | .bool _ => [98, 111, 111, 108]
  | .bytes _ => [98, 121, 116, 101, 115]

def boolText (b : Bool) : Bytes := if b then [116, 114, 117, 101] else [102, 97, 108, 115, 101]

/-- `Object.String()` (`none`: oracle entry missing). -/
def argString (O : Oracle) : Arg → Option Bytes
  | .int v => some ((if isNeg v then [45] else []) ++ digitsOf false 10 (mag v))
  | .float b => O.floatStr b
  | .str s => O.quote s
  | .bool b => some (boolText b)
  | .bytes s => some s

/-- `p.badVerb(verb)`: `%!verb(String()=%v)`. -/
def badVerb (O : Oracle) (L : Nat) (f : Fl) (buf : Bytes) (arg : Arg) (verb : Nat) : R :=
  match argString O arg with
  | none => .error .unsupported
  | some s => do
    let buf ← write L buf [37, 33]
    let buf ← write L buf (encodeRune verb)
    let buf ← write L buf [40]
    let buf ← write L buf s
    let buf ← write L buf [61]
    let buf ← fmtS L f buf s
    write L buf [41]

/-- `fmtBytes` with verb `d`: `[1 2 3]`, every element through `fmtInteger`. -/
def bytesElems (L : Nat) (f : Fl) : Bool → Bytes → Bytes → R
  | _, buf, [] => .ok buf
  | first, buf, c :: rest => do
    let buf ← (if first then .ok buf else write L buf [32])
    let buf ← fmtInteger L f buf c.toNat false 10 100 false
    bytesElems L f false buf rest

def printBool (O : Oracle) (L : Nat) (f : Fl) (buf : Bytes) (b : Bool) (verb : Nat) : R :=
  if verb = 116 then pad L f buf (boolText b) else badVerb O L f buf (.bool b) verb

def printFloat (O : Oracle) (L : Nat) (f : Fl) (buf : Bytes) (bits : Nat) (verb : Nat) : R :=
  if verb = 98 ∨ verb = 103 ∨ verb = 71 ∨ verb = 120 ∨ verb = 88 then fmtFloatF O L f buf bits verb (-1)
  else if verb = 102 ∨ verb = 101 ∨ verb = 69 then fmtFloatF O L f buf bits verb 6
  else if verb = 70 then fmtFloatF O L f buf bits 102 6
  else badVerb O L f buf (.float bits) verb

def printInt (O : Oracle) (L : Nat) (f : Fl) (buf : Bytes) (v : BitVec 64) (verb : Nat) : R :=
  if verb = 100 then fmtInteger L f buf (mag v) (isNeg v) 10 verb false
  else if verb = 98 then fmtInteger L f buf (mag v) (isNeg v) 2 verb false
  else if verb = 111 ∨ verb = 79 then fmtInteger L f buf (mag v) (isNeg v) 8 verb false
  else if verb = 120 then fmtInteger L f buf (mag v) (isNeg v) 16 verb false
  else if verb = 88 then fmtInteger L f buf (mag v) (isNeg v) 16 verb true
  else if verb = 99 then fmtC L f buf v.toNat
  else if verb = 113 then (if v.toNat ≤ 0x10FFFF then fmtQc O L f buf v.toNat else badVerb O L f buf (.int v) verb)
  else if verb = 85 then fmtUnicode O L f buf v.toNat
  else badVerb O L f buf (.int v) verb

def printStr (O : Oracle) (L : Nat) (f : Fl) (buf s : Bytes) (verb : Nat) : R :=
  if verb = 115 then fmtS L f buf s
  else if verb = 120 then fmtSbx L f buf s false
  else if verb = 88 then fmtSbx L f buf s true
  else if verb = 113 then fmtQ O L f buf s
  else badVerb O L f buf (.str s) verb

def printBytes (O : Oracle) (L : Nat) (f : Fl) (buf s : Bytes) (verb : Nat) : R :=
  if verb = 100 then do
    let buf ← write L buf [91]
    let buf ← bytesElems L f true buf s
    write L buf [93]
  else if verb = 115 then fmtS L f buf s
  else if verb = 120 then fmtSbx L f buf s false
  else if verb = 88 then fmtSbx L f buf s true
  else if verb = 113 then fmtQ O L f buf s
  else .ok buf                                              -- no default arm in fmtBytes

/-- `p.printArg(arg, verb)`. -/
def printArg (O : Oracle) (L : Nat) (f : Fl) (buf : Bytes) (arg : Arg) (verb : Nat) : R :=
  if verb = 84 then fmtS L f buf (typeName arg)                -- %T
  else if verb = 118 then                                       -- %v: fmtS(arg.String())
    match argString O arg with
    | none => .error .unsupported
    | some s => fmtS L f buf s
  else
    match arg with
    | .bool b => printBool O L f buf b verb
    | .float bits => printFloat O L f buf bits verb
    | .int v => printInt O L f buf v verb
    | .str s => printStr O L f buf s verb
    | .bytes s => printBytes O L f buf s verb

/-! ### `ToInt64` for `*` width / precision -/

/-- Decimal digits only: value, or none. -/
def parseDigits : Bytes → Nat → Option Nat
  | [], acc => some acc
  | c :: rest, acc => if 48 ≤ c.toNat ∧ c.toNat ≤ 57 then parseDigits rest (acc * 10 + (c.toNat - 48)) else none

/-- `strconv.ParseInt(s, 10, 64)` succeeded with this value. -/
def parseInt (s : Bytes) : Option Int :=
  let (neg, ds) : Bool × Bytes :=
    match s with
    | 45 :: t => (true, t)
    | 43 :: t => (false, t)
    | _ => (false, s)
  if ds = [] then none
  else match parseDigits ds 0 with
    | none => none
    | some n =>
      if neg then (if n ≤ 9223372036854775808 then some (-(n : Int)) else none)
      else (if n ≤ 9223372036854775807 then some (n : Int) else none)

/-- `ToInt64(o)`: outer `none` = oracle entry missing, inner `none` = not convertible. -/
def toInt64 (O : Oracle) : Arg → Option (Option Int)
  | .int v => some (some v.toInt)
  | .float b => match O.floatInt b with | none => none | some i => some (some i)
  | .bool b => some (some (if b then 1 else 0))
  | .str s => some (parseInt s)
  | .bytes _ => some none

/-- `ToInt64` of every argument, resolved once (the only oracle use of the directive parser). -/
def resolveInts (O : Oracle) : List Arg → Option (List (Option Int))
  | [] => some []
  | a :: rest =>
    match toInt64 O a, resolveInts O rest with
    | some v, some vs => some (v :: vs)
    | _, _ => none

/-- `intFromArg`: (num, isInt, newArgNum). -/
def intFromArg (ints : List (Option Int)) (argNum : Nat) : Int × Bool × Nat :=
  match ints[argNum]? with
  | none => (0, false, argNum)
  | some none => (0, false, argNum + 1)
  | some (some n) => if n > 1000000 ∨ n < -1000000 then (0, false, argNum + 1) else (n, true, argNum + 1)

/-! ### The directive parser. Every function returns the number of bytes it consumed. -/

/-- `parsenum` over the slice `r` (`total` = its length): (num, isnum, consumed); on overflow
`(0, false, total)` ("newi = end"). -/
def parsenumGo (total : Nat) : Bytes → Nat → Bool → Nat → Nat × Bool × Nat
  | [], num, isnum, k => (num, isnum, k)
  | c :: rest, num, isnum, k =>
    if 48 ≤ c.toNat ∧ c.toNat ≤ 57 then
      if num > 1000000 then (0, false, total)
      else parsenumGo total rest (num * 10 + (c.toNat - 48)) true (k + 1)
    else (num, isnum, k)

def parsenum (r : Bytes) : Nat × Bool × Nat := parsenumGo r.length r 0 false 0

/-- Position of the first `]` at index ≥ 1. -/
def findClose : Bytes → Nat → Option Nat
  | [], _ => none
  | c :: rest, i => if c = 93 then some i else findClose rest (i + 1)

/-- `parseArgNumber(format)` with `format[0] = '['`: (index, bytes to consume, ok). -/
def parseArgNumber (r : Bytes) : Int × Nat × Bool :=
  if r.length < 3 then (0, 1, false)
  else match findClose (r.drop 1) 1 with
    | none => (0, 1, false)
    | some i =>
      let (w, ok, k) := parsenum ((r.drop 1).take (i - 1))
      if !ok || k != i - 1 then (0, i + 1, false) else ((w : Int) - 1, i + 1, true)

/-- Parser registers that live across the pieces of one directive. -/
structure PS where
  argNum : Nat
  reordered : Bool
  good : Bool
  afterIndex : Bool

/-- `p.argNumber`: returns new state and consumed bytes. -/
def argNumber (ps : PS) (r : Bytes) (numArgs : Nat) : PS × Nat :=
  match r with
  | 91 :: _ =>
    let (index, wid, ok) := parseArgNumber r
    if ok && decide (0 ≤ index) && decide (index < (numArgs : Int)) then
      ({ ps with argNum := index.toNat, reordered := true, afterIndex := true }, wid)
    else ({ ps with reordered := true, good := false, afterIndex := ok }, wid)
  | _ => ({ ps with afterIndex := false }, 0)

/-- The flag loop `simpleFormat`: flags and the number of flag bytes. -/
def parseFlags : Bytes → Fl → Nat → Fl × Nat
  | [], f, k => (f, k)
  | c :: rest, f, k =>
    if c = 35 then parseFlags rest { f with sharp := true } (k + 1)
    else if c = 48 then parseFlags rest { f with zero := !f.minus } (k + 1)
    else if c = 43 then parseFlags rest { f with plus := true } (k + 1)
    else if c = 45 then parseFlags rest { f with minus := true, zero := false } (k + 1)
    else if c = 32 then parseFlags rest { f with space := true } (k + 1)
    else (f, k)

/-- Result of parsing one directive (the bytes after `%`). -/
structure Dir where
  n : Nat                 -- bytes consumed after the '%'
  f : Fl
  badWidth : Bool := false
  badPrec : Bool := false
  verb : Option Nat       -- none: the format ended (`%!(NOVERB)`)
  argNum : Nat
  good : Bool := true
  reordered : Bool := false

/-- `%v`: `sharpV/plusV` take over `sharp/plus`. -/
def vFlags (f : Fl) : Fl := { f with sharpV := f.sharp, sharp := false, plusV := f.plus, plus := false }

/-- Width: `*` (operand through `intFromArg`) or a literal number. Returns flags, registers,
BADWIDTH, consumed bytes. -/
def parseWidth (ints : List (Option Int)) (f : Fl) (ps : PS) (r : Bytes) : Fl × PS × Bool × Nat :=
  match r with
  | 42 :: _ =>
    let (num, isInt, an) := intFromArg ints ps.argNum
    let f := { f with wid := num.natAbs, widPresent := isInt }
    let f := if num < 0 then { f with minus := true, zero := false } else f
    (f, { ps with argNum := an, afterIndex := false }, !isInt, 1)
  | _ =>
    let (num, isnum, k) := parsenum r
    let ps := if ps.afterIndex && isnum then { ps with good := false } else ps
    ({ f with wid := num, widPresent := isnum }, ps, false, k)

/-- Precision: `.` followed by `*` (possibly `[n]*`) or a literal number; needs `i+1 < end`. -/
def parsePrec (ints : List (Option Int)) (f : Fl) (ps : PS) (r : Bytes) : Fl × PS × Bool × Nat :=
  match r with
  | 46 :: c :: rest =>
    let ps := if ps.afterIndex then { ps with good := false } else ps
    let (ps, ka) := argNumber ps (c :: rest) ints.length
    let r' := (c :: rest).drop ka
    match r' with
    | 42 :: _ =>
      let (num, isInt, an) := intFromArg ints ps.argNum
      let ok := isInt && decide (0 ≤ num)
      ({ f with prec := if ok then num.toNat else 0, precPresent := ok }, { ps with argNum := an, afterIndex := false }, !ok, 1 + ka + 1)
    | _ =>
      let (num, isnum, k) := parsenum r'
      ({ f with prec := if isnum then num else 0, precPresent := true }, ps, false, 1 + ka + k)
  | _ => (f, ps, false, 0)

/-- The verb rune (UTF-8 decoded above 0x7F), or the end of the format. -/
def parseVerb (f : Fl) (ps : PS) (badW badP : Bool) (consumed : Nat) (r5 : Bytes) : Dir :=
  match r5 with
  | [] => { n := consumed, f := f, badWidth := badW, badPrec := badP, verb := none, argNum := ps.argNum, good := ps.good, reordered := ps.reordered }
  | c :: _ =>
    let vs := if c.toNat < 0x80 then (c.toNat, 1) else decodeRune r5
    { n := consumed + vs.2, f := f, badWidth := badW, badPrec := badP, verb := some vs.1, argNum := ps.argNum, good := ps.good, reordered := ps.reordered }

/-- After the precision: a last chance for an argument index, then the verb. -/
def parseAfterPrec (ints : List (Option Int)) (f : Fl) (ps : PS) (badW badP : Bool) (consumed : Nat) (r4 : Bytes) : Dir :=
  let a := if !ps.afterIndex then argNumber ps r4 ints.length else (ps, 0)
  parseVerb f a.1 badW badP (consumed + a.2) (r4.drop a.2)

def parseAfterWidth (ints : List (Option Int)) (f : Fl) (ps : PS) (badW : Bool) (consumed : Nat) (r3 : Bytes) : Dir :=
  let p := parsePrec ints f ps r3
  parseAfterPrec ints p.1 p.2.1 badW p.2.2.1 (consumed + p.2.2.2) (r3.drop p.2.2.2)

/-- The general path: `[n]`, width, precision, `[n]`, verb. -/
def parseSlow (ints : List (Option Int)) (f : Fl) (nf argNum : Nat) (r1 : Bytes) : Dir :=
  let a := argNumber { argNum := argNum, reordered := false, good := true, afterIndex := false } r1 ints.length
  let w := parseWidth ints f a.1 (r1.drop a.2)
  parseAfterWidth ints w.1 w.2.1 w.2.2.1 (nf + a.2 + w.2.2.2) ((r1.drop a.2).drop w.2.2.2)

/-- The fast path of the flag loop: a lower-case ASCII verb right after the flags and an argument left. -/
def fastVerb (nargs argNum : Nat) : Bytes → Option Nat
  | c :: _ => if 97 ≤ c.toNat ∧ c.toNat ≤ 122 ∧ argNum < nargs then some c.toNat else none
  | [] => none

/-- One directive: the bytes `r` after a `%`. `ints` = `ToInt64` of the arguments. -/
def parseDirective (ints : List (Option Int)) (argNum : Nat) (r : Bytes) : Dir :=
  let fl := parseFlags r {} 0
  let r1 := r.drop fl.2
  match fastVerb ints.length argNum r1 with
  | some c => { n := fl.2 + 1, f := fl.1, verb := some c, argNum := argNum }
  | none => parseSlow ints fl.1 fl.2 argNum r1

/-- `%!verb(BADINDEX)` / `%!verb(MISSING)`. -/
def verbError (L : Nat) (buf : Bytes) (verb : Nat) (what : Bytes) : R := do
  let buf ← write L buf [37, 33]
  let buf ← write L buf (encodeRune verb)
  write L buf what

/-- Output of one directive. -/
def renderDirective (O : Oracle) (L : Nat) (args : List Arg) (d : Dir) (buf : Bytes) : R := do
  let buf ← (if d.badWidth then write L buf [37, 33, 40, 66, 65, 68, 87, 73, 68, 84, 72, 41] else .ok buf)   -- %!(BADWIDTH)
  let buf ← (if d.badPrec then write L buf [37, 33, 40, 66, 65, 68, 80, 82, 69, 67, 41] else .ok buf)        -- %!(BADPREC)
  match d.verb with
  | none => write L buf [37, 33, 40, 78, 79, 86, 69, 82, 66, 41]                                            -- %!(NOVERB)
  | some verb =>
    if verb = 37 then write L buf [37]
    else if !d.good then verbError L buf verb [40, 66, 65, 68, 73, 78, 68, 69, 88, 41]                      -- (BADINDEX)
    else
      match args[d.argNum]? with
      | none => verbError L buf verb [40, 77, 73, 83, 83, 73, 78, 71, 41]                                   -- (MISSING)
      | some a => printArg O L (if verb = 118 then vFlags d.f else d.f) buf a verb

/-- `argNum` after the directive: only a verb that printed an operand advances it. -/
def nextArgNum (nargs : Nat) (d : Dir) : Nat :=
  match d.verb with
  | none => d.argNum
  | some verb => if verb = 37 ∨ !d.good ∨ d.argNum ≥ nargs then d.argNum else d.argNum + 1

/-- Literal text up to the next `%`. -/
def litLen : Bytes → Nat
  | [] => 0
  | c :: rest => if c = 37 then 0 else 1 + litLen rest

structure LoopOut where
  buf : Bytes
  argNum : Nat
  reordered : Bool

/-- Every iteration of the format loop consumes at least one byte: what is left after the literal
run, its `%` and `n` more bytes is strictly shorter than what the iteration started with. -/
theorem drop_lit_lt (r : Bytes) : ∀ r1 c, r.drop (litLen r) = c :: r1 → ∀ n, (r1.drop n).length < r.length := by
  intro r1 c hd n
  have : (r.drop (litLen r)).length ≤ r.length := by simp [List.length_drop]
  rw [hd] at this
  simp [List.length_drop] at *
  omega

/-- `formatLoop`: well-founded on the remaining format bytes, no fuel. -/
def loop (O : Oracle) (L : Nat) (args : List Arg) (ints : List (Option Int)) (r : Bytes) (st : LoopOut) : Except Err LoopOut :=
  if r = [] then .ok st
  else
    match (if litLen r > 0 then write L st.buf (r.take (litLen r)) else .ok st.buf) with
    | .error e => .error e
    | .ok buf =>
      match hr : r.drop (litLen r) with
      | [] => .ok { st with buf := buf }
      | _ :: r1 =>
        let d := parseDirective ints st.argNum r1
        match renderDirective O L args d buf with
        | .error e => .error e
        | .ok buf =>
          let st' : LoopOut := { buf := buf, argNum := nextArgNum args.length d, reordered := st.reordered || d.reordered }
          if d.verb.isNone then .ok st'
          else loop O L args ints (r1.drop d.n) st'
termination_by r.length
decreasing_by exact drop_lit_lt r r1 _ hr _

/-- `%!(EXTRA type=value, …)`. -/
def extras (O : Oracle) (L : Nat) : Bool → Bytes → List Arg → R
  | _, buf, [] => .ok buf
  | first, buf, a :: rest =>
    match argString O a with
    | none => .error .unsupported
    | some s => do
      let buf ← (if first then .ok buf else write L buf [44, 32])
      let buf ← write L buf (typeName a)
      let buf ← write L buf [61]
      let buf ← write L buf s
      extras O L false buf rest

/-- `tengo.Format(format, args…)`: the string, or the string-limit error. -/
def format (O : Oracle) (L : Nat) (fmt : Bytes) (args : List Arg) : R :=
  match resolveInts O args with
  | none => .error .unsupported
  | some ints =>
    match loop O L args ints fmt { buf := [], argNum := 0, reordered := false } with
    | .error e => .error e
    | .ok st =>
      if !st.reordered && decide (st.argNum < args.length) then do
        let buf ← write L st.buf [37, 33, 40, 69, 88, 84, 82, 65, 32]     -- %!(EXTRA
        let buf ← extras O L true buf (args.drop st.argNum)
        write L buf [41]
      else .ok st.buf

end Tengo.Model.Format

import Tengo.Model.VM
/-!
Translation validation for bytecode transformations that move instructions (dead-code elimination):
a decidable check that `withBodies code b` is `code` with every function's instructions relocated by
the position table `tab`. Soundness (`Tengo.Proofs.VMRelocCheck`): a passed check gives the relation
`Reloc`, hence (`run_reloc`) corresponding outcomes of the whole-VM model for every input. The table is
untrusted (any table that passes will do). Core Lean only.
-/
namespace Tengo.Model.VM
open Tengo.Model.Opcodes

/-- `code` with other instruction bytes: function index `0` is main, `k + 1` is constant `k`. -/
def withBodies (code : Code) (b : Nat → Array UInt8) : Code :=
  { main := { code.main with insts := b 0 },
    consts := code.consts.mapIdx (fun k c => match c with
      | .fn f r => .fn { f with insts := b (k + 1) } r
      | c => c) }

def jumpOpsB : List Nat := [opJump, opJumpFalsy, opAndJump, opOrJump]

def canFallB (op : Nat) : Bool := op != opReturn && op != opJump && op != opSuspend

/-- The relocated instruction reads like the original: same opcode, size and second operand; the first
operand is the relocated target for a jump and unchanged otherwise. -/
def fetchRelB (lk : Nat → Option Nat) (i i' : Fetched) : Bool :=
  i'.op == i.op && i'.a1 == i.a1 && i'.size == i.size &&
    (if jumpOpsB.contains i.op then lk i.a0 == some i'.a0 else i'.a0 == i.a0)

def checkFnReloc (f : Fn) (insts' : Array UInt8) (tab : List (Nat × Nat)) : Bool :=
  tab.lookup 0 == some 0 &&
  tab.all (fun pq =>
    pq.1 < f.insts.size && pq.2 < insts'.size &&
    fetchRelB (fun t => tab.lookup t) (fetch f pq.1) (fetch { f with insts := insts' } pq.2) &&
    (!canFallB (fetch f pq.1).op ||
      tab.lookup (pq.1 + (fetch f pq.1).size) == some (pq.2 + (fetch f pq.1).size)))

def checkReloc (code : Code) (b : Nat → Array UInt8) (tab : Nat → List (Nat × Nat)) : Bool :=
  (List.range (code.consts.size + 1)).all (fun idx =>
    match code.fn idx with
    | some f => checkFnReloc f (b idx) (tab idx)
    | none => true)

end Tengo.Model.VM

/-!
The symbol table of `symbol_table.go` as a pure structure (property C11). Core Lean only.

A Go `*SymbolTable` is reachable only through its `parent` pointers, and the compiler uses tables in
a strict stack discipline (`c.symbolTable = c.symbolTable.Fork(..)` … `= c.symbolTable.Parent(..)`),
so the state is the parent chain: a `List Table` whose head is the current table and whose last
element is the root (`parent == nil`). `store` is the Go map as an association list with at most one
entry per name. `freeSymbols` holds the originals (Go: pointers into stores further down the chain;
under the stack discipline nothing can change an original while a capturing table is above it, so
value copies are exact).
-/
namespace Tengo.Model.Symtab

inductive Scope where
  | global | local | builtin | free
  deriving DecidableEq, Repr, Inhabited

structure Symbol where
  name : String
  scope : Scope
  index : Nat
  localAssigned : Bool := false
  deriving DecidableEq, Repr, Inhabited

structure Table where
  block : Bool := false
  store : List (String × Symbol) := []
  numDefinition : Nat := 0
  maxDefinition : Nat := 0
  freeSymbols : List Symbol := []
  builtinSymbols : List Symbol := []
  deriving DecidableEq, Repr, Inhabited

/-- Head = current table, last = root. -/
abbrev Chain := List Table

/-- `NewSymbolTable()`. -/
def init : Chain := [{}]

/-! ### the `store` map -/

def lookup (n : String) : List (String × Symbol) → Option Symbol
  | [] => none
  | (k, s) :: rest => if k = n then some s else lookup n rest

/-- `store[n] = s` -/
def put (n : String) (s : Symbol) : List (String × Symbol) → List (String × Symbol)
  | [] => [(n, s)]
  | (k, v) :: rest => if k = n then (n, s) :: rest else (k, v) :: put n s rest

/-! ### `nextIndex`, `updateMaxDefs`, `Parent(true)` -/

/-- `nextIndex`: a block continues the numbering of its parent. -/
def nextIndex : Chain → Nat
  | [] => 0
  | t :: ps => if t.block then nextIndex ps + t.numDefinition else t.numDefinition

/-- `updateMaxDefs(k)`: raises `maxDefinition` through the blocks up to the function's table. -/
def updateMax (k : Nat) : Chain → Chain
  | [] => []
  | t :: ps =>
    let t' := { t with maxDefinition := max t.maxDefinition k }
    if t.block then t' :: updateMax k ps else t' :: ps

/-- `Parent(true)`: the chain above the enclosing function's table (`[]` = nil). -/
def parentSkip : Chain → Chain
  | [] => []
  | t :: ps => if t.block then parentSkip ps else ps

/-- `t.Parent(true) == nil`: only blocks between the current table and the root. -/
def globalCtx : Chain → Bool
  | [] => true
  | t :: ps => if t.block then globalCtx ps else ps.isEmpty

/-- `Parent(false)`; `none` = nil (the root has no parent). -/
def parent : Chain → Option Chain
  | _ :: p :: ps => some (p :: ps)
  | _ => none

/-- `Fork(block)`. -/
def fork (block : Bool) (c : Chain) : Chain := { block := block } :: c

/-- `MaxSymbols()` of the current table. -/
def maxSymbols : Chain → Nat
  | [] => 0
  | t :: _ => t.maxDefinition

/-- The root's `numDefinition++` (global definitions are counted at the root). -/
def incRoot : Chain → Chain
  | [] => []
  | [t] => [{ t with numDefinition := t.numDefinition + 1 }]
  | t :: p :: ps => t :: incRoot (p :: ps)

/-! ### `Define`, `DefineBuiltin` -/

def define (n : String) : Chain → Symbol × Chain
  | [] => (⟨n, .global, 0, false⟩, [])
  | t :: ps =>
    let idx := nextIndex (t :: ps)
    let glob := globalCtx (t :: ps)
    let sym : Symbol := ⟨n, if glob then .global else .local, idx, false⟩
    let t1 := { t with store := put n sym t.store }
    let c1 := if glob then incRoot (t1 :: ps)
              else { t1 with numDefinition := t1.numDefinition + 1 } :: ps
    (sym, updateMax (idx + 1) c1)

def defineBuiltin (i : Nat) (n : String) : Chain → Symbol × Chain
  | [] => (⟨n, .builtin, i, false⟩, [])
  | [t] =>
    let sym : Symbol := ⟨n, .builtin, i, false⟩
    (sym, [{ t with store := put n sym t.store, builtinSymbols := t.builtinSymbols ++ [sym] }])
  | t :: p :: ps =>
    let r := defineBuiltin i n (p :: ps)
    (r.1, t :: r.2)

/-! ### `Resolve` -/

/-- The test in `Resolve`: a stored symbol can be used if it is not local, or assigned, or the
lookup came from a table further in. -/
def usable (s : Symbol) (recur : Bool) : Bool :=
  s.scope != .local || s.localAssigned || recur

def Table.defineFree (t : Table) (orig : Symbol) : Symbol × Table :=
  let s : Symbol := ⟨orig.name, .free, t.freeSymbols.length, false⟩
  (s, { t with freeSymbols := t.freeSymbols ++ [orig], store := put orig.name s t.store })

/-- What `Resolve` does when the current table has no usable entry. -/
def resolveUp (t : Table) (up : Option (Symbol × Nat) × Chain) : Option (Symbol × Nat) × Chain :=
  match up.1 with
  | none => (none, t :: up.2)
  | some (s, d) =>
    if !t.block && s.scope != .global && s.scope != .builtin then
      let r := t.defineFree s
      (some (r.1, d + 1), r.2 :: up.2)
    else (some (s, d + 1), t :: up.2)

/-- `Resolve(name, recur)`: result `(symbol, depth)` and the chain after the `defineFree` calls. -/
def resolve : Chain → String → Bool → Option (Symbol × Nat) × Chain
  | [], _, _ => (none, [])
  | t :: ps, n, r =>
    match lookup n t.store with
    | some s => if usable s r then (some (s, 0), t :: ps) else resolveUp t (resolve ps n true)
    | none => resolveUp t (resolve ps n true)

/-! ### `LocalAssigned` marks made by the compiler -/

def setAssigned (n : String) : List (String × Symbol) → List (String × Symbol)
  | [] => []
  | (k, s) :: rest =>
    if k = n then (k, if s.scope = .local then { s with localAssigned := true } else s) :: rest
    else (k, s) :: setAssigned n rest

/-- Mark the entry `n` of the table `d` levels up. -/
def markLevel (n : String) : Nat → Chain → Chain
  | _, [] => []
  | 0, t :: ps => { t with store := setAssigned n t.store } :: ps
  | d + 1, t :: ps => t :: markLevel n d ps

/-- Mark the first entry named `n` from the current table outward (the pointer `Resolve(n, true)`
finds without crossing anything). -/
def markFirst (n : String) : Chain → Chain
  | [] => []
  | t :: ps =>
    match lookup n t.store with
    | some _ => { t with store := setAssigned n t.store } :: ps
    | none => t :: markFirst n ps

/-! ### operations (the line protocol of the correspondence stream) -/

inductive Op where
  | define (n : String)
  | builtin (i : Nat) (n : String)
  | fork (block : Bool)
  | parent
  /-- leave a function literal: `FreeSymbols()`, `Parent(false)`, and `s.LocalAssigned = true`
  for every captured local (compiler.go, FuncLit case) -/
  | leave
  | resolve (n : String) (recur : Bool)
  /-- `compileAssign`: `Resolve(n, false)` and `symbol.LocalAssigned = true` when local -/
  | assign (n : String)
  /-- `s := Resolve(n, true)`; `s.LocalAssigned = true` when found at depth 0 and local
  (the mark after `Define`) -/
  | mark (n : String)
  deriving Repr, DecidableEq

inductive Res where
  | sym (s : Symbol)
  | found (s : Symbol) (depth : Nat)
  | notFound
  | ok
  | nil
  deriving Repr, DecidableEq

def resOf : Option (Symbol × Nat) → Res
  | some (s, d) => .found s d
  | none => .notFound

def markCaptured : List Symbol → Chain → Chain
  | [], c => c
  | o :: os, c => markCaptured os (if o.scope = .local then markFirst o.name c else c)

def step : Op → Chain → Res × Chain
  | .define n, c => let r := define n c; (.sym r.1, r.2)
  | .builtin i n, c => let r := defineBuiltin i n c; (.sym r.1, r.2)
  | .fork b, c => (.ok, fork b c)
  | .parent, c =>
    match parent c with
    | some c' => (.ok, c')
    | none => (.nil, c)
  | .leave, c =>
    match c, parent c with
    | t :: _, some c' => (.ok, markCaptured t.freeSymbols c')
    | _, _ => (.nil, c)
  | .resolve n r, c => let x := resolve c n r; (resOf x.1, x.2)
  | .assign n, c =>
    let x := resolve c n false
    match x.1 with
    | some (s, d) => (.found s d, if s.scope = .local then markLevel n d x.2 else x.2)
    | none => (.notFound, x.2)
  | .mark n, c =>
    let x := resolve c n true
    match x.1 with
    | some (s, d) => (.found s d, if s.scope = .local ∧ d = 0 then markLevel n 0 x.2 else x.2)
    | none => (.notFound, x.2)

def run : List Op → Chain → List Res × Chain
  | [], c => ([], c)
  | o :: os, c =>
    let r := step o c
    let rest := run os r.2
    (r.1 :: rest.1, rest.2)

/-! ### renaming (used by the C11 theorems) -/

def Symbol.rename (σ : String → String) (s : Symbol) : Symbol := { s with name := σ s.name }

def renameStore (σ : String → String) : List (String × Symbol) → List (String × Symbol)
  | [] => []
  | (k, s) :: rest => (σ k, s.rename σ) :: renameStore σ rest

def Table.rename (σ : String → String) (t : Table) : Table :=
  { t with store := renameStore σ t.store,
           freeSymbols := t.freeSymbols.map (Symbol.rename σ),
           builtinSymbols := t.builtinSymbols.map (Symbol.rename σ) }

def renameChain (σ : String → String) (c : Chain) : Chain := c.map (Table.rename σ)

def Op.rename (σ : String → String) : Op → Op
  | .define n => .define (σ n)
  | .builtin i n => .builtin i (σ n)
  | .fork b => .fork b
  | .parent => .parent
  | .leave => .leave
  | .resolve n r => .resolve (σ n) r
  | .assign n => .assign (σ n)
  | .mark n => .mark (σ n)

def Res.rename (σ : String → String) : Res → Res
  | .sym s => .sym (s.rename σ)
  | .found s d => .found (s.rename σ) d
  | .notFound => .notFound
  | .ok => .ok
  | .nil => .nil

/-! ### the opcode families chosen by scope (compiler.go: `Ident` case, `compileAssign`, `FuncLit`)

Written from the bytecode documentation (GETG/SETG/SETSG, GETL/SETL/DEFL/SETSL, GETF/SETF/SETSF,
GETLP/GETFP); compared with the tables regenerated from compiler.go in `Props/C11`. Row shape:
(case label, [(guard, opcode | "error" | "assign", operands)]). -/

abbrev EmitTable := List (String × List (String × String × List String))

def scopeName : Scope → String
  | .global => "ScopeGlobal" | .local => "ScopeLocal" | .builtin => "ScopeBuiltin" | .free => "ScopeFree"

/-- `Ident`: load by scope, operand = the resolved symbol's index. -/
def identLoad : EmitTable :=
  [ ("ScopeGlobal",  [("", "OpGetGlobal",  ["symbol.Index"])]),
    ("ScopeLocal",   [("", "OpGetLocal",   ["symbol.Index"])]),
    ("ScopeBuiltin", [("", "OpGetBuiltin", ["symbol.Index"])]),
    ("ScopeFree",    [("", "OpGetFree",    ["symbol.Index"])]) ]

/-- `compileAssign`: selector store / define / plain store by scope; a local is marked assigned;
any other scope (builtin) is an error. -/
def assignStore : EmitTable :=
  [ ("ScopeGlobal", [("numSel > 0", "OpSetSelGlobal", ["symbol.Index", "numSel"]),
                     ("!(numSel > 0)", "OpSetGlobal", ["symbol.Index"])]),
    ("ScopeLocal",  [("numSel > 0", "OpSetSelLocal", ["symbol.Index", "numSel"]),
                     ("!(numSel > 0) && op == token.Define && !symbol.LocalAssigned", "OpDefineLocal", ["symbol.Index"]),
                     ("!(numSel > 0) && !(op == token.Define && !symbol.LocalAssigned)", "OpSetLocal", ["symbol.Index"]),
                     ("", "assign", ["symbol.LocalAssigned = true"])]),
    ("ScopeFree",   [("numSel > 0", "OpSetSelFree", ["symbol.Index", "numSel"]),
                     ("!(numSel > 0)", "OpSetFree", ["symbol.Index"])]),
    ("default",     [("", "error", [])]) ]

/-- `FuncLit`: one pointer load per captured original, by the original's scope; a not yet assigned
local is first defined as undefined and marked. -/
def captureLoad : EmitTable :=
  [ ("ScopeLocal", [("!s.LocalAssigned", "OpNull", []),
                    ("!s.LocalAssigned", "OpDefineLocal", ["s.Index"]),
                    ("!s.LocalAssigned", "assign", ["s.LocalAssigned = true"]),
                    ("", "OpGetLocalPtr", ["s.Index"])]),
    ("ScopeFree",  [("", "OpGetFreePtr", ["s.Index"])]) ]

def resolveCalls : List String :=
  ["identLoad: c.symbolTable.Resolve(node.Name, false)", "assignStore: c.symbolTable.Resolve(ident, false)"]

/-- The opcodes a table row can emit for a scope (guards dropped). -/
def opsFor (tb : EmitTable) (sc : Scope) : List String :=
  match tb.find? (fun r => r.1 == scopeName sc) with
  | some r => (r.2.map (fun e => e.2.1)).filter (fun o => o != "assign" && o != "error")
  | none => []

end Tengo.Model.Symtab

/-!
Heap model for C09 (immutable values cannot be changed). Core Lean only.

Go objects are pointers; the model has an explicit heap:

* `objs`    object table. `Val.ref r` is a Go pointer to `objs[r]`:
            `arr mu store off len cap`  = `*Array` (mu = true) / `*ImmutableArray` (mu = false): a Go slice header
                                           over the backing array `astores[store]`;
            `map mu store`              = `*Map` / `*ImmutableMap` over the Go map `mstores[store]`
                                           (association list sorted by key, unique keys);
            `err payload`                = `*Error` (field never reassigned);
            `dead`                       = an object the program can no longer reach (the temporary
                                           `*Array` of `immutable([…])`, see `Op.immutable`).
* `astores` backing arrays (fixed length = capacity of the allocation).
* `mstores` Go maps.
* `regs`    the handles `@n` held by the program (globals of the harness). Results are pushed.

Capacities chosen by the Go runtime when `append` has to grow are parameters of the operation
(`newcap`, supplied by the harness from `cap()` of the real result); nothing is assumed about them.
Everything that may recurse through the heap (`copy`, `freeze`, `==`) takes fuel; `step` supplies
`objs.length + 2`, enough for every acyclic value. Cyclic values answer `Out.fuel` (outside the model).
-/
namespace Tengo.Model.Heap9

abbrev Ref := Nat

inductive Val where
  | undef
  | int (n : Int)
  | str (s : String)          -- the wire atom `#<hex of the bytes>`
  | opq (s : String)          -- any other scalar (bool, float, char, bytes, time, function): canonical text
  | ref (r : Ref)
  deriving DecidableEq, Repr, Inhabited

inductive Obj where
  | arr (mu : Bool) (store off len cap : Nat)
  | map (mu : Bool) (store : Nat)
  | err (payload : Val)
  | dead
  deriving DecidableEq, Repr, Inhabited

/-- Objects that have an `IndexSet` / can be the target of a storage write. -/
def Obj.isMut : Obj → Bool
  | .arr m _ _ _ _ => m
  | .map m _ => m
  | _ => false

structure Heap where
  objs    : List Obj := []
  astores : List (List Val) := []
  mstores : List (List (String × Val)) := []
  regs    : List Val := []
  deriving DecidableEq, Repr, Inhabited

inductive ErrKind where
  | notIndexAssignable | notIndexable | invalidIndexType | indexOutOfBounds | invalidIndexOnError
  | invalidOperator | invalidArgFirst | invalidArgSecond | invalidArgThird | wrongNumArgs
  | invalidSliceIndexType | invalidSliceIndex
  deriving DecidableEq, Repr, Inhabited

inductive Out where
  | pushed (n : Nat)        -- n new handles were pushed
  | done                    -- statement-like success (assignment, delete)
  | bool (b : Bool)
  | err (e : ErrKind)
  | fuel                    -- cyclic value: outside the model
  | bad                     -- malformed / unsupported operand: outside the model
  deriving DecidableEq, Repr, Inhabited

inductive Lit where
  | undef | int (n : Int) | str (s : String) | opq (s : String)
  deriving DecidableEq, Repr, Inhabited

def Lit.toVal : Lit → Val
  | .undef => .undef | .int n => .int n | .str s => .str s | .opq s => .opq s

inductive Op where
  | lit (l : Lit)
  | mkArr (elems : List Nat) (cap : Nat)                 -- `&Array{Value: make([]Object, n, cap)}` filled
  | mkMap (kvs : List (String × Nat))
  | mkErr (x : Nat)                                      -- OpError
  | immutable (consume : Bool) (x : Nat)                 -- OpImmutable; consume: `x` was a temporary
  | idxGet (x i : Nat)                                   -- IndexGet (OpIndex)
  | setSel (x : Nat) (sels : List Nat) (v : Nat)         -- OpSetSel*: x.sels[0]…[last] = v
  | append (x : Nat) (items : List Nat) (newcap : Nat)
  | splice (x : Nat) (args : List Nat) (newcap delcap : Nat)
  | delete (x k : Nat)
  | slice (x lo hi : Nat) (newcap : Nat)                 -- OpSliceIndex
  | add (x y : Nat)                                      -- BinaryOp(token.Add)
  | copy (x : Nat) (caps : List Nat)
  | freeze (x : Nat)
  | iter (x : Nat)                                       -- Iterate, all values handed out
  | eq (x y : Nat)                                       -- Equals
  deriving Repr, Inhabited

/-! ### Heap primitives -/

def Heap.obj (h : Heap) (r : Ref) : Obj := h.objs.getD r .dead
def Heap.astore (h : Heap) (s : Nat) : List Val := h.astores.getD s []
def Heap.mstore (h : Heap) (s : Nat) : List (String × Val) := h.mstores.getD s []

def Heap.push (h : Heap) (v : Val) : Heap := { h with regs := h.regs ++ [v] }
def Heap.pushAll (h : Heap) (vs : List Val) : Heap := { h with regs := h.regs ++ vs }

/-- Elements of a slice header. -/
def Heap.content (h : Heap) (s off len : Nat) : List Val := ((h.astore s).drop off).take len

def Heap.setA (h : Heap) (s : Nat) (xs : List Val) : Heap := { h with astores := h.astores.set s xs }
def Heap.setM (h : Heap) (s : Nat) (kvs : List (String × Val)) : Heap := { h with mstores := h.mstores.set s kvs }
def Heap.setObj (h : Heap) (r : Ref) (o : Obj) : Heap := { h with objs := h.objs.set r o }
def Heap.allocObj (h : Heap) (o : Obj) : Heap × Ref := ({ h with objs := h.objs ++ [o] }, h.objs.length)

/-- Fresh backing array holding `xs` (capacity `max cap |xs|`) and a header over it. -/
def Heap.newArr (h : Heap) (mu : Bool) (xs : List Val) (cap : Nat) : Heap × Ref :=
  let c := max cap xs.length
  ({ h with astores := h.astores ++ [xs ++ List.replicate (c - xs.length) Val.undef],
            objs := h.objs ++ [Obj.arr mu h.astores.length 0 xs.length c] }, h.objs.length)

def Heap.newMap (h : Heap) (mu : Bool) (kvs : List (String × Val)) : Heap × Ref :=
  ({ h with mstores := h.mstores ++ [kvs], objs := h.objs ++ [Obj.map mu h.mstores.length] }, h.objs.length)

/-- Hand the new object out as a new handle. -/
def pushNew (p : Heap × Ref) : Heap × Out := (p.1.push (.ref p.2), .pushed 1)

/-- Overwrite `vs` into `st` starting at `i` (caller guarantees `i + |vs| ≤ |st|`). -/
def writeList (st : List Val) (i : Nat) (vs : List Val) : List Val :=
  st.take i ++ vs ++ st.drop (i + vs.length)

/-! ### Sorted association lists (Go maps; iteration order is not part of the model) -/

def minsert (k : String) (v : Val) : List (String × Val) → List (String × Val)
  | [] => [(k, v)]
  | (k', v') :: rest =>
    if k < k' then (k, v) :: (k', v') :: rest
    else if k = k' then (k, v) :: rest
    else (k', v') :: minsert k v rest

def merase (k : String) : List (String × Val) → List (String × Val)
  | [] => []
  | (k', v') :: rest => if k = k' then rest else (k', v') :: merase k rest

def mlookup (k : String) : List (String × Val) → Option Val
  | [] => none
  | (k', v') :: rest => if k = k' then some v' else mlookup k rest

/-- `ToString(index)` for the scalars of the model; `none` = `ok == false` (undefined);
containers / opaque scalars as keys are outside the model (`bad`). -/
inductive KeyOf where
  | key (s : String) | notOk | unsupported

def hexDigit (n : Nat) : Char := if n < 10 then Char.ofNat (48 + n) else Char.ofNat (87 + n)

/-- Wire form `#<hex>` of an ASCII text (strings travel and are stored in this form, so that
equality and key order are those of the bytes). -/
def hexStr (s : String) : String :=
  String.ofList ('#' :: s.toList.foldr (fun c acc => hexDigit (c.toNat / 16) :: hexDigit (c.toNat % 16) :: acc) [])

def keyOf : Val → KeyOf
  | .str s => .key s
  | .int n => .key (hexStr (toString n))
  | .undef => .notOk
  | _ => .unsupported

def regsOf (h : Heap) : List Nat → Option (List Val)
  | [] => some []
  | i :: is =>
    match h.regs[i]?, regsOf h is with
    | some v, some vs => some (v :: vs)
    | _, _ => none

/-! ### Element reads: `IndexGet` -/

inductive Got where
  | val (v : Val) | err (e : ErrKind) | bad

def indexGet (h : Heap) (v idx : Val) : Got :=
  match v with
  | .undef => .val .undef                                   -- Undefined.IndexGet
  | .int _ => .err .notIndexable
  | .str _ => .bad                                          -- chars are outside the model
  | .opq t => if t.startsWith "(y" then .bad else .err .notIndexable   -- only bytes are indexable
  | .ref r =>
    match h.obj r with
    | .arr _ s off len _ =>
      match idx with
      | .int n =>
        if n < 0 ∨ n ≥ (len : Int) then .val .undef
        else .val (((h.content s off len)[n.toNat]?).getD .undef)
      | .opq _ => .bad
      | _ => .err .invalidIndexType
    | .map _ s =>
      match keyOf idx with
      | .key k => .val ((mlookup k (h.mstore s)).getD .undef)
      | .notOk => .err .invalidIndexType
      | .unsupported => .bad
    | .err p =>
      match keyOf idx with
      | .key k => if k = hexStr "value" then .val p else .err .invalidIndexOnError
      | .notOk => .err .invalidIndexOnError
      | .unsupported => .bad
    | .dead => .bad

/-! ### Writes: `IndexSet` (the only element write), through `indexAssign` -/

/-- Value of a hex digit. -/
def hexVal (c : Char) : Nat :=
  if '0' ≤ c ∧ c ≤ '9' then c.toNat - 48 else if 'a' ≤ c ∧ c ≤ 'f' then c.toNat - 87 else 0

def unhex : List Char → List Nat
  | a :: b :: rest => (hexVal a * 16 + hexVal b) :: unhex rest
  | _ => []

def digitsVal : List Nat → Nat → Option Nat
  | [], acc => some acc
  | d :: ds, acc => if 48 ≤ d ∧ d ≤ 57 then digitsVal ds (acc * 10 + (d - 48)) else none

/-- `strconv.ParseInt(s, 10, 64)` on the wire form `#<hex>` (range errors are outside the model:
the harness uses short strings): optional sign, then at least one decimal digit. -/
def strToInt? (s : String) : Option Int :=
  match unhex (s.toList.drop 1) with
  | [] => none
  | 45 :: (d :: ds) => (digitsVal (d :: ds) 0).map (fun n => - (n : Int))
  | 43 :: (d :: ds) => (digitsVal (d :: ds) 0).map (fun n => (n : Int))
  | ds => (digitsVal ds 0).map (fun n => (n : Int))

/-- `Array.IndexSet` once the index is an int. -/
def arrSet (h : Heap) (s off len : Nat) (n : Int) (v : Val) : Heap × Out :=
  if n < 0 ∨ n ≥ (len : Int) then (h, .err .indexOutOfBounds)
  else (h.setA s ((h.astore s).set (off + n.toNat) v), .done)

/-- `dst.IndexSet(idx, v)`: returns the new heap and the outcome. Only `*Array` and `*Map` have it. -/
def indexSet (h : Heap) (dst idx v : Val) : Heap × Out :=
  match dst with
  | .ref r =>
    match h.obj r with
    | .arr true s off len _ =>
      match idx with
      | .int n => arrSet h s off len n v
      | .str t =>                                            -- ToInt(String) = ParseInt
        match strToInt? t with
        | some n => arrSet h s off len n v
        | none => (h, .err .invalidIndexType)
      | .undef => (h, .err .invalidIndexType)
      | .ref _ => (h, .err .invalidIndexType)
      | .opq _ => (h, .bad)                                  -- ToInt on floats/chars/bools: outside the model
    | .map true s =>
      match keyOf idx with
      | .key k => (h.setM s (minsert k v (h.mstore s)), .done)
      | .notOk => (h, .err .invalidIndexType)
      | .unsupported => (h, .bad)
    | .dead => (h, .bad)
    | _ => (h, .err .notIndexAssignable)                     -- ImmutableArray, ImmutableMap, Error
  | _ => (h, .err .notIndexAssignable)                       -- scalars (ObjectImpl.IndexSet)

/-- `indexAssign(dst, src, selectors)`, selectors in source order (outermost first). -/
def indexAssign (h : Heap) (dst : Val) (sels : List Val) (src : Val) : Heap × Out :=
  match sels with
  | [] => (h, .bad)
  | [i] => indexSet h dst i src
  | i :: rest =>
    match indexGet h dst i with
    | .val next => indexAssign h next rest src
    | .err e => (h, .err e)
    | .bad => (h, .bad)

/-! ### Recursion through the heap -/

/-- Thread a state-passing function over a list of values. -/
def foldVals {σ : Type} (f : Heap → σ → Val → Option (Heap × σ × Val)) :
    Heap → σ → List Val → Option (Heap × σ × List Val)
  | h, st, [] => some (h, st, [])
  | h, st, v :: vs =>
    match f h st v with
    | none => none
    | some (h1, st1, v') =>
      match foldVals f h1 st1 vs with
      | none => none
      | some (h2, st2, vs') => some (h2, st2, v' :: vs')

/-- `Object.Copy()`. State: capacities of the arrays of the result, pre-order
(the array's own capacity, then its elements'), maps in key order. -/
def copyN : Nat → Heap → List Nat → Val → Option (Heap × List Nat × Val)
  | 0, _, _, _ => none
  | n + 1, h, caps, v =>
    match v with
    | .ref r =>
      match h.obj r with
      | .arr _ s off len _ =>
        match foldVals (copyN n) h caps.tail (h.content s off len) with
        | none => none
        | some (h1, caps1, cs) =>
          let p := h1.newArr true cs (caps.headD 0)
          some (p.1, caps1, .ref p.2)
      | .map _ s =>
        match foldVals (copyN n) h caps ((h.mstore s).map Prod.snd) with
        | none => none
        | some (h1, caps1, cs) =>
          let p := h1.newMap true (((h.mstore s).map Prod.fst).zip cs)
          some (p.1, caps1, .ref p.2)
      | .err p =>
        match copyN n h caps p with
        | none => none
        | some (h1, caps1, p') =>
          let p := h1.allocObj (.err p')
          some (p.1, caps1, .ref p.2)
      | .dead => none
    | _ => some (h, caps, v)

abbrev Memo := List (Ref × Ref)

def Memo.find (m : Memo) (r : Ref) : Option Ref :=
  match m with
  | [] => none
  | (a, b) :: rest => if a = r then some b else Memo.find rest r

/-- `freezeObject`. The memo is keyed by mutable object. The model allocates the frozen container
after its elements (the Go code before, to cut cycles); on acyclic values the results are equal, cyclic
values run out of fuel. Errors are returned as-is (their payload is NOT frozen). -/
def freezeN : Nat → Heap → Memo → Val → Option (Heap × Memo × Val)
  | 0, _, _, _ => none
  | n + 1, h, memo, v =>
    match v with
    | .ref r =>
      match h.obj r with
      | .arr true s off len _ =>
        match memo.find r with
        | some r' => some (h, memo, .ref r')
        | none =>
          match foldVals (freezeN n) h memo (h.content s off len) with
          | none => none
          | some (h1, memo1, fs) =>
            let p := h1.newArr false fs fs.length
            some (p.1, (r, p.2) :: memo1, .ref p.2)
      | .arr false s off len _ =>
        match foldVals (freezeN n) h memo (h.content s off len) with
        | none => none
        | some (h1, memo1, fs) =>
          if fs = h.content s off len then some (h1, memo1, v)
          else
            let p := h1.newArr false fs fs.length
            some (p.1, memo1, .ref p.2)
      | .map true s =>
        match memo.find r with
        | some r' => some (h, memo, .ref r')
        | none =>
          match foldVals (freezeN n) h memo ((h.mstore s).map Prod.snd) with
          | none => none
          | some (h1, memo1, fs) =>
            let p := h1.newMap false (((h.mstore s).map Prod.fst).zip fs)
            some (p.1, (r, p.2) :: memo1, .ref p.2)
      | .map false s =>
        match foldVals (freezeN n) h memo ((h.mstore s).map Prod.snd) with
        | none => none
        | some (h1, memo1, fs) =>
          if fs = (h.mstore s).map Prod.snd then some (h1, memo1, v)
          else
            let p := h1.newMap false (((h.mstore s).map Prod.fst).zip fs)
            some (p.1, memo1, .ref p.2)
      | .err _ => some (h, memo, v)
      | .dead => none
    | _ => some (h, memo, v)

def eqList (f : Val → Val → Option Bool) : List Val → List Val → Option Bool
  | [], [] => some true
  | a :: as, b :: bs =>
    match f a b with
    | some true => eqList f as bs
    | r => r
  | _, _ => some false

def eqMap (f : Val → Val → Option Bool) : List (String × Val) → List (String × Val) → Option Bool
  | [], [] => some true
  | (k, a) :: as, (k', b) :: bs =>
    if k = k' then
      match f a b with
      | some true => eqMap f as bs
      | r => r
    else some false
  | _, _ => some false

/-- Opaque scalars whose `Equals` is equality of the canonical text (bool, char, bytes, time, non-NaN
float); functions (never equal) and NaN are outside the model. Mixed comparisons (opaque against
int/string/container) are `false`: the harness has no int equal to a float or char it uses. -/
def opqComparable (s : String) : Bool :=
  !(s.startsWith "(uf" || s.startsWith "(bf" || s.startsWith "(fn" || s == "(f 9221120237041090561)")

/-- `a.Equals(b)`; `none`: out of fuel or an incomparable opaque scalar was compared. -/
def equalsN : Nat → Heap → Val → Val → Option Bool
  | 0, _, _, _ => none
  | n + 1, h, a, b =>
    match a, b with
    | .opq s, .opq t => if opqComparable s && opqComparable t then some (s == t) else none
    | .undef, .undef => some true
    | .int x, .int y => some (x == y)
    | .str x, .str y => some (x == y)
    | .ref r, .ref r' =>
      match h.obj r, h.obj r' with
      | .arr _ s off len _, .arr _ s' off' len' _ =>
        if len = len' then eqList (equalsN n h) (h.content s off len) (h.content s' off' len') else some false
      | .map _ s, .map _ s' =>
        if (h.mstore s).length = (h.mstore s').length then eqMap (equalsN n h) (h.mstore s) (h.mstore s')
        else some false
      | .err _, .err _ => some (r == r')
      | .dead, _ => none
      | _, .dead => none
      | _, _ => some false
    | _, _ => some false

/-! ### One operation -/

def clampIdx (i : Int) (n : Nat) : Nat := if i < 0 then 0 else if i > (n : Int) then n else i.toNat

def stepAppend (h : Heap) (x : Nat) (items : List Nat) (newcap : Nat) : Heap × Out :=
  match h.regs[x]?, regsOf h items with
  | some v, some vs =>
    if vs.isEmpty then (h, .err .wrongNumArgs) else
    match v with
    | .ref r =>
      match h.obj r with
      | .arr true s off len cap =>
        if len + vs.length ≤ cap then
          -- in place: writes the spare capacity of the shared backing array
          let h1 := h.setA s (writeList (h.astore s) (off + len) vs)
          pushNew (h1.allocObj (.arr true s off (len + vs.length) cap))
        else
          pushNew (h.newArr true (h.content s off len ++ vs) newcap)
      | .arr false s off len _ =>
        pushNew (h.newArr true (h.content s off len ++ vs) 0)
      | .dead => (h, .bad)
      | _ => (h, .err .invalidArgFirst)
    | _ => (h, .err .invalidArgFirst)
  | _, _ => (h, .bad)

def stepSlice (h : Heap) (x lo hi : Nat) (newcap : Nat) : Heap × Out :=
  match h.regs[x]?, h.regs[lo]?, h.regs[hi]? with
  | some v, some lov, some hiv =>
    match (match lov with | .undef => some (some 0) | .int n => some (some n) | .opq _ => none | _ => some none) with
    | none => (h, .bad)
    | some none => (h, .err .invalidSliceIndexType)
    | some (some (lowIdx : Int)) =>
      match v with
      | .ref r =>
        match h.obj r with
        | .arr mu s off len cap =>
          match (match hiv with | .undef => some (some (len : Int)) | .int n => some (some n) | .opq _ => none | _ => some none) with
          | none => (h, .bad)
          | some none => (h, .err .invalidSliceIndexType)
          | some (some highIdx) =>
            if lowIdx > highIdx then (h, .err .invalidSliceIndex) else
            let l := clampIdx lowIdx len
            let u := clampIdx highIdx len
            if mu then
              -- a new header over the SAME backing array
              pushNew (h.allocObj (.arr true s (off + l) (u - l) (cap - l)))
            else
              -- copy (repaired O4)
              pushNew (h.newArr true (((h.content s off len).drop l).take (u - l)) newcap)
        | .dead => (h, .bad)
        | _ => (h, .err .notIndexable)
      | .str _ => (h, .bad)
      | .opq _ => (h, .bad)
      | _ => (h, .err .notIndexable)
  | _, _, _ => (h, .bad)

def stepAdd (h : Heap) (x y : Nat) : Heap × Out :=
  match h.regs[x]?, h.regs[y]? with
  | some (.ref r), some w =>
    match h.obj r with
    | .arr mu s off len _ =>
      match w with
      | .ref r2 =>
        match h.obj r2 with
        | .arr mu2 s2 off2 len2 _ =>
          if mu ≠ mu2 then (h, .err .invalidOperator)
          else if mu ∧ len2 = 0 then (h.push (.ref r), .pushed 1)         -- `return o, nil`
          else
            pushNew (h.newArr true (h.content s off len ++ h.content s2 off2 len2) 0)
        | .dead => (h, .bad)
        | _ => (h, .err .invalidOperator)
      | _ => (h, .err .invalidOperator)
    | .dead => (h, .bad)
    | _ => (h, .err .invalidOperator)
  | _, _ => (h, .bad)                                                      -- scalar arithmetic: outside the model

def stepDelete (h : Heap) (x k : Nat) : Heap × Out :=
  match h.regs[x]?, h.regs[k]? with
  | some v, some kv =>
    match v with
    | .ref r =>
      match h.obj r with
      | .map true s =>
        match kv with
        | .str key => (h.setM s (merase key (h.mstore s)), .done)
        | _ => (h, .err .invalidArgSecond)
      | .dead => (h, .bad)
      | _ => (h, .err .invalidArgFirst)
    | _ => (h, .err .invalidArgFirst)
  | _, _ => (h, .bad)

/-- `array.Value = append(array.Value[:st], items...)`: in place when the capacity suffices (the header
is rewritten over the same backing array), else into a fresh backing array. -/
def spliceWrite (h : Heap) (r : Ref) (s off len cap st : Nat) (items : List Val) (newcap : Nat) : Heap :=
  let newLen := st + items.length
  if newLen ≤ cap then
    (h.setA s (writeList (h.astore s) (off + st) items)).setObj r (.arr true s off newLen cap)
  else
    let c := max newcap newLen
    { h with astores := h.astores ++ [(h.content s off len).take st ++ items ++ List.replicate (c - newLen) Val.undef],
             objs := h.objs.set r (.arr true h.astores.length 0 newLen c) }

/-- `splice(array[, start[, count[, items…]]])`. -/
def stepSplice (h : Heap) (x : Nat) (args : List Nat) (newcap delcap : Nat) : Heap × Out :=
  match h.regs[x]?, regsOf h args with
  | some v, some avs =>
    match v with
    | .ref r =>
      match h.obj r with
      | .arr true s off len cap =>
        match (match avs with | [] => some 0 | .int n :: _ => some n | _ => none) with
        | none => (h, .err .invalidArgSecond)
        | some (start : Int) =>
          if start < 0 ∨ start > (len : Int) then (h, .err .indexOutOfBounds) else
          match (match avs with | _ :: .int n :: _ => some n | _ :: _ :: _ => none | _ => some (len : Int)) with
          | none => (h, .err .invalidArgThird)
          | some (cnt : Int) =>
            if cnt < 0 then (h, .err .indexOutOfBounds) else
            let st := start.toNat
            let dc := if st + cnt.toNat > len then len - st else cnt.toNat
            let cont := h.content s off len
            let deleted := (cont.drop st).take dc
            let items := avs.drop 2 ++ cont.drop (st + dc)
            let h1 := spliceWrite h r s off len cap st items newcap
            pushNew (h1.newArr true deleted delcap)
      | .dead => (h, .bad)
      | _ => (h, .err .invalidArgFirst)
    | _ => (h, .err .invalidArgFirst)
  | _, _ => (h, .bad)

def stepImmutable (h : Heap) (consume : Bool) (x : Nat) : Heap × Out :=
  match h.regs[x]? with
  | some (.ref r) =>
    match h.obj r with
    | .arr true s off len cap =>
      let h0 := if consume then { h.setObj r .dead with regs := h.regs.set x .undef } else h
      pushNew (h0.allocObj (.arr false s off len cap))
    | .map true s =>
      let h0 := if consume then { h.setObj r .dead with regs := h.regs.set x .undef } else h
      pushNew (h0.allocObj (.map false s))
    | .dead => (h, .bad)
    | _ => (h.push (.ref r), .pushed 1)
  | some v => (h.push v, .pushed 1)
  | none => (h, .bad)

def stepIter (h : Heap) (x : Nat) : Heap × Out :=
  match h.regs[x]? with
  | some (.ref r) =>
    match h.obj r with
    | .arr _ s off len _ => (h.pushAll (h.content s off len), .pushed len)
    | .map _ s => (h.pushAll ((h.mstore s).map Prod.snd), .pushed (h.mstore s).length)
    | _ => (h, .bad)
  | some .undef => (h, .pushed 0)
  | _ => (h, .bad)

def Heap.fuel (h : Heap) : Nat := h.objs.length + 2

def step (h : Heap) : Op → Heap × Out
  | .lit l => (h.push l.toVal, .pushed 1)
  | .mkArr elems cap =>
    match regsOf h elems with
    | some vs => pushNew (h.newArr true vs cap)
    | none => (h, .bad)
  | .mkMap kvs =>
    match regsOf h (kvs.map Prod.snd) with
    | some vs =>
      let m := ((kvs.map Prod.fst).zip vs).foldl (fun acc kv => minsert kv.1 kv.2 acc) []
      pushNew (h.newMap true m)
    | none => (h, .bad)
  | .mkErr x =>
    match h.regs[x]? with
    | some v => pushNew (h.allocObj (.err v))
    | none => (h, .bad)
  | .immutable c x => stepImmutable h c x
  | .idxGet x i =>
    match h.regs[x]?, h.regs[i]? with
    | some v, some iv =>
      match indexGet h v iv with
      | .val w => (h.push w, .pushed 1)
      | .err e => (h, .err e)
      | .bad => (h, .bad)
    | _, _ => (h, .bad)
  | .setSel x sels v =>
    match h.regs[x]?, regsOf h sels, h.regs[v]? with
    | some d, some ss, some src => indexAssign h d ss src
    | _, _, _ => (h, .bad)
  | .append x items nc => stepAppend h x items nc
  | .splice x args nc dc => stepSplice h x args nc dc
  | .delete x k => stepDelete h x k
  | .slice x lo hi nc => stepSlice h x lo hi nc
  | .add x y => stepAdd h x y
  | .copy x caps =>
    match h.regs[x]? with
    | some v =>
      match copyN h.fuel h caps v with
      | some (h1, _, w) => (h1.push w, .pushed 1)
      | none => (h, .fuel)
    | none => (h, .bad)
  | .freeze x =>
    match h.regs[x]? with
    | some v =>
      match freezeN h.fuel h [] v with
      | some (h1, _, w) => (h1.push w, .pushed 1)
      | none => (h, .fuel)
    | none => (h, .bad)
  | .iter x => stepIter h x
  | .eq x y =>
    match h.regs[x]?, h.regs[y]? with
    | some a, some b =>
      match equalsN h.fuel h a b with
      | some r => (h, .bool r)
      | none => (h, .fuel)
    | _, _ => (h, .bad)

def run (h : Heap) (ops : List Op) : Heap := ops.foldl (fun h op => (step h op).1) h

/-! ### Deep snapshot (what `lib.Canon` prints), with fuel -/

def snapN : Nat → Heap → Val → String
  | 0, _, _ => "(deep)"
  | n + 1, h, v =>
    match v with
    | .undef => "u"
    | .int k => "(i " ++ toString k ++ ")"
    | .str s => "(s " ++ s ++ ")"
    | .opq s => s
    | .ref r =>
      match h.obj r with
      | .arr m s off len _ =>
        (if m then "(a" else "(ia") ++ String.join ((h.content s off len).map (fun v => " " ++ snapN n h v)) ++ ")"
      | .map m s =>
        (if m then "(m" else "(im") ++
          String.join ((h.mstore s).map (fun kv => " (" ++ kv.1 ++ " " ++ snapN n h kv.2 ++ ")")) ++ ")"
      | .err p => "(e " ++ snapN n h p ++ ")"
      | .dead => "(dead)"

def snap (h : Heap) (v : Val) : String := snapN h.fuel h v

/-! ### Source facts the model relies on (compared with the regenerated `Tengo.Gen.Immut` in Props/C09)

`indexSetTypes`: only `*Array` and `*Map` have an `IndexSet` (`indexSet` above; every other receiver
answers not-index-assignable). `storageWrites`: every statement of the root package that writes the
storage of an array/map wrapper — `Array.IndexSet`/`Map.IndexSet` (`indexSet`), `builtinAppend` on an
`*Array` (`stepAppend`, in place within capacity), `builtinDelete` on a `*Map` (`stepDelete`),
`builtinSplice` (`stepSplice`), `freezeObject` filling the containers it has just allocated (`freezeN`),
`buildRange` (fresh array of `range`, outside the operations) and `fixDecodedObject` (constants while
decoding bytecode, before any program runs). `storageAliases`: wrappers built over existing storage —
OpImmutable (`stepImmutable`) and slicing a mutable array (`stepSlice`). -/
def indexSetTypes : List String := ["Array", "Map"]

def storageWrites : List (String × String × String) := [
  ("Array.IndexSet", "Array", "elem"),
  ("Map.IndexSet", "Map", "elem"),
  ("buildRange", "Array", "append"),
  ("buildRange", "Array", "field"),
  ("builtinAppend", "Array", "append"),
  ("builtinDelete", "Map", "delete"),
  ("builtinSplice", "Array", "field"),
  ("fixDecodedObject", "Array", "elem"),
  ("fixDecodedObject", "ImmutableArray", "elem"),
  ("fixDecodedObject", "ImmutableMap", "elem"),
  ("fixDecodedObject", "Map", "elem"),
  ("freezeObject", "ImmutableArray", "elem"),
  ("freezeObject", "ImmutableMap", "elem")]

def storageAliases : List (String × String × String) := [
  ("VM.run", "Array", "Array"),
  ("VM.run", "ImmutableArray", "Array"),
  ("VM.run", "ImmutableMap", "Map")]

/-- `export e` compiles to `e; IMMUT; RET 1`. -/
def exportEmits : List String := ["OpImmutable", "OpReturn"]

end Tengo.Model.Heap9

/-!
C05 — the EXPECTED inventory of run-time fault sites of the files the VM executes: vm.go, objects.go, builtins.go,
iterator.go, formatter.go, tengo.go (conversions), script.go (RunContext / Get / Set).

A fault site is a place where Go can panic by itself or is told to (kinds `panic`, `assert`, `index`, `slice`,
`div`, collected by the same extractor code as the compile-time inventory of C04, and `make` of a slice with a size
that is not evidently non-negative) or a call that closes a cycle of
NATIVE recursion (kind `recurse`: the Go stack, not the VM's frame array, grows with the shape of a value).
`Tengo.Props.C05Faults.fault_sites_match` proves that the inventory regenerated from /repo on every run EQUALS
this list, so a new partial operation, one moved to another function, a duplicated one, or a new recursive
function breaks a proof obligation and has to be classified here.

Each site carries ONE justification (`Just`), and each justification has ONE worst-case outcome (`Outcome`):
what the site can do to a `Compiled.RunContext` call. The justifications were written after reading each site in
/repo; they are reasons on record (as in `Model.Total.Expect` of C04), not theorems about Go — what IS proved is
the cover (every regenerated site has one) and the two classifications of `Props/C05Faults`.

Core Lean only; never imports Gen.
-/
namespace Tengo.Model.FaultSites

/-- The worst a site can do on the path `Compiled.RunContext → goroutine → VM.Run`. -/
inductive Outcome where
  /-- a guard or an invariant of compiled bytecode keeps the operation in range: no panic -/
  | cannotFire
  /-- the function is not executed by `RunContext`'s goroutine on script-controlled data: compile/decode time,
      or a host call whose argument is the host's own Go value -/
  | offRunPath
  /-- the panic is raised on purpose and recovered INSIDE the callee (`pp.doFormat`), which returns it as an error -/
  | returnedError
  /-- the operation can fire; what fires is an ordinary Go run-time panic (bounds, nil/assertion, integer divide,
      explicit `panic(v)`), which the deferred `recover()` of RunContext's goroutine turns into an error -/
  | goPanic
  /-- unbounded native recursion: Go stack exhaustion is a fatal error, `recover()` does not see it (O9) -/
  | fatal
  deriving DecidableEq, Repr

/-- Why a site has the outcome it has. -/
inductive Just where
  /-- the enclosing function tests `len(args)` / `len(x)` (or the equality of two lengths) first and returns
      `ErrWrongNumArguments` / `false` / an error otherwise -/
  | guardedByLengthCheck
  /-- a preceding comparison `idx < 0 || idx >= len(x)` returns (undefined / ErrIndexOutOfBounds), or the bounds
      are clamped to `[0, len(x)]` with `low ≤ high` checked (OpSliceIndex, splice) -/
  | guardedByRangeCheck
  /-- index is the loop variable of a counted loop whose bound is the length the slice was made with
      (`make([]T, n)` … `for i := 0; i < n; i++`), or `for framesIndex > 1` -/
  | loopBound
  /-- index is the key of a `range` over the same slice, or over a slice of the length the target was made with -/
  | rangeIndex
  /-- `make([]T, n)`: `n` is a sum of lengths (minus a constant the preceding `len(args)` test covers), a one-byte
      operand converted with `int(…)`, or tested `>= 0` / `> 3` in the enclosing `if` -/
  | nonNegativeSize
  /-- `v.curInsts[v.ip ± k]`: the instruction stream was produced by the compiler (every opcode is followed by its
      operands and every function ends in OpReturn/OpSuspend): bytecode well-formedness, property C02 -/
  | operandWidthInvariant
  /-- index of a constant / global / free variable / builtin read from an operand of verified bytecode (C02) -/
  | bytecodeIndexInvariant
  /-- the compiler only emits the opcode in a context where the case cannot occur: OpMap keys are string
      constants, OpIteratorNext/Key/Value read the hidden slot OpIteratorInit filled, OpSetSel* carry at least one
      selector, OpReturn is rejected outside a function so `framesIndex ≥ 1` stays true, `frames[framesIndex]`
      follows the `framesIndex >= MaxFrames` test. Violated by hand-made bytecode: an ordinary panic. -/
  | compilerInvariant
  /-- `Value()`/`Key()` are called by compiled for-in only after `Next()` returned true: `1 ≤ i ≤ len` of the
      slice header the iterator captured -/
  | iteratorProtocol
  /-- `c.globals[idx]` with `idx` from `globalIndexes`, both built from the same symbol table -/
  | symbolIndexInvariant
  /-- type assertion on a value assigned one line above (`res = make([]interface{}, …)`), or on the element type
      of a `sync.Pool` whose `New` returns that type -/
  | justAssigned
  /-- the panic is in the default of a switch over an argument for which every caller passes a literal of the
      handled set (`fmtInteger` base 2/8/10/16) -/
  | constantArgument
  /-- formatter.go is a port of Go's fmt: index arithmetic over the formatter's own scratch buffers, the format
      cursor (`i < end`) and strconv output. Not re-verified site by site; at worst an ordinary panic, re-raised by
      `pp.doFormat` and recovered by RunContext -/
  | fmtPort
  /-- `v.stack[…]` on the fixed `[StackSize]Object` array: the lower side holds by the compiler's stack
      discipline, the upper side is NOT tested by the VM — the Go bounds check IS the stack-overflow detector
      (property anchor "overflow is caught only by Go bounds checks"); fires on deep expression/locals stacks -/
  | stackBoundsCheck
  /-- fires on script input (integer `/` and `%` by zero; `bytes(n)` with negative `n`: makeslice; `ObjectImpl.String/TypeName` of a host type that does not
      override them; `pp.doFormat` re-raising a foreign panic): ordinary panic, recovered by RunContext -/
  | recoveredByRunContext
  /-- `panic(ErrStringLimit)` of the formatter's buffer: recovered by the function deferred in `pp.doFormat`, which
      returns it as `err` -/
  | recoveredByDoFormat
  /-- gob decoding (`Bool.GobDecode`) and `Script.prepCompile`: compile/decode time, inventoried by C04/C10 -/
  | offRunPath
  /-- native recursion whose re-entry is bounded by construction: `pp.badVerb` re-enters `printArg` with verb
      `'v'`, which every `fmtX` accepts, so the cycle printArg → fmtX → badVerb → printArg has depth ≤ 2 -/
  | boundedRecursion
  /-- recursion whose depth follows a HOST-supplied Go value (`FromInterface` of `Script.Add`/`Compiled.Set`
      arguments; `CountObjects` over the constants at `Script.Compile`), not a script value -/
  | hostValueRecursion
  /-- native recursion over a script value with a memo table (`freezeObject`): terminates on cyclic values, but the
      depth still follows the nesting of the value — not bounded by the VM's frame limit -/
  | memoisedNativeRecursion
  /-- native recursion over a script value with no visited set and no depth bound: `Equals`/`String`/`Copy` of
      Array, ImmutableArray, Map, ImmutableMap, `String`/`Copy` of Error, `ToInterface`. On a cyclic value
      (`a := [0]; a[0] = a; a == a`) it never returns: Go stack exhaustion, fatal — known finding O9 -/
  | unboundedNativeRecursion
  deriving DecidableEq, Repr

def Just.outcome : Just → Outcome
  | .guardedByLengthCheck | .guardedByRangeCheck | .loopBound | .rangeIndex | .operandWidthInvariant
  | .nonNegativeSize | .bytecodeIndexInvariant | .compilerInvariant | .iteratorProtocol | .symbolIndexInvariant | .justAssigned
  | .constantArgument | .boundedRecursion => .cannotFire
  | .offRunPath | .hostValueRecursion => .offRunPath
  | .recoveredByDoFormat => .returnedError
  | .fmtPort | .stackBoundsCheck | .recoveredByRunContext => .goPanic
  | .memoisedNativeRecursion | .unboundedNativeRecursion => .fatal

/-- (file, enclosing function, kind, text, occurrences). -/
abbrev Site := String × String × String × String × Nat

def Site.file (s : Site) : String := s.1
def Site.fn (s : Site) : String := s.2.1
def Site.kind (s : Site) : String := s.2.2.1

/-- The kinds that are Go panics when they fire (as opposed to `recurse`). -/
def panicKinds : List String := ["panic", "assert", "index", "slice", "div", "make"]

namespace Expect

def expected : List (Site × Just) := [
  (("builtins.go", "builtinAppend", "index", "args[0]", 1), .guardedByLengthCheck),
  (("builtins.go", "builtinAppend", "make", "make([]Object, 0, len(arg.Value)+len(args)-1)", 1), .nonNegativeSize),
  (("builtins.go", "builtinAppend", "slice", "args[1:]", 2), .guardedByLengthCheck),
  (("builtins.go", "builtinBool", "index", "args[0]", 3), .guardedByLengthCheck),
  (("builtins.go", "builtinBytes", "index", "args[0]", 2), .guardedByLengthCheck),
  (("builtins.go", "builtinBytes", "index", "args[1]", 1), .guardedByLengthCheck),
  (("builtins.go", "builtinBytes", "make", "make([]byte, int(n.Value))", 1), .recoveredByRunContext),
  (("builtins.go", "builtinChar", "index", "args[0]", 3), .guardedByLengthCheck),
  (("builtins.go", "builtinChar", "index", "args[1]", 1), .guardedByLengthCheck),
  (("builtins.go", "builtinCopy", "index", "args[0]", 1), .guardedByLengthCheck),
  (("builtins.go", "builtinDelete", "index", "args[0]", 1), .guardedByLengthCheck),
  (("builtins.go", "builtinDelete", "index", "args[1]", 2), .guardedByLengthCheck),
  (("builtins.go", "builtinFloat", "index", "args[0]", 3), .guardedByLengthCheck),
  (("builtins.go", "builtinFloat", "index", "args[1]", 1), .guardedByLengthCheck),
  (("builtins.go", "builtinFormat", "index", "args[0]", 2), .guardedByLengthCheck),
  (("builtins.go", "builtinFormat", "slice", "args[1:]", 1), .guardedByLengthCheck),
  (("builtins.go", "builtinFreeze", "index", "args[0]", 1), .guardedByLengthCheck),
  (("builtins.go", "builtinInt", "index", "args[0]", 3), .guardedByLengthCheck),
  (("builtins.go", "builtinInt", "index", "args[1]", 1), .guardedByLengthCheck),
  (("builtins.go", "builtinIsArray", "index", "args[0]", 1), .guardedByLengthCheck),
  (("builtins.go", "builtinIsBool", "index", "args[0]", 1), .guardedByLengthCheck),
  (("builtins.go", "builtinIsBytes", "index", "args[0]", 1), .guardedByLengthCheck),
  (("builtins.go", "builtinIsCallable", "index", "args[0]", 1), .guardedByLengthCheck),
  (("builtins.go", "builtinIsChar", "index", "args[0]", 1), .guardedByLengthCheck),
  (("builtins.go", "builtinIsError", "index", "args[0]", 1), .guardedByLengthCheck),
  (("builtins.go", "builtinIsFloat", "index", "args[0]", 1), .guardedByLengthCheck),
  (("builtins.go", "builtinIsFunction", "index", "args[0]", 1), .guardedByLengthCheck),
  (("builtins.go", "builtinIsImmutableArray", "index", "args[0]", 1), .guardedByLengthCheck),
  (("builtins.go", "builtinIsImmutableMap", "index", "args[0]", 1), .guardedByLengthCheck),
  (("builtins.go", "builtinIsInt", "index", "args[0]", 1), .guardedByLengthCheck),
  (("builtins.go", "builtinIsIterable", "index", "args[0]", 1), .guardedByLengthCheck),
  (("builtins.go", "builtinIsMap", "index", "args[0]", 1), .guardedByLengthCheck),
  (("builtins.go", "builtinIsString", "index", "args[0]", 1), .guardedByLengthCheck),
  (("builtins.go", "builtinIsTime", "index", "args[0]", 1), .guardedByLengthCheck),
  (("builtins.go", "builtinIsUndefined", "index", "args[0]", 1), .guardedByLengthCheck),
  (("builtins.go", "builtinLen", "index", "args[0]", 1), .guardedByLengthCheck),
  (("builtins.go", "builtinRange", "index", "args[i]", 1), .rangeIndex),
  (("builtins.go", "builtinSplice", "index", "args[0]", 2), .guardedByLengthCheck),
  (("builtins.go", "builtinSplice", "index", "args[1]", 2), .guardedByLengthCheck),
  (("builtins.go", "builtinSplice", "index", "args[2]", 2), .guardedByLengthCheck),
  (("builtins.go", "builtinSplice", "index", "args[i]", 1), .loopBound),
  (("builtins.go", "builtinSplice", "make", "make([]Object, 0, argsLen-3)", 1), .nonNegativeSize),
  (("builtins.go", "builtinSplice", "slice", "array.Value[:startIdx]", 1), .guardedByRangeCheck),
  (("builtins.go", "builtinSplice", "slice", "array.Value[endIdx:]", 1), .guardedByRangeCheck),
  (("builtins.go", "builtinSplice", "slice", "array.Value[startIdx:endIdx]", 1), .guardedByRangeCheck),
  (("builtins.go", "builtinString", "index", "args[0]", 3), .guardedByLengthCheck),
  (("builtins.go", "builtinString", "index", "args[1]", 1), .guardedByLengthCheck),
  (("builtins.go", "builtinTime", "index", "args[0]", 3), .guardedByLengthCheck),
  (("builtins.go", "builtinTime", "index", "args[1]", 1), .guardedByLengthCheck),
  (("builtins.go", "builtinTypeName", "index", "args[0]", 1), .guardedByLengthCheck),
  (("builtins.go", "freezeObject", "index", "frozen.Value[i]", 2), .rangeIndex),
  (("builtins.go", "freezeObject", "recurse", "freezeObject(elem, memo)", 2), .memoisedNativeRecursion),
  (("builtins.go", "freezeObject", "recurse", "freezeObject(val, memo)", 2), .memoisedNativeRecursion),
  (("formatter.go", "fmtbuf.Write", "panic", "ErrStringLimit", 1), .recoveredByDoFormat),
  (("formatter.go", "fmtbuf.WriteRune", "panic", "ErrStringLimit", 1), .recoveredByDoFormat),
  (("formatter.go", "fmtbuf.WriteRune", "slice", "b2[:n+w]", 1), .fmtPort),
  (("formatter.go", "fmtbuf.WriteRune", "slice", "b2[n : n+utf8.UTFMax]", 1), .fmtPort),
  (("formatter.go", "fmtbuf.WriteSingleByte", "panic", "ErrStringLimit", 1), .recoveredByDoFormat),
  (("formatter.go", "fmtbuf.WriteString", "panic", "ErrStringLimit", 1), .recoveredByDoFormat),
  (("formatter.go", "formatter.fmtC", "slice", "buf[:utf8.UTFMax]", 1), .fmtPort),
  (("formatter.go", "formatter.fmtC", "slice", "buf[:w]", 1), .fmtPort),
  (("formatter.go", "formatter.fmtC", "slice", "f.intbuf[:0]", 1), .fmtPort),
  (("formatter.go", "formatter.fmtFloat", "index", "num[0]", 5), .fmtPort),
  (("formatter.go", "formatter.fmtFloat", "index", "num[1]", 5), .fmtPort),
  (("formatter.go", "formatter.fmtFloat", "index", "num[i]", 1), .fmtPort),
  (("formatter.go", "formatter.fmtFloat", "slice", "f.intbuf[:1]", 1), .fmtPort),
  (("formatter.go", "formatter.fmtFloat", "slice", "num[1:]", 4), .fmtPort),
  (("formatter.go", "formatter.fmtFloat", "slice", "num[:i]", 2), .fmtPort),
  (("formatter.go", "formatter.fmtFloat", "slice", "num[i:]", 2), .fmtPort),
  (("formatter.go", "formatter.fmtFloat", "slice", "tailBuf[:0]", 1), .fmtPort),
  (("formatter.go", "formatter.fmtInteger", "index", "buf[i]", 17), .fmtPort),
  (("formatter.go", "formatter.fmtInteger", "index", "digits[16]", 1), .fmtPort),
  (("formatter.go", "formatter.fmtInteger", "index", "digits[u&0xF]", 1), .fmtPort),
  (("formatter.go", "formatter.fmtInteger", "index", "digits[u]", 1), .fmtPort),
  (("formatter.go", "formatter.fmtInteger", "make", "make([]byte, width)", 1), .fmtPort),
  (("formatter.go", "formatter.fmtInteger", "panic", "\"fmt: unknown base; can't happen\"", 1), .constantArgument),
  (("formatter.go", "formatter.fmtInteger", "slice", "buf[i:]", 1), .fmtPort),
  (("formatter.go", "formatter.fmtInteger", "slice", "f.intbuf[0:]", 1), .fmtPort),
  (("formatter.go", "formatter.fmtQ", "slice", "f.intbuf[:0]", 1), .fmtPort),
  (("formatter.go", "formatter.fmtQc", "slice", "f.intbuf[:0]", 1), .fmtPort),
  (("formatter.go", "formatter.fmtSbx", "index", "b[i]", 1), .fmtPort),
  (("formatter.go", "formatter.fmtSbx", "index", "digits[16]", 2), .fmtPort),
  (("formatter.go", "formatter.fmtSbx", "index", "digits[c&0xF]", 1), .fmtPort),
  (("formatter.go", "formatter.fmtSbx", "index", "digits[c>>4]", 1), .fmtPort),
  (("formatter.go", "formatter.fmtSbx", "index", "s[i]", 1), .fmtPort),
  (("formatter.go", "formatter.fmtSbx", "panic", "ErrStringLimit", 1), .recoveredByDoFormat),
  (("formatter.go", "formatter.fmtUnicode", "index", "buf[i]", 8), .fmtPort),
  (("formatter.go", "formatter.fmtUnicode", "index", "udigits[u&0xF]", 1), .fmtPort),
  (("formatter.go", "formatter.fmtUnicode", "index", "udigits[u]", 1), .fmtPort),
  (("formatter.go", "formatter.fmtUnicode", "make", "make([]byte, width)", 1), .fmtPort),
  (("formatter.go", "formatter.fmtUnicode", "slice", "buf[i:]", 2), .fmtPort),
  (("formatter.go", "formatter.fmtUnicode", "slice", "f.intbuf[0:]", 1), .fmtPort),
  (("formatter.go", "formatter.truncate", "index", "b[i]", 1), .fmtPort),
  (("formatter.go", "formatter.truncate", "slice", "b[:i]", 1), .fmtPort),
  (("formatter.go", "formatter.truncate", "slice", "b[i:]", 1), .fmtPort),
  (("formatter.go", "formatter.truncateString", "slice", "s[:i]", 1), .fmtPort),
  (("formatter.go", "formatter.writePadding", "index", "padding[i]", 1), .fmtPort),
  (("formatter.go", "formatter.writePadding", "make", "make(fmtbuf, cap(buf)*2+n)", 1), .fmtPort),
  (("formatter.go", "formatter.writePadding", "panic", "ErrStringLimit", 1), .recoveredByDoFormat),
  (("formatter.go", "formatter.writePadding", "slice", "buf[:newLen]", 1), .fmtPort),
  (("formatter.go", "formatter.writePadding", "slice", "buf[oldLen:newLen]", 1), .fmtPort),
  (("formatter.go", "intFromArg", "index", "a[argNum]", 1), .fmtPort),
  (("formatter.go", "newPrinter", "assert", "ppFree.Get().(*pp)", 1), .justAssigned),
  (("formatter.go", "parseArgNumber", "index", "format[i]", 1), .fmtPort),
  (("formatter.go", "parsenum", "index", "s[newi]", 3), .fmtPort),
  (("formatter.go", "pp.argNumber", "index", "format[i]", 1), .fmtPort),
  (("formatter.go", "pp.argNumber", "slice", "format[i:]", 1), .fmtPort),
  (("formatter.go", "pp.badVerb", "recurse", "p.printArg(p.arg, 'v')", 1), .boundedRecursion),
  (("formatter.go", "pp.doFormat", "index", "a[argNum]", 2), .fmtPort),
  (("formatter.go", "pp.doFormat", "index", "format[i]", 6), .fmtPort),
  (("formatter.go", "pp.doFormat", "panic", "r", 1), .recoveredByRunContext),
  (("formatter.go", "pp.doFormat", "slice", "a[argNum:]", 1), .fmtPort),
  (("formatter.go", "pp.doFormat", "slice", "format[i:]", 1), .fmtPort),
  (("formatter.go", "pp.doFormat", "slice", "format[lasti:i]", 1), .fmtPort),
  (("formatter.go", "pp.fmtBool", "recurse", "p.badVerb(verb)", 1), .boundedRecursion),
  (("formatter.go", "pp.fmtFloat", "recurse", "p.badVerb(verb)", 1), .boundedRecursion),
  (("formatter.go", "pp.fmtInteger", "recurse", "p.badVerb(verb)", 2), .boundedRecursion),
  (("formatter.go", "pp.fmtString", "recurse", "p.badVerb(verb)", 1), .boundedRecursion),
  (("formatter.go", "pp.free", "slice", "p.buf[:0]", 1), .fmtPort),
  (("formatter.go", "pp.printArg", "recurse", "p.fmtBool(!f.IsFalsy(), verb)", 1), .boundedRecursion),
  (("formatter.go", "pp.printArg", "recurse", "p.fmtFloat(f.Value, 64, verb)", 1), .boundedRecursion),
  (("formatter.go", "pp.printArg", "recurse", "p.fmtInteger(uint64(f.Value), signed, verb)", 1), .boundedRecursion),
  (("formatter.go", "pp.printArg", "recurse", "p.fmtString(f.String(), verb)", 1), .boundedRecursion),
  (("formatter.go", "pp.printArg", "recurse", "p.fmtString(f.Value, verb)", 1), .boundedRecursion),
  (("iterator.go", "ArrayIterator.Value", "index", "i.v[i.i-1]", 1), .iteratorProtocol),
  (("iterator.go", "BytesIterator.Value", "index", "i.v[i.i-1]", 1), .iteratorProtocol),
  (("iterator.go", "MapIterator.Key", "index", "i.k[i.i-1]", 1), .iteratorProtocol),
  (("iterator.go", "MapIterator.Value", "index", "i.k[i.i-1]", 1), .iteratorProtocol),
  (("iterator.go", "StringIterator.Value", "index", "i.v[i.i-1]", 1), .iteratorProtocol),
  (("objects.go", "Array.BinaryOp", "make", "make([]Object, 0, len(o.Value)+len(rhs.Value))", 1), .nonNegativeSize),
  (("objects.go", "Array.Copy", "recurse", "elem.Copy()", 1), .unboundedNativeRecursion),
  (("objects.go", "Array.Equals", "index", "xVal[i]", 1), .guardedByLengthCheck),
  (("objects.go", "Array.Equals", "recurse", "e.Equals(xVal[i])", 1), .unboundedNativeRecursion),
  (("objects.go", "Array.IndexGet", "index", "o.Value[idxVal]", 1), .guardedByRangeCheck),
  (("objects.go", "Array.IndexSet", "index", "o.Value[intIdx]", 1), .guardedByRangeCheck),
  (("objects.go", "Array.String", "recurse", "e.String()", 1), .unboundedNativeRecursion),
  (("objects.go", "Bool.GobDecode", "index", "b[0]", 1), .offRunPath),
  (("objects.go", "Bytes.BinaryOp", "make", "make([]byte, 0, len(o.Value)+len(rhs.Value))", 1), .nonNegativeSize),
  (("objects.go", "Bytes.IndexGet", "index", "o.Value[idxVal]", 1), .guardedByRangeCheck),
  (("objects.go", "Error.Copy", "recurse", "o.Value.Copy()", 1), .unboundedNativeRecursion),
  (("objects.go", "Error.String", "recurse", "o.Value.String()", 1), .unboundedNativeRecursion),
  (("objects.go", "ImmutableArray.BinaryOp", "make", "make([]Object, 0, len(o.Value)+len(rhs.Value))", 1), .nonNegativeSize),
  (("objects.go", "ImmutableArray.Copy", "recurse", "elem.Copy()", 1), .unboundedNativeRecursion),
  (("objects.go", "ImmutableArray.Equals", "index", "xVal[i]", 1), .guardedByLengthCheck),
  (("objects.go", "ImmutableArray.Equals", "recurse", "e.Equals(xVal[i])", 1), .unboundedNativeRecursion),
  (("objects.go", "ImmutableArray.IndexGet", "index", "o.Value[idxVal]", 1), .guardedByRangeCheck),
  (("objects.go", "ImmutableArray.String", "recurse", "e.String()", 1), .unboundedNativeRecursion),
  (("objects.go", "ImmutableMap.Copy", "recurse", "v.Copy()", 1), .unboundedNativeRecursion),
  (("objects.go", "ImmutableMap.Equals", "recurse", "v.Equals(tv)", 1), .unboundedNativeRecursion),
  (("objects.go", "ImmutableMap.String", "recurse", "v.String()", 1), .unboundedNativeRecursion),
  (("objects.go", "Int.BinaryOp", "div", "o.Value % rhs.Value", 1), .recoveredByRunContext),
  (("objects.go", "Int.BinaryOp", "div", "o.Value / rhs.Value", 1), .recoveredByRunContext),
  (("objects.go", "Map.Copy", "recurse", "v.Copy()", 1), .unboundedNativeRecursion),
  (("objects.go", "Map.Equals", "recurse", "v.Equals(tv)", 1), .unboundedNativeRecursion),
  (("objects.go", "Map.String", "recurse", "v.String()", 1), .unboundedNativeRecursion),
  (("objects.go", "ObjectImpl.String", "panic", "ErrNotImplemented", 1), .recoveredByRunContext),
  (("objects.go", "ObjectImpl.TypeName", "panic", "ErrNotImplemented", 1), .recoveredByRunContext),
  (("objects.go", "String.IndexGet", "index", "o.runeStr[idxVal]", 1), .guardedByRangeCheck),
  (("script.go", "Compiled.Clone", "index", "clone.globals[idx]", 1), .symbolIndexInvariant),
  (("script.go", "Compiled.Get", "index", "c.globals[idx]", 1), .symbolIndexInvariant),
  (("script.go", "Compiled.GetAll", "index", "c.globals[idx]", 1), .symbolIndexInvariant),
  (("script.go", "Compiled.IsDefined", "index", "c.globals[idx]", 1), .symbolIndexInvariant),
  (("script.go", "Compiled.Set", "index", "c.globals[idx]", 1), .symbolIndexInvariant),
  (("script.go", "Script.Compile", "slice", "globals[:symbolTable.MaxSymbols()+1]", 1), .guardedByLengthCheck),
  (("script.go", "Script.prepCompile", "index", "globals[symbol.Index]", 1), .offRunPath),
  (("script.go", "Script.prepCompile", "panic", "fmt.Errorf(\"wrong symbol index: %d != %d\", idx, …", 1), .offRunPath),
  (("tengo.go", "CountObjects", "recurse", "CountObjects(o.Value)", 1), .hostValueRecursion),
  (("tengo.go", "CountObjects", "recurse", "CountObjects(v)", 4), .hostValueRecursion),
  (("tengo.go", "FromInterface", "index", "arr[i]", 1), .rangeIndex),
  (("tengo.go", "FromInterface", "recurse", "FromInterface(e)", 1), .hostValueRecursion),
  (("tengo.go", "FromInterface", "recurse", "FromInterface(vv)", 1), .hostValueRecursion),
  (("tengo.go", "ToInterface", "assert", "res.([]interface{})", 2), .justAssigned),
  (("tengo.go", "ToInterface", "assert", "res.(map[string]interface{})", 2), .justAssigned),
  (("tengo.go", "ToInterface", "index", "res.([]interface{})[i]", 2), .rangeIndex),
  (("tengo.go", "ToInterface", "recurse", "ToInterface(v)", 2), .unboundedNativeRecursion),
  (("tengo.go", "ToInterface", "recurse", "ToInterface(val)", 2), .unboundedNativeRecursion),
  (("vm.go", "VM.Run", "index", "v.frames[v.framesIndex-1]", 1), .loopBound),
  (("vm.go", "VM.run", "assert", "iterator.(Iterator)", 3), .compilerInvariant),
  (("vm.go", "VM.run", "assert", "key.(*String)", 1), .compilerInvariant),
  (("vm.go", "VM.run", "index", "args[i-spStart]", 1), .loopBound),
  (("vm.go", "VM.run", "index", "builtinFuncs[builtinIndex]", 1), .bytecodeIndexInvariant),
  (("vm.go", "VM.run", "index", "free[i]", 2), .loopBound),
  (("vm.go", "VM.run", "index", "selectors[i]", 3), .loopBound),
  (("vm.go", "VM.run", "index", "v.constants[cidx]", 1), .bytecodeIndexInvariant),
  (("vm.go", "VM.run", "index", "v.constants[constIndex]", 1), .bytecodeIndexInvariant),
  (("vm.go", "VM.run", "index", "v.curFrame.freeVars[freeIndex]", 4), .bytecodeIndexInvariant),
  (("vm.go", "VM.run", "index", "v.curInsts[v.ip+1]", 5), .operandWidthInvariant),
  (("vm.go", "VM.run", "index", "v.curInsts[v.ip+2]", 4), .operandWidthInvariant),
  (("vm.go", "VM.run", "index", "v.curInsts[v.ip+3]", 1), .operandWidthInvariant),
  (("vm.go", "VM.run", "index", "v.curInsts[v.ip+4]", 1), .operandWidthInvariant),
  (("vm.go", "VM.run", "index", "v.curInsts[v.ip-1]", 11), .operandWidthInvariant),
  (("vm.go", "VM.run", "index", "v.curInsts[v.ip-2]", 5), .operandWidthInvariant),
  (("vm.go", "VM.run", "index", "v.curInsts[v.ip-3]", 3), .operandWidthInvariant),
  (("vm.go", "VM.run", "index", "v.curInsts[v.ip]", 22), .operandWidthInvariant),
  (("vm.go", "VM.run", "index", "v.frames[v.framesIndex-1]", 1), .compilerInvariant),
  (("vm.go", "VM.run", "index", "v.frames[v.framesIndex]", 2), .compilerInvariant),
  (("vm.go", "VM.run", "index", "v.globals[globalIndex]", 3), .bytecodeIndexInvariant),
  (("vm.go", "VM.run", "index", "v.stack[i+1]", 1), .stackBoundsCheck),
  (("vm.go", "VM.run", "index", "v.stack[i]", 3), .stackBoundsCheck),
  (("vm.go", "VM.run", "index", "v.stack[spStart]", 1), .stackBoundsCheck),
  (("vm.go", "VM.run", "index", "v.stack[sp]", 5), .stackBoundsCheck),
  (("vm.go", "VM.run", "index", "v.stack[v.curFrame.basePointer+localIndex]", 2), .stackBoundsCheck),
  (("vm.go", "VM.run", "index", "v.stack[v.curFrame.basePointer+p]", 1), .stackBoundsCheck),
  (("vm.go", "VM.run", "index", "v.stack[v.sp-1-numArgs]", 1), .stackBoundsCheck),
  (("vm.go", "VM.run", "index", "v.stack[v.sp-1]", 24), .stackBoundsCheck),
  (("vm.go", "VM.run", "index", "v.stack[v.sp-2]", 6), .stackBoundsCheck),
  (("vm.go", "VM.run", "index", "v.stack[v.sp-3]", 1), .stackBoundsCheck),
  (("vm.go", "VM.run", "index", "v.stack[v.sp-numArgs+p]", 1), .stackBoundsCheck),
  (("vm.go", "VM.run", "index", "v.stack[v.sp-numFree+i]", 2), .stackBoundsCheck),
  (("vm.go", "VM.run", "index", "v.stack[v.sp-numSelectors+i]", 3), .stackBoundsCheck),
  (("vm.go", "VM.run", "index", "v.stack[v.sp-numSelectors-1]", 3), .stackBoundsCheck),
  (("vm.go", "VM.run", "index", "v.stack[v.sp]", 38), .stackBoundsCheck),
  (("vm.go", "VM.run", "make", "make([]*ObjectPtr, numFree)", 1), .nonNegativeSize),
  (("vm.go", "VM.run", "make", "make([]Object, numSelectors)", 3), .nonNegativeSize),
  (("vm.go", "VM.run", "make", "make([]Object, varArgs)", 1), .nonNegativeSize),
  (("vm.go", "VM.run", "slice", "left.Value[lowIdx:highIdx]", 4), .guardedByRangeCheck),
  (("vm.go", "VM.run", "slice", "v.stack[v.sp-numArgs : v.sp]", 1), .stackBoundsCheck),
  (("vm.go", "indexAssign", "index", "selectors[0]", 1), .compilerInvariant),
  (("vm.go", "indexAssign", "index", "selectors[sidx]", 2), .loopBound)

]

def sites : List Site := expected.map (·.1)

/-- The functions that execute on the HOST's goroutine (callers of `Compiled.Get/Set/…`, `Variable.Value`), where
no `recover()` of tengo is on the stack: a site there must not be able to fire. -/
def hostSide : List (String × String) := [
  ("script.go", "Compiled.Clone"), ("script.go", "Compiled.Get"), ("script.go", "Compiled.GetAll"),
  ("script.go", "Compiled.IsDefined"), ("script.go", "Compiled.Set"), ("script.go", "Script.Compile"),
  ("script.go", "Script.prepCompile"), ("tengo.go", "ToInterface"), ("tengo.go", "FromInterface"),
  ("tengo.go", "CountObjects"), ("objects.go", "Bool.GobDecode")]

/-- The O9 class: every function whose native recursion depth follows the shape of a script value. -/
def nativeRecursion : List (String × String) := [
  ("builtins.go", "freezeObject"),
  ("objects.go", "Array.Copy"), ("objects.go", "Array.Equals"), ("objects.go", "Array.String"),
  ("objects.go", "Error.Copy"), ("objects.go", "Error.String"),
  ("objects.go", "ImmutableArray.Copy"), ("objects.go", "ImmutableArray.Equals"), ("objects.go", "ImmutableArray.String"),
  ("objects.go", "ImmutableMap.Copy"), ("objects.go", "ImmutableMap.Equals"), ("objects.go", "ImmutableMap.String"),
  ("objects.go", "Map.Copy"), ("objects.go", "Map.Equals"), ("objects.go", "Map.String"),
  ("tengo.go", "ToInterface")]

/-- Every declaration on a cycle of the static call graph of the inventoried files. -/
def recursiveFunctions : List String := [
  "builtins.go: freezeObject",
  "formatter.go: pp.badVerb", "formatter.go: pp.fmtBool", "formatter.go: pp.fmtFloat", "formatter.go: pp.fmtInteger",
  "formatter.go: pp.fmtString", "formatter.go: pp.printArg",
  "objects.go: Array.Copy", "objects.go: Array.Equals", "objects.go: Array.String",
  "objects.go: Error.Copy", "objects.go: Error.String",
  "objects.go: ImmutableArray.Copy", "objects.go: ImmutableArray.Equals", "objects.go: ImmutableArray.String",
  "objects.go: ImmutableMap.Copy", "objects.go: ImmutableMap.Equals", "objects.go: ImmutableMap.String",
  "objects.go: Map.Copy", "objects.go: Map.Equals", "objects.go: Map.String",
  "tengo.go: CountObjects", "tengo.go: FromInterface", "tengo.go: ToInterface"]

/-- The two `recover()` calls of the run-time files. -/
def recoverCalls : List String := ["formatter.go: pp.doFormat", "script.go: Compiled.RunContext"]

def files : List String := ["vm.go", "objects.go", "builtins.go", "iterator.go", "formatter.go", "tengo.go", "script.go"]

end Expect
end Tengo.Model.FaultSites

import Tengo.Model.F0
/-!
Fragment F1 = F0 + loops: `for cond { body }` (and, through the resolver, `for init; cond; post { body }`
without break/continue). The reference semantics is fuel-indexed (a loop may not terminate);
`Res.out` (fuel exhausted) is distinct from every real outcome. Core Lean only.
-/
namespace Tengo.Model.F1
open Tengo.Model.F0

mutual
  inductive Stm where
    | expr (e : Ex)
    | assign (i : Nat) (e : Ex)
    | ifs (c : Ex) (body : Stms)
    | ifelse (c : Ex) (body els : Stms)
    | whil (c : Ex) (body : Stms)          -- `for c { body }`; an absent condition is the constant true
    | forever (body : Stms)                 -- `for { body }`
  inductive Stms where
    | nil
    | cons (s : Stm) (ss : Stms)
end

/-- A statement or a statement list (one recursion for both). -/
abbrev Code := Stm ⊕ Stms

inductive Res (V : Type) where
  | done (g : Nat → V)
  | err
  | out            -- fuel exhausted: no claim

variable {V : Type}

/-- Fuel-indexed big-step reference semantics. -/
def exec (S : Sem V) (cs : Nat → V) : Nat → Code → (Nat → V) → Res V
  | 0, _, _ => .out
  | f + 1, .inl (.expr e), g =>
    match eval S cs g e with
    | none => .err
    | some _ => .done g
  | f + 1, .inl (.assign i e), g =>
    match eval S cs g e with
    | none => .err
    | some v => .done (upd g i v)
  | f + 1, .inl (.ifs c body), g =>
    match eval S cs g c with
    | none => .err
    | some a => if S.falsy a then .done g else exec S cs f (.inr body) g
  | f + 1, .inl (.ifelse c body els), g =>
    match eval S cs g c with
    | none => .err
    | some a => if S.falsy a then exec S cs f (.inr els) g else exec S cs f (.inr body) g
  | f + 1, .inl (.whil c body), g =>
    match eval S cs g c with
    | none => .err
    | some a =>
      if S.falsy a then .done g
      else match exec S cs f (.inr body) g with
        | .done g1 => exec S cs f (.inl (.whil c body)) g1
        | r => r
  | f + 1, .inl (.forever body), g =>
    match exec S cs f (.inr body) g with
    | .done g1 => exec S cs f (.inl (.forever body)) g1
    | r => r
  | _ + 1, .inr .nil, g => .done g
  | f + 1, .inr (.cons s ss), g =>
    match exec S cs f (.inl s) g with
    | .done g1 => exec S cs f (.inr ss) g1
    | r => r

mutual
  def compS (off : Nat) : Stm → List Ins
    | .expr e => comp off e ++ [.pop]
    | .assign i e => comp off e ++ [.setg i]
    | .ifs c body =>
      let cc := comp off c
      let bOff := off + csize cc + 5
      let bc := compSs bOff body
      cc ++ [.jmpf (bOff + csize bc)] ++ bc
    | .ifelse c body els =>
      let cc := comp off c
      let bOff := off + csize cc + 5
      let bc := compSs bOff body
      let eOff := bOff + csize bc + 5
      let ec := compSs eOff els
      cc ++ [.jmpf eOff] ++ bc ++ [.jmp (eOff + csize ec)] ++ ec
    | .whil c body =>
      -- compileForStmt: cond; JMPF end; body; JMP preCondPos
      let cc := comp off c
      let bOff := off + csize cc + 5
      let bc := compSs bOff body
      cc ++ [.jmpf (bOff + csize bc + 5)] ++ bc ++ [.jmp off]
    | .forever body =>
      let bc := compSs off body
      bc ++ [.jmp off]
  def compSs (off : Nat) : Stms → List Ins
    | .nil => []
    | .cons s ss =>
      let sc := compS off s
      sc ++ compSs (off + csize sc) ss
end

def compC (off : Nat) : Code → List Ins
  | .inl s => compS off s
  | .inr ss => compSs off ss

end Tengo.Model.F1

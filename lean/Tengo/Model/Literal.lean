import Tengo.Model.Scanner
/-!
Literal values as the parser computes them (parser.go parseOperand / parseCharLit): models of
`strconv.ParseInt(lit, 0, 64)`, of the *syntax* accepted by `strconv.ParseFloat(lit, 64)` (the value is
external), of `strconv.UnquoteChar` and `strconv.Unquote`. Core Lean only.
-/
namespace Tengo.Model.Literal
open Tengo.Model.Token Tengo.Model.Scanner

/-! ### strconv.ParseInt(s, 0, 64) on an unsigned spelling -/

inductive IntRes where
  | ok (v : Nat)
  | range
  | syntax
  deriving DecidableEq, Repr, Inhabited

def lowerN (c : Nat) : Nat := if (c / 32) % 2 == 1 then c else c + 32

/-- Digit value as `ParseUint` reads it: `0-9`, `a-z`/`A-Z` → 10…35. -/
def digitOf (c : UInt8) : Option Nat :=
  let n := c.toNat
  if 48 ≤ n && n ≤ 57 then some (n - 48)
  else if 97 ≤ lowerN n && lowerN n ≤ 122 then some (lowerN n - 97 + 10)
  else none

def two64 : Nat := 18446744073709551616
def two63 : Nat := 9223372036854775808

def cutoff (base : Nat) : Nat := (two64 - 1) / base + 1

inductive UintRes where
  | done (n : Nat) (underscores : Bool)
  | range
  | syntax
  deriving DecidableEq, Repr

/-- The digit loop of `ParseUint` (base argument 0, so underscores are skipped and remembered). -/
def uintLoop (base : Nat) : Bs → Nat → Bool → UintRes
  | [], n, us => .done n us
  | c :: cs, n, us =>
    if c == 95 then uintLoop base cs n true
    else match digitOf c with
      | none => .syntax
      | some d =>
        if d ≥ base then .syntax
        else if n ≥ cutoff base then .range
        else if n * base + d ≥ two64 then .range
        else uintLoop base cs (n * base + d) us

/-- `underscoreOK`'s "saw" state. -/
inductive Saw where
  | start | digit | under | other
  deriving DecidableEq, Repr

def isB (c : UInt8) (x : Nat) : Bool := lowerN c.toNat == x

def underscoreLoop (hex : Bool) : Bs → Saw → Bool
  | [], saw => saw != .under
  | c :: cs, saw =>
    let n := c.toNat
    if (48 ≤ n && n ≤ 57) || (hex && 97 ≤ lowerN n && lowerN n ≤ 102) then underscoreLoop hex cs .digit
    else if n == 95 then
      if saw != .digit then false else underscoreLoop hex cs .under
    else if saw == .under then false
    else underscoreLoop hex cs .other

/-- `strconv.underscoreOK` (no sign). -/
def underscoreOK (s : Bs) : Bool :=
  match s with
  | 48 :: p :: rest =>
    if isB p 98 || isB p 111 || isB p 120 then underscoreLoop (isB p 120) rest .digit
    else underscoreLoop false s .start
  | _ => underscoreLoop false s .start

/-- Base and digits after the prefix, as `ParseUint` with base 0 chooses them. -/
def splitBase (s : Bs) : Nat × Bs :=
  match s with
  | 48 :: rest =>
    match rest with
    | p :: _ :: _ =>
      if isB p 98 then (2, rest.drop 1)
      else if isB p 111 then (8, rest.drop 1)
      else if isB p 120 then (16, rest.drop 1)
      else (8, rest)
    | _ => (8, rest)
  | _ => (10, s)

/-- `strconv.ParseInt(s, 0, 64)` for a spelling without sign. -/
def parseInt0 (s : Bs) : IntRes :=
  if s.isEmpty then .syntax
  else
    let bd := splitBase s
    match uintLoop bd.1 bd.2 0 false with
    | .syntax => .syntax
    | .range => .range
    | .done n us =>
      if us && !underscoreOK s then .syntax
      else if n ≥ two63 then .range
      else .ok n

/-! ### Syntax accepted by strconv.ParseFloat (readFloat, whole string consumed) -/

structure Mant where
  rest : Bs
  sawdot : Bool
  sawdigits : Bool
  underscores : Bool

/-- Mantissa loop of `readFloat`. -/
def mantLoop (hex : Bool) : Bs → Bool → Bool → Bool → Mant
  | [], sd, sg, us => ⟨[], sd, sg, us⟩
  | c :: cs, sd, sg, us =>
    let n := c.toNat
    if n == 95 then mantLoop hex cs sd sg true
    else if n == 46 then
      if sd then ⟨c :: cs, sd, sg, us⟩ else mantLoop hex cs true sg us
    else if 48 ≤ n && n ≤ 57 then mantLoop hex cs sd true us
    else if hex && 97 ≤ lowerN n && lowerN n ≤ 102 then mantLoop hex cs sd true us
    else ⟨c :: cs, sd, sg, us⟩

/-- Exponent digits: digits and underscores; answers the rest and whether an underscore was seen. -/
def expDigits : Bs → Bool → Bs × Bool
  | [], us => ([], us)
  | c :: cs, us =>
    if c == 95 then expDigits cs true
    else if 48 ≤ c.toNat && c.toNat ≤ 57 then expDigits cs us
    else (c :: cs, us)

/-- `ParseFloat(s, 64)` does not answer ErrSyntax (s without sign, not "inf"/"nan"). -/
def floatSyntaxOk (s : Bs) : Bool :=
  let hexBody : Bool × Bs :=
    match s with
    | 48 :: p :: d :: rest => if isB p 120 then (true, d :: rest) else (false, s)
    | _ => (false, s)
  let hex := hexBody.1
  let m := mantLoop hex hexBody.2 false false false
  if !m.sawdigits then false
  else
    let expChar : Nat := if hex then 112 else 101
    match m.rest with
    | e :: r1 =>
      if lowerN e.toNat == expChar then
        match r1 with
        | [] => false
        | sg :: r2 =>
          let r3 := if sg == 43 || sg == 45 then r2 else r1
          match r3 with
          | [] => false
          | d :: _ =>
            if !(48 ≤ d.toNat && d.toNat ≤ 57) then false
            else
              let t := expDigits r3 m.underscores
              t.1.isEmpty && (!t.2 || underscoreOK s)
      else false      -- hex without exponent, or trailing garbage
    | [] => !hex && (!m.underscores || underscoreOK s)

/-! ### strconv.UnquoteChar / strconv.Unquote -/

/-- `utf8.AppendRune` for a valid rune. -/
def encodeRune (r : Nat) : Bs :=
  if r < 0x80 then [UInt8.ofNat r]
  else if r < 0x800 then [UInt8.ofNat (0xC0 + r / 64), UInt8.ofNat (0x80 + r % 64)]
  else if r < 0x10000 then
    [UInt8.ofNat (0xE0 + r / 4096), UInt8.ofNat (0x80 + (r / 64) % 64), UInt8.ofNat (0x80 + r % 64)]
  else
    [UInt8.ofNat (0xF0 + r / 262144), UInt8.ofNat (0x80 + (r / 4096) % 64),
     UInt8.ofNat (0x80 + (r / 64) % 64), UInt8.ofNat (0x80 + r % 64)]

def unhex (c : UInt8) : Option Nat :=
  let n := c.toNat
  if 48 ≤ n && n ≤ 57 then some (n - 48)
  else if 97 ≤ n && n ≤ 102 then some (n - 97 + 10)
  else if 65 ≤ n && n ≤ 70 then some (n - 65 + 10)
  else none

def hexRun : Nat → Bs → Nat → Option (Nat × Bs)
  | 0, s, v => some (v, s)
  | _ + 1, [], _ => none
  | n + 1, c :: cs, v =>
    match unhex c with
    | none => none
    | some x => hexRun n cs (v * 16 + x)

def octRun : Nat → Bs → Nat → Option (Nat × Bs)
  | 0, s, v => some (v, s)
  | _ + 1, [], _ => none
  | n + 1, c :: cs, v =>
    if 48 ≤ c.toNat && c.toNat ≤ 55 then octRun n cs (v * 8 + (c.toNat - 48)) else none

def validRune (v : Nat) : Bool := v < 0xD800 || (0xE000 ≤ v && v ≤ 0x10FFFF)

/-- `strconv.UnquoteChar(s, quote)`: value, multibyte, tail. -/
def unquoteChar (s : Bs) (quote : UInt8) : Option (Nat × Bool × Bs) :=
  match s with
  | [] => none
  | c :: rest =>
    if c == quote && (quote == 39 || quote == 34) then none
    else if c.toNat ≥ 0x80 then
      let rw := decodeRune c rest
      some (rw.1, true, rest.drop (rw.2 - 1))
    else if c != 92 then some (c.toNat, false, rest)
    else match rest with
      | [] => none
      | e :: s2 =>
        let simple (v : Nat) : Option (Nat × Bool × Bs) := some (v, false, s2)
        if e == 97 then simple 7
        else if e == 98 then simple 8
        else if e == 102 then simple 12
        else if e == 110 then simple 10
        else if e == 114 then simple 13
        else if e == 116 then simple 9
        else if e == 118 then simple 11
        else if e == 120 then (hexRun 2 s2 0).map (fun vr => (vr.1, false, vr.2))
        else if e == 117 || e == 85 then
          match hexRun (if e == 117 then 4 else 8) s2 0 with
          | none => none
          | some (v, r) => if validRune v then some (v, true, r) else none
        else if 48 ≤ e.toNat && e.toNat ≤ 55 then
          match octRun 2 s2 (e.toNat - 48) with
          | none => none
          | some (v, r) => if v > 255 then none else some (v, false, r)
        else if e == 92 then simple 92
        else if e == 39 || e == 34 then (if e != quote then none else simple e.toNat)
        else none

/-- Value of a char literal as `parseCharLit` computes it (`none`: "illegal char literal"). -/
def charValue (lit : Bs) : Option Nat :=
  if lit.length ≥ 3 then
    (unquoteChar ((lit.drop 1).take (lit.length - 2)) 39).map (·.1)
  else none

/-- Body of a double-quoted string: `fuel` bounds the number of characters (each step consumes one). -/
def unquoteBody : Nat → Bs → Option Bs
  | 0, _ => none
  | fuel + 1, s =>
    match s with
    | [] => none                                   -- no closing quote
    | c :: rest =>
      if c == 34 then (if rest.isEmpty then some [] else none)
      else if c == 10 then none
      else match unquoteChar s 34 with
        | none => none
        | some (r, multibyte, tl) =>
          match unquoteBody fuel tl with
          | none => none
          | some out => some ((if r < 0x80 || !multibyte then [UInt8.ofNat r] else encodeRune r) ++ out)

/-- `strconv.Unquote` on a String token literal (double-quoted or raw). -/
def unquote (lit : Bs) : Option Bs :=
  match lit with
  | 96 :: rest =>
    -- raw: must end at the first back quote
    match rest.reverse with
    | 96 :: body => if body.contains 96 then none else some (stripCRBytes body.reverse)
    | _ => none
  | 34 :: rest => unquoteBody (rest.length + 1) rest
  | _ => none

/-- `v, _ := strconv.Unquote(lit)`: the parser ignores the error. -/
def stringValue (lit : Bs) : Bs := (unquote lit).getD []

end Tengo.Model.Literal

import Tengo.Sexp
/-!
Abstract syntax of the reference semantics (property C01) and its reader from the S-expression the
harness dumps from the REAL parser's AST (`lib.ASTDumper{Pos:false}`, DESIGN.md Appendix A).
Core Lean only.
-/
namespace Tengo.Model.Spec
open Tengo

abbrev Bytes := List UInt8

mutual
  inductive Expr where
    | ident (n : String)
    | int (v : Int)
    | float (bits : UInt64)
    | char (v : Int)
    | str (b : Bytes)
    | bool (b : Bool)
    | undef
    | bin (tok : String) (l r : Expr)
    | un (tok : String) (e : Expr)
    | cond (c t f : Expr)
    | paren (e : Expr)
    | arr (es : List Expr)
    | map (kvs : List (Bytes × Expr))
    | sel (e s : Expr)
    | idx (e i : Expr)
    | slice (e : Expr) (lo hi : Option Expr)
    | call (ell : Bool) (f : Expr) (args : List Expr)
    | func (varargs : Bool) (params : List String) (body : List Stmt)
    | imp (name : Bytes)
    | error (e : Expr)
    | immutable (e : Expr)
    | bad
  inductive Stmt where
    | expr (e : Expr)
    | assign (tok : String) (lhs rhs : List Expr)
    | incdec (tok : String) (e : Expr)
    | ifs (init : Option Stmt) (c : Expr) (body : List Stmt) (els : Option Stmt)
    | fors (init : Option Stmt) (c : Option Expr) (post : Option Stmt) (body : List Stmt)
    | forin (k v : String) (it : Expr) (body : List Stmt)
    | block (ss : List Stmt)
    | branch (tok : String)
    | ret (e : Option Expr)
    | export (e : Expr)
    | empty
    | bad
end

instance : Inhabited Expr := ⟨.undef⟩
instance : Inhabited Stmt := ⟨.empty⟩

/-- Identifier bytes as a String (one Char per byte; identifiers of generated programs are ASCII). -/
def nameOfBytes (b : Bytes) : String := String.ofList (b.map (fun x => Char.ofNat x.toNat))

def identName? : Sexp → Option String
  | .list [.atom "ident", n] => n.asBytes?.map nameOfBytes
  | _ => none

mutual
  /-- Reader with a depth budget (the S-expression is a nested inductive; the budget keeps the
  definition structural). `none` = malformed or deeper than the budget. -/
  def readExpr : Nat → Sexp → Option Expr
    | 0, _ => none
    | d + 1, s =>
      match s with
      | .list [.atom "ident", n] => n.asBytes?.map (fun b => .ident (nameOfBytes b))
      | .list [.atom "int", v, _] => v.asInt?.map .int
      | .list [.atom "float", v, _] => v.asNat?.map (fun n => .float (UInt64.ofNat n))
      | .list [.atom "char", v, _] => v.asInt?.map .char
      | .list [.atom "str", v, _] => v.asBytes?.map .str
      | .list [.atom "bool", b] => b.asBool?.map .bool
      | .list [.atom "undef"] => some .undef
      | .list [.atom "bin", .atom t, l, r] => do
          let l ← readExpr d l; let r ← readExpr d r; pure (.bin t l r)
      | .list [.atom "un", .atom t, e] => do let e ← readExpr d e; pure (.un t e)
      | .list [.atom "cond", c, t, f] => do
          let c ← readExpr d c; let t ← readExpr d t; let f ← readExpr d f; pure (.cond c t f)
      | .list [.atom "paren", e] => do let e ← readExpr d e; pure (.paren e)
      | .list [.atom "arr", .list es] => do let es ← readExprs d es; pure (.arr es)
      | .list [.atom "map", .list kvs] => do let kvs ← readKVs d kvs; pure (.map kvs)
      | .list [.atom "sel", e, s] => do let e ← readExpr d e; let s ← readExpr d s; pure (.sel e s)
      | .list [.atom "idx", e, i] => do let e ← readExpr d e; let i ← readExpr d i; pure (.idx e i)
      | .list [.atom "slice", e, lo, hi] => do
          let e ← readExpr d e; let lo ← readOptExpr d lo; let hi ← readOptExpr d hi; pure (.slice e lo hi)
      | .list [.atom "call", ell, f, .list args] => do
          let ell ← ell.asBool?; let f ← readExpr d f; let args ← readExprs d args; pure (.call ell f args)
      | .list [.atom "func", va, .list ps, body] => do
          let va ← va.asBool?; let ps ← ps.mapM identName?
          let b ← readBlock d body; pure (.func va ps b)
      | .list [.atom "import", n] => n.asBytes?.map .imp
      | .list [.atom "error", e] => do let e ← readExpr d e; pure (.error e)
      | .list [.atom "immutable", e] => do let e ← readExpr d e; pure (.immutable e)
      | .list [.atom "bad"] => some .bad
      | _ => none
  def readOptExpr : Nat → Sexp → Option (Option Expr)
    | 0, _ => none
    | d + 1, s => match s with
      | .atom "nil" => some none
      | s => (readExpr d s).map some
  def readExprs : Nat → List Sexp → Option (List Expr)
    | 0, _ => none
    | _ + 1, [] => some []
    | d + 1, s :: rest => do let e ← readExpr d s; let tl ← readExprs d rest; pure (e :: tl)
  def readKVs : Nat → List Sexp → Option (List (Bytes × Expr))
    | 0, _ => none
    | _ + 1, [] => some []
    | d + 1, .list [k, v] :: rest => do
        let k ← k.asBytes?; let v ← readExpr d v; let tl ← readKVs d rest; pure ((k, v) :: tl)
    | _ + 1, _ => none
  /-- `(block (stmts…))` or `nil` (an absent body reads as the empty block). -/
  def readBlock : Nat → Sexp → Option (List Stmt)
    | 0, _ => none
    | d + 1, s => match s with
      | .list [.atom "block", .list ss] => readStmts d ss
      | .atom "nil" => some []
      | _ => none
  def readStmts : Nat → List Sexp → Option (List Stmt)
    | 0, _ => none
    | _ + 1, [] => some []
    | d + 1, s :: rest => do let x ← readStmt d s; let tl ← readStmts d rest; pure (x :: tl)
  def readOptStmt : Nat → Sexp → Option (Option Stmt)
    | 0, _ => none
    | d + 1, s => match s with
      | .atom "nil" => some none
      | s => (readStmt d s).map some
  def readStmt : Nat → Sexp → Option Stmt
    | 0, _ => none
    | d + 1, s =>
      match s with
      | .list [.atom "expr", e] => do let e ← readExpr d e; pure (.expr e)
      | .list [.atom "assign", .atom t, .list l, .list r] => do
          let l ← readExprs d l; let r ← readExprs d r; pure (.assign t l r)
      | .list [.atom "incdec", .atom t, e] => do let e ← readExpr d e; pure (.incdec t e)
      | .list [.atom "if", ini, c, body, els] => do
          let ini ← readOptStmt d ini; let c ← readExpr d c; let b ← readBlock d body
          let els ← readOptStmt d els; pure (.ifs ini c b els)
      | .list [.atom "for", ini, c, post, body] => do
          let ini ← readOptStmt d ini; let c ← readOptExpr d c; let post ← readOptStmt d post
          let b ← readBlock d body; pure (.fors ini c post b)
      | .list [.atom "forin", k, v, it, body] => do
          let k ← identName? k; let v ← identName? v; let it ← readExpr d it
          let b ← readBlock d body; pure (.forin k v it b)
      | .list [.atom "block", .list ss] => do let ss ← readStmts d ss; pure (.block ss)
      | .list [.atom "branch", .atom t, _] => some (.branch t)
      | .list [.atom "return", e] => do let e ← readOptExpr d e; pure (.ret e)
      | .list [.atom "export", e] => do let e ← readExpr d e; pure (.export e)
      | .list [.atom "empty", _] => some .empty
      | .list [.atom "badstmt"] => some .bad
      | _ => none
end

/-- `(file (stmts…))` -/
def readFile (s : Sexp) : Option (List Stmt) :=
  match s with
  | .list [.atom "file", .list ss] => readStmts 4000 ss
  | _ => none

end Tengo.Model.Spec

import Tengo.Proofs.C16CompileOpt
/-!
C16 / `tail_pattern_sound`, layer 3a: liveness in `optimizeFunc`'s dead-code pass (`marks`), on instruction
lists.

`deadAfter ds d B` is the Go variable `deadCode` after the pass has walked over `B` (started with `d`).
`Thru lo hi B`: the block `B` on `[lo, hi)` lets the pass through — if an instruction at `lo` would be kept
(`deadCode = false`, or `lo` is a jump destination), an instruction at `hi` is kept as well. Blocks without
RETURN and blocks containing a jump to their own end are of that kind; `Thru` composes over `++`.
`live_newPos`: behind such a prefix every instruction of a RETURN-free run is kept (`newPos … = some n`).
-/
set_option linter.unusedVariables false
namespace Tengo.Proofs.C16Fn
open Tengo.Model Tengo.Model.Opcodes Tengo.Model.Optimizer Tengo.Model.Verifier
     Tengo.Proofs.C03 Tengo.Props.C03Sim Tengo.Proofs.C03Reloc Tengo.Proofs.C02Compile

/-- `deadCode` after walking over a list -/
def deadAfter (ds : List Nat) : Bool → List Instr → Bool
  | d, [] => d
  | d, a :: is => deadAfter ds (nextDead ds d a) is

theorem deadAfter_append (ds : List Nat) (d : Bool) (A B : List Instr) :
    deadAfter ds d (A ++ B) = deadAfter ds (deadAfter ds d A) B := by
  induction A generalizing d with
  | nil => rfl
  | cons a A ih => simp only [List.cons_append, deadAfter]; exact ih _

theorem K_append (ds : List Nat) (d : Bool) (A B : List Instr) :
    K ds d (A ++ B) = K ds d A ++ K ds (deadAfter ds d A) B := by
  induction A generalizing d with
  | nil => simp [deadAfter]
  | cons a A ih =>
    rw [List.cons_append, K_cons, K_cons]
    split
    · simp only [List.cons_append, deadAfter]; rw [ih]
    · simp only [deadAfter]; rw [ih]

def NoRet (B : List Instr) : Prop := ∀ i ∈ B, i.op ≠ opReturn

theorem NoRet.append {A B : List Instr} (h1 : NoRet A) (h2 : NoRet B) : NoRet (A ++ B) := by
  intro i hi
  rcases List.mem_append.mp hi with h | h
  · exact h1 i h
  · exact h2 i h

theorem NoPR.noRet {B : List Instr} (h : NoPR B) : NoRet B := fun i hi => (h i hi).2

theorem nextDead_false {ds : List Nat} {a : Instr} (h : a.op ≠ opReturn) : nextDead ds false a = false :=
  nextDead_of_kept (keepHead_live ds a) h

theorem deadAfter_noret {ds : List Nat} {B : List Instr} (h : NoRet B) : deadAfter ds false B = false := by
  induction B with
  | nil => rfl
  | cons a B ih =>
    simp only [deadAfter]
    rw [nextDead_false (h a List.mem_cons_self)]
    exact ih (fun i hi => h i (List.mem_cons_of_mem _ hi))

/-- with `deadCode = false` a RETURN-free run is kept entirely -/
theorem K_noret {ds : List Nat} {N : List Instr} (R : List Instr) (h : NoRet N) :
    K ds false (N ++ R) = N ++ K ds false R := by
  induction N with
  | nil => rfl
  | cons a N ih =>
    rw [List.cons_append, K_cons, keepHead_live, if_pos rfl, nextDead_false (h a List.mem_cons_self),
      ih (fun i hi => h i (List.mem_cons_of_mem _ hi))]
    rfl

/-- an instruction at `p` would be kept -/
def LiveIn (ds : List Nat) (d : Bool) (p : Nat) : Prop := d = false ∨ p ∈ ds

theorem LiveIn.keep {ds : List Nat} {d : Bool} {a : Instr} (h : LiveIn ds d a.pos) : keepHead ds d a = true := by
  rcases h with h | h
  · subst h; exact keepHead_live ds a
  · exact keepHead_dst d h

/-- a RETURN-free run whose first instruction is kept is kept entirely -/
theorem K_noret_live {ds : List Nat} {d : Bool} {a : Instr} {N : List Instr} (R : List Instr)
    (h : NoRet (a :: N)) (hl : LiveIn ds d a.pos) : K ds d ((a :: N) ++ R) = (a :: N) ++ K ds false R := by
  rw [List.cons_append, K_cons, hl.keep, if_pos rfl, nextDead_of_kept hl.keep (h a List.mem_cons_self),
    K_noret R (fun i hi => h i (List.mem_cons_of_mem _ hi))]
  rfl

/-- the block lets the dead-code pass through -/
def Thru (lo hi : Nat) (B : List Instr) : Prop :=
  ∀ ds : List Nat, (∀ t ∈ dsts B, t ∈ ds) → ∀ d, LiveIn ds d lo → LiveIn ds (deadAfter ds d B) hi

theorem Thru.nil (lo : Nat) : Thru lo lo [] := fun ds _ d h => h

theorem dsts_append (A B : List Instr) : dsts (A ++ B) = dsts A ++ dsts B := by
  unfold dsts; exact List.filterMap_append

theorem Thru.append {lo m hi : Nat} {A B : List Instr} (h1 : Thru lo m A) (h2 : Thru m hi B) :
    Thru lo hi (A ++ B) := by
  intro ds hds d hl
  rw [deadAfter_append]
  have hA : ∀ t ∈ dsts A, t ∈ ds := fun t ht => hds t (by rw [dsts_append]; exact List.mem_append_left _ ht)
  have hB : ∀ t ∈ dsts B, t ∈ ds := fun t ht => hds t (by rw [dsts_append]; exact List.mem_append_right _ ht)
  exact h2 ds hB _ (h1 ds hA d hl)

theorem Thru.cast {lo hi lo' hi' : Nat} {B : List Instr} (h : Thru lo hi B) (h1 : lo = lo') (h2 : hi = hi') :
    Thru lo' hi' B := by subst h1; subst h2; exact h

/-- a block without RETURN -/
theorem Thru.ofNoRet {lo : Nat} {B : List Instr} (hl : Layout lo B) (h : NoRet B) :
    Thru lo (lo + totalSize B) B := by
  intro ds _ d hlive
  cases B with
  | nil => simpa [deadAfter] using hlive
  | cons a B =>
    left
    have hp : a.pos = lo := hl.1
    simp only [deadAfter]
    rw [nextDead_of_kept (a := a) (by rw [← hp] at hlive; exact hlive.keep) (h a List.mem_cons_self)]
    exact deadAfter_noret (fun i hi => h i (List.mem_cons_of_mem _ hi))

/-- a block containing a jump to its own end -/
theorem Thru.ofJump {lo hi : Nat} {B : List Instr} {j : Instr} (hj : j ∈ B) (hjj : isJump j.op = true)
    (ht : j.args.head? = some hi) : Thru lo hi B := by
  intro ds hds d _
  right
  apply hds
  simp only [dsts, List.mem_filterMap]
  exact ⟨j, hj, by simp [hjj, ht]⟩

/-- **Liveness.** In a raw body `P ++ N ++ R` whose prefix `P` lets the pass through and whose part `N` is
free of RETURN, every instruction of `N` survives `optimizeFunc`'s dead-code removal. -/
theorem live_newPos {P N R : List Instr} {m : Nat} (hP : Thru 0 m P) (hN : NoRet N) (hlN : Layout m N)
    {x : Instr} (hx : x ∈ N) : ∃ n, newPos (P ++ N ++ R) x.pos = some n := by
  have hk : x ∈ kept (P ++ N ++ R) := by
    rw [kept_eq, List.append_assoc, K_append]
    apply List.mem_append_right
    have hlive := hP (dsts (P ++ (N ++ R))) (fun t ht => by
      rw [dsts_append]; exact List.mem_append_left _ ht) false (Or.inl rfl)
    cases N with
    | nil => cases hx
    | cons a N =>
      have hp : a.pos = m := hlN.1
      rw [K_noret_live R hN (by rw [hp]; exact hlive)]
      exact List.mem_append_left _ hx
  obtain ⟨n, hn⟩ := exists_layout 0 hk
  obtain ⟨b, hb⟩ := lookup_some_of_mem (mem_posMap.mpr ⟨x, hn, rfl⟩)
  exact ⟨b, hb⟩

end Tengo.Proofs.C16Fn

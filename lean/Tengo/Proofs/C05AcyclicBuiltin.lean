import Tengo.Proofs.C05AcyclicExec
/-!
C05 `no_fatal_acyclic`, layer 5: builtin calls (`copy` and `string` recurse natively).
-/
set_option linter.unusedVariables false
namespace Tengo.Proofs.C05Acyclic
open Tengo.Model.Spec Tengo.Model.VM

theorem nfe_wrongArgs {α} (n : String) : NFE (wrongArgs n : EM α) := nfe_eRt _
theorem nfe_invalidArg {α} (a b c : String) (v : Value) : NFE (invalidArg a b c v : EM α) := nfe_eRt _
macro_rules | `(tactic| nf_prim) => `(tactic| first
  | with_reducible exact nfe_wrongArgs _ | with_reducible exact nfe_invalidArg _ _ _ _)

set_option maxHeartbeats 400000 in
theorem callBuiltin_EG (g : GSt) (s : St) (name : String) (args : List Value) (h : ∀ a ∈ args, fits s 64 a = true) :
    EG (callBuiltin name args) g s := by
  unfold callBuiltin
  split
  · exact eg_of_nf (by nf)
  · split
    all_goals try (refine eg_of_nf ?_; nf; done)
    · exact eg_of_gr (copyV_GR 64 64 _ g s (h _ (by simp)) (Nat.le_refl _))
    · split
      · exact eg_of_nf (nfe_wrongArgs _)
      · split
        · exact eg_of_nf (nfe_pure _)
        · exact eg_bind (ero_toStringConv _ g s (h _ (by simp))) (fun _ _ => eg_of_nf (by nf))


end Tengo.Proofs.C05Acyclic

import Tengo.Proofs.C02CompileFit
import Tengo.Proofs.C02CompileOpt
import Tengo.Model.VerifyProg
import Tengo.Proofs.C02CompileCheck
/-!
C02 / `compile_verifies`, final layer part 2: the initial compiler state satisfies the invariant; the
result of `compileFile` as a `VM.Code`; every function of it passes `checkFn`; `checkProgram`.
-/
set_option linter.unusedVariables false
set_option linter.unusedSimpArgs false
namespace Tengo.Proofs.C02Compile
open Tengo.Model Tengo.Model.Opcodes Tengo.Model.Compiler Tengo.Model.Optimizer Tengo.Model.Verifier
open Tengo.Model.Spec (Expr Stmt)
open Tengo.Proofs.C03 Tengo.Proofs.C03Reloc

/-! ### the initial state -/

theorem builtins_mem : ∀ (names : List String) (i : Nat) (acc : List (String × Sym)),
    (∀ p ∈ acc, p.2.scope = .builtin ∧ p.2.index < i) →
    ∀ p ∈ initState.builtins i names acc, p.2.scope = .builtin ∧ p.2.index < i + names.length
  | [], i, acc, h, p, hp => by
    rw [initState.builtins] at hp
    have := h p hp
    exact ⟨this.1, by simp; exact this.2⟩
  | n :: ns, i, acc, h, p, hp => by
    rw [initState.builtins] at hp
    have := builtins_mem ns (i + 1) ((n, ⟨n, .builtin, i, i⟩) :: acc) (by
      intro q hq
      rcases List.mem_cons.mp hq with rfl | hq
      · exact ⟨rfl, by simp⟩
      · have := h q hq; exact ⟨this.1, by omega⟩) p hp
    exact ⟨this.1, by simp only [List.length_cons]; omega⟩

/-- what the construction of the root table keeps -/
structure InitP (s : CState) : Prop where
  insts : s.insts = #[]
  consts : s.consts = #[]
  saved : s.saved = []
  loops : s.loops = []
  tinv : TInv s.tables
  wfc : WFC s.tables
  one : ∃ t, s.tables = [t]

theorem initP_step {acc : CState} (h : InitP acc) (n : String) :
    InitP { acc with tables := (defineIn n acc.nextId acc.tables).2, nextId := acc.nextId + 1,
                     assigned := acc.assigned.push false } := by
  obtain ⟨h1, h2, _, _⟩ := defineIn_spec n acc.nextId acc.tables h.wfc h.tinv
  obtain ⟨t, ht⟩ := h.one
  refine ⟨h.insts, h.consts, h.saved, h.loops, h1, h2.wfc h.wfc, ?_⟩
  show ∃ t', (defineIn n acc.nextId acc.tables).2 = [t']
  generalize (defineIn n acc.nextId acc.tables).2 = c at h2
  rw [ht] at h2
  match c, h2 with
  | [t'], _ => exact ⟨t', rfl⟩
  | [], h2 => exact h2.elim
  | _ :: _ :: _, h2 => exact h2.2.elim

theorem initP_fold (step : CState → String → CState)
    (hstep : ∀ acc n, InitP acc → InitP (step acc n)) : ∀ (inputs : List String) (s : CState), InitP s →
    InitP (inputs.foldl step s)
  | [], s, h => h
  | n :: ns, s, h => initP_fold step hstep ns (step s n) (hstep s n h)

theorem initState_P (inputs : List String) : InitP (initState inputs) := by
  unfold initState
  refine initP_fold _ (fun acc n h => initP_step h n) inputs _ ?_
  refine ⟨rfl, rfl, rfl, rfl, ⟨?_, fun _ o ho => (by cases ho), trivial⟩, rfl, ⟨_, rfl⟩⟩
  intro p hp
  have := builtins_mem Spec.builtinNames 0 [] (fun q hq => by cases hq) p hp
  simp only [SymOK, this.1]
  simpa using this.2

theorem init_inv (inputs : List String) : Inv (initState inputs) [] [] := by
  have h := initState_P inputs
  refine ⟨⟨by rw [h.insts]; rfl, trivial, fun _ hi => (by cases hi)⟩, by rw [h.consts]; rfl, h.tinv, h.wfc,
    fun _ hi => (by cases hi), ?_⟩
  intro k code nl np va hk
  rw [h.consts] at hk
  simp at hk

/-! ### the compiled program as a `VM.Code` -/

/-- a compiler constant as a VM constant; `ref` is the heap identity the VM model gives a function
constant (irrelevant for the verifier) -/
def toVMConst (ref : Nat) : Compiler.Const → VM.Const
  | .int v => .val (.int v)
  | .float b => .val (.float (Float.ofBits b))
  | .char v => .val (.char v)
  | .str b => .val (.str b)
  | .fn code nl np va => .fn { insts := code.toArray, numLocals := nl, numParams := np, varargs := va } ref

/-- `Bytecode'` (what `compileFile` answers) as the code object of the whole-VM model, with the heap
identities `refs k` of the function constants. -/
def toCodeR (refs : Nat → Nat) (bc : Bytecode') : VM.Code :=
  { main := { insts := bc.main.toArray, numLocals := 0, numParams := 0, varargs := false },
    consts := (bc.consts.mapIdx (fun k c => toVMConst (refs k) c)).toArray }

/-- … with all identities 0 (they are assigned by `VM.initFobjs` before a run). -/
def toCode (bc : Bytecode') : VM.Code := toCodeR (fun _ => 0) bc

theorem toCode_const (refs : Nat → Nat) (bc : Bytecode') (k : Nat) :
    (toCodeR refs bc).consts[k]? = (bc.consts[k]?).map (toVMConst (refs k)) := by
  simp [toCodeR]

theorem toVMConst_fn {ref : Nat} {c : Compiler.Const} {f : VM.Fn} {r : Nat} (h : toVMConst ref c = VM.Const.fn f r) :
    isFnC c = true := by
  cases c <;> simp [toVMConst] at h ⊢ <;> rfl

/-- number of captured variables declared for every function constant -/
def numFreeOf (cs : List Compiler.Const) (F : List Nat) : List (Nat × Nat) :=
  (List.range cs.length).filterMap (fun k =>
    match cs[k]? with
    | some c => if isFnC c then some (k, F.getD k 0) else none
    | none => none)

theorem mem_numFreeOf {cs : List Compiler.Const} {F : List Nat} {k n : Nat} :
    (k, n) ∈ numFreeOf cs F ↔ ∃ c, cs[k]? = some c ∧ isFnC c = true ∧ n = F.getD k 0 := by
  unfold numFreeOf
  simp only [List.mem_filterMap, List.mem_range]
  constructor
  · rintro ⟨j, hj, h⟩
    cases hc : cs[j]? with
    | none => simp [hc] at h
    | some c =>
      simp only [hc] at h
      split at h
      · rename_i hf
        injection h with h; injection h with h1 h2
        subst h1
        exact ⟨c, hc, hf, h2.symm⟩
      · cases h
  · rintro ⟨c, hc, hf, rfl⟩
    exact ⟨k, get?_lt hc, by simp [hc, hf]⟩

theorem lookup_of_functional {l : List (Nat × Nat)} {a b : Nat} (hm : (a, b) ∈ l)
    (hf : ∀ b', (a, b') ∈ l → b' = b) : l.lookup a = some b := by
  induction l with
  | nil => cases hm
  | cons p l ih =>
    obtain ⟨a', b'⟩ := p
    simp only [List.lookup]
    by_cases e : a = a'
    · subst e
      have := hf b' List.mem_cons_self
      subst this
      simp
    · have hne : (a == a') = false := by simpa using e
      rw [hne]
      rcases List.mem_cons.mp hm with h | h
      · injection h with h1 h2; exact absurd h1 e
      · exact ih h (fun b'' hb'' => hf b'' (List.mem_cons_of_mem _ hb''))

theorem numFreeOf_lookup {cs : List Compiler.Const} {F : List Nat} {k : Nat} {c : Compiler.Const}
    (hc : cs[k]? = some c) (hf : isFnC c = true) : (numFreeOf cs F).lookup k = some (F.getD k 0) :=
  lookup_of_functional (mem_numFreeOf.mpr ⟨c, hc, hf, rfl⟩) (fun b' hb' => by
    obtain ⟨_, _, _, e⟩ := mem_numFreeOf.mp hb'
    exact e)

/-! ### the main function -/

def suspI (p : Nat) : Instr := ⟨p, opSuspend, []⟩

theorem succs_suspend (p h : Nat) : succs (suspI p) h = some [] := rfl

theorem main_closed {hi : Nat} {H : Nat → Nat} {B : List Instr} (hc : Core 0 hi 0 0 H B NoT) :
    Closed H (B ++ [suspI hi]) := by
  intro i hi'
  rcases List.mem_append.mp hi' with hm | hm
  · obtain ⟨l, hl, hq⟩ := hc.ok i hm
    refine ⟨l, hl, ?_⟩
    intro q hqm
    rcases hq q hqm with ⟨ht, hh⟩ | hf
    · refine ⟨?_, hh⟩
      rcases ht with e | ⟨j, hj, hjp⟩
      · exact ⟨suspI hi, by simp, by rw [e]; rfl⟩
      · exact ⟨j, List.mem_append_left _ hj, hjp⟩
    · exact hf.elim
  · simp only [List.mem_singleton] at hm; subst hm
    exact ⟨[], succs_suspend _ _, fun q hq => by cases hq⟩

theorem main_decode {B : List Instr} (hl : Layout 0 B) (hw : WFCode B) :
    decode (encode B ++ [UInt8.ofNat opSuspend]) = some (B ++ [suspI (totalSize B)]) := by
  have he : encode (B ++ [suspI (totalSize B)]) = encode B ++ [UInt8.ofNat opSuspend] := by
    rw [encode_append]; rfl
  rw [← he]
  refine decode_encode _ (layout_append_single hl (by simp [suspI])) ?_
  intro i hi
  rcases List.mem_append.mp hi with hm | hm
  · exact hw i hm
  · simp only [List.mem_singleton] at hm; subst hm
    exact ⟨[], rfl, trivial⟩

theorem succs_pops {i : Instr} {pops pushes h : Nat} {l : List (Nat × Nat)}
    (he : stackEffect i = some (pops, pushes)) (hs : succs i h = some l) : pops ≤ h := by
  rcases Nat.lt_or_ge h pops with hlt | hge
  · exfalso
    have hn : ∀ op, (op = opReturn ∨ op = opSuspend ∨ op = opJump ∨ op = opJumpFalsy ∨
      op = opAndJump ∨ op = opOrJump) → (i.op == op) = false := by
      intro op hop
      cases hb : i.op == op with
      | false => rfl
      | true =>
        have : i.op = op := by simpa using hb
        rw [stackEffect_control (by rw [this]; exact hop)] at he
        cases he
    unfold succs at hs
    simp only [hn opReturn (by simp), hn opSuspend (by simp), hn opJump (by simp), hn opJumpFalsy (by simp),
      hn opAndJump (by simp), hn opOrJump (by simp), he, Bool.false_eq_true, if_false, Bool.or_self] at hs
    rw [if_pos hlt] at hs
    cases hs
  · exact hge

/-- a CALL of a closed block is followed by an instruction of the block, or ends it -/
theorem call_next {hi a b : Nat} {H : Nat → Nat} {B : List Instr} (hc : Core 0 hi a b H B NoT)
    {x : Instr} (hx : x ∈ B) (hop : x.op = opCall) : (∃ y ∈ B, y.pos = x.pos + x.size) ∨ x.pos + x.size = hi := by
  obtain ⟨l, hl, hq⟩ := hc.ok x hx
  have hs := stackEffect_call hop
  have hpop : callArity x ≤ H x.pos := succs_pops hs hl
  rw [succs_straight hs hpop] at hl
  injection hl with hl; subst hl
  rcases hq _ List.mem_cons_self with ⟨ht, _⟩ | hf
  · rcases ht with e | ⟨j, hj, hjp⟩
    · exact Or.inr e
    · exact Or.inl ⟨j, hj, hjp⟩
  · exact hf.elim

/-! ### what a successful `compileFile` gives -/

theorem compile_run {ss : List Stmt} {inputs : List String} {bc : Bytecode'}
    (h : compileFile ss inputs = .ok bc) (hsz : szSs fuel ss < 2 ^ 30) :
    ∃ (s : CState) (B : List Instr) (F : List Nat) (H : Nat → Nat) (t' : Table),
      bc.main = encode B ++ [UInt8.ofNat opSuspend] ∧ bc.consts = s.consts.toList ∧ s.tables = [t'] ∧
      bc.maxGlobals = t'.maxDefinition ∧ Inv s B F ∧ Core 0 (totalSize B) 0 0 H B NoT ∧
      totalSize B < 2 ^ 30 := by
  unfold compileFile at h
  split at h
  · cases h
  · rename_i u s hrun
    injection h with h
    have hrun' : compileStmts fuel ss (initState inputs) = .ok ((), s) := hrun
    obtain ⟨B, F, bs, cs, o⟩ := (all_spec fuel).ss ss _ s [] [] hrun' (init_inv inputs) hsz
    have hP := initState_P inputs
    obtain ⟨e1, e2⟩ := o.nopend hP.loops
    subst e1; subst e2
    have hblk : SBlk 0 (totalSize B) B [] [] := by simpa using o.blk
    obtain ⟨H, hcore⟩ := hblk.closed
    obtain ⟨t0, ht0⟩ := hP.one
    have htab := o.step.tabs
    rw [ht0] at htab
    generalize hc : s.tables = c at htab
    match c, htab with
    | [t'], _ =>
      refine ⟨s, B, F, H, t', ?_, ?_, hc, ?_, by simpa using o.inv, hcore, by have := o.size; omega⟩
      · rw [← h]; show s.insts.toList ++ _ = _
        have := o.inv.em.bytes
        simp only [List.nil_append] at this
        rw [this]
      · rw [← h]
      · rw [← h]; simp [hc]
    | [], h2 => exact h2.elim
    | _ :: _ :: _, h2 => exact h2.2.elim

/-! ### from the compiler's operand requirement to the verifier's -/

theorem ite_ne {c : Prop} [Decidable c] {a b x : OpClass} (ha : a ≠ x) (hb : b ≠ x) :
    (if c then a else b) ≠ x := by split <;> assumption

theorem class_const {op : Nat} (h : opClass op = .const) : op = opConstant := by
  by_cases h0 : op = opConstant
  · exact h0
  · exfalso
    revert h
    unfold opClass
    refine ite_ne (by decide) (ite_ne (by decide) ?_)
    rw [if_neg h0]
    exact ite_ne (by decide) (ite_ne (by decide) (ite_ne (by decide) (ite_ne (by decide) (ite_ne (by decide)
      (ite_ne (by decide) (ite_ne (by decide) (ite_ne (by decide) (ite_ne (by decide) (ite_ne (by decide)
      (ite_ne (by decide) (ite_ne (by decide) (by decide))))))))))))

theorem class_closure {op : Nat} (h : opClass op = .closure) : op = opClosure := by
  by_cases h0 : op = opClosure
  · exact h0
  · exfalso
    revert h
    unfold opClass
    refine ite_ne (by decide) (ite_ne (by decide) (ite_ne (by decide) ?_))
    rw [if_neg h0]
    exact ite_ne (by decide) (ite_ne (by decide) (ite_ne (by decide) (ite_ne (by decide) (ite_ne (by decide)
      (ite_ne (by decide) (ite_ne (by decide) (ite_ne (by decide) (ite_ne (by decide) (ite_ne (by decide)
      (ite_ne (by decide) (by decide)))))))))))

/-- The capture table `NF` knows every function constant that the instructions of `bytes` refer to. -/
def RefOK (NF : List (Nat × Nat)) (cs : List Compiler.Const) (F : List Nat) (bytes : Tengo.Model.Bytes) : Prop :=
  ∀ is, decode bytes = some is → ∀ y ∈ is, (y.op = opConstant ∨ y.op = opClosure) →
    ∀ c, cs[arg0 y]? = some c → isFnC c = true → NF.lookup (arg0 y) = some (F.getD (arg0 y) 0)

theorem refOK_all (cs : List Compiler.Const) (F : List Nat) (bytes : Tengo.Model.Bytes) :
    RefOK (numFreeOf cs F) cs F bytes :=
  fun _ _ _ _ _ c hc hf => numFreeOf_lookup hc hf

open Tengo.Model.VM in
theorem vm_reqs {cs : List Compiler.Const} {F : List Nat} {env : Env} {vmenv : Verifier.Env} {code : VM.Code}
    {t : ProgTabs} {idx : Nat} {Hh : Nat → Nat} {x : Instr}
    (hr : opReq cs F env x)
    (hcs : vmenv.constIsFn = cs.map isFnC)
    (hl : vmenv.numLocals = env.numLocals) (hf : vmenv.numFree = env.numFree)
    (hb : vmenv.numBuiltins = Spec.builtinNames.length) (hg : vmenv.globalsSize = env.nGlobals)
    (hlk : ∀ c, cs[arg0 x]? = some c → isFnC c = true → (x.op = opConstant ∨ x.op = opClosure) →
      t.numFree.lookup (arg0 x) = some (F.getD (arg0 x) 0))
    {refs : Nat → Nat} (hconsts : ∀ k : Nat, code.consts[k]? = (cs[k]?).map (toVMConst (refs k)))
    (hidx : env.inFn = true → idx ≠ 0) :
    classReq vmenv (opClass x.op) (arg0 x) ∧ extraReq code t idx Hh (opClass x.op) x := by
  unfold opReq at hr
  cases hc : opClass x.op <;> simp only [hc] at hr <;> simp only [classReq, extraReq]
  · -- ret
    exact ⟨trivial, hidx hr.1⟩
  · -- const
    obtain ⟨c, hc1, hc2⟩ := hr
    refine ⟨by rw [hcs, List.length_map]; exact get?_lt hc1, ?_⟩
    intro f r hfr
    rw [hconsts, hc1] at hfr
    simp only [Option.map_some, Option.some.injEq] at hfr
    have hfn := toVMConst_fn hfr
    rw [hlk c hc1 hfn (Or.inl (class_const hc))]
    have := hc2 hfn
    rw [List.getD_eq_getElem?_getD, this]; rfl
  · -- closure
    obtain ⟨c, hc1, hc2, hc3, _⟩ := hr
    refine ⟨?_, ?_⟩
    · rw [hcs, List.getD_eq_getElem?_getD, List.getElem?_map, hc1]; simpa using hc2
    · rw [hlk c hc1 hc2 (Or.inr (class_closure hc)), List.getD_eq_getElem?_getD, hc3]; rfl
  · exact ⟨by rw [hl]; exact hr, trivial⟩
  · exact ⟨by rw [hl]; exact hr.1, trivial⟩
  · exact ⟨by rw [hf]; exact hr, trivial⟩
  · exact ⟨by rw [hf]; exact hr.1, trivial⟩
  · exact ⟨by rw [hb]; exact hr, trivial⟩
  · exact ⟨by rw [hg]; exact hr, trivial⟩
  · exact ⟨by rw [hg]; exact hr.1, trivial⟩
  · exact ⟨hr.1, trivial⟩
  · exact ⟨trivial, trivial⟩
  · exact ⟨trivial, hr.2.2⟩
  · exact ⟨trivial, trivial⟩
  · exact ⟨trivial, trivial⟩

/-! ### the tables -/

open Tengo.Model.VM

theorem constIsFn_toCode (refs : Nat → Nat) (bc : Bytecode') :
    constIsFn (toCodeR refs bc) = bc.consts.map isFnC := by
  unfold constIsFn toCodeR
  apply List.ext_getElem?
  intro k
  simp only [List.getElem?_map, List.getElem?_mapIdx]
  cases bc.consts[k]? with
  | none => rfl
  | some c => cases c <;> rfl

theorem heightLimit_eq : heightLimit = 2 ^ 30 := by decide

/-- every function constant has a table that passes `checkFn`, whatever the other tables are -/
theorem fn_tab (refs : Nat → Nat) {bc : Bytecode'} {F : List Nat} (hcok : ConstsOK bc.consts F bc.maxGlobals)
    (hclen : bc.consts.length ≤ 65536) (hgle : bc.maxGlobals ≤ 65536)
    {k : Nat} {code : Bytes} {nl np : Nat} {va : Bool} (hk : bc.consts[k]? = some (Compiler.Const.fn code nl np va))
    (NF : List (Nat × Nat)) (hself : NF.lookup k = some (F.getD k 0)) (href : RefOK NF bc.consts F code) :
    ∃ ft : FnTab, ft.idx = k + 1 ∧
      ∀ fns, checkFn (toCodeR refs bc) ⟨fns, NF⟩ bc.maxGlobals ft = true := by
  obtain ⟨n, hFk, Lb, H, r, hlay, hshape, hopt, hcode, hcore, hops, hnl, hn, hsz⟩ := hcok k code nl np va hk
  have hbnd : Bnd bc.consts ⟨nl, n, bc.maxGlobals, true⟩ := ⟨hclen, hnl, by show n ≤ 256; omega, hgle⟩
  have hdec : decode (encode Lb) = some Lb := core_decode hcore hshape hops hbnd (by omega)
  have hlen : (encode Lb).length = totalSize Lb := encode_length hshape
  have hcore' : Core 0 (encode Lb).length 0 0 H Lb NoT := by rw [hlen]; exact hcore
  obtain ⟨H', hd', h0', hfirst, hclosed, hbound, horigin, htc, hnext⟩ :=
    opt_transfer hdec (by rw [hlen]; omega) hopt hcore'
  let f : Fn := { insts := code.toArray, numLocals := nl, numParams := np, varargs := va }
  have hconst : (toCodeR refs bc).consts[k]? = some (VM.Const.fn f (refs k)) := by
    rw [toCode_const, hk]; rfl
  have hfn : (toCodeR refs bc).fn (k + 1) = some f := by
    unfold Code.fn
    simp [hconst]
  have hFn : F.getD k 0 = n := by rw [List.getD_eq_getElem?_getD, hFk]; rfl
  refine ⟨{ idx := k + 1, is := r.insts, hm := r.insts.map (fun i => (i.pos, H' i.pos)) }, rfl, ?_⟩
  intro fns
  have hfree : (ProgTabs.mk fns NF).free (k + 1) = n := by
    unfold ProgTabs.free
    simp only [Nat.add_one_ne_zero, beq_iff_eq, if_false, Nat.add_sub_cancel]
    rw [hself, hFn]; rfl
  have hreqs : ∀ y ∈ r.insts,
      classReq (VM.envOf (toCodeR refs bc) ⟨fns, NF⟩ bc.maxGlobals (k + 1) f) (opClass y.op) (arg0 y) ∧
      extraReq (toCodeR refs bc) ⟨fns, NF⟩ (k + 1) H' (opClass y.op) y := by
    intro y hy
    rcases horigin y hy with ⟨x, hx, hop, hargs⟩ | ⟨hop, hargs⟩
    · have hrx := hops x hx
      by_cases hj : isJump x.op = true
      · rw [hop, jump_class hj]
        exact ⟨trivial, trivial⟩
      · have hargs' := hargs (by simpa using hj)
        have hry : opReq bc.consts F ⟨nl, n, bc.maxGlobals, true⟩ y := by
          unfold opReq at hrx ⊢
          simp only [arg0, arg1, hop, hargs'] at hrx ⊢
          exact hrx
        exact vm_reqs hry (constIsFn_toCode refs bc) rfl hfree rfl rfl
          (fun c hc hf ho => href r.insts (by rw [hcode]; exact hd') y hy ho c hc hf) (toCode_const refs bc)
          (fun _ => Nat.add_one_ne_zero k)
    · have hc : opClass y.op = .ret := by rw [hop]; rfl
      rw [hc]
      exact ⟨trivial, Nat.add_one_ne_zero k⟩
  exact checkFn_intro (toCodeR refs bc) _ bc.maxGlobals (k + 1) f r.insts H' hfn
    (by show decode code.toArray.toList = _; simp only [hcode]; exact hd') hclosed h0' hfirst
    (fun i hi => by rw [heightLimit_eq]; have := hbound i hi; omega)
    (fun i hi => (hreqs i hi).1) (fun i hi => (hreqs i hi).2) htc hnext

theorem susp_facts : opSuspend ≠ opCall ∧ opSuspend ≠ opPop ∧ opSuspend ≠ opReturn := by decide

/-- the main function has a table that passes `checkFn` -/
theorem main_tab (refs : Nat → Nat) {bc : Bytecode'} {F : List Nat} {B : List Instr} {H : Nat → Nat}
    (hmain : bc.main = encode B ++ [UInt8.ofNat opSuspend])
    (hshape : ∀ i ∈ B, Shape i)
    (hops : ∀ i ∈ B, opReq bc.consts F ⟨0, 0, bc.maxGlobals, false⟩ i)
    (hcore : Core 0 (totalSize B) 0 0 H B NoT) (hsz : totalSize B < 2 ^ 30)
    (hclen : bc.consts.length ≤ 65536) (hgle : bc.maxGlobals ≤ 65536)
    (NF : List (Nat × Nat)) (href : RefOK NF bc.consts F bc.main) :
    ∃ ft : FnTab, ft.idx = 0 ∧
      ∀ fns, checkFn (toCodeR refs bc) ⟨fns, NF⟩ bc.maxGlobals ft = true := by
  have hbnd : Bnd bc.consts ⟨0, 0, bc.maxGlobals, false⟩ := ⟨hclen, by simp, by simp, hgle⟩
  have hwf : WFCode B := core_wf hcore hshape hops hbnd (by omega)
  have hdec := main_decode hcore.lay hwf
  have hlay : Layout 0 (B ++ [suspI (totalSize B)]) := layout_append_single hcore.lay (by simp [suspI])
  refine ⟨{ idx := 0, is := B ++ [suspI (totalSize B)],
            hm := (B ++ [suspI (totalSize B)]).map (fun i => (i.pos, H i.pos)) }, rfl, ?_⟩
  intro fns
  have hreqs : ∀ y ∈ B ++ [suspI (totalSize B)],
      classReq (VM.envOf (toCodeR refs bc) ⟨fns, NF⟩ bc.maxGlobals 0 (toCodeR refs bc).main)
        (opClass y.op) (arg0 y) ∧
      extraReq (toCodeR refs bc) ⟨fns, NF⟩ 0 H (opClass y.op) y := by
    intro y hy
    rcases List.mem_append.mp hy with hm | hm
    · exact vm_reqs (hops y hm) (constIsFn_toCode refs bc) rfl rfl rfl rfl
        (fun c hc hf ho => href _ (by rw [hmain]; exact hdec) y hy ho c hc hf) (toCode_const refs bc)
        (fun h => by cases h)
    · simp only [List.mem_singleton] at hm; subst hm
      have hc : opClass (suspI (totalSize B)).op = .susp := rfl
      rw [hc]
      exact ⟨trivial, rfl, hcore.hhi⟩
  refine checkFn_intro (toCodeR refs bc) _ bc.maxGlobals 0 (toCodeR refs bc).main _ H rfl
    (by show decode bc.main.toArray.toList = _; simp only [hmain]; exact hdec) (main_closed hcore) hcore.hlo
    (layout_head_pos hlay (by simp)) ?_ (fun i hi => (hreqs i hi).1) (fun i hi => (hreqs i hi).2) ?_ ?_
  · intro i hi
    rw [heightLimit_eq]
    rcases List.mem_append.mp hi with hm | hm
    · have := hcore.bnd i hm
      have := mem_range hcore.lay hm
      omega
    · simp only [List.mem_singleton] at hm; subst hm
      have : H (suspI (totalSize B)).pos = 0 := hcore.hhi
      omega
  · intro x hx y hy hxy hop hpr
    rcases List.mem_append.mp hx with hxm | hxm
    · rcases List.mem_append.mp hy with hym | hym
      · exact hcore.tc x hxm y hym hxy hop hpr
      · simp only [List.mem_singleton] at hym; subst hym
        rcases hpr with e | e
        · exact absurd e susp_facts.2.1
        · exact absurd e susp_facts.2.2
    · simp only [List.mem_singleton] at hxm; subst hxm
      exact absurd hop susp_facts.1
  · intro x hx hop
    rcases List.mem_append.mp hx with hxm | hxm
    · rcases call_next hcore hxm hop with ⟨y, hy, hyp⟩ | he
      · exact ⟨y, List.mem_append_left _ hy, hyp⟩
      · exact ⟨suspI (totalSize B), by simp, he.symm⟩
    · simp only [List.mem_singleton] at hxm; subst hxm
      exact absurd hop susp_facts.1

theorem tabs_exist (refs : Nat → Nat) {bc : Bytecode'} {F : List Nat} (hcok : ConstsOK bc.consts F bc.maxGlobals)
    (hclen : bc.consts.length ≤ 65536) (hgle : bc.maxGlobals ≤ 65536) (NF : List (Nat × Nat)) (P : Nat → Prop)
    (hP : ∀ k code nl np va, bc.consts[k]? = some (Compiler.Const.fn code nl np va) → P k →
      NF.lookup k = some (F.getD k 0) ∧ RefOK NF bc.consts F code) :
    ∀ n, ∃ fns : List FnTab,
      (∀ ft ∈ fns, ∀ fns', checkFn (toCodeR refs bc) ⟨fns', NF⟩ bc.maxGlobals ft = true) ∧
      (∀ k, k < n → P k → ∀ c, bc.consts[k]? = some c → isFnC c = true → ∃ ft ∈ fns, ft.idx = k + 1) ∧
      (∀ ft ∈ fns, ∃ k, ft.idx = k + 1 ∧ P k)
  | 0 => ⟨[], ⟨fun _ h => (by cases h), fun k hk => (by omega), fun _ h => (by cases h)⟩⟩
  | n + 1 => by
    obtain ⟨fns, h1, h2, h3⟩ := tabs_exist refs hcok hclen hgle NF P hP n
    by_cases hPn : P n
    · cases hc : bc.consts[n]? with
      | none =>
        refine ⟨fns, h1, ?_, h3⟩
        intro k hk hpk c hkc hf
        by_cases e : k = n
        · subst e; rw [hc] at hkc; cases hkc
        · exact h2 k (by omega) hpk c hkc hf
      | some c =>
        cases c with
        | fn code nl np va =>
          obtain ⟨hs1, hs2⟩ := hP n code nl np va hc hPn
          obtain ⟨ft, hidx, hchk⟩ := fn_tab refs hcok hclen hgle hc NF hs1 hs2
          refine ⟨ft :: fns, ?_, ?_, ?_⟩
          · intro ft' hft'
            rcases List.mem_cons.mp hft' with rfl | hm
            · exact hchk
            · exact h1 ft' hm
          · intro k hk hpk c' hkc hf
            by_cases e : k = n
            · subst e; exact ⟨ft, List.mem_cons_self, hidx⟩
            · obtain ⟨ft', hm, hi⟩ := h2 k (by omega) hpk c' hkc hf
              exact ⟨ft', List.mem_cons_of_mem _ hm, hi⟩
          · intro ft' hft'
            rcases List.mem_cons.mp hft' with rfl | hm
            · exact ⟨n, hidx, hPn⟩
            · exact h3 ft' hm
        | _ =>
          refine ⟨fns, h1, ?_, h3⟩
          intro k hk hpk c' hkc hf
          by_cases e : k = n
          · subst e; rw [hc] at hkc; injection hkc with hkc; subst hkc; cases hf
          · exact h2 k (by omega) hpk c' hkc hf
    · refine ⟨fns, h1, ?_, h3⟩
      intro k hk hpk c hkc hf
      by_cases e : k = n
      · subst e; exact absurd hpk hPn
      · exact h2 k (by omega) hpk c hkc hf

theorem tab_isSome {t : ProgTabs} {idx : Nat} (h : ∃ ft ∈ t.fns, ft.idx = idx) : (t.tab idx).isSome = true := by
  unfold ProgTabs.tab
  rw [List.find?_isSome]
  obtain ⟨ft, hm, hi⟩ := h
  exact ⟨ft, hm, by simpa using hi⟩

/-- **Whatever the compiler model emits passes the whole-program check of the verifier.** -/
theorem compile_checks {ss : List Stmt} {inputs : List String} {bc : Bytecode'}
    (h : compileFile ss inputs = .ok bc) (hsz : szSs fuel ss < 2 ^ 30)
    (hclen : bc.consts.length ≤ 65536) (hgle : bc.maxGlobals ≤ 65536) (refs : Nat → Nat) :
    ∃ t : ProgTabs, checkProgram (toCodeR refs bc) bc.maxGlobals t = true := by
  obtain ⟨s, B, F, H, t', hmain, hcs, htab, hG, hinv, hcore, hszB⟩ := compile_run h hsz
  have hwfc := hinv.wfc
  rw [htab] at hwfc
  have hblock : t'.block = false := hwfc
  have henv : envOf s.tables = ⟨0, 0, bc.maxGlobals, false⟩ := by
    rw [htab, hG]
    simp [envOf, locMax, freeCnt, rootMax, globalCtx, hblock]
  have hops : ∀ i ∈ B, opReq bc.consts F ⟨0, 0, bc.maxGlobals, false⟩ i := by
    intro i hi
    have := hinv.ops i hi
    rw [henv, ← hcs] at this
    exact this
  have hcok : ConstsOK bc.consts F bc.maxGlobals := by
    have := hinv.cok
    rw [htab, ← hcs] at this
    rw [hG]; exact this
  obtain ⟨mt, hmidx, hmchk⟩ := main_tab refs hmain hinv.em.shape hops hcore hszB hclen hgle _ (refOK_all _ _ _)
  obtain ⟨fns, hf1, hf2, _⟩ := tabs_exist refs hcok hclen hgle (numFreeOf bc.consts F) (fun _ => True)
    (fun k code nl np va hk _ => ⟨numFreeOf_lookup hk rfl, refOK_all _ _ _⟩) bc.consts.length
  refine ⟨⟨mt :: fns, numFreeOf bc.consts F⟩, ?_⟩
  unfold checkProgram
  simp only [Bool.and_eq_true]
  refine ⟨⟨⟨⟨?_, ?_⟩, ?_⟩, ?_⟩, ?_⟩
  · rw [List.all_eq_true]
    intro ft hft
    rcases List.mem_cons.mp hft with rfl | hm
    · exact hmchk _
    · exact hf1 ft hm _
  · exact tab_isSome ⟨mt, List.mem_cons_self, hmidx⟩
  · rfl
  · rw [List.all_eq_true]
    intro k hk
    rw [toCode_const]
    cases hc : bc.consts[k]? with
    | none => rfl
    | some c =>
      cases c with
      | fn code nl np va =>
        simp only [Option.map_some, toVMConst, Bool.or_eq_true]
        right
        obtain ⟨ft, hm, hi⟩ := hf2 k (get?_lt hc) trivial _ hc rfl
        exact tab_isSome ⟨ft, List.mem_cons_of_mem _ hm, hi⟩
      | _ => rfl
  · rw [List.all_eq_true]
    intro p hp
    obtain ⟨k, n⟩ := p
    obtain ⟨c, hc, hf, _⟩ := mem_numFreeOf.mp hp
    simp only [toCode_const, hc, Option.map_some]
    cases c with
    | fn code nl np va => rfl
    | _ => cases hf

end Tengo.Proofs.C02Compile

import Tengo.Model.VM
import Tengo.Model.F0Compile
/-!
C01 bridge, data semantics: the scalar values (`Scalar`: undefined, bool, int, float, char, string, bytes),
the proof that the value-level operations the VM's opcodes call (`Spec.binaryOp`, `Spec.equalsV`,
`Spec.isFalsy`) neither read nor write the heap on scalars and return scalars (`binaryOp_pure`, …), and
the `F0.Sem` instance `vmSem` built from exactly those operations, with its agreement with them in every
heap (`binaryOp_sem`, `isFalsy_sem`, `equalsV_sem`).
-/
set_option linter.unusedVariables false
set_option linter.unusedSimpArgs false
namespace Tengo.Proofs.C01Bridge
open Tengo.Model Tengo.Model.Spec

/-- The data of the fragment: values without heap parts. -/
def Scalar : Value → Bool
  | .undef | .bool _ | .int _ | .float _ | .char _ | .str _ | .bytes _ => true
  | _ => false

/-- `x` neither reads nor writes the heap, and a value it returns satisfies `P`. -/
def IsPure {α : Type} (P : α → Prop) (x : M α) : Prop :=
  (∃ a, P a ∧ ∀ σ, x σ = .ok (a, σ)) ∨ (∃ e, e ≠ Err.fuel ∧ ∀ σ, x σ = .error e)

theorem IsPure.pure {α : Type} {P : α → Prop} (a : α) (h : P a) : IsPure P (Pure.pure a : M α) :=
  .inl ⟨a, h, fun _ => rfl⟩

theorem IsPure.throw {α : Type} {P : α → Prop} (e : Err) (he : e ≠ Err.fuel) : IsPure P (throw e : M α) :=
  .inr ⟨e, he, fun _ => rfl⟩

theorem IsPure.bind {α β : Type} {Q : α → Prop} {P : β → Prop} {x : M α} {f : α → M β}
    (hx : IsPure Q x) (hf : ∀ a, Q a → IsPure P (f a)) : IsPure P (x >>= f) := by
  rcases hx with ⟨a, ha, hx⟩ | ⟨e, hne, hx⟩
  · rcases hf a ha with ⟨b, hb, hfb⟩ | ⟨e, hne, hfe⟩
    · refine .inl ⟨b, hb, fun σ => ?_⟩
      show (StateT.bind x f) σ = _
      unfold StateT.bind
      simp only [hx σ, bind, Except.bind]
      exact hfb σ
    · refine .inr ⟨e, hne, fun σ => ?_⟩
      show (StateT.bind x f) σ = _
      unfold StateT.bind
      simp only [hx σ, bind, Except.bind]
      exact hfe σ
  · refine .inr ⟨e, hne, fun σ => ?_⟩
    show (StateT.bind x f) σ = _
    unfold StateT.bind
    simp only [hx σ, bind, Except.bind]
    rfl

theorem IsPure.invalidOp {P : Value → Prop} (l : Value) (tok : String) (r : Value) :
    IsPure P (invalidOp l tok r : M Value) := IsPure.throw _ (by intro h; cases h)

theorem IsPure.unsupported {α : Type} {P : α → Prop} (w : String) : IsPure P (Spec.unsupported w : M α) :=
  IsPure.throw _ (by intro h; cases h)

theorem isFalsy_total (v : Value) (hv : Scalar v = true) : ∃ b, ∀ σ, isFalsy v σ = .ok (b, σ) := by
  cases v <;> first | exact Bool.noConfusion hv | exact ⟨_, fun _ => rfl⟩

theorem equalsV_total (d : Nat) (a b : Value) (ha : Scalar a = true) (hb : Scalar b = true) :
    ∃ r, ∀ σ, equalsV (d + 1) a b σ = .ok (r, σ) := by
  cases a <;> first
    | exact Bool.noConfusion ha
    | (cases b <;> first | exact Bool.noConfusion hb | exact ⟨_, fun _ => rfl⟩)


theorem cmpResult_scalar {tok : String} {lt eq : Bool} {v : Value} (h : cmpResult tok lt eq = some v) :
    Scalar v = true := by
  unfold cmpResult at h
  split at h <;> first | (injection h with h; subst h; rfl) | cases h

theorem floatCmp_scalar {tok : String} {x y : Float} {v : Value} (h : floatCmp tok x y = some v) :
    Scalar v = true := by
  unfold floatCmp at h
  split at h <;> first | (injection h with h; subst h; rfl) | cases h

theorem floatArith_scalar {tok : String} {x y : Float} {v : Value} (h : floatArith tok x y = some v) :
    Scalar v = true := by
  unfold floatArith at h
  split at h <;> first | (injection h with h; subst h; rfl) | exact floatCmp_scalar h

theorem toStringV_pure (d : Nat) (v : Value) (hv : Scalar v = true) :
    IsPure (fun _ => True) (toStringV (d + 1) v) := by
  cases v <;> first
    | exact Bool.noConfusion hv
    | exact IsPure.pure _ trivial
    | exact IsPure.unsupported _
    | skip
  case str b =>
    simp only [toStringV]
    split
    · exact IsPure.pure _ trivial
    · exact IsPure.unsupported _

macro "pure_leaf" : tactic => `(tactic| first
  | exact IsPure.pure _ rfl
  | exact IsPure.throw _ (by intro h; cases h)
  | exact IsPure.invalidOp _ _ _
  | exact IsPure.pure _ (cmpResult_scalar ‹_›)
  | exact IsPure.pure _ (floatArith_scalar ‹_›)
  | exact IsPure.bind (toStringV_pure 63 _ rfl) (fun _ _ => IsPure.pure _ rfl))

theorem binaryOp_pure (tok : String) (l r : Value) (hl : Scalar l = true) (hr : Scalar r = true) :
    IsPure (fun v => Scalar v = true) (binaryOp tok l r) := by
  cases l <;> first
    | exact Bool.noConfusion hl
    | (cases r <;> first
        | exact Bool.noConfusion hr
        | (simp only [binaryOp]; repeat' split) <;> pure_leaf)


/-! ### the data semantics of the VM's scalar operations, as a `Sem` -/

/-- Scalar values: the carrier of the fragment's data semantics. -/
abbrev SV := { v : Value // Scalar v = true }

/-- `BinaryOp` by token number, as the VM's `OpBinaryOp` calls it (`VM.tokOfNum`, `Spec.binaryOp`), run
in the empty heap; `none` = the operation reports an error. -/
def svBinop (t : Nat) (a b : SV) : Option SV :=
  (F0.runPure (binaryOp (VM.tokOfNum t) a.1 b.1)).bind
    (fun v => if hs : Scalar v = true then some ⟨v, hs⟩ else none)

/-- The `Sem` instance built from the operations the VM model's `exBinaryOp`, `exEqual`, `exLNot`,
`exMinus`, `exBComplement` and the jumps' `isFalsy` use, restricted to scalar values. -/
def vmSem : F0.Sem SV where
  binop := svBinop
  eqv := fun a b => (F0.runPure (equalsV 64 a.1 b.1)).getD false
  falsy := fun a => (F0.runPure (isFalsy a.1)).getD false
  neg := fun a => match a.1 with
    | .int n => some ⟨.int (wrap64 (-n)), rfl⟩
    | .float x => some ⟨.float (-x), rfl⟩
    | _ => none
  bnot := fun a => match a.1 with
    | .int n => some ⟨.int (-n - 1), rfl⟩
    | _ => none
  ofBool := fun b => ⟨.bool b, rfl⟩
  undef := ⟨.undef, rfl⟩

theorem runPure_ok {α : Type} {x : M α} {a : α} {σ : St} (h : x {} = .ok (a, σ)) : F0.runPure x = some a := by
  unfold F0.runPure
  show (match x {} with | .ok (a, _) => some a | .error _ => none) = _
  rw [h]

theorem runPure_err {α : Type} {x : M α} {e : Err} (h : x {} = .error e) : F0.runPure x = none := by
  unfold F0.runPure
  show (match x {} with | .ok (a, _) => some a | .error _ => none) = _
  rw [h]

/-- In EVERY heap the VM's binary operator on scalars does what `vmSem.binop` says, and leaves the heap alone. -/
theorem binaryOp_sem (t : Nat) (a b : SV) (σ : St) :
    (∀ v, svBinop t a b = some v → binaryOp (VM.tokOfNum t) a.1 b.1 σ = .ok (v.1, σ)) ∧
    (svBinop t a b = none → ∃ e, e ≠ Err.fuel ∧ binaryOp (VM.tokOfNum t) a.1 b.1 σ = .error e) := by
  rcases binaryOp_pure (VM.tokOfNum t) a.1 b.1 a.2 b.2 with ⟨v0, hs, hv⟩ | ⟨e, hne, he⟩
  · have h0 : svBinop t a b = some ⟨v0, hs⟩ := by
      unfold svBinop
      rw [runPure_ok (hv {})]
      simp [hs]
    constructor
    · intro v hv'
      rw [h0] at hv'
      injection hv' with hv'
      subst hv'
      exact hv σ
    · intro hn; rw [h0] at hn; cases hn
  · have h0 : svBinop t a b = none := by
      unfold svBinop
      rw [runPure_err (he {})]
      rfl
    constructor
    · intro v hv'; rw [h0] at hv'; cases hv'
    · intro _; exact ⟨e, hne, he σ⟩

theorem isFalsy_sem (a : SV) (σ : St) : isFalsy a.1 σ = .ok (vmSem.falsy a, σ) := by
  obtain ⟨b, hb⟩ := isFalsy_total a.1 a.2
  have : vmSem.falsy a = b := by
    show (F0.runPure (isFalsy a.1)).getD false = b
    rw [runPure_ok (hb {})]; rfl
  rw [this]; exact hb σ

theorem equalsV_sem (a b : SV) (σ : St) : equalsV 64 a.1 b.1 σ = .ok (vmSem.eqv a b, σ) := by
  obtain ⟨r, hr⟩ := equalsV_total 63 a.1 b.1 a.2 b.2
  have : vmSem.eqv a b = r := by
    show (F0.runPure (equalsV 64 a.1 b.1)).getD false = r
    rw [runPure_ok (hr {})]; rfl
  rw [this]; exact hr σ

theorem constValue_scalar (c : F0.Const) : Scalar (F0.constValue c) = true := by cases c <;> rfl

/-- The fragment's constant table as scalar values (`F0.constValue`, as the `f0` stream prints them). -/
def svConst (ctab : Nat → F0.Const) (k : Nat) : SV := ⟨F0.constValue (ctab k), constValue_scalar _⟩

end Tengo.Proofs.C01Bridge

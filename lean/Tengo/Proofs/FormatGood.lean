import Tengo.Model.Format
/-!
Helper lemmas for C17: the invariant `Good` (a result is either a buffer within the limit or an
error other than `panic`) is preserved by every function of the formatter model.
-/
namespace Tengo.Proofs.FormatGood
open Tengo.Model.Format

/-- A result is acceptable: a buffer within the limit, or an error that is not a Go panic. -/
def Good (L : Nat) : R → Prop
  | .ok b => b.length ≤ L
  | .error e => e ≠ .panic

theorem good_limit (L : Nat) : Good L (.error .limit) := by simp [Good]
theorem good_unsup (L : Nat) : Good L (.error .unsupported) := by simp [Good]

theorem write_good (L : Nat) (buf p : Bytes) : Good L (write L buf p) := by
  unfold write
  split
  · exact good_limit L
  · simp [Good]; omega

theorem writePadding_good (L : Nat) (z : Bool) (buf : Bytes) (n : Int) (h : buf.length ≤ L) :
    Good L (writePadding L z buf n) := by
  unfold writePadding
  split
  · exact h
  · split
    · exact good_limit L
    · simp [Good]; omega

theorem bind_good {L : Nat} {x : R} {k : Bytes → R} (hx : Good L x)
    (hk : ∀ b, b.length ≤ L → Good L (k b)) : Good L (x >>= k) := by
  cases x with
  | error e => exact hx
  | ok b => exact hk b hx

theorem ask_bind_good {α} {L : Nat} (o : Option α) {k : α → R}
    (hk : ∀ a, Good L (k a)) : Good L (ask o >>= k) := by
  cases o with
  | none => exact good_unsup L
  | some a => exact hk a

theorem pad_good (L : Nat) (f : Fl) (buf b : Bytes) (h : buf.length ≤ L) : Good L (pad L f buf b) := by
  unfold pad
  split
  · exact write_good L buf b
  · split
    · exact bind_good (writePadding_good L _ buf _ h) (fun b' _ => write_good L b' b)
    · exact bind_good (write_good L buf b) (fun b' hb => writePadding_good L _ b' _ hb)

theorem fmtS_good (L : Nat) (f : Fl) (buf s : Bytes) (h : buf.length ≤ L) : Good L (fmtS L f buf s) :=
  pad_good L f buf _ h

/-! ### digit counts -/

theorem digitsRev_length_le (b : Nat) (hb : 2 ≤ b) : ∀ (k u : Nat), 1 ≤ k → u < b ^ k → (digitsRev b u).length ≤ k := by
  intro k
  induction k with
  | zero => intro u h; omega
  | succ k ih =>
    intro u _ hu
    rw [digitsRev]
    split
    · rename_i h
      have hk : 1 ≤ k := by
        cases k with
        | zero => simp at hu; omega
        | succ k => omega
      have : u / b < b ^ k := by
        apply (Nat.div_lt_iff_lt_mul (by omega)).mpr
        rw [Nat.pow_succ] at hu
        exact hu
      have := ih (u / b) hk this
      simp; omega
    · simp

theorem digitsOf_length_pos (up : Bool) (b u : Nat) : 1 ≤ (digitsOf up b u).length := by
  unfold digitsOf
  rw [digitsRev]
  split <;> simp

theorem digitsOf_length_le64 (up : Bool) (b u : Nat) (hb : 2 ≤ b) (hu : u < 2 ^ 64) : (digitsOf up b u).length ≤ 64 := by
  unfold digitsOf
  simp only [List.length_map, List.length_reverse]
  apply digitsRev_length_le b hb 64 u (by omega)
  calc u < 2 ^ 64 := hu
    _ ≤ b ^ 64 := Nat.pow_le_pow_left hb 64

theorem digitsOf16_length_le (up : Bool) (u : Nat) (hu : u < 2 ^ 64) : (digitsOf up 16 u).length ≤ 16 := by
  unfold digitsOf
  simp only [List.length_map, List.length_reverse]
  apply digitsRev_length_le 16 (by omega) 16 u (by omega)
  have : (16 : Nat) ^ 16 = 2 ^ 64 := by decide
  omega


/-! ### fmtInteger never writes below index 0 of its buffer -/

theorem intPrec_le (f : Fl) (neg : Bool) : intPrec f neg + 3 ≤ intBufLen f := by
  unfold intPrec intBufLen
  cases f.precPresent <;> cases f.widPresent <;> cases f.zero <;> simp <;> (try split) <;> omega

theorem intBufLen_ge (f : Fl) : 68 ≤ intBufLen f := by
  unfold intBufLen; split <;> omega

theorem intZeroPad_length (bl prec : Nat) (ds : Bytes) (h : prec ≤ bl) :
    (intZeroPad bl prec ds).length = max prec ds.length := by
  unfold intZeroPad zeros
  simp only [List.length_append, List.length_replicate]
  split <;> omega

theorem intZeroPad_head (bl prec : Nat) (ds : Bytes) (h : prec ≤ bl) (hp : prec > ds.length) :
    (intZeroPad bl prec ds).head? = some 48 := by
  unfold intZeroPad zeros
  simp only [hp, if_true]
  have : min prec bl - ds.length = (min prec bl - ds.length - 1) + 1 := by omega
  rw [this, List.replicate_succ]
  simp

theorem signBytes_length (f : Fl) (neg : Bool) : (signBytes f neg).length ≤ 1 := by
  unfold signBytes; split <;> (try split) <;> (try split) <;> simp

theorem oPrefix_length (verb : Nat) : (oPrefix verb).length = if verb = 79 then 2 else 0 := by
  unfold oPrefix; split <;> simp

theorem sharpPrefix_length (f : Fl) (base : Nat) (up : Bool) (body : Bytes) :
    (sharpPrefix f base up body).length ≤ (if base = 8 then (if body.head? = some 48 then 0 else 1) else 2) := by
  unfold sharpPrefix
  by_cases hs : f.sharp <;> simp [hs]
  · by_cases h2 : base = 2
    · subst h2; simp
    · by_cases h8 : base = 8
      · subst h8; simp; split <;> simp
      · by_cases h16 : base = 16
        · subst h16; simp
        · simp [h2, h8, h16]

theorem intBody_isSome (f : Fl) (u : Nat) (neg : Bool) (base verb : Nat) (up : Bool)
    (hb : 2 ≤ base) (hu : u < 2 ^ 64) (hv : verb = 79 → base = 8) :
    ∃ out, intBody f u neg base verb up = some out := by
  unfold intBody
  simp only []
  split
  · rename_i hlen
    exfalso
    have hp := intPrec_le f neg
    have h68 := intBufLen_ge f
    have hnd := digitsOf_length_le64 up base u hb hu
    have hnd1 := digitsOf_length_pos up base u
    have hbl := intZeroPad_length (intBufLen f) (intPrec f neg) (digitsOf up base u) (by omega)
    have hsg := signBytes_length f neg
    have ho := oPrefix_length verb
    have hsp := sharpPrefix_length f base up (intZeroPad (intBufLen f) (intPrec f neg) (digitsOf up base u))
    simp only [List.length_append] at hlen
    by_cases h8 : base = 8
    · subst h8
      simp only [if_true] at hsp
      by_cases hgt : intPrec f neg > (digitsOf up 8 u).length
      · have hh := intZeroPad_head (intBufLen f) (intPrec f neg) _ (by omega) hgt
        simp only [hh, if_true] at hsp
        split at ho <;> omega
      · split at hsp <;> split at ho <;> omega
    · have hv' : verb ≠ 79 := fun h => h8 (hv h)
      simp only [h8, if_false, hv'] at hsp ho
      omega
  · exact ⟨_, rfl⟩

theorem fmtInteger_good (L : Nat) (f : Fl) (buf : Bytes) (u : Nat) (neg : Bool) (base verb : Nat) (up : Bool)
    (h : buf.length ≤ L) (hb : 2 ≤ base) (hu : u < 2 ^ 64) (hv : verb = 79 → base = 8) :
    Good L (fmtInteger L f buf u neg base verb up) := by
  unfold fmtInteger
  split
  · exact writePadding_good L _ buf _ h
  · obtain ⟨out, ho⟩ := intBody_isSome f u neg base verb up hb hu hv
    rw [ho]
    exact pad_good L _ buf out h

/-! ### fmtUnicode, fmtC, fmtQc -/

theorem encodeRune_length (r : Nat) : (encodeRune r).length ≤ 4 := by
  unfold encodeRune
  split <;> (try split) <;> (try split) <;> (try split) <;> simp

theorem unicodeQuoted_ok (O : Oracle) (f : Fl) (u : Nat) (q : Bytes) (h : unicodeQuoted O f u = .ok q) : q.length ≤ 7 := by
  unfold unicodeQuoted at h
  split at h
  · split at h
    · simp at h
    · simp at h; subst h; simp
    · split at h
      · simp at h
      · simp at h; subst h
        have := encodeRune_length u
        simp; omega
  · simp at h; subst h; simp

theorem unicodeQuoted_err (O : Oracle) (f : Fl) (u : Nat) (e : Err) (h : unicodeQuoted O f u = .error e) : e = .unsupported := by
  unfold unicodeQuoted at h
  split at h
  · split at h
    · simp at h; exact h.symm
    · simp at h
    · split at h
      · simp at h; exact h.symm
      · simp at h
  · simp at h

theorem unicodeBody_isSome (f : Fl) (u : Nat) (q : Bytes) (hu : u < 2 ^ 64) (hq : q.length ≤ 7) :
    ∃ out, unicodeBody f u q = some out := by
  have hnd := digitsOf16_length_le true u hu
  have aux : ∀ prec bufLen : Nat, prec + 9 ≤ bufLen → 25 ≤ bufLen →
      ¬ (([85, 43] ++ zeros (prec - (digitsOf true 16 u).length) ++ digitsOf true 16 u ++ q).length > bufLen) := by
    intro prec bufLen h1 h2
    simp only [List.length_append, zeros, List.length_replicate, List.length_cons, List.length_nil]
    omega
  unfold unicodeBody
  by_cases hb : (f.precPresent && decide (f.prec > 4)) = true
  · simp only [hb, if_true]
    rw [if_neg (aux _ _ (by omega) (by omega))]
    exact ⟨_, rfl⟩
  · have hb' : (f.precPresent && decide (f.prec > 4)) = false := by simpa using hb
    simp only [hb', Bool.false_eq_true, if_false]
    rw [if_neg (aux _ _ (by omega) (by omega))]
    exact ⟨_, rfl⟩

theorem fmtUnicode_good (O : Oracle) (L : Nat) (f : Fl) (buf : Bytes) (u : Nat) (h : buf.length ≤ L) (hu : u < 2 ^ 64) :
    Good L (fmtUnicode O L f buf u) := by
  unfold fmtUnicode
  split
  · rename_i e he
    rw [unicodeQuoted_err O f u e he]; exact good_unsup L
  · rename_i q hq
    obtain ⟨out, ho⟩ := unicodeBody_isSome f u q hu (unicodeQuoted_ok O f u q hq)
    rw [ho]
    exact pad_good L _ buf out h

theorem fmtC_good (L : Nat) (f : Fl) (buf : Bytes) (c : Nat) (h : buf.length ≤ L) : Good L (fmtC L f buf c) :=
  pad_good L f buf _ h

theorem fmtQc_good (O : Oracle) (L : Nat) (f : Fl) (buf : Bytes) (c : Nat) (h : buf.length ≤ L) :
    Good L (fmtQc O L f buf c) := by
  unfold fmtQc
  exact ask_bind_good _ (fun q => pad_good L f buf q h)


/-! ### fmtSbx: the guard `len(buf)+width > MaxStringLen` covers exactly what is appended (O11) -/

def sepLen (f : Fl) : Nat := if f.space then (if f.sharp then 3 else 1) else 0

theorem sbxEnc_false_length (f : Fl) (up : Bool) : ∀ l : Bytes, (sbxEnc f up false l).length = l.length * (2 + sepLen f) := by
  intro l
  induction l with
  | nil => simp [sbxEnc]
  | cons c rest ih =>
    simp only [sbxEnc, List.length_append, ih, hexByte, List.length_cons, List.length_nil, sepLen]
    cases f.space <;> cases f.sharp <;> simp <;> omega

theorem sbxEnc_true_length' (f : Fl) (up : Bool) (c : UInt8) (rest : Bytes) :
    (sbxEnc f up true (c :: rest)).length = 2 + rest.length * (2 + sepLen f) := by
  simp only [sbxEnc, sbxEnc_false_length, hexByte, List.length_append, List.length_cons, List.length_nil]
  simp

/-- What `fmtSbx` appends has exactly the computed `width`. -/
theorem sbx_width (f : Fl) (up : Bool) (s : Bytes) (hs : s ≠ []) :
    (sbxLead f up ++ sbxEnc f up true s).length = sbxWidth f s.length := by
  cases s with
  | nil => exact absurd rfl hs
  | cons c rest =>
    rw [List.length_append, sbxEnc_true_length']
    simp only [sepLen, List.length_cons, sbxLead, sbxWidth]
    cases f.space <;> cases f.sharp <;> simp <;> omega

theorem sbxLength_le (f : Fl) (s : Bytes) : sbxLength f s ≤ s.length := by
  unfold sbxLength
  split
  · rename_i hc; simp at hc; omega
  · omega

theorem fmtSbx_good (L : Nat) (f : Fl) (buf s : Bytes) (up : Bool) (h : buf.length ≤ L) : Good L (fmtSbx L f buf s up) := by
  unfold fmtSbx
  have hle := sbxLength_le f s
  generalize sbxLength f s = n at hle
  simp only []
  by_cases hn : n = 0
  · simp only [hn, if_true]
    split
    · exact writePadding_good L _ buf _ h
    · exact h
  · simp only [hn, if_false]
    have hpre : Good L (if (f.widPresent && decide (f.wid > sbxWidth f n) && !f.minus) = true
        then writePadding L f.zero buf ((f.wid : Int) - sbxWidth f n) else .ok buf) := by
      split
      · exact writePadding_good L _ buf _ h
      · exact h
    revert hpre
    cases (if (f.widPresent && decide (f.wid > sbxWidth f n) && !f.minus) = true
        then writePadding L f.zero buf ((f.wid : Int) - sbxWidth f n) else .ok buf) with
    | error e => intro hpre; exact hpre
    | ok b =>
      intro hb
      simp only []
      by_cases hfit : b.length + sbxWidth f n > L
      · simp only [hfit, if_true]; exact good_limit L
      · simp only [hfit, if_false]
        have htake : (s.take n).length = n := by rw [List.length_take]; omega
        have hne : s.take n ≠ [] := by
          intro hnil; rw [hnil] at htake; simp at htake; omega
        have hw := sbx_width f up _ hne
        rw [htake] at hw
        have hnew : (b ++ (sbxLead f up ++ sbxEnc f up true (s.take n))).length ≤ L := by
          rw [List.length_append, hw]; omega
        split
        · exact writePadding_good L _ _ _ hnew
        · exact hnew

theorem fmtQ_good (O : Oracle) (L : Nat) (f : Fl) (buf s : Bytes) (h : buf.length ≤ L) : Good L (fmtQ O L f buf s) := by
  unfold fmtQ
  simp only []
  split
  · exact good_unsup L
  · exact pad_good L f buf _ h
  · split
    · exact good_unsup L
    · exact pad_good L f buf _ h


/-! ### floats, bad verbs, the typed dispatch -/

theorem floatEmit_good (L : Nat) (f : Fl) (buf : Bytes) (sign : UInt8) (rest : Bytes) (h : buf.length ≤ L) :
    Good L (floatEmit L f buf sign rest) := by
  unfold floatEmit
  split
  · split
    · exact bind_good (write_good L buf _) (fun b hb =>
        bind_good (writePadding_good L _ b _ hb) (fun b' _ => write_good L b' rest))
    · exact pad_good L f buf _ h
  · exact pad_good L f buf _ h

theorem fmtFloatF_good (O : Oracle) (L : Nat) (f : Fl) (buf : Bytes) (bits verb : Nat) (dp : Int) (h : buf.length ≤ L) :
    Good L (fmtFloatF O L f buf bits verb dp) := by
  unfold fmtFloatF
  simp only []
  split
  · exact good_unsup L
  · split
    · exact good_unsup L
    · split
      · exact pad_good L _ buf _ h
      · exact floatEmit_good L f buf _ _ h

theorem badVerb_good (O : Oracle) (L : Nat) (f : Fl) (buf : Bytes) (a : Arg) (verb : Nat) (_h : buf.length ≤ L) :
    Good L (badVerb O L f buf a verb) := by
  unfold badVerb
  split
  · exact good_unsup L
  · exact bind_good (write_good L buf _) (fun b1 _ =>
      bind_good (write_good L b1 _) (fun b2 _ =>
      bind_good (write_good L b2 _) (fun b3 _ =>
      bind_good (write_good L b3 _) (fun b4 _ =>
      bind_good (write_good L b4 _) (fun b5 h5 =>
      bind_good (fmtS_good L f b5 _ h5) (fun b6 _ => write_good L b6 _))))))

theorem bytesElems_good (L : Nat) (f : Fl) : ∀ (s : Bytes) (first : Bool) (buf : Bytes), buf.length ≤ L →
    Good L (bytesElems L f first buf s) := by
  intro s
  induction s with
  | nil => intro first buf h; simpa [bytesElems, Good] using h
  | cons c rest ih =>
    intro first buf h
    unfold bytesElems
    apply bind_good
    · split
      · exact h
      · exact write_good L buf _
    · intro b hb
      apply bind_good
      · exact fmtInteger_good L f b c.toNat false 10 100 false hb (by omega)
          (by have := c.toNat_lt; omega) (by omega)
      · intro b' hb'; exact ih false b' hb'

theorem mag_lt (v : BitVec 64) : mag v < 2 ^ 64 := by
  unfold mag; split <;> exact BitVec.isLt _

theorem printBool_good (O : Oracle) (L : Nat) (f : Fl) (buf : Bytes) (b : Bool) (verb : Nat) (h : buf.length ≤ L) :
    Good L (printBool O L f buf b verb) := by
  unfold printBool; split
  · exact pad_good L f buf _ h
  · exact badVerb_good O L f buf _ verb h

theorem printFloat_good (O : Oracle) (L : Nat) (f : Fl) (buf : Bytes) (bits verb : Nat) (h : buf.length ≤ L) :
    Good L (printFloat O L f buf bits verb) := by
  unfold printFloat
  split
  · exact fmtFloatF_good O L f buf bits verb _ h
  · split
    · exact fmtFloatF_good O L f buf bits verb _ h
    · split
      · exact fmtFloatF_good O L f buf bits _ _ h
      · exact badVerb_good O L f buf _ verb h

theorem printInt_good (O : Oracle) (L : Nat) (f : Fl) (buf : Bytes) (v : BitVec 64) (verb : Nat) (h : buf.length ≤ L) :
    Good L (printInt O L f buf v verb) := by
  have hm := mag_lt v
  unfold printInt
  split
  · rename_i hv; exact fmtInteger_good L f buf _ _ 10 verb false h (by omega) hm (by omega)
  · split
    · rename_i hv; exact fmtInteger_good L f buf _ _ 2 verb false h (by omega) hm (by omega)
    · split
      · exact fmtInteger_good L f buf _ _ 8 verb false h (by omega) hm (by omega)
      · split
        · rename_i hv; exact fmtInteger_good L f buf _ _ 16 verb false h (by omega) hm (by omega)
        · split
          · rename_i hv; exact fmtInteger_good L f buf _ _ 16 verb true h (by omega) hm (by omega)
          · split
            · exact fmtC_good L f buf _ h
            · split
              · split
                · exact fmtQc_good O L f buf _ h
                · exact badVerb_good O L f buf _ verb h
              · split
                · exact fmtUnicode_good O L f buf _ h (BitVec.isLt v)
                · exact badVerb_good O L f buf _ verb h

theorem printStr_good (O : Oracle) (L : Nat) (f : Fl) (buf s : Bytes) (verb : Nat) (h : buf.length ≤ L) :
    Good L (printStr O L f buf s verb) := by
  unfold printStr
  split
  · exact fmtS_good L f buf s h
  · split
    · exact fmtSbx_good L f buf s false h
    · split
      · exact fmtSbx_good L f buf s true h
      · split
        · exact fmtQ_good O L f buf s h
        · exact badVerb_good O L f buf _ verb h

theorem printBytes_good (O : Oracle) (L : Nat) (f : Fl) (buf s : Bytes) (verb : Nat) (h : buf.length ≤ L) :
    Good L (printBytes O L f buf s verb) := by
  unfold printBytes
  split
  · exact bind_good (write_good L buf _) (fun b1 h1 =>
      bind_good (bytesElems_good L f s true b1 h1) (fun b2 _ => write_good L b2 _))
  · split
    · exact fmtS_good L f buf s h
    · split
      · exact fmtSbx_good L f buf s false h
      · split
        · exact fmtSbx_good L f buf s true h
        · split
          · exact fmtQ_good O L f buf s h
          · exact h

theorem printArg_good (O : Oracle) (L : Nat) (f : Fl) (buf : Bytes) (a : Arg) (verb : Nat) (h : buf.length ≤ L) :
    Good L (printArg O L f buf a verb) := by
  unfold printArg
  split
  · exact fmtS_good L f buf _ h
  · split
    · split
      · exact good_unsup L
      · exact fmtS_good L f buf _ h
    · cases a with
      | int v => exact printInt_good O L f buf v verb h
      | float b => exact printFloat_good O L f buf b verb h
      | str s => exact printStr_good O L f buf s verb h
      | bool b => exact printBool_good O L f buf b verb h
      | bytes s => exact printBytes_good O L f buf s verb h

/-! ### directives, the loop, Format -/

theorem verbError_good (L : Nat) (buf : Bytes) (verb : Nat) (what : Bytes) : Good L (verbError L buf verb what) := by
  unfold verbError
  exact bind_good (write_good L buf _) (fun b1 _ => bind_good (write_good L b1 _) (fun b2 _ => write_good L b2 _))

theorem renderDirective_good (O : Oracle) (L : Nat) (args : List Arg) (d : Dir) (buf : Bytes) (h : buf.length ≤ L) :
    Good L (renderDirective O L args d buf) := by
  unfold renderDirective
  apply bind_good
  · split
    · exact write_good L buf _
    · exact h
  · intro b1 h1
    apply bind_good
    · split
      · exact write_good L b1 _
      · exact h1
    · intro b2 h2
      split
      · exact write_good L b2 _
      · split
        · exact write_good L b2 _
        · split
          · exact verbError_good L b2 _ _
          · split
            · exact verbError_good L b2 _ _
            · exact printArg_good O L _ b2 _ _ h2

/-- Invariant of the loop state. -/
def GoodSt (L : Nat) : Except Err LoopOut → Prop
  | .ok st => st.buf.length ≤ L
  | .error e => e ≠ .panic

theorem loop_good (O : Oracle) (L : Nat) (args : List Arg) (ints : List (Option Int)) :
    ∀ (n : Nat) (r : Bytes) (st : LoopOut), r.length ≤ n → st.buf.length ≤ L → GoodSt L (loop O L args ints r st) := by
  intro n
  induction n with
  | zero =>
    intro r st hr hst
    have : r = [] := List.eq_nil_of_length_eq_zero (by omega)
    subst this
    rw [loop]; simpa [GoodSt] using hst
  | succ n ih =>
    intro r st hr hst
    rw [loop]
    split
    · simpa [GoodSt] using hst
    · have hlit : Good L (if litLen r > 0 then write L st.buf (r.take (litLen r)) else .ok st.buf) := by
        split
        · exact write_good L _ _
        · exact hst
      generalize (if litLen r > 0 then write L st.buf (r.take (litLen r)) else .ok st.buf) = w at hlit
      cases w with
      | error e => exact hlit
      | ok buf =>
        simp only []
        split
        · exact hlit
        · rename_i c r1 hdrop
          have hrd := renderDirective_good O L args (parseDirective ints st.argNum r1) buf hlit
          generalize renderDirective O L args (parseDirective ints st.argNum r1) buf = w2 at hrd
          cases w2 with
          | error e => exact hrd
          | ok buf2 =>
            simp only []
            split
            · exact hrd
            · apply ih
              · have := drop_lit_lt r r1 c hdrop (parseDirective ints st.argNum r1).n
                omega
              · exact hrd

theorem extras_good (O : Oracle) (L : Nat) : ∀ (as : List Arg) (first : Bool) (buf : Bytes), buf.length ≤ L →
    Good L (extras O L first buf as) := by
  intro as
  induction as with
  | nil => intro first buf h; simpa [extras, Good] using h
  | cons a rest ih =>
    intro first buf h
    unfold extras
    split
    · exact good_unsup L
    · apply bind_good
      · split
        · exact h
        · exact write_good L buf _
      · intro b1 _
        exact bind_good (write_good L b1 _) (fun b2 _ => bind_good (write_good L b2 _) (fun b3 _ =>
          bind_good (write_good L b3 _) (fun b4 h4 => ih false b4 h4)))

theorem format_good (O : Oracle) (L : Nat) (fmt : Bytes) (args : List Arg) : Good L (format O L fmt args) := by
  unfold format
  split
  · exact good_unsup L
  · rename_i ints _
    have hl := loop_good O L args ints fmt.length fmt { buf := [], argNum := 0, reordered := false } (Nat.le_refl _) (by simp)
    generalize loop O L args ints fmt { buf := [], argNum := 0, reordered := false } = w at hl
    cases w with
    | error e => exact hl
    | ok st =>
      simp only []
      split
      · exact bind_good (write_good L st.buf _) (fun b1 h1 =>
          bind_good (extras_good O L _ true b1 h1) (fun b2 _ => write_good L b2 _))
      · exact hl

end Tengo.Proofs.FormatGood

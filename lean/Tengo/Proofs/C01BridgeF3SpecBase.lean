import Tengo.Proofs.C01BridgeSpecRun
import Tengo.Proofs.C01BridgeF2SpecStmt
import Tengo.Proofs.C01F3OptInit
/-!
C01 bridge for fragment F3, reference-interpreter side, layer 0.
-/
set_option linter.unusedVariables false
set_option linter.unusedSimpArgs false
namespace Tengo.Proofs.C01BridgeF3Spec
open Tengo.Model Tengo.Model.Spec
open Tengo.Model.F3 (Ex Exs Stm Stms FnDef Prog Locals ERes EsRes Res updL bindArgs)
open Tengo.Proofs.C01Bridge
open Tengo.Proofs.C01BridgeF3 (DataRel NotCallable)
open Tengo.Proofs.C01BridgeF3Comp
open Tengo.Proofs.C01F3Opt (EnvOk)

/-! ### data: a function value of the VM side (`.cfn`) against a closure of the interpreter (`.fn`) -/

/-- `w` is the interpreter's value for the VM-side value `v`. -/
def Sim (v w : Value) : Prop := (Scalar v = true ∧ w = v) ∨ ∃ r r', v = .cfn r ∧ w = .fn r'

theorem isFalsy_sim {a a' : Value} (ha : Sim a a') : isFalsy a' = isFalsy a := by
  rcases ha with ⟨_, rfl⟩ | ⟨r, r', rfl, rfl⟩
  · rfl
  · rfl

theorem equalsV_sim {a a' b b' : Value} (ha : Sim a a') (hb : Sim b b') : equalsV 64 a' b' = equalsV 64 a b := by
  rcases ha with ⟨hsa, rfl⟩ | ⟨r, r', rfl, rfl⟩
  · rcases hb with ⟨_, rfl⟩ | ⟨s, s', rfl, rfl⟩
    · rfl
    · cases a' <;> first | exact Bool.noConfusion hsa | rfl
  · rcases hb with ⟨hsb, rfl⟩ | ⟨s, s', rfl, rfl⟩
    · cases b' <;> first | exact Bool.noConfusion hsb | rfl
    · rfl

theorem binaryOp_str_fn (tok : String) (x : Spec.Bytes) (s s' : Nat) :
    binaryOp tok (.str x) (.fn s') = binaryOp tok (.str x) (.cfn s) := by
  by_cases h : tok = "Add"
  · subst h; rfl
  · simp only [binaryOp]
    first | rfl | (repeat' split) <;> first | rfl | contradiction

theorem binaryOp_sim (tok : String) {a a' b b' : Value} (ha : Sim a a') (hb : Sim b b') :
    binaryOp tok a' b' = binaryOp tok a b := by
  rcases ha with ⟨hsa, rfl⟩ | ⟨r, r', rfl, rfl⟩
  · rcases hb with ⟨_, rfl⟩ | ⟨s, s', rfl, rfl⟩
    · rfl
    · cases a' <;> first
        | exact Bool.noConfusion hsa
        | exact binaryOp_str_fn tok _ s s'
        | (simp only [binaryOp]; rfl)
  · rcases hb with ⟨hsb, rfl⟩ | ⟨s, s', rfl, rfl⟩
    · simp only [binaryOp]; rfl
    · simp only [binaryOp]; rfl


/-! ### the setting -/

/-- Everything the bridge is parametric in: the data side of `F3.exec`, the embedding's names and constants, the
program, and — interpreter side — the cells of the global slots and the global environment closures capture. -/
structure Cx (V : Type) where
  E : F3.Env V
  val : V → Value
  refs : Nat → Nat
  names : Nat → String
  lnames : Nat → String
  ctab : Nat → F0.Const
  n : Nat
  P : Prog
  cells : Nat → Nat
  genv : Spec.Env

variable {V : Type} (C : Cx V)

/-- The closure the interpreter allocates for the function literal of `fd` (at the top level of main). -/
def Cx.clos (fd : FnDef) : Closure :=
  { params := paramsOf C.lnames fd.nparams, varargs := false,
    body := toAstSs3 C.names C.lnames C.ctab fd.body, env := C.genv }

/-- The value relation: scalars are equal; the function value of function constant `k` is a reference to a heap
closure of `k`'s function literal over the global environment. -/
def VR (σ : St) (v : V) (w : Value) : Prop :=
  (Scalar (C.val v) = true ∧ w = C.val v) ∨
  ∃ k fd r, C.E.asFn v = some k ∧ C.P.fns k = some fd ∧ w = .fn r ∧ σ.heap[r]? = some (.clos (C.clos fd))

structure Hyp : Prop where
  data : DataRel C.E.S C.val
  env : EnvOk C.P C.ctab C.E C.val C.refs
  nm : NamesOK C.names C.lnames C.n
  vals : ∀ v, Scalar (C.val v) = true ∨ ∃ r, C.val v = .cfn r
  cs : ∀ k, C.P.fns k = none → C.val (C.E.cs k) = F0.constValue (C.ctab k)
  cinj : ∀ i j, i < C.n → j < C.n → C.cells i = C.cells j → i = j
  genv : ∀ i, i < C.n → lookupVar C.genv (C.names i) = some (C.cells i)
  wfns : ∀ k fd, C.P.fns k = some fd → ∃ k0, wfFn (isFnOf C.P) C.n k0 fd = true

/-- The cells of the global slots hold (values related to) `g`. -/
def GInv (σ : St) (g : Nat → V) : Prop :=
  ∀ i, i < C.n → ∃ w b, σ.heap[C.cells i]? = some (.cell w b) ∧ VR C σ (g i) w

/-- The cells `lc i`, `i < m`, of the current activation's parameters / locals hold `l`; they were allocated after
the call (`B` = heap size at the call) and are not global cells. -/
structure LInv (B : Nat) (σ : St) (m : Nat) (lc : Nat → Nat) (l : Locals V) : Prop where
  loc : ∀ i, i < m → ∃ v w b, l i = some v ∧ σ.heap[lc i]? = some (.cell w b) ∧ VR C σ v w
  base : ∀ i, i < m → B ≤ lc i
  dis : ∀ i j, i < m → j < C.n → lc i ≠ C.cells j
  inj : ∀ i j, i < m → j < m → lc i = lc j → i = j

structure HInv (B : Nat) (σ : St) (g : Nat → V) (m : Nat) (lc : Nat → Nat) (l : Locals V) : Prop where
  glob : GInv C σ g
  loc : LInv C B σ m lc l
  bsz : B ≤ σ.heap.size

/-- The environment resolves the global names to the global cells and the defined local names to `lc`. -/
structure EInv (env : Spec.Env) (m : Nat) (lc : Nat → Nat) : Prop where
  glob : ∀ i, i < C.n → lookupVar env (C.names i) = some (C.cells i)
  loc : ∀ i, i < m → lookupVar env (C.lnames i) = some (lc i)

/-- Closures are never overwritten. -/
def KeepClos (σ σ' : St) : Prop :=
  ∀ (r : Nat) (c : Closure), σ.heap[r]? = some (Obj.clos c) → σ'.heap[r]? = some (Obj.clos c)

/-- Frame condition: the heap grows, closures stay, and below `B` only global cells change. -/
structure FrB (B : Nat) (σ σ' : St) : Prop where
  size : σ.heap.size ≤ σ'.heap.size
  kc : KeepClos σ σ'
  same : ∀ (r : Nat), r < B → r < σ.heap.size → (∀ j, j < C.n → r ≠ C.cells j) → σ'.heap[r]? = σ.heap[r]?

variable {C}

theorem FrB.refl (B : Nat) (σ : St) : FrB C B σ σ := ⟨Nat.le_refl _, fun _ _ h => h, fun _ _ _ _ => rfl⟩

theorem FrB.trans {B : Nat} {σ σ1 σ2 : St} (h1 : FrB C B σ σ1) (h2 : FrB C B σ1 σ2) : FrB C B σ σ2 :=
  ⟨Nat.le_trans h1.size h2.size, fun r c h => h2.kc r c (h1.kc r c h),
    fun r hB hr hg => by rw [h2.same r hB (Nat.lt_of_lt_of_le hr h1.size) hg, h1.same r hB hr hg]⟩

theorem FrB.mono {B B' : Nat} {σ σ' : St} (h : FrB C B σ σ') (hB : B' ≤ B) : FrB C B' σ σ' :=
  ⟨h.size, h.kc, fun r hr hs hg => h.same r (Nat.lt_of_lt_of_le hr hB) hs hg⟩

theorem VR.mono {σ σ' : St} {v : V} {w : Value} (h : VR C σ v w)
    (hc : KeepClos σ σ') : VR C σ' v w := by
  rcases h with h | ⟨k, fd, r, h1, h2, h3, h4⟩
  · exact .inl h
  · exact .inr ⟨k, fd, r, h1, h2, h3, hc _ _ h4⟩

theorem VR.scalar {σ : St} {v : V} (h : Scalar (C.val v) = true) : VR C σ v (C.val v) := .inl ⟨h, rfl⟩

theorem VR.sim (hy : Hyp C) {σ : St} {v : V} {w : Value} (h : VR C σ v w) : Sim (C.val v) w := by
  rcases h with h | ⟨k, fd, r, h1, h2, h3, h4⟩
  · exact .inl h
  · exact .inr ⟨C.refs k, r, hy.env.asFn_some v k h1, h3⟩

theorem lt_size_of_get {σ : St} {r : Nat} {o : Obj} (h : σ.heap[r]? = some o) : r < σ.heap.size := by
  rcases Nat.lt_or_ge r σ.heap.size with h' | h'
  · exact h'
  · rw [Array.getElem?_eq_none h'] at h; cases h

/-- Invariants move along a heap change that keeps the cells in question and the closures. -/
theorem GInv.move {σ σ' : St} {g : Nat → V} (h : GInv C σ g)
    (hc : KeepClos σ σ')
    (hs : ∀ i, i < C.n → σ'.heap[C.cells i]? = σ.heap[C.cells i]?) : GInv C σ' g := by
  intro i hi
  obtain ⟨w, b, h1, h2⟩ := h i hi
  exact ⟨w, b, by rw [hs i hi]; exact h1, h2.mono hc⟩

theorem LInv.move {B : Nat} {σ σ' : St} {m : Nat} {lc : Nat → Nat} {l : Locals V} (h : LInv C B σ m lc l)
    (hc : KeepClos σ σ')
    (hs : ∀ i, i < m → σ'.heap[lc i]? = σ.heap[lc i]?) : LInv C B σ' m lc l :=
  ⟨fun i hi => by
      obtain ⟨v, w, b, h1, h2, h3⟩ := h.loc i hi
      exact ⟨v, w, b, h1, by rw [hs i hi]; exact h2, h3.mono hc⟩,
    h.base, h.dis, h.inj⟩

/-- Across a call made from the activation: the callee changed only global cells and fresh cells. -/
theorem LInv.call {B : Nat} {σ σ' : St} {m : Nat} {lc : Nat → Nat} {l : Locals V} (h : LInv C B σ m lc l)
    (hf : FrB C σ.heap.size σ σ') : LInv C B σ' m lc l :=
  h.move hf.kc (fun i hi => by
    obtain ⟨v, w, b, h1, h2, h3⟩ := h.loc i hi
    have hlt := lt_size_of_get h2
    exact hf.same _ hlt hlt (fun j hj => h.dis i j hi hj))

/-! ### the primitive heap steps -/

def pushSt (σ : St) (o : Obj) : St := { σ with heap := σ.heap.push o }
def setSt (σ : St) (r : Nat) (o : Obj) : St := { σ with heap := σ.heap.setIfInBounds r o }

theorem pushSt_get_lt {σ : St} {o : Obj} {r : Nat} (h : r < σ.heap.size) : (pushSt σ o).heap[r]? = σ.heap[r]? := by
  simp only [pushSt, Array.getElem?_push]
  rw [if_neg (by omega)]

theorem pushSt_get_new (σ : St) (o : Obj) : (pushSt σ o).heap[σ.heap.size]? = some o := by
  simp [pushSt]

theorem pushSt_size (σ : St) (o : Obj) : (pushSt σ o).heap.size = σ.heap.size + 1 := by simp [pushSt]

theorem pushSt_get_some {σ : St} {o o' : Obj} {r : Nat} (h : σ.heap[r]? = some o') :
    (pushSt σ o).heap[r]? = some o' := by
  rw [pushSt_get_lt (lt_size_of_get h)]; exact h

theorem frB_push (B : Nat) (σ : St) (o : Obj) : FrB C B σ (pushSt σ o) :=
  ⟨by rw [pushSt_size]; omega, fun r c h => pushSt_get_some h, fun r _ hr _ => pushSt_get_lt hr⟩

theorem setSt_get_ne {σ : St} {o : Obj} {r r' : Nat} (h : r ≠ r') : (setSt σ r o).heap[r']? = σ.heap[r']? := by
  simp only [setSt, Array.getElem?_setIfInBounds, h, if_false]

theorem setSt_get_eq {σ : St} {o o' : Obj} {r : Nat} (h : σ.heap[r]? = some o') : (setSt σ r o).heap[r]? = some o := by
  simp [setSt, Array.getElem?_setIfInBounds, lt_size_of_get h]

theorem setSt_size (σ : St) (r : Nat) (o : Obj) : (setSt σ r o).heap.size = σ.heap.size := by simp [setSt]

/-- Overwriting a cell with a cell keeps the closures. -/
theorem setSt_clos {σ : St} {r : Nat} {w w' : Value} {b b' : Bool} (h : σ.heap[r]? = some (.cell w b)) :
    KeepClos σ (setSt σ r (.cell w' b')) := by
  intro r' c hc
  by_cases he : r = r'
  · subst he; rw [h] at hc; cases hc
  · rw [setSt_get_ne he]; exact hc

theorem frB_setGlob {B : Nat} {σ : St} {i : Nat} (hi : i < C.n) {w w' : Value} {b b' : Bool}
    (h : σ.heap[C.cells i]? = some (.cell w b)) : FrB C B σ (setSt σ (C.cells i) (.cell w' b')) :=
  ⟨by rw [setSt_size]; omega, setSt_clos h, fun r _ _ hg => setSt_get_ne (fun e => hg i hi e.symm)⟩

theorem frB_setLoc {B : Nat} {σ : St} {r : Nat} (hr : B ≤ r) {w w' : Value} {b b' : Bool}
    (h : σ.heap[r]? = some (.cell w b)) : FrB C B σ (setSt σ r (.cell w' b')) :=
  ⟨by rw [setSt_size]; omega, setSt_clos h, fun r' hB _ _ => setSt_get_ne (by omega)⟩

theorem HInv.push {B : Nat} {σ : St} {g : Nat → V} {m : Nat} {lc : Nat → Nat} {l : Locals V}
    (h : HInv C B σ g m lc l) (o : Obj) : HInv C B (pushSt σ o) g m lc l :=
  ⟨h.glob.move (fun r c hc => pushSt_get_some hc) (fun i hi => by
      obtain ⟨w, b, h1, _⟩ := h.glob i hi
      exact pushSt_get_lt (lt_size_of_get h1)),
   h.loc.move (fun r c hc => pushSt_get_some hc) (fun i hi => by
      obtain ⟨v, w, b, _, h2, _⟩ := h.loc.loc i hi
      exact pushSt_get_lt (lt_size_of_get h2)),
   by rw [pushSt_size]; have := h.bsz; omega⟩

theorem HInv.setGlob (hy : Hyp C) {B : Nat} {σ : St} {g : Nat → V} {m : Nat} {lc : Nat → Nat} {l : Locals V}
    (h : HInv C B σ g m lc l) {i : Nat} (hi : i < C.n) {v : V} {w : Value} (hv : VR C σ v w) :
    HInv C B (setSt σ (C.cells i) (.cell w false)) (F0.upd g i v) m lc l := by
  obtain ⟨wi, bi, hci, _⟩ := h.glob i hi
  have hcl := setSt_clos (w' := w) (b' := false) hci
  refine ⟨?_, h.loc.move hcl (fun j hj => setSt_get_ne (fun e => h.loc.dis j i hj hi e.symm)), by
    rw [setSt_size]; exact h.bsz⟩
  intro j hj
  by_cases hji : j = i
  · subst hji
    refine ⟨w, false, setSt_get_eq hci, ?_⟩
    simp only [F0.upd, if_true]
    exact hv.mono hcl
  · obtain ⟨wj, bj, hcj, hvj⟩ := h.glob j hj
    refine ⟨wj, bj, ?_, ?_⟩
    · rw [setSt_get_ne (fun e => hji (hy.cinj j i hj hi e.symm))]; exact hcj
    · simp only [F0.upd, hji, if_false]
      exact hvj.mono hcl

theorem HInv.setLoc {B : Nat} {σ : St} {g : Nat → V} {m : Nat} {lc : Nat → Nat} {l : Locals V}
    (h : HInv C B σ g m lc l) {i : Nat} (hi : i < m) {v : V} {w : Value} (hv : VR C σ v w) :
    HInv C B (setSt σ (lc i) (.cell w false)) g m lc (updL l i v) := by
  obtain ⟨vi, wi, bi, _, hci, _⟩ := h.loc.loc i hi
  have hcl := setSt_clos (w' := w) (b' := false) hci
  refine ⟨h.glob.move hcl (fun j hj => setSt_get_ne (h.loc.dis i j hi hj)), ⟨?_, h.loc.base, h.loc.dis, h.loc.inj⟩,
    by rw [setSt_size]; exact h.bsz⟩
  intro j hj
  by_cases hji : j = i
  · subst hji
    exact ⟨v, w, false, by simp [updL], setSt_get_eq hci, hv.mono hcl⟩
  · obtain ⟨vj, wj, bj, h1, h2, h3⟩ := h.loc.loc j hj
    refine ⟨vj, wj, bj, by simp [updL, hji, h1], ?_, h3.mono hcl⟩
    rw [setSt_get_ne (fun e => hji (h.loc.inj j i hj hi e.symm))]; exact h2

/-- A new local: the next slot gets a fresh cell. -/
theorem HInv.defLoc {B : Nat} {σ : St} {g : Nat → V} {m : Nat} {lc : Nat → Nat} {l : Locals V}
    (h : HInv C B σ g m lc l) {v : V} {w : Value} (hv : VR C σ v w) :
    HInv C B (pushSt σ (.cell w false)) g (m + 1) (fun j => if j = m then σ.heap.size else lc j) (updL l m v) := by
  have hp := h.push (.cell w false)
  refine ⟨hp.glob, ⟨?_, ?_, ?_, ?_⟩, hp.bsz⟩
  · intro j hj
    by_cases hjm : j = m
    · subst hjm
      refine ⟨v, w, false, by simp [updL], ?_, hv.mono (fun r c hc => pushSt_get_some hc)⟩
      simp only [if_true]; exact pushSt_get_new σ _
    · obtain ⟨vj, wj, bj, h1, h2, h3⟩ := hp.loc.loc j (by omega)
      exact ⟨vj, wj, bj, by simp [updL, hjm, h1], by simp only [hjm, if_false]; exact h2, h3⟩
  · intro j hj
    by_cases hjm : j = m
    · simp only [hjm, if_true]; exact h.bsz
    · simp only [hjm, if_false]; exact h.loc.base j (by omega)
  · intro j i hj hi
    by_cases hjm : j = m
    · simp only [hjm, if_true]
      obtain ⟨wi, bi, hci, _⟩ := h.glob i hi
      have := lt_size_of_get hci
      omega
    · simp only [hjm, if_false]; exact h.loc.dis j i (by omega) hi
  · intro i j hi hj
    by_cases him : i = m <;> by_cases hjm : j = m
    · intro _; omega
    · simp only [him, hjm, if_true, if_false]
      obtain ⟨_, _, _, _, h2, _⟩ := h.loc.loc j (by omega)
      have := lt_size_of_get h2
      omega
    · simp only [him, hjm, if_true, if_false]
      obtain ⟨_, _, _, _, h2, _⟩ := h.loc.loc i (by omega)
      have := lt_size_of_get h2
      omega
    · simp only [him, hjm, if_false]; exact h.loc.inj i j (by omega) (by omega)

/-- After a call made from the activation. -/
theorem HInv.call {B : Nat} {σ σ' : St} {g g' : Nat → V} {m : Nat} {lc : Nat → Nat} {l : Locals V}
    (h : HInv C B σ g m lc l) (hg : GInv C σ' g') (hf : FrB C σ.heap.size σ σ') : HInv C B σ' g' m lc l :=
  ⟨hg, h.loc.call hf, Nat.le_trans h.bsz hf.size⟩

theorem HInv.noLocals {B : Nat} {σ : St} {g : Nat → V} (hg : GInv C σ g) (hB : B ≤ σ.heap.size)
    (lc : Nat → Nat) (l : Locals V) : HInv C B σ g 0 lc l :=
  ⟨hg, ⟨fun i hi => by omega, fun i hi => by omega, fun i j hi => by omega, fun i j hi => by omega⟩, hB⟩

end Tengo.Proofs.C01BridgeF3Spec

import Tengo.Proofs.C02CompileInd
/-!
C16 / `tail_pattern_sound`, layer 1: what the compiler model (`Tengo.Model.Compiler`) emits around a call
in tail position, BEFORE `optimizeFunc` (the instruction buffer of the function being compiled).

`TailE e ell f args`: the call `f(args)` (`ell` = spread last argument) is the LAST thing the code of the
expression `e` does: `e` is the call itself, `(e')`, `+e'` (unary plus emits nothing), `l && e'`, `l || e'`
or `c ? t : e'` with the call in tail position of `e'`.

* `tailE_tres`: the block emitted for such an `e` ends with `CALL args.length ell`;
* `ret_tail`: `return e` emits `… CALL n s; RETURN 1` with nothing in between;
* `exprstmt_tail`: `e` in statement position emits `… CALL n s; POP`.

Everything is stated on the ideal instruction list of the C02 layout invariant (`Inv s L F`, `Emitted`).
-/
set_option linter.unusedVariables false
set_option linter.unusedSimpArgs false
namespace Tengo.Proofs.C16Compile
open Tengo.Model Tengo.Model.Opcodes Tengo.Model.Compiler Tengo.Model.Optimizer Tengo.Model.Verifier
open Tengo.Model.Spec (Expr Stmt)
open Tengo.Proofs.C03 Tengo.Proofs.C03Reloc Tengo.Proofs.C02Compile

/-- The call `f(args)` (`ell`: the last argument is spread) is in tail position of the expression. -/
inductive TailE : Expr → Bool → Expr → List Expr → Prop
  | call (ell : Bool) (f : Expr) (args : List Expr) : TailE (.call ell f args) ell f args
  | paren {x : Expr} {ell : Bool} {f : Expr} {args : List Expr} :
      TailE x ell f args → TailE (.paren x) ell f args
  | plus {x : Expr} {ell : Bool} {f : Expr} {args : List Expr} :
      TailE x ell f args → TailE (.un "Add" x) ell f args
  | andor {tok : String} (l : Expr) {r : Expr} {ell : Bool} {f : Expr} {args : List Expr} :
      (tok == "LAnd" || tok == "LOr") = true → TailE r ell f args → TailE (.bin tok l r) ell f args
  | condF (c t : Expr) {x : Expr} {ell : Bool} {f : Expr} {args : List Expr} :
      TailE x ell f args → TailE (.cond c t x) ell f args

/-- Result of compiling an expression whose last instruction is `CALL n sp`: the instruction list of the
current function is extended by `B0 ++ [CALL n sp]`, which is an expression block (`EBlk`) at every entry
height. -/
def TRes (s s' : CState) (L : List Instr) (F : List Nat) (n sp : Nat) : Prop :=
  ∃ B0 F', Inv s' (L ++ B0 ++ [⟨totalSize L + totalSize B0, opCall, [n, sp]⟩]) F' ∧ Step s s' F F' ∧
    s'.loops = s.loops ∧
    ∀ a, EBlk (totalSize L) (totalSize L + totalSize B0 + 3) a (B0 ++ [⟨totalSize L + totalSize B0, opCall, [n, sp]⟩])

theorem last_pos {M : List Instr} {i : Instr} (h : Layout 0 (M ++ [i])) : i.pos = totalSize M := by
  have h2 := (layout_split h).2
  have := h2.1
  simpa using this

theorem call_sz (p n sp : Nat) : (Instr.mk p opCall [n, sp]).size = 3 := rfl

theorem TRes.of {s s' : CState} {L : List Instr} {F : List Nat} {n sp : Nat} {M' B0 : List Instr} {p hi : Nat}
    {F' : List Nat} (hinv : Inv s' M' F') (hM : M' = L ++ B0 ++ [⟨p, opCall, [n, sp]⟩])
    (hst : Step s s' F F') (hl : s'.loops = s.loops)
    (hb : ∀ a, EBlk (totalSize L) hi a (B0 ++ [⟨p, opCall, [n, sp]⟩])) : TRes s s' L F n sp := by
  subst hM
  have hp := last_pos hinv.em.lay
  simp only [totalSize_append] at hp
  subst hp
  refine ⟨B0, F', hinv, hst, hl, fun a => ?_⟩
  have := (hb a).hi_eq
  simp only [totalSize_append, totalSize_cons, totalSize_nil, call_sz] at this
  exact (hb a).cast rfl (by omega)

/-! ### the forms -/

theorem tres_call {d : Nat} (ell : Bool) (f : Expr) (args : List Expr) (s s' : CState)
    (L : List Instr) (F : List Nat) (h : compileExpr (d + 1) (.call ell f args) s = .ok ((), s'))
    (hinv : Inv s L F) (hsz : szE (d + 1) (.call ell f args) < 2 ^ 30) :
    TRes s s' L F args.length (if ell then 1 else 0) := by
  have ih := all_spec d
  rw [compileExpr] at h
  rw [szE_call] at hsz
  have hne : (ell && args.isEmpty) = false := by
    cases hb : (ell && args.isEmpty) with
    | false => rfl
    | true => rw [hb] at hsz; simp at hsz
  rw [hne] at hsz
  simp only [Bool.false_eq_true, if_false] at hsz
  obtain ⟨hc, h⟩ := guard_ok h
  obtain ⟨_, s1, h1, h⟩ := bind_ok h
  obtain ⟨_, s2, h2, h⟩ := bind_ok h
  have e3 := demit_ok h; simp only at e3; subst e3
  obtain ⟨B₁, F₁, o1, hb1⟩ := (ih.e f s s1 L F h1 hinv (by omega)).toQ.bind
    (fun L₁ F₁ hinv1 => ih.es args s1 s2 L₁ F₁ h2 hinv1 (by omega))
  have hinv' := o1.inv.emit (op := opCall) (args := [args.length, if ell then 1 else 0]) ⟨[1, 1], rfl, rfl⟩ (by
    unfold opReq
    have hop : opClass (Instr.mk (totalSize (L ++ B₁)) opCall [args.length, if ell then 1 else 0]).op = .call := rfl
    simp only [hop, arg0, arg1, List.headD_cons, List.drop_one, List.tail_cons]
    refine ⟨by omega, by split <;> omega, fun h1 => ?_⟩
    cases ell with
    | false => simp at h1
    | true =>
      simp only [Bool.true_and] at hne
      cases args with
      | nil => simp at hne
      | cons a as => simp)
  rw [totalSize_append] at hinv'
  have hb := fun a => EBlk.ofSeq (i := ⟨totalSize L + totalSize B₁, opCall, [args.length, if ell then 1 else 0]⟩)
    (pops := args.length + 1) (hb1 a) rfl rfl (by omega) (show opCall ≠ opPop by decide)
  exact TRes.of hinv' rfl (o1.step.trans (Step.of_eq F₁ rfl rfl rfl)) o1.loops hb

theorem tres_plus {d : Nat} (x : Expr) {n sp : Nat}
    (ihx : ∀ s s' L F, compileExpr d x s = .ok ((), s') → Inv s L F → szE d x < 2 ^ 30 → TRes s s' L F n sp)
    (s s' : CState) (L : List Instr) (F : List Nat)
    (h : compileExpr (d + 1) (.un "Add" x) s = .ok ((), s')) (hinv : Inv s L F)
    (hsz : szE (d + 1) (.un "Add" x) < 2 ^ 30) : TRes s s' L F n sp := by
  rw [compileExpr] at h
  have hszd : szE (d + 1) (.un "Add" x) = szE d x + 1 := by rw [szE]
  rw [hszd] at hsz
  obtain ⟨_, s1, h1, h⟩ := bind_ok h
  have e1 : ("Add" == "Not") = false := by decide
  have e2 : ("Add" == "Sub") = false := by decide
  have e3 : ("Add" == "Xor") = false := by decide
  have e4 : ("Add" == "Add") = true := by decide
  simp only [e1, e2, e3, e4, Bool.false_eq_true, if_false, if_true] at h
  have e : s' = s1 := (Prod.mk.inj (pure_ok h)).2
  subst e
  exact ihx s s' L F h1 hinv (by omega)

theorem tres_andor {d : Nat} (op : Nat) (hop : op = opAndJump ∨ op = opOrJump) (l r : Expr) {n sp : Nat}
    (ihr : ∀ s s' L F, compileExpr d r s = .ok ((), s') → Inv s L F → szE d r < 2 ^ 30 → TRes s s' L F n sp)
    (s s' : CState) (L : List Instr) (F : List Nat)
    (h : (do compileExpr d l; let jumpPos ← emit op [0]; compileExpr d r; changeOperand jumpPos (← curPos)) s
      = .ok ((), s'))
    (hinv : Inv s L F) (hsz : szE d l + szE d r + 5 < 2 ^ 30) : TRes s s' L F n sp := by
  have hj : isJump op = true := by rcases hop with e | e <;> subst e <;> rfl
  obtain ⟨_, s1, h1, h⟩ := bind_ok h
  obtain ⟨jp, s2, h2, h⟩ := bind_ok h
  obtain ⟨_, s3, h3, h⟩ := bind_ok h
  obtain ⟨p, s4, h4, h⟩ := bind_ok h
  obtain ⟨B₁, F₁, o1, hb1⟩ := (all_spec d).e l s s1 L F h1 hinv (by omega)
  have e2 := emit_ok h2
  have ejp : jp = s1.insts.size := (Prod.mk.inj e2).1
  have es2 : s2 = emitS op [0] s1 := (Prod.mk.inj e2).2
  subst es2
  have inv2 := o1.inv.emit (op := op) (args := [0]) (jump_shape hj) (opReq_jump hj)
  have hjp : jp = totalSize L + totalSize B₁ := by rw [ejp, o1.inv.em.size, totalSize_append]
  subst hjp
  rw [totalSize_append] at inv2
  obtain ⟨B0, F₂, hinv3, hst3, hl3, hb2⟩ := ihr _ s3 _ F₁ h3 inv2 (by omega)
  have e4 := curPos_ok h4
  have ep : p = s3.insts.size := (Prod.mk.inj e4).1
  have es4 : s4 = s3 := (Prod.mk.inj e4).2
  subst es4
  subst ep
  have e5 := changeOperand_ok h
  have es' : s' = chgS (totalSize L + totalSize B₁) s4.insts.size s4 := (Prod.mk.inj e5).2
  subst es'
  have hL' : totalSize (L ++ B₁ ++ [⟨totalSize L + totalSize B₁, op, [0]⟩]) = totalSize L + totalSize B₁ + 5 := by
    simp only [totalSize_append, totalSize_cons, totalSize_nil, jump_size hj]
  rw [hL'] at hinv3 hb2
  have hsz4 : s4.insts.size = totalSize L + totalSize B₁ + 5 + totalSize B0 + 3 := by
    rw [hinv3.em.size]
    simp only [totalSize_append, totalSize_cons, totalSize_nil, jump_size hj, call_sz]
  have hinv3' : Inv s4 ((L ++ B₁) ++ ⟨totalSize L + totalSize B₁, op, [0]⟩ :: (B0 ++
      [⟨totalSize L + totalSize B₁ + 5 + totalSize B0, opCall, [n, sp]⟩])) F₂ := by
    simpa using hinv3
  have hinv' := hinv3'.patch (t := s4.insts.size) hj
  have hf := chgS_frame (totalSize L + totalSize B₁) s4.insts.size s4
  rw [hsz4] at hinv' hf ⊢
  refine TRes.of (B0 := B₁ ++ ⟨totalSize L + totalSize B₁, op, [totalSize L + totalSize B₁ + 5 + totalSize B0 + 3]⟩ :: B0)
    (hi := totalSize L + totalSize B₁ + 5 + totalSize B0 + 3) (p := totalSize L + totalSize B₁ + 5 + totalSize B0) hinv' (by simp) ?_ ?_ (fun a => ?_)
  · exact (o1.step.trans ((Step.of_eq (s := s1) (s' := emitS op [0] s1) F₁ rfl rfl rfl).trans hst3)).trans
      (Step.of_eq F₂ hf.2.2.1 hf.2.1 hf.1)
  · rw [hf.2.2.2, hl3]; exact o1.loops
  · have := EBlk.andor (hb1 a) (hb2 a) hop
    simpa using this

theorem tres_cond {d : Nat} (c t x : Expr) {n sp : Nat}
    (ihx : ∀ s s' L F, compileExpr d x s = .ok ((), s') → Inv s L F → szE d x < 2 ^ 30 → TRes s s' L F n sp)
    (s s' : CState) (L : List Instr) (F : List Nat)
    (h : compileExpr (d + 1) (.cond c t x) s = .ok ((), s')) (hinv : Inv s L F)
    (hsz : szE (d + 1) (.cond c t x) < 2 ^ 30) : TRes s s' L F n sp := by
  rw [compileExpr] at h
  have hszd : szE (d + 1) (.cond c t x) = szE d c + szE d t + szE d x + 10 := by rw [szE]
  rw [hszd] at hsz
  have hjf : isJump opJumpFalsy = true := rfl
  have hjj : isJump opJump = true := rfl
  obtain ⟨_, s1, h1, h⟩ := bind_ok h
  obtain ⟨jp1, s2, h2, h⟩ := bind_ok h
  obtain ⟨_, s3, h3, h⟩ := bind_ok h
  obtain ⟨jp2, s4, h4, h⟩ := bind_ok h
  obtain ⟨p1, s4', h5, h⟩ := bind_ok h
  obtain ⟨_, s5, h6, h⟩ := bind_ok h
  obtain ⟨_, s6, h7, h⟩ := bind_ok h
  obtain ⟨p2, s6', h8, h⟩ := bind_ok h
  -- condition
  obtain ⟨Bc, F₁, o1, hb1⟩ := (all_spec d).e c s s1 L F h1 hinv (by omega)
  have e2 := emit_ok h2
  have ejp1 : jp1 = s1.insts.size := (Prod.mk.inj e2).1
  have es2 : s2 = emitS opJumpFalsy [0] s1 := (Prod.mk.inj e2).2
  subst es2
  have inv2 := o1.inv.emit (op := opJumpFalsy) (args := [0]) (jump_shape hjf) (opReq_jump hjf)
  have hjp1 : jp1 = totalSize L + totalSize Bc := by rw [ejp1, o1.inv.em.size, totalSize_append]
  subst hjp1
  rw [totalSize_append] at inv2
  -- then branch
  obtain ⟨Bt, F₂, o2, hb2⟩ := (all_spec d).e t _ s3 _ F₁ h3 inv2 (by omega)
  have hL3 : totalSize (L ++ Bc ++ [⟨totalSize L + totalSize Bc, opJumpFalsy, [0]⟩]) =
      totalSize L + totalSize Bc + 5 := by
    simp only [totalSize_append, totalSize_cons, totalSize_nil, jump_size hjf]
  rw [hL3] at hb2
  have e4 := emit_ok h4
  have ejp2 : jp2 = s3.insts.size := (Prod.mk.inj e4).1
  have es4 : s4 = emitS opJump [0] s3 := (Prod.mk.inj e4).2
  subst es4
  have inv4 := o2.inv.emit (op := opJump) (args := [0]) (jump_shape hjj) (opReq_jump hjj)
  have hL4 : totalSize (L ++ Bc ++ [⟨totalSize L + totalSize Bc, opJumpFalsy, [0]⟩] ++ Bt) =
      totalSize L + totalSize Bc + 5 + totalSize Bt := by
    simp only [totalSize_append, totalSize_cons, totalSize_nil, jump_size hjf]
  rw [hL4] at inv4
  have hjp2 : jp2 = totalSize L + totalSize Bc + 5 + totalSize Bt := by rw [ejp2, o2.inv.em.size, hL4]
  subst hjp2
  -- first patch
  have e5 := curPos_ok h5
  have ep1 : p1 = (emitS opJump [0] s3).insts.size := (Prod.mk.inj e5).1
  have es4' : s4' = emitS opJump [0] s3 := (Prod.mk.inj e5).2
  subst es4'
  have hp1 : p1 = totalSize L + totalSize Bc + 5 + totalSize Bt + 5 := by
    rw [ep1, inv4.em.size]
    simp only [totalSize_append, totalSize_cons, totalSize_nil, jump_size hjf, jump_size hjj]
  clear ep1
  subst hp1
  have e6 := changeOperand_ok h6
  have es5 : s5 = chgS (totalSize L + totalSize Bc) (totalSize L + totalSize Bc + 5 + totalSize Bt + 5)
      (emitS opJump [0] s3) := (Prod.mk.inj e6).2
  subst es5
  have hinv4' : Inv (emitS opJump [0] s3) ((L ++ Bc) ++ ⟨totalSize L + totalSize Bc, opJumpFalsy, [0]⟩ ::
      (Bt ++ [⟨totalSize L + totalSize Bc + 5 + totalSize Bt, opJump, [0]⟩])) F₂ := by
    have := inv4; simpa using this
  have hinv5 := hinv4'.patch (t := totalSize L + totalSize Bc + 5 + totalSize Bt + 5) hjf
  -- else branch
  obtain ⟨B0, F₃, hinv6, hst6, hl6, hb3⟩ := ihx _ s6 _ F₂ h7 hinv5 (by omega)
  have hL6 : totalSize (L ++ Bc ++ ⟨totalSize L + totalSize Bc, opJumpFalsy,
      [totalSize L + totalSize Bc + 5 + totalSize Bt + 5]⟩ ::
      (Bt ++ [⟨totalSize L + totalSize Bc + 5 + totalSize Bt, opJump, [0]⟩])) =
      totalSize L + totalSize Bc + 5 + totalSize Bt + 5 := by
    simp only [totalSize_append, totalSize_cons, totalSize_nil, jump_size hjf, jump_size hjj]
    omega
  rw [hL6] at hinv6 hb3
  have e8 := curPos_ok h8
  have ep2 : p2 = s6.insts.size := (Prod.mk.inj e8).1
  have es6' : s6' = s6 := (Prod.mk.inj e8).2
  subst es6'
  subst ep2
  have e9 := changeOperand_ok h
  have es' : s' = chgS (totalSize L + totalSize Bc + 5 + totalSize Bt) s6'.insts.size s6' := (Prod.mk.inj e9).2
  subst es'
  have hsz6 : s6'.insts.size = totalSize L + totalSize Bc + 5 + totalSize Bt + 5 + totalSize B0 + 3 := by
    rw [hinv6.em.size]
    simp only [totalSize_append, totalSize_cons, totalSize_nil, jump_size hjf, jump_size hjj, call_sz]
    omega
  have hinv6' : Inv s6' ((L ++ Bc ++ ⟨totalSize L + totalSize Bc, opJumpFalsy,
        [totalSize L + totalSize Bc + 5 + totalSize Bt + 5]⟩ :: Bt) ++
      ⟨totalSize L + totalSize Bc + 5 + totalSize Bt, opJump, [0]⟩ :: (B0 ++
        [⟨totalSize L + totalSize Bc + 5 + totalSize Bt + 5 + totalSize B0, opCall, [n, sp]⟩])) F₃ := by
    have := hinv6; simpa using this
  have hinv7 := hinv6'.patch (t := s6'.insts.size) hjj
  have hf5 := chgS_frame (totalSize L + totalSize Bc) (totalSize L + totalSize Bc + 5 + totalSize Bt + 5)
    (emitS opJump [0] s3)
  have hf7 := chgS_frame (totalSize L + totalSize Bc + 5 + totalSize Bt) s6'.insts.size s6'
  rw [hsz6] at hinv7 hf7 ⊢
  refine TRes.of (B0 := Bc ++ ⟨totalSize L + totalSize Bc, opJumpFalsy,
      [totalSize L + totalSize Bc + 5 + totalSize Bt + 5]⟩ ::
      (Bt ++ ⟨totalSize L + totalSize Bc + 5 + totalSize Bt, opJump,
        [totalSize L + totalSize Bc + 5 + totalSize Bt + 5 + totalSize B0 + 3]⟩ :: B0))
    (hi := totalSize L + totalSize Bc + 5 + totalSize Bt + 5 + totalSize B0 + 3)
    (p := totalSize L + totalSize Bc + 5 + totalSize Bt + 5 + totalSize B0) hinv7 (by simp) ?_ ?_ (fun a => ?_)
  · have st2 : Step s1 (emitS opJumpFalsy [0] s1) F₁ F₁ := Step.of_eq F₁ rfl rfl rfl
    have st4 : Step s3 (emitS opJump [0] s3) F₂ F₂ := Step.of_eq F₂ rfl rfl rfl
    have st5 : Step (emitS opJump [0] s3) (chgS (totalSize L + totalSize Bc)
        (totalSize L + totalSize Bc + 5 + totalSize Bt + 5) (emitS opJump [0] s3)) F₂ F₂ :=
      Step.of_eq F₂ hf5.2.2.1 hf5.2.1 hf5.1
    have st7 : Step s6' (chgS (totalSize L + totalSize Bc + 5 + totalSize Bt)
        (totalSize L + totalSize Bc + 5 + totalSize Bt + 5 + totalSize B0 + 3) s6') F₃ F₃ :=
      Step.of_eq F₃ hf7.2.2.1 hf7.2.1 hf7.1
    exact (((((o1.step.trans st2).trans o2.step).trans st4).trans st5).trans hst6).trans st7
  · rw [hf7.2.2.2, hl6, hf5.2.2.2]
    show s3.loops = s.loops
    rw [o2.loops]; exact o1.loops
  · have := EBlk.cond (hb1 a) (hb2 a) (hb3 a)
    simpa using this

/-- **The code of an expression with a call in tail position ends with that CALL** (every depth budget,
every compiler state satisfying the layout invariant). -/
theorem tailE_tres {e : Expr} {ell : Bool} {f : Expr} {args : List Expr} (ht : TailE e ell f args) :
    ∀ (d : Nat) (s s' : CState) (L : List Instr) (F : List Nat), compileExpr d e s = .ok ((), s') →
      Inv s L F → szE d e < 2 ^ 30 → TRes s s' L F args.length (if ell then 1 else 0) := by
  induction ht with
  | call ell f args =>
    intro d s s' L F h hinv hsz
    cases d with
    | zero => rw [compileExpr] at h; exact (unsupported_ok h).elim
    | succ d => exact tres_call ell f args s s' L F h hinv hsz
  | @paren x ell f args _ ih =>
    intro d s s' L F h hinv hsz
    cases d with
    | zero => rw [compileExpr] at h; exact (unsupported_ok h).elim
    | succ d =>
      rw [compileExpr] at h
      have hszd : szE (d + 1) (.paren x) = szE d x := by rw [szE]
      rw [hszd] at hsz
      exact ih d s s' L F h hinv hsz
  | @plus x ell f args _ ih =>
    intro d s s' L F h hinv hsz
    cases d with
    | zero => rw [compileExpr] at h; exact (unsupported_ok h).elim
    | succ d => exact tres_plus x (ih d) s s' L F h hinv hsz
  | @andor tok l r ell f args htok _ ih =>
    intro d s s' L F h hinv hsz
    cases d with
    | zero => rw [compileExpr] at h; exact (unsupported_ok h).elim
    | succ d =>
      rw [compileExpr] at h
      have hszd : szE (d + 1) (.bin tok l r) = szE d l + szE d r + 5 := by rw [szE]
      rw [hszd] at hsz
      rw [if_pos htok] at h
      refine tres_andor (if tok == "LAnd" then opAndJump else opOrJump) ?_ l r (ih d) s s' L F h hinv hsz
      split
      · exact Or.inl rfl
      · exact Or.inr rfl
  | @condF c t x ell f args _ ih =>
    intro d s s' L F h hinv hsz
    cases d with
    | zero => rw [compileExpr] at h; exact (unsupported_ok h).elim
    | succ d => exact tres_cond c t x (ih d) s s' L F h hinv hsz

/-! ### statements -/

/-- **`return e`, call in tail position of `e`: `… CALL n s; RETURN 1`**, nothing between the two. -/
theorem ret_tail {d : Nat} {e : Expr} {ell : Bool} {f : Expr} {args : List Expr} (ht : TailE e ell f args)
    (s s' : CState) (L : List Instr) (F : List Nat)
    (h : compileStmt (d + 1) (.ret (some e)) s = .ok ((), s')) (hinv : Inv s L F)
    (hsz : szS (d + 1) (.ret (some e)) < 2 ^ 30) :
    ∃ B0 F', Inv s' (L ++ B0 ++ [⟨totalSize L + totalSize B0, opCall, [args.length, if ell then 1 else 0]⟩,
        ⟨totalSize L + totalSize B0 + 3, opReturn, [1]⟩]) F' ∧ Step s s' F F' := by
  unfold compileStmt at h
  obtain ⟨st, s0, h0, h⟩ := bind_ok h
  have e0 := get_ok h0
  have est : st = s := (Prod.mk.inj e0).1
  have es0 : s0 = s := (Prod.mk.inj e0).2
  rw [est, es0] at h
  clear e0 est es0 h0
  obtain ⟨hg, h⟩ := guard_ok h
  have hg' : globalCtx s.tables = false := by simpa using hg
  have hszd : szS (d + 1) (.ret (some e)) = szE d e + 2 := by simp only [szS]
  rw [hszd] at hsz
  simp only at h
  obtain ⟨_, s1, h1, h⟩ := bind_ok h
  have e3 := demit_ok h; simp only at e3; subst e3
  obtain ⟨B0, F', hinv1, hst1, hl1, hb1⟩ := tailE_tres ht d s s1 L F h1 hinv (by omega)
  have hg1 : globalCtx s1.tables = false := by rw [← hst1.tabs.globalCtx]; exact hg'
  have hinv2 := hinv1.emit (op := opReturn) (args := [1]) ⟨[1], rfl, rfl⟩ (opReq_ret hg1 (by omega))
  refine ⟨B0, F', ?_, hst1.trans (Step.of_eq F' rfl rfl rfl)⟩
  have hts : totalSize (L ++ B0 ++ [⟨totalSize L + totalSize B0, opCall, [args.length, if ell then 1 else 0]⟩]) =
      totalSize L + totalSize B0 + 3 := by
    simp only [totalSize_append, totalSize_cons, totalSize_nil]
    have : (Instr.mk (totalSize L + totalSize B0) opCall [args.length, if ell then 1 else 0]).size = 3 :=
      shape_size (ws := [1, 1]) rfl
    omega
  rw [hts] at hinv2
  simpa using hinv2

/-- **`e` in statement position, call in tail position of `e`: `… CALL n s; POP`.** -/
theorem exprstmt_tail {d : Nat} {e : Expr} {ell : Bool} {f : Expr} {args : List Expr} (ht : TailE e ell f args)
    (s s' : CState) (L : List Instr) (F : List Nat)
    (h : compileStmt (d + 1) (.expr e) s = .ok ((), s')) (hinv : Inv s L F)
    (hsz : szS (d + 1) (.expr e) < 2 ^ 30) :
    ∃ B0 F', Inv s' (L ++ B0 ++ [⟨totalSize L + totalSize B0, opCall, [args.length, if ell then 1 else 0]⟩,
        ⟨totalSize L + totalSize B0 + 3, opPop, []⟩]) F' ∧ Step s s' F F' := by
  rw [compileStmt] at h
  have hszd : szS (d + 1) (.expr e) = szE d e + 1 := by rw [szS]
  rw [hszd] at hsz
  obtain ⟨_, s1, h1, h⟩ := bind_ok h
  have e3 := demit_ok h; simp only at e3; subst e3
  obtain ⟨B0, F', hinv1, hst1, hl1, hb1⟩ := tailE_tres ht d s s1 L F h1 hinv (by omega)
  have hinv2 := hinv1.emit (op := opPop) (args := []) ⟨[], rfl, rfl⟩ (opReq_other rfl)
  refine ⟨B0, F', ?_, hst1.trans (Step.of_eq F' rfl rfl rfl)⟩
  have hts : totalSize (L ++ B0 ++ [⟨totalSize L + totalSize B0, opCall, [args.length, if ell then 1 else 0]⟩]) =
      totalSize L + totalSize B0 + 3 := by
    simp only [totalSize_append, totalSize_cons, totalSize_nil]
    have : (Instr.mk (totalSize L + totalSize B0) opCall [args.length, if ell then 1 else 0]).size = 3 :=
      shape_size (ws := [1, 1]) rfl
    omega
  rw [hts] at hinv2
  simpa using hinv2

end Tengo.Proofs.C16Compile

import Tengo.Proofs.C05AcyclicMonad
/-!
C05 `no_fatal_acyclic`, layer 3: the operations of the VM model that never call `equalsV`/`toStringV`/`copyV` never
answer `Err.fuel`, in any state (`NFX (exFoo …)`), by a syntactic traversal (`nf`).
-/
set_option linter.unusedVariables false
namespace Tengo.Proofs.C05Acyclic
open Tengo.Model.Spec Tengo.Model.VM

macro_rules | `(tactic| nf_prim) => `(tactic| first
  | with_reducible exact nfm_getObj _ | with_reducible exact nfm_setObj _ _ | with_reducible exact nfm_alloc _ | with_reducible exact nfm_unsupported _ | with_reducible exact nfm_rtErr _
  | with_reducible exact nfm_arrElems _ | with_reducible exact nfm_mapEntries _)

theorem nfm_newArray (vs : List Value) : NFM (newArray vs) := by unfold newArray; nf
theorem nfm_newMap (kvs : List (Bytes × Value)) : NFM (newMap kvs) := by unfold newMap; nf
theorem nfm_noteWrite (r : Nat) : NFM (noteWrite r) := by unfold noteWrite; nf
theorem nfm_noteAppend (a b : Nat) : NFM (noteAppend a b) := by unfold noteAppend; nf
theorem nfm_isFalsy (v : Value) : NFM (isFalsy v) := by unfold isFalsy; nf
theorem nfm_invalidOp {α} (l : Value) (t : String) (r : Value) : NFM (invalidOp l t r : M α) := nfm_rtErr _

macro_rules | `(tactic| nf_prim) => `(tactic| first
  | with_reducible exact nfm_newArray _ | with_reducible exact nfm_newMap _ | with_reducible exact nfm_noteWrite _ | with_reducible exact nfm_noteAppend _ _ | with_reducible exact nfm_isFalsy _
  | with_reducible exact nfm_invalidOp _ _ _)

theorem nfe_setSlot (r : Regs) (i : Nat) (v : Value) : NFE (setSlot r i v) := by unfold setSlot; nf
macro_rules | `(tactic| nf_prim) => `(tactic| with_reducible exact nfe_setSlot _ _ _)
theorem nfe_push (r : Regs) (v : Value) : NFE (push r v) := by unfold push; nf
macro_rules | `(tactic| nf_prim) => `(tactic| with_reducible exact nfe_push _ _)
theorem nfe_pushAll : ∀ (vs : List Value) (r : Regs), NFE (pushAll r vs)
  | [], r => by unfold pushAll; nf
  | v :: vs, r => by unfold pushAll; exact nfe_bind (nfe_push _ _) (fun r' => nfe_pushAll vs r')
theorem nfe_deref (v : Value) : NFE (deref v) := by unfold deref; nf
theorem nfe_makeIter (v : Value) : NFE (makeIter v) := by unfold makeIter; nf
theorem nfe_iterNext (r : Nat) : NFE (iterNext r) := by unfold iterNext; nf
theorem nfe_iterOut {α} : NFE (iterOut : VMM α) := nfe_goPanic _
macro_rules | `(tactic| nf_prim) => `(tactic| first
  | with_reducible exact nfe_pushAll _ _ | with_reducible exact nfe_deref _ | with_reducible exact nfe_makeIter _ | with_reducible exact nfe_iterNext _ | with_reducible exact nfe_iterOut)
theorem nfe_iterGet (r : Nat) (k : Bool) : NFE (iterGet r k) := by unfold iterGet; nf
macro_rules | `(tactic| nf_prim) => `(tactic| with_reducible exact nfe_iterGet _ _)


theorem nfe_sliceBounds (lo hi : Value) (n : Nat) : NFE (sliceBounds lo hi n) := by unfold sliceBounds; nf
macro_rules | `(tactic| nf_prim) => `(tactic| with_reducible exact nfe_sliceBounds _ _ _)
theorem nfe_sliceV (l lo hi : Value) : NFE (sliceV l lo hi) := by unfold sliceV; nf
macro_rules | `(tactic| nf_prim) => `(tactic| with_reducible exact nfe_sliceV _ _ _)

/-! ### the opcodes without native recursion -/

theorem nfx_exConstant (code : Code) (fr : Tengo.Model.VM.Frame) (a0 a1 op : Nat) (r : Regs) : NFX (exConstant code fr a0 a1 op r) := by
  unfold exConstant; nf
theorem nfx_exNull (code : Code) (fr : Tengo.Model.VM.Frame) (a0 a1 op : Nat) (r : Regs) : NFX (exNull code fr a0 a1 op r) := by
  unfold exNull; nf
theorem nfx_exTrue (code : Code) (fr : Tengo.Model.VM.Frame) (a0 a1 op : Nat) (r : Regs) : NFX (exTrue code fr a0 a1 op r) := by
  unfold exTrue; nf
theorem nfx_exFalse (code : Code) (fr : Tengo.Model.VM.Frame) (a0 a1 op : Nat) (r : Regs) : NFX (exFalse code fr a0 a1 op r) := by
  unfold exFalse; nf
theorem nfx_exPop (code : Code) (fr : Tengo.Model.VM.Frame) (a0 a1 op : Nat) (r : Regs) : NFX (exPop code fr a0 a1 op r) := by
  unfold exPop; nf
theorem nfx_exLNot (code : Code) (fr : Tengo.Model.VM.Frame) (a0 a1 op : Nat) (r : Regs) : NFX (exLNot code fr a0 a1 op r) := by
  unfold exLNot; nf
theorem nfx_exBComplement (code : Code) (fr : Tengo.Model.VM.Frame) (a0 a1 op : Nat) (r : Regs) : NFX (exBComplement code fr a0 a1 op r) := by
  unfold exBComplement; nf
theorem nfx_exMinus (code : Code) (fr : Tengo.Model.VM.Frame) (a0 a1 op : Nat) (r : Regs) : NFX (exMinus code fr a0 a1 op r) := by
  unfold exMinus; nf
theorem nfx_exJumpFalsy (code : Code) (fr : Tengo.Model.VM.Frame) (a0 a1 op : Nat) (r : Regs) : NFX (exJumpFalsy code fr a0 a1 op r) := by
  unfold exJumpFalsy; nf
theorem nfx_exAndJump (code : Code) (fr : Tengo.Model.VM.Frame) (a0 a1 op : Nat) (r : Regs) : NFX (exAndJump code fr a0 a1 op r) := by
  unfold exAndJump; nf
theorem nfx_exOrJump (code : Code) (fr : Tengo.Model.VM.Frame) (a0 a1 op : Nat) (r : Regs) : NFX (exOrJump code fr a0 a1 op r) := by
  unfold exOrJump; nf
theorem nfx_exJump (code : Code) (fr : Tengo.Model.VM.Frame) (a0 a1 op : Nat) (r : Regs) : NFX (exJump code fr a0 a1 op r) := by
  unfold exJump; nf
theorem nfx_exSetGlobal (code : Code) (fr : Tengo.Model.VM.Frame) (a0 a1 op : Nat) (r : Regs) : NFX (exSetGlobal code fr a0 a1 op r) := by
  unfold exSetGlobal; nf
theorem nfx_exGetGlobal (code : Code) (fr : Tengo.Model.VM.Frame) (a0 a1 op : Nat) (r : Regs) : NFX (exGetGlobal code fr a0 a1 op r) := by
  unfold exGetGlobal; nf
theorem nfx_exArray (code : Code) (fr : Tengo.Model.VM.Frame) (a0 a1 op : Nat) (r : Regs) : NFX (exArray code fr a0 a1 op r) := by
  unfold exArray; nf
theorem nfx_exMap (code : Code) (fr : Tengo.Model.VM.Frame) (a0 a1 op : Nat) (r : Regs) : NFX (exMap code fr a0 a1 op r) := by
  unfold exMap; nf
theorem nfx_exError (code : Code) (fr : Tengo.Model.VM.Frame) (a0 a1 op : Nat) (r : Regs) : NFX (exError code fr a0 a1 op r) := by
  unfold exError; nf
theorem nfx_exImmutable (code : Code) (fr : Tengo.Model.VM.Frame) (a0 a1 op : Nat) (r : Regs) : NFX (exImmutable code fr a0 a1 op r) := by
  unfold exImmutable; nf
theorem nfx_exSliceIndex (code : Code) (fr : Tengo.Model.VM.Frame) (a0 a1 op : Nat) (r : Regs) : NFX (exSliceIndex code fr a0 a1 op r) := by
  unfold exSliceIndex; nf
theorem nfx_exDefineLocal (code : Code) (fr : Tengo.Model.VM.Frame) (a0 a1 op : Nat) (r : Regs) : NFX (exDefineLocal code fr a0 a1 op r) := by
  unfold exDefineLocal; nf
theorem nfx_exSetLocal (code : Code) (fr : Tengo.Model.VM.Frame) (a0 a1 op : Nat) (r : Regs) : NFX (exSetLocal code fr a0 a1 op r) := by
  unfold exSetLocal; nf
theorem nfx_exGetLocal (code : Code) (fr : Tengo.Model.VM.Frame) (a0 a1 op : Nat) (r : Regs) : NFX (exGetLocal code fr a0 a1 op r) := by
  unfold exGetLocal; nf
theorem nfx_exGetBuiltin (code : Code) (fr : Tengo.Model.VM.Frame) (a0 a1 op : Nat) (r : Regs) : NFX (exGetBuiltin code fr a0 a1 op r) := by
  unfold exGetBuiltin; nf
theorem nfx_exClosure (code : Code) (fr : Tengo.Model.VM.Frame) (a0 a1 op : Nat) (r : Regs) : NFX (exClosure code fr a0 a1 op r) := by
  unfold exClosure; nf
theorem nfx_exGetFreePtr (code : Code) (fr : Tengo.Model.VM.Frame) (a0 a1 op : Nat) (r : Regs) : NFX (exGetFreePtr code fr a0 a1 op r) := by
  unfold exGetFreePtr; nf
theorem nfx_exGetFree (code : Code) (fr : Tengo.Model.VM.Frame) (a0 a1 op : Nat) (r : Regs) : NFX (exGetFree code fr a0 a1 op r) := by
  unfold exGetFree; nf
theorem nfx_exSetFree (code : Code) (fr : Tengo.Model.VM.Frame) (a0 a1 op : Nat) (r : Regs) : NFX (exSetFree code fr a0 a1 op r) := by
  unfold exSetFree; nf
theorem nfx_exGetLocalPtr (code : Code) (fr : Tengo.Model.VM.Frame) (a0 a1 op : Nat) (r : Regs) : NFX (exGetLocalPtr code fr a0 a1 op r) := by
  unfold exGetLocalPtr; nf
theorem nfx_exIteratorInit (code : Code) (fr : Tengo.Model.VM.Frame) (a0 a1 op : Nat) (r : Regs) : NFX (exIteratorInit code fr a0 a1 op r) := by
  unfold exIteratorInit; nf
theorem nfx_exIteratorNext (code : Code) (fr : Tengo.Model.VM.Frame) (a0 a1 op : Nat) (r : Regs) : NFX (exIteratorNext code fr a0 a1 op r) := by
  unfold exIteratorNext; nf
theorem nfx_exIteratorKey (code : Code) (fr : Tengo.Model.VM.Frame) (a0 a1 op : Nat) (r : Regs) : NFX (exIteratorKey code fr a0 a1 op r) := by
  unfold exIteratorKey; nf

end Tengo.Proofs.C05Acyclic

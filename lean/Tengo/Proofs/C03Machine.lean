import Tengo.Proofs.C03Retarget
/-!
C03 helper lemmas, part 3: a small-step machine that is parametric in its data semantics, and the
lock-step simulation between a function body and the output of `optInstrs`.
-/
namespace Tengo.Proofs.C03
open Tengo.Model Tengo.Model.Opcodes Tengo.Model.Optimizer

/-- What one instruction does to the data state: stop with a result, or continue with a new state,
saying whether a (conditional) jump is taken. `taken` is ignored for non-jump opcodes. -/
inductive Act (σ ρ : Type) where
  | halt (r : ρ)
  | cont (s : σ) (taken : Bool)

/-- Data semantics. `step` sees the opcode, the non-jump operands and the state — never a position.
`ret` is the result of RETURN (RETURN always halts the function). -/
structure Machine (σ ρ : Type) where
  step : Nat → List Nat → σ → Act σ ρ
  ret  : List Nat → σ → ρ

inductive Cfg (σ ρ : Type) where
  | running (pos : Nat) (s : σ)
  | halted (r : ρ)
  | stuck                          -- no instruction at `pos`, or a jump without operand

/-- The instruction that starts at byte offset `p`. -/
def fetch (prog : List Instr) (p : Nat) : Option Instr := prog.find? (fun i => i.pos == p)

/-- Operands the data semantics may read: all of them, except the target of a jump opcode. -/
def dataArgs (i : Instr) : List Nat := if isJump i.op then i.args.drop 1 else i.args

/-- One step at `(p, s)`. `implicitEnd = some e`: reaching offset `e` without an instruction there
behaves as `RET 0` (the input program, whose trailing return the optimizer still owes);
`none`: running off the end is `stuck`. -/
def step1 {σ ρ : Type} (M : Machine σ ρ) (prog : List Instr) (implicitEnd : Option Nat)
    (p : Nat) (s : σ) : Cfg σ ρ :=
  match fetch prog p with
  | some i =>
    if i.op = opReturn then .halted (M.ret i.args s)
    else match M.step i.op (dataArgs i) s with
      | .halt r => .halted r
      | .cont s' taken =>
        if isJump i.op && taken then
          match i.args.head? with
          | some t => .running t s'
          | none => .stuck
        else .running (p + i.size) s'
  | none => if implicitEnd = some p then .halted (M.ret [0] s) else .stuck

def next {σ ρ : Type} (M : Machine σ ρ) (prog : List Instr) (ie : Option Nat) : Cfg σ ρ → Cfg σ ρ
  | .running p s => step1 M prog ie p s
  | c => c

/-- The configuration after `n` steps (halted and stuck configurations stay). -/
def runN {σ ρ : Type} (M : Machine σ ρ) (prog : List Instr) (ie : Option Nat) : Nat → Cfg σ ρ → Cfg σ ρ
  | 0, c => c
  | n + 1, c => runN M prog ie n (next M prog ie c)

/-- What an observer sees of a configuration: the data state or the result, not the position. -/
inductive Obs (σ ρ : Type) where
  | running (s : σ)
  | halted (r : ρ)
  | stuck

def Cfg.obs {σ ρ : Type} : Cfg σ ρ → Obs σ ρ
  | .running _ s => .running s
  | .halted r => .halted r
  | .stuck => .stuck

/-! ### fetch -/

theorem fetch_of_pairwise {l : List Instr} (hp : l.Pairwise (fun a b => a.pos < b.pos)) {x : Instr}
    (hx : x ∈ l) : fetch l x.pos = some x := by
  unfold fetch
  induction l with
  | nil => cases hx
  | cons a l ih =>
    rw [List.pairwise_cons] at hp
    rw [List.find?_cons]
    rcases List.mem_cons.mp hx with rfl | hx
    · simp
    · have := hp.1 x hx
      have hne : (a.pos == x.pos) = false := by simp; omega
      rw [hne]; exact ih hp.2 hx

theorem fetch_none {l : List Instr} {p : Nat} (h : ∀ x ∈ l, x.pos ≠ p) : fetch l p = none := by
  unfold fetch
  rw [List.find?_eq_none]
  intro x hx; simpa using h x hx

theorem fetch_some_mem {l : List Instr} {p : Nat} {x : Instr} (h : fetch l p = some x) :
    x ∈ l ∧ x.pos = p := by
  unfold fetch at h
  exact ⟨List.mem_of_find?_eq_some h, by simpa using List.find?_some h⟩

theorem ret_not_jump {op : Nat} (h : op = opReturn) : isJump op = false := by subst h; decide

/-! ### the simulation relation -/

section Sim
variable {σ ρ : Type} (M : Machine σ ρ)
variable {is : List Instr} {endPos : Nat} {sm : List (Nat × Nat)} {rp : Nat} {r : Result}

/-- input at a kept instruction `x` ~ output at its new offset; input at the end ~ output at the
appended RETURN; equal results. -/
inductive Rel (is : List Instr) (r : Result) : Cfg σ ρ → Cfg σ ρ → Prop
  | at (x : Instr) (n : Nat) (s : σ) : (x, n) ∈ layout 0 (kept is) →
      Rel is r (.running x.pos s) (.running n s)
  | atEnd (s : σ) : r.appended = true →
      Rel is r (.running (totalSize is) s) (.running (totalSize (kept is)) s)
  | halted (v : ρ) : Rel is r (.halted v) (.halted v)

theorem out_layout (hs : Spec is endPos sm rp r) : Layout 0 r.insts := by
  rw [hs.insts]
  cases r.appended with
  | false => simpa using layout_map_rt _ _ (kept is) 0
  | true =>
    simp only [if_true]
    apply layout_append_single (layout_map_rt _ _ (kept is) 0)
    simp [retInstr, totalSize_map_rt]

theorem out_mem (hs : Spec is endPos sm rp r) {x : Instr} {n : Nat} (h : (x, n) ∈ layout 0 (kept is)) :
    rt (posMap (kept is)) (totalSize (kept is)) x n ∈ r.insts := by
  rw [hs.insts]
  apply List.mem_append_left
  exact List.mem_map.mpr ⟨(x, n), h, rfl⟩

theorem out_fetch (hs : Spec is endPos sm rp r) {x : Instr} {n : Nat} (h : (x, n) ∈ layout 0 (kept is)) :
    fetch r.insts n = some (rt (posMap (kept is)) (totalSize (kept is)) x n) := by
  have := fetch_of_pairwise (layout_pairwise (out_layout hs)) (out_mem hs h)
  simpa using this

theorem out_fetch_end (hs : Spec is endPos sm rp r) (ha : r.appended = true) :
    fetch r.insts (totalSize (kept is)) = some (retInstr (totalSize (kept is))) := by
  have hm : retInstr (totalSize (kept is)) ∈ r.insts := by rw [hs.insts, ha]; simp
  have := fetch_of_pairwise (layout_pairwise (out_layout hs)) hm
  simpa [retInstr] using this

theorem dataArgs_rt (ho : OneOperand is) {x : Instr} (hx : x ∈ is) (pm : List (Nat × Nat)) (ne n : Nat) :
    dataArgs (rt pm ne x n) = dataArgs x := by
  unfold dataArgs
  rw [rt_op]
  cases hj : isJump x.op with
  | false => simp [rt_args_nonjump hj]
  | true =>
    have := ho x hx hj
    simp only [if_true]
    match hxa : x.args, this with
    | [t], _ => simp [rt, hj]

/-- One step preserves the relation. -/
theorem rel_next (hs : Spec is endPos sm rp r) (hl : Layout 0 is) (he : endPos = totalSize is)
    (hw : WFJumps is endPos) (ho : OneOperand is) {c c' : Cfg σ ρ} (h : Rel is r c c') :
    Rel is r (next M is (some endPos) c) (next M r.insts none c') := by
  have hpw := layout_pairwise hl
  have hkpw : (kept is).Pairwise (fun a b => a.pos < b.pos) :=
    hpw.sublist (K_sublist _ _ _)
  cases h with
  | halted v => exact Rel.halted v
  | atEnd s ha =>
    have hf : fetch is (totalSize is) = none := by
      apply fetch_none
      intro x hx
      have := layout_end hl x hx
      have := size_pos x
      omega
    simp only [next, step1, hf, he, out_fetch_end hs ha, if_true]
    simp only [retInstr, if_true]
    exact Rel.halted _
  | «at» x n s hxn =>
    have hxk : x ∈ kept is := (mem_layout hxn).1
    have hx : x ∈ is := (K_sublist _ _ _).subset hxk
    simp only [next, step1, fetch_of_pairwise hpw hx, out_fetch hs hxn, rt_op, rt_size,
      dataArgs_rt ho hx]
    by_cases hr : x.op = opReturn
    · simp only [hr, if_true]
      rw [rt_args_nonjump (ret_not_jump hr)]
      exact Rel.halted _
    · simp only [hr, if_false]
      cases M.step x.op (dataArgs x) s with
      | halt v => exact Rel.halted v
      | cont s' taken =>
        simp only
        by_cases hjt : (isJump x.op && taken) = true
        · -- the jump is taken
          simp only [hjt, if_true]
          have hj : isJump x.op = true := by
            cases hh : isJump x.op <;> simp [hh] at hjt ⊢
          obtain ⟨t, ht, hcase⟩ := hw x hx hj
          rw [ht, rt_args_jump hj ht]
          simp only [List.head?_cons]
          by_cases hex : ∃ j ∈ is, j.pos = t
          · obtain ⟨j, hjm, hjp⟩ := hex
            have hd : j.pos ∈ dsts is := by
              rw [hjp]
              simp only [dsts, List.mem_filterMap]
              exact ⟨x, hx, by simp [hj, ht]⟩
            have hjk : j ∈ kept is := mem_K_of_dst hd is false hjm
            obtain ⟨m, hm⟩ := exists_layout 0 hjk
            have hlk := lookup_posMap_eq hkpw hm
            rw [hjp] at hlk
            simp only [tgt, hlk]
            rw [← hjp]
            exact Rel.at j m s' hm
          · have hte : t = endPos := by
              rcases hcase with h | h
              · exact h
              · exact absurd h hex
            have hln : (posMap (kept is)).lookup t = none := by
              apply lookup_posMap_none
              intro y hy hyt
              exact hex ⟨y, (K_sublist _ _ _).subset hy, hyt⟩
            simp only [tgt, hln]
            rw [hte, he]
            exact Rel.atEnd s' (hs.app_jump (x, n) hxn t hj ht hln)
        · -- fall through
          simp only [hjt, Bool.false_eq_true, if_false]
          rcases succ_layout (dsts is) is false 0 0 hl x n hxn hr with ⟨y, hy, hyp⟩ | ⟨h1, h2, h3⟩
          · rw [← hyp]; exact Rel.at y _ s' hy
          · rw [h1, h2]
            simp only [Nat.zero_add]
            exact Rel.atEnd s' (hs.app_last x h3 hr)

theorem rel_runN (hs : Spec is endPos sm rp r) (hl : Layout 0 is) (he : endPos = totalSize is)
    (hw : WFJumps is endPos) (ho : OneOperand is) (n : Nat) : ∀ {c c' : Cfg σ ρ}, Rel is r c c' →
    Rel is r (runN M is (some endPos) n c) (runN M r.insts none n c') := by
  induction n with
  | zero => intro c c' h; exact h
  | succ n ih => intro c c' h; exact ih (rel_next M hs hl he hw ho h)

/-- The initial configurations are related. -/
theorem rel_init (hs : Spec is endPos sm rp r) (hl : Layout 0 is) (s : σ) :
    Rel is r (.running 0 s : Cfg σ ρ) (.running 0 s) := by
  cases is with
  | nil =>
    have hk : kept ([] : List Instr) = [] := rfl
    have := Rel.atEnd (is := []) (r := r) (ρ := ρ) s (hs.app_empty hk)
    rw [hk] at this
    simpa using this
  | cons a rest =>
    have hm : (a, 0) ∈ layout 0 (kept (a :: rest)) := by
      rw [kept_eq]; exact first_layout _ a rest
    have := Rel.at (r := r) (ρ := ρ) a 0 s hm
    rw [hl.1] at this
    exact this

end Sim

end Tengo.Proofs.C03

import Tengo.Model.Format
import Tengo.Model.FormatSpec
/-!
Helper lemmas for C17: the directive parser of the model recovers flags, width and precision from
the canonical text of a directive (`FormatSpec.showDir`).
-/
namespace Tengo.Proofs.FormatParse
open Tengo.Model.Format Tengo.Model.FormatSpec

def evalRev (b : Nat) : List Nat → Nat
  | [] => 0
  | d :: ds => d + b * evalRev b ds

theorem evalRev_digitsRev (b : Nat) : ∀ (n u : Nat), u ≤ n → evalRev b (digitsRev b u) = u := by
  intro n
  induction n with
  | zero =>
    intro u hu
    have : u = 0 := by omega
    subst this
    rw [digitsRev]; split
    · omega
    · simp [evalRev]
  | succ n ih =>
    intro u hu
    rw [digitsRev]
    split
    · rename_i h
      have hlt : u / b < u := Nat.div_lt_self (by omega) (by omega)
      simp only [evalRev]
      rw [ih (u / b) (by omega)]
      exact Nat.mod_add_div u b
    · simp [evalRev]

theorem digitsRev_lt (b : Nat) (hb : 2 ≤ b) : ∀ (n u : Nat), u ≤ n → ∀ d ∈ digitsRev b u, d < b := by
  intro n
  induction n with
  | zero =>
    intro u hu d hd
    have : u = 0 := by omega
    subst this
    rw [digitsRev] at hd
    split at hd
    · omega
    · simp at hd; omega
  | succ n ih =>
    intro u hu d hd
    rw [digitsRev] at hd
    split at hd
    · rename_i h
      have hlt : u / b < u := Nat.div_lt_self (by omega) (by omega)
      simp only [List.mem_cons] at hd
      cases hd with
      | inl h1 => subst h1; exact Nat.mod_lt _ (by omega)
      | inr h2 => exact ih (u / b) (by omega) d h2
    · simp at hd; omega

theorem digitsRev_ne_nil (b u : Nat) : digitsRev b u ≠ [] := by
  rw [digitsRev]; split <;> simp

theorem digitChar_toNat : ∀ d : Fin 10, (digitChar false d.val).toNat = 48 + d.val := by decide

/-- A byte that is not a decimal digit stops `parsenum`. -/
def NonDigitHead (t : Bytes) : Prop := ∀ c t', t = c :: t' → ¬ (48 ≤ c.toNat ∧ c.toNat ≤ 57)

theorem parsenumGo_stop (total : Nat) (t : Bytes) (h : NonDigitHead t) (num : Nat) (isnum : Bool) (k : Nat) :
    parsenumGo total t num isnum k = (num, isnum, k) := by
  cases t with
  | nil => rfl
  | cons c t' => simp [parsenumGo, h c t' rfl]

/-- `parsenumGo` over the decimal digits `l` (least significant first), most significant first. -/
theorem parsenumGo_digits (total : Nat) (tail : Bytes) : ∀ (l : List Nat), (∀ d ∈ l, d < 10) → ∀ (acc : Nat) (isnum : Bool) (k : Nat),
    acc * 10 ^ l.length + evalRev 10 l ≤ 10000000 →
    parsenumGo total (l.reverse.map (digitChar false) ++ tail) acc isnum k =
      parsenumGo total tail (acc * 10 ^ l.length + evalRev 10 l) (isnum || !l.isEmpty) (k + l.length) := by
  intro l
  induction l generalizing tail with
  | nil => intro _ acc isnum k _; simp [evalRev]
  | cons d l ih =>
    intro hl acc isnum k hle
    have hd : d < 10 := hl d (by simp)
    have hl' : ∀ x ∈ l, x < 10 := fun x hx => hl x (by simp [hx])
    simp only [evalRev, List.length_cons, Nat.pow_succ] at hle
    have hX : acc * 10 ^ l.length + evalRev 10 l ≤ 1000000 := by
      have : (acc * 10 ^ l.length + evalRev 10 l) * 10 + d = acc * (10 ^ l.length * 10) + (d + 10 * evalRev 10 l) := by
        rw [Nat.add_mul, Nat.mul_assoc]; omega
      omega
    simp only [List.reverse_cons, List.map_append, List.map_cons, List.map_nil, List.append_assoc, List.singleton_append]
    rw [ih (digitChar false d :: tail) hl' acc isnum k (by omega)]
    have hc := digitChar_toNat ⟨d, hd⟩
    simp only at hc
    rw [parsenumGo]
    have hcond : 48 ≤ (digitChar false d).toNat ∧ (digitChar false d).toNat ≤ 57 := by omega
    have hno : ¬ (acc * 10 ^ l.length + evalRev 10 l > 1000000) := by omega
    rw [if_pos hcond, if_neg hno]
    have e1 : (acc * 10 ^ l.length + evalRev 10 l) * 10 + ((digitChar false d).toNat - 48) =
        acc * 10 ^ (d :: l).length + evalRev 10 (d :: l) := by
      simp only [evalRev, List.length_cons, Nat.pow_succ]
      rw [Nat.add_mul, Nat.mul_assoc]; omega
    have e2 : (true : Bool) = (isnum || !(d :: l).isEmpty) := by simp
    have e3 : k + l.length + 1 = k + (d :: l).length := by simp; omega
    rw [e1, ← e2, e3]

theorem decimal_length_pos (n : Nat) : 1 ≤ (decimal n).length := by
  unfold decimal digitsText
  have := digitsRev_ne_nil 10 n
  cases h : digitsRev 10 n with
  | nil => exact absurd h this
  | cons a b => simp

/-- `parsenum` reads a canonical decimal number back (up to the `tooLarge` region). -/
theorem parsenum_decimal (n : Nat) (hn : n ≤ 1000000) (tail : Bytes) (ht : NonDigitHead tail) :
    parsenum (decimal n ++ tail) = (n, true, (decimal n).length) := by
  unfold parsenum decimal digitsText
  have hlt : ∀ d ∈ digitsRev 10 n, d < 10 := digitsRev_lt 10 (by omega) n n (Nat.le_refl _)
  have hev := evalRev_digitsRev 10 n n (Nat.le_refl _)
  rw [parsenumGo_digits _ tail (digitsRev 10 n) hlt 0 false 0 (by rw [hev]; omega)]
  rw [parsenumGo_stop _ tail ht]
  have hne := digitsRev_ne_nil 10 n
  simp only [Nat.zero_mul, Nat.zero_add, hev, List.length_map, List.length_reverse, Bool.false_or]
  cases h : digitsRev 10 n with
  | nil => exact absurd h hne
  | cons a b => simp

theorem parsenum_nondigit (t : Bytes) (h : NonDigitHead t) : parsenum t = (0, false, 0) := by
  unfold parsenum; exact parsenumGo_stop _ t h 0 false 0

/-- First byte of a canonical decimal is a digit. -/
theorem decimal_head (n : Nat) : ∃ c cs, decimal n = c :: cs ∧ 48 ≤ c.toNat ∧ c.toNat ≤ 57 := by
  unfold decimal digitsText
  have hlt : ∀ d ∈ digitsRev 10 n, d < 10 := digitsRev_lt 10 (by omega) n n (Nat.le_refl _)
  have hne := digitsRev_ne_nil 10 n
  have hr : (digitsRev 10 n).reverse ≠ [] := by simpa using hne
  cases h : (digitsRev 10 n).reverse with
  | nil => exact absurd h hr
  | cons a b =>
    refine ⟨digitChar false a, b.map (digitChar false), by simp, ?_⟩
    have ha : a < 10 := hlt a (by
      have : a ∈ (digitsRev 10 n).reverse := by rw [h]; simp
      simpa using this)
    have := digitChar_toNat ⟨a, ha⟩
    simp only at this
    omega


/-! ### flags -/

def flagText (d : GDir) : Bytes :=
  (if d.plus then [43] else []) ++ ((if d.minus then [45] else []) ++ ((if d.sharp then [35] else []) ++
    ((if d.space then [32] else []) ++ (if d.zero then [48] else []))))

def NonFlagHead (t : Bytes) : Prop := ∀ c t', t = c :: t' → c ≠ 35 ∧ c ≠ 48 ∧ c ≠ 43 ∧ c ≠ 45 ∧ c ≠ 32

/-- The flags `doFormat` holds after the flag loop. -/
def flagsOnly (d : GDir) : Fl :=
  { plus := d.plus, minus := d.minus, sharp := d.sharp, space := d.space, zero := d.zero && !d.minus }

theorem parseFlags_show (d : GDir) (t : Bytes) (ht : NonFlagHead t) :
    parseFlags (flagText d ++ t) {} 0 = (flagsOnly d, (flagText d).length) := by
  unfold flagText flagsOnly
  cases t with
  | nil => cases d.plus <;> cases d.minus <;> cases d.sharp <;> cases d.space <;> cases d.zero <;> simp [parseFlags]
  | cons c t' =>
    obtain ⟨h1, h2, h3, h4, h5⟩ := ht c t' rfl
    cases d.plus <;> cases d.minus <;> cases d.sharp <;> cases d.space <;> cases d.zero <;>
      simp [parseFlags, h1, h2, h3, h4, h5]


/-! ### the whole directive -/

/-- The formatter flags a directive denotes. -/
def flOf (d : GDir) : Fl :=
  { plus := d.plus, minus := d.minus, sharp := d.sharp, space := d.space, zero := d.zero && !d.minus,
    widPresent := d.width.isSome, wid := d.width.getD 0, precPresent := d.prec.isSome, prec := d.prec.getD 0 }

def widthText (d : GDir) : Bytes := match d.width with | some w => decimal w | none => []
def precText (d : GDir) : Bytes := match d.prec with | some p => 46 :: decimal p | none => []

/-- Text of a directive after the `%`, followed by `rest`; `vb` is the (ASCII) verb byte. -/
def dirText (d : GDir) (vb : UInt8) (rest : Bytes) : Bytes :=
  flagText d ++ (widthText d ++ (precText d ++ vb :: rest))

/-- A verb byte that cannot be mistaken for a flag, a digit, `.`, `[` or `*`. -/
def PlainVerb (vb : UInt8) : Prop :=
  vb.toNat < 128 ∧ vb ≠ 35 ∧ vb ≠ 48 ∧ vb ≠ 43 ∧ vb ≠ 45 ∧ vb ≠ 32 ∧ vb ≠ 46 ∧ vb ≠ 91 ∧ vb ≠ 42 ∧
    ¬ (48 ≤ vb.toNat ∧ vb.toNat ≤ 57)

theorem argNumber_plain (ps : PS) (c : UInt8) (t : Bytes) (n : Nat) (h : c ≠ 91) :
    argNumber ps (c :: t) n = ({ ps with afterIndex := false }, 0) := by
  unfold argNumber
  split
  · rename_i heq; cases heq; exact absurd rfl h
  · rfl

theorem parseVerb_ascii (f : Fl) (ps : PS) (bw bp : Bool) (k : Nat) (vb : UInt8) (rest : Bytes) (h : vb.toNat < 128) :
    parseVerb f ps bw bp k (vb :: rest) =
      { n := k + 1, f := f, badWidth := bw, badPrec := bp, verb := some vb.toNat, argNum := ps.argNum, good := ps.good, reordered := ps.reordered } := by
  simp [parseVerb, h]

/-- No precision: the verb follows directly. -/
theorem parseAfterWidth_verb (ints : List (Option Int)) (f : Fl) (ps : PS) (bw : Bool) (k : Nat) (vb : UInt8) (rest : Bytes)
    (h128 : vb.toNat < 128) (h46 : vb ≠ 46) (h91 : vb ≠ 91) (hai : ps.afterIndex = false) :
    parseAfterWidth ints f ps bw k (vb :: rest) =
      { n := k + 1, f := f, badWidth := bw, badPrec := false, verb := some vb.toNat, argNum := ps.argNum, good := ps.good, reordered := ps.reordered } := by
  have hp : parsePrec ints f ps (vb :: rest) = (f, ps, false, 0) := by
    unfold parsePrec
    split
    · rename_i heq; cases heq; exact absurd rfl h46
    · rfl
  unfold parseAfterWidth
  rw [hp]
  simp only [Nat.add_zero, List.drop_zero]
  unfold parseAfterPrec
  simp only [hai, Bool.not_false, if_true]
  rw [argNumber_plain ps vb rest _ h91]
  simp only [Nat.add_zero, List.drop_zero]
  rw [parseVerb_ascii _ _ _ _ _ _ _ h128]

/-- `.p` then the verb. -/
theorem parseAfterWidth_prec (ints : List (Option Int)) (f : Fl) (ps : PS) (bw : Bool) (k p : Nat) (vb : UInt8) (rest : Bytes)
    (hp : p ≤ 1000000) (h128 : vb.toNat < 128) (h91 : vb ≠ 91) (hdig : ¬ (48 ≤ vb.toNat ∧ vb.toNat ≤ 57))
    (hai : ps.afterIndex = false) :
    parseAfterWidth ints f ps bw k (46 :: (decimal p ++ vb :: rest)) =
      { n := k + (1 + (decimal p).length) + 1, f := { f with prec := p, precPresent := true }, badWidth := bw, badPrec := false,
        verb := some vb.toNat, argNum := ps.argNum, good := ps.good, reordered := ps.reordered } := by
  obtain ⟨c, cs, hdec, hc1, hc2⟩ := decimal_head p
  have hND : NonDigitHead (vb :: rest) := by intro c t' h; cases h; exact hdig
  have hnum := parsenum_decimal p hp (vb :: rest) hND
  have hc91 : c ≠ 91 := by intro h; subst h; simp at hc2
  have hc42 : c ≠ 42 := by intro h; subst h; simp at hc1
  have hpp : parsePrec ints f ps (46 :: (decimal p ++ vb :: rest)) =
      ({ f with prec := p, precPresent := true }, { ps with afterIndex := false }, false, 1 + 0 + (decimal p).length) := by
    rw [hdec] at hnum ⊢
    simp only [List.cons_append] at hnum ⊢
    unfold parsePrec
    simp only [hai, Bool.false_eq_true, if_false]
    rw [argNumber_plain ps c _ _ hc91]
    simp only [List.drop_zero]
    split
    · rename_i heq; cases heq; exact absurd rfl hc42
    · rw [hnum]; simp
  unfold parseAfterWidth
  rw [hpp]
  simp only []
  have hdrop : List.drop (1 + 0 + (decimal p).length) (46 :: (decimal p ++ vb :: rest)) = vb :: rest := by
    have : 1 + 0 + (decimal p).length = (decimal p).length + 1 := by omega
    rw [this, List.drop_succ_cons, List.drop_left]
  rw [hdrop]
  unfold parseAfterPrec
  simp only [Bool.not_false, if_true]
  rw [argNumber_plain _ vb rest _ h91]
  simp only [Nat.add_zero, List.drop_zero]
  rw [parseVerb_ascii _ _ _ _ _ _ _ h128]


theorem digitsRev_msd (b : Nat) (hb : 2 ≤ b) : ∀ (n u : Nat), u ≤ n → 1 ≤ u →
    ∃ m init, (digitsRev b u).reverse = m :: init ∧ 1 ≤ m ∧ m < b := by
  intro n
  induction n with
  | zero => intro u hu h1; omega
  | succ n ih =>
    intro u hu h1
    rw [digitsRev]
    split
    · rename_i h
      have hlt : u / b < u := Nat.div_lt_self (by omega) (by omega)
      have hge : 1 ≤ u / b := (Nat.le_div_iff_mul_le (by omega)).mpr (by omega)
      obtain ⟨m, init, hr, hm1, hm2⟩ := ih (u / b) (by omega) hge
      exact ⟨m, init ++ [u % b], by simp [hr], hm1, hm2⟩
    · rename_i h
      exact ⟨u, [], by simp, h1, by omega⟩

/-- The first byte of the canonical decimal of a positive number is `1`..`9` (so it is not the `0` flag). -/
theorem decimal_head_pos (n : Nat) (hn : 1 ≤ n) : ∃ c cs, decimal n = c :: cs ∧ 49 ≤ c.toNat ∧ c.toNat ≤ 57 := by
  obtain ⟨m, init, hr, hm1, hm2⟩ := digitsRev_msd 10 (by omega) n n (Nat.le_refl _) hn
  unfold decimal digitsText
  rw [hr]
  refine ⟨digitChar false m, init.map (digitChar false), by simp, ?_⟩
  have := digitChar_toNat ⟨m, hm2⟩
  simp only at this
  omega

theorem parseWidth_none (ints : List (Option Int)) (f : Fl) (ps : PS) (t : Bytes) (hND : NonDigitHead t)
    (h42 : ∀ t', t ≠ 42 :: t') (hai : ps.afterIndex = false) :
    parseWidth ints f ps t = ({ f with wid := 0, widPresent := false }, ps, false, 0) := by
  unfold parseWidth
  split
  · rename_i t' ; exact absurd rfl (h42 t')
  · rw [parsenum_nondigit t hND]
    simp [hai]

theorem parseWidth_decimal (ints : List (Option Int)) (f : Fl) (ps : PS) (w : Nat) (t : Bytes) (hw : w ≤ 1000000)
    (hND : NonDigitHead t) (hai : ps.afterIndex = false) :
    parseWidth ints f ps (decimal w ++ t) = ({ f with wid := w, widPresent := true }, ps, false, (decimal w).length) := by
  obtain ⟨c, cs, hdec, hc1, hc2⟩ := decimal_head w
  have hnum := parsenum_decimal w hw t hND
  unfold parseWidth
  split
  · rename_i t' heq
    rw [hdec] at heq
    simp only [List.cons_append] at heq
    have : c = 42 := by injection heq
    subst this; simp at hc1
  · rw [hnum]; simp [hai]

/-- The expected parse of a directive text. -/
def expected (d : GDir) (argNum n : Nat) : Dir := { n := n, f := flOf d, verb := some d.verb, argNum := argNum }

theorem ps0_eta : ({ ({ argNum := a, reordered := false, good := true, afterIndex := false } : PS) with afterIndex := false } : PS) =
    { argNum := a, reordered := false, good := true, afterIndex := false } := rfl

/-- **The parser link.** `doFormat`'s directive parser maps the canonical text of a directive
(flags in the order `+-# 0`, width 1..10^6, `.precision` ≤ 10^6, an ASCII verb that is not itself
directive syntax), whatever follows it, to exactly the flags/width/precision record `flOf d`, consumes
exactly that text, leaves `argNum` alone and flags no error. -/
theorem parse_show (ints : List (Option Int)) (argNum : Nat) (d : GDir) (vb : UInt8) (rest : Bytes)
    (hv : vb.toNat = d.verb) (hpv : PlainVerb vb)
    (hw : ∀ w, d.width = some w → 1 ≤ w ∧ w ≤ 1000000) (hp : ∀ p, d.prec = some p → p ≤ 1000000) :
    parseDirective ints argNum (dirText d vb rest) = expected d argNum (dirText d vb []).length := by
  obtain ⟨h128, h35, h48, h43, h45, h32, h46, h91, h42, hdig⟩ := hpv
  have hNDv : NonDigitHead (vb :: rest) := by intro c t' h; cases h; exact hdig
  unfold parseDirective dirText expected
  cases hwd : d.width with
  | none =>
    cases hpr : d.prec with
    | none =>
      have hNF : NonFlagHead (vb :: rest) := by intro c t' h; cases h; exact ⟨h35, h48, h43, h45, h32⟩
      simp only [widthText, precText, hwd, hpr, List.nil_append]
      rw [parseFlags_show d _ hNF]
      simp only [List.drop_left]
      have hfl : ({ flagsOnly d with wid := 0, widPresent := false } : Fl) = flOf d := by simp [flOf, flagsOnly, hwd, hpr]
      have hfl' : flagsOnly d = flOf d := by simp [flOf, flagsOnly, hwd, hpr]
      by_cases hfast : 97 ≤ vb.toNat ∧ vb.toNat ≤ 122 ∧ argNum < ints.length
      · simp only [fastVerb, hfast, and_self, if_true, List.length_append, List.length_cons, List.length_nil]
        rw [hfl', hv]
      · simp only [fastVerb, hfast, if_false]
        unfold parseSlow
        rw [argNumber_plain _ vb rest _ h91]
        simp only [List.drop_zero, ps0_eta]
        rw [parseWidth_none ints _ _ (vb :: rest) hNDv (by intro t' h; injection h with h1 _; exact h42 h1) rfl]
        simp only [List.drop_zero, Nat.add_zero]
        rw [parseAfterWidth_verb ints _ _ _ _ vb rest h128 h46 h91 rfl, hfl, hv]
        simp
    | some p =>
      have hp' := hp p hpr
      have hNF : NonFlagHead (46 :: (decimal p ++ vb :: rest)) := by intro c t' h; cases h; decide
      have hND46 : NonDigitHead (46 :: (decimal p ++ vb :: rest)) := by intro c t' h; cases h; decide
      simp only [widthText, precText, hwd, hpr, List.nil_append, List.cons_append]
      rw [parseFlags_show d _ hNF]
      simp only [List.drop_left]
      have h46lc : ¬ (97 ≤ (46 : UInt8).toNat ∧ (46 : UInt8).toNat ≤ 122 ∧ argNum < ints.length) :=
        fun h => absurd h.1 (by decide)
      simp only [fastVerb, h46lc, if_false]
      unfold parseSlow
      rw [argNumber_plain _ 46 _ _ (by decide)]
      simp only [List.drop_zero, ps0_eta]
      rw [parseWidth_none ints _ _ _ hND46 (by intro t' h; injection h with h1 _; exact absurd h1 (by decide)) rfl]
      simp only [List.drop_zero, Nat.add_zero]
      rw [parseAfterWidth_prec ints _ _ _ _ p vb rest hp' h128 h91 hdig rfl, hv]
      have hfl : ({ ({ flagsOnly d with wid := 0, widPresent := false } : Fl) with prec := p, precPresent := true } : Fl) = flOf d := by
        simp [flOf, flagsOnly, hwd, hpr]
      rw [hfl]
      simp; omega
  | some w =>
    obtain ⟨hw1, hw2⟩ := hw w hwd
    obtain ⟨c, cs, hdec, hc1, hc2⟩ := decimal_head_pos w hw1
    have hclc : ¬ (97 ≤ c.toNat ∧ c.toNat ≤ 122 ∧ argNum < ints.length) := by omega
    have hc91 : c ≠ 91 := by intro h; subst h; simp at hc2
    have hcflag : c ≠ 35 ∧ c ≠ 48 ∧ c ≠ 43 ∧ c ≠ 45 ∧ c ≠ 32 := by
      refine ⟨?_, ?_, ?_, ?_, ?_⟩ <;> (intro h; subst h; simp at hc1)
    cases hpr : d.prec with
    | none =>
      have hNF : NonFlagHead (decimal w ++ vb :: rest) := by
        intro c' t' h; rw [hdec] at h; simp only [List.cons_append] at h; injection h with h1 _; subst h1; exact hcflag
      simp only [widthText, precText, hwd, hpr, List.nil_append]
      rw [parseFlags_show d _ hNF]
      simp only [List.drop_left]
      have hfast : fastVerb ints.length argNum (decimal w ++ vb :: rest) = none := by
        rw [hdec]; simp only [fastVerb, List.cons_append, hclc, if_false]
      rw [hfast]
      simp only []
      unfold parseSlow
      have harg : argNumber { argNum := argNum, reordered := false, good := true, afterIndex := false } (decimal w ++ vb :: rest) ints.length =
          ({ argNum := argNum, reordered := false, good := true, afterIndex := false }, 0) := by
        rw [hdec]; simp only [List.cons_append]; rw [argNumber_plain _ c _ _ hc91]
      rw [harg]
      simp only [List.drop_zero]
      rw [parseWidth_decimal ints _ _ w (vb :: rest) hw2 hNDv rfl]
      simp only [List.drop_left, Nat.add_zero]
      rw [parseAfterWidth_verb ints _ _ _ _ vb rest h128 h46 h91 rfl, hv]
      have hfl : ({ flagsOnly d with wid := w, widPresent := true } : Fl) = flOf d := by simp [flOf, flagsOnly, hwd, hpr]
      rw [hfl]
      simp; omega
    | some p =>
      have hp' := hp p hpr
      have hNF : NonFlagHead (decimal w ++ 46 :: (decimal p ++ vb :: rest)) := by
        intro c' t' h; rw [hdec] at h; simp only [List.cons_append] at h; injection h with h1 _; subst h1; exact hcflag
      have hND46 : NonDigitHead (46 :: (decimal p ++ vb :: rest)) := by intro c t' h; cases h; decide
      simp only [widthText, precText, hwd, hpr, List.cons_append]
      rw [parseFlags_show d _ hNF]
      simp only [List.drop_left]
      have hfast : fastVerb ints.length argNum (decimal w ++ 46 :: (decimal p ++ vb :: rest)) = none := by
        rw [hdec]; simp only [fastVerb, List.cons_append, hclc, if_false]
      rw [hfast]
      simp only []
      unfold parseSlow
      have harg : argNumber { argNum := argNum, reordered := false, good := true, afterIndex := false }
          (decimal w ++ 46 :: (decimal p ++ vb :: rest)) ints.length =
          ({ argNum := argNum, reordered := false, good := true, afterIndex := false }, 0) := by
        rw [hdec]; simp only [List.cons_append]; rw [argNumber_plain _ c _ _ hc91]
      rw [harg]
      simp only [List.drop_zero]
      rw [parseWidth_decimal ints _ _ w _ hw2 hND46 rfl]
      simp only [List.drop_left, Nat.add_zero]
      rw [parseAfterWidth_prec ints _ _ _ _ p vb rest hp' h128 h91 hdig rfl, hv]
      have hfl : ({ ({ flagsOnly d with wid := w, widPresent := true } : Fl) with prec := p, precPresent := true } : Fl) = flOf d := by
        simp [flOf, flagsOnly, hwd, hpr]
      rw [hfl]
      simp; omega

end Tengo.Proofs.FormatParse

import Tengo.Proofs.C01BridgeF3CompFunc
import Tengo.Proofs.C01BridgeF2Compile
/-!
C01 bridge for fragment F3, compile side, layer 6 (main program): a main statement that stores a function literal
(`names i = func(…) {…}`) compiles to `CONST k; SETG i` after the constants of the body and the function constant
(`topFnOK`); the main statements compile to the encoding of `F3.compSs 0 0 off main` (`mainOK`).
-/
set_option linter.unusedVariables false
set_option linter.unusedSimpArgs false
namespace Tengo.Proofs.C01BridgeF3Comp
open Tengo.Model Tengo.Model.Compiler Tengo.Model.Opcodes
open Tengo.Model.Spec (Expr Stmt)
open Tengo.Model.F3 (Ex Exs Stm Stms FnDef Prog Ins)
open Tengo.Proofs.C01Bridge
open Tengo.Proofs.C11Rename (asgBody asgResolve asgRhs asgOp asgEmit isFuncLit compileAssign_succ)

attribute [local irreducible] emit curPos changeOperand addConstant enterLoop leaveLoop fork unfork
  emitBinary patchAll setAssigned localAssigned emitGet emitIt define resolve cerr
  Compiler.unsupported compileExpr compileExprs compileKVs compileSelsRev compileStmt compileBlock compileStmts

theorem asgRhs_assign_fn (d : Nat) (l r : Expr) (nm : String) (sym : Option Sym) :
    asgRhs d l r nm [] 0 "Assign" true sym = (do compileExpr d r; asgOp d [] 0 "Assign" sym) := rfl

theorem asgResolve_assign_fn (d : Nat) (l r : Expr) (nm : String) :
    asgResolve d l r nm [] 0 "Assign" true = (do
      let resolved ← resolve nm
      if resolved.isNone then cerr s!"unresolved reference '{nm}'"
      asgRhs d l r nm [] 0 "Assign" true (resolved.map Prod.fst)) := rfl

theorem stmt_assign_fn (d : Nat) (nm : String) (r : Expr) (hr : isFuncLit r = true) :
    compileStmt (d + 1 + 1) (.assign "Assign" [.ident nm] [r]) = (do
      let resolved ← resolve nm
      if resolved.isNone then cerr s!"unresolved reference '{nm}'"
      asgRhs d (.ident nm) r nm [] 0 "Assign" true (resolved.map Prod.fst)) := by
  have h : asgBody d [.ident nm] [r] "Assign" = asgResolve d (.ident nm) r nm [] 0 "Assign" (isFuncLit r) := rfl
  rw [compileStmt.eq_4, compileAssign_succ, h, hr, asgResolve_assign_fn]

theorem topFn_some {P : Prog} {st : Stm} {i j : Nat} {fd : FnDef} (h : topFn P st = some (i, j, fd)) :
    st = .assign i (.lit j) ∧ P.fns j = some fd := by
  cases st with
  | assign i' e =>
    cases e with
    | lit k =>
      simp only [topFn, Option.map_eq_some_iff] at h
      obtain ⟨fd', h1, h2⟩ := h
      simp only [Prod.mk.injEq] at h2
      obtain ⟨rfl, rfl, rfl⟩ := h2
      exact ⟨rfl, h1⟩
    | _ => simp [topFn] at h
  | _ => simp [topFn] at h

section
variable {names lnames : Nat → String} {n : Nat} {ctab : Nat → F0.Const} {K : Nat → Compiler.Const}

/-- The state between the statements of main. -/
structure MainInv (root : Table) (s : CState) : Prop where
  tabs : s.tables = [root]
  asz : s.assigned.size = s.nextId
  loops : s.loops = []

theorem MainInv.ctx {root : Table} {s : CState} (hr : RootOK names lnames n root) (h : MainInv root s) :
    Ctx names lnames n 0 false s := by
  refine ⟨ResOK.of_good ?_, fun hf => by cases hf⟩
  rw [h.tabs]
  exact ⟨0, root, rfl, hr.good⟩

theorem mainOK (hN : NamesOK names lnames n) (P : Prog)
    (hK : ∀ j, isFnOf P j = false → K j = constOf (ctab j))
    (hKfn : ∀ j fd, P.fns j = some fd → K j = fnConst fd)
    {root : Table} (hr : RootOK names lnames n root) :
    ∀ (ss : Stms) (d : Nat) (s : CState), budMain P ss ≤ d → MainInv root s →
      wfMain P n s.consts.size ss = true → optOK P ss = true →
      ∃ s', Steps (compileStmts d (toAstMain names lnames ctab P ss)) s () s' ∧ MainInv root s' ∧
        s'.insts = s.insts ++ (encodeIns3 (F3.compSs 0 0 s.insts.size ss)).toArray ∧
        s'.consts = s.consts ++ (litsK K s.consts.size (nlitsMain P ss)).toArray ∧ s'.saved = s.saved
  | .nil, d, s, hd, hinv, hw, ho => by
    cases d with
    | zero => simp [budMain] at hd
    | succ d =>
      refine ⟨s, ?_, hinv, by simp [F3.compSs], by simp [nlitsMain, litsK_zero], rfl⟩
      simp only [toAstMain, compileStmts.eq_2]
      exact Steps.pure () s
  | .cons st ss, d, s, hd, hinv, hw, ho => by
    cases d with
    | zero => simp [budMain] at hd
    | succ d =>
      simp only [budMain] at hd
      simp only [toAstMain, compileStmts.eq_3]
      simp only [wfMain, Bool.and_eq_true] at hw
      obtain ⟨hw1, hw2⟩ := hw
      simp only [optOK, Bool.and_eq_true] at ho
      obtain ⟨ho1, ho2⟩ := ho
      cases htf : topFn P st with
      | none =>
        simp only [htf] at hw1
        have hbud : budS3 st ≤ d := by simp only [budTop, htf] at hd; omega
        have hl := hinv.loops
        have h1 := stmtOK3 (names := names) (lnames := lnames) (ctab := ctab) (isFn := isFnOf P) (K := K) (n := n)
          (m := 0) hK false st d s hbud (hinv.ctx hr) (by rw [hl]; exact hw1)
        rw [addJ_of_nil3 hl] at h1
        have hinv1 : MainInv root
            (app s (encodeIns3 (F3.compS 0 0 s.insts.size st)) (litsK K s.consts.size (nlitsS3 st))) :=
          ⟨hinv.tabs, hinv.asz, hl⟩
        obtain ⟨s2, hs2, hinv2, hi2, hc2, hsv2⟩ := mainOK hN P hK hKfn hr ss d _ (by omega) hinv1
          (by simpa [litsK_length, nlitsTop, htf] using hw2) ho2
        refine ⟨s2, ?_, hinv2, ?_, ?_, by rw [hsv2]; rfl⟩
        · simp only [toAstTop, htf]
          exact Steps.bind h1 hs2
        · rw [hi2]
          simp [app, F3.compSs, encodeIns3_append, encodeIns3_length, F3.csize_compS]
        · rw [hc2]
          simp [app, nlitsMain, nlitsTop, htf, litsK_add, litsK_length]
      | some p =>
        obtain ⟨i, j, fd⟩ := p
        obtain ⟨rfl, hfd⟩ := topFn_some htf
        simp only [htf, Bool.and_eq_true, decide_eq_true_eq, beq_iff_eq] at hw1 ho1
        obtain ⟨⟨hi, hwf⟩, hj⟩ := hw1
        have hnt : nlitsTop P (.assign i (.lit j)) = nlitsSs3 fd.body + 1 := by simp only [nlitsTop, htf]
        obtain ⟨bytes, hbytes⟩ := Option.isSome_iff_exists.mp ho1
        obtain ⟨d, rfl⟩ : ∃ d', d = d' + 1 + 1 + 1 := ⟨d - 3, by simp only [budTop, htf] at hd; omega⟩
        have hctx := hinv.ctx (names := names) (lnames := lnames) (n := n) hr
        obtain ⟨id, k, hres⟩ := hctx.res.steps_glob hi
        obtain ⟨s1, hs1, ht1, hi1, hc1, hsv1, hl1, hasz1⟩ := funcOK (ctab := ctab) (isFn := isFnOf P) (K := K) hN hK hr
          fd (d + 1) s (by simp only [budTop, htf] at hd; omega) hinv.tabs hinv.asz hwf bytes hbytes
        -- the statement
        let s1' : CState := app s1 (encodeIns3 [.setg i]) []
        have hstmt : Steps (compileStmt (d + 1 + 1 + 1) (toAstTop names lnames ctab P (.assign i (.lit j)))) s () s1' := by
          simp only [toAstTop, htf]
          rw [stmt_assign_fn (d + 1) _ _ rfl]
          refine Steps.bind hres ?_
          simp only [Option.isNone_some, Bool.false_eq_true, ↓reduceIte, Option.map_some, asgRhs_assign_fn]
          refine Steps.bind hs1 ?_
          rw [asgOp_assign, compileSelsRev.eq_2, asgEmit_global]
          refine Steps.bind (Steps.pure () _) ?_
          exact steps_emitI3 (.setg i) s1
        have hinv1 : MainInv root s1' := ⟨by simp only [s1', app_tables, ht1]; exact hinv.tabs,
          by simp only [s1', app_assigned, app_nextId]; exact hasz1, by simp only [s1', app_loops, hl1]; exact hinv.loops⟩
        have hsz1 : s1'.consts.size = s.consts.size + nlitsTop P (.assign i (.lit j)) := by
          simp only [s1', app_consts_size, hc1, hnt]
          simp [litsK_length]
        obtain ⟨s2, hs2, hinv2, hi2, hc2, hsv2⟩ := mainOK hN P hK hKfn hr ss (d + 1 + 1 + 1) s1' (by omega) hinv1
          (by rw [hsz1]; exact hw2) ho2
        refine ⟨s2, Steps.bind hstmt hs2, hinv2, ?_, ?_, by rw [hsv2]; simp only [s1', app_saved, hsv1]⟩
        · rw [hi2]
          simp only [s1', app_insts_size]
          simp [app, hi1, hj, F3.compSs, F3.compS, F3.comp, encodeIns3_append, encodeIns3_length, F3.csize,
            F3.Ins.size, F3.ssize, F3.esize, Nat.add_assoc, encodeIns3_cons, encI3_length]
        · rw [hc2, hsz1]
          simp only [s1', nlitsMain, hnt]
          have hKj : K (s.consts.size + nlitsSs3 fd.body) = fnConst fd := by rw [← hj]; exact hKfn _ _ hfd
          simp [app, hc1, litsK_add, litsK_one, hKj]

end

end Tengo.Proofs.C01BridgeF3Comp

import Tengo.Proofs.C20BytesScan
/-!
C20, byte level, round 2, part 1: more scanner steps on ASCII text.

* `scanLoop_op2`: the delimiters `.` `,` `[` `]` `...` (in addition to `scanLoop_op`).
* `scanLoop_int`: an integer literal (decimal / legacy octal digits with `_`, or `0b` `0o` `0x` + digits of that base
  with `_`) followed by a rune that is no letter, digit, `_` or `.`.
* `scanLoop_quoted`: an interpreted string literal / a char literal whose body is made of plain ASCII characters
  (1…127 except newline, the quote and the backslash), the simple escapes `\a \b \f \n \r \t \v \\` and `\"`
  (string) resp. `\'` (char), and the numeric escapes `\ooo` `\xhh` `\uhhhh` `\Uhhhhhhhh` — the decidable class `bodyOk`.

All statements have the rest of the source in the form `chs bs` (ASCII bytes): `peek()` reads a byte.
-/
namespace Tengo.Proofs.C20Bytes2Scan
open Tengo.Model.Token Tengo.Model.Scanner Tengo.Proofs.C04Scan Tengo.Proofs.C20BytesScan

/-! ### Delimiters -/

/-- `.` `,` `[` `]` `...`. -/
def extraOp : Tok → Bool
  | .Period | .Comma | .LBrack | .RBrack | .Ellipsis | .LBrace | .RBrace => true
  | _ => false

def fragOp2 (t : Tok) : Bool := fragOp t || extraOp t

/-- Look-ahead of `Scan()` including the period: `.5` is a number, `..` may start `...`. -/
def fuses2 (t : Tok) (r : Nat) : Bool :=
  match t with
  | .Period => isDec r || r == 46
  | _ => fuses t r

def insOp (t : Tok) : Bool := t == .RParen || t == .RBrack || t == .RBrace

theorem cur_chs_cons (b : UInt8) (bs : Bs) : cur (chs (b :: bs)) = b.toNat := rfl

theorem peekB_chs (a b : UInt8) (bs : Bs) : peekB (ch a :: chs (b :: bs)) = b.toNat := rfl
theorem peekB_chs1 (a : UInt8) : peekB (ch a :: chs []) = 0 := rfl

/-- `peek()` after the current character is the next rune, or 0 at the end. -/
theorem peekB_cur (a : UInt8) (bs : Bs) : peekB (ch a :: chs bs) = cur (chs bs) ∨
    (peekB (ch a :: chs bs) = 0 ∧ cur (chs bs) = eofR) := by
  cases bs with
  | nil => exact Or.inr ⟨rfl, rfl⟩
  | cons b bs => exact Or.inl rfl

theorem scanLoop_extra (cls : Nat → Nat) (t : Tok) (hop : extraOp t = true) (bs : Bs) (off : Nat) (ins : Bool)
    (hf : fuses2 t (cur (chs bs)) = false) :
    scanLoop cls (chs t.bytes ++ chs bs) off ins =
      { toks := ⟨t, [], off⟩ :: (scanLoop cls (chs bs) (off + t.bytes.length) (insOp t)).toks,
        errs := (scanLoop cls (chs bs) (off + t.bytes.length) (insOp t)).errs } := by
  have hcl : Clean (chs bs) := clean_chs bs
  cases t <;> first
    | (exact absurd hop (by decide))
    | skip
  · -- Ellipsis
    have hb : Tok.Ellipsis.bytes = [46, 46, 46] := by decide
    rw [hb]
    have e : chs [46, 46, 46] ++ chs bs = ch 46 :: (ch 46 :: ch 46 :: chs bs) := rfl
    rw [e]
    have h := scanLoop_tok cls (ch 46) (ch 46 :: ch 46 :: chs bs) off ins .Ellipsis [] 2 false (by simp [atComment])
      (clean_append (clean_chs [46, 46]) hcl)
      (by simp [scan1, scanR, isLetter, isAsciiLetter, isDec, op, cur, peekB])
    have hi : insOp .Ellipsis = false := rfl
    rw [hi]
    simpa [width_cons] using h
  · -- LBrack
    have hb : Tok.LBrack.bytes = [91] := by decide
    rw [hb]
    have h := scanLoop_tok cls (ch 91) (chs bs) off ins .LBrack [] 0 false (by simp [atComment]) hcl
      (by simp [scan1, scanR, isLetter, isAsciiLetter, isDec, op])
    have hi : insOp .LBrack = false := rfl
    rw [hi]
    simpa [width_cons] using h
  · -- LBrace
    have hb : Tok.LBrace.bytes = [123] := by decide
    rw [hb]
    have h := scanLoop_tok cls (ch 123) (chs bs) off ins .LBrace [] 0 false (by simp [atComment]) hcl
      (by simp [scan1, scanR, isLetter, isAsciiLetter, isDec, op])
    have hi : insOp .LBrace = false := rfl
    rw [hi]
    simpa [width_cons] using h
  · -- Comma
    have hb : Tok.Comma.bytes = [44] := by decide
    rw [hb]
    have h := scanLoop_tok cls (ch 44) (chs bs) off ins .Comma [] 0 false (by simp [atComment]) hcl
      (by simp [scan1, scanR, isLetter, isAsciiLetter, isDec, op])
    have hi : insOp .Comma = false := rfl
    rw [hi]
    simpa [width_cons] using h
  · -- Period
    have hb : Tok.Period.bytes = [46] := by decide
    rw [hb]
    simp only [fuses2, Bool.or_eq_false_iff, beq_eq_false_iff_ne] at hf
    have hp : isDec (peekB (ch 46 :: chs bs)) = false := by
      rcases peekB_cur 46 bs with h | ⟨h, _⟩
      · rw [h]; exact hf.1
      · rw [h]; rfl
    have h := scanLoop_tok cls (ch 46) (chs bs) off ins .Period [] 0 false (by simp [atComment]) hcl
      (by simp [scan1, scanR, isLetter, isAsciiLetter, isDec, op, hf.2] <;> simpa [isDec] using hp)
    have hi : insOp .Period = false := rfl
    rw [hi]
    simpa [width_cons] using h
  · -- RBrack
    have hb : Tok.RBrack.bytes = [93] := by decide
    rw [hb]
    have h := scanLoop_tok cls (ch 93) (chs bs) off ins .RBrack [] 0 true (by simp [atComment]) hcl
      (by simp [scan1, scanR, isLetter, isAsciiLetter, isDec, op])
    have hi : insOp .RBrack = true := rfl
    rw [hi]
    simpa [width_cons] using h
  · -- RBrace
    have hb : Tok.RBrace.bytes = [125] := by decide
    rw [hb]
    have h := scanLoop_tok cls (ch 125) (chs bs) off ins .RBrace [] 0 true (by simp [atComment]) hcl
      (by simp [scan1, scanR, isLetter, isAsciiLetter, isDec, op])
    have hi : insOp .RBrace = true := rfl
    rw [hi]
    simpa [width_cons] using h

theorem fragOp_ins (t : Tok) (h : fragOp t = true) : (t == Tok.RParen) = insOp t := by
  cases t <;> first | (exact absurd h (by decide)) | rfl

theorem fragOp_fuses2 (t : Tok) (h : fragOp t = true) (r : Nat) : fuses2 t r = fuses t r := by
  cases t <;> first | (exact absurd h (by decide)) | rfl

/-- **Operator step, all delimiters of the expression grammar.** -/
theorem scanLoop_op2 (cls : Nat → Nat) (t : Tok) (hop : fragOp2 t = true) (bs : Bs) (off : Nat) (ins : Bool)
    (hf : fuses2 t (cur (chs bs)) = false) :
    scanLoop cls (chs t.bytes ++ chs bs) off ins =
      { toks := ⟨t, [], off⟩ :: (scanLoop cls (chs bs) (off + t.bytes.length) (insOp t)).toks,
        errs := (scanLoop cls (chs bs) (off + t.bytes.length) (insOp t)).errs } := by
  simp only [fragOp2, Bool.or_eq_true] at hop
  rcases hop with h | h
  · rw [fragOp_fuses2 t h] at hf
    rw [← fragOp_ins t h]
    exact scanLoop_op cls t h (chs bs) off ins (clean_chs bs) hf
  · exact scanLoop_extra cls t h bs off ins hf

/-! ### Integer literals -/

/-- A digit of the given base, or `_`. -/
def numByte (base : Nat) (b : UInt8) : Bool := b.toNat == 95 || digitVal b.toNat < base

/-- `b` `B` `o` `O` `x` `X`. -/
def isPrefix (p : UInt8) : Bool := lowerB p.toNat == 98 || lowerB p.toNat == 111 || lowerB p.toNat == 120

def baseOf (p : UInt8) : Nat := if lowerB p.toNat == 98 then 2 else if lowerB p.toNat == 111 then 8 else 16

/-- Spellings the scanner reads as ONE Int token: a digit, then digits / `_` (decimal and legacy octal), or `0b` `0o`
`0x` followed by digits of that base / `_`. (Whether `strconv.ParseInt` accepts the spelling — digits present,
underscores well placed, legacy octal digits below 8, value below 2^63 — is a separate condition: `intVal`.) -/
def intOk : Bs → Bool
  | [] => false
  | d :: ds => isDec d.toNat &&
    (match ds with
     | p :: r => if d.toNat == 48 && isPrefix p then r.all (numByte (baseOf p)) else ds.all (numByte 10)
     | [] => true)

/-- The rune after a literal: ASCII, no letter / digit / `_` / `.`; or the end of input. -/
def litStop (r : Nat) : Bool := identStop r && r != 46

theorem litStop_facts {r : Nat} (h : litStop r = true) :
    isAsciiLetter r = false ∧ isDec r = false ∧ r ≠ 46 ∧ (r < 128 ∨ r = eofR) := by
  simp only [litStop, identStop, Bool.and_eq_true, Bool.not_eq_true', Bool.or_eq_false_iff, Bool.or_eq_true,
    decide_eq_true_eq, beq_iff_eq, bne_iff_ne, ne_eq] at h
  exact ⟨h.1.1.1, h.1.1.2, h.2, h.1.2⟩

theorem digitVal_stop {r : Nat} (h : litStop r = true) : digitVal r = 16 ∧ r ≠ 95 := by
  obtain ⟨h1, h2, -, -⟩ := litStop_facts h
  simp only [isAsciiLetter, Bool.or_eq_false_iff, Bool.and_eq_false_iff, decide_eq_false_iff_not,
    beq_eq_false_iff_ne] at h1
  simp only [isDec, Bool.and_eq_false_iff, decide_eq_false_iff_not] at h2
  refine ⟨?_, h1.2⟩
  unfold digitVal
  split
  · next hc => simp only [Bool.and_eq_true, decide_eq_true_eq] at hc; omega
  · split
    · next hc => simp only [Bool.and_eq_true, decide_eq_true_eq] at hc; omega
    · split
      · next hc => simp only [Bool.and_eq_true, decide_eq_true_eq] at hc; omega
      · rfl

theorem digitVal_dec {r : Nat} (h : isDec r = true) : digitVal r < 10 := by
  simp only [isDec, Bool.and_eq_true, decide_eq_true_eq] at h
  simp only [digitVal, h.1, h.2, decide_true, Bool.and_self, if_true]
  omega

theorem digitsLen_num (base : Nat) (hb : base ≤ 16) (ds bs : Bs) (hd : ds.all (numByte base) = true)
    (hs : litStop (cur (chs bs)) = true) : digitsLen base (chs ds ++ chs bs) = ds.length := by
  induction ds with
  | nil =>
    obtain ⟨h1, h2⟩ := digitVal_stop hs
    cases bs with
    | nil => rfl
    | cons b bs =>
      simp only [cur_chs_cons] at h1 h2
      have : ¬ digitVal b.toNat < base := by omega
      simp [digitsLen, this, h2]
  | cons d ds ih =>
    simp only [List.all_cons, Bool.and_eq_true] at hd
    have := hd.1
    simp only [numByte, Bool.or_eq_true, beq_iff_eq, decide_eq_true_eq] at this
    rcases this with h | h <;> simp [digitsLen, h, ih hd.2]

theorem lowerB_cases (p : Nat) (x : Nat) (h : lowerB p = x) : p = x ∨ p + 32 = x := by
  unfold lowerB at h
  split at h
  · exact Or.inl h
  · exact Or.inr h

theorem drop_chs_append' (a b : Bs) : (chs a ++ chs b).drop a.length = chs b := drop_chs_append a (chs b)
theorem take_chs_append' (a b : Bs) : (chs a ++ chs b).take a.length = chs a := take_chs_append a (chs b)

/-- Mantissa / exponent part once the digits are read: nothing follows. -/
theorem scanNumber_of (lit bs : Bs) (base pre : Nat) (hb : numBase (chs lit ++ chs bs) = (base, pre))
    (hl : pre + digitsLen base ((chs lit ++ chs bs).drop pre) = lit.length)
    (hs : litStop (cur (chs bs)) = true) :
    scanNumber (chs lit ++ chs bs) = (lit.length, Tok.Int, []) := by
  obtain ⟨h1, h2, h3, h4⟩ := litStop_facts hs
  have hm : numMant (chs lit ++ chs bs) = (false, lit.length) := by
    simp only [numMant, hb, hl, drop_chs_append']
    simp [h3]
  have he : numExp (chs lit ++ chs bs) lit.length = none := by
    simp only [numExp, drop_chs_append']
    simp only [isAsciiLetter, Bool.or_eq_false_iff, Bool.and_eq_false_iff, decide_eq_false_iff_not,
      beq_eq_false_iff_ne] at h1
    have a1 : cur (chs bs) ≠ 101 := by omega
    have a2 : cur (chs bs) ≠ 69 := by omega
    have a3 : cur (chs bs) ≠ 112 := by omega
    have a4 : cur (chs bs) ≠ 80 := by omega
    simp [a1, a2, a3, a4]
  simp only [scanNumber, hm, he]
  rfl

theorem numByte10_lower (b : UInt8) (h : numByte 10 b = true) (x : Nat) (hx : x = 98 ∨ x = 111 ∨ x = 120) :
    lowerB b.toNat ≠ x := by
  intro hl
  have hc := lowerB_cases _ _ hl
  simp only [numByte, Bool.or_eq_true, beq_iff_eq, decide_eq_true_eq] at h
  rcases h with h | h
  · omega
  · have : isDec b.toNat = true := by
      unfold digitVal at h
      split at h
      · next hc' => simpa [isDec] using hc'
      · split at h
        · omega
        · split at h <;> omega
    simp only [isDec, Bool.and_eq_true, decide_eq_true_eq] at this
    omega

theorem scanNumber_int (lit bs : Bs) (hok : intOk lit = true) (hs : litStop (cur (chs bs)) = true) :
    scanNumber (chs lit ++ chs bs) = (lit.length, Tok.Int, []) := by
  cases lit with
  | nil => simp [intOk] at hok
  | cons d ds =>
    simp only [intOk, Bool.and_eq_true] at hok
    obtain ⟨hd, hrest⟩ := hok
    cases ds with
    | nil =>
      -- one digit: the peeked byte is 0 or a stop rune
      have hb : numBase (chs [d] ++ chs bs) = (10, 0) := by
        have hp : ∀ x, x = 98 ∨ x = 111 ∨ x = 120 → lowerB (peekB (ch d :: chs bs)) ≠ x := by
          intro x hx hl
          have hc := lowerB_cases _ _ hl
          rcases peekB_cur d bs with h | ⟨h, _⟩
          · rw [h] at hc
            obtain ⟨h1, -, -, h4⟩ := litStop_facts hs
            simp only [isAsciiLetter, Bool.or_eq_false_iff, Bool.and_eq_false_iff, decide_eq_false_iff_not,
              beq_eq_false_iff_ne] at h1
            simp only [eofR] at h4
            omega
          · rw [h] at hc; omega
        have h1 := hp 98 (Or.inl rfl)
        have h2 := hp 111 (Or.inr (Or.inl rfl))
        have h3 := hp 120 (Or.inr (Or.inr rfl))
        have e : chs [d] ++ chs bs = ch d :: chs bs := rfl
        rw [e]
        simp [numBase, h1, h2, h3]
      refine scanNumber_of [d] bs 10 0 hb ?_ hs
      have : numByte 10 d = true := by simp [numByte, digitVal_dec hd]
      simpa using digitsLen_num 10 (by omega) [d] bs (by simp [this]) hs
    | cons p r =>
      replace hrest : (if (d.toNat == 48) = true ∧ isPrefix p = true then r.all (numByte (baseOf p))
          else (p :: r).all (numByte 10)) = true := hrest
      by_cases hpre : (d.toNat == 48) = true ∧ isPrefix p = true
      · -- prefixed
        rw [if_pos hpre] at hrest
        simp only [beq_iff_eq] at hpre
        have hb16 : baseOf p ≤ 16 := by
          unfold baseOf
          split
          · omega
          · split <;> omega
        have hb : numBase (chs (d :: p :: r) ++ chs bs) = (baseOf p, 2) := by
          have e : chs (d :: p :: r) ++ chs bs = ch d :: ch p :: (chs r ++ chs bs) := rfl
          have hpk : peekB (ch d :: ch p :: (chs r ++ chs bs)) = p.toNat := rfl
          have hip := hpre.2
          simp only [isPrefix, Bool.or_eq_true, beq_iff_eq] at hip
          rw [e]
          simp only [numBase, cur_cons, ch_r, hpre.1, hpk, beq_self_eq_true, Bool.true_and, baseOf]
          rcases hip with (h | h) | h
          · simp [h]
          · simp [h]
          · simp [h]
        refine scanNumber_of (d :: p :: r) bs (baseOf p) 2 hb ?_ hs
        have e : (chs (d :: p :: r) ++ chs bs).drop 2 = chs r ++ chs bs := rfl
        rw [e, digitsLen_num (baseOf p) hb16 r bs hrest hs]
        simp; omega
      · -- decimal / legacy octal
        rw [if_neg hpre] at hrest
        have hall : (d :: p :: r).all (numByte 10) = true := by
          have : numByte 10 d = true := by simp [numByte, digitVal_dec hd]
          simp only [List.all_cons, this, Bool.true_and]
          simpa using hrest
        have hp10 : numByte 10 p = true := by
          simp only [List.all_cons, Bool.and_eq_true] at hrest; exact hrest.1
        have hb : numBase (chs (d :: p :: r) ++ chs bs) = (10, 0) := by
          have e : chs (d :: p :: r) ++ chs bs = ch d :: ch p :: (chs r ++ chs bs) := rfl
          have hpk : peekB (ch d :: ch p :: (chs r ++ chs bs)) = p.toNat := rfl
          have h1 := numByte10_lower p hp10 98 (Or.inl rfl)
          have h2 := numByte10_lower p hp10 111 (Or.inr (Or.inl rfl))
          have h3 := numByte10_lower p hp10 120 (Or.inr (Or.inr rfl))
          rw [e]
          simp [numBase, hpk, h1, h2, h3]
        refine scanNumber_of (d :: p :: r) bs 10 0 hb ?_ hs
        simpa using digitsLen_num 10 (by omega) (d :: p :: r) bs hall hs

/-- A number token: `scanNumber` consumes exactly the spelling `ds`, which starts with a digit. -/
theorem scanLoop_num (cls : Nat → Nat) (k : Tok) (ds : Bs) (hfirst : isDec (ds.headD 0).toNat = true) (hne : ds ≠ [])
    (bs : Bs) (off : Nat) (ins : Bool)
    (hn : scanNumber (chs ds ++ chs bs) = (ds.length, k, [])) :
    scanLoop cls (chs ds ++ chs bs) off ins =
      { toks := ⟨k, ds, off⟩ :: (scanLoop cls (chs bs) (off + ds.length) true).toks,
        errs := (scanLoop cls (chs bs) (off + ds.length) true).errs } := by
  cases ds with
  | nil => exact absurd rfl hne
  | cons d ds =>
    have hd0 : isDec d.toNat = true := hfirst
    have hdn := hd0
    simp only [isDec, Bool.and_eq_true, decide_eq_true_eq] at hdn
    have hst : scan1 cls ins (ch d) (chs ds ++ chs bs) =
        { m := ds.length, tok := some (k, d :: ds), ins := true, errs := [] } := by
      have h32 : d.toNat ≠ 32 := by omega
      have h9 : d.toNat ≠ 9 := by omega
      have h13 : d.toNat ≠ 13 := by omega
      have h10 : d.toNat ≠ 10 := by omega
      have hl : isLetter cls d.toNat = false := by
        have : isAsciiLetter d.toNat = false := by
          simp only [isAsciiLetter, Bool.or_eq_false_iff, Bool.and_eq_false_iff, decide_eq_false_iff_not,
            beq_eq_false_iff_ne]
          omega
        have h128 : ¬ d.toNat ≥ 128 := by omega
        simp [isLetter, this, h128]
      have hn' : scanNumber (ch d :: (chs ds ++ chs bs)) = (ds.length + 1, k, []) := hn
      have htk : List.take ds.length (chs ds ++ chs bs) = chs ds := take_chs_append' ds bs
      have hlit : litOf (ch d :: chs ds) = d :: ds := litOf_chs (d :: ds)
      simp [scan1, scanR, h32, h9, h13, h10, hl, hd0, hn', htk, hlit]
    have hcm : atComment (ch d) (chs ds ++ chs bs) = false := by
      have : d.toNat ≠ 47 := by omega
      simp [atComment, this]
    rw [chs_cons, List.cons_append]
    rw [scanLoop_tok cls _ _ off ins _ _ _ _ hcm (clean_append (clean_chs _) (clean_chs _)) hst]
    rw [take_chs_append, drop_chs_append, ← chs_cons, width_chs]

/-- **Integer literal step.** An Int spelling (`intOk`) followed by a rune that cannot continue a number. -/
theorem scanLoop_int (cls : Nat → Nat) (ds : Bs) (hok : intOk ds = true) (bs : Bs) (off : Nat) (ins : Bool)
    (hs : litStop (cur (chs bs)) = true) :
    scanLoop cls (chs ds ++ chs bs) off ins =
      { toks := ⟨.Int, ds, off⟩ :: (scanLoop cls (chs bs) (off + ds.length) true).toks,
        errs := (scanLoop cls (chs bs) (off + ds.length) true).errs } := by
  have hn := scanNumber_int ds bs hok hs
  cases ds with
  | nil => simp [intOk] at hok
  | cons d ds =>
    have hd0 : isDec d.toNat = true := by
      simp only [intOk, Bool.and_eq_true] at hok; exact hok.1
    exact scanLoop_num cls .Int (d :: ds) hd0 (by simp) bs off ins hn

/-! ### Float literals: digits [`.` digits] [`e` [sign] digits] -/

def isDecByte (b : UInt8) : Bool := isDec b.toNat

/-- Exponent part: empty, or `e`/`E`, an optional sign, at least one digit. -/
def expOk : Bs → Bool
  | [] => true
  | e :: t =>
    (e.toNat == 101 || e.toNat == 69) &&
      (match t with
       | sg :: x => if sg.toNat == 43 || sg.toNat == 45 then !x.isEmpty && x.all isDecByte else t.all isDecByte
       | [] => false)

/-- Fraction part `.` digits (or nothing) and what follows it. -/
def dotSplit (r1 : Bs) : Bs × Bs :=
  match r1 with
  | c :: t => if c.toNat == 46 then (c :: t.takeWhile isDecByte, t.dropWhile isDecByte) else ([], r1)
  | [] => ([], [])

/-- Decimal float: digits, then a fraction `.` digits (digits possibly none) and/or an exponent. -/
def floatOk (lit : Bs) : Bool :=
  let a := lit.takeWhile isDecByte
  let ds := dotSplit (lit.dropWhile isDecByte)
  !a.isEmpty && (!ds.1.isEmpty || !ds.2.isEmpty) && expOk ds.2

theorem digitsLen_dec_stop (ds : Bs) (rest : List Ch) (hd : ds.all isDecByte = true)
    (hstop : cur rest ≠ 95 ∧ ¬ digitVal (cur rest) < 10) : digitsLen 10 (chs ds ++ rest) = ds.length := by
  induction ds with
  | nil =>
    cases rest with
    | nil => rfl
    | cons c r =>
      simp only [cur_cons] at hstop
      simp [digitsLen, hstop.1, hstop.2]
  | cons d ds ih =>
    simp only [List.all_cons, Bool.and_eq_true] at hd
    have := digitVal_dec hd.1
    simp [digitsLen, this, ih hd.2]

/-- The rune after the mantissa: `e`, `E`, or a rune that ends the number. -/
def mantStop (r : Nat) : Bool := r == 101 || r == 69 || litStop r

def okPeek (p : Nat) : Prop := ∀ x, x = 98 ∨ x = 111 ∨ x = 120 → lowerB p ≠ x

theorem okPeek_of (p : Nat) (h : p ≠ 98 ∧ p ≠ 66 ∧ p ≠ 111 ∧ p ≠ 79 ∧ p ≠ 120 ∧ p ≠ 88) : okPeek p := by
  intro x hx hl
  have := lowerB_cases _ _ hl
  omega

theorem mantStop_facts {r : Nat} (h : mantStop r = true) :
    r ≠ 95 ∧ ¬ digitVal r < 10 ∧ r ≠ 46 ∧ okPeek r := by
  simp only [mantStop, Bool.or_eq_true, beq_iff_eq] at h
  rcases h with (h | h) | h
  · subst h; exact ⟨by decide, by decide, by decide, okPeek_of _ (by omega)⟩
  · subst h; exact ⟨by decide, by decide, by decide, okPeek_of _ (by omega)⟩
  · obtain ⟨h1, h2, h3, h4⟩ := litStop_facts h
    obtain ⟨hv, h95⟩ := digitVal_stop h
    simp only [isAsciiLetter, Bool.or_eq_false_iff, Bool.and_eq_false_iff, decide_eq_false_iff_not,
      beq_eq_false_iff_ne] at h1
    exact ⟨h95, by omega, h3, okPeek_of _ (by omega)⟩

def headNat : Bs → Nat
  | b :: _ => b.toNat
  | [] => 0

theorem peekB_head (d : UInt8) (rest : Bs) : peekB (ch d :: chs rest) = headNat rest := by
  cases rest <;> rfl

theorem cur_head (rest : Bs) (h : rest ≠ []) : cur (chs rest) = headNat rest := by
  cases rest with
  | nil => exact absurd rfl h
  | cons b r => rfl

theorem numBase_plain (d : UInt8) (rest : Bs) (h : okPeek (headNat rest)) : numBase (ch d :: chs rest) = (10, 0) := by
  have h1 := h 98 (Or.inl rfl)
  have h2 := h 111 (Or.inr (Or.inl rfl))
  have h3 := h 120 (Or.inr (Or.inr rfl))
  rw [← peekB_head d rest] at h1 h2 h3
  simp [numBase, h1, h2, h3]

theorem okPeek_dec {b : UInt8} (h : isDecByte b = true) : okPeek b.toNat := by
  simp only [isDecByte, isDec, Bool.and_eq_true, decide_eq_true_eq] at h
  exact okPeek_of _ (by omega)

/-- The tail behind the digits of the mantissa: what `peek()` and the current rune are there. -/
theorem okPeek_tail (tb : Bs) (hs : mantStop (cur (chs tb)) = true) : okPeek (headNat tb) := by
  cases tb with
  | nil => exact okPeek_of _ (by decide)
  | cons b r => exact (mantStop_facts hs).2.2.2

/-- Mantissa: digits and an optional fraction, followed by `tb` whose first rune ends the mantissa. -/
theorem numMant_float (a dotp tb : Bs) (ha : a ≠ []) (hda : a.all isDecByte = true)
    (hdot : dotp = [] ∨ ∃ f, dotp = 46 :: f ∧ f.all isDecByte = true) (hs : mantStop (cur (chs tb)) = true) :
    numMant (chs (a ++ dotp) ++ chs tb) = (!dotp.isEmpty, (a ++ dotp).length) := by
  obtain ⟨s95, sdv, s46, -⟩ := mantStop_facts hs
  have e0 : chs (a ++ dotp) ++ chs tb = chs a ++ chs (dotp ++ tb) := by simp [chs_append]
  -- base 10, no prefix
  have hb : numBase (chs (a ++ dotp) ++ chs tb) = (10, 0) := by
    cases a with
    | nil => exact absurd rfl ha
    | cons d a' =>
      have e : chs (d :: a' ++ dotp) ++ chs tb = ch d :: chs (a' ++ dotp ++ tb) := by simp [chs_append]
      rw [e]
      apply numBase_plain
      simp only [List.all_cons, Bool.and_eq_true] at hda
      cases a' with
      | cons d2 a2 => exact okPeek_dec (by simp only [List.all_cons, Bool.and_eq_true] at hda; exact hda.2.1)
      | nil =>
        rcases hdot with rfl | ⟨f, rfl, -⟩
        · exact okPeek_tail tb hs
        · exact okPeek_of (46 : UInt8).toNat (by decide)
  -- the integer digits
  have hl1 : digitsLen 10 (chs (a ++ dotp) ++ chs tb) = a.length := by
    rw [e0]
    refine digitsLen_dec_stop a _ hda ?_
    rcases hdot with rfl | ⟨f, rfl, -⟩
    · exact ⟨s95, sdv⟩
    · simp [cur_cons, digitVal]
  have hdrop1 : (chs (a ++ dotp) ++ chs tb).drop a.length = chs (dotp ++ tb) := by
    rw [e0]; exact List.drop_left' (by simp)
  rcases hdot with rfl | ⟨f, rfl, hdf⟩
  · simp only [numMant, hb, List.drop_zero, Nat.zero_add, hl1, hdrop1, List.nil_append]
    simp [s46]
  · have e1 : chs (46 :: f ++ tb) = ch 46 :: (chs f ++ chs tb) := by simp [chs_append]
    have hdrop2 : (chs (a ++ 46 :: f) ++ chs tb).drop (a.length + 1) = chs f ++ chs tb := by
      rw [← List.drop_drop, hdrop1, e1]; rfl
    have hl2 : digitsLen 10 (chs f ++ chs tb) = f.length := digitsLen_dec_stop f _ hdf ⟨s95, sdv⟩
    simp only [numMant, hb, List.drop_zero, Nat.zero_add, hl1, hdrop1, e1, hdrop2, hl2, cur_cons, ch_r]
    simp
    all_goals omega

/-- Exponent part as a structure: `e`/`E`, optional sign, digits. -/
theorem expOk_split (r2 : Bs) (h : expOk r2 = true) (hne : r2 ≠ []) :
    ∃ e sg x, r2 = e :: (sg ++ x) ∧ (e.toNat = 101 ∨ e.toNat = 69) ∧ (sg = [] ∨ sg = [43] ∨ sg = [45]) ∧ x ≠ [] ∧
      x.all isDecByte = true := by
  cases r2 with
  | nil => exact absurd rfl hne
  | cons e t =>
    simp only [expOk, Bool.and_eq_true, Bool.or_eq_true, beq_iff_eq] at h
    obtain ⟨he, ht⟩ := h
    cases t with
    | nil => exact absurd ht (by decide)
    | cons sg x =>
      replace ht : (if sg.toNat = 43 ∨ sg.toNat = 45 then (!x.isEmpty && x.all isDecByte) else (sg :: x).all isDecByte)
          = true := by simpa using ht
      by_cases hsg : sg.toNat = 43 ∨ sg.toNat = 45
      · rw [if_pos hsg] at ht
        simp only [Bool.and_eq_true, Bool.not_eq_true', List.isEmpty_eq_false_iff] at ht
        refine ⟨e, [sg], x, rfl, he, ?_, ht.1, ht.2⟩
        rcases hsg with h1 | h1
        · exact Or.inr (Or.inl (by rw [show sg = 43 from UInt8.toNat_inj.mp (by simpa using h1)]))
        · exact Or.inr (Or.inr (by rw [show sg = 45 from UInt8.toNat_inj.mp (by simpa using h1)]))
      · rw [if_neg hsg] at ht
        exact ⟨e, [], sg :: x, rfl, he, Or.inl rfl, by simp, ht⟩

theorem numExp_none (pre tb : Bs) (hs : litStop (cur (chs tb)) = true) :
    numExp (chs pre ++ chs tb) pre.length = none := by
  obtain ⟨h1, h2, h3, h4⟩ := litStop_facts hs
  simp only [numExp, drop_chs_append']
  simp only [isAsciiLetter, Bool.or_eq_false_iff, Bool.and_eq_false_iff, decide_eq_false_iff_not,
    beq_eq_false_iff_ne] at h1
  have a1 : cur (chs tb) ≠ 101 := by omega
  have a2 : cur (chs tb) ≠ 69 := by omega
  have a3 : cur (chs tb) ≠ 112 := by omega
  have a4 : cur (chs tb) ≠ 80 := by omega
  simp [a1, a2, a3, a4]

theorem numExp_some (pre : Bs) (e : UInt8) (sg x bs : Bs) (he : e.toNat = 101 ∨ e.toNat = 69)
    (hsg : sg = [] ∨ sg = [43] ∨ sg = [45]) (hx : x ≠ []) (hdx : x.all isDecByte = true)
    (hs : litStop (cur (chs bs)) = true) :
    numExp (chs pre ++ chs (e :: (sg ++ x) ++ bs)) pre.length = some ((pre ++ e :: (sg ++ x)).length, []) := by
  obtain ⟨hv, h95⟩ := digitVal_stop hs
  have hstop : cur (chs bs) ≠ 95 ∧ ¬ digitVal (cur (chs bs)) < 10 := ⟨h95, by omega⟩
  have hcur : cur (chs (e :: (sg ++ x) ++ bs)) = e.toNat := rfl
  have hE : (e.toNat == 101 || e.toNat == 69 || e.toNat == 112 || e.toNat == 80) = true := by
    rcases he with h | h <;> simp [h]
  have hdl : digitsLen 10 (chs x ++ chs bs) = x.length := digitsLen_dec_stop x _ hdx hstop
  have hxpos : 0 < x.length := List.length_pos_iff.mpr hx
  cases x with
  | nil => exact absurd rfl hx
  | cons x0 x' =>
    have hx0 : isDec x0.toNat = true := by
      simp only [List.all_cons, Bool.and_eq_true] at hdx; exact hdx.1
    simp only [isDec, Bool.and_eq_true, decide_eq_true_eq] at hx0
    have hdrop0 : (chs pre ++ chs (e :: (sg ++ x0 :: x') ++ bs)).drop pre.length = chs (e :: (sg ++ x0 :: x') ++ bs) :=
      drop_chs_append' pre _
    have hdrop1 : (chs pre ++ chs (e :: (sg ++ x0 :: x') ++ bs)).drop (pre.length + 1) =
        chs (sg ++ x0 :: x') ++ chs bs := by
      rw [← List.drop_drop, hdrop0]; simp [chs_append]
    rcases hsg with rfl | rfl | rfl
    · -- no sign
      have hc : cur (chs ([] ++ x0 :: x') ++ chs bs) = x0.toNat := rfl
      have n43 : x0.toNat ≠ 43 := by omega
      have n45 : x0.toNat ≠ 45 := by omega
      have hcond : (x0.toNat == 45 || x0.toNat == 43) = false := by simp [n43, n45]
      have hdl' : digitsLen 10 (chs ([] ++ x0 :: x') ++ chs bs) = (x0 :: x').length := hdl
      simp only [numExp, hdrop0, hcur, hE, if_true, hdrop1, hc, hcond, Bool.false_eq_true, if_false, hdl']
      simp
      all_goals omega
    · have hc : cur (chs ([43] ++ x0 :: x') ++ chs bs) = 43 := rfl
      have hdrop2 : (chs pre ++ chs (e :: ([43] ++ x0 :: x') ++ bs)).drop (pre.length + 1 + 1) =
          chs (x0 :: x') ++ chs bs := by
        rw [← List.drop_drop, hdrop1]; rfl
      simp only [numExp, hdrop0, hcur, hE, if_true, hdrop1, hc]
      simp only [beq_self_eq_true, Bool.or_true, if_true, hdrop2, hdl]
      simp
      all_goals omega
    · have hc : cur (chs ([45] ++ x0 :: x') ++ chs bs) = 45 := rfl
      have hdrop2 : (chs pre ++ chs (e :: ([45] ++ x0 :: x') ++ bs)).drop (pre.length + 1 + 1) =
          chs (x0 :: x') ++ chs bs := by
        rw [← List.drop_drop, hdrop1]; rfl
      simp only [numExp, hdrop0, hcur, hE, if_true, hdrop1, hc]
      simp only [beq_self_eq_true, Bool.true_or, if_true, hdrop2, hdl]
      simp
      all_goals omega

theorem floatOk_split (lit : Bs) (h : floatOk lit = true) :
    ∃ a dotp r2, lit = a ++ dotp ++ r2 ∧ a ≠ [] ∧ a.all isDecByte = true ∧
      (dotp = [] ∨ ∃ f, dotp = 46 :: f ∧ f.all isDecByte = true) ∧ (dotp ≠ [] ∨ r2 ≠ []) ∧ expOk r2 = true := by
  simp only [floatOk, Bool.and_eq_true, Bool.not_eq_true', List.isEmpty_eq_false_iff, Bool.or_eq_true] at h
  obtain ⟨⟨ha, hne⟩, hexp⟩ := h
  have hsplit := List.takeWhile_append_dropWhile (p := isDecByte) (l := lit)
  refine ⟨lit.takeWhile isDecByte, (dotSplit (lit.dropWhile isDecByte)).1, (dotSplit (lit.dropWhile isDecByte)).2,
    ?_, ha, List.all_takeWhile, ?_, hne, hexp⟩
  · have : (dotSplit (lit.dropWhile isDecByte)).1 ++ (dotSplit (lit.dropWhile isDecByte)).2 =
        lit.dropWhile isDecByte := by
      generalize lit.dropWhile isDecByte = r1
      cases r1 with
      | nil => rfl
      | cons c t =>
        simp only [dotSplit]
        split
        · simp [List.takeWhile_append_dropWhile]
        · rfl
    rw [List.append_assoc, this, hsplit]
  · generalize lit.dropWhile isDecByte = r1
    cases r1 with
    | nil => exact Or.inl rfl
    | cons c t =>
      simp only [dotSplit]
      split
      · next hc =>
        have : c = 46 := UInt8.toNat_inj.mp (by simpa using hc)
        subst this
        exact Or.inr ⟨_, rfl, List.all_takeWhile⟩
      · exact Or.inl rfl

theorem scanNumber_float (lit bs : Bs) (hok : floatOk lit = true) (hs : litStop (cur (chs bs)) = true) :
    scanNumber (chs lit ++ chs bs) = (lit.length, Tok.Float, []) := by
  obtain ⟨a, dotp, r2, rfl, ha, hda, hdot, hne, hexp⟩ := floatOk_split lit hok
  have eall : chs (a ++ dotp ++ r2) ++ chs bs = chs (a ++ dotp) ++ chs (r2 ++ bs) := by simp [chs_append]
  by_cases hr2 : r2 = []
  · subst hr2
    have hd : dotp ≠ [] := by rcases hne with h | h; exact h; exact absurd rfl h
    have hm := numMant_float a dotp bs ha hda hdot (by simp [mantStop, hs])
    have he := numExp_none (a ++ dotp) bs hs
    simp only [List.append_nil] at eall ⊢
    simp only [scanNumber, hm, he]
    have : dotp.isEmpty = false := by cases dotp with
      | nil => exact absurd rfl hd
      | cons _ _ => rfl
    simp [this]
  · obtain ⟨e, sg, x, rfl, he, hsg, hx, hdx⟩ := expOk_split r2 hexp hr2
    have hcur : mantStop (cur (chs (e :: (sg ++ x) ++ bs))) = true := by
      have : cur (chs (e :: (sg ++ x) ++ bs)) = e.toNat := rfl
      rw [this]
      rcases he with h | h <;> simp [mantStop, h]
    have hm := numMant_float a dotp (e :: (sg ++ x) ++ bs) ha hda hdot hcur
    have hex := numExp_some (a ++ dotp) e sg x bs he hsg hx hdx hs
    rw [eall]
    simp only [scanNumber, hm, hex]

/-- **Float literal step.** -/
theorem scanLoop_float (cls : Nat → Nat) (lit : Bs) (hok : floatOk lit = true) (bs : Bs) (off : Nat) (ins : Bool)
    (hs : litStop (cur (chs bs)) = true) :
    scanLoop cls (chs lit ++ chs bs) off ins =
      { toks := ⟨.Float, lit, off⟩ :: (scanLoop cls (chs bs) (off + lit.length) true).toks,
        errs := (scanLoop cls (chs bs) (off + lit.length) true).errs } := by
  have hn := scanNumber_float lit bs hok hs
  obtain ⟨a, dotp, r2, rfl, ha, hda, -, -, -⟩ := floatOk_split lit hok
  refine scanLoop_num cls .Float _ ?_ ?_ bs off ins hn
  · cases a with
    | nil => exact absurd rfl ha
    | cons d a' =>
      simp only [List.all_cons, Bool.and_eq_true] at hda
      exact hda.1
  · cases a with
    | nil => exact absurd rfl ha
    | cons d a' => simp

/-! ### Interpreted string and char literals -/

/-- A plain character of a quoted literal: ASCII, not NUL, newline, the quote or the backslash. -/
def plainB (q : Nat) (b : UInt8) : Bool :=
  0 < b.toNat && b.toNat < 128 && b.toNat != 10 && b.toNat != q && b.toNat != 92

/-- Mode of the quoted-literal automaton without the error offset. -/
inductive BMode where
  | normal
  | esc
  | digits (n base max x : Nat)

def BMode.toQ : BMode → Nat → QMode
  | .normal, _ => .normal
  | .esc, _ => .esc
  | .digits n base max x, offs => .digits n base max x offs

/-- The mode after the character behind a backslash (`none`: unknown escape). -/
def escNext (q e : Nat) : Option BMode :=
  if isSimpleEsc q e then some .normal
  else if 48 ≤ e && e ≤ 55 then some (.digits 2 8 255 (e - 48))
  else if e == 120 then some (.digits 2 16 255 0)
  else if e == 117 then some (.digits 4 16 0x10FFFF 0)
  else if e == 85 then some (.digits 8 16 0x10FFFF 0)
  else none

/-- Body of a quoted literal: plain characters, the simple escapes, and the numeric escapes `\ooo` (at most 255),
`\xhh`, `\uhhhh`, `\Uhhhhhhhh` (a valid code point, no surrogate) — exactly the escapes `scanEscape` accepts. -/
def bodyOk (q : Nat) : BMode → Bs → Bool
  | .normal, [] => true
  | .esc, [] => false
  | .digits _ _ _ _, [] => false
  | .normal, b :: r => if b.toNat == 92 then bodyOk q .esc r else plainB q b && bodyOk q .normal r
  | .esc, e :: r =>
    match escNext q e.toNat with
    | some m => bodyOk q m r
    | none => false
  | .digits n base max x, c :: r =>
    digitVal c.toNat < base &&
      (if n ≤ 1 then
        !(x * base + digitVal c.toNat > max || (0xD800 ≤ x * base + digitVal c.toNat && x * base + digitVal c.toNat < 0xE000)) &&
          bodyOk q .normal r
      else bodyOk q (.digits (n - 1) base max (x * base + digitVal c.toNat)) r)

/-- Characters counted by the main loop of `scanRune`. -/
def mainCount (q : Nat) : BMode → Bs → Nat
  | _, [] => 0
  | .normal, b :: r => if b.toNat == 92 then mainCount q .esc r + 1 else mainCount q .normal r + 1
  | .esc, e :: r =>
    match escNext q e.toNat with
    | some m => mainCount q m r
    | none => 0
  | .digits n base max x, c :: r =>
    if n ≤ 1 then mainCount q .normal r else mainCount q (.digits (n - 1) base max (x * base + digitVal c.toNat)) r

theorem quoted_normal (q : Nat) (i : Nat) (c : Ch) (rest : List Ch) : quoted q .normal i (c :: rest) =
    (if c.r == 10 then { n := i, errs := [], valid := true }
     else if c.r == q then { n := i + 1, errs := [], valid := true, closed := true }
     else
       let t := quoted q (if c.r == 92 then .esc else .normal) (i + 1) rest
       { t with errs := [] ++ t.errs, main := t.main + 1, valid := true && t.valid }) := by
  rw [quoted.eq_def]

theorem quoted_esc (q : Nat) (i : Nat) (c : Ch) (rest : List Ch) (m : BMode) (h : escNext q c.r = some m) :
    quoted q .esc i (c :: rest) = quoted q (m.toQ i) (i + 1) rest := by
  rw [quoted.eq_def]
  unfold escNext at h
  by_cases h1 : isSimpleEsc q c.r = true
  · simp only [h1, if_true, Option.some.injEq] at h
    subst h
    simp [cur_cons, h1, BMode.toQ]
  · simp only [h1, Bool.false_eq_true, if_false] at h
    by_cases h2 : (48 ≤ c.r && c.r ≤ 55) = true
    · simp only [h2, if_true, Option.some.injEq] at h
      subst h
      simp only [Bool.and_eq_true, decide_eq_true_eq] at h2
      simp [cur_cons, h1, h2.1, h2.2, BMode.toQ]
    · simp only [h2, Bool.false_eq_true, if_false] at h
      have h2' : ¬ (48 ≤ c.r ∧ c.r ≤ 55) := by simpa using h2
      by_cases h3 : c.r = 120
      · simp only [h3, beq_self_eq_true, if_true, Option.some.injEq] at h
        subst h
        have h1' : isSimpleEsc q 120 = false := by simpa [h3] using h1
        simp [cur_cons, h3, h1', BMode.toQ]
      · have h3' : (c.r == 120) = false := by simpa using h3
        simp only [h3', Bool.false_eq_true, if_false] at h
        by_cases h4 : c.r = 117
        · simp only [h4, beq_self_eq_true, if_true, Option.some.injEq] at h
          subst h
          have h1' : isSimpleEsc q 117 = false := by simpa [h4] using h1
          simp [cur_cons, h4, h1', BMode.toQ]
        · have h4' : (c.r == 117) = false := by simpa using h4
          simp only [h4', Bool.false_eq_true, if_false] at h
          by_cases h5 : c.r = 85
          · simp only [h5, beq_self_eq_true, if_true, Option.some.injEq] at h
            subst h
            have h1' : isSimpleEsc q 85 = false := by simpa [h5] using h1
            simp [cur_cons, h5, h1', BMode.toQ]
          · have h5' : (c.r == 85) = false := by simpa using h5
            simp [h5'] at h

theorem quoted_digits_last (q n base max x offs i : Nat) (c : Ch) (rest : List Ch) (hd : digitVal c.r < base)
    (hn : n ≤ 1) (hok : (x * base + digitVal c.r > max ||
      (0xD800 ≤ x * base + digitVal c.r && x * base + digitVal c.r < 0xE000)) = false) :
    quoted q (.digits n base max x offs) i (c :: rest) = quoted q .normal (i + 1) rest := by
  rw [quoted.eq_def]
  simp only [cur_cons, hd, if_true, hn]
  simp only [hok, Bool.false_eq_true, if_false]

theorem quoted_digits_more (q n base max x offs i : Nat) (c : Ch) (rest : List Ch) (hd : digitVal c.r < base)
    (hn : ¬ n ≤ 1) :
    quoted q (.digits n base max x offs) i (c :: rest) =
      quoted q (.digits (n - 1) base max (x * base + digitVal c.r) offs) (i + 1) rest := by
  rw [quoted.eq_def]
  simp only [cur_cons, hd, if_true, hn, if_false]

theorem quoted_body (q : UInt8) (hq : q.toNat ≠ 10) (hq2 : q.toNat ≠ 92) (cs : List Ch) :
    ∀ (body : Bs) (m : BMode) (i offs : Nat), bodyOk q.toNat m body = true →
    quoted q.toNat (m.toQ offs) i (chs body ++ ch q :: cs) =
      { n := i + body.length + 1, errs := [], main := mainCount q.toNat m body, valid := true, closed := true } := by
  intro body
  induction body with
  | nil =>
    intro m i offs h
    cases m with
    | normal =>
      simp only [BMode.toQ, chs_nil, List.nil_append]
      rw [quoted_normal]
      simp [hq, mainCount]
    | esc => simp [bodyOk] at h
    | digits n base max x => simp [bodyOk] at h
  | cons b r ih =>
    intro m i offs h
    cases m with
    | esc =>
      simp only [bodyOk] at h
      cases hm : escNext q.toNat b.toNat with
      | none => simp [hm] at h
      | some m' =>
        simp only [hm] at h
        have := ih m' (i + 1) i h
        simp only [BMode.toQ, chs_cons, List.cons_append]
        rw [quoted_esc _ _ _ _ m' (by simpa using hm), this]
        simp only [mainCount, hm, List.length_cons]
        congr 1; omega
    | digits n base max x =>
      simp only [bodyOk, Bool.and_eq_true, decide_eq_true_eq] at h
      obtain ⟨hd, hrest⟩ := h
      simp only [BMode.toQ, chs_cons, List.cons_append]
      by_cases hn : n ≤ 1
      · simp only [hn, if_true, Bool.and_eq_true, Bool.not_eq_true'] at hrest
        have := ih .normal (i + 1) offs hrest.2
        simp only [BMode.toQ] at this
        rw [quoted_digits_last _ _ _ _ _ _ _ _ _ (by simpa using hd) hn (by simp only [ch_r]; exact hrest.1), this]
        simp only [mainCount, hn, if_true, List.length_cons]
        congr 1; omega
      · simp only [hn, if_false] at hrest
        have := ih (.digits (n - 1) base max (x * base + digitVal b.toNat)) (i + 1) offs hrest
        simp only [BMode.toQ] at this
        rw [quoted_digits_more _ _ _ _ _ _ _ _ _ (by simpa using hd) hn]
        simp only [ch_r, this, mainCount, hn, if_false, List.length_cons]
        congr 1; omega
    | normal =>
      simp only [bodyOk] at h
      simp only [BMode.toQ, chs_cons, List.cons_append]
      rw [quoted_normal]
      by_cases hb : b.toNat = 92
      · simp only [hb, beq_self_eq_true, if_true] at h
        have := ih .esc (i + 1) offs h
        simp only [BMode.toQ] at this
        have hne : (92 : Nat) ≠ q.toNat := fun hc => hq2 hc.symm
        simp [hb, hne, this, mainCount]
        omega
      · have hb' : (b.toNat == 92) = false := by simpa using hb
        simp only [hb', Bool.false_eq_true, if_false, Bool.and_eq_true] at h
        have := ih .normal (i + 1) offs h.2
        simp only [BMode.toQ] at this
        have hp := h.1
        simp only [plainB, Bool.and_eq_true, decide_eq_true_eq, bne_iff_ne, ne_eq] at hp
        simp [hb, hp.1.1.2, hp.1.2, this, mainCount]
        omega

theorem chs_snoc (body : Bs) (q : UInt8) (bs : Bs) :
    chs (body ++ [q]) ++ chs bs = chs body ++ ch q :: chs bs := by
  simp [chs_append]

theorem litOf_take (q : UInt8) (body bs : Bs) :
    litOf (ch q :: List.take (body.length + 1) (chs (body ++ [q]) ++ chs bs)) = q :: (body ++ [q]) := by
  have h : List.take (body.length + 1) (chs (body ++ [q]) ++ chs bs) = chs (body ++ [q]) := by
    have := take_chs_append' (body ++ [q]) bs
    simpa using this
  rw [h]
  exact litOf_chs (q :: (body ++ [q]))

theorem scan1_str (cls : Nat → Nat) (ins : Bool) (body bs : Bs) (h : bodyOk 34 .normal body = true) :
    scan1 cls ins (ch 34) (chs (body ++ [34]) ++ chs bs) =
      { m := (body ++ [34]).length, tok := some (.String, 34 :: (body ++ [34])), ins := true, errs := [] } := by
  have hq := quoted_body 34 (by decide) (by decide) (chs bs) body .normal 1 0 h
  simp only [BMode.toQ] at hq
  have e34 : (34 : UInt8).toNat = 34 := rfl
  rw [e34] at hq
  have hl := litOf_take 34 body bs
  rw [chs_snoc] at hl ⊢
  have e1 : 1 + body.length + 1 - 1 = body.length + 1 := by omega
  have e2 : 1 + body.length + 1 = (body.length + 1) + 1 := by omega
  simp [scan1, scanR, isLetter, isAsciiLetter, isDec, hq, e1, e2, hl]

theorem scan1_chr (cls : Nat → Nat) (ins : Bool) (body bs : Bs) (h : bodyOk 39 .normal body = true)
    (hm : mainCount 39 .normal body = 1) :
    scan1 cls ins (ch 39) (chs (body ++ [39]) ++ chs bs) =
      { m := (body ++ [39]).length, tok := some (.Char, 39 :: (body ++ [39])), ins := true, errs := [] } := by
  have hq := quoted_body 39 (by decide) (by decide) (chs bs) body .normal 1 0 h
  simp only [BMode.toQ] at hq
  have e39 : (39 : UInt8).toNat = 39 := rfl
  rw [e39] at hq
  have hl := litOf_take 39 body bs
  rw [chs_snoc] at hl ⊢
  have e1 : 1 + body.length + 1 - 1 = body.length + 1 := by omega
  have e2 : 1 + body.length + 1 = (body.length + 1) + 1 := by omega
  simp [scan1, scanR, isLetter, isAsciiLetter, isDec, hq, e1, e2, hl, hm]

def qbody (lit : Bs) : Bs := (lit.drop 1).dropLast

/-- Interpreted string literal: `"`, plain characters and escapes, `"`. -/
def strOk (lit : Bs) : Bool := lit == 34 :: (qbody lit ++ [34]) && bodyOk 34 .normal (qbody lit)

/-- Char literal: `'`, one plain character or one escape, `'`. -/
def chrOk (lit : Bs) : Bool :=
  lit == 39 :: (qbody lit ++ [39]) && bodyOk 39 .normal (qbody lit) && mainCount 39 .normal (qbody lit) == 1

/-- **String literal step.** -/
theorem scanLoop_str (cls : Nat → Nat) (lit : Bs) (hok : strOk lit = true) (bs : Bs) (off : Nat) (ins : Bool) :
    scanLoop cls (chs lit ++ chs bs) off ins =
      { toks := ⟨.String, lit, off⟩ :: (scanLoop cls (chs bs) (off + lit.length) true).toks,
        errs := (scanLoop cls (chs bs) (off + lit.length) true).errs } := by
  simp only [strOk, Bool.and_eq_true, beq_iff_eq] at hok
  obtain ⟨he, hb⟩ := hok
  generalize qbody lit = body at he hb
  subst he
  have hst := scan1_str cls ins body bs hb
  have hcm : atComment (ch 34) (chs (body ++ [34]) ++ chs bs) = false := by simp [atComment]
  rw [chs_cons, List.cons_append]
  rw [scanLoop_tok cls _ _ off ins _ _ _ _ hcm (clean_append (clean_chs _) (clean_chs _)) hst]
  rw [take_chs_append, drop_chs_append, ← chs_cons, width_chs]

/-- **Char literal step.** -/
theorem scanLoop_chr (cls : Nat → Nat) (lit : Bs) (hok : chrOk lit = true) (bs : Bs) (off : Nat) (ins : Bool) :
    scanLoop cls (chs lit ++ chs bs) off ins =
      { toks := ⟨.Char, lit, off⟩ :: (scanLoop cls (chs bs) (off + lit.length) true).toks,
        errs := (scanLoop cls (chs bs) (off + lit.length) true).errs } := by
  simp only [chrOk, Bool.and_eq_true, beq_iff_eq] at hok
  obtain ⟨⟨he, hb⟩, hm⟩ := hok
  generalize qbody lit = body at he hb hm
  subst he
  have hst := scan1_chr cls ins body bs hb hm
  have hcm : atComment (ch 39) (chs (body ++ [39]) ++ chs bs) = false := by simp [atComment]
  rw [chs_cons, List.cons_append]
  rw [scanLoop_tok cls _ _ off ins _ _ _ _ hcm (clean_append (clean_chs _) (clean_chs _)) hst]
  rw [take_chs_append, drop_chs_append, ← chs_cons, width_chs]

example : strOk "\"a\\x41\\u00e9\\101\\U0001F600\"".toUTF8.toList = true ∧ strOk "\"\\400\"".toUTF8.toList = false ∧
    strOk "\"\\ud800\"".toUTF8.toList = false ∧ strOk "\"\\q\"".toUTF8.toList = false ∧
    chrOk "'\\x41'".toUTF8.toList = true ∧ chrOk "'\\x4'".toUTF8.toList = false := by
  decide +kernel

example : strOk "\"a\\n b\\\"\"".toUTF8.toList = true ∧ chrOk "'x'".toUTF8.toList = true ∧
    chrOk "'\\''".toUTF8.toList = true ∧ chrOk "'ab'".toUTF8.toList = false ∧ intOk "0123".toUTF8.toList = true ∧
    floatOk "3.25".toUTF8.toList = true ∧ floatOk "1.".toUTF8.toList = true ∧ floatOk ".5".toUTF8.toList = false ∧
    floatOk "1e9".toUTF8.toList = true ∧ floatOk "2.5E-3".toUTF8.toList = true ∧ floatOk "1e".toUTF8.toList = false ∧
    floatOk "1e+".toUTF8.toList = false ∧
    floatOk "12".toUTF8.toList = false ∧ intOk "0x1F_f".toUTF8.toList = true ∧ intOk "0b12".toUTF8.toList = false ∧ intOk "1_000".toUTF8.toList = true := by
  decide +kernel

end Tengo.Proofs.C20Bytes2Scan

import Tengo.Proofs.C06StackBase
/-!
# C06: the operand stack of the whole-VM model is bounded — the invariant of `run`

`SInv` holds in `initCore`, is kept by every dispatch of EVERY code object (no verifier hypothesis) and
therefore holds in every configuration a run reaches.

Why `sp ≤ StackSize` alone is not an invariant: OpCall sets `v.sp = v.sp - numArgs + callee.NumLocals`
without a test (vm.go), so directly after a call the stack pointer may lie above the array by at most
the callee's `NumLocals`; the next push at such an `sp` is the Go index panic.
-/
namespace Tengo.Model.VM
open Tengo.Model.Spec Tengo.Model.Opcodes

/-- The operand-stack invariant. -/
structure SInv (code : Code) (c : Core) : Prop where
  /-- the stack array has its initial size -/
  size : c.regs.stack.size = stackSize
  /-- `sp` is within the array, or (directly after a call) within the frame's locals -/
  sp : c.regs.sp ≤ stackSize ∨ ∃ f, code.fn c.cur.fnIdx = some f ∧ c.regs.sp ≤ c.cur.bp + f.numLocals
  /-- every base pointer is within the array -/
  bp : c.cur.bp ≤ stackSize
  bps : ∀ fr ∈ c.callers, fr.bp ≤ stackSize

def SGoal (code : Code) : ExecOut → Prop
  | .next c' _ => SInv code c'
  | .halt c' => SInv code c'

theorem SInv_init (code : Code) (globals : Array Value) (fobjs : Array FnObj) : SInv code (initCore globals fobjs) :=
  ⟨by simp [initCore], Or.inl (by simp [initCore]), by simp [initCore], by simp [initCore]⟩

/-- A step that stays in the frame and moves the registers by `RStep` keeps the invariant. -/
theorem SInv_same {code : Code} {c c' : Core} (h : SInv code c) (hr : RStep c.regs c'.regs)
    (hf : c'.cur.fnIdx = c.cur.fnIdx) (hb : c'.cur.bp = c.cur.bp) (hc : c'.callers = c.callers) : SInv code c' := by
  obtain ⟨h1, h2⟩ := hr
  refine ⟨by rw [h1, h.size], ?_, by rw [hb]; exact h.bp, by rw [hc]; exact h.bps⟩
  rcases h2 with h2 | h2
  · rcases h.sp with h3 | ⟨f, hf', h3⟩
    · left; omega
    · right; exact ⟨f, by rw [hf]; exact hf', by rw [hb]; omega⟩
  · left; exact h2

theorem getSlot_in (r : Regs) (i : Nat) (h : getSlot r i ≠ .undef) : i < r.stack.size := by
  unfold getSlot at h
  by_cases hi : i < r.stack.size
  · exact hi
  · exfalso; apply h
    simp [Array.getD, hi]

theorem spreadArgs_size (r : Regs) (n0 spread : Nat) (hb : r.sp ≤ stackSize + n0) :
    Post (spreadArgs r n0 spread) (fun out => out.1.stack.size = r.stack.size ∧ out.1.sp ≤ stackSize + out.2) := by
  have hss : stackSize = 2048 := rfl
  unfold spreadArgs
  split
  · split
    · refine Post_bind_true' (fun es => ?_)
      refine Post_bind (pushAll_size es _) ?_
      rintro r1 ⟨h1, h2, h3⟩
      apply Post_pure
      dsimp only at h1 h2 h3 ⊢
      exact ⟨h1, by omega⟩
    · refine Post_bind_true' (fun es => ?_)
      refine Post_bind (pushAll_size es _) ?_
      rintro r1 ⟨h1, h2, h3⟩
      apply Post_pure
      dsimp only at h1 h2 h3 ⊢
      exact ⟨h1, by omega⟩
    · exact Post_eRt _
  · exact Post_pure ⟨rfl, hb⟩

theorem rollUp_size (cf : Fn) (r : Regs) (n : Nat) (hb : r.sp ≤ stackSize + n) :
    Post (rollUp cf r n) (fun out => out.1.stack.size = r.stack.size ∧ out.1.sp ≤ stackSize + out.2) := by
  unfold rollUp
  split
  · dsimp only
    refine Post_bind_true' (fun a => ?_)
    refine Post_bind (setSlot_size _ _ _) ?_
    rintro r1 ⟨h1, h2, h3⟩
    apply Post_pure
    dsimp only
    exact ⟨h1, by omega⟩
  · exact Post_pure ⟨rfl, hb⟩

theorem Code.fn_succ (code : Code) (k : Nat) (cf : Fn) (ref : Nat) (hk : code.consts[k]? = some (.fn cf ref)) :
    code.fn (k + 1) = some cf := by
  unfold Code.fn
  simp [hk]

theorem finishCompiled_sinv (code : Code) (f : Fn) (ipAfter : Int) (c : Core) (r : Regs) (numArgs cr k : Nat)
    (free : List Nat) (cf : Fn) (ref : Nat) (hinv : SInv code c)
    (hk : code.consts[k]? = some (.fn cf ref))
    (hsz : r.stack.size = stackSize) (hsp : r.sp ≤ stackSize + numArgs) :
    PostX (finishCompiled f ipAfter c r numArgs cr k free cf) (SGoal code) := by
  unfold finishCompiled
  split
  · refine PostX_bind (PostX_em (copyArgs_size _ _ _ _)) ?_
    rintro r' ⟨h1, h2⟩
    apply PostX_pure
    exact ⟨by dsimp only; rw [h1, hsz], Or.inl (by dsimp only; omega), hinv.bp, hinv.bps⟩
  · split
    · exact PostX_rtE _
    · apply PostX_pure
      refine ⟨hsz, Or.inr ⟨cf, Code.fn_succ code k cf ref hk, by dsimp only; omega⟩, by dsimp only; omega, ?_⟩
      intro fr hfr
      simp only [List.mem_cons] at hfr
      rcases hfr with rfl | hfr
      · exact hinv.bp
      · exact hinv.bps fr hfr

theorem execCall_sinv (code : Code) (f : Fn) (ip : Int) (a0 a1 : Nat) (c : Core) (hinv : SInv code c) :
    PostX (execCall code f ip a0 a1 c) (SGoal code) := by
  unfold execCall
  dsimp only
  apply PostX_bind'; intro _
  split
  · -- compiled function
    rename_i cr hcallee
    have hin := getSlot_in c.regs _ (by rw [hcallee]; intro h; cases h)
    rw [hinv.size] at hin
    refine PostX_bind (PostX_em (spreadArgs_size _ _ _ (by omega))) ?_
    rintro ⟨r1, n1⟩ ⟨h1, h2⟩
    dsimp only at h1 h2 ⊢
    split
    · split
      · rename_i cf ref hk
        refine PostX_bind (PostX_em (rollUp_size cf r1 n1 h2)) ?_
        rintro ⟨r2, n2⟩ ⟨g1, g2⟩
        dsimp only at g1 g2 ⊢
        split
        · split <;> exact PostX_rtE _
        · exact finishCompiled_sinv code f _ c r2 n2 cr _ _ cf ref hinv hk (by rw [g1, h1, hinv.size]) g2
      · exact PostX_unsupE _
    · exact PostX_unsupE _
  · -- builtin
    rename_i name hcallee
    have hin := getSlot_in c.regs _ (by rw [hcallee]; intro h; cases h)
    rw [hinv.size] at hin
    refine PostX_bind (PostX_em (spreadArgs_size _ _ _ (by omega))) ?_
    rintro ⟨r1, n1⟩ ⟨h1, h2⟩
    dsimp only at h1 h2 ⊢
    apply PostX_bind'; intro ret
    refine PostX_bind (PostX_em (push_size _ _)) ?_
    rintro r2 ⟨g1, g2, g3⟩
    dsimp only at g1 g2 g3
    apply PostX_pure
    exact ⟨by dsimp only; rw [g1, h1, hinv.size], Or.inl g3, hinv.bp, hinv.bps⟩
  · exact PostX_unsupE _
  · exact PostX_rtE _

theorem execReturn_sinv (code : Code) (a0 : Nat) (c : Core) (hinv : SInv code c) :
    PostX (execReturn a0 c) (SGoal code) := by
  have rest : ∀ ret : Value, PostX (match c.callers with
      | [] => fault .returnFromMain
      | caller :: rest => do
          let r ← em (setSlot { c.regs with sp := c.cur.bp } (c.cur.bp - 1) ret)
          pure (.next { regs := r, cur := caller, callers := rest } false)) (SGoal code) := by
    intro ret
    split
    · exact PostX_fault _
    · rename_i caller rest hc
      refine PostX_bind (PostX_em (setSlot_size _ _ _)) ?_
      rintro r ⟨h1, h2, _⟩
      dsimp only at h1 h2
      apply PostX_pure
      have hmem : ∀ fr ∈ caller :: rest, fr.bp ≤ stackSize := by rw [← hc]; exact hinv.bps
      refine ⟨by dsimp only; rw [h1, hinv.size], Or.inl (by dsimp only; rw [h2]; exact hinv.bp), ?_, ?_⟩
      · exact hmem caller (by simp)
      · intro fr hfr; exact hmem fr (by simp [hfr])
  unfold execReturn
  dsimp only
  split
  · refine PostX_bind' (fun _ => ?_)
    exact rest _
  · exact rest _

/-- **One dispatch keeps the operand-stack invariant** — for every code object, without any
well-formedness hypothesis. -/
theorem exec_sinv (code : Code) (c : Core) (hinv : SInv code c) : PostX (exec code c) (SGoal code) := by
  unfold exec
  split
  · rename_i f hf
    dsimp only
    split
    · exact PostX_fault _
    · split
      · exact execCall_sinv code f _ _ _ c hinv
      · split
        · exact execReturn_sinv code _ c hinv
        · split
          · apply PostX_pure
            exact SInv_same hinv (RStep.refl _) rfl rfl rfl
          · refine PostX_bind (execSimple_st code c.cur _ _ _ c.regs) ?_
            intro o ho
            apply PostX_pure
            exact SInv_same hinv ho rfl rfl rfl
  · exact PostX_fault _

/-- **Every configuration a run reaches satisfies the operand-stack invariant** (the configuration an
outcome carries is the last one reached: take the fuel to be the number of dispatches up to it). -/
theorem run_sinv (code : Code) (keep : Nat) :
    ∀ (fuel : Nat) (allocs : Int) (cfg : Cfg) (log : Log), SInv code cfg.core →
      SInv code (run code keep fuel allocs cfg log).1.cfg.core := by
  intro fuel
  induction fuel with
  | zero => intro allocs cfg log h; simpa [run, Outcome.cfg] using h
  | succ fuel ih =>
    intro allocs cfg log h
    rw [run_succ]
    split
    · simpa [Outcome.cfg] using h
    · simpa [Outcome.cfg] using h
    · rename_i c g hh heq
      have := exec_sinv code cfg.core h _ _ _ _ _ heq _ rfl
      simpa [Outcome.cfg, SGoal] using this
    · rename_i c g hh heq
      have := exec_sinv code cfg.core h _ _ _ _ _ heq _ rfl
      exact ih allocs ⟨c, g, hh⟩ _ this
    · rename_i c g hh heq
      have := exec_sinv code cfg.core h _ _ _ _ _ heq _ rfl
      split
      · simpa [Outcome.cfg] using h
      · exact ih (allocs - 1) ⟨c, g, hh⟩ _ this

/-- The largest `NumLocals` of the code object's functions. -/
def Code.maxLocals (code : Code) : Nat :=
  code.consts.toList.foldr (fun k acc => match k with | .fn f _ => max f.numLocals acc | .val _ => acc) code.main.numLocals

theorem foldr_maxLocals_ge (l : List Const) (n : Nat) :
    n ≤ l.foldr (fun k acc => match k with | .fn f _ => max f.numLocals acc | .val _ => acc) n := by
  induction l with
  | nil => exact Nat.le_refl _
  | cons k l ih =>
    simp only [List.foldr_cons]
    cases k with
    | val v => exact ih
    | fn f ref => dsimp only; omega

theorem foldr_maxLocals_mem (l : List Const) (n : Nat) (f : Fn) (ref : Nat) (h : Const.fn f ref ∈ l) :
    f.numLocals ≤ l.foldr (fun k acc => match k with | .fn f _ => max f.numLocals acc | .val _ => acc) n := by
  induction l with
  | nil => cases h
  | cons k l ih =>
    simp only [List.foldr_cons]
    rcases List.mem_cons.1 h with rfl | h
    · dsimp only; omega
    · have := ih h
      cases k with
      | val v => exact this
      | fn f' ref' => dsimp only; omega

theorem Code.numLocals_le_max (code : Code) (idx : Nat) (f : Fn) (h : code.fn idx = some f) :
    f.numLocals ≤ code.maxLocals := by
  unfold Code.fn at h
  unfold Code.maxLocals
  split at h
  · cases h; exact foldr_maxLocals_ge _ _
  · split at h
    · rename_i f' ref hk
      cases h
      refine foldr_maxLocals_mem _ _ f ref ?_
      have := Array.mem_of_getElem? hk
      simpa using this
    · cases h

theorem SInv.sp_le {code : Code} {c : Core} (h : SInv code c) : c.regs.sp ≤ stackSize + code.maxLocals := by
  rcases h.sp with h1 | ⟨f, hf, h1⟩
  · omega
  · have := Code.numLocals_le_max code _ f hf
    have := h.bp
    omega

end Tengo.Model.VM

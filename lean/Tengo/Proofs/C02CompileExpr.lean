import Tengo.Proofs.C02CompileInv
import Tengo.Proofs.C02CompileSize
/-!
C02 / `compile_verifies`: the induction over the compiler model, part 1 (infrastructure and
expressions).
-/
set_option linter.unusedVariables false
set_option linter.unusedSimpArgs false
namespace Tengo.Proofs.C02Compile
open Tengo.Model Tengo.Model.Opcodes Tengo.Model.Compiler Tengo.Model.Optimizer Tengo.Model.Verifier
open Tengo.Model.Spec (Expr Stmt)
open Tengo.Proofs.C03 Tengo.Proofs.C03Reloc

/-- Result of a compilation step that appends the block `B`. -/
structure Out (s s' : CState) (L : List Instr) (F : List Nat) (n : Nat) (B : List Instr) (F' : List Nat) :
    Prop where
  inv : Inv s' (L ++ B) F'
  step : Step s s' F F'
  loops : s'.loops = s.loops
  size : totalSize B ≤ n

/-- … the block is the code of an expression -/
def ERes (s s' : CState) (L : List Instr) (F : List Nat) (n : Nat) : Prop :=
  ∃ B F', Out s s' L F n B F' ∧ ∀ a, EBlk (totalSize L) (totalSize L + totalSize B) a B

/-- … the block is closed, without POP / RET, and raises the height by `k` -/
def QRes (s s' : CState) (L : List Instr) (F : List Nat) (n k : Nat) : Prop :=
  ∃ B F', Out s s' L F n B F' ∧ ∀ a, Seq (totalSize L) (totalSize L + totalSize B) a (a + k) B

theorem QRes.nil {s : CState} {L : List Instr} {F : List Nat} (h : Inv s L F) : QRes s s L F 0 0 :=
  ⟨[], F, ⟨by simpa using h, Step.refl s F, rfl, by simp⟩, fun a => by simpa using Seq.nil (totalSize L) a⟩

theorem ERes.toQ {s s' : CState} {L : List Instr} {F : List Nat} {n : Nat} (h : ERes s s' L F n) :
    QRes s s' L F n 1 := by
  obtain ⟨B, F', ho, hb⟩ := h
  exact ⟨B, F', ho, fun a => (hb a).toSeq⟩

theorem QRes.mono {s s' : CState} {L : List Instr} {F : List Nat} {n n' k : Nat} (h : QRes s s' L F n k)
    (hn : n ≤ n') : QRes s s' L F n' k := by
  obtain ⟨B, F', ho, hb⟩ := h
  exact ⟨B, F', ⟨ho.inv, ho.step, ho.loops, Nat.le_trans ho.size hn⟩, hb⟩

theorem ERes.mono {s s' : CState} {L : List Instr} {F : List Nat} {n n' : Nat} (h : ERes s s' L F n)
    (hn : n ≤ n') : ERes s s' L F n' := by
  obtain ⟨B, F', ho, hb⟩ := h
  exact ⟨B, F', ⟨ho.inv, ho.step, ho.loops, Nat.le_trans ho.size hn⟩, hb⟩

/-- sequencing -/
theorem QRes.bind {s s₁ s₂ : CState} {L : List Instr} {F : List Nat} {n₁ n₂ k₁ k₂ : Nat}
    (h1 : QRes s s₁ L F n₁ k₁) (h2 : ∀ L₁ F₁, Inv s₁ L₁ F₁ → QRes s₁ s₂ L₁ F₁ n₂ k₂) :
    QRes s s₂ L F (n₁ + n₂) (k₁ + k₂) := by
  obtain ⟨B₁, F₁, o1, hb1⟩ := h1
  obtain ⟨B₂, F₂, o2, hb2⟩ := h2 _ _ o1.inv
  refine ⟨B₁ ++ B₂, F₂, ⟨by rw [← List.append_assoc]; exact o2.inv, o1.step.trans o2.step,
    o2.loops.trans o1.loops, by rw [totalSize_append]; have := o1.size; have := o2.size; omega⟩, ?_⟩
  intro a
  have e1 : totalSize (L ++ B₁) = totalSize L + totalSize B₁ := totalSize_append _ _
  have h := (hb1 a).append (by rw [e1] at hb2; exact hb2 (a + k₁))
  rw [totalSize_append]
  have e2 : totalSize L + totalSize B₁ + totalSize B₂ = totalSize L + (totalSize B₁ + totalSize B₂) := by omega
  have e3 : a + k₁ + k₂ = a + (k₁ + k₂) := by omega
  rw [e2, e3] at h; exact h

theorem shape_size {i : Instr} {ws : List Nat} (h : widths i.op = some ws) : i.size = 1 + ws.sum :=
  size_eq i ws h

/-- one more straight-line instruction -/
theorem QRes.emit {s s₁ : CState} {L : List Instr} {F : List Nat} {n k : Nat} (h1 : QRes s s₁ L F n k)
    {op : Nat} {args ws : List Nat} {pops pushes : Nat}
    (hw : widths op = some ws) (hlen : args.length = ws.length)
    (he : ∀ p, stackEffect ⟨p, op, args⟩ = some (pops, pushes)) (hp : pops ≤ k) (hpush : pushes ≤ 1)
    (hnp : op ≠ opPop)
    (hreq : ∀ p F₁, F <+: F₁ → opReq s₁.consts.toList F₁ (envOf s₁.tables) ⟨p, op, args⟩) :
    QRes s (emitS op args s₁) L F (n + (1 + ws.sum)) (k - pops + pushes) := by
  obtain ⟨B₁, F₁, o1, hb1⟩ := h1
  have e1 : totalSize (L ++ B₁) = totalSize L + totalSize B₁ := totalSize_append _ _
  have hsz : (Instr.mk (totalSize L + totalSize B₁) op args).size = 1 + ws.sum := shape_size hw
  have hinv := o1.inv.emit (op := op) (args := args) ⟨ws, hw, hlen⟩ (hreq _ _ o1.step.fs)
  rw [e1] at hinv
  refine ⟨B₁ ++ [⟨totalSize L + totalSize B₁, op, args⟩], F₁, ⟨by rw [← List.append_assoc]; exact hinv,
    o1.step.trans (Step.of_eq F₁ rfl rfl rfl), o1.loops,
    by rw [totalSize_append, totalSize_cons, totalSize_nil, hsz]; have := o1.size; omega⟩, ?_⟩
  intro a
  have hs := Seq.single (i := ⟨totalSize L + totalSize B₁, op, args⟩) (a := a + k) rfl (he _) (by omega) hpush hnp
  have h := (hb1 a).append hs
  rw [totalSize_append, totalSize_cons, totalSize_nil]
  have e2 : totalSize L + (totalSize B₁ + ((Instr.mk (totalSize L + totalSize B₁) op args).size + 0)) =
      totalSize L + totalSize B₁ + (Instr.mk (totalSize L + totalSize B₁) op args).size := by omega
  have e3 : a + (k - pops + pushes) = a + k - pops + pushes := by omega
  rw [e2, e3]; exact h

/-- … closing an expression: the instruction leaves exactly one value above the base -/
theorem QRes.emitE {s s₁ : CState} {L : List Instr} {F : List Nat} {n k : Nat} (h1 : QRes s s₁ L F n k)
    {op : Nat} {args ws : List Nat}
    (hw : widths op = some ws) (hlen : args.length = ws.length)
    {pops : Nat} (he : ∀ p, stackEffect ⟨p, op, args⟩ = some (pops, 1)) (hk : pops = k) (hnp : op ≠ opPop)
    (hreq : ∀ p F₁, F <+: F₁ → opReq s₁.consts.toList F₁ (envOf s₁.tables) ⟨p, op, args⟩) :
    ERes s (emitS op args s₁) L F (n + (1 + ws.sum)) := by
  subst hk
  obtain ⟨B₁, F₁, o1, hb1⟩ := h1
  have e1 : totalSize (L ++ B₁) = totalSize L + totalSize B₁ := totalSize_append _ _
  have hsz : (Instr.mk (totalSize L + totalSize B₁) op args).size = 1 + ws.sum := shape_size hw
  have hinv := o1.inv.emit (op := op) (args := args) ⟨ws, hw, hlen⟩ (hreq _ _ o1.step.fs)
  rw [e1] at hinv
  refine ⟨B₁ ++ [⟨totalSize L + totalSize B₁, op, args⟩], F₁, ⟨by rw [← List.append_assoc]; exact hinv,
    o1.step.trans (Step.of_eq F₁ rfl rfl rfl), o1.loops,
    by rw [totalSize_append, totalSize_cons, totalSize_nil, hsz]; have := o1.size; omega⟩, ?_⟩
  intro a
  have h := EBlk.ofSeq (i := ⟨totalSize L + totalSize B₁, op, args⟩) (hb1 a) rfl (he _) rfl hnp
  rw [totalSize_append, totalSize_cons, totalSize_nil]
  have e2 : totalSize L + (totalSize B₁ + ((Instr.mk (totalSize L + totalSize B₁) op args).size + 0)) =
      totalSize L + totalSize B₁ + (Instr.mk (totalSize L + totalSize B₁) op args).size := by omega
  rw [e2]; exact h

theorem demit_ok {op : Nat} {args : List Nat} {s : CState} {r : Unit × CState}
    (h : (discard (emit op args)) s = .ok r) : r.2 = emitS op args s := by
  obtain ⟨a, h⟩ := discard_ok h
  exact (Prod.mk.inj (emit_ok h)).2

theorem ERes.pre {s s₁ s' : CState} {L : List Instr} {F F₁ : List Nat} {n : Nat} (hst : Step s s₁ F F₁)
    (hl : s₁.loops = s.loops) (h : ERes s₁ s' L F₁ n) : ERes s s' L F n := by
  obtain ⟨B, F', ho, hb⟩ := h
  exact ⟨B, F', ⟨ho.inv, hst.trans ho.step, ho.loops.trans hl, ho.size⟩, hb⟩

theorem QRes.pre {s s₁ s' : CState} {L : List Instr} {F F₁ : List Nat} {n k : Nat} (hst : Step s s₁ F F₁)
    (hl : s₁.loops = s.loops) (h : QRes s₁ s' L F₁ n k) : QRes s s' L F n k := by
  obtain ⟨B, F', ho, hb⟩ := h
  exact ⟨B, F', ⟨ho.inv, hst.trans ho.step, ho.loops.trans hl, ho.size⟩, hb⟩

theorem QRes.castK {s s' : CState} {L : List Instr} {F : List Nat} {n k k' : Nat} (h : QRes s s' L F n k)
    (hk : k = k') : QRes s s' L F n k' := hk ▸ h

/-- a literal: `addConstant` of a value, then `CONST` -/
theorem eres_const {s s' : CState} {L : List Instr} {F : List Nat} (hinv : Inv s L F) (k : Const)
    (hk : isFnC k = false)
    (h : (do let i ← addConstant k; discard <| emit opConstant [i]) s = .ok ((), s')) : ERes s s' L F 3 := by
  obtain ⟨i, s1, h1, h⟩ := bind_ok h
  have e1 := addConstant_ok h1
  injection e1 with e1 e2; subst e1; subst e2
  have e3 := demit_ok h; simp only at e3; subst e3
  obtain ⟨hinv1, hst⟩ := hinv.add k 0 (fun code nl np va e => by subst e; cases hk)
  refine ERes.pre hst rfl ?_
  have := (QRes.nil hinv1).emitE (op := opConstant) (args := [s.consts.size]) (ws := [2]) rfl rfl
    (fun _ => rfl) rfl (by decide) (fun p F₁ hF₁ =>
      (opReq_const_new hinv.flen k 0 p (fun hh => rfl) _).mono (List.prefix_refl _) hF₁ (Env.le_refl _))
  exact this

/-! ### the statements proved by induction on the depth budget -/

def addPend (ls : List Loop) (bs cs : List Nat) : List Loop :=
  match ls with
  | [] => []
  | l :: r => { continues := l.continues ++ cs, breaks := l.breaks ++ bs } :: r

/-- Result of compiling a statement: `bs` / `cs` are the pending `break` / `continue` jumps it adds to
the innermost enclosing loop. -/
structure SOut (s s' : CState) (L : List Instr) (F : List Nat) (n : Nat) (B : List Instr) (F' : List Nat)
    (bs cs : List Nat) : Prop where
  inv : Inv s' (L ++ B) F'
  step : Step s s' F F'
  loops : s'.loops = addPend s.loops bs cs
  nopend : s.loops = [] → bs = [] ∧ cs = []
  size : totalSize B ≤ n
  blk : SBlk (totalSize L) (totalSize L + totalSize B) B bs cs

def SRes (s s' : CState) (L : List Instr) (F : List Nat) (n : Nat) : Prop :=
  ∃ B F' bs cs, SOut s s' L F n B F' bs cs

def ESpec (d : Nat) : Prop := ∀ (e : Expr) (s s' : CState) (L : List Instr) (F : List Nat),
  compileExpr d e s = .ok ((), s') → Inv s L F → szE d e < 2 ^ 30 → ERes s s' L F (szE d e)
def EsSpec (d : Nat) : Prop := ∀ (es : List Expr) (s s' : CState) (L : List Instr) (F : List Nat),
  compileExprs d es s = .ok ((), s') → Inv s L F → szEs d es < 2 ^ 30 → QRes s s' L F (szEs d es) es.length
def KVSpec (d : Nat) : Prop := ∀ (kvs : List (Spec.Bytes × Expr)) (s s' : CState) (L : List Instr) (F : List Nat),
  compileKVs d kvs s = .ok ((), s') → Inv s L F → szKVs d kvs < 2 ^ 30 →
    QRes s s' L F (szKVs d kvs) (2 * kvs.length)
def SelSpec (d : Nat) : Prop := ∀ (es : List Expr) (s s' : CState) (L : List Instr) (F : List Nat),
  compileSelsRev d es s = .ok ((), s') → Inv s L F → szSels d es < 2 ^ 30 → QRes s s' L F (szSels d es) es.length
def ASpec (d : Nat) : Prop := ∀ (lhs rhs : List Expr) (op : String) (s s' : CState) (L : List Instr) (F : List Nat),
  compileAssign d lhs rhs op s = .ok ((), s') → Inv s L F → szAssign d lhs rhs < 2 ^ 30 →
    SRes s s' L F (szAssign d lhs rhs)
def SSpec (d : Nat) : Prop := ∀ (st : Stmt) (s s' : CState) (L : List Instr) (F : List Nat),
  compileStmt d st s = .ok ((), s') → Inv s L F → szS d st < 2 ^ 30 → SRes s s' L F (szS d st)
def BSpec (d : Nat) : Prop := ∀ (ss : List Stmt) (s s' : CState) (L : List Instr) (F : List Nat),
  compileBlock d ss s = .ok ((), s') → Inv s L F → szBlock d ss < 2 ^ 30 → SRes s s' L F (szBlock d ss)
def SsSpec (d : Nat) : Prop := ∀ (ss : List Stmt) (s s' : CState) (L : List Instr) (F : List Nat),
  compileStmts d ss s = .ok ((), s') → Inv s L F → szSs d ss < 2 ^ 30 → SRes s s' L F (szSs d ss)

structure All (d : Nat) : Prop where
  e : ESpec d
  es : EsSpec d
  kvs : KVSpec d
  sels : SelSpec d
  a : ASpec d
  s : SSpec d
  b : BSpec d
  ss : SsSpec d

/-! ### expressions: the straight-line forms -/

theorem plain_req {s : CState} {op : Nat} {args : List Nat} (h : opClass op = .other) :
    ∀ (p : Nat) (F₁ : List Nat), opReq s.consts.toList F₁ (envOf s.tables) ⟨p, op, args⟩ :=
  fun _ _ => opReq_other h

theorem espec_un {d : Nat} (ih : All d) (tok : String) (x : Expr) (s s' : CState) (L : List Instr) (F : List Nat)
    (h : compileExpr (d + 1) (.un tok x) s = .ok ((), s')) (hinv : Inv s L F)
    (hsz : szE (d + 1) (.un tok x) < 2 ^ 30) : ERes s s' L F (szE (d + 1) (.un tok x)) := by
  rw [compileExpr] at h
  have hszd : szE (d + 1) (.un tok x) = szE d x + 1 := by rw [szE]
  rw [hszd] at hsz ⊢
  obtain ⟨_, s1, h1, h⟩ := bind_ok h
  have r1 := (ih.e x s s1 L F h1 hinv (by omega)).toQ
  split at h
  · have := demit_ok h; simp only at this; subst this
    exact r1.emitE (op := opLNot) (args := []) (ws := []) rfl rfl (fun _ => rfl) rfl (by decide)
      (fun p F₁ _ => opReq_other rfl)
  · split at h
    · have := demit_ok h; simp only at this; subst this
      exact r1.emitE (op := opMinus) (args := []) (ws := []) rfl rfl (fun _ => rfl) rfl (by decide)
        (fun p F₁ _ => opReq_other rfl)
    · split at h
      · have := demit_ok h; simp only at this; subst this
        exact r1.emitE (op := opBComplement) (args := []) (ws := []) rfl rfl (fun _ => rfl) rfl (by decide)
          (fun p F₁ _ => opReq_other rfl)
      · split at h
        · have e : s' = s1 := (Prod.mk.inj (pure_ok h)).2
          subst e
          exact (ih.e x s s' L F h1 hinv (by omega)).mono (by omega)
        · exact (unsupported_ok h).elim

theorem espec_lits {d : Nat} (s s' : CState) (L : List Instr) (F : List Nat) (hinv : Inv s L F) :
    (∀ v, compileExpr (d + 1) (.int v) s = .ok ((), s') → ERes s s' L F (szE (d + 1) (.int v))) ∧
    (∀ v, compileExpr (d + 1) (.float v) s = .ok ((), s') → ERes s s' L F (szE (d + 1) (.float v))) ∧
    (∀ v, compileExpr (d + 1) (.str v) s = .ok ((), s') → ERes s s' L F (szE (d + 1) (.str v))) ∧
    (∀ v, compileExpr (d + 1) (.char v) s = .ok ((), s') → ERes s s' L F (szE (d + 1) (.char v))) := by
  refine ⟨?_, ?_, ?_, ?_⟩ <;> intro v h <;> rw [compileExpr] at h <;> rw [szE]
  · exact eres_const hinv _ rfl h
  · exact eres_const hinv _ rfl h
  · exact eres_const hinv _ rfl h
  · exact eres_const hinv _ rfl h

theorem espec_bool {d : Nat} (b : Bool) (s s' : CState) (L : List Instr) (F : List Nat) (hinv : Inv s L F)
    (h : compileExpr (d + 1) (.bool b) s = .ok ((), s')) : ERes s s' L F (szE (d + 1) (.bool b)) := by
  rw [compileExpr] at h; rw [szE]
  have e3 := demit_ok h; simp only at e3; subst e3
  cases b
  · exact (QRes.nil hinv).emitE (op := opFalse) (args := []) (ws := []) rfl rfl (fun _ => rfl) rfl (by decide)
      (fun p F₁ _ => opReq_other rfl)
  · exact (QRes.nil hinv).emitE (op := opTrue) (args := []) (ws := []) rfl rfl (fun _ => rfl) rfl (by decide)
      (fun p F₁ _ => opReq_other rfl)

theorem espec_undef {d : Nat} (s s' : CState) (L : List Instr) (F : List Nat) (hinv : Inv s L F)
    (h : compileExpr (d + 1) .undef s = .ok ((), s')) : ERes s s' L F (szE (d + 1) .undef) := by
  rw [compileExpr] at h; rw [szE]
  have e3 := demit_ok h; simp only at e3; subst e3
  exact (QRes.nil hinv).emitE (op := opNull) (args := []) (ws := []) rfl rfl (fun _ => rfl) rfl (by decide)
    (fun p F₁ _ => opReq_other rfl)

theorem eres_get {s s' : CState} {L : List Instr} {F : List Nat} (hinv : Inv s L F) (sym : Sym)
    (hs : SymOK s.tables sym) (h : emitGet sym s = .ok ((), s')) : ERes s s' L F 3 := by
  cases hsc : sym.scope <;> simp only [emitGet, hsc] at h
  · have e3 := demit_ok h; simp only at e3; subst e3
    exact (QRes.nil hinv).emitE (op := opGetGlobal) (args := [sym.index]) (ws := [2]) rfl rfl (fun _ => rfl) rfl
      (by decide) (fun p F₁ _ => opReq_glob hs hsc rfl)
  · have e3 := demit_ok h; simp only at e3; subst e3
    exact ((QRes.nil hinv).emitE (op := opGetLocal) (args := [sym.index]) (ws := [1]) rfl rfl (fun _ => rfl) rfl
      (by decide) (fun p F₁ _ => opReq_loc hs hsc rfl)).mono (by decide)
  · have e3 := demit_ok h; simp only at e3; subst e3
    exact ((QRes.nil hinv).emitE (op := opGetBuiltin) (args := [sym.index]) (ws := [1]) rfl rfl (fun _ => rfl) rfl
      (by decide) (fun p F₁ _ => opReq_builtin hs hsc)).mono (by decide)
  · have e3 := demit_ok h; simp only at e3; subst e3
    exact ((QRes.nil hinv).emitE (op := opGetFree) (args := [sym.index]) (ws := [1]) rfl rfl (fun _ => rfl) rfl
      (by decide) (fun p F₁ _ => opReq_free hs hsc rfl)).mono (by decide)

theorem espec_ident {d : Nat} (n : String) (s s' : CState) (L : List Instr) (F : List Nat) (hinv : Inv s L F)
    (h : compileExpr (d + 1) (.ident n) s = .ok ((), s')) : ERes s s' L F (szE (d + 1) (.ident n)) := by
  rw [compileExpr] at h; rw [szE]
  obtain ⟨r, s1, h1, h⟩ := bind_ok h
  have e1 := resolve_ok h1
  have er : r = (resS n s).1 := (Prod.mk.inj e1).1
  have es : s1 = (resS n s).2 := (Prod.mk.inj e1).2
  subst es
  obtain ⟨hinv1, hst, hsym⟩ := hinv.resolve n
  split at h
  · exact (cerr_ok h).elim
  · rename_i sym dd
    exact ERes.pre hst rfl (eres_get hinv1 sym (hsym sym dd er.symm) h)

theorem espec_paren {d : Nat} (ih : All d) (x : Expr) (s s' : CState) (L : List Instr) (F : List Nat)
    (h : compileExpr (d + 1) (.paren x) s = .ok ((), s')) (hinv : Inv s L F)
    (hsz : szE (d + 1) (.paren x) < 2 ^ 30) : ERes s s' L F (szE (d + 1) (.paren x)) := by
  rw [compileExpr] at h
  have hszd : szE (d + 1) (.paren x) = szE d x := by rw [szE]
  rw [hszd] at hsz ⊢
  exact ih.e x s s' L F h hinv hsz

theorem tokNumbers_lt {tok : String} {n : Nat} (h : F0.tokNumbers.lookup tok = some n) : n < 256 := by
  obtain ⟨k, hk⟩ := lookup_mem h
  have : ∀ p ∈ F0.tokNumbers, p.2 < 256 := by decide
  exact this _ hk

theorem opReq_binop {cs : List Const} {F : List Nat} {env : Env} {p n : Nat} (h : n < 256) :
    opReq cs F env ⟨p, opBinaryOp, [n]⟩ := by
  unfold opReq
  have hop : opClass (Instr.mk p opBinaryOp [n]).op = .binop := rfl
  simp only [hop, arg0, List.headD_cons]; exact h

theorem eres_binary {s s₁ s' : CState} {L : List Instr} {F : List Nat} {n : Nat} {tok : String}
    (r : QRes s s₁ L F n 2) (h : emitBinary tok s₁ = .ok ((), s')) : ERes s s' L F (n + 2) := by
  unfold emitBinary at h
  split at h
  · have e3 := demit_ok h; simp only at e3; subst e3
    exact (r.emitE (op := opEqual) (args := []) (ws := []) rfl rfl (fun _ => rfl) rfl (by decide)
      (fun p F₁ _ => opReq_other rfl)).mono (by simp)
  · split at h
    · have e3 := demit_ok h; simp only at e3; subst e3
      exact (r.emitE (op := opNotEqual) (args := []) (ws := []) rfl rfl (fun _ => rfl) rfl (by decide)
        (fun p F₁ _ => opReq_other rfl)).mono (by simp)
    · cases hk : F0.tokNumbers.lookup tok with
      | some k =>
        simp only [hk] at h
        have e3 := demit_ok h; simp only at e3; subst e3
        exact r.emitE (op := opBinaryOp) (args := [k]) (ws := [1]) rfl rfl (fun _ => rfl) rfl (by decide)
          (fun p F₁ _ => opReq_binop (tokNumbers_lt hk))
      | none =>
        simp only [hk] at h
        exact (unsupported_ok h).elim

/-- two operands and an instruction that replaces them by one value -/
theorem eres_two {d : Nat} (ih : All d) (x y : Expr) {s s₁ s₂ : CState} {L : List Instr} {F : List Nat}
    (h1 : compileExpr d x s = .ok ((), s₁)) (h2 : compileExpr d y s₁ = .ok ((), s₂)) (hinv : Inv s L F)
    (hx : szE d x < 2 ^ 30) (hy : szE d y < 2 ^ 30) : QRes s s₂ L F (szE d x + szE d y) 2 :=
  (ih.e x s s₁ L F h1 hinv hx).toQ.bind (fun L₁ F₁ hinv1 => (ih.e y s₁ s₂ L₁ F₁ h2 hinv1 hy).toQ)

theorem espec_sel {d : Nat} (ih : All d) (x y : Expr) (s s' : CState) (L : List Instr) (F : List Nat)
    (h : compileExpr (d + 1) (.sel x y) s = .ok ((), s')) (hinv : Inv s L F)
    (hsz : szE (d + 1) (.sel x y) < 2 ^ 30) : ERes s s' L F (szE (d + 1) (.sel x y)) := by
  rw [compileExpr] at h
  have hszd : szE (d + 1) (.sel x y) = szE d x + szE d y + 1 := by rw [szE]
  rw [hszd] at hsz ⊢
  obtain ⟨_, s1, h1, h⟩ := bind_ok h
  obtain ⟨_, s2, h2, h⟩ := bind_ok h
  have e3 := demit_ok h; simp only at e3; subst e3
  exact (eres_two ih x y h1 h2 hinv (by omega) (by omega)).emitE (op := opIndex) (args := []) (ws := []) rfl rfl
    (fun _ => rfl) rfl (by decide) (fun p F₁ _ => opReq_other rfl)

theorem espec_idx {d : Nat} (ih : All d) (x y : Expr) (s s' : CState) (L : List Instr) (F : List Nat)
    (h : compileExpr (d + 1) (.idx x y) s = .ok ((), s')) (hinv : Inv s L F)
    (hsz : szE (d + 1) (.idx x y) < 2 ^ 30) : ERes s s' L F (szE (d + 1) (.idx x y)) := by
  rw [compileExpr] at h
  have hszd : szE (d + 1) (.idx x y) = szE d x + szE d y + 1 := by rw [szE]
  rw [hszd] at hsz ⊢
  obtain ⟨_, s1, h1, h⟩ := bind_ok h
  obtain ⟨_, s2, h2, h⟩ := bind_ok h
  have e3 := demit_ok h; simp only at e3; subst e3
  exact (eres_two ih x y h1 h2 hinv (by omega) (by omega)).emitE (op := opIndex) (args := []) (ws := []) rfl rfl
    (fun _ => rfl) rfl (by decide) (fun p F₁ _ => opReq_other rfl)

theorem espec_error {d : Nat} (ih : All d) (x : Expr) (s s' : CState) (L : List Instr) (F : List Nat)
    (h : compileExpr (d + 1) (.error x) s = .ok ((), s')) (hinv : Inv s L F)
    (hsz : szE (d + 1) (.error x) < 2 ^ 30) : ERes s s' L F (szE (d + 1) (.error x)) := by
  rw [compileExpr] at h
  have hszd : szE (d + 1) (.error x) = szE d x + 1 := by rw [szE]
  rw [hszd] at hsz ⊢
  obtain ⟨_, s1, h1, h⟩ := bind_ok h
  have e3 := demit_ok h; simp only at e3; subst e3
  exact (ih.e x s s1 L F h1 hinv (by omega)).toQ.emitE (op := opError) (args := []) (ws := []) rfl rfl
    (fun _ => rfl) rfl (by decide) (fun p F₁ _ => opReq_other rfl)

theorem espec_immutable {d : Nat} (ih : All d) (x : Expr) (s s' : CState) (L : List Instr) (F : List Nat)
    (h : compileExpr (d + 1) (.immutable x) s = .ok ((), s')) (hinv : Inv s L F)
    (hsz : szE (d + 1) (.immutable x) < 2 ^ 30) : ERes s s' L F (szE (d + 1) (.immutable x)) := by
  rw [compileExpr] at h
  have hszd : szE (d + 1) (.immutable x) = szE d x + 1 := by rw [szE]
  rw [hszd] at hsz ⊢
  obtain ⟨_, s1, h1, h⟩ := bind_ok h
  have e3 := demit_ok h; simp only at e3; subst e3
  exact (ih.e x s s1 L F h1 hinv (by omega)).toQ.emitE (op := opImmutable) (args := []) (ws := []) rfl rfl
    (fun _ => rfl) rfl (by decide) (fun p F₁ _ => opReq_other rfl)

def szO (d : Nat) (o : Option Expr) : Nat := match o with | some l => szE d l | none => 1
def compO (d : Nat) (o : Option Expr) : CM Unit :=
  match o with | some l => compileExpr d l | none => discard <| emit opNull

theorem szE_slice (d : Nat) (x : Expr) (lo hi : Option Expr) :
    szE (d + 1) (.slice x lo hi) = szE d x + szO d lo + szO d hi + 1 := by
  cases lo <;> cases hi <;> simp only [szE, szO]

theorem compile_slice (d : Nat) (x : Expr) (lo hi : Option Expr) :
    compileExpr (d + 1) (.slice x lo hi) = (compileExpr d x >>= fun _ => compO d lo >>= fun _ =>
      compO d hi >>= fun _ => discard <| emit opSliceIndex) := by
  rw [compileExpr]; cases lo <;> cases hi <;> rfl

/-- an optional slice bound: the expression, or NULL -/
theorem qres_optE {d : Nat} (ih : All d) (o : Option Expr) {s s' : CState} {L : List Instr} {F : List Nat}
    (h : compO d o s = .ok ((), s')) (hinv : Inv s L F) (hsz : szO d o < 2 ^ 30) :
    QRes s s' L F (szO d o) 1 := by
  cases o with
  | some l => exact (ih.e l s s' L F h hinv hsz).toQ
  | none =>
    have e3 := demit_ok h; simp only at e3; subst e3
    exact ((QRes.nil hinv).emitE (op := opNull) (args := []) (ws := []) rfl rfl (fun _ => rfl) rfl (by decide)
      (fun p F₁ _ => opReq_other rfl)).toQ

theorem espec_slice {d : Nat} (ih : All d) (x : Expr) (lo hi : Option Expr) (s s' : CState) (L : List Instr)
    (F : List Nat) (h : compileExpr (d + 1) (.slice x lo hi) s = .ok ((), s')) (hinv : Inv s L F)
    (hsz : szE (d + 1) (.slice x lo hi) < 2 ^ 30) : ERes s s' L F (szE (d + 1) (.slice x lo hi)) := by
  rw [compile_slice] at h
  rw [szE_slice] at hsz ⊢
  obtain ⟨_, s1, h1, h⟩ := bind_ok h
  obtain ⟨_, s2, h2, h⟩ := bind_ok h
  obtain ⟨_, s3, h3, h⟩ := bind_ok h
  have e3 := demit_ok h; simp only at e3; subst e3
  have r := ((ih.e x s s1 L F h1 hinv (by omega)).toQ.bind
    (fun L₁ F₁ hinv1 => qres_optE ih lo h2 hinv1 (by omega))).bind
    (fun L₁ F₁ hinv1 => qres_optE ih hi h3 hinv1 (by omega))
  exact r.emitE (op := opSliceIndex) (args := []) (ws := []) rfl rfl (fun _ => rfl) rfl (by decide)
    (fun p F₁ _ => opReq_other rfl)

/-! ### lists of expressions -/

theorem esspec_succ {d : Nat} (ih : All d) : EsSpec (d + 1) := by
  intro es s s' L F h hinv hsz
  cases es with
  | nil =>
    rw [compileExprs] at h
    have e : s' = s := (Prod.mk.inj (pure_ok h)).2
    subst e
    rw [szEs]; exact QRes.nil hinv
  | cons e es =>
    rw [compileExprs] at h
    have hszd : szEs (d + 1) (e :: es) = szE d e + szEs d es := by rw [szEs]
    rw [hszd] at hsz ⊢
    obtain ⟨_, s1, h1, h⟩ := bind_ok h
    exact ((ih.e e s s1 L F h1 hinv (by omega)).toQ.bind
      (fun L₁ F₁ hinv1 => ih.es es s1 s' L₁ F₁ h hinv1 (by omega))).castK (by simp; omega)

theorem selspec_succ {d : Nat} (ih : All d) : SelSpec (d + 1) := by
  intro es s s' L F h hinv hsz
  cases es with
  | nil =>
    rw [compileSelsRev] at h
    have e : s' = s := (Prod.mk.inj (pure_ok h)).2
    subst e
    rw [szSels]; exact QRes.nil hinv
  | cons e es =>
    rw [compileSelsRev] at h
    have hszd : szSels (d + 1) (e :: es) = szSels d es + szE d e := by rw [szSels]
    rw [hszd] at hsz ⊢
    obtain ⟨_, s1, h1, h⟩ := bind_ok h
    exact ((ih.sels es s s1 L F h1 hinv (by omega)).bind
      (fun L₁ F₁ hinv1 => (ih.e e s1 s' L₁ F₁ h hinv1 (by omega)).toQ)).castK (by simp)

theorem kvspec_succ {d : Nat} (ih : All d) : KVSpec (d + 1) := by
  intro kvs s s' L F h hinv hsz
  cases kvs with
  | nil =>
    rw [compileKVs] at h
    have e : s' = s := (Prod.mk.inj (pure_ok h)).2
    subst e
    rw [szKVs]; exact QRes.nil hinv
  | cons kv rest =>
    obtain ⟨k, v⟩ := kv
    rw [compileKVs] at h
    have hszd : szKVs (d + 1) ((k, v) :: rest) = 3 + szE d v + szKVs d rest := by rw [szKVs]
    rw [hszd] at hsz ⊢
    -- the key constant and its CONST
    obtain ⟨i, s1, h1, h⟩ := bind_ok h
    obtain ⟨_, s2, h2, h⟩ := bind_ok h
    obtain ⟨_, s3, h3, h⟩ := bind_ok h
    have hk : ERes s s2 L F 3 := eres_const (k := .str k) hinv rfl (by
      show (addConstant (.str k) >>= fun i => discard <| emit opConstant [i]) s = .ok ((), s2)
      simp only [bind, StateT.bind, Except.bind, h1, h2])
    exact ((hk.toQ.bind (fun L₁ F₁ hinv1 => (ih.e v s2 s3 L₁ F₁ h3 hinv1 (by omega)).toQ)).bind
      (fun L₁ F₁ hinv1 => ih.kvs rest s3 s' L₁ F₁ h hinv1 (by omega))).castK (by simp; omega)

/-- `if c then cerr …` without else, followed by a continuation: the condition is false -/
theorem guard_ok {α : Type} {c : Prop} [Decidable c] {msg : String} {k : PUnit → CM α} {s : CState}
    {r : α × CState} (h : (if c then ((cerr msg : CM PUnit) >>= k) else k PUnit.unit) s = .ok r) :
    ¬ c ∧ k PUnit.unit s = .ok r := by
  split at h
  · obtain ⟨_, _, h1, _⟩ := bind_ok h
    exact (cerr_ok h1).elim
  · rename_i hc
    exact ⟨hc, h⟩

theorem espec_arr {d : Nat} (ih : All d) (es : List Expr) (s s' : CState) (L : List Instr) (F : List Nat)
    (h : compileExpr (d + 1) (.arr es) s = .ok ((), s')) (hinv : Inv s L F)
    (hsz : szE (d + 1) (.arr es) < 2 ^ 30) : ERes s s' L F (szE (d + 1) (.arr es)) := by
  rw [compileExpr] at h
  have hszd : szE (d + 1) (.arr es) = szEs d es + 3 := by rw [szE]
  rw [hszd] at hsz ⊢
  obtain ⟨hc, h⟩ := guard_ok h
  obtain ⟨_, s1, h1, h⟩ := bind_ok h
  have e3 := demit_ok h; simp only at e3; subst e3
  exact (ih.es es s s1 L F h1 hinv (by omega)).emitE (op := opArray) (args := [es.length]) (ws := [2]) rfl rfl
    (fun _ => rfl) rfl (by decide) (fun p F₁ _ => by
      unfold opReq
      have hop : opClass (Instr.mk p opArray [es.length]).op = .arr := rfl
      simp only [hop, arg0, List.headD_cons]; omega)

theorem espec_map {d : Nat} (ih : All d) (kvs : List (Spec.Bytes × Expr)) (s s' : CState) (L : List Instr)
    (F : List Nat) (h : compileExpr (d + 1) (.map kvs) s = .ok ((), s')) (hinv : Inv s L F)
    (hsz : szE (d + 1) (.map kvs) < 2 ^ 30) : ERes s s' L F (szE (d + 1) (.map kvs)) := by
  rw [compileExpr] at h
  have hszd : szE (d + 1) (.map kvs) = szKVs d kvs + 3 := by rw [szE]
  rw [hszd] at hsz ⊢
  obtain ⟨hc, h⟩ := guard_ok h
  obtain ⟨_, s1, h1, h⟩ := bind_ok h
  have e3 := demit_ok h; simp only at e3; subst e3
  exact (ih.kvs kvs s s1 L F h1 hinv (by omega)).emitE (op := opMap) (args := [kvs.length * 2]) (ws := [2]) (pops := kvs.length * 2) rfl rfl
    (fun _ => rfl) (by omega) (by decide) (fun p F₁ _ => by
      unfold opReq
      have hop : opClass (Instr.mk p opMap [kvs.length * 2]).op = .map := rfl
      simp only [hop, arg0, List.headD_cons]; omega)

theorem szE_call (d : Nat) (ell : Bool) (f : Expr) (args : List Expr) :
    szE (d + 1) (.call ell f args) = if ell && args.isEmpty then 2 ^ 32 else szE d f + szEs d args + 3 := by
  rw [szE]

theorem espec_call {d : Nat} (ih : All d) (ell : Bool) (f : Expr) (args : List Expr) (s s' : CState)
    (L : List Instr) (F : List Nat) (h : compileExpr (d + 1) (.call ell f args) s = .ok ((), s'))
    (hinv : Inv s L F) (hsz : szE (d + 1) (.call ell f args) < 2 ^ 30) :
    ERes s s' L F (szE (d + 1) (.call ell f args)) := by
  rw [compileExpr] at h
  rw [szE_call] at hsz ⊢
  have hne : (ell && args.isEmpty) = false := by
    cases hb : (ell && args.isEmpty) with
    | false => rfl
    | true => rw [hb] at hsz; simp at hsz
  rw [hne] at hsz ⊢
  simp only [Bool.false_eq_true, if_false] at hsz ⊢
  obtain ⟨hc, h⟩ := guard_ok h
  obtain ⟨_, s1, h1, h⟩ := bind_ok h
  obtain ⟨_, s2, h2, h⟩ := bind_ok h
  have e3 := demit_ok h; simp only at e3; subst e3
  have r := (ih.e f s s1 L F h1 hinv (by omega)).toQ.bind
    (fun L₁ F₁ hinv1 => ih.es args s1 s2 L₁ F₁ h2 hinv1 (by omega))
  exact r.emitE (op := opCall) (args := [args.length, if ell then 1 else 0]) (ws := [1, 1]) (pops := args.length + 1) rfl rfl
    (fun _ => rfl) (by omega) (by decide) (fun p F₁ _ => by
      unfold opReq
      have hop : opClass (Instr.mk p opCall [args.length, if ell then 1 else 0]).op = .call := rfl
      simp only [hop, arg0, arg1, List.headD_cons, List.drop_one, List.tail_cons]
      refine ⟨by omega, by split <;> omega, fun h1 => ?_⟩
      cases ell with
      | false => simp at h1
      | true =>
        simp only [Bool.true_and] at hne
        cases args with
        | nil => simp at hne
        | cons a as => simp)

theorem espec_bin_plain {d : Nat} (ih : All d) (tok : String) (l r : Expr) (s s' : CState)
    (L : List Instr) (F : List Nat)
    (h : (do compileExpr d l; compileExpr d r; emitBinary tok) s = .ok ((), s'))
    (hinv : Inv s L F) (hsz : szE d l + szE d r + 5 < 2 ^ 30) : ERes s s' L F (szE d l + szE d r + 5) := by
  obtain ⟨_, s1, h1, h⟩ := bind_ok h
  obtain ⟨_, s2, h2, h⟩ := bind_ok h
  exact (eres_binary (eres_two ih l r h1 h2 hinv (by omega) (by omega)) h).mono (by omega)

/-! ### jumps: placeholders and patches -/

theorem map_patch_at {lo : Nat} {A C : List Instr} {i : Instr} (hl : Layout lo (A ++ i :: C)) (t : Nat) :
    (A ++ i :: C).map (patchI i.pos t) = A ++ { i with args := [t] } :: C := by
  obtain ⟨h1, h2⟩ := layout_split hl
  obtain ⟨hp, h3⟩ := h2
  rw [List.map_append, List.map_cons, map_patch_of_ne i.pos t (fun j hj => by
      have := layout_end h1 j hj; have := size_pos j; omega),
    map_patch_of_ne i.pos t (fun j hj => by
      have := layout_ge h3 j hj; have := size_pos i; omega)]
  simp [patchI]

theorem Inv.patch {s : CState} {A C : List Instr} {p op x t : Nat} {F : List Nat}
    (h : Inv s (A ++ ⟨p, op, [x]⟩ :: C) F) (hj : isJump op = true) :
    Inv (chgS p t s) (A ++ ⟨p, op, [t]⟩ :: C) F := by
  have := h.chg (i := ⟨p, op, [x]⟩) (p := p) (t := t) (by simp) rfl hj
  rw [map_patch_at (i := ⟨p, op, [x]⟩) h.em.lay t] at this
  exact this

theorem curPos_ok {s : CState} {r : Nat × CState} (h : curPos s = .ok r) : r = (s.insts.size, s) := by
  have : curPos s = .ok (s.insts.size, s) := rfl
  rw [this] at h; injection h with h; exact h.symm

theorem EBlk.cast {lo hi lo' hi' a : Nat} {B : List Instr} (h : EBlk lo hi a B) (h1 : lo = lo') (h2 : hi = hi') :
    EBlk lo' hi' a B := by subst h1; subst h2; exact h

theorem jump_shape {p op t : Nat} (hj : isJump op = true) : Shape ⟨p, op, [t]⟩ := ⟨[4], widths_jump hj, rfl⟩

theorem espec_andor {d : Nat} (ih : All d) (op : Nat) (hop : op = opAndJump ∨ op = opOrJump) (l r : Expr)
    (s s' : CState) (L : List Instr) (F : List Nat)
    (h : (do compileExpr d l; let jumpPos ← emit op [0]; compileExpr d r; changeOperand jumpPos (← curPos)) s
      = .ok ((), s'))
    (hinv : Inv s L F) (hsz : szE d l + szE d r + 5 < 2 ^ 30) : ERes s s' L F (szE d l + szE d r + 5) := by
  have hj : isJump op = true := by rcases hop with e | e <;> subst e <;> rfl
  obtain ⟨_, s1, h1, h⟩ := bind_ok h
  obtain ⟨jp, s2, h2, h⟩ := bind_ok h
  obtain ⟨_, s3, h3, h⟩ := bind_ok h
  obtain ⟨p, s4, h4, h⟩ := bind_ok h
  obtain ⟨B₁, F₁, o1, hb1⟩ := ih.e l s s1 L F h1 hinv (by omega)
  have e2 := emit_ok h2
  have ejp : jp = s1.insts.size := (Prod.mk.inj e2).1
  have es2 : s2 = emitS op [0] s1 := (Prod.mk.inj e2).2
  subst es2
  have inv2 := o1.inv.emit (op := op) (args := [0]) (jump_shape hj) (opReq_jump hj)
  obtain ⟨B₂, F₂, o2, hb2⟩ := ih.e r _ s3 _ F₁ h3 inv2 (by omega)
  have e4 := curPos_ok h4
  have ep : p = s3.insts.size := (Prod.mk.inj e4).1
  have es4 : s4 = s3 := (Prod.mk.inj e4).2
  subst es4
  subst ep
  have e5 := changeOperand_ok h
  have es' : s' = chgS jp s4.insts.size s4 := (Prod.mk.inj e5).2
  subst es'
  have hsz1 : s1.insts.size = totalSize L + totalSize B₁ := by rw [o1.inv.em.size, totalSize_append]
  have hsz3 : s4.insts.size = totalSize L + totalSize B₁ + 5 + totalSize B₂ := by
    rw [o2.inv.em.size]; simp only [totalSize_append, totalSize_cons, totalSize_nil, jump_size hj] <;> omega
  have hL : totalSize (L ++ B₁) = totalSize L + totalSize B₁ := totalSize_append _ _
  rw [hL] at inv2 o2 hb2
  have hinv3 : Inv s4 ((L ++ B₁) ++ ⟨totalSize L + totalSize B₁, op, [0]⟩ :: B₂) F₂ := by
    have := o2.inv; simpa using this
  have hinv' := hinv3.patch (t := s4.insts.size) hj
  have hjp : jp = totalSize L + totalSize B₁ := by rw [ejp, hsz1]
  refine ⟨B₁ ++ ⟨totalSize L + totalSize B₁, op, [s4.insts.size]⟩ :: B₂, F₂, ⟨?_, ?_, ?_, ?_⟩, ?_⟩
  · rw [hjp]; simpa using hinv'
  · have hf := chgS_frame jp s4.insts.size s4
    exact (o1.step.trans ((Step.of_eq (s := s1) (s' := emitS op [0] s1) F₁ rfl rfl rfl).trans o2.step)).trans
      (Step.of_eq F₂ hf.2.2.1 hf.2.1 hf.1)
  · have hf := chgS_frame jp s4.insts.size s4
    rw [hf.2.2.2, o2.loops]; exact o1.loops
  · simp only [totalSize_append, totalSize_cons, jump_size hj]
    have := o1.size; have := o2.size; omega
  · intro a
    have hb2' : EBlk (totalSize L + totalSize B₁ + 5) s4.insts.size a B₂ :=
      (hb2 a).cast (by simp only [totalSize_append, totalSize_cons, totalSize_nil, jump_size hj])
        (by simp only [totalSize_append, totalSize_cons, totalSize_nil, jump_size hj]; omega)
    exact (EBlk.andor (hb1 a) hb2' hop).cast rfl (by
      simp only [totalSize_append, totalSize_cons, jump_size hj]; omega)

end Tengo.Proofs.C02Compile

import Tengo.Proofs.C11PlaceCallA
/-!
C11, PLACEMENT global ↦ local with CALLS inside the moved statements, layer B: the simulation for the class.

* `c2E n` / `c2Es n` / `c2S n` / `c2Ss n`: the class `g2E` / `g2S` plus calls `h(a1, …, ak)` of a function held in a
  global slot `h > n` (`.call (.glob h) args`), the arguments in the class.
* `renCE` / `renCEs` / `renCS` / `renCSs`: the variables `x_i` (`i < n`) move into local slots, the callee stays a
  global read.
* `simC_all`: with the same fuel, from globals that agree above `n`, locals `mkL n g l0`: the global placement is
  `bad`, or the two results correspond (same value, final globals agree above `n`, the local placement leaves its
  own slots `≤ n` unchanged, the final locals are `mkL n g' l0` for the final globals `g'` of the global placement).
-/
set_option linter.unusedVariables false
set_option linter.unusedSimpArgs false
namespace Tengo.Proofs.C11Place
open Tengo.Model Tengo.Model.F3
open Tengo.Model.F0 (Sem upd)
variable {V : Type}

/-! ### the class and the renaming -/

def isGlobAbove (n : Nat) : Ex → Bool
  | .glob h => decide (n < h)
  | _ => false

mutual
  def c2E (n : Nat) : Ex → Bool
    | .lit _ => true | .tru => true | .fls => true | .undef => true
    | .glob i => decide (i < n)
    | .loc _ => false
    | .bin _ l r => c2E n l && c2E n r
    | .eq l r => c2E n l && c2E n r
    | .ne l r => c2E n l && c2E n r
    | .land l r => c2E n l && c2E n r
    | .lor l r => c2E n l && c2E n r
    | .neg e => c2E n e | .bnot e => c2E n e | .lnot e => c2E n e | .plus e => c2E n e
    | .cond c t f => c2E n c && c2E n t && c2E n f
    | .call f args => isGlobAbove n f && c2Es n args
  def c2Es (n : Nat) : Exs → Bool
    | .nil => true
    | .cons e es => c2E n e && c2Es n es
end

mutual
  def c2S (n : Nat) : Stm → Bool
    | .expr e => c2E n e
    | .assign i e => decide (i < n) && c2E n e
    | .defl _ _ => false
    | .setl _ _ => false
    | .ifs c b => c2E n c && c2Ss n b
    | .ifelse c b e => c2E n c && c2Ss n b && c2Ss n e
    | .whil c b => c2E n c && c2Ss n b
    | .forever b => c2Ss n b
    | .for3 c b p => c2E n c && c2Ss n b && c2S n p
    | .brk => true
    | .cont => true
    | .ret _ => false
    | .ret0 => false
  def c2Ss (n : Nat) : Stms → Bool
    | .nil => true
    | .cons s ss => c2S n s && c2Ss n ss
end

mutual
  def renCE : Ex → Ex
    | .lit k => .lit k | .tru => .tru | .fls => .fls | .undef => .undef
    | .glob i => .loc i
    | .loc i => .loc i
    | .bin t l r => .bin t (renCE l) (renCE r)
    | .eq l r => .eq (renCE l) (renCE r)
    | .ne l r => .ne (renCE l) (renCE r)
    | .land l r => .land (renCE l) (renCE r)
    | .lor l r => .lor (renCE l) (renCE r)
    | .neg e => .neg (renCE e) | .bnot e => .bnot (renCE e) | .lnot e => .lnot (renCE e) | .plus e => .plus (renCE e)
    | .cond c t f => .cond (renCE c) (renCE t) (renCE f)
    | .call f args => .call f (renCEs args)      -- the callee (`.glob h`, `h > n`) stays a global read
  def renCEs : Exs → Exs
    | .nil => .nil
    | .cons e es => .cons (renCE e) (renCEs es)
end

mutual
  def renCS : Stm → Stm
    | .expr e => .expr (renCE e)
    | .assign i e => .setl i (renCE e)
    | .ifs c b => .ifs (renCE c) (renCSs b)
    | .ifelse c b e => .ifelse (renCE c) (renCSs b) (renCSs e)
    | .whil c b => .whil (renCE c) (renCSs b)
    | .forever b => .forever (renCSs b)
    | .for3 c b p => .for3 (renCE c) (renCSs b) (renCS p)
    | .defl i e => .defl i e
    | .setl i e => .setl i e
    | .brk => .brk
    | .cont => .cont
    | .ret e => .ret e
    | .ret0 => .ret0
  def renCSs : Stms → Stms
    | .nil => .nil
    | .cons s ss => .cons (renCS s) (renCSs ss)
end

/-! ### the statement relation -/

theorem mkL_kp {n : Nat} {g g1 : Nat → V} (l0 : Locals V) (h : Kp n g g1) : mkL n g l0 = mkL n g1 l0 :=
  mkL_congr l0 (fun i hi => (h i (Nat.le_of_lt hi)).symm)

/-- `rG`: the global placement (final globals `g1`), `rL`: the local placement (final locals `mkL n g1 l0`, final
globals agree with `g1` above `n` and with its own start globals `gL` on the slots `≤ n`). -/
def RB (n : Nat) (l0 : Locals V) (gL : Nat → V) (rG rL : Res V) : Prop :=
  rG = .bad ∨
  (∃ g1 lx gL1, rG = .done g1 lx ∧ rL = .done gL1 (mkL n g1 l0) ∧ Sm n g1 gL1 ∧ Kp n gL gL1) ∨
  (∃ g1 lx gL1, rG = .brk g1 lx ∧ rL = .brk gL1 (mkL n g1 l0) ∧ Sm n g1 gL1 ∧ Kp n gL gL1) ∨
  (∃ g1 lx gL1, rG = .cont g1 lx ∧ rL = .cont gL1 (mkL n g1 l0) ∧ Sm n g1 gL1 ∧ Kp n gL gL1) ∨
  (rG = .err ∧ rL = .err) ∨ (rG = .out ∧ rL = .out)

section
variable {n : Nat} {l0 : Locals V} {g1 gL gL1 : Nat → V} {lx : Locals V}

theorem RB.bad (r : Res V) : RB n l0 gL .bad r := Or.inl rfl
theorem RB.done (h : Sm n g1 gL1) (hk : Kp n gL gL1) : RB n l0 gL (.done g1 lx) (.done gL1 (mkL n g1 l0)) :=
  Or.inr (Or.inl ⟨g1, lx, gL1, rfl, rfl, h, hk⟩)
theorem RB.brk (h : Sm n g1 gL1) (hk : Kp n gL gL1) : RB n l0 gL (.brk g1 lx) (.brk gL1 (mkL n g1 l0)) :=
  Or.inr (Or.inr (Or.inl ⟨g1, lx, gL1, rfl, rfl, h, hk⟩))
theorem RB.cont (h : Sm n g1 gL1) (hk : Kp n gL gL1) : RB n l0 gL (.cont g1 lx) (.cont gL1 (mkL n g1 l0)) :=
  Or.inr (Or.inr (Or.inr (Or.inl ⟨g1, lx, gL1, rfl, rfl, h, hk⟩)))
theorem RB.err : RB n l0 gL (.err : Res V) .err := Or.inr (Or.inr (Or.inr (Or.inr (Or.inl ⟨rfl, rfl⟩))))
theorem RB.out : RB n l0 gL (.out : Res V) .out := Or.inr (Or.inr (Or.inr (Or.inr (Or.inr ⟨rfl, rfl⟩))))

theorem Kp.trans {g g1 g2 : Nat → V} (h1 : Kp n g g1) (h2 : Kp n g1 g2) : Kp n g g2 :=
  fun i hi => (h2 i hi).trans (h1 i hi)

theorem RB.mono {r r' : Res V} (hk : Kp n gL gL1) : RB n l0 gL1 r r' → RB n l0 gL r r' := by
  intro hr
  rcases hr with hb | ⟨a, b, c, hG, hL, h2, k2⟩ | ⟨a, b, c, hG, hL, h2, k2⟩ | ⟨a, b, c, hG, hL, h2, k2⟩ | h3 | h4
  · exact Or.inl hb
  · subst hG; subst hL; exact RB.done h2 (hk.trans k2)
  · subst hG; subst hL; exact RB.brk h2 (hk.trans k2)
  · subst hG; subst hL; exact RB.cont h2 (hk.trans k2)
  · rw [h3.1, h3.2]; exact RB.err
  · rw [h4.1, h4.2]; exact RB.out

end

set_option hygiene false in
macro "sc_t" : tactic => `(tactic| first
  | (simp only [hb, ERes.toRes]; exact RE.bad _)
  | (simp only [hb, ERes.toRes]; exact REs.bad _)
  | (simp only [hb, ERes.toRes]; exact RB.bad _)
  | (simp only [hG, hL, ERes.toRes]; exact RE.err)
  | (simp only [hG, hL, ERes.toRes]; exact RE.out)
  | (simp only [hG, hL, ERes.toRes]; exact REs.err)
  | (simp only [hG, hL, ERes.toRes]; exact REs.out)
  | (simp only [hG, hL, ERes.toRes]; exact RB.err)
  | (simp only [hG, hL, ERes.toRes]; exact RB.out))

structure SimC (E : Env V) (n : Nat) (P P' : Prog) (f : Nat) : Prop where
  e : ∀ (e : Ex) (g : Nat → V) (lG : Locals V) (gL : Nat → V) (l0 : Locals V), c2E n e = true → Sm n g gL →
    RE n g gL (evalE E P f e g lG) (evalE E P' f (renCE e) gL (mkL n g l0))
  es : ∀ (es : Exs) (g : Nat → V) (lG : Locals V) (gL : Nat → V) (l0 : Locals V), c2Es n es = true → Sm n g gL →
    REs n g gL (evalEs E P f es g lG) (evalEs E P' f (renCEs es) gL (mkL n g l0))
  s : ∀ (s : Stm) (g : Nat → V) (lG : Locals V) (gL : Nat → V) (l0 : Locals V), c2S n s = true → Sm n g gL →
    RB n l0 gL (execS E P f s g lG) (execS E P' f (renCS s) gL (mkL n g l0))
  ss : ∀ (ss : Stms) (g : Nat → V) (lG : Locals V) (gL : Nat → V) (l0 : Locals V), c2Ss n ss = true → Sm n g gL →
    RB n l0 gL (execSs E P f ss g lG) (execSs E P' f (renCSs ss) gL (mkL n g l0))

section
variable {E : Env V} {n L : Nat} {P P' : Prog}

/-- The callee: the read of a global slot above `n`. -/
theorem callee_RE (f : Nat) (fe : Ex) (g gL : Nat → V) (lG l : Locals V) (hc : isGlobAbove n fe = true)
    (hs : Sm n g gL) : RE n g gL (evalE E P f fe g lG) (evalE E P' f fe gL l) := by
  cases fe with
  | glob h =>
    simp only [isGlobAbove, decide_eq_true_eq] at hc
    cases f with
    | zero => simp only [evalE]; exact RE.out
    | succ f => simp only [evalE]; rw [hs h hc]; exact RE.val _ (St.refl hs)
  | _ => simp only [isGlobAbove] at hc; cases hc

theorem scE_succ {f : Nat} (H : NI n L P P') (ih : SimC E n P P' f) (e : Ex) (g : Nat → V) (lG : Locals V)
    (gL : Nat → V) (l0 : Locals V) (hc : c2E n e = true) (hs : Sm n g gL) :
    RE n g gL (evalE E P (f + 1) e g lG) (evalE E P' (f + 1) (renCE e) gL (mkL n g l0)) := by
  cases e with
  | lit k => simp only [renCE, evalE]; exact RE.val _ (St.refl hs)
  | tru => simp only [renCE, evalE]; exact RE.val _ (St.refl hs)
  | fls => simp only [renCE, evalE]; exact RE.val _ (St.refl hs)
  | undef => simp only [renCE, evalE]; exact RE.val _ (St.refl hs)
  | glob i =>
    simp only [c2E, decide_eq_true_eq] at hc
    simp only [renCE, evalE, mkL_lt g l0 hc]; exact RE.val _ (St.refl hs)
  | loc i => simp only [c2E] at hc; cases hc
  | bin tok a b =>
    simp only [c2E, Bool.and_eq_true] at hc
    simp only [renCE, evalE]
    rcases ih.e a g lG gL l0 hc.1 hs with hb | ⟨x, g1, g1', hG, hL, h1⟩ | ⟨hG, hL⟩ | ⟨hG, hL⟩
    · sc_t
    · simp only [hG, hL]
      refine RE.mono h1 ?_
      rw [mkL_kp l0 h1.2.1]
      rcases ih.e b g1 lG g1' l0 hc.2 h1.1 with hb | ⟨y, g2, g2', hG, hL, h2⟩ | ⟨hG, hL⟩ | ⟨hG, hL⟩
      · sc_t
      · simp only [hG, hL]
        cases E.S.binop tok x y with
        | none => exact RE.err
        | some v => exact RE.val _ h2
      · sc_t
      · sc_t
    · sc_t
    · sc_t
  | eq a b =>
    simp only [c2E, Bool.and_eq_true] at hc
    simp only [renCE, evalE]
    rcases ih.e a g lG gL l0 hc.1 hs with hb | ⟨x, g1, g1', hG, hL, h1⟩ | ⟨hG, hL⟩ | ⟨hG, hL⟩
    · sc_t
    · simp only [hG, hL]
      refine RE.mono h1 ?_
      rw [mkL_kp l0 h1.2.1]
      rcases ih.e b g1 lG g1' l0 hc.2 h1.1 with hb | ⟨y, g2, g2', hG, hL, h2⟩ | ⟨hG, hL⟩ | ⟨hG, hL⟩
      · sc_t
      · simp only [hG, hL]; exact RE.val _ h2
      · sc_t
      · sc_t
    · sc_t
    · sc_t
  | ne a b =>
    simp only [c2E, Bool.and_eq_true] at hc
    simp only [renCE, evalE]
    rcases ih.e a g lG gL l0 hc.1 hs with hb | ⟨x, g1, g1', hG, hL, h1⟩ | ⟨hG, hL⟩ | ⟨hG, hL⟩
    · sc_t
    · simp only [hG, hL]
      refine RE.mono h1 ?_
      rw [mkL_kp l0 h1.2.1]
      rcases ih.e b g1 lG g1' l0 hc.2 h1.1 with hb | ⟨y, g2, g2', hG, hL, h2⟩ | ⟨hG, hL⟩ | ⟨hG, hL⟩
      · sc_t
      · simp only [hG, hL]; exact RE.val _ h2
      · sc_t
      · sc_t
    · sc_t
    · sc_t
  | neg a =>
    simp only [c2E] at hc
    simp only [renCE, evalE]
    rcases ih.e a g lG gL l0 hc hs with hb | ⟨x, g1, g1', hG, hL, h1⟩ | ⟨hG, hL⟩ | ⟨hG, hL⟩
    · sc_t
    · simp only [hG, hL]
      cases E.S.neg x with
      | none => exact RE.err
      | some v => exact RE.val _ h1
    · sc_t
    · sc_t
  | bnot a =>
    simp only [c2E] at hc
    simp only [renCE, evalE]
    rcases ih.e a g lG gL l0 hc hs with hb | ⟨x, g1, g1', hG, hL, h1⟩ | ⟨hG, hL⟩ | ⟨hG, hL⟩
    · sc_t
    · simp only [hG, hL]
      cases E.S.bnot x with
      | none => exact RE.err
      | some v => exact RE.val _ h1
    · sc_t
    · sc_t
  | lnot a =>
    simp only [c2E] at hc
    simp only [renCE, evalE]
    rcases ih.e a g lG gL l0 hc hs with hb | ⟨x, g1, g1', hG, hL, h1⟩ | ⟨hG, hL⟩ | ⟨hG, hL⟩
    · sc_t
    · simp only [hG, hL]; exact RE.val _ h1
    · sc_t
    · sc_t
  | plus a =>
    simp only [c2E] at hc
    simp only [renCE, evalE]
    exact ih.e a g lG gL l0 hc hs
  | cond c t e =>
    simp only [c2E, Bool.and_eq_true] at hc
    simp only [renCE, evalE]
    rcases ih.e c g lG gL l0 hc.1.1 hs with hb | ⟨x, g1, g1', hG, hL, h1⟩ | ⟨hG, hL⟩ | ⟨hG, hL⟩
    · sc_t
    · simp only [hG, hL]
      refine RE.mono h1 ?_
      rw [mkL_kp l0 h1.2.1]
      by_cases hfa : E.S.falsy x = true
      · simp only [hfa, if_true]; exact ih.e e g1 lG g1' l0 hc.2 h1.1
      · simp only [hfa, Bool.false_eq_true, if_false]; exact ih.e t g1 lG g1' l0 hc.1.2 h1.1
    · sc_t
    · sc_t
  | land a b =>
    simp only [c2E, Bool.and_eq_true] at hc
    simp only [renCE, evalE]
    rcases ih.e a g lG gL l0 hc.1 hs with hb | ⟨x, g1, g1', hG, hL, h1⟩ | ⟨hG, hL⟩ | ⟨hG, hL⟩
    · sc_t
    · simp only [hG, hL]
      by_cases hfa : E.S.falsy x = true
      · simp only [hfa, if_true]; exact RE.val _ h1
      · simp only [hfa, Bool.false_eq_true, if_false]
        rw [mkL_kp l0 h1.2.1]
        exact RE.mono h1 (ih.e b g1 lG g1' l0 hc.2 h1.1)
    · sc_t
    · sc_t
  | lor a b =>
    simp only [c2E, Bool.and_eq_true] at hc
    simp only [renCE, evalE]
    rcases ih.e a g lG gL l0 hc.1 hs with hb | ⟨x, g1, g1', hG, hL, h1⟩ | ⟨hG, hL⟩ | ⟨hG, hL⟩
    · sc_t
    · simp only [hG, hL]
      by_cases hfa : E.S.falsy x = true
      · simp only [hfa, if_true]
        rw [mkL_kp l0 h1.2.1]
        exact RE.mono h1 (ih.e b g1 lG g1' l0 hc.2 h1.1)
      · simp only [hfa, Bool.false_eq_true, if_false]; exact RE.val _ h1
    · sc_t
    · sc_t
  | call fe args =>
    simp only [c2E, Bool.and_eq_true] at hc
    simp only [renCE, evalE]
    rcases callee_RE (E := E) (P := P) (P' := P') f fe g gL lG (mkL n g l0) hc.1 hs with
      hb | ⟨x, g1, g1', hG, hL, h1⟩ | ⟨hG, hL⟩ | ⟨hG, hL⟩
    · sc_t
    · simp only [hG, hL]
      refine RE.mono h1 ?_
      rw [mkL_kp l0 h1.2.1]
      rcases ih.es args g1 lG g1' l0 hc.2 h1.1 with hb | ⟨vs, g2, g2', hG, hL, h2⟩ | ⟨hG, hL⟩ | ⟨hG, hL⟩
      · sc_t
      · simp only [hG, hL]; exact RE.mono h2 ((all_ni E H f).call x vs g2 g2' h2.1)
      · sc_t
      · sc_t
    · sc_t
    · sc_t

theorem scEs_succ {f : Nat} (ih : SimC E n P P' f) (es : Exs) (g : Nat → V) (lG : Locals V)
    (gL : Nat → V) (l0 : Locals V) (hc : c2Es n es = true) (hs : Sm n g gL) :
    REs n g gL (evalEs E P (f + 1) es g lG) (evalEs E P' (f + 1) (renCEs es) gL (mkL n g l0)) := by
  cases es with
  | nil => simp only [renCEs, evalEs]; exact REs.vals _ (St.refl hs)
  | cons e rest =>
    simp only [c2Es, Bool.and_eq_true] at hc
    simp only [renCEs, evalEs]
    rcases ih.e e g lG gL l0 hc.1 hs with hb | ⟨x, g1, g1', hG, hL, h1⟩ | ⟨hG, hL⟩ | ⟨hG, hL⟩
    · sc_t
    · simp only [hG, hL]
      refine REs.mono h1 ?_
      rw [mkL_kp l0 h1.2.1]
      rcases ih.es rest g1 lG g1' l0 hc.2 h1.1 with hb | ⟨vs, g2, g2', hG, hL, h2⟩ | ⟨hG, hL⟩ | ⟨hG, hL⟩
      · sc_t
      · simp only [hG, hL]; exact REs.vals _ h2
      · sc_t
      · sc_t
    · sc_t
    · sc_t

/-- Loop body and what follows. -/
theorem scLoop {rG rL : Res V} {gL : Nat → V} {l0 : Locals V} (K K' : (Nat → V) → Locals V → Res V)
    (hK : ∀ g2 lG2 gL2, Sm n g2 gL2 → RB n l0 gL2 (K g2 lG2) (K' gL2 (mkL n g2 l0))) :
    RB n l0 gL rG rL → RB n l0 gL
      (match rG with
        | .done g2 l2 => K g2 l2
        | .cont g2 l2 => K g2 l2
        | .brk g2 l2 => .done g2 l2
        | r => r)
      (match rL with
        | .done g2 l2 => K' g2 l2
        | .cont g2 l2 => K' g2 l2
        | .brk g2 l2 => .done g2 l2
        | r => r) := by
  intro h
  rcases h with hb | ⟨a, b, c, hG, hL, h2, k2⟩ | ⟨a, b, c, hG, hL, h2, k2⟩ | ⟨a, b, c, hG, hL, h2, k2⟩ |
    ⟨hG, hL⟩ | ⟨hG, hL⟩
  · sc_t
  · simp only [hG, hL]; exact RB.mono k2 (hK a b c h2)
  · simp only [hG, hL]; exact RB.done h2 k2
  · simp only [hG, hL]; exact RB.mono k2 (hK a b c h2)
  · sc_t
  · sc_t

/-- Sequencing. -/
theorem scSeq {rG rL : Res V} {gL : Nat → V} {l0 : Locals V} (K K' : (Nat → V) → Locals V → Res V)
    (hK : ∀ g2 lG2 gL2, Sm n g2 gL2 → RB n l0 gL2 (K g2 lG2) (K' gL2 (mkL n g2 l0))) :
    RB n l0 gL rG rL → RB n l0 gL
      (match rG with
        | .done g2 l2 => K g2 l2
        | r => r)
      (match rL with
        | .done g2 l2 => K' g2 l2
        | r => r) := by
  intro h
  rcases h with hb | ⟨a, b, c, hG, hL, h2, k2⟩ | ⟨a, b, c, hG, hL, h2, k2⟩ | ⟨a, b, c, hG, hL, h2, k2⟩ |
    ⟨hG, hL⟩ | ⟨hG, hL⟩
  · sc_t
  · simp only [hG, hL]; exact RB.mono k2 (hK a b c h2)
  · simp only [hG, hL]; exact RB.brk h2 k2
  · simp only [hG, hL]; exact RB.cont h2 k2
  · sc_t
  · sc_t

theorem scS_succ {f : Nat} (ih : SimC E n P P' f) (s : Stm) (g : Nat → V) (lG : Locals V)
    (gL : Nat → V) (l0 : Locals V) (hc : c2S n s = true) (hs : Sm n g gL) :
    RB n l0 gL (execS E P (f + 1) s g lG) (execS E P' (f + 1) (renCS s) gL (mkL n g l0)) := by
  cases s with
  | expr e =>
    simp only [c2S] at hc
    simp only [renCS, execS]
    rcases ih.e e g lG gL l0 hc hs with hb | ⟨x, g1, g1', hG, hL, h1⟩ | ⟨hG, hL⟩ | ⟨hG, hL⟩
    · sc_t
    · simp only [hG, hL]; rw [mkL_kp l0 h1.2.1]; exact RB.done h1.1 h1.2.2
    · sc_t
    · sc_t
  | assign i e =>
    simp only [c2S, Bool.and_eq_true, decide_eq_true_eq] at hc
    simp only [renCS, execS]
    rcases ih.e e g lG gL l0 hc.2 hs with hb | ⟨x, g1, g1', hG, hL, h1⟩ | ⟨hG, hL⟩ | ⟨hG, hL⟩
    · sc_t
    · simp only [hG, hL]; rw [mkL_kp l0 h1.2.1, updL_mkL g1 l0 x hc.1]
      refine RB.done (fun j hj => ?_) h1.2.2
      have : j ≠ i := by omega
      simp only [F0.upd, this, if_false]; exact h1.1 j hj
    · sc_t
    · sc_t
  | defl i e => simp only [c2S] at hc; cases hc
  | setl i e => simp only [c2S] at hc; cases hc
  | ret e => simp only [c2S] at hc; cases hc
  | ret0 => simp only [c2S] at hc; cases hc
  | brk => simp only [renCS, execS]; exact RB.brk hs (fun _ _ => rfl)
  | cont => simp only [renCS, execS]; exact RB.cont hs (fun _ _ => rfl)
  | ifs c body =>
    simp only [c2S, Bool.and_eq_true] at hc
    simp only [renCS, execS]
    rcases ih.e c g lG gL l0 hc.1 hs with hb | ⟨x, g1, g1', hG, hL, h1⟩ | ⟨hG, hL⟩ | ⟨hG, hL⟩
    · sc_t
    · simp only [hG, hL]; rw [mkL_kp l0 h1.2.1]
      by_cases hfa : E.S.falsy x = true
      · simp only [hfa, if_true]; exact RB.done h1.1 h1.2.2
      · simp only [hfa, Bool.false_eq_true, if_false]; exact RB.mono h1.2.2 (ih.ss body g1 lG g1' l0 hc.2 h1.1)
    · sc_t
    · sc_t
  | ifelse c body els =>
    simp only [c2S, Bool.and_eq_true] at hc
    simp only [renCS, execS]
    rcases ih.e c g lG gL l0 hc.1.1 hs with hb | ⟨x, g1, g1', hG, hL, h1⟩ | ⟨hG, hL⟩ | ⟨hG, hL⟩
    · sc_t
    · simp only [hG, hL]; rw [mkL_kp l0 h1.2.1]
      by_cases hfa : E.S.falsy x = true
      · simp only [hfa, if_true]; exact RB.mono h1.2.2 (ih.ss els g1 lG g1' l0 hc.2 h1.1)
      · simp only [hfa, Bool.false_eq_true, if_false]; exact RB.mono h1.2.2 (ih.ss body g1 lG g1' l0 hc.1.2 h1.1)
    · sc_t
    · sc_t
  | whil c body =>
    have hw := hc
    simp only [c2S, Bool.and_eq_true] at hc
    have hrec := fun g2 lG2 gL2 (h2 : Sm n g2 gL2) => ih.s (.whil c body) g2 lG2 gL2 l0 hw h2
    simp only [renCS] at hrec
    simp only [renCS, execS]
    rcases ih.e c g lG gL l0 hc.1 hs with hb | ⟨x, g1, g1', hG, hL, h1⟩ | ⟨hG, hL⟩ | ⟨hG, hL⟩
    · sc_t
    · simp only [hG, hL]; rw [mkL_kp l0 h1.2.1]
      by_cases hfa : E.S.falsy x = true
      · simp only [hfa, if_true]; exact RB.done h1.1 h1.2.2
      · simp only [hfa, Bool.false_eq_true, if_false]
        refine RB.mono h1.2.2 ?_
        exact scLoop (fun g2 l2 => execS E P f (.whil c body) g2 l2)
          (fun g2 l2 => execS E P' f (.whil (renCE c) (renCSs body)) g2 l2) hrec
          (ih.ss body g1 lG g1' l0 hc.2 h1.1)
    · sc_t
    · sc_t
  | forever body =>
    have hw := hc
    simp only [c2S] at hc
    have hrec := fun g2 lG2 gL2 (h2 : Sm n g2 gL2) => ih.s (.forever body) g2 lG2 gL2 l0 hw h2
    simp only [renCS] at hrec
    simp only [renCS, execS]
    exact scLoop (fun g2 l2 => execS E P f (.forever body) g2 l2)
      (fun g2 l2 => execS E P' f (.forever (renCSs body)) g2 l2) hrec (ih.ss body g lG gL l0 hc hs)
  | for3 c body post =>
    have hw := hc
    simp only [c2S, Bool.and_eq_true] at hc
    have hrec := fun g2 lG2 gL2 (h2 : Sm n g2 gL2) => ih.s (.for3 c body post) g2 lG2 gL2 l0 hw h2
    simp only [renCS] at hrec
    simp only [renCS, execS]
    rcases ih.e c g lG gL l0 hc.1.1 hs with hb | ⟨x, g1, g1', hG, hL, h1⟩ | ⟨hG, hL⟩ | ⟨hG, hL⟩
    · sc_t
    · simp only [hG, hL]; rw [mkL_kp l0 h1.2.1]
      by_cases hfa : E.S.falsy x = true
      · simp only [hfa, if_true]; exact RB.done h1.1 h1.2.2
      · simp only [hfa, Bool.false_eq_true, if_false]
        refine RB.mono h1.2.2 ?_
        refine scLoop
          (fun g2 l2 => match execS E P f post g2 l2 with
            | .done g3 l3 => execS E P f (.for3 c body post) g3 l3
            | r => r)
          (fun g2 l2 => match execS E P' f (renCS post) g2 l2 with
            | .done g3 l3 => execS E P' f (.for3 (renCE c) (renCSs body) (renCS post)) g3 l3
            | r => r) (fun g2 lG2 gL2 h2 => ?_) (ih.ss body g1 lG g1' l0 hc.1.2 h1.1)
        exact scSeq (fun g3 l3 => execS E P f (.for3 c body post) g3 l3)
          (fun g3 l3 => execS E P' f (.for3 (renCE c) (renCSs body) (renCS post)) g3 l3) hrec
          (ih.s post g2 lG2 gL2 l0 hc.2 h2)
    · sc_t
    · sc_t

theorem scSs_succ {f : Nat} (ih : SimC E n P P' f) (ss : Stms) (g : Nat → V) (lG : Locals V)
    (gL : Nat → V) (l0 : Locals V) (hc : c2Ss n ss = true) (hs : Sm n g gL) :
    RB n l0 gL (execSs E P (f + 1) ss g lG) (execSs E P' (f + 1) (renCSs ss) gL (mkL n g l0)) := by
  cases ss with
  | nil => simp only [renCSs, execSs]; exact RB.done hs (fun _ _ => rfl)
  | cons s rest =>
    simp only [c2Ss, Bool.and_eq_true] at hc
    simp only [renCSs, execSs]
    exact scSeq (fun g1 l1 => execSs E P f rest g1 l1) (fun g1 l1 => execSs E P' f (renCSs rest) g1 l1)
      (fun g2 lG2 gL2 h2 => ih.ss rest g2 lG2 gL2 l0 hc.2 h2) (ih.s s g lG gL l0 hc.1 hs)

/-- **Simulation for the class with calls, same fuel** (see the module text). -/
theorem simC_all (E : Env V) {n L : Nat} {P P' : Prog} (H : NI n L P P') : ∀ f, SimC E n P P' f := by
  intro f
  induction f with
  | zero =>
    exact ⟨fun e g lG gL l0 _ _ => by simp only [evalE]; exact RE.out,
      fun es g lG gL l0 _ _ => by simp only [evalEs]; exact REs.out,
      fun s g lG gL l0 _ _ => by simp only [execS]; exact RB.out,
      fun ss g lG gL l0 _ _ => by simp only [execSs]; exact RB.out⟩
  | succ f ih => exact ⟨scE_succ H ih, scEs_succ ih, scS_succ ih, scSs_succ ih⟩

end
end Tengo.Proofs.C11Place

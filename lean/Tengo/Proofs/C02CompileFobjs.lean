import Tengo.Model.VerifyProg
set_option linter.unusedVariables false
set_option linter.unusedSimpArgs false
namespace Tengo.Proofs.C02Compile
open Tengo.Model Tengo.Model.Opcodes Tengo.Model.Verifier Tengo.Model.VM

/-- give a function constant the heap identity `r`; other constants unchanged -/
def setRef (r : Nat) : VM.Const → VM.Const
  | .fn f _ => .fn f r
  | c => c

/-- the fold step of `initFobjs`, named -/
def fstep (loaded : List Nat) (n : Nat) (acc : Array VM.Const × Array FnObj × Nat) (c : VM.Const) :
    Array VM.Const × Array FnObj × Nat :=
  match c with
  | .fn f _ => if loaded.contains acc.2.2 then (acc.1.push (.fn f acc.2.1.size), acc.2.1.push (acc.2.2, []), acc.2.2 + 1)
               else (acc.1.push (.fn f (n + 1)), acc.2.1, acc.2.2 + 1)
  | c => (acc.1.push c, acc.2.1, acc.2.2 + 1)

theorem initFobjs_eq (code : Code) :
    initFobjs code =
      ({ code with consts := (code.consts.toList.foldl (fstep (constLoaded code) code.consts.size) (#[], #[], 0)).1 },
       (code.consts.toList.foldl (fstep (constLoaded code) code.consts.size) (#[], #[], 0)).2.1) := rfl


theorem setRef_val (r : Nat) (v : Spec.Value) : setRef r (VM.Const.val v) = VM.Const.val v := rfl
theorem setRef_fn (r : Nat) (f : Fn) (r0 : Nat) : setRef r (VM.Const.fn f r0) = VM.Const.fn f r := rfl

/-- the fold invariant, for the prefix `l` of the constants already processed -/
structure FInv (loaded : List Nat) (l : List VM.Const) (R : Array VM.Const × Array FnObj × Nat) : Prop where
  cnt : R.2.2 = l.length
  size : R.1.size = l.length
  img : ∀ j : Nat, ∃ r : Nat, R.1[j]? = (l[j]?).map (setRef r)
  objs : ∀ p ∈ R.2.1.toList, p.2 = [] ∧ loaded.contains p.1 = true ∧ ∃ f r, l[p.1]? = some (VM.Const.fn f r)
  ref : ∀ (j : Nat) (f : Fn) (ref : Nat), R.1[j]? = some (VM.Const.fn f ref) → loaded.contains j = true → R.2.1[ref]? = some (j, [])

theorem img_push {a : Array VM.Const} {l : List VM.Const} (hs : a.size = l.length)
    (h : ∀ j : Nat, ∃ r : Nat, a[j]? = (l[j]?).map (setRef r)) (c : VM.Const) (r0 : Nat) :
    ∀ j : Nat, ∃ r : Nat, (a.push (setRef r0 c))[j]? = ((l ++ [c])[j]?).map (setRef r) := by
  intro j
  rw [Array.getElem?_push]
  rcases Nat.lt_trichotomy j l.length with hj | hj | hj
  · obtain ⟨r, hr⟩ := h j
    refine ⟨r, ?_⟩
    rw [if_neg (by omega), List.getElem?_append_left hj]
    exact hr
  · refine ⟨r0, ?_⟩
    rw [if_pos (by omega), List.getElem?_append_right (by omega)]
    subst hj
    simp
  · refine ⟨0, ?_⟩
    rw [if_neg (by omega), List.getElem?_append_right (by omega)]
    have h1 : a[j]? = none := Array.getElem?_eq_none (by omega)
    have h2 : [c][j - l.length]? = none := List.getElem?_eq_none (by simp; omega)
    rw [h1, h2]; rfl

theorem objs_mono {loaded : List Nat} {l : List VM.Const} (c : VM.Const) {p : FnObj}
    (h : p.2 = [] ∧ loaded.contains p.1 = true ∧ ∃ f r, l[p.1]? = some (VM.Const.fn f r)) :
    p.2 = [] ∧ loaded.contains p.1 = true ∧ ∃ f r, (l ++ [c])[p.1]? = some (VM.Const.fn f r) := by
  obtain ⟨h1, h2, f, r, h3⟩ := h
  refine ⟨h1, h2, f, r, ?_⟩
  have hlt : p.1 < l.length := by
    rcases Nat.lt_or_ge p.1 l.length with h | h
    · exact h
    · rw [List.getElem?_eq_none h] at h3; cases h3
  rw [List.getElem?_append_left hlt]; exact h3

theorem push_get {a : Array VM.Const} {c x : VM.Const} {j : Nat} (h : (a.push c)[j]? = some x) :
    (j < a.size ∧ a[j]? = some x) ∨ (j = a.size ∧ c = x) := by
  rw [Array.getElem?_push] at h
  by_cases hj : j = a.size
  · rw [if_pos hj] at h; right; exact ⟨hj, by injection h⟩
  · rw [if_neg hj] at h; left
    refine ⟨?_, h⟩
    rcases Nat.lt_or_ge j a.size with h' | h'
    · exact h'
    · rw [Array.getElem?_eq_none h'] at h; cases h

theorem FInv_step {loaded : List Nat} (n : Nat) {l : List VM.Const} {R : Array VM.Const × Array FnObj × Nat}
    (h : FInv loaded l R) (c : VM.Const) : FInv loaded (l ++ [c]) (fstep loaded n R c) := by
  obtain ⟨cs, fo, k⟩ := R
  obtain ⟨hcnt, hsize, himg, hobjs, href⟩ := h
  simp only at hcnt hsize himg hobjs href
  cases c with
  | val v =>
    refine ⟨?_, ?_, ?_, ?_, ?_⟩
    · simp [fstep, hcnt]
    · simp [fstep, hsize]
    · exact img_push hsize himg (.val v) 0
    · intro p hp; exact objs_mono _ (hobjs p hp)
    · intro j f ref hj hl
      rcases push_get hj with ⟨_, h1⟩ | ⟨_, h1⟩
      · exact href j f ref h1 hl
      · cases h1
  | fn f0 r0 =>
    by_cases hld : loaded.contains k = true
    · have hst : fstep loaded n (cs, fo, k) (.fn f0 r0) = (cs.push (.fn f0 fo.size), fo.push (k, []), k + 1) := by
        simp only [fstep, hld, if_true]
      rw [hst]
      refine ⟨?_, ?_, ?_, ?_, ?_⟩
      · simp [hcnt]
      · simp [hsize]
      · exact img_push hsize himg (.fn f0 r0) fo.size
      · intro p hp
        simp only [Array.toList_push, List.mem_append, List.mem_singleton] at hp
        rcases hp with hp | hp
        · exact objs_mono _ (hobjs p hp)
        · subst hp
          refine ⟨rfl, hld, f0, r0, ?_⟩
          show (l ++ [VM.Const.fn f0 r0])[k]? = _
          rw [hcnt, List.getElem?_append_right (by omega)]; simp
      · intro j f ref hj hl
        rcases push_get hj with ⟨_, h1⟩ | ⟨h0, h1⟩
        · have := href j f ref h1 hl
          rw [Array.getElem?_push, if_neg]
          · exact this
          · intro he; rw [he, Array.getElem?_eq_none (Nat.le_refl _)] at this; cases this
        · injection h1 with h1 h2
          subst h2
          rw [Array.getElem?_push, if_pos rfl, h0, hsize, hcnt]
    · have hst : fstep loaded n (cs, fo, k) (.fn f0 r0) = (cs.push (.fn f0 (n + 1)), fo, k + 1) := by
        simp only [fstep, hld, if_false]; rfl
      rw [hst]
      refine ⟨?_, ?_, ?_, ?_, ?_⟩
      · simp [hcnt]
      · simp [hsize]
      · exact img_push hsize himg (.fn f0 r0) (n + 1)
      · intro p hp; exact objs_mono _ (hobjs p hp)
      · intro j f ref hj hl
        rcases push_get hj with ⟨_, h1⟩ | ⟨h0, h1⟩
        · exact href j f ref h1 hl
        · exfalso; apply hld; rw [hcnt, ← hsize, ← h0]; exact hl

theorem FInv_foldl {loaded : List Nat} (n : Nat) (l' : List VM.Const) :
    ∀ (l : List VM.Const) (R : Array VM.Const × Array FnObj × Nat), FInv loaded l R →
      FInv loaded (l ++ l') (l'.foldl (fstep loaded n) R) := by
  induction l' with
  | nil => intro l R h; simpa using h
  | cons c t ih =>
    intro l R h
    have := ih (l ++ [c]) _ (FInv_step n h c)
    rw [List.foldl_cons]
    simpa [List.append_assoc] using this

theorem FInv_nil (loaded : List Nat) : FInv loaded [] (#[], #[], 0) := by
  refine ⟨rfl, rfl, ?_, ?_, ?_⟩
  · intro j; exact ⟨0, by simp⟩
  · intro p hp; simp at hp
  · intro j f ref hj; simp at hj

theorem FInv_init (code : Code) :
    FInv (constLoaded code) code.consts.toList
      (code.consts.toList.foldl (fstep (constLoaded code) code.consts.size) (#[], #[], 0)) := by
  have := FInv_foldl (loaded := constLoaded code) code.consts.size code.consts.toList [] _ (FInv_nil _)
  simpa using this

/-- `initFobjs` keeps the main function and only re-labels the function constants. -/
theorem initFobjs_code (code : Code) :
    (initFobjs code).1.main = code.main ∧
    ∃ refs : Nat → Nat, ∀ k : Nat, (initFobjs code).1.consts[k]? = (code.consts[k]?).map (setRef (refs k)) := by
  refine ⟨rfl, ?_⟩
  have h := (FInv_init code).img
  obtain ⟨refs, hrefs⟩ := Classical.skolem.mp h
  refine ⟨refs, fun k => ?_⟩
  rw [initFobjs_eq]
  have := hrefs k
  rw [Array.getElem?_toList] at this
  exact this

/-- every initial function object is `(k, [])` for a function constant `k` that some CONST instruction loads -/
theorem initFobjs_objs (code : Code) :
    ∀ p ∈ (initFobjs code).2.toList, p.2 = [] ∧ (constLoaded code).contains p.1 = true ∧
      ∃ f r, code.consts[p.1]? = some (VM.Const.fn f r) := by
  intro p hp
  rw [initFobjs_eq] at hp
  have := (FInv_init code).objs p hp
  rw [Array.getElem?_toList] at this
  exact this

/-- a loaded function constant points at its function object -/
theorem initFobjs_ref (code : Code) (k : Nat) (f : Fn) (ref : Nat)
    (hk : (initFobjs code).1.consts[k]? = some (VM.Const.fn f ref))
    (hl : (constLoaded code).contains k = true) :
    (initFobjs code).2[ref]? = some (k, []) := by
  rw [initFobjs_eq] at hk ⊢
  exact (FInv_init code).ref k f ref hk hl


/-- the functions whose code `constLoaded` scans -/
def scanned (code : Code) : List Fn :=
  code.main :: code.consts.toList.filterMap (fun (c : VM.Const) => match c with | .fn f _ => some f | _ => none)

/-- what one decoded instruction contributes to `constLoaded` -/
def loadOf (code : Code) (i : Instr) : Option Nat :=
  let a0 := i.args.headD 0
  if i.op == opConstant then (match code.consts[a0]? with | some (VM.Const.fn _ _) => some a0 | _ => none) else none

/-- what one function contributes to `constLoaded` -/
def loadsOf (code : Code) (f : Fn) : List Nat :=
  match decodeFn f with
  | none => []
  | some is => is.filterMap (loadOf code)

theorem constLoaded_eq (code : Code) : constLoaded code = (scanned code).flatMap (loadsOf code) := rfl

theorem mem_scanned (code : Code) (g : Fn) :
    g ∈ scanned code ↔ (g = code.main ∨ ∃ (j : Nat) (r : Nat), code.consts[j]? = some (VM.Const.fn g r)) := by
  unfold scanned
  rw [List.mem_cons, List.mem_filterMap]
  constructor
  · rintro (h | ⟨c, hc, hg⟩)
    · exact Or.inl h
    · right
      obtain ⟨j, hj⟩ := List.mem_iff_getElem?.mp hc
      rw [Array.getElem?_toList] at hj
      cases c with
      | val v => cases hg
      | fn f r => injection hg with hg; subst hg; exact ⟨j, r, hj⟩
  · rintro (h | ⟨j, r, hj⟩)
    · exact Or.inl h
    · right
      refine ⟨VM.Const.fn g r, ?_, rfl⟩
      exact List.mem_iff_getElem?.mpr ⟨j, by rw [Array.getElem?_toList]; exact hj⟩

theorem loadOf_eq_some (code : Code) (i : Instr) (k : Nat) :
    loadOf code i = some k ↔
      (i.op = opConstant ∧ i.args.headD 0 = k ∧ ∃ f r, code.consts[k]? = some (VM.Const.fn f r)) := by
  unfold loadOf
  constructor
  · intro h
    simp only at h
    by_cases hop : (i.op == opConstant) = true
    · rw [if_pos hop] at h
      have hop' : i.op = opConstant := by simpa using hop
      split at h
      · rename_i f r hc
        injection h with h
        subst h
        exact ⟨hop', rfl, f, r, hc⟩
      · cases h
    · rw [if_neg hop] at h; cases h
  · rintro ⟨hop, hk, f, r, hc⟩
    simp only
    have hop' : (i.op == opConstant) = true := by simpa using hop
    rw [if_pos hop', hk, hc]

theorem mem_loadsOf (code : Code) (g : Fn) (k : Nat) :
    k ∈ loadsOf code g ↔
      ∃ is, decodeFn g = some is ∧ ∃ i ∈ is, i.op = opConstant ∧ i.args.headD 0 = k ∧
        ∃ f r, code.consts[k]? = some (VM.Const.fn f r) := by
  unfold loadsOf
  cases hd : decodeFn g with
  | none =>
    simp only []
    constructor
    · intro h; cases h
    · rintro ⟨is, h, _⟩; cases h
  | some is =>
    simp only []
    rw [List.mem_filterMap]
    constructor
    · rintro ⟨i, hi, hl⟩
      exact ⟨is, rfl, i, hi, (loadOf_eq_some code i k).mp hl⟩
    · rintro ⟨is', h, i, hi, hl⟩
      injection h with h
      subst h
      exact ⟨i, hi, (loadOf_eq_some code i k).mpr hl⟩

/-- membership in `constLoaded`, spelled out -/
theorem mem_constLoaded (code : Code) (k : Nat) :
    k ∈ constLoaded code ↔
      ∃ g : Fn, (g = code.main ∨ ∃ (j : Nat) (r : Nat), code.consts[j]? = some (VM.Const.fn g r)) ∧
        ∃ is, decodeFn g = some is ∧ ∃ i ∈ is, i.op = opConstant ∧ i.args.headD 0 = k ∧
          ∃ f r, code.consts[k]? = some (VM.Const.fn f r) := by
  rw [constLoaded_eq, List.mem_flatMap]
  constructor
  · rintro ⟨g, hg, hk⟩
    exact ⟨g, (mem_scanned code g).mp hg, (mem_loadsOf code g k).mp hk⟩
  · rintro ⟨g, hg, hk⟩
    exact ⟨g, (mem_scanned code g).mpr hg, (mem_loadsOf code g k).mpr hk⟩

end Tengo.Proofs.C02Compile

import Tengo.Proofs.C03Reloc
/-!
A decidable form of the hypothesis `TwinCode` of the universal relocation theorem, for evaluation by the
driver on the real compiler's programs: `checkTwin code = true → TwinCode code _ (rawsOf code)`. With it
the driver can say, per program, "this program IS one the universal theorem speaks about, and the real
optimizer's bodies ARE the model's" — then `optimized_run` applies to the real program pair itself.
-/
set_option linter.unusedSectionVars false
set_option linter.unusedSimpArgs false
namespace Tengo.Proofs.C03Reloc
open Tengo.Model Tengo.Model.Opcodes Tengo.Model.Optimizer Tengo.Proofs.C03 Tengo.Props.C03Sim

def wfJumpsB (is : List Instr) (endPos : Nat) : Bool :=
  is.all (fun i => !isJump i.op ||
    match i.args.head? with
    | some t => t == endPos || is.any (fun j => j.pos == t)
    | none => false)

theorem wfJumpsB_sound {is : List Instr} {endPos : Nat} (h : wfJumpsB is endPos = true) : WFJumps is endPos := by
  intro i hi hj
  unfold wfJumpsB at h
  rw [List.all_eq_true] at h
  have := h i hi
  simp only [hj, Bool.not_true, Bool.false_or] at this
  cases ht : i.args.head? with
  | none => simp [ht] at this
  | some t =>
    simp only [ht, Bool.or_eq_true, beq_iff_eq, List.any_eq_true] at this
    refine ⟨t, rfl, ?_⟩
    rcases this with h1 | ⟨j, hj, hp⟩
    · exact Or.inl h1
    · exact Or.inr ⟨j, hj, hp⟩

/-- The optimizer input a twin body was made from: the body without its last two bytes. -/
def rawOf (f : VM.Fn) : Bytes := f.insts.toList.take (f.insts.size - 2)

def checkTwinFn (f : VM.Fn) : Bool :=
  f.insts.toList == rawOf f ++ retBytes && decide ((rawOf f).length < 2 ^ 32) &&
    match decode (rawOf f) with
    | some is => wfJumpsB is (rawOf f).length
    | none => false

def rawsOf (code : VM.Code) : Nat → Bytes := fun idx =>
  match code.fn idx with
  | some f => rawOf f
  | none => []

def checkTwin (code : VM.Code) : Bool :=
  (match decode code.main.insts.toList with
   | some mainIs => !mainIs.isEmpty && decide (ClosedJumps mainIs) && decide (ClosedFall mainIs)
   | none => false) &&
  (List.range (code.consts.size + 1)).all (fun idx =>
    idx == 0 || match code.fn idx with
    | some f => checkTwinFn f
    | none => true)

theorem checkTwin_sound {code : VM.Code} (h : checkTwin code = true) :
    ∃ mainIs, TwinCode code mainIs (rawsOf code) := by
  unfold checkTwin at h
  rw [Bool.and_eq_true] at h
  obtain ⟨hm, hf⟩ := h
  cases hd : decode code.main.insts.toList with
  | none => simp [hd] at hm
  | some mainIs =>
    simp only [hd, Bool.and_eq_true, Bool.not_eq_true', decide_eq_true_eq] at hm
    refine ⟨mainIs, hd, ?_, hm.1.2, hm.2, ?_⟩
    · intro he; rw [he] at hm; simp at hm
    · intro idx f h0 hfn
      rw [List.all_eq_true] at hf
      have := hf idx (List.mem_range.mpr (VM.fn_some_lt hfn))
      have h0' : (idx == 0) = false := by simp [h0]
      simp only [h0', Bool.false_or, hfn] at this
      unfold checkTwinFn at this
      simp only [Bool.and_eq_true, beq_iff_eq, decide_eq_true_eq] at this
      obtain ⟨⟨h1, h2⟩, h3⟩ := this
      have hraw : rawsOf code idx = rawOf f := by simp [rawsOf, hfn]
      rw [hraw]
      refine ⟨?_, ?_⟩
      · unfold twinBytes
        rw [← h1]
      · cases hdr : decode (rawOf f) with
        | none => simp [hdr] at h3
        | some is =>
          simp only [hdr] at h3
          exact ⟨is, rfl, wfJumpsB_sound h3, h2⟩

/-- The real optimizer's bodies are the model's. -/
def bodiesAreModel (code : VM.Code) (b : Nat → Array UInt8) : Bool :=
  (List.range (code.consts.size + 1)).all (fun idx =>
    match code.fn idx with
    | some _ => b idx == optBodies code (rawsOf code) idx
    | none => true)

open Tengo.Model.VM in
/-- **A program pair the driver has classified is covered by the universal theorem**: the twin has the
shape `TwinCode` and the optimized bodies are the model's, so the relocation check passes — by proof, not
by evaluation. -/
theorem covered_reloc {code : Code} {b : Nat → Array UInt8} (h1 : checkTwin code = true)
    (h2 : bodiesAreModel code b = true) :
    ∃ mainIs, TwinCode code mainIs (rawsOf code) ∧ checkReloc code b (optTabs mainIs (rawsOf code)) = true := by
  obtain ⟨mainIs, htw⟩ := checkTwin_sound h1
  refine ⟨mainIs, htw, ?_⟩
  unfold bodiesAreModel at h2
  rw [List.all_eq_true] at h2
  have hb : ∀ idx f, code.fn idx = some f → b idx = optBodies code (rawsOf code) idx := by
    intro idx f hf
    have := h2 idx (List.mem_range.mpr (fn_some_lt hf))
    simpa [hf] using this
  apply opt_code_reloc htw b
  · exact hb 0 code.main (by simp [Code.fn])
  · intro idx f h0 hf
    obtain ⟨_, is, hd, hw, _⟩ := htw.fns idx f h0 hf
    obtain ⟨r, hr⟩ := opt_total is (rawsOf code idx).length [] 0 hw
    have hr' : opt (rawsOf code idx) [] 0 = .ok r := by simp [opt, hd, hr]
    refine ⟨[], 0, r, hr', ?_⟩
    rw [hb idx f hf]
    cases idx with
    | zero => exact absurd rfl h0
    | succ k => exact optBody_eq hr'

end Tengo.Proofs.C03Reloc

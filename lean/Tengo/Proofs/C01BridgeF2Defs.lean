import Tengo.Model.F2
import Tengo.Proofs.F2Program
import Tengo.Proofs.C01BridgeDefs
/-!
C01 bridge for fragment F2 (F1 + `break` / `continue` + three-clause loops), layer 0: the embedding of F2 into
the real AST (`toAstS2` / `toAstSs2`: `break` / `continue` are the `BranchStmt`s with tokens `Break` /
`Continue`, the three-clause loop is `ForStmt` with condition and post statement, without init), the side
conditions of the embedding (`wfS2`: slots, operator tokens, literal numbering in compilation order — condition,
body, post statement; `simplePostS`: post statements are expression statements or assignments, as the parser
produces them), the traversal budget, and the positions of the jumps the real compiler back-patches when a loop
is finished (`jposS true`: the `break`s of the enclosing loop, `jposS false`: its `continue`s).
-/
namespace Tengo.Proofs.C01Bridge
open Tengo.Model Tengo.Model.F0 Tengo.Model.Opcodes
open Tengo.Model.Spec (Expr Stmt)

section embed
variable (names : Nat → String) (ctab : Nat → F0.Const)

mutual
  def toAstS2 : F2.Stm → Stmt
    | .expr e => .expr (toAstE names ctab e)
    | .assign i e => .assign "Assign" [.ident (names i)] [toAstE names ctab e]
    | .ifs c body => .ifs none (toAstE names ctab c) (toAstSs2 body) none
    | .ifelse c body els => .ifs none (toAstE names ctab c) (toAstSs2 body) (some (.block (toAstSs2 els)))
    | .whil c body => .fors none (some (toAstE names ctab c)) none (toAstSs2 body)
    | .forever body => .fors none none none (toAstSs2 body)
    | .for3 c body post => .fors none (some (toAstE names ctab c)) (some (toAstS2 post)) (toAstSs2 body)
    | .brk => .branch "Break"
    | .cont => .branch "Continue"
  def toAstSs2 : F2.Stms → List Stmt
    | .nil => []
    | .cons s ss => toAstS2 s :: toAstSs2 ss
end

end embed

/-! ### literal numbering, slots, tokens -/

mutual
  def nlitsS2 : F2.Stm → Nat
    | .expr e => nlitsE e
    | .assign _ e => nlitsE e
    | .ifs c body => nlitsE c + nlitsSs2 body
    | .ifelse c body els => nlitsE c + nlitsSs2 body + nlitsSs2 els
    | .whil c body => nlitsE c + nlitsSs2 body
    | .forever body => nlitsSs2 body
    | .for3 c body post => nlitsE c + nlitsSs2 body + nlitsS2 post
    | .brk => 0
    | .cont => 0
  def nlitsSs2 : F2.Stms → Nat
    | .nil => 0
    | .cons s ss => nlitsS2 s + nlitsSs2 ss
end

mutual
  /-- Slots below `n`, binary tokens operators of the language, literals numbered `k, k+1, …` in compilation
  order. -/
  def wfS2 (n : Nat) : Nat → F2.Stm → Bool
    | k, .expr e => wfE n k e
    | k, .assign i e => decide (i < n) && wfE n k e
    | k, .ifs c body => wfE n k c && wfSs2 n (k + nlitsE c) body
    | k, .ifelse c body els =>
      wfE n k c && wfSs2 n (k + nlitsE c) body && wfSs2 n (k + nlitsE c + nlitsSs2 body) els
    | k, .whil c body => wfE n k c && wfSs2 n (k + nlitsE c) body
    | k, .forever body => wfSs2 n k body
    | k, .for3 c body post =>
      wfE n k c && wfSs2 n (k + nlitsE c) body && wfS2 n (k + nlitsE c + nlitsSs2 body) post
    | _, .brk => true
    | _, .cont => true
  def wfSs2 (n : Nat) : Nat → F2.Stms → Bool
    | _, .nil => true
    | k, .cons s ss => wfS2 n k s && wfSs2 n (k + nlitsS2 s) ss
end

/-- A statement the parser accepts as the post statement of a loop (a simple statement). -/
def isSimple : F2.Stm → Bool
  | .expr _ => true
  | .assign _ _ => true
  | _ => false

mutual
  /-- Every post statement of a three-clause loop is an expression statement or an assignment. -/
  def simplePostS : F2.Stm → Bool
    | .expr _ => true
    | .assign _ _ => true
    | .ifs _ body => simplePostSs body
    | .ifelse _ body els => simplePostSs body && simplePostSs els
    | .whil _ body => simplePostSs body
    | .forever body => simplePostSs body
    | .for3 _ body post => simplePostSs body && isSimple post
    | .brk => true
    | .cont => true
  def simplePostSs : F2.Stms → Bool
    | .nil => true
    | .cons s ss => simplePostS s && simplePostSs ss
end

/-! ### depth budget of the compiler model's traversal (and of the interpreter's fuel) -/

mutual
  def budS2 : F2.Stm → Nat
    | .expr e => 1 + budE e
    | .assign _ e => 2 + budE e
    | .ifs c body => 2 + max (budE c) (budSs2 body)
    | .ifelse c body els => 4 + max (budE c) (max (budSs2 body) (budSs2 els))
    | .whil c body => 2 + max (budE c) (budSs2 body)
    | .forever body => 2 + budSs2 body
    | .for3 c body post => 2 + max (budE c) (max (budSs2 body) (budS2 post))
    | .brk => 1
    | .cont => 1
  def budSs2 : F2.Stms → Nat
    | .nil => 1
    | .cons s ss => 1 + max (budS2 s) (budSs2 ss)
end

/-! ### the jumps a loop back-patches -/

mutual
  /-- Byte positions of the `JMP`s of the `break`s (`w = true`) / `continue`s (`w = false`) of the ENCLOSING loop
  in the code of a statement placed at `off`, in emission order: what the real compiler appends to
  `loop.breaks` / `loop.continues`. -/
  def jposS (w : Bool) (off : Nat) : F2.Stm → List Nat
    | .expr _ => []
    | .assign _ _ => []
    | .ifs c body => jposSs w (off + F2.esz c + 5) body
    | .ifelse c body els =>
      jposSs w (off + F2.esz c + 5) body ++ jposSs w (off + F2.esz c + 5 + F2.sssize body + 5) els
    | .whil _ _ => []
    | .forever _ => []
    | .for3 c body post => jposS w (off + F2.esz c + 5 + F2.sssize body) post
    | .brk => if w then [off] else []
    | .cont => if w then [] else [off]
  def jposSs (w : Bool) (off : Nat) : F2.Stms → List Nat
    | .nil => []
    | .cons s ss => jposS w off s ++ jposSs w (off + F2.ssize s) ss
end

end Tengo.Proofs.C01Bridge

import Tengo.Proofs.C01BridgeF3CompExpr
/-!
C01 bridge for fragment F3, compile side, layer 3 (back-patching): as `C01BridgeF2Patch` for `F3.compS`. Running
`patchAll` over the recorded positions `jposS3 w off st` of code compiled with targets `b`, `c` yields, byte for
byte, the code compiled with the `break` target (`w = true`) resp. the `continue` target (`w = false`) replaced by
the patched value.
-/
set_option linter.unusedVariables false
set_option linter.unusedSimpArgs false
namespace Tengo.Proofs.C01BridgeF3Comp
open Tengo.Model Tengo.Model.Compiler Tengo.Model.Opcodes
open Tengo.Model.Spec (Expr Stmt)
open Tengo.Model.F3 (Ex Exs Stm Stms FnDef Prog Ins)
open Tengo.Proofs.C01Bridge

def PatchS3 (st : Stm) : Prop :=
  ∀ (w : Bool) (s : CState) (A B : List UInt8) (ks : List Compiler.Const) (off b c t : Nat),
    off = s.insts.size + A.length →
    Steps (patchAll (jposS3 w off st) t) (app s (A ++ encodeIns3 (F3.compS b c off st) ++ B) ks) ()
      (app s (A ++ encodeIns3 (F3.compS (if w then t else b) (if w then c else t) off st) ++ B) ks)

def PatchSs3 (ss : Stms) : Prop :=
  ∀ (w : Bool) (s : CState) (A B : List UInt8) (ks : List Compiler.Const) (off b c t : Nat),
    off = s.insts.size + A.length →
    Steps (patchAll (jposSs3 w off ss) t) (app s (A ++ encodeIns3 (F3.compSs b c off ss) ++ B) ks) ()
      (app s (A ++ encodeIns3 (F3.compSs (if w then t else b) (if w then c else t) off ss) ++ B) ks)

theorem patch_jmp3 (s : CState) (A B : List UInt8) (ks : List Compiler.Const) (off x t : Nat)
    (hoff : off = s.insts.size + A.length) :
    Steps (patchAll [off] t) (app s (A ++ encodeIns3 [Ins.jmp x] ++ B) ks) ()
      (app s (A ++ encodeIns3 [Ins.jmp t] ++ B) ks) := by
  refine steps_patchAll_one ?_
  have h := steps_patch_at s A opJump x t B (A ++ encodeInstr opJump [x] ++ B) ks off rfl (by decide) rfl hoff
  rw [enc_jmp3, enc_jmp3, ← encodeIns3_single, ← encodeIns3_single] at h
  exact h

theorem patchS3_brk : PatchS3 .brk := by
  intro w s A B ks off b c t hoff
  cases w with
  | true =>
    simp only [jposS3, F3.compS, if_true]
    exact patch_jmp3 s A B ks off b t hoff
  | false =>
    simp only [jposS3, F3.compS, Bool.false_eq_true, if_false]
    exact Steps.pure () _

theorem patchS3_cont : PatchS3 .cont := by
  intro w s A B ks off b c t hoff
  cases w with
  | true =>
    simp only [jposS3, F3.compS, if_true]
    exact Steps.pure () _
  | false =>
    simp only [jposS3, F3.compS, Bool.false_eq_true, if_false]
    exact patch_jmp3 s A B ks off c t hoff

theorem patchS3_ifs (cnd : Ex) (body : Stms) (hb : PatchSs3 body) : PatchS3 (.ifs cnd body) := by
  intro w s A B ks off b c t hoff
  have ih := hb w s (A ++ encodeIns3 (F3.comp off cnd ++ [Ins.jmpf (off + F3.esize cnd + 5 + F3.sssize body)])) B ks
    (off + F3.esize cnd + 5) b c t
    (by simp [encodeIns3_length, F3.csize_append, F3.csize_comp, F3.csize, F3.Ins.size, hoff]; omega)
  simp only [jposS3]
  refine ih.conv ?_ ?_ <;> simp only [F3.compS, encodeIns3_append, List.append_assoc]

theorem patchS3_ifelse (cnd : Ex) (body els : Stms) (hb : PatchSs3 body) (he : PatchSs3 els) :
    PatchS3 (.ifelse cnd body els) := by
  intro w s A B ks off b c t hoff
  have ih1 := hb w s
    (A ++ encodeIns3 (F3.comp off cnd ++ [Ins.jmpf (off + F3.esize cnd + 5 + F3.sssize body + 5)]))
    (encodeIns3 ([Ins.jmp (off + F3.esize cnd + 5 + F3.sssize body + 5 + F3.sssize els)] ++
      F3.compSs b c (off + F3.esize cnd + 5 + F3.sssize body + 5) els) ++ B) ks
    (off + F3.esize cnd + 5) b c t
    (by simp [encodeIns3_length, F3.csize_append, F3.csize_comp, F3.csize, F3.Ins.size, hoff]; omega)
  have ih2 := he w s
    (A ++ encodeIns3 (F3.comp off cnd ++ [Ins.jmpf (off + F3.esize cnd + 5 + F3.sssize body + 5)] ++
      F3.compSs (if w then t else b) (if w then c else t) (off + F3.esize cnd + 5) body ++
      [Ins.jmp (off + F3.esize cnd + 5 + F3.sssize body + 5 + F3.sssize els)])) B ks
    (off + F3.esize cnd + 5 + F3.sssize body + 5) b c t
    (by simp [encodeIns3_length, F3.csize_append, F3.csize_comp, F3.csize_compSs, F3.csize, F3.Ins.size, hoff]
        omega)
  simp only [jposS3]
  refine steps_patchAll_append (ih1.conv ?_ rfl) (ih2.conv ?_ ?_) <;>
    simp only [F3.compS, encodeIns3_append, List.append_assoc]

theorem patchS3_for3 (cnd : Ex) (body : Stms) (post : Stm) (hp : PatchS3 post) :
    PatchS3 (.for3 cnd body post) := by
  intro w s A B ks off b c t hoff
  have ih := hp w s (A ++ encodeIns3 (F3.comp off cnd ++
      [Ins.jmpf (off + F3.esize cnd + 5 + F3.sssize body + F3.ssize post + 5)] ++
      F3.compSs (off + F3.esize cnd + 5 + F3.sssize body + F3.ssize post + 5)
        (off + F3.esize cnd + 5 + F3.sssize body) (off + F3.esize cnd + 5) body))
    (encodeIns3 [Ins.jmp off] ++ B) ks (off + F3.esize cnd + 5 + F3.sssize body) b c t
    (by simp [encodeIns3_length, F3.csize_append, F3.csize_comp, F3.csize_compSs, F3.csize, F3.Ins.size, hoff]
        omega)
  simp only [jposS3]
  refine ih.conv ?_ ?_ <;> simp only [F3.compS, encodeIns3_append, List.append_assoc]

theorem patchSs3_cons (st : Stm) (ss : Stms) (h1 : PatchS3 st) (h2 : PatchSs3 ss) : PatchSs3 (.cons st ss) := by
  intro w s A B ks off b c t hoff
  have ih1 := h1 w s A (encodeIns3 (F3.compSs b c (off + F3.ssize st) ss) ++ B) ks off b c t hoff
  have ih2 := h2 w s (A ++ encodeIns3 (F3.compS (if w then t else b) (if w then c else t) off st)) B ks
    (off + F3.ssize st) b c t (by simp [encodeIns3_length, F3.csize_compS, hoff]; omega)
  simp only [jposSs3]
  refine steps_patchAll_append (ih1.conv ?_ rfl) (ih2.conv ?_ ?_) <;>
    simp only [F3.compSs, encodeIns3_append, List.append_assoc]

theorem patchS3_trivial (st : Stm) (hj : ∀ w off, jposS3 w off st = [])
    (hc : ∀ b c b' c' off, F3.compS b c off st = F3.compS b' c' off st) : PatchS3 st := by
  intro w s A B ks off b c t hoff
  rw [hj, hc (if w then t else b) (if w then c else t) b c]
  exact Steps.pure () _

mutual
  theorem patchS3 : ∀ st : Stm, PatchS3 st
    | .expr e => patchS3_trivial _ (fun _ _ => rfl) (fun _ _ _ _ _ => by simp only [F3.compS])
    | .assign i e => patchS3_trivial _ (fun _ _ => rfl) (fun _ _ _ _ _ => by simp only [F3.compS])
    | .defl i e => patchS3_trivial _ (fun _ _ => rfl) (fun _ _ _ _ _ => by simp only [F3.compS])
    | .setl i e => patchS3_trivial _ (fun _ _ => rfl) (fun _ _ _ _ _ => by simp only [F3.compS])
    | .ret e => patchS3_trivial _ (fun _ _ => rfl) (fun _ _ _ _ _ => by simp only [F3.compS])
    | .ret0 => patchS3_trivial _ (fun _ _ => rfl) (fun _ _ _ _ _ => by simp only [F3.compS])
    | .whil cnd body => patchS3_trivial _ (fun _ _ => rfl) (fun _ _ _ _ _ => by simp only [F3.compS])
    | .forever body => patchS3_trivial _ (fun _ _ => rfl) (fun _ _ _ _ _ => by simp only [F3.compS])
    | .ifs cnd body => patchS3_ifs cnd body (patchSs3 body)
    | .ifelse cnd body els => patchS3_ifelse cnd body els (patchSs3 body) (patchSs3 els)
    | .for3 cnd body post => patchS3_for3 cnd body post (patchS3 post)
    | .brk => patchS3_brk
    | .cont => patchS3_cont
  theorem patchSs3 : ∀ ss : Stms, PatchSs3 ss
    | .nil => by
      intro w s A B ks off b c t hoff
      simp only [jposSs3, F3.compSs]; exact Steps.pure () _
    | .cons st ss => patchSs3_cons st ss (patchS3 st) (patchSs3 ss)
end

/-- `patchSs3` in the shape the loop statements meet it. -/
theorem patch_loop3 (body : Stms) (w : Bool) (s : CState) (P J B : List UInt8) (ks : List Compiler.Const)
    (off b c t : Nat) (hoff : off = s.insts.size + P.length + J.length) :
    Steps (patchAll (jposSs3 w off body) t) (app s (P ++ J ++ (encodeIns3 (F3.compSs b c off body) ++ B)) ks) ()
      (app s (P ++ J ++ (encodeIns3 (F3.compSs (if w then t else b) (if w then c else t) off body) ++ B)) ks) := by
  have h := patchSs3 body w s (P ++ J) B ks off b c t (by simp [hoff]; omega)
  refine h.conv ?_ ?_ <;> simp only [List.append_assoc]

end Tengo.Proofs.C01BridgeF3Comp

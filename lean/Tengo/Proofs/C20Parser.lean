import Tengo.Model.Parser
/-!
Helper lemmas for C20: the expression parser of `Tengo.Model.Parser` seen through `run` (result without
the termination witness), as plain equations, and the correctness of precedence climbing on minimally
parenthesised token lists (`climb`): binary operators of the five levels (left associative), unary
operators above them, the ternary operator below, parentheses.
-/
namespace Tengo.Proofs.C20Parser
open Tengo.Model.Token Tengo.Model.Scanner Tengo.Model.Ast Tengo.Model.Parser Tengo.Model.Literal

variable (fo : Bs → Option Nat)

/-- A parser result without the length witness. -/
def run {α : Type} {n : Nat} (r : R α n) : Option (α × Toks) :=
  match r with
  | none => none
  | some o => some (o.val, o.rest)

@[simp] theorem run_none {α : Type} {n : Nat} : run (none : R α n) = none := rfl
@[simp] theorem run_some {α : Type} {n : Nat} (o : Ok α n) : run (some o) = some (o.val, o.rest) := rfl

/-! ### Equations of the model functions -/

theorem run_parseBinary (p : Nat) (ts : Toks) : run (parseBinary fo p ts) =
    match run (parseUnary fo ts) with
    | none => none
    | some (x, r) => run (binLoop fo p x r) := by
  rw [parseBinary]
  cases h : parseUnary fo ts with
  | none => simp
  | some o =>
    obtain ⟨x, r, hr⟩ := o
    simp only [run_some]
    cases h2 : binLoop fo p x r with
    | none => simp
    | some o2 => obtain ⟨y, r', hr'⟩ := o2; simp

theorem run_binLoop_nil (p : Nat) (x : Expr) : run (binLoop fo p x []) = some (x, []) := by
  rw [binLoop]; simp

theorem run_binLoop_cons (p : Nat) (x : Expr) (t : Token) (rest : Toks) :
    run (binLoop fo p x (t :: rest)) =
      if t.tok.prec < p then some (x, t :: rest)
      else match run (parseBinary fo (t.tok.prec + 1) rest) with
        | none => none
        | some (y, r) => run (binLoop fo p (.bin t.tok x y) r) := by
  rw [binLoop]
  split
  · simp
  · cases h : parseBinary fo (t.tok.prec + 1) rest with
    | none => simp
    | some o =>
      obtain ⟨y, r, hr⟩ := o
      simp only [run_some]
      cases h2 : binLoop fo p (Expr.bin t.tok x y) r with
      | none => simp
      | some o2 => obtain ⟨z, r', hr'⟩ := o2; simp

theorem run_parseUnary_cons (t : Token) (rest : Toks) :
    run (parseUnary fo (t :: rest)) =
      if isUnaryOp t.tok then
        match run (parseUnary fo rest) with
        | none => none
        | some (x, r) => some (.un t.tok x, r)
      else run (parsePrimary fo (t :: rest)) := by
  rw [parseUnary]
  split
  · cases h : parseUnary fo rest with
    | none => simp
    | some o => obtain ⟨x, r, hr⟩ := o; simp
  · rfl

theorem run_parsePrimary (ts : Toks) : run (parsePrimary fo ts) =
    match run (parseOperand fo ts) with
    | none => none
    | some (x, r) => run (postfixLoop fo x r) := by
  rw [parsePrimary]
  cases h : parseOperand fo ts with
  | none => simp
  | some o =>
    obtain ⟨x, r, hr⟩ := o
    simp only [run_some]
    cases h2 : postfixLoop fo x r with
    | none => simp
    | some o2 => obtain ⟨y, r', hr'⟩ := o2; simp

/-- The current token does not continue a primary expression. -/
def NoPostfix (ts : Toks) : Prop := tk ts ≠ .Period ∧ tk ts ≠ .LBrack ∧ tk ts ≠ .LParen

theorem run_postfixLoop_stop (x : Expr) (ts : Toks) (h : NoPostfix ts) :
    run (postfixLoop fo x ts) = some (x, ts) := by
  obtain ⟨h1, h2, h3⟩ := h
  cases ts with
  | nil => rw [postfixLoop]; simp
  | cons t rest =>
    simp only [tk] at h1 h2 h3
    rw [postfixLoop.eq_def]
    simp [h1, h2, h3]

theorem run_expectTok_hit (t : Tok) (x : Token) (rest : Toks) (h : x.tok = t) :
    run (expectTok t (x :: rest)) = some ((), rest) := by
  simp [expectTok, h]

theorem run_parseExpr (ts : Toks) : run (parseExpr fo ts) =
    match run (parseBinary fo 1 ts) with
    | none => none
    | some (x, r) =>
      match r with
      | [] => some (x, [])
      | t :: r1 =>
        if t.tok = .Question then
          match run (parseExpr fo r1) with
          | none => none
          | some (a, r2) =>
            match r2 with
            | [] => none
            | c :: r3 =>
              if c.tok = .Colon then
                match run (parseExpr fo r3) with
                | none => none
                | some (b, r4) => some (.cond x a b, r4)
              else none
        else some (x, t :: r1) := by
  rw [parseExpr]
  cases h : parseBinary fo 1 ts with
  | none => simp
  | some o =>
    obtain ⟨x, r, hr⟩ := o
    simp only [run_some]
    cases r with
    | nil => simp
    | cons t r1 =>
      simp only
      by_cases hq : t.tok = .Question
      · simp only [hq, beq_self_eq_true, if_true]
        cases h2 : parseExpr fo r1 with
        | none => simp
        | some o2 =>
          obtain ⟨a, r2, hr2⟩ := o2
          simp only [run_some]
          cases r2 with
          | nil => simp
          | cons c r3 =>
            simp only
            by_cases hc : c.tok = .Colon
            · simp only [hc, beq_self_eq_true, if_true]
              cases h3 : parseExpr fo r3 with
              | none => simp
              | some o3 => obtain ⟨b, r4, hr4⟩ := o3; simp
            · simp [hc]
      · simp [hq]

/-- Operand tokens whose parse needs no side condition. -/
def isAtomTok (t : Tok) : Bool :=
  t == .Ident || t == .True || t == .False || t == .Undefined || t == .String

def atomAst (t : Token) : Expr :=
  match t.tok with
  | .Ident => .ident t.lit
  | .True => .bool true
  | .False => .bool false
  | .Undefined => .undef
  | _ => .str (stringValue t.lit) t.lit

theorem run_parseOperand_atom (t : Token) (rest : Toks) (h : isAtomTok t.tok = true) :
    run (parseOperand fo (t :: rest)) = some (atomAst t, rest) := by
  rw [parseOperand]
  cases ht : t.tok <;> simp [isAtomTok, ht] at h <;> simp [atomAst, ht]

theorem run_parseOperand_lparen (t : Token) (rest : Toks) (h : t.tok = .LParen) :
    run (parseOperand fo (t :: rest)) =
      match run (parseExpr fo rest) with
      | none => none
      | some (e, r) =>
        match r with
        | [] => none
        | c :: r' => if c.tok = .RParen then some (.paren e, r') else none := by
  rw [parseOperand]
  simp only [h]
  cases h1 : parseExpr fo rest with
  | none => simp
  | some o =>
    obtain ⟨e, r, hr⟩ := o
    simp only [run_some]
    cases r with
    | nil => simp [expectTok]
    | cons c r' =>
      by_cases hc : c.tok = .RParen
      · simp [expectTok, hc]
      · simp [expectTok, hc]

theorem binLoop_stop (p : Nat) (x : Expr) (ts : Toks) (h : (tk ts).prec < p) :
    run (binLoop fo p x ts) = some (x, ts) := by
  cases ts with
  | nil => exact run_binLoop_nil fo p x
  | cons t rest =>
    rw [run_binLoop_cons]
    simp only [tk] at h
    simp [h]

theorem blt_true {a b : Nat} (h : a < b) : Nat.blt a b = true := by
  rw [Nat.blt_eq]; exact h

theorem blt_false {a b : Nat} (h : ¬ a < b) : Nat.blt a b = false := by
  cases hb : Nat.blt a b with
  | false => rfl
  | true => rw [Nat.blt_eq] at hb; exact absurd hb h

/-! ### Minimally parenthesised expressions -/

def tkn (t : Tok) : Token := ⟨t, [], 0⟩

/-- Expression trees over atoms, binary / unary / ternary operators and explicit parentheses. Operator
nodes carry their token (so literal text and offset are arbitrary). -/
inductive PE where
  | atom (t : Token)
  | bin (op : Token) (l r : PE)
  | un (op : Token) (e : PE)
  | cond (c t f : PE)
  | paren (e : PE)

namespace PE

/-- Well-formed: atoms are operand tokens, binary nodes carry a binary operator (one of the five
levels), unary nodes one of `+ - ! ^`. -/
def WF : PE → Prop
  | atom t => isAtomTok t.tok = true
  | bin op l r => 1 ≤ op.tok.prec ∧ l.WF ∧ r.WF
  | un op e => isUnaryOp op.tok = true ∧ e.WF
  | cond c t f => c.WF ∧ t.WF ∧ f.WF
  | paren e => e.WF

/-- Binding strength: ternary 0, binary 1…5, unary 6, primary 7. -/
def level : PE → Nat
  | atom _ => 7
  | paren _ => 7
  | un _ _ => 6
  | bin op _ _ => op.tok.prec
  | cond _ _ _ => 0

def wrapT (need : Bool) (b : Toks) : Toks := if need then tkn .LParen :: (b ++ [tkn .RParen]) else b
def wrapA (need : Bool) (x : Expr) : Expr := if need then .paren x else x

/-- Tokens with the fewest parentheses: an operand is wrapped exactly when it binds weaker than its
position requires (left operand of a level-k operator: k, right operand: k+1 — left associativity —,
unary operand: 6, condition of `?:`: 1, branches of `?:`: 0). -/
def body : PE → Toks
  | atom t => [t]
  | bin op l r =>
    wrapT (Nat.blt l.level (op.tok.prec)) l.body ++ op :: wrapT (Nat.blt r.level (op.tok.prec + 1)) r.body
  | un op e => op :: wrapT (Nat.blt e.level (6)) e.body
  | cond c t f => wrapT (Nat.blt c.level (1)) c.body ++ tkn .Question :: (t.body ++ tkn .Colon :: f.body)
  | paren e => tkn .LParen :: (e.body ++ [tkn .RParen])

/-- The tree the parser must build: the operators as nested, a ParenExpr exactly where `body` put
parentheses. -/
def ast : PE → Expr
  | atom t => atomAst t
  | bin op l r =>
    .bin op.tok (wrapA (Nat.blt l.level (op.tok.prec)) l.ast) (wrapA (Nat.blt r.level (op.tok.prec + 1)) r.ast)
  | un op e => .un op.tok (wrapA (Nat.blt e.level (6)) e.ast)
  | cond c t f => .cond (wrapA (Nat.blt c.level (1)) c.ast) t.ast f.ast
  | paren e => .paren e.ast

/-- The tree without any ParenExpr. -/
def tree : PE → Expr
  | atom t => atomAst t
  | bin op l r => .bin op.tok l.tree r.tree
  | un op e => .un op.tok e.tree
  | cond c t f => .cond c.tree t.tree f.tree
  | paren e => e.tree

end PE

open PE

/-- The token after the expression ends it: no postfix continuation, no binary operator, no `?`. -/
def Stop0 (ts : Toks) : Prop := NoPostfix ts ∧ (tk ts).prec = 0 ∧ tk ts ≠ .Question

/-- What is established for one tree (the three entry points of the expression parser). -/
structure Climb (e : PE) : Prop where
  expr : ∀ rest, Stop0 rest → run (parseExpr fo (e.body ++ rest)) = some (e.ast, rest)
  binary : 1 ≤ e.level → ∀ p rest, 1 ≤ p → p ≤ e.level → NoPostfix rest → (tk rest).prec ≤ e.level →
    run (parseBinary fo p (e.body ++ rest)) = run (binLoop fo p e.ast rest)
  unary : 6 ≤ e.level → ∀ rest, NoPostfix rest → run (parseUnary fo (e.body ++ rest)) = some (e.ast, rest)

theorem prec_le_five (t : Tok) : t.prec ≤ 5 := by cases t <;> decide

theorem noPostfix_of_prec {t : Token} {rest : Toks} (h : 1 ≤ t.tok.prec) : NoPostfix (t :: rest) := by
  refine ⟨?_, ?_, ?_⟩ <;> simp only [tk] <;> intro hc <;> rw [hc] at h <;> revert h <;> decide

theorem not_unary_of_atom {t : Tok} (h : isAtomTok t = true) : isUnaryOp t = false := by
  cases t <;> simp [isAtomTok] at h <;> rfl

/-- From `unary` to `binary`: `parseBinaryExpr` starts with `parseUnaryExpr`. -/
theorem binary_of_unary {e : PE} (hu : ∀ rest, NoPostfix rest → run (parseUnary fo (e.body ++ rest)) = some (e.ast, rest))
    (p : Nat) (rest : Toks) (hn : NoPostfix rest) :
    run (parseBinary fo p (e.body ++ rest)) = run (binLoop fo p e.ast rest) := by
  rw [run_parseBinary, hu rest hn]

/-- From `binary` to `expr`: `parseExpr` = `parseBinaryExpr(1)` when no `?` follows. -/
theorem expr_of_binary {e : PE} (hl : 1 ≤ e.level)
    (hb : ∀ p rest, 1 ≤ p → p ≤ e.level → NoPostfix rest → (tk rest).prec ≤ e.level →
      run (parseBinary fo p (e.body ++ rest)) = run (binLoop fo p e.ast rest))
    (rest : Toks) (hs : Stop0 rest) : run (parseExpr fo (e.body ++ rest)) = some (e.ast, rest) := by
  obtain ⟨hn, hp, hq⟩ := hs
  rw [run_parseExpr, hb 1 rest (Nat.le_refl 1) hl hn (by omega), binLoop_stop fo 1 e.ast rest (by omega)]
  cases rest with
  | nil => rfl
  | cons t r1 =>
    simp only [tk] at hq
    simp [hq]

/-- A parenthesised tree is a primary expression. -/
theorem unary_paren {e : PE} (he : ∀ rest, Stop0 rest → run (parseExpr fo (e.body ++ rest)) = some (e.ast, rest))
    (rest : Toks) (hn : NoPostfix rest) :
    run (parseUnary fo (tkn .LParen :: (e.body ++ [tkn .RParen]) ++ rest)) = some (.paren e.ast, rest) := by
  have hstop : Stop0 (tkn .RParen :: rest) := by
    refine ⟨⟨?_, ?_, ?_⟩, ?_, ?_⟩ <;> simp [tk, tkn] <;> decide
  have e1 : tkn .LParen :: (e.body ++ [tkn .RParen]) ++ rest = tkn .LParen :: (e.body ++ tkn .RParen :: rest) := by simp
  rw [e1, run_parseUnary_cons]
  have hnu : isUnaryOp (tkn .LParen).tok = false := by decide
  simp only [hnu]
  rw [run_parsePrimary, run_parseOperand_lparen fo _ _ (by rfl), he _ hstop]
  simp only [tkn, if_true]
  exact run_postfixLoop_stop fo _ rest hn

/-- An operand printed for a position that requires level `ctx`, entered through `parseUnaryExpr`
(positions with `ctx = 6`, and every wrapped operand). -/
theorem emit_unary {e : PE} (c : Climb fo e) (ctx : Nat) (hc6 : 6 ≤ ctx)
    (rest : Toks) (hn : NoPostfix rest) :
    run (parseUnary fo (wrapT (Nat.blt e.level (ctx)) e.body ++ rest)) = some (wrapA (Nat.blt e.level (ctx)) e.ast, rest) := by
  by_cases hw : e.level < ctx
  · have hd : Nat.blt e.level (ctx) = true := blt_true hw
    rw [hd]
    exact unary_paren fo c.expr rest hn
  · have hd : Nat.blt e.level (ctx) = false := blt_false hw
    rw [hd]
    exact c.unary (by omega) rest hn

/-- An operand printed for a position that requires level `ctx ≥ 1`, entered through
`parseBinaryExpr(p)` with `p ≤ ctx`, followed by a token of precedence at most `ctx`. -/
theorem emit_binary {e : PE} (c : Climb fo e) (ctx p : Nat) (hp : 1 ≤ p) (hpc : p ≤ ctx)
    (rest : Toks) (hn : NoPostfix rest) (hr : (tk rest).prec ≤ ctx) :
    run (parseBinary fo p (wrapT (Nat.blt e.level (ctx)) e.body ++ rest)) =
      run (binLoop fo p (wrapA (Nat.blt e.level (ctx)) e.ast) rest) := by
  by_cases hw : e.level < ctx
  · have hd : Nat.blt e.level (ctx) = true := blt_true hw
    rw [hd]
    show run (parseBinary fo p (tkn .LParen :: (e.body ++ [tkn .RParen]) ++ rest)) = run (binLoop fo p (.paren e.ast) rest)
    rw [run_parseBinary, unary_paren fo c.expr rest hn]
  · have hd : Nat.blt e.level (ctx) = false := blt_false hw
    rw [hd]
    exact c.binary (by omega) p rest hp (by omega) hn (by omega)

/-- Precedence climbing is correct on minimally parenthesised token lists. -/
theorem climb (e : PE) (hw : e.WF) : Climb fo e := by
  induction e with
  | atom t =>
    have hu : ∀ rest, NoPostfix rest → run (parseUnary fo ((PE.atom t).body ++ rest)) = some ((PE.atom t).ast, rest) := by
      intro rest hn
      simp only [PE.body, PE.ast, List.cons_append, List.nil_append]
      rw [run_parseUnary_cons, not_unary_of_atom hw]
      simp only [Bool.false_eq_true, if_false]
      rw [run_parsePrimary, run_parseOperand_atom fo t rest hw]
      exact run_postfixLoop_stop fo _ rest hn
    have hb := fun p rest (_ : 1 ≤ p) (_ : p ≤ (PE.atom t).level) hn (_ : (tk rest).prec ≤ (PE.atom t).level) =>
      binary_of_unary fo hu p rest hn
    exact ⟨expr_of_binary fo (by simp [PE.level]) hb, fun _ => hb, fun _ => hu⟩
  | paren e ih =>
    have c := ih hw
    have hu : ∀ rest, NoPostfix rest → run (parseUnary fo ((PE.paren e).body ++ rest)) = some ((PE.paren e).ast, rest) := by
      intro rest hn
      simpa [PE.body, PE.ast] using unary_paren fo c.expr rest hn
    have hb := fun p rest (_ : 1 ≤ p) (_ : p ≤ (PE.paren e).level) hn (_ : (tk rest).prec ≤ (PE.paren e).level) =>
      binary_of_unary fo hu p rest hn
    exact ⟨expr_of_binary fo (by simp [PE.level]) hb, fun _ => hb, fun _ => hu⟩
  | un op e ih =>
    obtain ⟨hop, he⟩ := hw
    have c := ih he
    have hu : ∀ rest, NoPostfix rest → run (parseUnary fo ((PE.un op e).body ++ rest)) = some ((PE.un op e).ast, rest) := by
      intro rest hn
      simp only [PE.body, PE.ast, List.cons_append]
      rw [run_parseUnary_cons, hop]
      simp only [if_true]
      rw [emit_unary fo c 6 (Nat.le_refl 6) rest hn]
    have hb := fun p rest (_ : 1 ≤ p) (_ : p ≤ (PE.un op e).level) hn (_ : (tk rest).prec ≤ (PE.un op e).level) =>
      binary_of_unary fo hu p rest hn
    exact ⟨expr_of_binary fo (by simp [PE.level]) hb, fun _ => hb, fun _ => hu⟩
  | bin op l r ihl ihr =>
    obtain ⟨hop, hl, hr⟩ := hw
    have cl := ihl hl
    have cr := ihr hr
    have hb : ∀ p rest, 1 ≤ p → p ≤ (PE.bin op l r).level → NoPostfix rest → (tk rest).prec ≤ (PE.bin op l r).level →
        run (parseBinary fo p ((PE.bin op l r).body ++ rest)) = run (binLoop fo p (PE.bin op l r).ast rest) := by
      intro p rest hp hpl hn hrest
      simp only [PE.level] at hpl hrest
      simp only [PE.body, PE.ast]
      rw [List.append_assoc, List.cons_append]
      -- left operand, then the operator
      rw [emit_binary fo cl op.tok.prec p hp hpl _ (noPostfix_of_prec hop) (by simp [tk])]
      rw [run_binLoop_cons]
      have hnot : ¬ op.tok.prec < p := by omega
      simp only [hnot, if_false]
      -- right operand at level + 1: the loop of the inner call stops at `rest`
      rw [emit_binary fo cr (op.tok.prec + 1) (op.tok.prec + 1) (by omega) (Nat.le_refl _) rest hn (by omega)]
      rw [binLoop_stop fo (op.tok.prec + 1) _ rest (by omega)]
    have h5 := prec_le_five op.tok
    refine ⟨expr_of_binary fo (by simpa [PE.level] using hop) hb, fun _ => hb, ?_⟩
    intro h6
    simp only [PE.level] at h6
    omega
  | cond c t f ihc iht ihf =>
    obtain ⟨hc, ht, hf⟩ := hw
    have cc := ihc hc
    have ct := iht ht
    have cf := ihf hf
    refine ⟨?_, ?_, ?_⟩
    · intro rest hs
      have hq : NoPostfix (tkn .Question :: (t.body ++ tkn .Colon :: (f.body ++ rest))) := by
        refine ⟨?_, ?_, ?_⟩ <;> simp [tk, tkn]
      have hcol : Stop0 (tkn .Colon :: (f.body ++ rest)) := by
        refine ⟨⟨?_, ?_, ?_⟩, ?_, ?_⟩ <;> simp [tk, tkn] <;> decide
      simp only [PE.body, PE.ast]
      rw [List.append_assoc, List.cons_append, List.append_assoc, List.cons_append]
      rw [run_parseExpr]
      rw [emit_binary fo cc 1 1 (Nat.le_refl 1) (Nat.le_refl 1) _ hq (by simp [tk, tkn]; decide)]
      rw [binLoop_stop fo 1 _ _ (by simp [tk, tkn]; decide)]
      simp only [tkn, if_true]
      have e1 := ct.expr _ hcol
      simp only [tkn] at e1
      rw [e1]
      simp only [if_true]
      rw [cf.expr rest hs]
    · intro h; simp [PE.level] at h
    · intro h; simp [PE.level] at h

/-- Removing the ParenExpr nodes of the parsed tree gives the operator tree itself. -/
theorem strip_atomAst (t : Token) : (atomAst t).strip = atomAst t := by
  unfold atomAst
  split <;> simp [Expr.strip]

theorem strip_wrapA (b : Bool) (x : Expr) : (wrapA b x).strip = x.strip := by
  cases b <;> simp [wrapA, Expr.strip]

theorem strip_ast (e : PE) : e.ast.strip = e.tree := by
  induction e with
  | atom t => simp [PE.ast, PE.tree, strip_atomAst]
  | paren e ih => simp [PE.ast, PE.tree, Expr.strip, ih]
  | un op e ih => simp [PE.ast, PE.tree, Expr.strip, strip_wrapA, ih]
  | bin op l r ihl ihr => simp [PE.ast, PE.tree, Expr.strip, strip_wrapA, ihl, ihr]
  | cond c t f ihc iht ihf => simp [PE.ast, PE.tree, Expr.strip, strip_wrapA, ihc, iht, ihf]

end Tengo.Proofs.C20Parser

import Tengo.Proofs.C01BridgeF3SpecCall
import Tengo.Proofs.C01BridgeF3SpecCheck
/-!
C01 bridge for fragment F3, reference-interpreter side, layer 5 (`runProgram`): the main program (function
literals stored by top-level statements: `mainSim`), the inputs, the static check (`checkProgram_fragment3`) and the
read-out of the globals — together `runProgram_fragment3`.
-/
set_option linter.unusedVariables false
set_option linter.unusedSimpArgs false
namespace Tengo.Proofs.C01BridgeF3Spec
open Tengo.Model Tengo.Model.Spec
open Tengo.Model.F3 (Ex Exs Stm Stms FnDef Prog Locals ERes EsRes Res updL bindArgs)
open Tengo.Proofs.C01Bridge
open Tengo.Proofs.C01BridgeF3 (DataRel NotCallable)
open Tengo.Proofs.C01BridgeF3Comp
open Tengo.Proofs.C01F3Opt (EnvOk)
open Tengo.Proofs.C11Rename (isFuncLit)

variable {V : Type} {C : Cx V}

theorem topFn_some {P : Prog} {s : Stm} {i j : Nat} {fd : FnDef} (h : topFn P s = some (i, j, fd)) :
    s = .assign i (.lit j) ∧ P.fns j = some fd := by
  cases s with
  | assign i' e =>
    cases e with
    | lit k =>
      simp only [topFn] at h
      cases hf : P.fns k with
      | none => rw [hf] at h; cases h
      | some fd' =>
        rw [hf] at h
        simp only [Option.map_some, Option.some.injEq, Prod.mk.injEq] at h
        obtain ⟨rfl, rfl, rfl⟩ := h
        exact ⟨rfl, hf⟩
    | _ => simp [topFn] at h
  | _ => simp [topFn] at h

theorem asFn_cs (hy : Hyp C) {k : Nat} {fd : FnDef} (hf : C.P.fns k = some fd) : C.E.asFn (C.E.cs k) = some k := by
  have hv := hy.env.csfn k fd hf
  cases h : C.E.asFn (C.E.cs k) with
  | none =>
    have := (hy.env.asFn_none _ h).1 (C.refs k)
    exact absurd hv this
  | some k' =>
    have := hy.env.asFn_some _ k' h
    rw [hv] at this
    injection this with this
    rw [hy.env.inj _ _ this]

theorem ex_assign_fn (F : Nat) (ctx : Ctx) (l : Expr) (va : Bool) (ps : List String) (body : List Stmt) :
    execStmt (F + 1) ctx (.assign "Assign" [l] [.func va ps body]) = (do
      let v ← evalExpr F ctx (.func va ps body)
      let env' ← assignTo F ctx "Assign" l v
      pure (Flow.normal, env')) := by
  simp only [execStmt]; rfl

theorem ev_func (F : Nat) (ctx : Ctx) (va : Bool) (ps : List String) (body : List Stmt) (gs : GSt) (σ : St) :
    EOk (evalExpr (F + 1) ctx (.func va ps body)) gs σ (.fn σ.heap.size)
      (pushSt σ (.clos { params := ps, varargs := va, body := body, env := ctx.env })) := by
  rw [evalExpr.eq_def]
  exact EOk.bind (EOk.lift (alloc_run _ σ)) (EOk.pure _ gs _)

theorem clos_eq (C : Cx V) (fd : FnDef) (env : Spec.Env) (h : env = C.genv) :
    ({ params := paramsOf C.lnames fd.nparams, varargs := false, body := toAstSs3 C.names C.lnames C.ctab fd.body, env := env } : Closure) = C.clos fd := by
  rw [h]; rfl

/-- The main program: function literals stored by top-level statements, ordinary statements otherwise. -/
def MainSim (C : Cx V) (f : Nat) (ss : Stms) : Prop :=
  ∀ (F : Nat) (ctx : Ctx) (gs : GSt) (σ : St) (g : Nat → V) (l : Locals V) (k i : Nat),
    4 * f ≤ F → 2 * ctx.callDepth + f ≤ 1800 → ctx.env = C.genv → GInv C σ g → wfMain C.P C.n k ss = true →
    match F3.execSs C.E C.P f ss g l with
    | .done g' _ => ∃ σ', EOk (execStmts F ctx (toAstMain C.names C.lnames C.ctab C.P ss) i) gs σ
        (Flow.normal, C.genv) σ' ∧ GInv C σ' g'
    | .err => ∃ err, err ≠ Err.fuel ∧ EErr (execStmts F ctx (toAstMain C.names C.lnames C.ctab C.P ss) i) gs σ err
    | _ => True

theorem mainSim (hy : Hyp C) : ∀ (f : Nat) (ss : Stms), MainSim C f ss
  | 0, ss => by
    intro F ctx gs σ g l k i hF hD henv hg hw
    simp only [F3.execSs]
  | f + 1, .nil => by
    intro F ctx gs σ g l k i hF hD henv hg hw
    obtain ⟨F, rfl⟩ : ∃ F', F = F' + 1 := ⟨F - 1, by omega⟩
    simp only [toAstMain, execStmts.eq_2, F3.execSs]
    exact ⟨σ, by rw [henv]; exact EOk.pure _ gs σ, hg⟩
  | f + 1, .cons s ss => by
    intro F ctx gs σ g l k i hF hD henv hg hw
    obtain ⟨F, rfl⟩ : ∃ F', F = F' + 1 := ⟨F - 1, by omega⟩
    have hD' : 2 * ctx.callDepth + f ≤ 1800 := by omega
    have hrec := mainSim hy f ss
    simp only [wfMain, Bool.and_eq_true] at hw
    obtain ⟨hw1, hw2⟩ := hw
    simp only [toAstMain, execStmts.eq_3, F3.execSs]
    have he : EInv C ctx.env 0 (fun _ => 0) := ⟨fun j hj => by rw [henv]; exact hy.genv j hj, fun j hj => by omega⟩
    cases htf : topFn C.P s with
    | none =>
      rw [htf] at hw1
      simp only [toAstTop, htf]
      have ha := (all_sim3 hy f).2.2.2.1 s F { env := ctx.env, callDepth := ctx.callDepth, path := i :: ctx.path } gs σ
        g l 0 (fun _ => 0) 0 k false false (by omega) hD' he (HInv.noLocals hg (Nat.zero_le _) _ l) hw1
      cases hs : F3.execS C.E C.P f s g l with
      | done g1 l1 =>
        rw [hs] at ha
        obtain ⟨σ1, hok1, hh1, hf1⟩ := ha
        have hr := hrec F { env := ctx.env, callDepth := ctx.callDepth, path := ctx.path } gs σ1 g1 l1 _ (i + 1)
          (by omega) hD' henv hh1.glob hw2
        dsimp only
        cases hss : F3.execSs C.E C.P f ss g1 l1 with
        | done g2 l2 =>
          rw [hss] at hr
          obtain ⟨σ2, hok2, hg2⟩ := hr
          exact ⟨σ2, EOk.bind hok1 hok2, hg2⟩
        | err =>
          rw [hss] at hr
          obtain ⟨err, hne, herr⟩ := hr
          exact ⟨err, hne, EErr.bind_right hok1 herr⟩
        | brk _ _ => exact True.intro
        | cont _ _ => exact True.intro
        | ret _ _ => exact True.intro
        | out => exact True.intro
        | bad => exact True.intro
      | err => rw [hs] at ha; obtain ⟨err, hne, herr⟩ := ha; exact ⟨err, hne, EErr.bind_left herr⟩
      | brk _ _ => exact True.intro
      | cont _ _ => exact True.intro
      | ret _ _ => exact True.intro
      | out => exact True.intro
      | bad => exact True.intro
    | some t =>
      obtain ⟨i0, j, fd⟩ := t
      rw [htf] at hw1
      simp only [Bool.and_eq_true, decide_eq_true_eq] at hw1
      obtain ⟨rfl, hfd⟩ := topFn_some htf
      have hi0 : i0 < C.n := hw1.1.1
      simp only [toAstTop, htf, funcLit]
      cases f with
      | zero => simp only [F3.execS]
      | succ f =>
        cases f with
        | zero => simp only [F3.execS, F3.evalE, ERes.toRes]
        | succ f =>
          simp only [F3.execS, F3.evalE]
          obtain ⟨F, rfl⟩ : ∃ F', F = F' + 1 + 1 := ⟨F - 2, by omega⟩
          simp only [ex_assign_fn, ex_assignTo]
          -- the closure
          have hclos := clos_eq C fd ctx.env henv
          have hfunc := ev_func F { env := ctx.env, callDepth := ctx.callDepth, path := i :: ctx.path } false
            (paramsOf C.lnames fd.nparams) (toAstSs3 C.names C.lnames C.ctab fd.body) gs σ
          rw [show ({ env := ctx.env, callDepth := ctx.callDepth, path := i :: ctx.path } : Ctx).env = ctx.env from rfl,
            hclos] at hfunc
          have hh0 := (HInv.noLocals (B := 0) hg (Nat.zero_le _) (fun _ => 0) l).push (.clos (C.clos fd))
          have hvr : VR C (pushSt σ (.clos (C.clos fd))) (C.E.cs j) (.fn σ.heap.size) :=
            .inr ⟨j, fd, σ.heap.size, asFn_cs hy hfd, hfd, rfl, pushSt_get_new σ _⟩
          have hh2 := hh0.setGlob hy hi0 hvr
          have hwr := writeVar_run (he.glob i0 hi0) (.fn σ.heap.size) gs (pushSt σ (.clos (C.clos fd)))
          have hok1 : EOk (do
                let v ← evalExpr (F + 1) { env := ctx.env, callDepth := ctx.callDepth, path := i :: ctx.path }
                  (.func false (paramsOf C.lnames fd.nparams) (toAstSs3 C.names C.lnames C.ctab fd.body))
                let env' ← (do
                  writeVar ({ env := ctx.env, callDepth := ctx.callDepth, path := i :: ctx.path } : Ctx).env
                    (C.names i0) v
                  pure ({ env := ctx.env, callDepth := ctx.callDepth, path := i :: ctx.path } : Ctx).env :
                    EM Spec.Env)
                pure (Flow.normal, env')) gs σ (Flow.normal, ctx.env)
              (setSt (pushSt σ (.clos (C.clos fd))) (C.cells i0) (.cell (.fn σ.heap.size) false)) :=
            EOk.bind hfunc (EOk.bind (EOk.bind hwr (EOk.pure _ gs _)) (EOk.pure _ gs _))
          have hr := hrec (F + 1 + 1) { env := ctx.env, callDepth := ctx.callDepth, path := ctx.path } gs _
            (F0.upd g i0 (C.E.cs j)) l _ (i + 1) (by omega) hD' henv hh2.glob hw2
          cases hss : F3.execSs C.E C.P (f + 1 + 1) ss (F0.upd g i0 (C.E.cs j)) l with
          | done g2 l2 =>
            rw [hss] at hr
            obtain ⟨σ2, hok2, hg2⟩ := hr
            exact ⟨σ2, EOk.bind hok1 hok2, hg2⟩
          | err =>
            rw [hss] at hr
            obtain ⟨err, hne, herr⟩ := hr
            exact ⟨err, hne, EErr.bind_right hok1 herr⟩
          | brk _ _ => exact True.intro
          | cont _ _ => exact True.intro
          | ret _ _ => exact True.intro
          | out => exact True.intro
          | bad => exact True.intro


/-! ### `runProgram` -/

theorem readOut_all3 {σ : St} {g : Nat → V} (hg : GInv C σ g) (gs : GSt) :
    ∀ (L : List Nat), (∀ i, i ∈ L → i < C.n) →
      ∃ out, EOk ((L.map (fun i => (C.names i, C.cells i))).mapM readOut) gs σ out σ ∧
        out.map Prod.fst = L.map C.names ∧
        ∀ (j i : Nat), L[j]? = some i → ∃ w, out[j]? = some (C.names i, w) ∧ VR C σ (g i) w
  | [], _ => ⟨[], by simpa using EOk.pure [] gs σ, rfl, by simp⟩
  | i :: L, h => by
    simp only [List.map_cons, List.mapM_cons]
    obtain ⟨w, b, hc, hv⟩ := hg i (h i (by simp))
    have h1 : EOk (readOut (C.names i, C.cells i)) gs σ (C.names i, w) σ :=
      EOk.bind (EOk.lift (getObj_run hc)) (EOk.pure _ gs σ)
    obtain ⟨out, hok, hfst, hall⟩ := readOut_all3 hg gs L (fun j hj => h j (by simp [hj]))
    refine ⟨(C.names i, w) :: out, EOk.bind h1 (EOk.bind hok (EOk.pure _ gs σ)), by simp [hfst], ?_⟩
    intro j i' hj
    cases j with
    | zero =>
      simp only [List.getElem?_cons_zero, Option.some.injEq] at hj
      subst hj
      exact ⟨w, by simp, hv⟩
    | succ j =>
      simp only [List.getElem?_cons_succ] at hj
      obtain ⟨w', h1, h2⟩ := hall j i' hj
      exact ⟨w', by simpa using h1, h2⟩

/-- What the final theorem says about a global: a scalar is the same value; the function value of function
constant `k` is a reference to a heap closure of `k`'s function literal. -/
def ValRel (E : F3.Env V) (val : V → Value) (P : Prog) (names lnames : Nat → String) (ctab : Nat → F0.Const)
    (st : St) (v : V) (w : Value) : Prop :=
  (Scalar (val v) = true ∧ w = val v) ∨
  ∃ k fd r c, E.asFn v = some k ∧ P.fns k = some fd ∧ w = .fn r ∧ st.heap[r]? = some (Obj.clos c) ∧
    c.params = paramsOf lnames fd.nparams ∧ c.varargs = false ∧ c.body = toAstSs3 names lnames ctab fd.body

theorem VR.valRel {σ : St} {v : V} {w : Value} (h : VR C σ v w) :
    ValRel C.E C.val C.P C.names C.lnames C.ctab σ v w := by
  rcases h with h | ⟨k, fd, r, h1, h2, h3, h4⟩
  · exact .inl h
  · exact .inr ⟨k, fd, r, C.clos fd, h1, h2, h3, h4, rfl, rfl, rfl⟩

/-- The scalar view of the initial globals. -/
def scalarOf (val : V → Value) (g : Nat → V) (i : Nat) : SV :=
  if h : Scalar (val (g i)) = true then ⟨val (g i), h⟩ else ⟨.undef, rfl⟩

/-- The inputs of the embedded program: slot names with their initial (scalar) values. -/
def inputs3 (names : Nat → String) (val : V → Value) (n : Nat) (g : Nat → V) : List (String × Value) :=
  (List.range n).map (fun i => (names i, val (g i)))

/-- **The fragment's evaluator `F3.exec` and the reference interpreter agree (forward direction).** -/
theorem runProgram_fragment3 (E : F3.Env V) (val : V → Value) (refs : Nat → Nat)
    (names lnames : Nat → String) (ctab : Nat → F0.Const) (n : Nat) (P : Prog)
    (hN : NamesOK names lnames n) (hb : ∀ i, lnames i ∉ Spec.builtinNames)
    (hs : Tengo.Proofs.C01F3Opt.SrcOk P n) (hbud : budMain P P.main ≤ 4000)
    (hD : DataRel E.S val) (hE : EnvOk P ctab E val refs)
    (hvals : ∀ v, Scalar (val v) = true ∨ ∃ r, val v = .cfn r)
    (hcs : ∀ k, P.fns k = none → val (E.cs k) = F0.constValue (ctab k))
    (f F : Nat) (hf : f ≤ 1800) (hF : 4 * f ≤ F) (g : Nat → V) (hg0 : ∀ i, i < n → Scalar (val (g i)) = true)
    (initHeap : St) :
    (∀ g', F3.exec E P f g = .done g' →
      ∃ gs st, runProgram F (inputs3 names val n g) initHeap (toAstProg names lnames ctab P) = .ok gs st ∧
        gs.map Prod.fst = (List.range n).map names ∧
        ∀ i, i < n → ∃ w, gs[i]? = some (names i, w) ∧ ValRel E val P names lnames ctab st (g' i) w) ∧
    (F3.exec E P f g = .err →
      ∃ err, err ≠ Err.fuel ∧
        runProgram F (inputs3 names val n g) initHeap (toAstProg names lnames ctab P) = errOutcome err) := by
  have hin : inputs3 names val n g = inputsV names n (scalarOf val g) := by
    unfold inputs3 inputsV
    apply List.map_congr_left
    intro i hi
    have hi' : i < n := by simpa using hi
    simp only [scalarOf, dif_pos (hg0 i hi')]
  rw [hin]
  have hc : checkProgram ((inputsV names n (scalarOf val g)).map Prod.fst) (toAstProg names lnames ctab P) = none := by
    have : (inputsV names n (scalarOf val g)).map Prod.fst = inputsOf names n := by
      simp [inputsV, inputsOf, List.map_map, Function.comp_def]
    rw [this]
    exact checkProgram_fragment3 names lnames ctab n P hN hb hs.wf hbud
  rw [runProgram_eq F _ initHeap _ hc]
  have h0 : InInv names (scalarOf val g) initHeap.heap.size 0 { vars := [] } initHeap :=
    ⟨rfl, rfl, fun i hi => by omega⟩
  obtain ⟨fr, σ, hin0, hinv⟩ := inputs_loop names (scalarOf val g) initHeap.heap.size {} n 0 _ _ h0
  simp only [Nat.zero_add] at hinv
  have hin' : EOk (forIn (inputsV names n (scalarOf val g)) ({ vars := [] } : Spec.Frame) inputStep) {} initHeap fr σ := by
    simpa [inputsV, List.range_eq_range'] using hin0
  let C : Cx V := Cx.mk E val refs names lnames ctab n P (fun i => initHeap.heap.size + i) [fr]
  have hwfns : ∀ k fd, P.fns k = some fd → ∃ k0, wfFn (isFnOf P) n k0 fd = true := by
    intro k fd hfd
    obtain ⟨i, hm⟩ := hs.decl k fd hfd
    obtain ⟨k', hwf, _⟩ := Tengo.Proofs.C01F3Opt.wfMain_fn P n P.main 0 (nlitsMain P P.main) hs.wf (by omega) i k fd
      hm hfd
    exact ⟨k', hwf⟩
  have hy : Hyp C := Hyp.mk hD hE hN hvals hcs (fun i j _ _ h => by simpa [C] using h) (hinv.env hN.ginj) hwfns
  have hg : GInv C σ g := by
    intro i hi
    refine ⟨val (g i), false, ?_, VR.scalar (hg0 i hi)⟩
    have := hinv.cell i hi
    simp only [scalarOf, dif_pos (hg0 i hi)] at this
    exact this
  have hsim := mainSim hy f P.main F { env := [fr] } {} σ g (fun _ => none) 0 0 hF
    (by show 2 * 0 + f ≤ 1800; omega) rfl hg hs.wf
  have hvars : fr.vars.reverse = (List.range n).map (fun i => (names i, initHeap.heap.size + i)) := by
    rw [hinv.vars, List.reverse_reverse]
  constructor
  · intro g' hg'
    unfold F3.exec at hg'
    cases hss : F3.execSs E P f P.main g (fun _ => none) with
    | done g1 l1 =>
      rw [hss] at hg'
      simp only [F3.PRes.done.injEq] at hg'
      subst hg'
      rw [hss] at hsim
      obtain ⟨σ', hok, hg1⟩ := hsim
      obtain ⟨out, hout, hfst, hall⟩ := readOut_all3 hg1 {} (List.range n) (fun i hi => by simpa using hi)
      refine ⟨out, σ', ?_, hfst, ?_⟩
      · have : EOk (progOf F (inputsV names n (scalarOf val g)) (toAstProg names lnames ctab P)) {} initHeap out σ' := by
          unfold progOf
          refine EOk.bind hin' (EOk.bind hok ?_)
          show EOk (match [fr].getLast? with
            | some f => f.vars.reverse.mapM readOut
            | none => pure []) {} σ' out σ'
          simp only [List.getLast?_singleton, hvars]
          exact hout
        unfold EOk at this
        rw [this]; rfl
      · intro i hi
        obtain ⟨w, h1, h2⟩ := hall i i (by simp [hi])
        exact ⟨w, h1, h2.valRel⟩
    | brk _ _ => rw [hss] at hg'; cases hg'
    | cont _ _ => rw [hss] at hg'; cases hg'
    | ret _ _ => rw [hss] at hg'; cases hg'
    | err => rw [hss] at hg'; cases hg'
    | out => rw [hss] at hg'; cases hg'
    | bad => rw [hss] at hg'; cases hg'
  · intro hg'
    unfold F3.exec at hg'
    cases hss : F3.execSs E P f P.main g (fun _ => none) with
    | err =>
      rw [hss] at hsim
      obtain ⟨err, hne, herr⟩ := hsim
      refine ⟨err, hne, ?_⟩
      have : EErr (progOf F (inputsV names n (scalarOf val g)) (toAstProg names lnames ctab P)) {} initHeap err := by
        unfold progOf
        exact EErr.bind_right hin' (EErr.bind_left herr)
      unfold EErr at this
      rw [this]
      cases err <;> first | rfl | exact absurd rfl hne
    | done _ _ => rw [hss] at hg'; cases hg'
    | brk _ _ => rw [hss] at hg'; cases hg'
    | cont _ _ => rw [hss] at hg'; cases hg'
    | ret _ _ => rw [hss] at hg'; cases hg'
    | out => rw [hss] at hg'; cases hg'
    | bad => rw [hss] at hg'; cases hg'

end Tengo.Proofs.C01BridgeF3Spec

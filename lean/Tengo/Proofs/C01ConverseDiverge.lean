import Tengo.Proofs.C01BridgeBoundedStmts
/-!
C01 bridge, converse direction, machine side: DIVERGENCE. `all_okB` says what the fragment's machine does when
the fuel-indexed reference semantics `F1.exec` finishes or fails. Here the third answer: when `F1.exec` with
fuel `f` runs OUT OF FUEL on a piece of code, the (stack-bounded) machine started at that code makes at least
`f - height` dispatches without stopping (`all_divB`, `program_diverges_bounded`), where `height` is the
nesting height of the code: every unit of fuel beyond the nesting is a loop iteration, and every loop
iteration dispatches at least its back jump.

So a program on which `F1.exec` runs out of EVERY fuel keeps the machine running for ever; contrapositive:
if the machine stops, `F1.exec` terminates with some fuel.
-/
set_option linter.unusedSimpArgs false
set_option linter.unusedVariables false
namespace Tengo.Model.F1
open Tengo.Model.F0
variable {V : Type}

mutual
  /-- Nesting height: the fuel `F1.exec` uses up without iterating any loop. -/
  def heightS : Stm → Nat
    | .expr _ => 0
    | .assign _ _ => 0
    | .ifs _ body => heightSs body + 1
    | .ifelse _ body els => max (heightSs body) (heightSs els) + 1
    | .whil _ body => heightSs body + 1
    | .forever body => heightSs body + 1
  def heightSs : Stms → Nat
    | .nil => 0
    | .cons s ss => max (heightS s) (heightSs ss) + 1
end

def heightC : Code → Nat
  | .inl s => heightS s
  | .inr ss => heightSs ss

/-- From `s` the machine makes at least `j` dispatches without stopping (and within the stack bound). -/
def StepsB (lim : Nat) (S : Sem V) (cs : Nat → V) (code : List Ins) (j : Nat) (s : St V) : Prop :=
  ∃ m s', j ≤ m ∧ runNB lim S cs code m s = .at s'

theorem StepsB.zero (lim : Nat) (S : Sem V) (cs : Nat → V) (code : List Ins) (s : St V) :
    StepsB lim S cs code 0 s := ⟨0, s, Nat.le_refl 0, rfl⟩

theorem StepsB.mono {lim : Nat} {S : Sem V} {cs : Nat → V} {code : List Ins} {j j' : Nat} {s : St V}
    (h : StepsB lim S cs code j s) (hj : j' ≤ j) : StepsB lim S cs code j' s := by
  obtain ⟨m, s', hm, hr⟩ := h
  exact ⟨m, s', by omega, hr⟩

theorem _root_.Tengo.Model.F0.RunsB.steps {lim : Nat} {S : Sem V} {cs : Nat → V} {code : List Ins} {j : Nat} {a b : St V}
    (h1 : RunsB lim S cs code a b) (h2 : StepsB lim S cs code j b) : StepsB lim S cs code j a := by
  obtain ⟨n, hn⟩ := h1
  obtain ⟨m, s', hm, hr⟩ := h2
  exact ⟨n + m, s', by omega, by rw [runNB_add, hn]; exact hr⟩

theorem StepsB.succ {lim : Nat} {S : Sem V} {cs : Nat → V} {code : List Ins} {j : Nat} {a b : St V}
    (h : F0.step S cs code a = .next b) (hb : b.stack.length ≤ lim) (h2 : StepsB lim S cs code j b) :
    StepsB lim S cs code (j + 1) a := by
  obtain ⟨m, s', hm, hr⟩ := h2
  refine ⟨1 + m, s', by omega, ?_⟩
  rw [runNB_add]
  simp only [runNB, stepB_next h hb]
  exact hr

/-- What has to hold for one piece of code at one fuel: out of fuel ⇒ at least `f - height` dispatches. -/
def DivB (lim : Nat) (S : Sem V) (cs : Nat → V) (f : Nat) (c : Code) : Prop :=
  ∀ (g : Nat → V) (pre post : List Ins) (st : List V), st.length + depthC c ≤ lim →
    exec S cs f c g = .out →
    StepsB lim S cs (pre ++ compC (csize pre) c ++ post) (f - heightC c) ⟨csize pre, st, g⟩

theorem divB_zero (lim : Nat) (S : Sem V) (cs : Nat → V) (c : Code) : DivB lim S cs 0 c := by
  intro g pre post st hd hg
  rw [Nat.zero_sub]
  exact StepsB.zero _ _ _ _ _

theorem divB_expr (lim : Nat) (S : Sem V) (cs : Nat → V) (f : Nat) (e : Ex) :
    DivB lim S cs (f + 1) (.inl (.expr e)) := by
  intro g pre post st hd hg
  simp only [exec] at hg
  cases he : eval S cs g e <;> simp [he] at hg

theorem divB_assign (lim : Nat) (S : Sem V) (cs : Nat → V) (f : Nat) (i : Nat) (e : Ex) :
    DivB lim S cs (f + 1) (.inl (.assign i e)) := by
  intro g pre post st hd hg
  simp only [exec] at hg
  cases he : eval S cs g e <;> simp [he] at hg

theorem divB_nil (lim : Nat) (S : Sem V) (cs : Nat → V) (f : Nat) : DivB lim S cs (f + 1) (.inr .nil) := by
  intro g pre post st hd hg
  simp [exec] at hg

theorem divB_cons (lim : Nat) (S : Sem V) (cs : Nat → V) (f : Nat) (s : Stm) (ss : Stms)
    (ih : ∀ c, DivB lim S cs f c) : DivB lim S cs (f + 1) (.inr (.cons s ss)) := by
  intro g pre post st hd hg
  simp only [depthC, depthS, depthSs] at hd
  have hcode0 : pre ++ compC (csize pre) (.inr (.cons s ss)) ++ post =
      pre ++ compC (csize pre) (.inl s) ++ (compSs (csize pre + ssize s) ss ++ post) := by
    simp [compC, compSs, csize_compS, List.append_assoc]
  have hcode1 : pre ++ compC (csize pre) (.inr (.cons s ss)) ++ post =
      (pre ++ compS (csize pre) s) ++ compC (csize (pre ++ compS (csize pre) s)) (.inr ss) ++ post := by
    simp [compC, compSs, csize_compS, csize_append, List.append_assoc]
  have hs := ih (.inl s) g pre (compSs (csize pre + ssize s) ss ++ post) st (by bnd')
  rw [← hcode0] at hs
  obtain ⟨h1, _⟩ := all_okB lim S cs f (.inl s) g pre (compSs (csize pre + ssize s) ss ++ post) st (by bnd')
  rw [← hcode0] at h1
  have hr := fun g1 => ih (.inr ss) g1 (pre ++ compS (csize pre) s) post st (by bnd')
  rw [← hcode1] at hr
  simp only [csize_append, csize_compS] at hr
  simp only [exec] at hg
  cases hes : exec S cs f (.inl s) g with
  | out => exact (hs hes).mono (by simp only [heightC, heightSs]; omega)
  | err => simp [hes] at hg
  | done g1 =>
    simp only [hes] at hg
    exact ((h1 g1 hes).steps (hr g1 hg)).mono (by simp only [heightC, heightSs]; omega)

theorem divB_ifs (lim : Nat) (S : Sem V) (cs : Nat → V) (f : Nat) (c : Ex) (body : Stms)
    (ih : ∀ c, DivB lim S cs f c) : DivB lim S cs (f + 1) (.inl (.ifs c body)) := by
  intro g pre post st hd hg
  simp only [depthC, depthS, depthSs] at hd
  have hboff : csize (pre ++ comp (csize pre) c ++ [Ins.jmpf (csize pre + esize c + 5 + sssize body)]) =
      csize pre + esize c + 5 := by simp [csize_append, csize_comp, csize, Ins.size]; omega
  have hcomp : compC (csize pre) (.inl (.ifs c body)) =
      comp (csize pre) c ++ [Ins.jmpf (csize pre + esize c + 5 + sssize body)] ++ compSs (csize pre + esize c + 5) body := by
    simp [compC, compS, csize_comp, csize_compSs, List.append_assoc]
  have hcode0 : pre ++ compC (csize pre) (.inl (.ifs c body)) ++ post =
      pre ++ comp (csize pre) c ++ ([Ins.jmpf (csize pre + esize c + 5 + sssize body)] ++
        compSs (csize pre + esize c + 5) body ++ post) := by
    rw [hcomp]; simp [List.append_assoc]
  have hcode1 : pre ++ compC (csize pre) (.inl (.ifs c body)) ++ post =
      (pre ++ comp (csize pre) c ++ [Ins.jmpf (csize pre + esize c + 5 + sssize body)]) ++
        compC (csize (pre ++ comp (csize pre) c ++ [Ins.jmpf (csize pre + esize c + 5 + sssize body)])) (.inr body) ++ post := by
    rw [hcomp, hboff]; simp [compC, List.append_assoc]
  have hfj : fetch (pre ++ compC (csize pre) (.inl (.ifs c body)) ++ post) (csize pre + esize c) =
      some (Ins.jmpf (csize pre + esize c + 5 + sssize body)) := by
    rw [hcomp]
    have h := fetch_mid' pre (comp (csize pre) c) (compSs (csize pre + esize c + 5) body) post
      (Ins.jmpf (csize pre + esize c + 5 + sssize body)) (csize pre + esize c) (by simp [csize_comp])
    simpa [List.append_assoc] using h
  obtain ⟨hc1, _⟩ := comp_correctB lim S cs g c pre ([Ins.jmpf (csize pre + esize c + 5 + sssize body)] ++
        compSs (csize pre + esize c + 5) body ++ post) st (by bnd')
  rw [← hcode0] at hc1
  have hb := ih (.inr body) g
    (pre ++ comp (csize pre) c ++ [Ins.jmpf (csize pre + esize c + 5 + sssize body)]) post st (by bnd')
  rw [← hcode1, hboff] at hb
  simp only [exec] at hg
  cases hec : eval S cs g c with
  | none => simp [hec] at hg
  | some a =>
    simp only [hec] at hg
    have hstep := RunsB.step (lim := lim) (step_jmpf S cs _ (st := st) (g := g) (a := a) hfj) (by bnd')
    by_cases hfa : S.falsy a = true
    · simp [hfa] at hg
    · simp only [hfa, Bool.false_eq_true, ↓reduceIte] at hg hstep
      exact (((hc1 a hec).trans hstep).steps (hb hg)).mono (by simp only [heightC, heightS]; omega)

theorem divB_ifelse (lim : Nat) (S : Sem V) (cs : Nat → V) (f : Nat) (c : Ex) (body els : Stms)
    (ih : ∀ c, DivB lim S cs f c) : DivB lim S cs (f + 1) (.inl (.ifelse c body els)) := by
  intro g pre post st hd hg
  simp only [depthC, depthS, depthSs] at hd
  have hboff : csize (pre ++ comp (csize pre) c ++ [Ins.jmpf (csize pre + esize c + 5 + sssize body + 5)]) =
      csize pre + esize c + 5 := by simp [csize_append, csize_comp, csize, Ins.size]; omega
  have heoff : csize (pre ++ comp (csize pre) c ++ [Ins.jmpf (csize pre + esize c + 5 + sssize body + 5)] ++
      compSs (csize pre + esize c + 5) body ++ [Ins.jmp (csize pre + esize c + 5 + sssize body + 5 + sssize els)]) =
      csize pre + esize c + 5 + sssize body + 5 := by
    simp [csize_append, csize_comp, csize_compSs, csize, Ins.size]; omega
  have hcomp : compC (csize pre) (.inl (.ifelse c body els)) =
      comp (csize pre) c ++ [Ins.jmpf (csize pre + esize c + 5 + sssize body + 5)] ++
        compSs (csize pre + esize c + 5) body ++ [Ins.jmp (csize pre + esize c + 5 + sssize body + 5 + sssize els)] ++
        compSs (csize pre + esize c + 5 + sssize body + 5) els := by
    simp [compC, compS, csize_comp, csize_compSs, List.append_assoc]
  have hcode0 : pre ++ compC (csize pre) (.inl (.ifelse c body els)) ++ post =
      pre ++ comp (csize pre) c ++ ([Ins.jmpf (csize pre + esize c + 5 + sssize body + 5)] ++
        compSs (csize pre + esize c + 5) body ++ [Ins.jmp (csize pre + esize c + 5 + sssize body + 5 + sssize els)] ++
        compSs (csize pre + esize c + 5 + sssize body + 5) els ++ post) := by
    rw [hcomp]; simp [List.append_assoc]
  have hcode1 : pre ++ compC (csize pre) (.inl (.ifelse c body els)) ++ post =
      (pre ++ comp (csize pre) c ++ [Ins.jmpf (csize pre + esize c + 5 + sssize body + 5)]) ++
        compC (csize (pre ++ comp (csize pre) c ++ [Ins.jmpf (csize pre + esize c + 5 + sssize body + 5)])) (.inr body) ++
        ([Ins.jmp (csize pre + esize c + 5 + sssize body + 5 + sssize els)] ++
        compSs (csize pre + esize c + 5 + sssize body + 5) els ++ post) := by
    rw [hcomp, hboff]; simp [compC, List.append_assoc]
  have hcode2 : pre ++ compC (csize pre) (.inl (.ifelse c body els)) ++ post =
      (pre ++ comp (csize pre) c ++ [Ins.jmpf (csize pre + esize c + 5 + sssize body + 5)] ++
        compSs (csize pre + esize c + 5) body ++ [Ins.jmp (csize pre + esize c + 5 + sssize body + 5 + sssize els)]) ++
        compC (csize (pre ++ comp (csize pre) c ++ [Ins.jmpf (csize pre + esize c + 5 + sssize body + 5)] ++
        compSs (csize pre + esize c + 5) body ++ [Ins.jmp (csize pre + esize c + 5 + sssize body + 5 + sssize els)])) (.inr els) ++ post := by
    rw [hcomp, heoff]; simp [compC, List.append_assoc]
  have hfj : fetch (pre ++ compC (csize pre) (.inl (.ifelse c body els)) ++ post) (csize pre + esize c) =
      some (Ins.jmpf (csize pre + esize c + 5 + sssize body + 5)) := by
    rw [hcomp]
    have h := fetch_mid' pre (comp (csize pre) c)
      (compSs (csize pre + esize c + 5) body ++ [Ins.jmp (csize pre + esize c + 5 + sssize body + 5 + sssize els)] ++
        compSs (csize pre + esize c + 5 + sssize body + 5) els) post
      (Ins.jmpf (csize pre + esize c + 5 + sssize body + 5)) (csize pre + esize c) (by simp [csize_comp])
    simpa [List.append_assoc] using h
  obtain ⟨hc1, _⟩ := comp_correctB lim S cs g c pre ([Ins.jmpf (csize pre + esize c + 5 + sssize body + 5)] ++
        compSs (csize pre + esize c + 5) body ++ [Ins.jmp (csize pre + esize c + 5 + sssize body + 5 + sssize els)] ++
        compSs (csize pre + esize c + 5 + sssize body + 5) els ++ post) st (by bnd')
  rw [← hcode0] at hc1
  have hb := ih (.inr body) g
    (pre ++ comp (csize pre) c ++ [Ins.jmpf (csize pre + esize c + 5 + sssize body + 5)])
    ([Ins.jmp (csize pre + esize c + 5 + sssize body + 5 + sssize els)] ++
        compSs (csize pre + esize c + 5 + sssize body + 5) els ++ post) st (by bnd')
  rw [← hcode1, hboff] at hb
  have he := ih (.inr els) g
    (pre ++ comp (csize pre) c ++ [Ins.jmpf (csize pre + esize c + 5 + sssize body + 5)] ++
        compSs (csize pre + esize c + 5) body ++ [Ins.jmp (csize pre + esize c + 5 + sssize body + 5 + sssize els)]) post st (by bnd')
  rw [← hcode2, heoff] at he
  simp only [exec] at hg
  cases hec : eval S cs g c with
  | none => simp [hec] at hg
  | some a =>
    simp only [hec] at hg
    have hstep := RunsB.step (lim := lim) (step_jmpf S cs _ (st := st) (g := g) (a := a) hfj) (by bnd')
    by_cases hfa : S.falsy a = true
    · simp only [hfa, ↓reduceIte] at hg hstep
      exact (((hc1 a hec).trans hstep).steps (he hg)).mono (by simp only [heightC, heightS]; omega)
    · simp only [hfa, Bool.false_eq_true, ↓reduceIte] at hg hstep
      exact (((hc1 a hec).trans hstep).steps (hb hg)).mono (by simp only [heightC, heightS]; omega)

theorem divB_whil (lim : Nat) (S : Sem V) (cs : Nat → V) (f : Nat) (c : Ex) (body : Stms)
    (ih : ∀ c, DivB lim S cs f c) : DivB lim S cs (f + 1) (.inl (.whil c body)) := by
  intro g pre post st hd hg
  simp only [depthC, depthS, depthSs] at hd
  have hboff : csize (pre ++ comp (csize pre) c ++ [Ins.jmpf (csize pre + esize c + 5 + sssize body + 5)]) =
      csize pre + esize c + 5 := by simp [csize_append, csize_comp, csize, Ins.size]; omega
  have hcomp : compC (csize pre) (.inl (.whil c body)) =
      comp (csize pre) c ++ [Ins.jmpf (csize pre + esize c + 5 + sssize body + 5)] ++
        compSs (csize pre + esize c + 5) body ++ [Ins.jmp (csize pre)] := by
    simp [compC, compS, csize_comp, csize_compSs, List.append_assoc]
  have hcode0 : pre ++ compC (csize pre) (.inl (.whil c body)) ++ post =
      pre ++ comp (csize pre) c ++ ([Ins.jmpf (csize pre + esize c + 5 + sssize body + 5)] ++
        compSs (csize pre + esize c + 5) body ++ [Ins.jmp (csize pre)] ++ post) := by
    rw [hcomp]; simp [List.append_assoc]
  have hcode1 : pre ++ compC (csize pre) (.inl (.whil c body)) ++ post =
      (pre ++ comp (csize pre) c ++ [Ins.jmpf (csize pre + esize c + 5 + sssize body + 5)]) ++
        compC (csize (pre ++ comp (csize pre) c ++ [Ins.jmpf (csize pre + esize c + 5 + sssize body + 5)])) (.inr body) ++
        ([Ins.jmp (csize pre)] ++ post) := by
    rw [hcomp, hboff]; simp [compC, List.append_assoc]
  have hfj : fetch (pre ++ compC (csize pre) (.inl (.whil c body)) ++ post) (csize pre + esize c) =
      some (Ins.jmpf (csize pre + esize c + 5 + sssize body + 5)) := by
    rw [hcomp]
    have h := fetch_mid' pre (comp (csize pre) c)
      (compSs (csize pre + esize c + 5) body ++ [Ins.jmp (csize pre)]) post
      (Ins.jmpf (csize pre + esize c + 5 + sssize body + 5)) (csize pre + esize c) (by simp [csize_comp])
    simpa [List.append_assoc] using h
  have hfj2 : fetch (pre ++ compC (csize pre) (.inl (.whil c body)) ++ post) (csize pre + esize c + 5 + sssize body) =
      some (Ins.jmp (csize pre)) := by
    rw [hcomp]
    have h := fetch_mid' pre (comp (csize pre) c ++ [Ins.jmpf (csize pre + esize c + 5 + sssize body + 5)] ++
        compSs (csize pre + esize c + 5) body) [] post
      (Ins.jmp (csize pre)) (csize pre + esize c + 5 + sssize body)
      (by simp [csize_append, csize_comp, csize_compSs, csize, Ins.size]; omega)
    simpa [List.append_assoc] using h
  obtain ⟨hc1, _⟩ := comp_correctB lim S cs g c pre ([Ins.jmpf (csize pre + esize c + 5 + sssize body + 5)] ++
        compSs (csize pre + esize c + 5) body ++ [Ins.jmp (csize pre)] ++ post) st (by bnd')
  rw [← hcode0] at hc1
  obtain ⟨hb1, _⟩ := all_okB lim S cs f (.inr body) g
    (pre ++ comp (csize pre) c ++ [Ins.jmpf (csize pre + esize c + 5 + sssize body + 5)])
    ([Ins.jmp (csize pre)] ++ post) st (by bnd')
  rw [← hcode1, hboff] at hb1
  have hb := ih (.inr body) g
    (pre ++ comp (csize pre) c ++ [Ins.jmpf (csize pre + esize c + 5 + sssize body + 5)])
    ([Ins.jmp (csize pre)] ++ post) st (by bnd')
  rw [← hcode1, hboff] at hb
  have hloop := fun g1 => ih (.inl (.whil c body)) g1 pre post st (by bnd')
  simp only [exec] at hg
  cases hec : eval S cs g c with
  | none => simp [hec] at hg
  | some a =>
    simp only [hec] at hg
    have hstep := RunsB.step (lim := lim) (step_jmpf S cs _ (st := st) (g := g) (a := a) hfj) (by bnd')
    by_cases hfa : S.falsy a = true
    · simp [hfa] at hg
    · simp only [hfa, Bool.false_eq_true, ↓reduceIte] at hg hstep
      cases heb : exec S cs f (.inr body) g with
      | out =>
        exact (((hc1 a hec).trans hstep).steps (hb heb)).mono (by simp only [heightC, heightS]; omega)
      | err => simp [heb] at hg
      | done g1 =>
        simp only [heb] at hg
        have hback := StepsB.succ (lim := lim) (step_jmp S cs _ (st := st) (g := g1) hfj2) (by bnd') (hloop g1 hg)
        exact ((((hc1 a hec).trans hstep).trans (hb1 g1 heb)).steps hback).mono (by omega)

theorem divB_forever (lim : Nat) (S : Sem V) (cs : Nat → V) (f : Nat) (body : Stms)
    (ih : ∀ c, DivB lim S cs f c) : DivB lim S cs (f + 1) (.inl (.forever body)) := by
  intro g pre post st hd hg
  simp only [depthC, depthS, depthSs] at hd
  have hcomp : compC (csize pre) (.inl (.forever body)) = compSs (csize pre) body ++ [Ins.jmp (csize pre)] := by
    simp [compC, compS]
  have hcode1 : pre ++ compC (csize pre) (.inl (.forever body)) ++ post =
      pre ++ compC (csize pre) (.inr body) ++ ([Ins.jmp (csize pre)] ++ post) := by
    rw [hcomp]; simp [compC, List.append_assoc]
  have hfj2 : fetch (pre ++ compC (csize pre) (.inl (.forever body)) ++ post) (csize pre + sssize body) =
      some (Ins.jmp (csize pre)) := by
    rw [hcomp]
    have h := fetch_mid' pre (compSs (csize pre) body) [] post (Ins.jmp (csize pre)) (csize pre + sssize body)
      (by simp [csize_compSs])
    simpa [List.append_assoc] using h
  obtain ⟨hb1, _⟩ := all_okB lim S cs f (.inr body) g pre ([Ins.jmp (csize pre)] ++ post) st (by bnd')
  rw [← hcode1] at hb1
  have hb := ih (.inr body) g pre ([Ins.jmp (csize pre)] ++ post) st (by bnd')
  rw [← hcode1] at hb
  have hloop := fun g1 => ih (.inl (.forever body)) g1 pre post st (by bnd')
  simp only [exec] at hg
  cases heb : exec S cs f (.inr body) g with
  | out => exact (hb heb).mono (by simp only [heightC, heightS]; omega)
  | err => simp [heb] at hg
  | done g1 =>
    simp only [heb] at hg
    have hback := StepsB.succ (lim := lim) (step_jmp S cs _ (st := st) (g := g1) hfj2) (by bnd') (hloop g1 hg)
    have hrun := hb1 g1 heb
    simp only [codeSize] at hrun
    exact (hrun.steps hback).mono (by omega)

/-- **F1 divergence.** For every fuel, every statement or statement list, every placement: if the
fuel-indexed reference semantics runs out of fuel `f`, the machine makes at least `f - height` dispatches
from the first byte of the code without stopping. -/
theorem all_divB (lim : Nat) (S : Sem V) (cs : Nat → V) : ∀ (f : Nat) (c : Code), DivB lim S cs f c := by
  intro f
  induction f with
  | zero => exact divB_zero lim S cs
  | succ f ih =>
    intro c
    cases c with
    | inl s =>
      cases s with
      | expr e => exact divB_expr lim S cs f e
      | assign i e => exact divB_assign lim S cs f i e
      | ifs c body => exact divB_ifs lim S cs f c body ih
      | ifelse c body els => exact divB_ifelse lim S cs f c body els ih
      | whil c body => exact divB_whil lim S cs f c body ih
      | forever body => exact divB_forever lim S cs f body ih
    | inr ss =>
      cases ss with
      | nil => exact divB_nil lim S cs f
      | cons s ss => exact divB_cons lim S cs f s ss ih

/-- Whole programs: out of fuel `f` ⇒ the machine is still running after `m ≥ f - heightSs ss` dispatches. -/
theorem program_diverges_bounded (lim : Nat) (S : Sem V) (cs g : Nat → V) (ss : Stms) (f : Nat)
    (hd : depthSs ss ≤ lim) (hout : exec S cs f (.inr ss) g = .out) :
    ∃ m s', f - heightSs ss ≤ m ∧ runNB lim S cs (compSs 0 ss) m ⟨0, [], g⟩ = .at s' := by
  have h := all_divB lim S cs f (.inr ss) g [] [] [] (by simpa [depthC] using hd) hout
  simpa [csize, compC, heightC, StepsB] using h

end Tengo.Model.F1

import Tengo.Model.Conc
/-!
Helper lemmas about `Tengo.Model.Conc`: the inductive invariant of the RunContext protocol system and the
progress (liveness) argument under a fair scheduler. Used by `Props/C05.lean` and `Props/C07.lean`.
-/
namespace Tengo.Proofs.Conc
open Tengo.Model.Conc

/-! ### Classification of program counters -/

def holdsLock : CallerPc → Bool
  | .locked | .waiting | .ctxTaken | .draining | .unlocking _ => true
  | _ => false

def preGo : CallerPc → Bool
  | .start | .locked => true
  | _ => false

def received : CallerPc → Bool
  | .unlocking _ | .returned _ => true
  | _ => false

def aborted : CallerPc → Bool
  | .draining | .unlocking .ctxErr | .returned .ctxErr => true
  | _ => false

def tookCtx : CallerPc → Bool
  | .ctxTaken | .draining | .unlocking .ctxErr | .returned .ctxErr => true
  | _ => false

def inLoop : RunnerPc → Bool
  | .spawned | .poll _ | .exec _ => true
  | _ => false

def isExec : RunnerPc → Bool
  | .exec _ => true
  | _ => false

/-- Runner transitions still to go once `aborting` is set. -/
def rankA : RunnerPc → Nat
  | .notStarted => 5
  | .spawned => 4
  | .exec _ => 4
  | .poll _ => 3
  | .ranOut _ => 2
  | .recovering => 2
  | .sending _ => 1
  | .done => 0
  | .crashed => 0

/-- The message the runner currently carries towards the caller, if any. -/
def carried (s : State) : Option Msg :=
  match s.rpc with
  | .ranOut m => some m
  | .sending m => some m
  | .recovering => some .panicErr
  | .done => s.chan
  | _ => none

/-- Inductive invariant of the protocol system. -/
structure Inv (b : Beh) (s : State) : Prop where
  lock : s.lockHeld = holdsLock s.cpc
  started : (s.rpc = .notStarted) ↔ preGo s.cpc = true
  fresh : preGo s.cpc = true → s.chan = none ∧ s.aborting = false
  sends : s.sends = if s.rpc = .done then 1 else 0
  recvs : s.recvs = if received s.cpc = true then 1 else 0
  chanFull : s.chan.isSome = true ↔ (s.rpc = .done ∧ received s.cpc = false)
  abortCalled : s.abortCalled = aborted s.cpc
  abortingSet : s.aborting = true → s.abortCalled = true
  ctx : tookCtx s.cpc = true → s.cancelled = true
  abortSeen : s.abortCalled = true → inLoop s.rpc = true → s.aborting = true
  prefixCont : ∀ i, (s.rpc = .poll i ∨ s.rpc = .exec i) → ReachesInstr b i
  runOutFin : ∀ o, s.runOut = some o → ∃ i, FinishesAt b i o
  crashedFatal : s.rpc = .crashed → ReachesFatal b
  natural : s.abortCalled = false → ∀ m, carried s = some m → ∃ o, s.runOut = some o ∧ o.msg = m
  resRet : ∀ m, (s.cpc = .unlocking (.res m) ∨ s.cpc = .returned (.res m)) → ∃ o, s.runOut = some o ∧ o.msg = m
  boundSteps : s.abortCalled = true → s.stepsAfterAbort + rankA s.rpc ≤ 4
  boundInstr : s.abortCalled = true → s.instrAfterAbort + (if isExec s.rpc = true then 1 else 0) ≤ 1
  boundZero : s.abortCalled = false → s.stepsAfterAbort = 0 ∧ s.instrAfterAbort = 0
  recvDone : received s.cpc = true → s.rpc = .done

theorem inv_init (b : Beh) (pre : Bool) : Inv b (init pre) := by
  constructor <;> simp [init, holdsLock, preGo, received, aborted, tookCtx, inLoop, carried]


theorem inv_cancel {b : Beh} {s : State} (h : Inv b s) : Inv b { s with cancelled := true } := by
  obtain ⟨h1, h2, h3, h4, h5, h6, h7, h8, h9, h10, h11, h12, h13, h14, h15, h16, h17, h18, h19⟩ := h
  constructor <;> first | assumption | (intro _; rfl) | skip
  all_goals simp_all [carried]

macro "conc_simp" : tactic =>
  `(tactic| simp_all [holdsLock, preGo, received, aborted, tookCtx, inLoop, carried])

theorem inv_caller_start {b : Beh} {s s' : State} {p : Bool} (h : Inv b s) (hc : s.cpc = .start)
    (hs : callerStep s p = some s') : Inv b s' := by
  obtain ⟨h1, h2, h3, h4, h5, h6, h7, h8, h9, h10, h11, h12, h13, h14, h15, h16, h17, h18, h19⟩ := h
  obtain ⟨lockHeld, chan, aborting, cancelled, cpc, rpc, sends, recvs, runOut, abortCalled, sa, ia⟩ := s
  simp only at hc
  subst hc
  simp [callerStep] at hs
  obtain ⟨_, hs⟩ := hs
  subst hs
  constructor <;> first | exact h11 | exact h12 | exact h13 | conc_simp

theorem inv_caller_locked {b : Beh} {s s' : State} {p : Bool} (h : Inv b s) (hc : s.cpc = .locked)
    (hs : callerStep s p = some s') : Inv b s' := by
  obtain ⟨h1, h2, h3, h4, h5, h6, h7, h8, h9, h10, h11, h12, h13, h14, h15, h16, h17, h18, h19⟩ := h
  obtain ⟨lockHeld, chan, aborting, cancelled, cpc, rpc, sends, recvs, runOut, abortCalled, sa, ia⟩ := s
  simp only at hc
  subst hc
  simp [callerStep] at hs
  subst hs
  constructor <;> first | exact h12 | simp_all [holdsLock, preGo, received, aborted, tookCtx, inLoop, carried, rankA, isExec]

theorem inv_caller_waiting {b : Beh} {s s' : State} {p : Bool} (h : Inv b s) (hc : s.cpc = .waiting)
    (hs : callerStep s p = some s') : Inv b s' := by
  obtain ⟨h1, h2, h3, h4, h5, h6, h7, h8, h9, h10, h11, h12, h13, h14, h15, h16, h17, h18, h19⟩ := h
  obtain ⟨lockHeld, chan, aborting, cancelled, cpc, rpc, sends, recvs, runOut, abortCalled, sa, ia⟩ := s
  simp only at hc
  subst hc
  cases chan <;> cases cancelled <;> cases p <;> simp [callerStep, recvInto] at hs <;> subst hs <;>
    constructor <;> first | exact h11 | exact h12 | exact h13 | conc_simp

theorem inv_caller_ctxTaken {b : Beh} {s s' : State} {p : Bool} (h : Inv b s) (hc : s.cpc = .ctxTaken)
    (hs : callerStep s p = some s') : Inv b s' := by
  obtain ⟨h1, h2, h3, h4, h5, h6, h7, h8, h9, h10, h11, h12, h13, h14, h15, h16, h17, h18, h19⟩ := h
  obtain ⟨lockHeld, chan, aborting, cancelled, cpc, rpc, sends, recvs, runOut, abortCalled, sa, ia⟩ := s
  simp only at hc
  subst hc
  simp [callerStep] at hs
  subst hs
  have hr : rpc ≠ .notStarted := by simp_all [preGo]
  constructor <;> first | exact h11 | exact h12 | exact h13 | conc_simp
  · cases rpc <;> simp_all [rankA]
  · cases rpc <;> simp_all [isExec]

theorem inv_caller_draining {b : Beh} {s s' : State} {p : Bool} (h : Inv b s) (hc : s.cpc = .draining)
    (hs : callerStep s p = some s') : Inv b s' := by
  obtain ⟨h1, h2, h3, h4, h5, h6, h7, h8, h9, h10, h11, h12, h13, h14, h15, h16, h17, h18, h19⟩ := h
  obtain ⟨lockHeld, chan, aborting, cancelled, cpc, rpc, sends, recvs, runOut, abortCalled, sa, ia⟩ := s
  simp only at hc
  subst hc
  cases chan <;> simp [callerStep, recvInto] at hs <;> subst hs <;>
    constructor <;> first | exact h11 | exact h12 | exact h13 | exact h16 | exact h17 | conc_simp

theorem inv_caller_unlocking {b : Beh} {s s' : State} {p : Bool} {r : Ret} (h : Inv b s) (hc : s.cpc = .unlocking r)
    (hs : callerStep s p = some s') : Inv b s' := by
  obtain ⟨h1, h2, h3, h4, h5, h6, h7, h8, h9, h10, h11, h12, h13, h14, h15, h16, h17, h18, h19⟩ := h
  obtain ⟨lockHeld, chan, aborting, cancelled, cpc, rpc, sends, recvs, runOut, abortCalled, sa, ia⟩ := s
  simp only at hc
  subst hc
  simp [callerStep] at hs
  subst hs
  cases r <;> constructor <;> first | exact h11 | exact h12 | exact h13 | exact h16 | exact h17 | conc_simp

theorem inv_caller {b : Beh} {s s' : State} {p : Bool} (h : Inv b s) (hs : callerStep s p = some s') :
    Inv b s' := by
  cases hc : s.cpc with
  | start => exact inv_caller_start h hc hs
  | locked => exact inv_caller_locked h hc hs
  | waiting => exact inv_caller_waiting h hc hs
  | ctxTaken => exact inv_caller_ctxTaken h hc hs
  | draining => exact inv_caller_draining h hc hs
  | unlocking r => exact inv_caller_unlocking h hc hs
  | returned r => simp [callerStep, hc] at hs

macro "conc_simp2" : tactic =>
  `(tactic| simp_all [holdsLock, preGo, received, aborted, tookCtx, inLoop, carried, rankA, isExec])

theorem reaches_zero (b : Beh) : ReachesInstr b 0 := by
  intro j hj; omega

theorem reaches_succ {b : Beh} {i : Nat} (h : ReachesInstr b i) (hb : b i = .cont) : ReachesInstr b (i + 1) := by
  intro j hj
  by_cases hji : j = i
  · subst hji; exact hb
  · exact h j (by omega)

theorem inv_runner_spawned {b : Beh} {s s' : State} (h : Inv b s) (hc : s.rpc = .spawned)
    (hs : runnerStep b s = some s') : Inv b s' := by
  obtain ⟨h1, h2, h3, h4, h5, h6, h7, h8, h9, h10, h11, h12, h13, h14, h15, h16, h17, h18, h19⟩ := h
  obtain ⟨lockHeld, chan, aborting, cancelled, cpc, rpc, sends, recvs, runOut, abortCalled, sa, ia⟩ := s
  simp only at hc
  subst hc
  cases abortCalled <;> simp [runnerStep, tick] at hs <;> subst hs <;>
    constructor <;> first | exact h12 | exact h15 | exact (fun _ _ => reaches_zero b) | conc_simp2
  all_goals exact reaches_zero b

theorem inv_runner_poll {b : Beh} {s s' : State} {i : Nat} (h : Inv b s) (hc : s.rpc = .poll i)
    (hs : runnerStep b s = some s') : Inv b s' := by
  obtain ⟨h1, h2, h3, h4, h5, h6, h7, h8, h9, h10, h11, h12, h13, h14, h15, h16, h17, h18, h19⟩ := h
  obtain ⟨lockHeld, chan, aborting, cancelled, cpc, rpc, sends, recvs, runOut, abortCalled, sa, ia⟩ := s
  simp only at hc
  subst hc
  have hp := h11 i (Or.inl rfl)
  cases abortCalled <;> cases aborting <;> simp [runnerStep, tick] at hs <;> subst hs <;>
    constructor <;> first | exact h12 | exact h15 | conc_simp2


theorem inv_runner_ranOut {b : Beh} {s s' : State} {m : Msg} (h : Inv b s) (hc : s.rpc = .ranOut m)
    (hs : runnerStep b s = some s') : Inv b s' := by
  obtain ⟨h1, h2, h3, h4, h5, h6, h7, h8, h9, h10, h11, h12, h13, h14, h15, h16, h17, h18, h19⟩ := h
  obtain ⟨lockHeld, chan, aborting, cancelled, cpc, rpc, sends, recvs, runOut, abortCalled, sa, ia⟩ := s
  simp only at hc
  subst hc
  cases abortCalled <;> simp [runnerStep, tick] at hs <;> subst hs <;>
    constructor <;> first | exact h12 | exact h15 | conc_simp2

theorem inv_runner_recovering {b : Beh} {s s' : State} (h : Inv b s) (hc : s.rpc = .recovering)
    (hs : runnerStep b s = some s') : Inv b s' := by
  obtain ⟨h1, h2, h3, h4, h5, h6, h7, h8, h9, h10, h11, h12, h13, h14, h15, h16, h17, h18, h19⟩ := h
  obtain ⟨lockHeld, chan, aborting, cancelled, cpc, rpc, sends, recvs, runOut, abortCalled, sa, ia⟩ := s
  simp only at hc
  subst hc
  cases abortCalled <;> simp [runnerStep, tick] at hs <;> subst hs <;>
    constructor <;> first | exact h12 | exact h15 | conc_simp2

theorem inv_runner_sending {b : Beh} {s s' : State} {m : Msg} (h : Inv b s) (hc : s.rpc = .sending m)
    (hs : runnerStep b s = some s') : Inv b s' := by
  obtain ⟨h1, h2, h3, h4, h5, h6, h7, h8, h9, h10, h11, h12, h13, h14, h15, h16, h17, h18, h19⟩ := h
  obtain ⟨lockHeld, chan, aborting, cancelled, cpc, rpc, sends, recvs, runOut, abortCalled, sa, ia⟩ := s
  simp only at hc
  subst hc
  cases abortCalled <;> cases chan <;> simp [runnerStep, tick] at hs <;> subst hs <;>
    constructor <;> first | exact h12 | exact h15 | conc_simp2



theorem inv_runner_exec_cont {b : Beh} {s s' : State} {i : Nat} (h : Inv b s) (hc : s.rpc = .exec i) (hb : b i = .cont)
    (hs : runnerStep b s = some s') : Inv b s' := by
  obtain ⟨h1, h2, h3, h4, h5, h6, h7, h8, h9, h10, h11, h12, h13, h14, h15, h16, h17, h18, h19⟩ := h
  obtain ⟨lockHeld, chan, aborting, cancelled, cpc, rpc, sends, recvs, runOut, abortCalled, sa, ia⟩ := s
  simp only at hc
  subst hc
  have hp := reaches_succ (h11 i (Or.inr rfl)) hb
  cases abortCalled <;> simp [runnerStep, tick, hb] at hs <;> subst hs <;>
    constructor <;> first | exact h12 | exact h15 | conc_simp2

theorem inv_runner_exec_ok {b : Beh} {s s' : State} {i : Nat} (h : Inv b s) (hc : s.rpc = .exec i)
    (hb : b i = .fin .ok) (hs : runnerStep b s = some s') : Inv b s' := by
  obtain ⟨h1, h2, h3, h4, h5, h6, h7, h8, h9, h10, h11, h12, h13, h14, h15, h16, h17, h18, h19⟩ := h
  obtain ⟨lockHeld, chan, aborting, cancelled, cpc, rpc, sends, recvs, runOut, abortCalled, sa, ia⟩ := s
  simp only at hc
  subst hc
  have hp : FinishesAt b i .ok := ⟨h11 i (Or.inr rfl), hb⟩
  cases abortCalled <;> simp [runnerStep, tick, hb] at hs <;> subst hs <;>
    constructor <;> first | exact h12 | exact h15 | conc_simp2
  all_goals first
    | exact ⟨i, hp⟩
    | rfl
    | (intro m hm; rcases hm with hm | hm <;> simp [hm] at h19)

theorem inv_runner_exec_err {b : Beh} {s s' : State} {i : Nat} (h : Inv b s) (hc : s.rpc = .exec i)
    (hb : b i = .fin .err) (hs : runnerStep b s = some s') : Inv b s' := by
  obtain ⟨h1, h2, h3, h4, h5, h6, h7, h8, h9, h10, h11, h12, h13, h14, h15, h16, h17, h18, h19⟩ := h
  obtain ⟨lockHeld, chan, aborting, cancelled, cpc, rpc, sends, recvs, runOut, abortCalled, sa, ia⟩ := s
  simp only at hc
  subst hc
  have hp : FinishesAt b i .err := ⟨h11 i (Or.inr rfl), hb⟩
  cases abortCalled <;> simp [runnerStep, tick, hb] at hs <;> subst hs <;>
    constructor <;> first | exact h12 | exact h15 | conc_simp2
  all_goals first
    | exact ⟨i, hp⟩
    | rfl
    | (intro m hm; rcases hm with hm | hm <;> simp [hm] at h19)

theorem inv_runner_exec_goPanic {b : Beh} {s s' : State} {i : Nat} (h : Inv b s) (hc : s.rpc = .exec i)
    (hb : b i = .fin .goPanic) (hs : runnerStep b s = some s') : Inv b s' := by
  obtain ⟨h1, h2, h3, h4, h5, h6, h7, h8, h9, h10, h11, h12, h13, h14, h15, h16, h17, h18, h19⟩ := h
  obtain ⟨lockHeld, chan, aborting, cancelled, cpc, rpc, sends, recvs, runOut, abortCalled, sa, ia⟩ := s
  simp only at hc
  subst hc
  have hp : FinishesAt b i .goPanic := ⟨h11 i (Or.inr rfl), hb⟩
  cases abortCalled <;> simp [runnerStep, tick, hb] at hs <;> subst hs <;>
    constructor <;> first | exact h12 | exact h15 | conc_simp2
  all_goals first
    | exact ⟨i, hp⟩
    | rfl
    | (intro m hm; rcases hm with hm | hm <;> simp [hm] at h19)

theorem inv_runner_exec_fatal {b : Beh} {s s' : State} {i : Nat} (h : Inv b s) (hc : s.rpc = .exec i)
    (hb : b i = .fin .fatal) (hs : runnerStep b s = some s') : Inv b s' := by
  obtain ⟨h1, h2, h3, h4, h5, h6, h7, h8, h9, h10, h11, h12, h13, h14, h15, h16, h17, h18, h19⟩ := h
  obtain ⟨lockHeld, chan, aborting, cancelled, cpc, rpc, sends, recvs, runOut, abortCalled, sa, ia⟩ := s
  simp only at hc
  subst hc
  have hp : FinishesAt b i .fatal := ⟨h11 i (Or.inr rfl), hb⟩
  cases abortCalled <;> simp [runnerStep, tick, hb] at hs <;> subst hs <;>
    constructor <;> first | exact h12 | exact h15 | conc_simp2
  all_goals first
    | exact ⟨i, hp⟩
    | rfl
    | (intro m hm; rcases hm with hm | hm <;> simp [hm] at h19)


theorem inv_runner {b : Beh} {s s' : State} (h : Inv b s) (hs : runnerStep b s = some s') : Inv b s' := by
  cases hc : s.rpc with
  | notStarted => simp [runnerStep, hc] at hs
  | spawned => exact inv_runner_spawned h hc hs
  | poll i => exact inv_runner_poll h hc hs
  | exec i =>
    cases hb : b i with
    | cont => exact inv_runner_exec_cont h hc hb hs
    | fin o =>
      cases o with
      | ok => exact inv_runner_exec_ok h hc hb hs
      | err => exact inv_runner_exec_err h hc hb hs
      | goPanic => exact inv_runner_exec_goPanic h hc hb hs
      | fatal => exact inv_runner_exec_fatal h hc hb hs
  | ranOut m => exact inv_runner_ranOut h hc hs
  | recovering => exact inv_runner_recovering h hc hs
  | sending m => exact inv_runner_sending h hc hs
  | done => simp [runnerStep, hc] at hs
  | crashed => simp [runnerStep, hc] at hs

theorem inv_step {b : Beh} {s s' : State} {c : Choice} (h : Inv b s) (hs : step b s c = some s') : Inv b s' := by
  unfold step at hs
  split at hs
  · simp at hs
  · cases c with
    | caller p => exact inv_caller h hs
    | runner => exact inv_runner h hs
    | cancel =>
      simp only at hs
      split at hs
      · simp at hs
      · simp at hs; subst hs; exact inv_cancel h

theorem inv_reach {b : Beh} {pre : Bool} {s : State} (h : Reach b pre s) : Inv b s := by
  induction h with
  | init => exact inv_init b pre
  | step c _ hs ih => exact inv_step ih hs

end Tengo.Proofs.Conc

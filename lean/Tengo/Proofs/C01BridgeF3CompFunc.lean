import Tengo.Proofs.C01BridgeF3CompFnBody
/-!
C01 bridge for fragment F3, compile side, layer 5c (function literals): the parameter loop of a function literal
gives the parameters the local slots `0 … np-1` (`paramsOK`), the body block compiles to the raw body bytes
(`blockBodyOK`), and the whole `.func` case — `enterScope`, parameters, body, `optimizeFunc`, `leaveScope`, the limit
checks, `addConstant` AFTER the constants of the body, `CONST k` (`funcOK`).
-/
set_option linter.unusedVariables false
set_option linter.unusedSimpArgs false
namespace Tengo.Proofs.C01BridgeF3Comp
open Tengo.Model Tengo.Model.Compiler Tengo.Model.Opcodes
open Tengo.Model.Spec (Expr Stmt)
open Tengo.Model.F3 (Ex Exs Stm Stms FnDef Prog Ins)
open Tengo.Proofs.C01Bridge

/-- `enterScope` -/
def enterS3 (s : CState) : CState :=
  { s with saved := { insts := s.insts, loops := s.loops } :: s.saved, insts := #[], loops := [],
           tables := { block := false } :: s.tables }

theorem steps_enterScope (s : CState) : Steps enterScope s () (enterS3 s) := rfl

theorem steps_leaveScope (s : CState) (sv : Saved) (rest : List Saved) (h : s.saved = sv :: rest) :
    Steps leaveScope s s.insts
      { s with insts := sv.insts, loops := sv.loops, saved := rest, tables := parentSkip s.tables } := by
  show Except.ok _ = Except.ok _
  simp only [h]

theorem steps_optimizeFunc (s : CState) (r : Optimizer.Result) (h : Optimizer.opt s.insts.toList [] 0 = .ok r) :
    Steps optimizeFunc s () { s with insts := r.bytes.toArray } := by
  unfold Steps optimizeFunc
  show (do let s ← get; _ : CM Unit) s = _
  simp only [bind, StateT.bind, get, getThe, MonadStateOf.get, StateT.get, pure, Except.pure, Except.bind, h]
  rfl

theorem forM_cons3 {α : Type} (g : α → CM PUnit) (a : α) (as : List α) :
    (a :: as).forM g = (g a >>= fun _ => as.forM g) := rfl

section
variable {names lnames : Nat → String} {n : Nat}

/-- The parameter loop: parameters `j … j+k-1`. -/
theorem paramsOK (hN : NamesOK names lnames n) (root : Table) :
    ∀ (k j : Nat) (s : CState) (ft : Table), s.tables = [ft, root] → ft.block = false → ft.numDefinition = j →
      ft.maxDefinition = j → ft.freeSymbols = [] → LocTab lnames s.assigned 0 j ft → s.assigned.size = s.nextId →
      ∃ s' ft', Steps (((List.range' j k).map lnames).forM (fun p => do let sy ← define p; setAssigned sy)) s () s' ∧
        s'.tables = [ft', root] ∧ ft'.block = false ∧ ft'.numDefinition = j + k ∧ ft'.maxDefinition = j + k ∧
        ft'.freeSymbols = [] ∧ LocTab lnames s'.assigned 0 (j + k) ft' ∧ s'.assigned.size = s'.nextId ∧
        s'.insts = s.insts ∧ s'.consts = s.consts ∧ s'.saved = s.saved ∧ s'.loops = s.loops
  | 0, j, s, ft, ht, hf, hn, hm, hfs, hlt, hasz =>
    ⟨s, ft, Steps.pure () s, ht, hf, hn, hm, hfs, hlt, hasz, rfl, rfl, rfl, rfl⟩
  | k + 1, j, s, ft, ht, hf, hn, hm, hfs, hlt, hasz => by
    have hdef := steps_define (lnames j) s
    rw [ht, defineIn_param _ _ _ _ hf, hn, hm] at hdef
    simp only at hdef
    let ft1 : Table := { ft with store := (lnames j, ⟨lnames j, .local, j, s.nextId⟩) :: ft.store,
                                 numDefinition := j + 1, maxDefinition := max j (j + 1) }
    let s1 : CState := { s with nextId := s.nextId + 1, assigned := markNew s.assigned, tables := [ft1, root] }
    have hstep : Steps (do let sy ← define (lnames j); setAssigned sy) s () s1 := by
      refine Steps.bind hdef ((steps_setAssigned _ _).to ?_)
      simp only [s1, ft1, markNew, hasz]
    have hlt1 : LocTab lnames s1.assigned 0 (j + 1) ft1 :=
      hlt.push hN.linj (Nat.zero_le _) (by simp only [ft1, hasz])
    obtain ⟨s', ft', hs', h1, h2, h3, h4, h5, h6, h7, h8, h9, h10, h11⟩ :=
      paramsOK hN root k (j + 1) s1 ft1 rfl hf rfl (by simp only [ft1]; omega) hfs hlt1
        (by simp only [s1, markNew_size, hasz])
    refine ⟨s', ft', ?_, h1, h2, by omega, by omega, h5, ?_, h7, h8, h9, h10, h11⟩
    · simp only [List.range'_succ, List.map_cons]
      rw [forM_cons3]
      exact Steps.bind hstep hs'
    · have e : j + (k + 1) = j + 1 + k := by omega
      rw [e]; exact h6

variable {ctab : Nat → F0.Const} {isFn : Nat → Bool} {K : Nat → Compiler.Const}

/-- The body block of a function literal, after the parameters. -/
theorem blockBodyOK (hN : NamesOK names lnames n) (hK : ∀ j, isFn j = false → K j = constOf (ctab j))
    {np : Nat} {root : Table} (hr : RootOK names lnames n root) (body : Stms) (d : Nat) (s : CState) (ft : Table)
    (hd : budSs3 body + 1 ≤ d) (ht : s.tables = [ft, root]) (hf : ft.block = false) (hn : ft.numDefinition = np)
    (hm : ft.maxDefinition = np) (hfs : ft.freeSymbols = []) (hlt : LocTab lnames s.assigned 0 np ft)
    (hasz : s.assigned.size = s.nextId) (hl : s.loops = [])
    (hw : wfBody isFn n np s.consts.size body = true) :
    ∃ s' ft', Steps (compileBlock d (toAstSs3 names lnames ctab body)) s () s' ∧ s'.tables = [ft', root] ∧
      ft'.block = false ∧ ft'.maxDefinition = np + ndefs body ∧ ft'.freeSymbols = [] ∧
      s'.insts = s.insts ++ (encodeIns3 (F3.compSs 0 0 s.insts.size body)).toArray ∧
      s'.consts = s.consts ++ (litsK K s.consts.size (nlitsSs3 body)).toArray ∧ s'.saved = s.saved ∧
      s'.assigned.size = s'.nextId := by
  obtain ⟨d, rfl⟩ : ∃ d', d = d' + 1 := ⟨d - 1, by omega⟩
  cases body with
  | nil =>
    refine ⟨s, ft, ?_, ht, hf, by simpa [ndefs] using hm, hfs, by simp [F3.compSs], by simp [nlitsSs3, litsK_zero], rfl,
      hasz⟩
    simp only [toAstSs3, compileBlock.eq_2]
    exact Steps.pure () s
  | cons st ss =>
    have hinv : FnInv lnames np np root (setT s (blk :: s.tables)) :=
      ⟨⟨blk, ft, by rw [setT_tables, ht], rfl, hf, by simp [blk, hn], hm, hfs, LocTab.empty _ _ _ rfl, hlt⟩,
        Nat.le_refl _, hasz, hl⟩
    obtain ⟨s3, hs3, hinv3, hi3, hc3, hsv3⟩ := bodyOK (ctab := ctab) (isFn := isFn) (K := K) hN hK hr (.cons st ss)
      d np _ (by omega) hinv hw
    obtain ⟨bt', ft', ht3, hb3, hf3, hn3, hm3, hfs3, _, _⟩ := hinv3.tabs
    refine ⟨{ s3 with tables := s3.tables.drop 1 }, ft', ?_, by simp [ht3], hf3, hm3, hfs3, hi3, hc3, hsv3, hinv3.asz⟩
    rw [toAstSs3, compileBlock.eq_3 _ _ (by simp)]
    rw [← toAstSs3]
    refine Steps.bind (steps_fork' _) ?_
    refine Steps.bind hs3 ?_
    exact steps_unfork _

theorem optBody_some {fd : FnDef} {bytes : List UInt8} (h : optBody fd = some bytes) :
    ∃ r, Optimizer.opt (rawBody fd) [] 0 = .ok r ∧ r.bytes = bytes := by
  unfold optBody at h
  split at h
  · rename_i r hr
    exact ⟨r, hr, by simpa using h⟩
  · cases h

/-- **The `.func` case.** -/
theorem funcOK (hN : NamesOK names lnames n) (hK : ∀ j, isFn j = false → K j = constOf (ctab j))
    {root : Table} (hr : RootOK names lnames n root) (fd : FnDef) (d : Nat) (s : CState)
    (hd : budSs3 fd.body + 3 ≤ d) (ht : s.tables = [root]) (hasz : s.assigned.size = s.nextId)
    (hw : wfFn isFn n s.consts.size fd = true) (bytes : List UInt8) (hopt : optBody fd = some bytes) :
    ∃ s', Steps (compileExpr d (funcLit names lnames ctab fd)) s () s' ∧ s'.tables = s.tables ∧
      s'.insts = s.insts ++ (encodeIns3 [.const (s.consts.size + nlitsSs3 fd.body)]).toArray ∧
      s'.consts = s.consts ++ (litsK K s.consts.size (nlitsSs3 fd.body)).toArray ++ #[fnConst fd] ∧
      s'.saved = s.saved ∧ s'.loops = s.loops ∧ s'.assigned.size = s'.nextId := by
  obtain ⟨d, rfl⟩ : ∃ d', d = d' + 1 := ⟨d - 1, by omega⟩
  simp only [wfFn, Bool.and_eq_true, beq_iff_eq, decide_eq_true_eq] at hw
  obtain ⟨⟨hnl, h256⟩, hwb⟩ := hw
  -- parameters
  obtain ⟨s2, ft2, hs2, ht2, hf2, hn2, hm2, hfs2, hlt2, hasz2, hi2, hc2, hsv2, hl2⟩ :=
    paramsOK hN root fd.nparams 0 (enterS3 s) { block := false } (by simp [enterS3, ht]) rfl rfl rfl rfl
      (LocTab.empty _ _ _ rfl) hasz
  simp only [Nat.zero_add] at hn2 hm2 hlt2
  -- body
  obtain ⟨s3, ft3, hs3, ht3, hf3, hm3, hfs3, hi3, hc3, hsv3, hasz3⟩ :=
    blockBodyOK (ctab := ctab) (isFn := isFn) (K := K) hN hK hr fd.body d s2 ft2 (by omega) ht2 hf2 hn2 hm2 hfs2
      hlt2 hasz2 (by rw [hl2]; rfl) (by rw [hc2]; exact hwb)
  have hraw : s3.insts.toList = rawBody fd := by
    rw [hi3, hi2]; simp [enterS3, rawBody]
  obtain ⟨r, hr1, hr2⟩ := optBody_some hopt
  have hsaved : s3.saved = { insts := s.insts, loops := s.loops } :: s.saved := by rw [hsv3, hsv2]; rfl
  refine ⟨{ s3 with insts := s.insts ++ (encodeInstr opConstant [s3.consts.size]).toArray, loops := s.loops,
                    saved := s.saved, tables := [root],
                    consts := s3.consts.push (.fn bytes fd.nlocals fd.nparams false) }, ?_, ht.symm, ?_, ?_, rfl, rfl, hasz3⟩
  · simp only [funcLit]
    rw [compileExpr.eq_17]
    refine Steps.bind (steps_enterScope s) ?_
    simp only [paramsOf, List.range_eq_range']
    refine Steps.bind hs2 ?_
    refine Steps.bind hs3 ?_
    refine Steps.bind (steps_optimizeFunc s3 r (by rw [hraw]; exact hr1)) ?_
    refine Steps.bind (steps_get _) ?_
    simp only [ht3, List.headD_cons, hfs3, hm3, ← hnl]
    refine Steps.bind (steps_leaveScope _ _ _ hsaved) ?_
    have h1 : ¬ fd.nlocals > 256 := by omega
    simp only [h1, if_false, List.length_nil, Nat.lt_irrefl, gt_iff_lt, List.forM_nil, parentSkip, hf3,
      Bool.false_eq_true]
    rw [if_neg (by omega)]
    refine Steps.bind (Steps.pure PUnit.unit _) ?_
    refine Steps.bind (steps_addConstant _ _) ?_
    refine (Steps.discard (steps_emit _ _ _)).to ?_
    simp [app, hr2]
  · have hsz : s3.consts.size = s.consts.size + nlitsSs3 fd.body := by
      rw [hc3, hc2]; simp [enterS3, litsK_length]
    simp only [hsz]
    rw [← enc_of3]; rfl
  · rw [hc3, hc2]
    simp [enterS3, fnConst, hopt]

end

end Tengo.Proofs.C01BridgeF3Comp

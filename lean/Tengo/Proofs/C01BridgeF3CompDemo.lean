import Tengo.Proofs.C01BridgeF3CompFile
/-!
C01 bridge for fragment F3, compile side: non-vacuity. The factorial program `Demo.prog` (a recursive function
called from a loop in main), with concrete global names `g`, `gg`, `ggg`, … and local names `q`, `qq`, …, meets every
hypothesis of `compileFile_fragment3_partial`.
-/
namespace Tengo.Proofs.C01BridgeF3Comp
open Tengo.Model

def gname (i : Nat) : String := String.ofList (List.replicate (i + 1) 'g')
def lname (i : Nat) : String := String.ofList (List.replicate (i + 1) 'q')

theorem gname_len (i : Nat) : (gname i).length = i + 1 := by simp [gname]
theorem lname_len (i : Nat) : (lname i).length = i + 1 := by simp [lname]

theorem lname_all (i : Nat) : (lname i).toList.all (· == 'q') = true := by simp [lname]
theorem gname_all (i : Nat) : (gname i).toList.all (· == 'g') = true := by simp [gname]

theorem demo_names : NamesOK gname lname 3 := by
  refine ⟨fun i j _ _ h => ?_, fun i j h => ?_, fun i j _ h => ?_⟩
  · have := congrArg String.length h; simp only [gname_len] at this; omega
  · have := congrArg String.length h; simp only [lname_len] at this; omega
  · have h1 := lname_all i
    rw [h] at h1
    simp [gname] at h1

theorem demo_builtin (i : Nat) : lname i ∉ Spec.builtinNames := by
  intro hm
  have h1 := lname_all i
  have : ∀ x ∈ Spec.builtinNames, x.toList.all (· == 'q') = false := by decide
  rw [this _ hm] at h1
  cases h1

/-- Non-vacuity of `compileFile_fragment3_partial`: the factorial program (recursive function called from a loop in
main) meets every hypothesis. -/
example (ctab : Nat → F0.Const) :
    Compiler.compileFile (toAstProg gname lname ctab Demo.prog) (C01Bridge.inputsOf gname 3) =
      .ok { main := encodeIns3 (F3.compProg Demo.prog).main ++ [UInt8.ofNat Opcodes.opSuspend],
            consts := (List.range (nlitsMain Demo.prog Demo.prog.main)).map (poolOf Demo.prog ctab),
            maxGlobals := 3 } :=
  compileFile_fragment3_partial gname lname ctab 3 Demo.prog demo_names demo_builtin (by decide) (by decide)
    (by decide)

end Tengo.Proofs.C01BridgeF3Comp

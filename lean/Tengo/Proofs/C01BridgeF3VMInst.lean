import Tengo.Proofs.C01BridgeF3VMRel
import Tengo.Proofs.C01BridgeSem
/-!
C01 bridge for fragment F3, VM side: a CONCRETE data semantics that meets `DataRel` (non-vacuity of the
hypotheses of `step_sim3`).

The scalar carrier `SV` of the F0–F2 bridge excludes function values, so F3 gets its own carrier
`FV unref` = scalar values + the compiled-function values `.cfn r` whose object `r` is (by `unref r = some k`)
the function object of a function constant `k`. `sem3` is built, like `vmSem`, from exactly the operations
the VM's opcodes call (`Spec.binaryOp`, `Spec.equalsV`, `Spec.isFalsy`), which neither read nor write the heap
on these values (`binaryOp_pure3`, …); `env3` adds the constants and `asFn` (= `unref` on `.cfn`).
`dataRel3`, `asFn3_some`, `asFn3_none` are the data hypotheses of `CodeRel3` / `step_sim3` for it.
-/
set_option linter.unusedVariables false
set_option linter.unusedSimpArgs false
namespace Tengo.Proofs.C01BridgeF3
open Tengo.Model Tengo.Model.Spec Tengo.Model.VM Tengo.Proofs.C01Bridge

/-- Scalars and the function values of function constants. -/
def Val3 (unref : Nat → Option Nat) : Value → Bool
  | .cfn r => (unref r).isSome
  | v => Scalar v

abbrev FV (unref : Nat → Option Nat) := { v : Value // Val3 unref v = true }

theorem val3_of_scalar {unref : Nat → Option Nat} {v : Value} (h : Scalar v = true) : Val3 unref v = true := by
  cases v <;> first | exact h | exact Bool.noConfusion h

theorem val3_cases {unref : Nat → Option Nat} {v : Value} (h : Val3 unref v = true) :
    Scalar v = true ∨ ∃ r, v = .cfn r := by
  cases v <;> first | exact .inr ⟨_, rfl⟩ | exact .inl h

/-! ### purity of the value-level operations on `FV` -/

theorem isFalsy_total3 (v : Value) (hv : Scalar v = true ∨ ∃ r, v = .cfn r) :
    ∃ b, ∀ σ, isFalsy v σ = .ok (b, σ) := by
  rcases hv with hv | ⟨r, rfl⟩
  · exact isFalsy_total v hv
  · exact ⟨_, fun _ => rfl⟩

theorem equalsV_total3 (d : Nat) (a b : Value) (ha : Scalar a = true ∨ ∃ r, a = .cfn r)
    (hb : Scalar b = true ∨ ∃ r, b = .cfn r) : ∃ r, ∀ σ, equalsV (d + 1) a b σ = .ok (r, σ) := by
  rcases ha with ha | ⟨x, rfl⟩
  · rcases hb with hb | ⟨y, rfl⟩
    · exact equalsV_total d a b ha hb
    · cases a <;> first | exact Bool.noConfusion ha | exact ⟨_, fun _ => rfl⟩
  · rcases hb with hb | ⟨y, rfl⟩
    · cases b <;> first | exact Bool.noConfusion hb | exact ⟨_, fun _ => rfl⟩
    · exact ⟨_, fun _ => rfl⟩

theorem toStringV_cfn (d r : Nat) : IsPure (fun _ => True) (toStringV (d + 1) (.cfn r)) :=
  IsPure.pure _ trivial

macro "pure_leaf3" : tactic => `(tactic| first
  | exact IsPure.pure _ rfl
  | exact IsPure.throw _ (by intro h; cases h)
  | exact IsPure.invalidOp _ _ _
  | exact IsPure.pure _ (cmpResult_scalar ‹_›)
  | exact IsPure.pure _ (floatArith_scalar ‹_›)
  | exact IsPure.bind (toStringV_cfn 63 _) (fun _ _ => IsPure.pure _ rfl))

theorem binaryOp_pure3 (tok : String) (l r : Value) (hl : Scalar l = true ∨ ∃ x, l = .cfn x)
    (hr : Scalar r = true ∨ ∃ x, r = .cfn x) : IsPure (fun v => Scalar v = true) (binaryOp tok l r) := by
  rcases hl with hl | ⟨x, rfl⟩
  · rcases hr with hr | ⟨y, rfl⟩
    · exact binaryOp_pure tok l r hl hr
    · cases l <;> first
        | exact Bool.noConfusion hl
        | (simp only [binaryOp]; repeat' split) <;> pure_leaf3
  · simp only [binaryOp]
    exact IsPure.invalidOp _ _ _

/-! ### the semantics -/

/-- The `Sem` instance built from the operations of the VM's opcodes, on scalars and function values. -/
def sem3 (unref : Nat → Option Nat) : F0.Sem (FV unref) where
  binop := fun t a b => (F0.runPure (binaryOp (VM.tokOfNum t) a.1 b.1)).bind
    (fun v => if hs : Scalar v = true then some ⟨v, val3_of_scalar hs⟩ else none)
  eqv := fun a b => (F0.runPure (equalsV 64 a.1 b.1)).getD false
  falsy := fun a => (F0.runPure (isFalsy a.1)).getD false
  neg := fun a => match a.1 with
    | .int n => some ⟨.int (wrap64 (-n)), rfl⟩
    | .float x => some ⟨.float (-x), rfl⟩
    | _ => none
  bnot := fun a => match a.1 with
    | .int n => some ⟨.int (-n - 1), rfl⟩
    | _ => none
  ofBool := fun b => ⟨.bool b, rfl⟩
  undef := ⟨.undef, rfl⟩

/-- The environment: `cs` = the constants as values, `asFn` = which function constant a `.cfn` value denotes. -/
def env3 (unref : Nat → Option Nat) (cs : Nat → FV unref) : F3.Env (FV unref) where
  S := sem3 unref
  cs := cs
  asFn := fun v => match v.1 with
    | .cfn r => unref r
    | _ => none

theorem binaryOp_sem3 (unref : Nat → Option Nat) (t : Nat) (a b : FV unref) (σ : Spec.St) :
    (∀ v, (sem3 unref).binop t a b = some v → binaryOp (VM.tokOfNum t) a.1 b.1 σ = .ok (v.1, σ)) ∧
    ((sem3 unref).binop t a b = none → ∃ e, e ≠ Err.fuel ∧ binaryOp (VM.tokOfNum t) a.1 b.1 σ = .error e) := by
  rcases binaryOp_pure3 (VM.tokOfNum t) a.1 b.1 (val3_cases a.2) (val3_cases b.2) with ⟨v0, hs, hv⟩ | ⟨e, hne, he⟩
  · have h0 : (sem3 unref).binop t a b = some ⟨v0, val3_of_scalar hs⟩ := by
      show (F0.runPure (binaryOp (VM.tokOfNum t) a.1 b.1)).bind _ = _
      rw [runPure_ok (hv {})]
      simp [hs]
    constructor
    · intro v hv'
      rw [h0] at hv'
      injection hv' with hv'
      subst hv'
      exact hv σ
    · intro hn; rw [h0] at hn; cases hn
  · have h0 : (sem3 unref).binop t a b = none := by
      show (F0.runPure (binaryOp (VM.tokOfNum t) a.1 b.1)).bind _ = _
      rw [runPure_err (he {})]
      rfl
    constructor
    · intro v hv'; rw [h0] at hv'; cases hv'
    · intro _; exact ⟨e, hne, he σ⟩

/-- **The concrete data semantics meets `DataRel`.** -/
theorem dataRel3 (unref : Nat → Option Nat) : DataRel (sem3 unref) (Subtype.val : FV unref → Value) where
  binop_ok := fun t a b v σ hv => (binaryOp_sem3 unref t a b σ).1 v hv
  binop_err := fun t a b σ hv => (binaryOp_sem3 unref t a b σ).2 hv
  falsy := fun a σ => by
    obtain ⟨b, hb⟩ := isFalsy_total3 a.1 (val3_cases a.2)
    have : (sem3 unref).falsy a = b := by
      show (F0.runPure (isFalsy a.1)).getD false = b
      rw [runPure_ok (hb {})]; rfl
    rw [this]; exact hb σ
  eqv := fun a b σ => by
    obtain ⟨r, hr⟩ := equalsV_total3 63 a.1 b.1 (val3_cases a.2) (val3_cases b.2)
    have : (sem3 unref).eqv a b = r := by
      show (F0.runPure (equalsV 64 a.1 b.1)).getD false = r
      rw [runPure_ok (hr {})]; rfl
    rw [this]; exact hr σ
  neg_some := fun a v hv => by
    obtain ⟨av, ha⟩ := a
    cases av <;> simp only [sem3] at hv <;> cases hv <;> first
      | exact .inl ⟨_, rfl, rfl⟩
      | exact .inr ⟨_, rfl, rfl⟩
  neg_none := fun a hv => by
    obtain ⟨av, ha⟩ := a
    show (∀ n, av ≠ .int n) ∧ (∀ x, av ≠ .float x)
    refine ⟨fun m hh => ?_, fun m hh => ?_⟩ <;> (subst hh; simp only [sem3] at hv; cases hv)
  bnot_some := fun a v hv => by
    obtain ⟨av, ha⟩ := a
    cases av <;> simp only [sem3] at hv <;> cases hv <;> exact ⟨_, rfl, rfl⟩
  bnot_none := fun a hv => by
    obtain ⟨av, ha⟩ := a
    show ∀ n, av ≠ .int n
    intro m hh
    subst hh
    simp only [sem3] at hv
    cases hv
  ofBool := fun _ => rfl
  undef := rfl
  noptr := fun a c hh => by
    have := a.2
    rw [hh] at this
    exact Bool.noConfusion this

/-- `asFn` of `env3` on a callable value: the value is the function object of that constant. -/
theorem asFn3_some (unref : Nat → Option Nat) (ref : Nat → Nat) (hun : ∀ r k, unref r = some k → r = ref k)
    (cs : Nat → FV unref) (v : FV unref) (k : Nat) (h : (env3 unref cs).asFn v = some k) : v.1 = .cfn (ref k) := by
  obtain ⟨x, hx⟩ := v
  cases x <;> simp only [env3] at h <;> first
    | cases h
    | exact congrArg Value.cfn (hun _ _ h)

/-- `asFn` of `env3` is undefined exactly on values the VM reports as not callable. -/
theorem asFn3_none (unref : Nat → Option Nat) (cs : Nat → FV unref) (v : FV unref)
    (h : (env3 unref cs).asFn v = none) : NotCallable v.1 := by
  obtain ⟨x, hx⟩ := v
  show (∀ r, x ≠ .cfn r) ∧ (∀ n, x ≠ .builtin n) ∧ (∀ y, x ≠ .fn y)
  cases x <;> first
    | exact Bool.noConfusion hx
    | (refine ⟨?_, ?_, ?_⟩ <;> intro _ hh <;> cases hh)
    | skip
  -- `.cfn r`: `Val3` says `unref r` is defined
  simp only [env3] at h
  simp only [Val3, h] at hx
  exact Bool.noConfusion hx

end Tengo.Proofs.C01BridgeF3

import Tengo.Proofs.C01BridgeF3SpecOps
/-!
C01 bridge for fragment F3, reference-interpreter side, layer 2 (expressions): `Spec.evalExpr` on an embedded F3
expression against `F3.evalE` (`evalSim_succ`), argument lists (`evalsSim_succ`); the call itself is the
hypothesis `CallSim` (proved with the statements).
-/
set_option linter.unusedVariables false
set_option linter.unusedSimpArgs false
namespace Tengo.Proofs.C01BridgeF3Spec
open Tengo.Model Tengo.Model.Spec
open Tengo.Model.F3 (Ex Exs Stm Stms FnDef Prog Locals ERes EsRes Res updL bindArgs)
open Tengo.Proofs.C01Bridge
open Tengo.Proofs.C01BridgeF3 (DataRel NotCallable)
open Tengo.Proofs.C01BridgeF3Comp
open Tengo.Proofs.C01F3Opt (EnvOk)

variable {V : Type} (C : Cx V)

/-- Argument lists, pointwise. -/
def VRs (σ : St) (vs : List V) (ws : List Value) : Prop :=
  vs.length = ws.length ∧ ∀ (j : Nat) (v : V) (w : Value), vs[j]? = some v → ws[j]? = some w → VR C σ v w

/-- A run of the interpreter against a result of `F3.evalE`. -/
def RE (x : EM Value) (gs : GSt) (σ : St) (B m : Nat) (lc : Nat → Nat) (l : Locals V) : ERes V → Prop
  | .val v g' => ∃ w σ', EOk x gs σ w σ' ∧ VR C σ' v w ∧ HInv C B σ' g' m lc l ∧ FrB C B σ σ'
  | .err => ∃ err, err ≠ Err.fuel ∧ EErr x gs σ err
  | .out => True
  | .bad => True

def REs (x : EM (List Value)) (gs : GSt) (σ : St) (B m : Nat) (lc : Nat → Nat) (l : Locals V) : EsRes V → Prop
  | .vals vs g' => ∃ ws σ', EOk x gs σ ws σ' ∧ VRs C σ' vs ws ∧ HInv C B σ' g' m lc l ∧ FrB C B σ σ'
  | .err => ∃ err, err ≠ Err.fuel ∧ EErr x gs σ err
  | .out => True
  | .bad => True

def EvalSim (f : Nat) (e : Ex) : Prop :=
  ∀ (F : Nat) (ctx : Ctx) (gs : GSt) (σ : St) (g : Nat → V) (l : Locals V) (m : Nat) (lc : Nat → Nat) (B k : Nat),
    4 * f ≤ F → 2 * ctx.callDepth + f ≤ 1800 → EInv C ctx.env m lc → HInv C B σ g m lc l →
    wfE3 (isFnOf C.P) C.n m k e = true →
    RE C (evalExpr F ctx (toAstE3 C.names C.lnames C.ctab e)) gs σ B m lc l (F3.evalE C.E C.P f e g l)

def EvalsSim (f : Nat) (es : Exs) : Prop :=
  ∀ (F : Nat) (ctx : Ctx) (gs : GSt) (σ : St) (g : Nat → V) (l : Locals V) (m : Nat) (lc : Nat → Nat) (B k : Nat),
    4 * f ≤ F → 2 * ctx.callDepth + f ≤ 1800 → EInv C ctx.env m lc → HInv C B σ g m lc l →
    wfEs3 (isFnOf C.P) C.n m k es = true →
    REs C (evalExprs F ctx (toAstEs3 C.names C.lnames C.ctab es)) gs σ B m lc l (F3.evalEs C.E C.P f es g l)

/-- The call proper: callee and arguments are values; the callee changes global cells and fresh cells only. -/
def CallSim (f : Nat) : Prop :=
  ∀ (F : Nat) (ctx : Ctx) (gs : GSt) (σ : St) (g : Nat → V) (fv : V) (w : Value) (vs : List V) (ws : List Value),
    4 * f ≤ F → 2 * ctx.callDepth + f + 1 ≤ 1800 → VR C σ fv w → VRs C σ vs ws → GInv C σ g →
    match F3.callFn C.E C.P f fv vs g with
    | .val v g' => ∃ w' σ', EOk (callTail F ctx w ws) gs σ w' σ' ∧ VR C σ' v w' ∧ GInv C σ' g' ∧
        FrB C σ.heap.size σ σ'
    | .err => ∃ err, err ≠ Err.fuel ∧ EErr (callTail F ctx w ws) gs σ err
    | .out => True
    | .bad => True

variable {C}

theorem RE.bind_ok {α : Type} {x : EM α} {K : α → EM Value} {gs : GSt} {σ σ1 : St} {a : α} {B m : Nat}
    {lc : Nat → Nat} {l : Locals V} {res : ERes V} (h1 : EOk x gs σ a σ1) (hf : FrB C B σ σ1)
    (h2 : RE C (K a) gs σ1 B m lc l res) : RE C (x >>= K) gs σ B m lc l res := by
  cases res with
  | val v g' => obtain ⟨w, σ', hok, hvr, hinv, hfr⟩ := h2; exact ⟨w, σ', EOk.bind h1 hok, hvr, hinv, hf.trans hfr⟩
  | err => obtain ⟨err, hne, he⟩ := h2; exact ⟨err, hne, EErr.bind_right h1 he⟩
  | out => trivial
  | bad => trivial

theorem RE.pure {gs : GSt} {σ : St} {B m : Nat} {lc : Nat → Nat} {l : Locals V} {v : V} {w : Value} {g : Nat → V}
    (hv : VR C σ v w) (hi : HInv C B σ g m lc l) : RE C (Pure.pure w) gs σ B m lc l (.val v g) :=
  ⟨w, σ, EOk.pure _ gs σ, hv, hi, FrB.refl B σ⟩

theorem REs.bind_ok {α : Type} {x : EM α} {K : α → EM (List Value)} {gs : GSt} {σ σ1 : St} {a : α} {B m : Nat}
    {lc : Nat → Nat} {l : Locals V} {res : EsRes V} (h1 : EOk x gs σ a σ1) (hf : FrB C B σ σ1)
    (h2 : REs C (K a) gs σ1 B m lc l res) : REs C (x >>= K) gs σ B m lc l res := by
  cases res with
  | vals vs g' => obtain ⟨w, σ', hok, hvr, hinv, hfr⟩ := h2; exact ⟨w, σ', EOk.bind h1 hok, hvr, hinv, hf.trans hfr⟩
  | err => obtain ⟨err, hne, he⟩ := h2; exact ⟨err, hne, EErr.bind_right h1 he⟩
  | out => trivial
  | bad => trivial

theorem VRs.mono {σ σ' : St} {vs : List V} {ws : List Value} (h : VRs C σ vs ws) (hc : KeepClos σ σ') :
    VRs C σ' vs ws := ⟨h.1, fun j v w h1 h2 => (h.2 j v w h1 h2).mono hc⟩

theorem VRs.nil (σ : St) : VRs C σ [] [] := ⟨rfl, fun j v w h => by simp at h⟩

theorem VRs.cons {σ : St} {v : V} {w : Value} {vs : List V} {ws : List Value} (h1 : VR C σ v w)
    (h2 : VRs C σ vs ws) : VRs C σ (v :: vs) (w :: ws) := by
  refine ⟨by simp [h2.1], fun j v' w' hv hw => ?_⟩
  cases j with
  | zero =>
    simp only [List.getElem?_cons_zero, Option.some.injEq] at hv hw
    subst hv hw; exact h1
  | succ j =>
    simp only [List.getElem?_cons_succ] at hv hw
    exact h2.2 j v' w' hv hw

theorem ev_cond (F : Nat) (ctx : Ctx) (c t f : Expr) :
    evalExpr (F + 1) ctx (.cond c t f) = (do
      let cv ← evalExpr F ctx c
      let b ← Spec.liftM (isFalsy cv)
      if b = true then evalExpr F ctx f else evalExpr F ctx t) := by
  rw [evalExpr.eq_12]

theorem ev_sub' (F : Nat) (ctx : Ctx) (x : Expr) :
    evalExpr (F + 1) ctx (.un "Sub" x) = (evalExpr F ctx x >>= negK) := by
  rw [ev_sub]; rfl

theorem ev_xor' (F : Nat) (ctx : Ctx) (x : Expr) :
    evalExpr (F + 1) ctx (.un "Xor" x) = (evalExpr F ctx x >>= bnotK) := by
  rw [ev_xor]; rfl

theorem evalExpr_lit (F : Nat) (ctx : Ctx) (c : F0.Const) (gs : GSt) (σ : St) :
    EOk (evalExpr (F + 1) ctx (litExpr c)) gs σ (F0.constValue c) σ := by
  cases c <;> simp only [litExpr, F0.constValue] <;>
    first
      | (rw [evalExpr.eq_3]; exact EOk.pure _ gs σ)
      | (rw [evalExpr.eq_4]; exact EOk.pure _ gs σ)
      | (rw [evalExpr.eq_5]; exact EOk.pure _ gs σ)
      | (rw [evalExpr.eq_6]; exact EOk.pure _ gs σ)

theorem vr_bool (hy : Hyp C) (b : Bool) {σ : St} : VR C σ (C.E.S.ofBool b) (.bool b) := by
  rw [← hy.data.ofBool b]; exact VR.scalar (by rw [hy.data.ofBool]; rfl)

section
variable (hy : Hyp C) (f : Nat) (ihE : ∀ e, EvalSim C f e) (ihEs : ∀ es, EvalsSim C f es) (ihC : CallSim C f)
include hy ihE ihEs ihC

theorem evalSim_succ (e : Ex) : EvalSim C (f + 1) e := by
  intro F ctx gs σ g l m lc B k hF hD he hh hw
  obtain ⟨F, rfl⟩ : ∃ F', F = F' + 1 := ⟨F - 1, by omega⟩
  have hF' : 4 * f ≤ F := by omega
  have hD' : 2 * ctx.callDepth + f ≤ 1800 := by omega
  cases e with
  | lit j =>
    simp only [wfE3, Bool.and_eq_true, beq_iff_eq, Bool.not_eq_true'] at hw
    have hfn : C.P.fns j = none := by
      have := hw.2
      simp only [isFnOf] at this
      cases h : C.P.fns j with
      | none => rfl
      | some fd => rw [h] at this; cases this
    simp only [toAstE3, F3.evalE]
    have hval := hy.cs j hfn
    refine ⟨_, σ, evalExpr_lit F ctx _ gs σ, ?_, hh, FrB.refl B σ⟩
    rw [← hval]
    exact VR.scalar (by rw [hval]; exact constValue_scalar _)
  | tru =>
    simp only [toAstE3, F3.evalE, evalExpr.eq_7]
    exact RE.pure (by rw [← hy.data.ofBool true]; exact VR.scalar (by rw [hy.data.ofBool]; rfl)) hh
  | fls =>
    simp only [toAstE3, F3.evalE, evalExpr.eq_7]
    exact RE.pure (by rw [← hy.data.ofBool false]; exact VR.scalar (by rw [hy.data.ofBool]; rfl)) hh
  | undef =>
    simp only [toAstE3, F3.evalE, evalExpr.eq_8]
    exact RE.pure (by rw [← hy.data.undef]; exact VR.scalar (by rw [hy.data.undef]; rfl)) hh
  | glob i =>
    simp only [wfE3, decide_eq_true_eq] at hw
    simp only [toAstE3, F3.evalE, evalExpr.eq_2]
    obtain ⟨w, b, hc, hv⟩ := hh.glob i hw
    exact ⟨w, σ, readVar_run (he.glob i hw) hc gs, hv, hh, FrB.refl B σ⟩
  | loc i =>
    simp only [wfE3, decide_eq_true_eq] at hw
    simp only [toAstE3, F3.evalE, evalExpr.eq_2]
    obtain ⟨v, w, b, hl, hc, hv⟩ := hh.loc.loc i hw
    rw [hl]
    exact ⟨w, σ, readVar_run (he.loc i hw) hc gs, hv, hh, FrB.refl B σ⟩
  | bin tok a b =>
    simp only [wfE3, Bool.and_eq_true] at hw
    obtain ⟨⟨ht, hwa⟩, hwb⟩ := hw
    simp only [toAstE3, ev_tok F ctx tok ht, F3.evalE]
    have ha := ihE a F ctx gs σ g l m lc B _ hF' hD' he hh hwa
    cases hea : F3.evalE C.E C.P f a g l with
    | val x g1 =>
      rw [hea] at ha
      obtain ⟨wx, σ1, hok1, hvx, hh1, hf1⟩ := ha
      refine RE.bind_ok hok1 hf1 ?_
      have hb := ihE b F ctx gs σ1 g1 l m lc B _ hF' hD' he hh1 hwb
      dsimp only
      cases heb : F3.evalE C.E C.P f b g1 l with
      | val y g2 =>
        rw [heb] at hb
        obtain ⟨wy, σ2, hok2, hvy, hh2, hf2⟩ := hb
        refine RE.bind_ok hok2 hf2 ?_
        obtain ⟨h1, h2⟩ := vr_binop hy (hvx.mono hf2.kc) hvy tok gs σ2
        dsimp only
        cases hop : C.E.S.binop tok x y with
        | some v =>
          obtain ⟨hok, hs⟩ := h1 v hop
          exact ⟨_, σ2, hok, VR.scalar hs, hh2, FrB.refl B σ2⟩
        | none => exact h2 hop
      | err => rw [heb] at hb; obtain ⟨err, hne, herr⟩ := hb; exact ⟨err, hne, EErr.bind_left herr⟩
      | out => exact True.intro
      | bad => exact True.intro
    | err => rw [hea] at ha; obtain ⟨err, hne, herr⟩ := ha; exact ⟨err, hne, EErr.bind_left herr⟩
    | out => exact True.intro
    | bad => exact True.intro
  | eq a b =>
    simp only [wfE3, Bool.and_eq_true] at hw
    obtain ⟨hwa, hwb⟩ := hw
    simp only [toAstE3, ev_eq, F3.evalE]
    have ha := ihE a F ctx gs σ g l m lc B _ hF' hD' he hh hwa
    cases hea : F3.evalE C.E C.P f a g l with
    | val x g1 =>
      rw [hea] at ha
      obtain ⟨wx, σ1, hok1, hvx, hh1, hf1⟩ := ha
      refine RE.bind_ok hok1 hf1 ?_
      have hb := ihE b F ctx gs σ1 g1 l m lc B _ hF' hD' he hh1 hwb
      dsimp only
      cases heb : F3.evalE C.E C.P f b g1 l with
      | val y g2 =>
        rw [heb] at hb
        obtain ⟨wy, σ2, hok2, hvy, hh2, hf2⟩ := hb
        refine RE.bind_ok hok2 hf2 ?_
        dsimp only
        refine RE.bind_ok (vr_eqv hy (hvx.mono hf2.kc) hvy gs σ2) (FrB.refl B σ2) ?_
        exact RE.pure (vr_bool hy _) hh2
      | err => rw [heb] at hb; obtain ⟨err, hne, herr⟩ := hb; exact ⟨err, hne, EErr.bind_left herr⟩
      | out => exact True.intro
      | bad => exact True.intro
    | err => rw [hea] at ha; obtain ⟨err, hne, herr⟩ := ha; exact ⟨err, hne, EErr.bind_left herr⟩
    | out => exact True.intro
    | bad => exact True.intro
  | ne a b =>
    simp only [wfE3, Bool.and_eq_true] at hw
    obtain ⟨hwa, hwb⟩ := hw
    simp only [toAstE3, ev_ne, F3.evalE]
    have ha := ihE a F ctx gs σ g l m lc B _ hF' hD' he hh hwa
    cases hea : F3.evalE C.E C.P f a g l with
    | val x g1 =>
      rw [hea] at ha
      obtain ⟨wx, σ1, hok1, hvx, hh1, hf1⟩ := ha
      refine RE.bind_ok hok1 hf1 ?_
      have hb := ihE b F ctx gs σ1 g1 l m lc B _ hF' hD' he hh1 hwb
      dsimp only
      cases heb : F3.evalE C.E C.P f b g1 l with
      | val y g2 =>
        rw [heb] at hb
        obtain ⟨wy, σ2, hok2, hvy, hh2, hf2⟩ := hb
        refine RE.bind_ok hok2 hf2 ?_
        dsimp only
        refine RE.bind_ok (vr_eqv hy (hvx.mono hf2.kc) hvy gs σ2) (FrB.refl B σ2) ?_
        exact RE.pure (vr_bool hy _) hh2
      | err => rw [heb] at hb; obtain ⟨err, hne, herr⟩ := hb; exact ⟨err, hne, EErr.bind_left herr⟩
      | out => exact True.intro
      | bad => exact True.intro
    | err => rw [hea] at ha; obtain ⟨err, hne, herr⟩ := ha; exact ⟨err, hne, EErr.bind_left herr⟩
    | out => exact True.intro
    | bad => exact True.intro
  | neg a =>
    simp only [wfE3] at hw
    simp only [toAstE3, ev_sub', F3.evalE]
    have ha := ihE a F ctx gs σ g l m lc B _ hF' hD' he hh hw
    cases hea : F3.evalE C.E C.P f a g l with
    | val x g1 =>
      rw [hea] at ha
      obtain ⟨wx, σ1, hok1, hvx, hh1, hf1⟩ := ha
      refine RE.bind_ok hok1 hf1 ?_
      dsimp only
      obtain ⟨h1, h2⟩ := vr_neg hy hvx gs σ1
      cases hop : C.E.S.neg x with
      | some v =>
        obtain ⟨hok, hs⟩ := h1 v hop
        exact ⟨_, σ1, hok, VR.scalar hs, hh1, FrB.refl B σ1⟩
      | none => exact h2 hop
    | err => rw [hea] at ha; obtain ⟨err, hne, herr⟩ := ha; exact ⟨err, hne, EErr.bind_left herr⟩
    | out => exact True.intro
    | bad => exact True.intro
  | bnot a =>
    simp only [wfE3] at hw
    simp only [toAstE3, ev_xor', F3.evalE]
    have ha := ihE a F ctx gs σ g l m lc B _ hF' hD' he hh hw
    cases hea : F3.evalE C.E C.P f a g l with
    | val x g1 =>
      rw [hea] at ha
      obtain ⟨wx, σ1, hok1, hvx, hh1, hf1⟩ := ha
      refine RE.bind_ok hok1 hf1 ?_
      dsimp only
      obtain ⟨h1, h2⟩ := vr_bnot hy hvx gs σ1
      cases hop : C.E.S.bnot x with
      | some v =>
        obtain ⟨hok, hs⟩ := h1 v hop
        exact ⟨_, σ1, hok, VR.scalar hs, hh1, FrB.refl B σ1⟩
      | none => exact h2 hop
    | err => rw [hea] at ha; obtain ⟨err, hne, herr⟩ := ha; exact ⟨err, hne, EErr.bind_left herr⟩
    | out => exact True.intro
    | bad => exact True.intro
  | lnot a =>
    simp only [wfE3] at hw
    simp only [toAstE3, ev_not, F3.evalE]
    have ha := ihE a F ctx gs σ g l m lc B _ hF' hD' he hh hw
    cases hea : F3.evalE C.E C.P f a g l with
    | val x g1 =>
      rw [hea] at ha
      obtain ⟨wx, σ1, hok1, hvx, hh1, hf1⟩ := ha
      refine RE.bind_ok hok1 hf1 ?_
      dsimp only
      refine RE.bind_ok (vr_falsy hy hvx gs σ1) (FrB.refl B σ1) ?_
      exact RE.pure (vr_bool hy _) hh1
    | err => rw [hea] at ha; obtain ⟨err, hne, herr⟩ := ha; exact ⟨err, hne, EErr.bind_left herr⟩
    | out => exact True.intro
    | bad => exact True.intro
  | plus a =>
    simp only [wfE3] at hw
    simp only [toAstE3, ev_plus, F3.evalE]
    have ha := ihE a F ctx gs σ g l m lc B _ hF' hD' he hh hw
    cases hea : F3.evalE C.E C.P f a g l with
    | val x g1 =>
      rw [hea] at ha
      obtain ⟨wx, σ1, hok1, hvx, hh1, hf1⟩ := ha
      exact RE.bind_ok hok1 hf1 (RE.pure hvx hh1)
    | err => rw [hea] at ha; obtain ⟨err, hne, herr⟩ := ha; exact ⟨err, hne, EErr.bind_left herr⟩
    | out => exact True.intro
    | bad => exact True.intro
  | cond a t e =>
    simp only [wfE3, Bool.and_eq_true] at hw
    obtain ⟨⟨hw, hwt⟩, hwe⟩ := hw
    simp only [toAstE3, ev_cond, F3.evalE]
    have ha := ihE a F ctx gs σ g l m lc B _ hF' hD' he hh hw
    cases hea : F3.evalE C.E C.P f a g l with
    | val x g1 =>
      rw [hea] at ha
      obtain ⟨wx, σ1, hok1, hvx, hh1, hf1⟩ := ha
      refine RE.bind_ok hok1 hf1 ?_
      dsimp only
      refine RE.bind_ok (vr_falsy hy hvx gs σ1) (FrB.refl B σ1) ?_
      cases hfa : C.E.S.falsy x with
      | true =>
        simp only [if_true]
        exact ihE e F ctx gs σ1 g1 l m lc B _ hF' hD' he hh1 hwe
      | false =>
        simp only [Bool.false_eq_true, if_false]
        exact ihE t F ctx gs σ1 g1 l m lc B _ hF' hD' he hh1 hwt
    | err => rw [hea] at ha; obtain ⟨err, hne, herr⟩ := ha; exact ⟨err, hne, EErr.bind_left herr⟩
    | out => exact True.intro
    | bad => exact True.intro
  | land a b =>
    simp only [wfE3, Bool.and_eq_true] at hw
    obtain ⟨hw, hwb⟩ := hw
    simp only [toAstE3, ev_land, F3.evalE]
    have ha := ihE a F ctx gs σ g l m lc B _ hF' hD' he hh hw
    cases hea : F3.evalE C.E C.P f a g l with
    | val x g1 =>
      rw [hea] at ha
      obtain ⟨wx, σ1, hok1, hvx, hh1, hf1⟩ := ha
      refine RE.bind_ok hok1 hf1 ?_
      dsimp only
      refine RE.bind_ok (vr_falsy hy hvx gs σ1) (FrB.refl B σ1) ?_
      cases hfa : C.E.S.falsy x with
      | true =>
        simp only [if_true]
        exact RE.pure hvx hh1
      | false =>
        simp only [Bool.false_eq_true, if_false]
        exact ihE b F ctx gs σ1 g1 l m lc B _ hF' hD' he hh1 hwb
    | err => rw [hea] at ha; obtain ⟨err, hne, herr⟩ := ha; exact ⟨err, hne, EErr.bind_left herr⟩
    | out => exact True.intro
    | bad => exact True.intro
  | lor a b =>
    simp only [wfE3, Bool.and_eq_true] at hw
    obtain ⟨hw, hwb⟩ := hw
    simp only [toAstE3, ev_lor, F3.evalE]
    have ha := ihE a F ctx gs σ g l m lc B _ hF' hD' he hh hw
    cases hea : F3.evalE C.E C.P f a g l with
    | val x g1 =>
      rw [hea] at ha
      obtain ⟨wx, σ1, hok1, hvx, hh1, hf1⟩ := ha
      refine RE.bind_ok hok1 hf1 ?_
      dsimp only
      refine RE.bind_ok (vr_falsy hy hvx gs σ1) (FrB.refl B σ1) ?_
      cases hfa : C.E.S.falsy x with
      | true =>
        simp only [if_true]
        exact ihE b F ctx gs σ1 g1 l m lc B _ hF' hD' he hh1 hwb
      | false =>
        simp only [Bool.false_eq_true, if_false]
        exact RE.pure hvx hh1
    | err => rw [hea] at ha; obtain ⟨err, hne, herr⟩ := ha; exact ⟨err, hne, EErr.bind_left herr⟩
    | out => exact True.intro
    | bad => exact True.intro
  | call a args =>
    simp only [wfE3, Bool.and_eq_true, decide_eq_true_eq] at hw
    obtain ⟨⟨_, hw⟩, hwargs⟩ := hw
    simp only [toAstE3, ev_call, F3.evalE]
    have ha := ihE a F ctx gs σ g l m lc B _ hF' hD' he hh hw
    cases hea : F3.evalE C.E C.P f a g l with
    | val x g1 =>
      rw [hea] at ha
      obtain ⟨wx, σ1, hok1, hvx, hh1, hf1⟩ := ha
      refine RE.bind_ok hok1 hf1 ?_
      dsimp only
      have hb := ihEs args F ctx gs σ1 g1 l m lc B _ hF' hD' he hh1 hwargs
      cases heb : F3.evalEs C.E C.P f args g1 l with
      | vals vs g2 =>
        rw [heb] at hb
        obtain ⟨ws, σ2, hok2, hvs, hh2, hf2⟩ := hb
        refine RE.bind_ok hok2 hf2 ?_
        dsimp only
        have hc := ihC F ctx gs σ2 g2 x wx vs ws hF' hD (hvx.mono hf2.kc) hvs hh2.glob
        cases hec : F3.callFn C.E C.P f x vs g2 with
        | val v g' =>
          rw [hec] at hc
          obtain ⟨w', σ', hok, hv', hg', hf'⟩ := hc
          exact ⟨w', σ', hok, hv', hh2.call hg' hf', hf'.mono hh2.bsz⟩
        | err => rw [hec] at hc; exact hc
        | out => exact True.intro
        | bad => exact True.intro
      | err => rw [heb] at hb; obtain ⟨err, hne, herr⟩ := hb; exact ⟨err, hne, EErr.bind_left herr⟩
      | out => exact True.intro
      | bad => exact True.intro
    | err => rw [hea] at ha; obtain ⟨err, hne, herr⟩ := ha; exact ⟨err, hne, EErr.bind_left herr⟩
    | out => exact True.intro
    | bad => exact True.intro

omit hy ihC in
theorem evalsSim_succ (es : Exs) : EvalsSim C (f + 1) es := by
  intro F ctx gs σ g l m lc B k hF hD he hh hw
  obtain ⟨F, rfl⟩ : ∃ F', F = F' + 1 := ⟨F - 1, by omega⟩
  have hF' : 4 * f ≤ F := by omega
  have hD' : 2 * ctx.callDepth + f ≤ 1800 := by omega
  cases es with
  | nil =>
    simp only [toAstEs3, F3.evalEs, evalExprs.eq_2]
    exact ⟨[], σ, EOk.pure _ gs σ, VRs.nil σ, hh, FrB.refl B σ⟩
  | cons e es =>
    simp only [wfEs3, Bool.and_eq_true] at hw
    simp only [toAstEs3, F3.evalEs, evalExprs.eq_3]
    have ha := ihE e F ctx gs σ g l m lc B _ hF' hD' he hh hw.1
    cases hea : F3.evalE C.E C.P f e g l with
    | val x g1 =>
      rw [hea] at ha
      obtain ⟨wx, σ1, hok1, hvx, hh1, hf1⟩ := ha
      refine REs.bind_ok hok1 hf1 ?_
      have hb := ihEs es F ctx gs σ1 g1 l m lc B _ hF' hD' he hh1 hw.2
      dsimp only
      cases heb : F3.evalEs C.E C.P f es g1 l with
      | vals vs g2 =>
        rw [heb] at hb
        obtain ⟨ws, σ2, hok2, hvs, hh2, hf2⟩ := hb
        refine REs.bind_ok hok2 hf2 ?_
        exact ⟨wx :: ws, σ2, EOk.pure _ gs σ2, VRs.cons (hvx.mono hf2.kc) hvs, hh2, FrB.refl B σ2⟩
      | err => rw [heb] at hb; obtain ⟨err, hne, herr⟩ := hb; exact ⟨err, hne, EErr.bind_left herr⟩
      | out => exact True.intro
      | bad => exact True.intro
    | err => rw [hea] at ha; obtain ⟨err, hne, herr⟩ := ha; exact ⟨err, hne, EErr.bind_left herr⟩
    | out => exact True.intro
    | bad => exact True.intro

end

end Tengo.Proofs.C01BridgeF3Spec

import Tengo.Proofs.C01BridgeF3ConvDivBase
/-!
Fragment F3, divergence (layer 1): argument lists, the call expression, the call proper.
-/
set_option linter.unusedSimpArgs false
set_option linter.unusedVariables false
namespace Tengo.Model.F3
open Tengo.Model.F0 (Sem upd)
variable {V : Type} {E : Env V} {P : Prog} {K : Nat}

theorem divEs_nil (f : Nat) : DivEs E P K (f + 1) .nil := by
  intro g l fn code nl off bp sp stk dis cl hc hnt hat htl hl hsp h j hj
  simp only [evalEs] at h
  cases h

theorem divEs_cons (f : Nat) (e : Ex) (es : Exs) (ok : AllOk E P f) (ih : AllDiv E P K f) :
    DivEs E P K (f + 1) (.cons e es) := by
  intro g l fn code nl off bp sp stk dis cl hc hnt hat htl hl hsp h j hj
  have hA : At code off (comp off e ++ compEs (off + esize e) es) := by simpa [compEs] using hat
  have h1 := ok.e e g l fn code nl off bp sp stk dis cl hc hnt hA.left hl hsp
  have hB : At code (off + esize e) (compEs (off + esize e) es) := hA.right (by rw [csize_comp])
  have htl' : tailNext code (off + esize e + essize es) = false := by
    simpa [essize, Nat.add_assoc] using htl
  simp only [evalEs] at h
  simp only [hEs] at hj
  cases ha : evalE E P f e g l with
  | val v g1 =>
    rw [ha] at h1 h
    obtain ⟨stk1, hr1, hv, hs1⟩ := h1.normal (tailNext_compEs hB htl')
    dsimp only at hr1 hs1 h
    cases hb : evalEs E P f es g1 l with
    | vals vs g2 => rw [hb] at h; cases h
    | err => rw [hb] at h; cases h
    | bad => rw [hb] at h; cases h
    | out =>
      have h2 := ih.es es g1 l fn code nl (off + esize e) bp (sp + 1) stk1 dis cl hc hnt hB htl'
        (hl.frame hsp hs1) (by omega) hb j (by omega)
      exact Alive.of_runs hr1 h2
  | err => rw [ha] at h; cases h
  | bad => rw [ha] at h; cases h
  | out =>
    exact ih.e e g l fn code nl off bp sp stk dis cl hc hnt hA.left hl hsp ha j (by omega)

theorem divE_call (f : Nat) (fe : Ex) (args : Exs) (ok : AllOk E P f) (ih : AllDiv E P K f) :
    DivE E P K (f + 1) (.call fe args) := by
  intro g l fn code nl off bp sp stk dis cl hc hnt hat hl hsp h j hj
  have hA : At code off (comp off fe ++ compEs (off + esize fe) args ++ [Ins.call args.len]) := by
    simpa [comp] using hat
  have h1 := ok.e fe g l fn code nl off bp sp stk dis cl hc hnt hA.left.left hl hsp
  have hfc := (hA.right (off' := off + esize fe + essize args)
    (by simp [csize_append, csize_comp, csize_compEs] <;> omega)).fetch
  have htl : tailNext code (off + esize fe + essize args) = false := tailNext_of_fetch hfc rfl
  have hB : At code (off + esize fe) (compEs (off + esize fe) args) := hA.left.right (by rw [csize_comp])
  simp only [evalE] at h
  simp only [hE] at hj
  have hp1 := hE_pos fe
  have hp2 := hEs_pos args
  cases ha : evalE E P f fe g l with
  | val fv g1 =>
    rw [ha] at h1 h
    obtain ⟨stk1, hr1, hv, hs1⟩ := h1.normal (tailNext_compEs hB htl)
    dsimp only at hr1 hs1 h
    have h2 := ok.es args g1 l fn code nl (off + esize fe) bp (sp + 1) stk1 dis cl hc hnt hB htl
      (hl.frame hsp hs1) (by omega)
    cases hb : evalEs E P f args g1 l with
    | vals vs g2 =>
      rw [hb] at h2 h
      obtain ⟨stk2, hr2, hlen, hvs, hs2⟩ := h2
      dsimp only at hr2 hvs hs2 h
      have h3 := ih.call fv vs g2 fn code nl (off + esize fe + essize args) bp sp stk2 dis cl hc hnt hsp
        (by rw [hlen]; exact hfc) (by rw [hs2 sp (by omega)]; exact hv) hvs h j (by omega)
      rw [hlen] at h3
      exact Alive.of_runs (hr1.trans hr2) h3
    | err => rw [hb] at h; cases h
    | bad => rw [hb] at h; cases h
    | out =>
      have h3 := ih.es args g1 l fn code nl (off + esize fe) bp (sp + 1) stk1 dis cl hc hnt hB htl
        (hl.frame hsp hs1) (by omega) hb j (by omega)
      exact Alive.of_runs hr1 h3
  | err => rw [ha] at h; cases h
  | bad => rw [ha] at h; cases h
  | out =>
    exact ih.e fe g l fn code nl off bp sp stk dis cl hc hnt hA.left.left hl hsp ha j (by omega)

theorem divCall_succ (hP : ProgOk P) (hK : KOk P K) (f : Nat) (ih : AllDiv E P K f) :
    DivCall E P K (f + 1) := by
  intro fv vs g fn code nl ip bp slot stk dis cl hc hnt hslot hf hfv hargs h j hj
  simp only [callFn] at h
  cases hk : E.asFn fv with
  | none => rw [hk] at h; cases h
  | some k =>
    rw [hk] at h
    dsimp only at h
    cases hfd : P.fns k with
    | none => rw [hfd] at h; cases h
    | some fd =>
      rw [hfd] at h
      dsimp only at h
      have hok := hP.fns k fd hfd
      have hKk := hK k fd hfd
      have hcode : (compFn fd).code = compSs 0 0 0 fd.body ++ [Ins.ret false] := rfl
      have hfro : FrameOk P (k + 1) fd.nlocals := by
        intro k' fd' hk' hfd'
        have : k = k' := by omega
        subst this
        rw [hfd] at hfd'
        cases hfd'; rfl
      by_cases hn : vs.length = fd.nparams
      · rw [if_neg (by simpa using hn)] at h
        cases hr : execSs E P f fd.body g (bindArgs vs) with
        | done g' l' => rw [hr] at h; cases h
        | ret v g' => rw [hr] at h; cases h
        | brk _ _ => rw [hr] at h; cases h
        | cont _ _ => rw [hr] at h; cases h
        | err => rw [hr] at h; cases h
        | bad => rw [hr] at h; cases h
        | out =>
          cases j with
          | zero => exact Alive.zero _ _ _
          | succ j' =>
            have hjb : j' * K + hSs fd.body ≤ f := by
              rw [Nat.succ_mul] at hj
              omega
            by_cases htail : (fn == k + 1 && tailNext code (ip + 3)) = true
            · simp only [Bool.and_eq_true, beq_iff_eq] at htail
              obtain ⟨hfn, htn⟩ := htail
              subst hfn
              have hce : code = (compFn fd).code := by
                have := code_fn (P := P) hfd
                rw [hc] at this
                exact Option.some.inj this
              subst hce
              have hnl : nl = fd.nlocals := hnt k fd rfl hfd
              subst hnl
              have hst := step_call_tail (E := E) (bp := bp) (g := g) (dis := dis) (cl := cl) (stk := stk) hc hf
                (by rw [hfv]; exact hk) (fns_fn hfd) (by simpa [compFn] using hn) (by simp [htn])
              have hb := ih.ss fd.body g (bindArgs vs) (k + 1) (compFn fd).code fd.nlocals 0 0 0 bp slot
                (copyArgs stk bp (slot + 1) vs.length vs.length) (dis || nextIsPop (compFn fd).code (ip + 3)) cl
                hc hfro (by rw [hcode]; exact At.prefix _ _) hok.slots
                (locRel_copy (by rw [hn]; exact hok.params) hslot hargs) hslot hr j' hjb
              exact Alive.step hst hb
            · have htail' : (fn == k + 1 && tailNext code (ip + 3)) = false := by
                simpa using htail
              have hst := step_call_push (E := E) (bp := bp) (g := g) (dis := dis) (cl := cl) (stk := stk) hc hf
                (by rw [hfv]; exact hk) (fns_fn hfd) (by simpa [compFn] using hn) htail'
              have hb := ih.ss fd.body g (bindArgs vs) (k + 1) (compFn fd).code fd.nlocals 0 0 0 (slot + 1)
                (slot + 1 + fd.nlocals) stk false (⟨fn, ip + 3, bp, dis⟩ :: cl) (code_fn hfd) hfro
                (by rw [hcode]; exact At.prefix _ _) hok.slots
                (locRel_bind (by rw [hn]; exact hok.params) hargs) (Nat.le_refl _) hr j' hjb
              have hnl : (compFn fd).nlocals = fd.nlocals := rfl
              rw [hnl] at hst
              exact Alive.step hst hb
      · rw [if_pos (by simpa using hn)] at h
        cases h

end Tengo.Model.F3

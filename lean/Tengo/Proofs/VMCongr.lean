import Tengo.Proofs.VMFrames
set_option linter.unusedSectionVars false
set_option linter.unusedSimpArgs false
namespace Tengo.Model.VM
open Tengo.Model Tengo.Model.Spec Tengo.Model.Opcodes

/-! ### simple instructions do not depend on the code object beyond the constant they name,
nor on the frame beyond its base pointer and captured cells -/

/-- Two constants the simple instructions cannot tell apart: equal values, or function constants
with the same function object (their bodies may differ). -/
def ConstRel : Option Const → Option Const → Prop
  | some (.val v), some (.val v') => v = v'
  | some (.fn _ r), some (.fn _ r') => r = r'
  | none, none => True
  | _, _ => False

section congr
variable (code code' : Code) (fr fr' : Frame) (a0 a1 op : Nat) (r : Regs)
  (hbp : fr'.bp = fr.bp) (hfree : fr'.free = fr.free)
include hbp hfree

macro "congr_simple" x:ident : tactic => `(tactic| (unfold $x; first | rfl | (simp only [hbp, hfree])))

theorem exNull_congr : exNull code' fr' a0 a1 op r = exNull code fr a0 a1 op r := by congr_simple exNull
theorem exTrue_congr : exTrue code' fr' a0 a1 op r = exTrue code fr a0 a1 op r := by congr_simple exTrue
theorem exFalse_congr : exFalse code' fr' a0 a1 op r = exFalse code fr a0 a1 op r := by congr_simple exFalse
theorem exPop_congr : exPop code' fr' a0 a1 op r = exPop code fr a0 a1 op r := by congr_simple exPop
theorem exBinaryOp_congr : exBinaryOp code' fr' a0 a1 op r = exBinaryOp code fr a0 a1 op r := by congr_simple exBinaryOp
theorem exEqual_congr : exEqual code' fr' a0 a1 op r = exEqual code fr a0 a1 op r := by congr_simple exEqual
theorem exLNot_congr : exLNot code' fr' a0 a1 op r = exLNot code fr a0 a1 op r := by congr_simple exLNot
theorem exBComplement_congr : exBComplement code' fr' a0 a1 op r = exBComplement code fr a0 a1 op r := by congr_simple exBComplement
theorem exMinus_congr : exMinus code' fr' a0 a1 op r = exMinus code fr a0 a1 op r := by congr_simple exMinus
theorem exJumpFalsy_congr : exJumpFalsy code' fr' a0 a1 op r = exJumpFalsy code fr a0 a1 op r := by congr_simple exJumpFalsy
theorem exAndJump_congr : exAndJump code' fr' a0 a1 op r = exAndJump code fr a0 a1 op r := by congr_simple exAndJump
theorem exOrJump_congr : exOrJump code' fr' a0 a1 op r = exOrJump code fr a0 a1 op r := by congr_simple exOrJump
theorem exJump_congr : exJump code' fr' a0 a1 op r = exJump code fr a0 a1 op r := by congr_simple exJump
theorem exSetGlobal_congr : exSetGlobal code' fr' a0 a1 op r = exSetGlobal code fr a0 a1 op r := by congr_simple exSetGlobal
theorem exGetGlobal_congr : exGetGlobal code' fr' a0 a1 op r = exGetGlobal code fr a0 a1 op r := by congr_simple exGetGlobal
theorem exSetSelGlobal_congr : exSetSelGlobal code' fr' a0 a1 op r = exSetSelGlobal code fr a0 a1 op r := by congr_simple exSetSelGlobal
theorem exArray_congr : exArray code' fr' a0 a1 op r = exArray code fr a0 a1 op r := by congr_simple exArray
theorem exMap_congr : exMap code' fr' a0 a1 op r = exMap code fr a0 a1 op r := by congr_simple exMap
theorem exError_congr : exError code' fr' a0 a1 op r = exError code fr a0 a1 op r := by congr_simple exError
theorem exImmutable_congr : exImmutable code' fr' a0 a1 op r = exImmutable code fr a0 a1 op r := by congr_simple exImmutable
theorem exIndex_congr : exIndex code' fr' a0 a1 op r = exIndex code fr a0 a1 op r := by congr_simple exIndex
theorem exSliceIndex_congr : exSliceIndex code' fr' a0 a1 op r = exSliceIndex code fr a0 a1 op r := by congr_simple exSliceIndex
theorem exDefineLocal_congr : exDefineLocal code' fr' a0 a1 op r = exDefineLocal code fr a0 a1 op r := by congr_simple exDefineLocal
theorem exSetLocal_congr : exSetLocal code' fr' a0 a1 op r = exSetLocal code fr a0 a1 op r := by congr_simple exSetLocal
theorem exSetSelLocal_congr : exSetSelLocal code' fr' a0 a1 op r = exSetSelLocal code fr a0 a1 op r := by congr_simple exSetSelLocal
theorem exGetLocal_congr : exGetLocal code' fr' a0 a1 op r = exGetLocal code fr a0 a1 op r := by congr_simple exGetLocal
theorem exGetBuiltin_congr : exGetBuiltin code' fr' a0 a1 op r = exGetBuiltin code fr a0 a1 op r := by congr_simple exGetBuiltin
theorem exGetFreePtr_congr : exGetFreePtr code' fr' a0 a1 op r = exGetFreePtr code fr a0 a1 op r := by congr_simple exGetFreePtr
theorem exGetFree_congr : exGetFree code' fr' a0 a1 op r = exGetFree code fr a0 a1 op r := by congr_simple exGetFree
theorem exSetFree_congr : exSetFree code' fr' a0 a1 op r = exSetFree code fr a0 a1 op r := by congr_simple exSetFree
theorem exGetLocalPtr_congr : exGetLocalPtr code' fr' a0 a1 op r = exGetLocalPtr code fr a0 a1 op r := by congr_simple exGetLocalPtr
theorem exSetSelFree_congr : exSetSelFree code' fr' a0 a1 op r = exSetSelFree code fr a0 a1 op r := by congr_simple exSetSelFree
theorem exIteratorInit_congr : exIteratorInit code' fr' a0 a1 op r = exIteratorInit code fr a0 a1 op r := by congr_simple exIteratorInit
theorem exIteratorNext_congr : exIteratorNext code' fr' a0 a1 op r = exIteratorNext code fr a0 a1 op r := by congr_simple exIteratorNext
theorem exIteratorKey_congr : exIteratorKey code' fr' a0 a1 op r = exIteratorKey code fr a0 a1 op r := by congr_simple exIteratorKey

theorem exConstant_congr (hc : ConstRel (code.consts[a0]?) (code'.consts[a0]?)) :
    exConstant code' fr' a0 a1 op r = exConstant code fr a0 a1 op r := by
  unfold exConstant
  dsimp only
  cases h1 : code.consts[a0]? with
  | none =>
    cases h2 : code'.consts[a0]? with
    | none => rfl
    | some c' => rw [h1, h2] at hc; simp [ConstRel] at hc
  | some c =>
    cases h2 : code'.consts[a0]? with
    | none => rw [h1, h2] at hc; cases c <;> simp [ConstRel] at hc
    | some c' =>
      rw [h1, h2] at hc
      cases c <;> cases c' <;> simp only [ConstRel] at hc
      · subst hc; rfl
      · subst hc; rfl

theorem exClosure_congr (hc : ConstRel (code.consts[a0]?) (code'.consts[a0]?)) :
    exClosure code' fr' a0 a1 op r = exClosure code fr a0 a1 op r := by
  unfold exClosure
  dsimp only
  cases h1 : code.consts[a0]? with
  | none =>
    cases h2 : code'.consts[a0]? with
    | none => rfl
    | some c' => rw [h1, h2] at hc; simp [ConstRel] at hc
  | some c =>
    cases h2 : code'.consts[a0]? with
    | none => rw [h1, h2] at hc; cases c <;> simp [ConstRel] at hc
    | some c' =>
      rw [h1, h2] at hc
      cases c <;> cases c' <;> simp only [ConstRel] at hc
      · rfl
      · rfl

/-- **Simple instructions are a function of (opcode, operands, base pointer, captured cells, registers)
and of the constant they name** — not of the instruction stream, the position, or anything else in
the code object. -/
theorem execSimple_congr (hc : ConstRel (code.consts[a0]?) (code'.consts[a0]?)) :
    execSimple code' fr' a0 a1 op r = execSimple code fr a0 a1 op r := by
  unfold execSimple
  rw [exConstant_congr code code' fr fr' a0 a1 op r hbp hfree hc, exClosure_congr code code' fr fr' a0 a1 op r hbp hfree hc,
    exNull_congr code code' fr fr' a0 a1 op r hbp hfree, exTrue_congr code code' fr fr' a0 a1 op r hbp hfree,
    exFalse_congr code code' fr fr' a0 a1 op r hbp hfree, exPop_congr code code' fr fr' a0 a1 op r hbp hfree,
    exBinaryOp_congr code code' fr fr' a0 a1 op r hbp hfree, exEqual_congr code code' fr fr' a0 a1 op r hbp hfree,
    exLNot_congr code code' fr fr' a0 a1 op r hbp hfree, exBComplement_congr code code' fr fr' a0 a1 op r hbp hfree,
    exMinus_congr code code' fr fr' a0 a1 op r hbp hfree, exJumpFalsy_congr code code' fr fr' a0 a1 op r hbp hfree,
    exAndJump_congr code code' fr fr' a0 a1 op r hbp hfree, exOrJump_congr code code' fr fr' a0 a1 op r hbp hfree,
    exJump_congr code code' fr fr' a0 a1 op r hbp hfree, exSetGlobal_congr code code' fr fr' a0 a1 op r hbp hfree,
    exGetGlobal_congr code code' fr fr' a0 a1 op r hbp hfree, exSetSelGlobal_congr code code' fr fr' a0 a1 op r hbp hfree,
    exArray_congr code code' fr fr' a0 a1 op r hbp hfree, exMap_congr code code' fr fr' a0 a1 op r hbp hfree,
    exError_congr code code' fr fr' a0 a1 op r hbp hfree, exImmutable_congr code code' fr fr' a0 a1 op r hbp hfree,
    exIndex_congr code code' fr fr' a0 a1 op r hbp hfree, exSliceIndex_congr code code' fr fr' a0 a1 op r hbp hfree,
    exDefineLocal_congr code code' fr fr' a0 a1 op r hbp hfree, exSetLocal_congr code code' fr fr' a0 a1 op r hbp hfree,
    exSetSelLocal_congr code code' fr fr' a0 a1 op r hbp hfree, exGetLocal_congr code code' fr fr' a0 a1 op r hbp hfree,
    exGetBuiltin_congr code code' fr fr' a0 a1 op r hbp hfree, exGetFreePtr_congr code code' fr fr' a0 a1 op r hbp hfree,
    exGetFree_congr code code' fr fr' a0 a1 op r hbp hfree, exSetFree_congr code code' fr fr' a0 a1 op r hbp hfree,
    exGetLocalPtr_congr code code' fr fr' a0 a1 op r hbp hfree, exSetSelFree_congr code code' fr fr' a0 a1 op r hbp hfree,
    exIteratorInit_congr code code' fr fr' a0 a1 op r hbp hfree, exIteratorNext_congr code code' fr fr' a0 a1 op r hbp hfree,
    exIteratorKey_congr code code' fr fr' a0 a1 op r hbp hfree]

end congr
end Tengo.Model.VM

import Tengo.Proofs.VMSafeOps
namespace Tengo.Model.VM
open Tengo.Model.Spec Tengo.Model.Opcodes

/-- Arguments after spreading / rolling up: the callee slot stays where it was. -/
structure ArgsRel (r : Regs) (n0 : Nat) (out : Regs × Nat) : Prop where
  sp : out.1.sp + n0 = r.sp + out.2
  gl : out.1.globals = r.globals
  fo : out.1.fobjs = r.fobjs

theorem spreadArgs_spec (r : Regs) (n0 spread : Nat) (h : 1 ≤ r.sp) (hs : spread = 1 → 1 ≤ n0) :
    Post (spreadArgs r n0 spread) (ArgsRel r n0) := by
  unfold spreadArgs
  split
  · rename_i hsp
    have hn0 : 1 ≤ n0 := hs (by simpa using hsp)
    split
    · refine Post_bind_true (fun es => ?_)
      refine Post_bind (pushAll_spec es _) ?_
      rintro r1 ⟨h1, h2, h3⟩
      apply Post_pure
      dsimp only at h1 h2 h3
      exact ⟨by dsimp only; omega, h2, h3⟩
    · refine Post_bind_true (fun es => ?_)
      refine Post_bind (pushAll_spec es _) ?_
      rintro r1 ⟨h1, h2, h3⟩
      apply Post_pure
      dsimp only at h1 h2 h3
      exact ⟨by dsimp only; omega, h2, h3⟩
    · exact Post_eRt _
  · exact Post_pure ⟨rfl, rfl, rfl⟩

theorem rollUp_spec (cf : Fn) (r : Regs) (n : Nat) (h : n ≤ r.sp) :
    Post (rollUp cf r n) (fun out => out.1.sp + n = r.sp + out.2 ∧ out.1.globals = r.globals ∧ out.1.fobjs = r.fobjs) := by
  unfold rollUp
  split
  · rename_i hc
    simp only [Bool.and_eq_true, decide_eq_true_eq] at hc
    dsimp only
    refine Post_bind_true (fun a => ?_)
    refine Post_bind (setSlot_spec _ _ _) ?_
    rintro r1 ⟨h1, h2, h3⟩
    apply Post_pure
    refine ⟨?_, h2, h3⟩
    dsimp only
    omega
  · exact Post_pure ⟨rfl, rfl, rfl⟩


/-- What OpCall does to the machine, in terms of the argument count operand `a0`. -/
inductive CallPost (code : Code) (f : Fn) (ip : Int) (a0 : Nat) (c : Core) : ExecOut → Prop
  | builtin (c' : Core) :
      c'.regs.sp + a0 = c.regs.sp → c'.regs.globals = c.regs.globals → c'.regs.fobjs = c.regs.fobjs →
      c'.cur = { c.cur with ip := ip + 2 } → c'.callers = c.callers → CallPost code f ip a0 c (.next c' true)
  | tail (c' : Core) (cr : Nat) :
      c'.regs.sp + a0 + 1 = c.regs.sp → c'.regs.globals = c.regs.globals → c'.regs.fobjs = c.regs.fobjs →
      c'.cur.ip = -1 → c'.cur.fnIdx = c.cur.fnIdx → c'.cur.bp = c.cur.bp → c'.cur.free = c.cur.free →
      c'.callers = c.callers → isSelfTail f c.cur cr (ip + 2) = true → CallPost code f ip a0 c (.next c' false)
  | push (c' : Core) (cr k : Nat) (free : List Nat) (cf : Fn) (ref : Nat) :
      c.regs.fobjs[cr]? = some (k, free) → code.consts[k]? = some (.fn cf ref) →
      c'.cur.fnIdx = k + 1 → c'.cur.ip = -1 → c'.cur.bp + a0 = c.regs.sp → c'.cur.free = free →
      c'.regs.sp = c'.cur.bp + cf.numLocals →
      c'.regs.globals = c.regs.globals → c'.regs.fobjs = c.regs.fobjs →
      c'.callers = { c.cur with ip := ip + 2 } :: c.callers → CallPost code f ip a0 c (.next c' false)

theorem finishCompiled_spec (code : Code) (f : Fn) (ip : Int) (a0 : Nat) (c : Core) (r : Regs) (numArgs cr k : Nat)
    (free : List Nat) (cf : Fn) (ref : Nat)
    (hfo : c.regs.fobjs[cr]? = some (k, free)) (hk : code.consts[k]? = some (.fn cf ref))
    (hsp : r.sp + a0 = c.regs.sp + numArgs) (hn : a0 + 1 ≤ c.regs.sp)
    (hgl : r.globals = c.regs.globals) (hfob : r.fobjs = c.regs.fobjs) :
    SafeX (finishCompiled f (ip + 2) c r numArgs cr k free cf) (CallPost code f ip a0 c) := by
  unfold finishCompiled
  split
  · rename_i ht
    refine SafeX_bind (SafeX_em (copyArgs_spec _ _ _ _)) ?_
    rintro r' ⟨h1, h2, h3⟩
    apply SafeX_pure
    refine CallPost.tail _ cr ?_ ?_ ?_ rfl rfl rfl rfl rfl ht
    · dsimp only; omega
    · dsimp only; rw [h2, hgl]
    · dsimp only; rw [h3, hfob]
  · split
    · exact SafeX_rtE _
    · apply SafeX_pure
      refine CallPost.push _ cr k free cf ref hfo hk rfl rfl ?_ rfl rfl hgl hfob rfl
      dsimp only; omega

theorem execCall_spec (code : Code) (f : Fn) (ip : Int) (a0 a1 : Nat) (c : Core)
    (hn : a0 + 1 ≤ c.regs.sp) (hs : a1 = 1 → 1 ≤ a0) :
    SafeX (execCall code f ip a0 a1 c) (CallPost code f ip a0 c) := by
  unfold execCall
  dsimp only
  refine SafeX_bind (SafeX_need (by omega)) ?_; intro _ _
  split
  · -- compiled function
    rename_i cr _
    refine SafeX_bind (SafeX_em (spreadArgs_spec _ _ _ (by omega) hs)) ?_
    rintro ⟨r1, n1⟩ ⟨h1, h2, h3⟩
    dsimp only at h1 h2 h3 ⊢
    split
    · rename_i k free hfo
      split
      · rename_i cf ref hk
        refine SafeX_bind (SafeX_em (rollUp_spec cf r1 n1 (by omega))) ?_
        rintro ⟨r2, n2⟩ ⟨g1, g2, g3⟩
        dsimp only at g1 g2 g3 ⊢
        split
        · split <;> exact SafeX_rtE _
        · refine finishCompiled_spec code f ip a0 c r2 n2 cr k free cf ref ?_ hk ?_ hn ?_ ?_
          · rw [← h3]; exact hfo
          · omega
          · rw [g2, h2]
          · rw [g3, h3]
      · exact SafeX_unsupE _
    · exact SafeX_unsupE _
  · -- builtin
    refine SafeX_bind (SafeX_em (spreadArgs_spec _ _ _ (by omega) hs)) ?_
    rintro ⟨r1, n1⟩ ⟨h1, h2, h3⟩
    dsimp only at h1 h2 h3 ⊢
    apply SafeX_bind_em; intro ret
    refine SafeX_bind (SafeX_em (push_spec _ _)) ?_
    rintro r2 ⟨g1, g2, g3⟩
    dsimp only at g1 g2 g3
    apply SafeX_pure
    refine CallPost.builtin _ ?_ ?_ ?_ rfl rfl
    · dsimp only; omega
    · dsimp only; rw [g2, h2]
    · dsimp only; rw [g3, h3]
  · exact SafeX_unsupE _
  · exact SafeX_rtE _

/-- What OpReturn does. -/
theorem execReturn_spec (a0 : Nat) (c : Core) (caller : Frame) (rest : List Frame)
    (hc : c.callers = caller :: rest) (hv : a0 = 1 → 1 ≤ c.regs.sp) :
    SafeX (execReturn a0 c) (fun o => ∃ c', o = .next c' false ∧ c'.cur = caller ∧ c'.callers = rest ∧
      c'.regs.sp = c.cur.bp ∧ c'.regs.globals = c.regs.globals ∧ c'.regs.fobjs = c.regs.fobjs) := by
  unfold execReturn
  dsimp only
  have tailOk : SafeX (match c.callers with
      | [] => fault Fault.returnFromMain
      | caller :: rest => do
        let r ← em (setSlot { stack := c.regs.stack, sp := c.cur.bp, globals := c.regs.globals, fobjs := c.regs.fobjs }
                (c.cur.bp - 1)
                (if (a0 == 1 && !c.cur.discard) = true then getSlot c.regs (c.regs.sp - 1)
                else Value.undef))
        pure (ExecOut.next { regs := r, cur := caller, callers := rest } false))
      (fun o => ∃ c', o = .next c' false ∧ c'.cur = caller ∧ c'.callers = rest ∧
        c'.regs.sp = c.cur.bp ∧ c'.regs.globals = c.regs.globals ∧ c'.regs.fobjs = c.regs.fobjs) := by
    rw [hc]
    dsimp only
    refine SafeX_bind (SafeX_em (setSlot_spec _ _ _)) ?_
    rintro r' ⟨h1, h2, h3⟩
    apply SafeX_pure
    exact ⟨_, rfl, rfl, rfl, h1, h2, h3⟩
  split
  · rename_i h
    refine SafeX_bind (SafeX_need (hv (by simpa using h))) ?_; intro _ _
    exact tailOk
  · exact tailOk

end Tengo.Model.VM

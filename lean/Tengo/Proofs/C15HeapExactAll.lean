import Tengo.Proofs.C15HeapExactOps
/-!
C15 (heap model): the calls on a Script under the exact side condition; whole histories.
-/
namespace Tengo.Proofs.C15Heap
open Tengo.Model.Host hiding execC Host ScriptSt CompiledSt Abs AScript ACompiled
open Tengo.Model.HostHeap
open Tengo.Props.C15 (mapVals hasKey_mapVals setKey_mapVals upsert_mapVals eraseKey_mapVals lookup_mapVals
  keys_mapVals length_mapVals mapVals_congr lookup_mem mem_set SlotsOK VarsOK deref_append deref_new slotOf_ok
  slotsOK_const mem_of_getElem?)

theorem simG_newScript (L : Limits) (h : Host) (fz : List (Nat × TVal)) (src : List HStmt) (hw : WF h) (hi : Iso h)
    (hf : FzOK h.store.length fz) : SimG L h fz (.newScript src) := by
  obtain ⟨hw', hi', _⟩ := step_sim L h (.newScript src) hw hi rfl
  refine ⟨hw', hi', hf, ?_⟩
  simp [hstep, sstep, absOfG, dirtyStep, absScriptF, absVarsF, mapVals]

theorem simG_add (L : Limits) (h : Host) (fz : List (Nat × TVal)) (s : Nat) (n : String) (g : GoVal) (hw : WF h)
    (hi : Iso h) (hf : FzOK h.store.length fz) : SimG L h fz (.add s n g) := by
  obtain ⟨hw', hi', _⟩ := step_sim L h (.add s n g) hw hi rfl
  refine ⟨hw', hi', hf.mono (store_mono L h _ hw), ?_⟩
  cases hs : h.scripts[s]? with
  | none => simp [hstep, sstep, absOfG, dirtyStep, hs]
  | some sc =>
    cases hg : fromInterface L g with
    | error e => simp [hstep, sstep, absOfG, dirtyStep, hs, hg]
    | ok v =>
      have hsc := mem_of_getElem? hs
      simp only [hstep, hs, hg, dirtyStep]
      simp only [sstep, absOfG, List.getElem?_map, hs, Option.map_some, hg, List.map_set]
      rw [absCompileds_append h hw, absScriptsF_append h hw]
      simp [absScriptF, absVarsF_upsert fz _ _ _ _ (hw.scripts sc hsc) (hf _ (Nat.le_refl _))]

theorem simG_remove (L : Limits) (h : Host) (fz : List (Nat × TVal)) (s : Nat) (n : String) (hw : WF h)
    (hi : Iso h) (hf : FzOK h.store.length fz) : SimG L h fz (.remove s n) := by
  obtain ⟨hw', hi', _⟩ := step_sim L h (.remove s n) hw hi rfl
  refine ⟨hw', hi', hf.mono (store_mono L h _ hw), ?_⟩
  cases hs : h.scripts[s]? with
  | none => simp [hstep, sstep, absOfG, dirtyStep, hs]
  | some sc =>
    by_cases hk : hasKey n sc.vars = true
    · simp only [hstep, hs, hk, if_true, dirtyStep]
      simp only [sstep, absOfG, List.getElem?_map, hs, Option.map_some, List.map_set, absScriptF, absVarsF,
        hasKey_mapVals, hk, if_true, eraseKey_mapVals]
    · simp only [hstep, hs, hk, dirtyStep]
      simp [sstep, absOfG, List.getElem?_map, hs, absScriptF, absVarsF, hasKey_mapVals, hk]

/-- `Compile`: the Script's objects must still hold the values given to Add (none of them is dirty). -/
theorem simG_compile (L : Limits) (h : Host) (fz : List (Nat × TVal)) (s : Nat) (hw : WF h)
    (hi : Iso h) (hf : FzOK h.store.length fz) (hsafe : safeOpG h fz (.compile s) = true) :
    SimG L h fz (.compile s) := by
  obtain ⟨hw', hi', _⟩ := step_sim L h (.compile s) hw hi rfl
  refine ⟨hw', hi', hf.mono (store_mono L h _ hw), ?_⟩
  cases hs : h.scripts[s]? with
  | none => simp [hstep, sstep, absOfG, dirtyStep, hs]
  | some sc =>
    have hv : absVarsF fz h.store sc.vars = absVars h.store sc.vars := by
      simp only [safeOpG, hs, List.all_eq_true, Option.isNone_iff_eq_none] at hsafe
      apply mapVals_congr
      intro p hp
      simp [tagF, tag, derefF, hsafe p hp]
    cases hc : compileNames (sc.src.map HStmt.toStmt) (sc.vars.map (·.1)) with
    | error e =>
      simp only [hstep, hs, hc, dirtyStep]
      simp [sstep, absOfG, List.getElem?_map, hs, absScriptF, absVarsF, keys_mapVals, hc]
    | ok names =>
      simp only [hstep, hs, hc, dirtyStep]
      simp only [sstep, absOfG, List.getElem?_map, hs, Option.map_some, absScriptF, hv, absVars, keys_mapVals, hc,
        length_mapVals, List.length_map]
      simp [absCompiled, absEnv, mapVals, Function.comp_def]

theorem stepG (L : Limits) (h : Host) (fz : List (Nat × TVal)) (op : HOp) (hw : WF h) (hi : Iso h)
    (hf : FzOK h.store.length fz) (hsafe : safeOpG h fz op = true) : SimG L h fz op := by
  cases op with
  | newScript src => exact simG_newScript L h fz src hw hi hf
  | add s n g => exact simG_add L h fz s n g hw hi hf
  | remove s n => exact simG_remove L h fz s n hw hi hf
  | compile s => exact simG_compile L h fz s hw hi hf hsafe
  | set c n g => exact simG_set L h fz c n g hw hi hf
  | run c => exact simG_run L h fz c hw hi hf hsafe
  | get c n => exact simG_get L h fz c n hw hi hf
  | getAll c => exact simG_getAll L h fz c hw hi hf
  | isDefined c n => exact simG_isDefined L h fz c n hw hi hf
  | clone c => exact simG_clone L h fz c hw hi hf

theorem runOpsG (L : Limits) : ∀ (ops : List HOp) (h : Host) (fz : List (Nat × TVal)), WF h → Iso h →
    FzOK h.store.length fz → safeOpsG L h fz ops = true → hrunOps L h ops = srunOps L (absOfG h fz) ops
  | [], _, _, _, _, _, _ => rfl
  | op :: ops, h, fz, hw, hi, hf, hsafe => by
      simp only [safeOpsG, Bool.and_eq_true] at hsafe
      obtain ⟨hw', hi', hf', hs⟩ := stepG L h fz op hw hi hf hsafe.1
      simp only [hrunOps, srunOps, hs]
      rw [runOpsG L ops _ _ hw' hi' hf' hsafe.2]

/-- The old side condition implies the exact one (nothing ever becomes dirty). -/
theorem safeOps_safeOpsG (L : Limits) : ∀ (ops : List HOp) (h : Host), safeOps L h ops = true → safeOpsG L h [] ops = true
  | [], _, _ => rfl
  | op :: ops, h, hsafe => by
      simp only [safeOps, Bool.and_eq_true] at hsafe
      have hd : dirtyStep h [] op = [] := by
        cases op with
        | run c =>
          have := hsafe.1
          simp only [safeOp] at this
          simp only [dirtyStep]
          split
          · rename_i cs hc; simp only [hc] at this; simp [this]
          · rfl
        | _ => rfl
      have h1 : safeOpG h [] op = true := by
        cases op with
        | run c =>
          have := hsafe.1
          simp only [safeOp] at this
          simp only [safeOpG]
          split
          · rename_i cs hc; simp only [hc] at this; simp only [Bool.or_eq_true] at this ⊢; exact Or.inl this
          · rfl
        | compile s => simp only [safeOpG]; split <;> simp
        | _ => rfl
      simp only [safeOpsG, Bool.and_eq_true, hd]
      exact ⟨h1, safeOps_safeOpsG L ops _ hsafe.2⟩

end Tengo.Proofs.C15Heap

import Tengo.Proofs.C09Closed
/-!
C09 — the hypothesis `HdrOk` (every array header's window `[off, off+len)` lies inside its backing array) of the
equality theorems is an invariant of the machine: together with `Closed` (every header's store is allocated,
itself an invariant: `C09Closed.step_closed`) every operation keeps it, and the empty heap has it.

`Closed` is needed: over a store that is not allocated `append`/`splice` in place write nothing (`List.set` out
of range) yet hand out a longer header.
-/
namespace Tengo.Proofs.C09Inv
open Tengo.Model.Heap9 Tengo.Props.C09 Tengo.Proofs.C09Eq Tengo.Proofs.C10Heap Tengo.Proofs.C09Closed

/-! ### Monotonicity in the store lengths -/

theorem hdrOk_of_len {h h' : Heap} (L : ∀ s, (h.astore s).length ≤ (h'.astore s).length) {o : Obj}
    (ok : hdrOk h o = true) : hdrOk h' o = true := by
  cases o with
  | arr m s off len cap =>
    simp only [hdrOk, decide_eq_true_eq] at ok ⊢
    have := L s; omega
  | map _ _ => rfl
  | err _ => rfl
  | dead => rfl

theorem hdrOk_of_same {h h' : Heap} (w : HdrOk h) (o : h'.objs = h.objs)
    (L : ∀ s, (h.astore s).length ≤ (h'.astore s).length) : HdrOk h' := by
  intro x hx
  rw [o] at hx
  exact hdrOk_of_len L (w x hx)

theorem hdrOk_push {h : Heap} (w : HdrOk h) (v : Val) : HdrOk (h.push v) :=
  hdrOk_of_same w rfl (fun _ => Nat.le_refl _)

theorem hdrOk_pushAll {h : Heap} (w : HdrOk h) (vs : List Val) : HdrOk (h.pushAll vs) :=
  hdrOk_of_same w rfl (fun _ => Nat.le_refl _)

theorem hdrOk_pushNew {p : Heap × Ref} (w : HdrOk p.1) : HdrOk (pushNew p).1 := hdrOk_push w _

theorem hdrOk_setM {h : Heap} (w : HdrOk h) (s : Nat) (xs : List (String × Val)) : HdrOk (h.setM s xs) :=
  hdrOk_of_same w rfl (fun _ => Nat.le_refl _)

theorem astore_setA_self {h : Heap} {s : Nat} (hs : s < h.astores.length) (xs : List Val) :
    (h.setA s xs).astore s = xs := by
  simp [Heap.astore, Heap.setA, List.getD_eq_getElem?_getD, hs]

theorem astore_setA_len {h : Heap} (s : Nat) (xs : List Val) (hl : (h.astore s).length ≤ xs.length) (s' : Nat) :
    (h.astore s').length ≤ ((h.setA s xs).astore s').length := by
  by_cases e : s = s'
  · subst e
    by_cases hs : s < h.astores.length
    · rw [astore_setA_self hs]; exact hl
    · simp [Heap.astore, Heap.setA, List.getD_eq_getElem?_getD, hs]
  · simp [Heap.astore, Heap.setA, List.getD_eq_getElem?_getD, List.getElem?_set_ne e]

/-- Replacing a backing array by one at least as long. -/
theorem hdrOk_setA {h : Heap} (w : HdrOk h) (s : Nat) (xs : List Val) (hl : (h.astore s).length ≤ xs.length) :
    HdrOk (h.setA s xs) :=
  hdrOk_of_same w rfl (astore_setA_len s xs hl)

theorem hdrOk_allocObj {h : Heap} (w : HdrOk h) {o : Obj} (ok : hdrOk h o = true) : HdrOk (h.allocObj o).1 := by
  intro x hx
  simp only [Heap.allocObj, List.mem_append, List.mem_singleton] at hx
  rcases hx with hx | hx
  · exact hdrOk_of_len (h := h) (fun _ => Nat.le_refl _) (w x hx)
  · subst hx; exact hdrOk_of_len (h := h) (fun _ => Nat.le_refl _) ok

theorem hdrOk_setObj {h : Heap} (w : HdrOk h) (r : Nat) {o : Obj} (ok : hdrOk h o = true) : HdrOk (h.setObj r o) := by
  intro x hx
  simp only [Heap.setObj] at hx
  rcases List.mem_or_eq_of_mem_set hx with hx | hx
  · exact hdrOk_of_len (h := h) (fun _ => Nat.le_refl _) (w x hx)
  · subst hx; exact hdrOk_of_len (h := h) (fun _ => Nat.le_refl _) ok

theorem hdrOk_of_obj {h : Heap} (w : HdrOk h) {r : Nat} {o : Obj} (ho : h.obj r = o) (nd : o ≠ .dead) :
    hdrOk h o = true :=
  w o (List.mem_of_getElem? (obj_some ho nd))

/-- The window of a live array header. -/
theorem window_of_obj {h : Heap} (w : HdrOk h) {r s off len cap : Nat} {m : Bool}
    (ho : h.obj r = Obj.arr m s off len cap) : off + len ≤ (h.astore s).length := by
  have := hdrOk_of_obj w ho (by simp)
  simpa [hdrOk] using this

theorem alloc_of_obj {h : Heap} (c : Closed h) {r s off len cap : Nat} {m : Bool}
    (ho : h.obj r = Obj.arr m s off len cap) : s < h.astores.length := by
  have := storeOk_of_obj c ho (by simp)
  simpa [storeOk] using this

/-- Same window, other flags (`immutable(x)`). -/
theorem hdrOk_arr_of {h : Heap} (w : HdrOk h) {r s off len cap : Nat} {m : Bool}
    (ho : h.obj r = Obj.arr m s off len cap) (m' : Bool) (cap' : Nat) :
    hdrOk h (Obj.arr m' s off len cap') = true := by
  have := window_of_obj w ho
  simpa [hdrOk] using this

/-! ### Writes -/

theorem writeList_len (st : List Val) (i : Nat) (vs : List Val) (hi : i ≤ st.length) :
    st.length ≤ (writeList st i vs).length ∧ i + vs.length ≤ (writeList st i vs).length := by
  simp only [writeList, List.length_append, List.length_take, List.length_drop]
  omega

theorem arrSet_hdrOk {h : Heap} (w : HdrOk h) (s off len : Nat) (n : Int) (v : Val) :
    HdrOk (arrSet h s off len n v).1 := by
  unfold arrSet; split
  · exact w
  · exact hdrOk_setA w _ _ (by simp)

theorem indexSet_hdrOk {h : Heap} (w : HdrOk h) (dst idx v : Val) : HdrOk (indexSet h dst idx v).1 := by
  unfold indexSet
  repeat' split
  all_goals first
    | exact w
    | exact arrSet_hdrOk w _ _ _ _ _
    | exact hdrOk_setM w _ _

theorem indexAssign_hdrOk {h : Heap} (w : HdrOk h) (dst : Val) (sels : List Val) (src : Val) :
    HdrOk (indexAssign h dst sels src).1 := by
  induction sels generalizing dst with
  | nil => exact w
  | cons i rest ih =>
    cases rest with
    | nil => exact indexSet_hdrOk w _ _ _
    | cons j rest' =>
      unfold indexAssign
      split
      · exact ih _
      · exact w
      · exact w

/-- `append` within the capacity: the spare cells of the shared backing array are written and a longer
header handed out. -/
theorem append_inplace_hdrOk {h : Heap} (c : Closed h) (w : HdrOk h) {r s off len cap : Nat}
    (ho : h.obj r = Obj.arr true s off len cap) (vs : List Val) (len' cap' : Nat) (hl : len' = len + vs.length) :
    HdrOk ((h.setA s (writeList (h.astore s) (off + len) vs)).allocObj (Obj.arr true s off len' cap')).1 := by
  have hw := window_of_obj w ho
  have ha := alloc_of_obj c ho
  have L := writeList_len (h.astore s) (off + len) vs hw
  refine hdrOk_allocObj (hdrOk_setA w _ _ L.1) ?_
  simp only [hdrOk, decide_eq_true_eq]
  rw [astore_setA_self ha]
  omega

theorem stepAppend_hdrOk {h : Heap} (c : Closed h) (w : HdrOk h) (x : Nat) (items : List Nat) (nc : Nat) :
    HdrOk (stepAppend h x items nc).1 := by
  unfold stepAppend
  repeat' split
  all_goals first
    | exact w
    | exact hdrOk_pushNew (hdrOk_newArr w _ _ _)
    | exact hdrOk_pushNew (append_inplace_hdrOk c w (by assumption) _ _ _ rfl)

theorem clampIdx_le (i : Int) (n : Nat) : clampIdx i n ≤ n := by
  unfold clampIdx
  split
  · omega
  · split <;> omega

/-- Slicing a mutable array narrows the window. -/
theorem hdrOk_slice {h : Heap} (w : HdrOk h) {r s off len cap : Nat} {m : Bool}
    (ho : h.obj r = Obj.arr m s off len cap) (m' : Bool) (lo hi : Int) (cap' : Nat) :
    hdrOk h (Obj.arr m' s (off + clampIdx lo len) (clampIdx hi len - clampIdx lo len) cap') = true := by
  have hw := window_of_obj w ho
  have h1 := clampIdx_le lo len
  have h2 := clampIdx_le hi len
  simp only [hdrOk, decide_eq_true_eq]
  omega

theorem stepSlice_hdrOk {h : Heap} (w : HdrOk h) (x lo hi nc : Nat) : HdrOk (stepSlice h x lo hi nc).1 := by
  unfold stepSlice
  repeat' split
  all_goals try subst_vars
  all_goals first
    | exact w
    | exact hdrOk_pushNew (hdrOk_newArr w _ _ _)
    | exact hdrOk_pushNew (hdrOk_allocObj w (hdrOk_slice w (by assumption) _ _ _ _))

theorem stepAdd_hdrOk {h : Heap} (w : HdrOk h) (x y : Nat) : HdrOk (stepAdd h x y).1 := by
  unfold stepAdd
  repeat' split
  all_goals first
    | exact w
    | exact hdrOk_push w _
    | exact hdrOk_pushNew (hdrOk_newArr w _ _ _)

theorem stepDelete_hdrOk {h : Heap} (w : HdrOk h) (x k : Nat) : HdrOk (stepDelete h x k).1 := by
  unfold stepDelete
  repeat' split
  all_goals first
    | exact w
    | exact hdrOk_setM w _ _

theorem stepIter_hdrOk {h : Heap} (w : HdrOk h) (x : Nat) : HdrOk (stepIter h x).1 := by
  unfold stepIter
  repeat' split
  all_goals first
    | exact w
    | exact hdrOk_pushAll w _

/-- `splice` out of capacity: a fresh backing array is appended and the header `r` rewritten over it. -/
theorem hdrOk_realloc {h : Heap} (w : HdrOk h) (r : Ref) (xs : List Val) (l cp : Nat) (hl : l ≤ xs.length) :
    HdrOk { h with astores := h.astores ++ [xs], objs := h.objs.set r (Obj.arr true h.astores.length 0 l cp) } := by
  have L : ∀ s, (h.astore s).length ≤
      (Heap.astore { h with astores := h.astores ++ [xs],
                            objs := h.objs.set r (Obj.arr true h.astores.length 0 l cp) } s).length := by
    intro s
    simp only [Heap.astore, List.getD_eq_getElem?_getD]
    by_cases hs : s < h.astores.length
    · rw [List.getElem?_append_left hs]; exact Nat.le_refl _
    · rw [List.getElem?_eq_none (Nat.le_of_not_lt hs)]; simp
  intro x hx
  simp only at hx
  rcases List.mem_or_eq_of_mem_set hx with hx | hx
  · exact hdrOk_of_len L (w x hx)
  · subst hx
    simp only [hdrOk, decide_eq_true_eq, Heap.astore, List.getD_eq_getElem?_getD]
    simp
    exact hl

theorem content_len {h : Heap} {s off len : Nat} (hw : off + len ≤ (h.astore s).length) :
    (h.content s off len).length = len := by
  simp only [Heap.content, List.length_take, List.length_drop]
  omega

theorem spliceWrite_hdrOk {h : Heap} (c : Closed h) (w : HdrOk h) {r s off len cap : Nat}
    (ho : h.obj r = Obj.arr true s off len cap) (st : Nat) (items : List Val) (nc : Nat) (hst : st ≤ len) :
    HdrOk (spliceWrite h r s off len cap st items nc) := by
  have hw := window_of_obj w ho
  have ha := alloc_of_obj c ho
  unfold spliceWrite
  simp only
  split
  · have L := writeList_len (h.astore s) (off + st) items (by omega)
    refine hdrOk_setObj (hdrOk_setA w _ _ L.1) r ?_
    simp only [hdrOk, decide_eq_true_eq]
    rw [astore_setA_self ha]
    omega
  · refine hdrOk_realloc w r _ _ _ ?_
    have := content_len hw
    simp only [List.length_append, List.length_take, List.length_replicate, this]
    omega

theorem stepSplice_hdrOk {h : Heap} (c : Closed h) (w : HdrOk h) (x : Nat) (args : List Nat) (nc dc : Nat) :
    HdrOk (stepSplice h x args nc dc).1 := by
  unfold stepSplice
  repeat' split
  all_goals first
    | exact w
    | exact hdrOk_pushNew (hdrOk_newArr (spliceWrite_hdrOk c w (by assumption) _ _ _ (by omega)) _ _ _)

theorem hdrOk_consume {h : Heap} (w : HdrOk h) (r : Ref) (x : Nat) :
    HdrOk { h.setObj r Obj.dead with regs := h.regs.set x Val.undef } :=
  hdrOk_of_same (hdrOk_setObj w r (o := .dead) rfl) rfl (fun _ => Nat.le_refl _)

theorem hdrOk_consume_obj {h : Heap} {o : Obj} (ok : hdrOk h o = true) (r : Ref) (x : Nat) :
    hdrOk { h.setObj r Obj.dead with regs := h.regs.set x Val.undef } o = true :=
  hdrOk_of_len (h := h) (fun _ => Nat.le_refl _) ok

theorem stepImmutable_hdrOk {h : Heap} (w : HdrOk h) (cs : Bool) (x : Nat) : HdrOk (stepImmutable h cs x).1 := by
  unfold stepImmutable
  repeat' split
  all_goals first
    | exact w
    | exact hdrOk_push w _
    | exact hdrOk_pushNew (hdrOk_allocObj w (hdrOk_arr_of w (by assumption) _ _))
    | exact hdrOk_pushNew (hdrOk_allocObj w (o := Obj.map false _) rfl)
    | exact hdrOk_pushNew (hdrOk_allocObj (hdrOk_consume w _ _)
        (hdrOk_consume_obj (hdrOk_arr_of w (by assumption) _ _) _ _))
    | exact hdrOk_pushNew (hdrOk_allocObj (hdrOk_consume w _ _) (o := Obj.map false _) rfl)

/-! ### `freeze` -/

theorem freezeN_hdrOk : ∀ (n : Nat) (h : Heap) (memo : Memo) (v : Val) (h' : Heap) (memo' : Memo) (v' : Val),
    freezeN n h memo v = some (h', memo', v') → HdrOk h → HdrOk h' := by
  intro n
  induction n with
  | zero => intro h memo v h' memo' v' e; simp [freezeN] at e
  | succ n ih =>
    intro h memo v h' memo' v' e c
    unfold freezeN at e
    repeat' split at e
    all_goals first
      | (cases e; done)
      | (injection e with e; injection e with e1 e2; rw [← e1]; first
          | exact c
          | exact foldVals_pres _ ih _ _ _ _ _ _ (by assumption) c
          | exact hdrOk_newArr (foldVals_pres _ ih _ _ _ _ _ _ (by assumption) c) _ _ _
          | exact hdrOk_newMap (foldVals_pres _ ih _ _ _ _ _ _ (by assumption) c) _ _)

/-! ### The invariant -/

/-- Every operation keeps the slice headers inside their backing arrays. -/
theorem step_hdrOk {h : Heap} (c : Closed h) (w : HdrOk h) (op : Op) : HdrOk (step h op).1 := by
  cases op with
  | lit l => exact hdrOk_push w _
  | mkArr elems cap =>
    simp only [step]; split
    · exact hdrOk_pushNew (hdrOk_newArr w _ _ _)
    · exact w
  | mkMap kvs =>
    simp only [step]; split
    · exact hdrOk_pushNew (hdrOk_newMap w _ _)
    · exact w
  | mkErr x =>
    simp only [step]; split
    · exact hdrOk_pushNew (hdrOk_allocErr w _)
    · exact w
  | immutable cs x => exact stepImmutable_hdrOk w _ _
  | idxGet x i =>
    simp only [step]
    repeat' split
    all_goals first | exact w | exact hdrOk_push w _
  | setSel x sels v =>
    simp only [step]; split
    · exact indexAssign_hdrOk w _ _ _
    · exact w
  | append x items nc => exact stepAppend_hdrOk c w _ _ _
  | splice x args nc dc => exact stepSplice_hdrOk c w _ _ _ _
  | delete x k => exact stepDelete_hdrOk w _ _
  | slice x lo hi nc => exact stepSlice_hdrOk w _ _ _ _
  | add x y => exact stepAdd_hdrOk w _ _
  | copy x caps =>
    simp only [step]
    repeat' split
    all_goals first
      | exact w
      | exact hdrOk_push (copyN_hdrOk _ _ _ _ _ _ _ (by assumption) w) _
  | freeze x =>
    simp only [step]
    repeat' split
    all_goals first
      | exact w
      | exact hdrOk_push (freezeN_hdrOk _ _ _ _ _ _ _ (by assumption) w) _
  | iter x => exact stepIter_hdrOk w _
  | eq x y =>
    simp only [step]
    repeat' split
    all_goals exact w

/-- Non-vacuity of `step_hdrOk`: a heap with a shared backing array (`b := append(a, 1)` within the capacity)
meets both hypotheses, and the next in-place `append` really writes through a longer header. -/
example :
    let h := run {} [.lit (.int 1), .mkArr [0] 4, .append 1 [0] 0]
    Closed h ∧ HdrOk h ∧ (step h (.append 2 [0, 0] 0)).1.objs.getLast? = some (Obj.arr true 0 0 4 4) := by
  decide

/-- `Closed` cannot be dropped from `step_hdrOk`: over a store that is not allocated the in-place `append`
writes nothing and hands out a header longer than the (empty) store. -/
example :
    let h : Heap := { objs := [Obj.arr true 0 0 0 3], regs := [.ref 0, .int 1] }
    HdrOk h ∧ ¬ Closed h ∧ ¬ HdrOk (step h (.append 0 [1] 0)).1 := by
  decide

theorem run_hdrOk (ops : List Op) : ∀ {h : Heap}, Closed h → HdrOk h → HdrOk (run h ops) := by
  induction ops with
  | nil => intro h _ w; exact w
  | cons op ops ih => intro h c w; exact ih (step_closed c op) (step_hdrOk c w op)

theorem hdrOk_empty : HdrOk {} := by intro o ho; cases ho

/-- Every heap the operations can build from the empty heap has well-formed slice headers. -/
theorem hdrOk_of_ops (ops : List Op) : HdrOk (run {} ops) := run_hdrOk ops closed_empty hdrOk_empty

end Tengo.Proofs.C09Inv

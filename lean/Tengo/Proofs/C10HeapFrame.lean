import Tengo.Proofs.C10HeapReach
/-!
C10 over the heap model — frame: element writes (`IndexSet` through any selector path) started at a value `a`
leave everything reachable from a value `b` unchanged when `a` and `b` reach disjoint sets of cells, and keep
them disjoint.
-/
namespace Tengo.Proofs.C10Heap
open Tengo.Model.Heap9 Tengo.Model.HeapCopy Tengo.Props.C09

/-! ### What is kept for a value -/

/-- Every cell reachable from `b` has the same contents in `h2` as in `h` (and no header was rewritten). -/
structure Kept (h h2 : Heap) (b : Val) : Prop where
  objs : h2.objs = h.objs
  arr : ∀ s, Reach h b (.arr s) → h2.astore s = h.astore s
  map : ∀ s, Reach h b (.map s) → h2.mstore s = h.mstore s

theorem obj_congr {h h2 : Heap} (e : h2.objs = h.objs) (r : Nat) : h2.obj r = h.obj r := by
  unfold Heap.obj; rw [e]

theorem Kept.refl (h : Heap) (b : Val) : Kept h h b := ⟨rfl, fun _ _ => rfl, fun _ _ => rfl⟩

/-- Restriction to a sub-value. -/
theorem Kept.sub {h h2 : Heap} {b x : Val} (k : Kept h h2 b) (hs : ∀ c, Reach h x c → Reach h b c) : Kept h h2 x :=
  ⟨k.objs, fun s r => k.arr s (hs _ r), fun s r => k.map s (hs _ r)⟩

theorem Kept.reach_to {h h2 : Heap} {b : Val} {c : Cell} (rc : Reach h b c) : Kept h h2 b → Reach h2 b c := by
  induction rc with
  | obj hl => intro k; exact .obj (by rw [k.objs]; exact hl)
  | arrStore ho => intro k; exact .arrStore (by rw [obj_congr k.objs]; exact ho)
  | arrElem ho hx hr ih =>
    intro k
    refine .arrElem (by rw [obj_congr k.objs]; exact ho) ?_ (ih (k.sub (fun c r => .arrElem ho hx r)))
    unfold Heap.content; rw [k.arr _ (.arrStore ho)]; exact hx
  | mapStore ho => intro k; exact .mapStore (by rw [obj_congr k.objs]; exact ho)
  | mapElem ho hx hr ih =>
    intro k
    refine .mapElem (by rw [obj_congr k.objs]; exact ho) ?_ (ih (k.sub (fun c r => .mapElem ho hx r)))
    rw [k.map _ (.mapStore ho)]; exact hx
  | errPayload ho hr ih =>
    intro k
    exact .errPayload (by rw [obj_congr k.objs]; exact ho) (ih (k.sub (fun c r => .errPayload ho r)))

theorem Kept.reach_from {h h2 : Heap} {b : Val} {c : Cell} (rc : Reach h2 b c) : Kept h h2 b → Reach h b c := by
  induction rc with
  | obj hl => intro k; exact .obj (by rw [← k.objs]; exact hl)
  | arrStore ho => intro k; exact .arrStore (by rw [← obj_congr k.objs]; exact ho)
  | arrElem ho hx hr ih =>
    intro k
    have ho' := ho; rw [obj_congr k.objs] at ho'
    have hx' := hx; unfold Heap.content at hx'; rw [k.arr _ (.arrStore ho')] at hx'
    exact .arrElem ho' hx' (ih (k.sub (fun c r => .arrElem ho' hx' r)))
  | mapStore ho => intro k; exact .mapStore (by rw [← obj_congr k.objs]; exact ho)
  | mapElem ho hx hr ih =>
    intro k
    have ho' := ho; rw [obj_congr k.objs] at ho'
    have hx' := hx; rw [k.map _ (.mapStore ho')] at hx'
    exact .mapElem ho' hx' (ih (k.sub (fun c r => .mapElem ho' hx' r)))
  | errPayload ho hr ih =>
    intro k
    have ho' := ho; rw [obj_congr k.objs] at ho'
    exact .errPayload ho' (ih (k.sub (fun c r => .errPayload ho' r)))

/-- The set of cells reachable from a kept value is the same. -/
theorem Kept.reach_iff {h h2 : Heap} {b : Val} (k : Kept h h2 b) (c : Cell) : Reach h2 b c ↔ Reach h b c :=
  ⟨fun r => Kept.reach_from r k, fun r => Kept.reach_to r k⟩

theorem Kept.trans {h1 h2 h3 : Heap} {b : Val} (x : Kept h1 h2 b) (y : Kept h2 h3 b) : Kept h1 h3 b :=
  ⟨y.objs.trans x.objs,
   fun s r => (y.arr s ((x.reach_iff _).mpr r)).trans (x.arr s r),
   fun s r => (y.map s ((x.reach_iff _).mpr r)).trans (x.map s r)⟩

/-- The deep snapshot (what `lib.Canon` prints) of a kept value is the same, at every depth. -/
theorem Kept.snap {h h2 : Heap} : ∀ (n : Nat) (b : Val), Kept h h2 b → snapN n h2 b = snapN n h b := by
  intro n
  induction n with
  | zero => intro b _; rfl
  | succ n ih =>
    intro b k
    cases b with
    | undef => rfl
    | int i => rfl
    | str s => rfl
    | opq s => rfl
    | ref r =>
      simp only [snapN, obj_congr k.objs]
      cases ho : h.obj r with
      | arr m s off len cap =>
        simp only
        have hc : h2.content s off len = h.content s off len := by
          unfold Heap.content; rw [k.arr _ (.arrStore ho)]
        rw [hc]
        congr 2
        apply congrArg String.join
        apply List.map_congr_left
        intro x hx
        rw [ih x (k.sub (fun c r => .arrElem ho hx r))]
      | map m s =>
        simp only
        rw [k.map _ (.mapStore ho)]
        congr 2
        apply congrArg String.join
        apply List.map_congr_left
        intro kv hkv
        rw [ih kv.2 (k.sub (fun c r => .mapElem ho (List.mem_map_of_mem hkv) r))]
      | err p =>
        simp only
        rw [ih p (k.sub (fun c r => .errPayload ho r))]
      | dead => rfl

/-! ### Footprint of an element write -/

/-- `h2` is `h` after element writes of `src` into stores of the cell set `T`: headers untouched, every other
store untouched, and a written store holds what it held plus `src`. -/
structure Upd (h h2 : Heap) (src : Val) (T : Cell → Prop) : Prop where
  objs : h2.objs = h.objs
  arr : ∀ s, ¬ T (.arr s) → h2.astore s = h.astore s
  map : ∀ s, ¬ T (.map s) → h2.mstore s = h.mstore s
  arrIn : ∀ (s off len : Nat) (x : Val), x ∈ h2.content s off len → x ∈ h.content s off len ∨ x = src
  mapIn : ∀ (s : Nat) (x : Val), x ∈ (h2.mstore s).map Prod.snd → x ∈ (h.mstore s).map Prod.snd ∨ x = src

theorem Upd.refl (h : Heap) (src : Val) (T : Cell → Prop) : Upd h h src T :=
  ⟨rfl, fun _ _ => rfl, fun _ _ => rfl, fun _ _ _ _ hx => .inl hx, fun _ _ hx => .inl hx⟩

theorem Upd.mono {h h2 : Heap} {src : Val} {T T' : Cell → Prop} (u : Upd h h2 src T) (sub : ∀ c, T c → T' c) :
    Upd h h2 src T' :=
  ⟨u.objs, fun s n => u.arr s (fun t => n (sub _ t)), fun s n => u.map s (fun t => n (sub _ t)), u.arrIn, u.mapIn⟩

theorem mem_window_set {st : List Val} {i off len : Nat} {v x : Val}
    (hx : x ∈ ((st.set i v).drop off).take len) : x ∈ (st.drop off).take len ∨ x = v := by
  obtain ⟨j, hj⟩ := List.getElem?_of_mem hx
  rw [List.getElem?_take] at hj
  split at hj
  · rename_i hlt
    rw [List.getElem?_drop] at hj
    rcases getElem?_set_cases _ _ _ _ _ hj with e | ⟨_, e, _⟩
    · left
      apply List.mem_of_getElem? (i := j)
      rw [List.getElem?_take, if_pos hlt, List.getElem?_drop]; exact e
    · exact .inr e
  · cases hj

theorem astore_setA_ne {h : Heap} {s t : Nat} (xs : List Val) (ne : t ≠ s) : (h.setA s xs).astore t = h.astore t := by
  unfold Heap.setA Heap.astore
  simp only [List.getD_eq_getElem?_getD]
  rw [List.getElem?_set_ne (Ne.symm ne)]

theorem upd_setA {h : Heap} {s i : Nat} {v : Val} {T : Cell → Prop} (ht : T (.arr s)) :
    Upd h (h.setA s ((h.astore s).set i v)) v T := by
  refine ⟨rfl, ?_, fun _ _ => rfl, ?_, fun _ _ hx => .inl hx⟩
  · intro t nt
    exact astore_setA_ne _ (fun e => nt (e ▸ ht))
  · intro t off len x hx
    by_cases e : t = s
    · subst e
      by_cases hl : t < h.astores.length
      · have : (h.setA t ((h.astore t).set i v)).astore t = (h.astore t).set i v := by
          unfold Heap.setA Heap.astore
          simp only [List.getD_eq_getElem?_getD]
          rw [List.getElem?_set_self hl]; rfl
        unfold Heap.content at hx ⊢
        rw [this] at hx
        exact mem_window_set hx
      · have : (h.setA t ((h.astore t).set i v)) = h := by
          unfold Heap.setA
          rw [List.set_eq_of_length_le (by omega)]
        rw [this] at hx; exact .inl hx
    · unfold Heap.content at hx ⊢
      rw [astore_setA_ne _ e] at hx; exact .inl hx

theorem mem_minsert {k : String} {v x : Val} : ∀ (m : List (String × Val)),
    x ∈ (minsert k v m).map Prod.snd → x ∈ m.map Prod.snd ∨ x = v
  | [], hx => by simp [minsert] at hx; exact .inr hx
  | (k', v') :: rest, hx => by
    unfold minsert at hx
    split at hx
    · simp at hx
      rcases hx with rfl | rfl | ⟨a, hx⟩
      · exact .inr rfl
      · exact .inl (by simp)
      · exact .inl (by simp; exact .inr ⟨a, hx⟩)
    · split at hx
      · simp at hx
        rcases hx with rfl | ⟨a, hx⟩
        · exact .inr rfl
        · exact .inl (by simp; exact .inr ⟨a, hx⟩)
      · simp only [List.map_cons, List.mem_cons] at hx
        rcases hx with rfl | hx
        · exact .inl (by simp)
        · rcases mem_minsert rest hx with h1 | h1
          · exact .inl (by simp only [List.map_cons, List.mem_cons]; exact .inr h1)
          · exact .inr h1

theorem mstore_setM_ne {h : Heap} {s t : Nat} (xs : List (String × Val)) (ne : t ≠ s) : (h.setM s xs).mstore t = h.mstore t := by
  unfold Heap.setM Heap.mstore
  simp only [List.getD_eq_getElem?_getD]
  rw [List.getElem?_set_ne (Ne.symm ne)]

theorem upd_setM {h : Heap} {s : Nat} {k : String} {v : Val} {T : Cell → Prop} (ht : T (.map s)) :
    Upd h (h.setM s (minsert k v (h.mstore s))) v T := by
  refine ⟨rfl, fun _ _ => rfl, ?_, fun _ _ _ _ hx => .inl hx, ?_⟩
  · intro t nt
    exact mstore_setM_ne _ (fun e => nt (e ▸ ht))
  · intro t x hx
    by_cases e : t = s
    · subst e
      by_cases hl : t < h.mstores.length
      · have : (h.setM t (minsert k v (h.mstore t))).mstore t = minsert k v (h.mstore t) := by
          unfold Heap.setM Heap.mstore
          simp only [List.getD_eq_getElem?_getD]
          rw [List.getElem?_set_self hl]; rfl
        rw [this] at hx
        exact mem_minsert _ hx
      · have : (h.setM t (minsert k v (h.mstore t))) = h := by
          unfold Heap.setM
          rw [List.set_eq_of_length_le (by omega)]
        rw [this] at hx; exact .inl hx
    · rw [mstore_setM_ne _ e] at hx; exact .inl hx

theorem arrSet_upd {h : Heap} {s : Nat} {T : Cell → Prop} (ht : T (.arr s)) (off len : Nat) (n : Int) (v : Val) :
    Upd h (arrSet h s off len n v).1 v T := by
  unfold arrSet
  split
  · exact Upd.refl _ _ _
  · exact upd_setA ht

/-- `dst.IndexSet(idx, v)` writes at most the one store of `dst`. -/
theorem indexSet_upd (h : Heap) (dst idx v : Val) : Upd h (indexSet h dst idx v).1 v (Reach h dst) := by
  unfold indexSet
  repeat' split
  all_goals first
    | exact Upd.refl _ _ _
    | exact arrSet_upd (.arrStore (by assumption)) _ _ _ _
    | exact upd_setM (.mapStore (by assumption))

theorem mlookup_mem {k : String} {x : Val} : ∀ (m : List (String × Val)), mlookup k m = some x → x ∈ m.map Prod.snd
  | [], e => by simp [mlookup] at e
  | (k', v') :: rest, e => by
    unfold mlookup at e
    split at e
    · injection e with e; subst e; simp
    · simp only [List.map_cons, List.mem_cons]; exact .inr (mlookup_mem rest e)

theorem reach_scalar {h : Heap} {v : Val} {c : Cell} (hv : ∀ r, v ≠ .ref r) (rc : Reach h v c) : False := by
  cases rc <;> exact hv _ rfl

/-- What an element read hands out reaches nothing its container did not reach. -/
theorem indexGet_reach {h : Heap} {a i next : Val} (e : indexGet h a i = .val next) {c : Cell}
    (rc : Reach h next c) : Reach h a c := by
  unfold indexGet at e
  split at e
  · injection e with e; subst e; exact (reach_scalar (by intro r; simp) rc).elim
  · cases e
  · cases e
  · split at e <;> cases e
  · rename_i r
    split at e
    · rename_i m s off len cap ho
      split at e
      · split at e
        · injection e with e; subst e; exact (reach_scalar (by intro r; simp) rc).elim
        · injection e with e
          rename_i n _
          cases hn : (h.content s off len)[n.toNat]? with
          | none => rw [hn] at e; simp at e; subst e; exact (reach_scalar (by intro r; simp) rc).elim
          | some y =>
            rw [hn] at e; simp at e; subst e
            exact .arrElem ho (List.mem_of_getElem? hn) rc
      · cases e
      · cases e
    · rename_i m s ho
      split at e
      · injection e with e
        rename_i k _
        cases hn : mlookup k (h.mstore s) with
        | none => rw [hn] at e; simp at e; subst e; exact (reach_scalar (by intro r; simp) rc).elim
        | some y =>
          rw [hn] at e; simp at e; subst e
          exact .mapElem ho (mlookup_mem _ hn) rc
      · cases e
      · cases e
    · rename_i p ho
      split at e
      · split at e
        · injection e with e; subst e; exact .errPayload ho rc
        · cases e
      · cases e
      · cases e
    · cases e

/-- A selector assignment `a.sels… = src` writes at most one store reachable from `a`. -/
theorem indexAssign_upd (h : Heap) (a : Val) (sels : List Val) (src : Val) :
    Upd h (indexAssign h a sels src).1 src (Reach h a) := by
  induction sels generalizing a with
  | nil => exact Upd.refl _ _ _
  | cons i rest ih =>
    cases rest with
    | nil => exact indexSet_upd _ _ _ _
    | cons j rest' =>
      unfold indexAssign
      split
      · rename_i next e
        exact (ih next).mono (fun c rc => indexGet_reach e rc)
      · exact Upd.refl _ _ _
      · exact Upd.refl _ _ _

/-! ### Disjoint values -/

/-- `a` and `b` share no cell. -/
def Sep (h : Heap) (a b : Val) : Prop := ∀ c, Reach h a c → ¬ Reach h b c

theorem Sep.symm {h : Heap} {a b : Val} (s : Sep h a b) : Sep h b a := fun c rb ra => s c ra rb

/-- Writes into cells no cell of `b` keep `b`. -/
theorem Upd.kept {h h2 : Heap} {src : Val} {T : Cell → Prop} {b : Val} (u : Upd h h2 src T)
    (d : ∀ c, Reach h b c → ¬ T c) : Kept h h2 b :=
  ⟨u.objs, fun s r => u.arr s (d _ r), fun s r => u.map s (d _ r)⟩

/-- After the writes a value reaches only what it, or the written value, reached before. -/
theorem Upd.reach_sub {h h2 : Heap} {src : Val} {T : Cell → Prop} (u : Upd h h2 src T) {U : Cell → Prop}
    (hsrc : ∀ c, Reach h src c → U c) {x : Val} {c : Cell} (rc : Reach h2 x c) :
    (∀ c', Reach h x c' → U c') → U c := by
  induction rc with
  | obj hl => intro hu; exact hu _ (.obj (by rw [← u.objs]; exact hl))
  | arrStore ho => intro hu; exact hu _ (.arrStore (by rw [← obj_congr u.objs]; exact ho))
  | arrElem ho hx _ ih =>
    intro hu
    have ho' := ho; rw [obj_congr u.objs] at ho'
    rcases u.arrIn _ _ _ _ hx with hx' | rfl
    · exact ih (fun c' r => hu _ (.arrElem ho' hx' r))
    · exact ih hsrc
  | mapStore ho => intro hu; exact hu _ (.mapStore (by rw [← obj_congr u.objs]; exact ho))
  | mapElem ho hx _ ih =>
    intro hu
    have ho' := ho; rw [obj_congr u.objs] at ho'
    rcases u.mapIn _ _ hx with hx' | rfl
    · exact ih (fun c' r => hu _ (.mapElem ho' hx' r))
    · exact ih hsrc
  | errPayload ho _ ih =>
    intro hu
    have ho' := ho; rw [obj_congr u.objs] at ho'
    exact ih (fun c' r => hu _ (.errPayload ho' r))

/-- One selector assignment started at `a`, storing a value that shares nothing with `b`: `b` is kept and
stays disjoint from `a`. -/
theorem indexAssign_frame {h : Heap} {a b : Val} (s : Sep h a b) (sels : List Val) {src : Val} (hs : Sep h src b) :
    Kept h (indexAssign h a sels src).1 b ∧ Sep (indexAssign h a sels src).1 a b := by
  have u := indexAssign_upd h a sels src
  have k : Kept h (indexAssign h a sels src).1 b := u.kept (fun c rb ra => s c ra rb)
  refine ⟨k, ?_⟩
  intro c ra rb
  have rb' := (k.reach_iff c).mp rb
  have : Reach h a c ∨ Reach h src c :=
    u.reach_sub (U := fun c => Reach h a c ∨ Reach h src c) (fun c r => .inr r) ra (fun c r => .inl r)
  rcases this with r | r
  · exact s c r rb'
  · exact hs c r rb'

/-! ### Sequences of writes through one value -/

/-- A write: selector path (outermost first, as in `a[i][j]… = src`) and the value stored. -/
abbrev Write := List Val × Val

/-- Perform the selector assignments one after the other, all started at `a` (failing ones change nothing). -/
def writes (h : Heap) (a : Val) : List Write → Heap
  | [] => h
  | w :: ws => writes (indexAssign h a w.1 w.2).1 a ws

/-- Every stored value shares nothing with `b` at the moment it is stored (scalars, freshly built values, parts
of `a` itself, …). Without this the sequence could first store `b` inside `a` and then write `b` through `a`. -/
def WritesOk (b : Val) : Heap → Val → List Write → Prop
  | _, _, [] => True
  | h, a, w :: ws => Sep h w.2 b ∧ WritesOk b (indexAssign h a w.1 w.2).1 a ws

theorem writes_frame {a b : Val} : ∀ (ws : List Write) (h : Heap), Sep h a b → WritesOk b h a ws →
    Kept h (writes h a ws) b ∧ Sep (writes h a ws) a b := by
  intro ws
  induction ws with
  | nil => intro h s _; exact ⟨Kept.refl _ _, s⟩
  | cons w ws ih =>
    intro h s ok
    obtain ⟨k1, s1⟩ := indexAssign_frame s w.1 ok.1
    obtain ⟨k2, s2⟩ := ih _ s1 ok.2
    exact ⟨k1.trans k2, s2⟩

theorem sep_scalar {h : Heap} {v b : Val} (hv : ∀ r, v ≠ .ref r) : Sep h v b :=
  fun _ r _ => reach_scalar hv r

def isScalar : Val → Bool
  | .ref _ => false
  | _ => true

theorem isScalar_ne {v : Val} (e : isScalar v = true) : ∀ r, v ≠ .ref r := by
  intro r er; subst er; simp [isScalar] at e

/-- Scalar stores are always fine. -/
theorem writesOk_scalars {b : Val} : ∀ (ws : List Write) (h : Heap) (a : Val),
    ws.all (fun w => isScalar w.2) = true → WritesOk b h a ws
  | [], _, _, _ => trivial
  | w :: ws, _, a, hw => by
    simp only [List.all_cons, Bool.and_eq_true] at hw
    exact ⟨sep_scalar (isScalar_ne hw.1), writesOk_scalars ws _ a hw.2⟩

end Tengo.Proofs.C10Heap

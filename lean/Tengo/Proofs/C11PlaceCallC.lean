import Tengo.Proofs.C11PlaceCallB
/-!
C11, PLACEMENT global ↦ local with CALLS inside the moved statements, layer C: the two programs.

* `progGC fns pre body`: the function constants `fns`, main = `pre; body` (variables `x_0 … x_{n-1}` GLOBAL).
* `progLC fns pre n L body`: the same constants plus `L ↦ fnDefC n body`, main = `pre; f = <L>; f()` (variables
  LOCAL in the function `f = func() { x_i := r_i …; body; r_i = x_i … }`, `f` in global slot `n`).
* `placementC_forward` / `placementC_progress` / `placementC_backward`: as `placement_forward` / `_progress` /
  `_backward`, under `hnb` (the global placement is never `bad`); the answer of the local placement is the answer
  of the global one with `E.cs L` in slot `n` (`tPC`).
-/
set_option linter.unusedVariables false
set_option linter.unusedSimpArgs false
namespace Tengo.Proofs.C11Place
open Tengo.Model Tengo.Model.F3
open Tengo.Model.F0 (Sem upd)
variable {V : Type}

def fnBodyC (n : Nat) (body : Stms) : Stms := app (proFrom 0 n) (app (renCSs body) (epiFrom 0 n))

def fnDefC (n : Nat) (body : Stms) : FnDef := { nparams := 0, nlocals := n, body := fnBodyC n body }

/-- `f = <L>; f()` -/
def tailL (n L : Nat) : Stms := .cons (.assign n (.lit L)) (.cons (.expr (.call (.glob n) .nil)) .nil)

/-- The variables are globals: main is `pre; body`. -/
def progGC (fns : Nat → Option FnDef) (pre body : Stms) : Prog := { fns := fns, main := app pre body }

/-- The variables are locals of a function stored in global slot `n` and called at once, after `pre`. -/
def progLC (fns : Nat → Option FnDef) (pre : Stms) (n L : Nat) (body : Stms) : Prog :=
  { fns := fun k => if k = L then some (fnDefC n body) else fns k, main := app pre (tailL n L) }

/-- The answer of the local placement, from the answer of the global one: slot `n` holds the function. -/
def tPC (n : Nat) (c : V) : PRes V → PRes V
  | .done g' => .done (upd g' n c)
  | .err => .err
  | .out => .out
  | .bad => .bad

/-- What the call statement `f()` yields. -/
def tCallS (l1 : Locals V) : Res V → Res V
  | .done g' _ => .done g' l1
  | .ret _ g' => .done g' l1
  | .brk _ _ => .bad
  | .cont _ _ => .bad
  | .err => .err
  | .out => .out
  | .bad => .bad

theorem ni_prog {fns : Nat → Option FnDef} {pre body : Stms} {n L : Nat} (hL : fns L = none)
    (hav : ∀ k fd, fns k = some fd → avSs n fd.body = true) :
    NI n L (progGC fns pre body) (progLC fns pre n L body) :=
  ⟨fun k hk => by simp only [progLC, progGC, if_neg hk], hL, hav⟩

section
variable {E : Env V}

theorem app_done (P : Prog) {a b : Stms} {fa fb : Nat} {g g1 : Nat → V} {l l1 : Locals V} {r : Res V}
    (ha : execSs E P fa a g l = .done g1 l1) (hb : execSs E P fb b g1 l1 = r) (hr : r ≠ .out) :
    ∃ F, execSs E P F (app a b) g l = r := by
  refine ⟨fa + fb + len a, ?_⟩
  rw [execSs_app, execSs_mono E P (show fa ≤ fa + fb + len a by omega) ha (by simp)]
  simp only []
  exact execSs_mono E P (by omega) hb hr

theorem app_err (P : Prog) {a b : Stms} {fa : Nat} {g : Nat → V} {l : Locals V}
    (ha : execSs E P fa a g l = .err) : execSs E P fa (app a b) g l = .err := by
  rw [execSs_app, ha]

theorem run_pro_any (P : Prog) (n : Nat) (gL : Nat → V) (F : Nat) :
    execSs E P F (proFrom 0 n) gL (fun _ => none) = .out ∨
    execSs E P F (proFrom 0 n) gL (fun _ => none) = .done gL (mkL n gL (fun _ => none)) := by
  by_cases ho : execSs E P F (proFrom 0 n) gL (fun _ => none) = .out
  · exact Or.inl ho
  · right
    have h1 := execSs_mono E P (Nat.le_add_right F (n + 2)) rfl ho
    have h2 := run_pro (E := E) P n 0 (F + (n + 2)) gL (fun _ => none) (by omega)
    rw [mkL_zero, Nat.zero_add] at h2
    rw [← h1, h2]

/-- The statements `f = <L>; f()` in terms of the function body. -/
theorem tail_run (P : Prog) (n L : Nat) (body : Stms) (hfns : P.fns L = some (fnDefC n body))
    (hfn : E.asFn (E.cs L) = some L) (F : Nat) (g1 : Nat → V) (l1 : Locals V) :
    execSs E P (F + 5) (tailL n L) g1 l1 =
      tCallS l1 (execSs E P F (fnBodyC n body) (upd g1 n (E.cs L)) (fun _ => none)) := by
  have hgn : upd g1 n (E.cs L) n = E.cs L := by simp only [upd, if_true]
  simp only [tailL, execSs, execS, evalE, evalEs, callFn, hgn, hfn, hfns, fnDefC, List.length_nil, ne_eq,
    not_true_eq_false, if_false, bindArgs_nil]
  cases execSs E P F (fnBodyC n body) (upd g1 n (E.cs L)) (fun _ => none) <;>
    simp only [tCallS, ERes.toRes, execSs]

/-- The function body, when the moved statements are `done`. -/
theorem fnBodyC_done (P : Prog) (n : Nat) (body : Stms) {Fb : Nat} {gL g1 gfin gL1 : Nat → V}
    (hg : ∀ i, i < n → gL i = g1 i)
    (hb : execSs E P Fb (renCSs body) gL (mkL n g1 (fun _ => none)) = .done gL1 (mkL n gfin (fun _ => none))) :
    ∃ F, execSs E P F (fnBodyC n body) gL (fun _ => none) =
      .done (mkG n gL1 gfin) (mkL n gfin (fun _ => none)) := by
  have hp := run_pro (E := E) P n 0 (n + 2) gL (fun _ => none) (Nat.le_refl _)
  rw [mkL_zero, Nat.zero_add, mkL_congr (fun _ => none) hg] at hp
  have he := run_epi (E := E) P n gL1 gfin (fun _ => none) n 0 (n + 2) (by omega) (Nat.le_refl _)
  rw [mkG_zero, Nat.zero_add] at he
  obtain ⟨F1, h1⟩ := app_done P hb he (by simp)
  exact app_done P hp h1 (by simp)

/-- The function body, when the moved statements fail. -/
theorem fnBodyC_err (P : Prog) (n : Nat) (body : Stms) {Fb : Nat} {gL g1 : Nat → V}
    (hg : ∀ i, i < n → gL i = g1 i)
    (hb : execSs E P Fb (renCSs body) gL (mkL n g1 (fun _ => none)) = .err) :
    ∃ F, execSs E P F (fnBodyC n body) gL (fun _ => none) = .err := by
  have hp := run_pro (E := E) P n 0 (n + 2) gL (fun _ => none) (Nat.le_refl _)
  rw [mkL_zero, Nat.zero_add, mkL_congr (fun _ => none) hg] at hp
  exact app_done P hp (app_err P (b := epiFrom 0 n) hb) (by simp)

theorem exec_progGC (fns : Nat → Option FnDef) (pre body : Stms) (f : Nat) (g : Nat → V) :
    exec E (progGC fns pre body) f g =
      match execSs E (progGC fns pre body) f (app pre body) g (fun _ => none) with
      | .done g' _ => .done g'
      | .err => .err
      | .out => .out
      | _ => .bad := rfl

theorem exec_progLC (fns : Nat → Option FnDef) (pre : Stms) (n L : Nat) (body : Stms) (f : Nat) (g : Nat → V) :
    exec E (progLC fns pre n L body) f g =
      match execSs E (progLC fns pre n L body) f (app pre (tailL n L)) g (fun _ => none) with
      | .done g' _ => .done g'
      | .err => .err
      | .out => .out
      | _ => .bad := rfl

theorem mkG_eq_upd {n : Nat} {c : V} {gL gL1 gfin : Nat → V} (hs2 : Sm n gfin gL1) (hk2 : Kp n gL gL1)
    (hn : gL n = c) : mkG n gL1 gfin = upd gfin n c := by
  funext i
  simp only [mkG, upd]
  by_cases h1 : i < n
  · have : i ≠ n := by omega
    simp only [h1, this, if_true, if_false]
  · by_cases h2 : i = n
    · subst h2; simp only [h1, if_true, if_false]; rw [hk2 i (Nat.le_refl _), hn]
    · simp only [h1, h2, if_false]; exact (hs2 i (by omega)).symm

section
variable {fns : Nat → Option FnDef} {pre body : Stms} {n L : Nat}

/-- **Forward**: an answer of the global placement is an answer of the local one. -/
theorem placementC_forward (hL : fns L = none) (hav : ∀ k fd, fns k = some fd → avSs n fd.body = true)
    (hpre : avSs n pre = true) (hc : c2Ss n body = true) (hfn : E.asFn (E.cs L) = some L) (g : Nat → V)
    (hnb : ∀ f, exec E (progGC fns pre body) f g ≠ .bad)
    (f : Nat) (r : PRes V) (hr : exec E (progGC fns pre body) f g = r) (hne : r ≠ .out) :
    ∃ F, exec E (progLC fns pre n L body) F g = tPC n (E.cs L) r := by
  have H : NI n L (progGC fns pre body) (progLC fns pre n L body) := ni_prog hL hav
  have hfns : (progLC fns pre n L body).fns L = some (fnDefC n body) := by simp only [progLC, if_true]
  have hnb' := hnb f
  rw [exec_progGC, execSs_app] at hr hnb'
  rcases (all_ni E H f).ss pre g g (fun _ => none) hpre (fun _ _ => rfl) with hb | ⟨g1, g1', l1, hGp, hLp, h1⟩ |
    ⟨g1, g1', l1, hGp, hLp, h1⟩ | ⟨g1, g1', l1, hGp, hLp, h1⟩ | ⟨g1, g1', l1, hGp, hLp, h1⟩ | ⟨hGp, hLp⟩ | ⟨hGp, hLp⟩
  · rw [hb] at hnb'; exact absurd rfl hnb'
  · simp only [hGp] at hr hnb'
    have hsm : Sm n g1 (upd g1' n (E.cs L)) := by
      intro i hi
      have : i ≠ n := by omega
      simp only [upd, this, if_false]; exact h1.1 i hi
    have hg : ∀ i, i < n → upd g1' n (E.cs L) i = g1 i := by
      intro i hi
      have : i ≠ n := by omega
      simp only [upd, this, if_false]
      rw [h1.2.2 i (Nat.le_of_lt hi), h1.2.1 i (Nat.le_of_lt hi)]
    have hgn : upd g1' n (E.cs L) n = E.cs L := by simp only [upd, if_true]
    rcases (simC_all E H (f - len pre)).ss body g1 l1 (upd g1' n (E.cs L)) (fun _ => none) hc hsm with
      hb | ⟨gfin, lx, gL1, hGb, hLb, hs2, hk2⟩ | ⟨gfin, lx, gL1, hGb, hLb, hs2, hk2⟩ |
      ⟨gfin, lx, gL1, hGb, hLb, hs2, hk2⟩ | ⟨hGb, hLb⟩ | ⟨hGb, hLb⟩
    · rw [hb] at hnb'; exact absurd rfl hnb'
    · rw [hGb] at hr
      obtain ⟨F1, hF1⟩ := fnBodyC_done (progLC fns pre n L body) n body hg hLb
      have ht := tail_run (progLC fns pre n L body) n L body hfns hfn F1 g1' l1
      rw [hF1] at ht
      simp only [tCallS] at ht
      obtain ⟨F, hF⟩ := app_done (progLC fns pre n L body) hLp ht (by simp)
      refine ⟨F, ?_⟩
      rw [exec_progLC, hF]
      subst hr
      simp only [tPC, mkG_eq_upd hs2 hk2 hgn]
    · rw [hGb] at hnb'; exact absurd rfl hnb'
    · rw [hGb] at hnb'; exact absurd rfl hnb'
    · rw [hGb] at hr
      obtain ⟨F1, hF1⟩ := fnBodyC_err (progLC fns pre n L body) n body hg hLb
      have ht := tail_run (progLC fns pre n L body) n L body hfns hfn F1 g1' l1
      rw [hF1] at ht
      simp only [tCallS] at ht
      obtain ⟨F, hF⟩ := app_done (progLC fns pre n L body) hLp ht (by simp)
      refine ⟨F, ?_⟩
      rw [exec_progLC, hF]
      subst hr
      simp only [tPC]
    · rw [hGb] at hr; subst hr; exact absurd rfl hne
  · rw [hGp] at hnb'; exact absurd rfl hnb'
  · rw [hGp] at hnb'; exact absurd rfl hnb'
  · rw [hGp] at hnb'; exact absurd rfl hnb'
  · rw [hGp] at hr
    subst hr
    refine ⟨f, ?_⟩
    rw [exec_progLC, app_err _ hLp]
    simp only [tPC]
  · rw [hGp] at hr; subst hr; exact absurd rfl hne

/-- The statements `f = <L>; f()` are out of fuel when the moved statements are (same fuel). -/
theorem tail_out (hL : fns L = none) (hav : ∀ k fd, fns k = some fd → avSs n fd.body = true)
    (hc : c2Ss n body = true) (hfn : E.asFn (E.cs L) = some L) (F2 : Nat) (g1 g1' : Nat → V) (l1 : Locals V)
    (hsm : Sm n g1 (upd g1' n (E.cs L))) (hg : ∀ i, i < n → upd g1' n (E.cs L) i = g1 i)
    (hG2 : execSs E (progGC fns pre body) F2 body g1 l1 = .out) :
    execSs E (progLC fns pre n L body) F2 (tailL n L) g1' l1 = .out := by
  have H : NI n L (progGC fns pre body) (progLC fns pre n L body) := ni_prog hL hav
  have hfns : (progLC fns pre n L body).fns L = some (fnDefC n body) := by simp only [progLC, if_true]
  by_cases ht : execSs E (progLC fns pre n L body) F2 (tailL n L) g1' l1 = .out
  · exact ht
  · exfalso
    have h5 := execSs_mono E (progLC fns pre n L body) (Nat.le_add_right F2 5) rfl ht
    rw [tail_run (progLC fns pre n L body) n L body hfns hfn F2 g1' l1] at h5
    have hfb : execSs E (progLC fns pre n L body) F2 (fnBodyC n body) (upd g1' n (E.cs L)) (fun _ => none) ≠ .out := by
      intro h
      rw [h] at h5
      simp only [tCallS] at h5
      exact ht h5.symm
    unfold fnBodyC at hfb
    rw [execSs_app] at hfb
    rcases run_pro_any (E := E) (progLC fns pre n L body) n (upd g1' n (E.cs L)) F2 with hp | hp
    · rw [hp] at hfb; exact hfb rfl
    · rw [hp, len_proFrom] at hfb
      simp only [] at hfb
      rw [execSs_app, mkL_congr (fun _ => none) hg] at hfb
      have hGo : execSs E (progGC fns pre body) (F2 - n) body g1 l1 = .out := by
        by_cases ho : execSs E (progGC fns pre body) (F2 - n) body g1 l1 = .out
        · exact ho
        · have := execSs_mono E (progGC fns pre body) (Nat.sub_le F2 n) rfl ho
          rw [hG2] at this
          exact absurd this.symm ho
      rcases (simC_all E H (F2 - n)).ss body g1 l1 (upd g1' n (E.cs L)) (fun _ => none) hc hsm with
        hb | ⟨gfin, lx, gL1, hGb, hLb, hs2, hk2⟩ | ⟨gfin, lx, gL1, hGb, hLb, hs2, hk2⟩ |
        ⟨gfin, lx, gL1, hGb, hLb, hs2, hk2⟩ | ⟨hGb, hLb⟩ | ⟨hGb, hLb⟩
      · rw [hGo] at hb; cases hb
      · rw [hGo] at hGb; cases hGb
      · rw [hGo] at hGb; cases hGb
      · rw [hGo] at hGb; cases hGb
      · rw [hGo] at hGb; cases hGb
      · rw [hLb] at hfb; exact hfb rfl

/-- **Progress**: if the local placement answers (is not out of fuel), the global one answers with some fuel. -/
theorem placementC_progress (hL : fns L = none) (hav : ∀ k fd, fns k = some fd → avSs n fd.body = true)
    (hpre : avSs n pre = true) (hc : c2Ss n body = true) (hfn : E.asFn (E.cs L) = some L) (g : Nat → V)
    (F : Nat) (hne : exec E (progLC fns pre n L body) F g ≠ .out) :
    ∃ f, exec E (progGC fns pre body) f g ≠ .out := by
  have H : NI n L (progGC fns pre body) (progLC fns pre n L body) := ni_prog hL hav
  refine ⟨F, fun ho => hne ?_⟩
  rw [exec_progGC, execSs_app] at ho
  rw [exec_progLC, execSs_app]
  rcases (all_ni E H F).ss pre g g (fun _ => none) hpre (fun _ _ => rfl) with hb | ⟨g1, g1', l1, hGp, hLp, h1⟩ |
    ⟨g1, g1', l1, hGp, hLp, h1⟩ | ⟨g1, g1', l1, hGp, hLp, h1⟩ | ⟨g1, g1', l1, hGp, hLp, h1⟩ | ⟨hGp, hLp⟩ | ⟨hGp, hLp⟩
  · rw [hb] at ho; cases ho
  · simp only [hGp] at ho
    simp only [hLp]
    have hsm : Sm n g1 (upd g1' n (E.cs L)) := by
      intro i hi
      have : i ≠ n := by omega
      simp only [upd, this, if_false]; exact h1.1 i hi
    have hg : ∀ i, i < n → upd g1' n (E.cs L) i = g1 i := by
      intro i hi
      have : i ≠ n := by omega
      simp only [upd, this, if_false]
      rw [h1.2.2 i (Nat.le_of_lt hi), h1.2.1 i (Nat.le_of_lt hi)]
    have hG2 : execSs E (progGC fns pre body) (F - len pre) body g1 l1 = .out := by
      cases hbd : execSs E (progGC fns pre body) (F - len pre) body g1 l1 <;> rw [hbd] at ho <;>
        first | rfl | cases ho
    rw [tail_out hL hav hc hfn (F - len pre) g1 g1' l1 hsm hg hG2]
  · rw [hGp] at ho; cases ho
  · rw [hGp] at ho; cases ho
  · rw [hGp] at ho; cases ho
  · rw [hGp] at ho; cases ho
  · simp only [hLp]

/-- **Backward**: an answer of the local placement is `tPC` of an answer of the global one. -/
theorem placementC_backward (hL : fns L = none) (hav : ∀ k fd, fns k = some fd → avSs n fd.body = true)
    (hpre : avSs n pre = true) (hc : c2Ss n body = true) (hfn : E.asFn (E.cs L) = some L) (g : Nat → V)
    (hnb : ∀ f, exec E (progGC fns pre body) f g ≠ .bad)
    (F : Nat) (r' : PRes V) (hr : exec E (progLC fns pre n L body) F g = r') (hne : r' ≠ .out) :
    ∃ f r, exec E (progGC fns pre body) f g = r ∧ r ≠ .out ∧ r' = tPC n (E.cs L) r := by
  obtain ⟨f, hf⟩ := placementC_progress hL hav hpre hc hfn g F (by rw [hr]; exact hne)
  refine ⟨f, _, rfl, hf, ?_⟩
  obtain ⟨F', hF'⟩ := placementC_forward hL hav hpre hc hfn g hnb f _ rfl hf
  have hne' : tPC n (E.cs L) (exec E (progGC fns pre body) f g) ≠ .out := by
    cases h : exec E (progGC fns pre body) f g with
    | out => exact absurd h hf
    | done g' => simp [tPC]
    | err => simp [tPC]
    | bad => simp [tPC]
  have a := exec_mono E (progLC fns pre n L body) (Nat.le_max_left F F') hr hne
  have b := exec_mono E (progLC fns pre n L body) (Nat.le_max_right F F') hF' hne'
  rw [← a, b]

end
end
end Tengo.Proofs.C11Place

import Tengo.Props.C17
import Tengo.Model.FormatSpecU
/-!
Helper lemmas for C17 (`M = G` for `%U`): the quoted-character part of `fmtUnicode` under an oracle that answers
`IsPrint` as the spec's `printable` does, the explicit value of `unicodeBody` (it always fits its buffer), and
`fmtUnicode` as one guarded write of `renderU`.
-/
namespace Tengo.Proofs.C17U
open Tengo.Model.Format Tengo.Model.FormatSpec Tengo.Model.FormatSpecU Tengo.Proofs.FormatGood
  Tengo.Proofs.FormatParse Tengo.Props.C17

/-- What the oracle must say for `%#U` of `u`: `IsPrint u` as the spec's `printable`, never true for a surrogate.
Nothing is required without `#` or above U+10FFFF (the oracle is not consulted). -/
def OracleAgrees (O : Oracle) (printable : Nat → Bool) (sharp : Bool) (u : Nat) : Prop :=
  sharp = true → u ≤ 0x10FFFF →
    O.isPrint u = some (printable u) ∧ (printable u = true → ¬ (0xD800 ≤ u ∧ u ≤ 0xDFFF))

/-- The spec's quoted part. -/
def quotedG (printable : Nat → Bool) (sharp : Bool) (u : Nat) : Bytes :=
  if sharp = true ∧ u ≤ 0x10FFFF ∧ printable u = true then [32, 39] ++ encodeRune u ++ [39] else []

theorem unicodeQuoted_eq (O : Oracle) (printable : Nat → Bool) (f : Fl) (u : Nat)
    (hO : OracleAgrees O printable f.sharp u) :
    unicodeQuoted O f u = .ok (quotedG printable f.sharp u) := by
  unfold unicodeQuoted quotedG
  by_cases hs : f.sharp = true
  · by_cases hu : u ≤ 0x10FFFF
    · obtain ⟨h1, h2⟩ := hO hs hu
      simp only [hs, hu, decide_true, Bool.and_self, if_true, h1, true_and]
      cases hp : printable u with
      | false => simp
      | true =>
        have := h2 hp
        simp only [this, if_false, if_true]
    · simp [hs, hu]
  · simp [hs]

theorem quotedG_length (printable : Nat → Bool) (sharp : Bool) (u : Nat) : (quotedG printable sharp u).length ≤ 7 := by
  unfold quotedG
  split
  · have : (encodeRune u).length ≤ 4 := by
      unfold encodeRune
      split
      · simp
      · split
        · simp
        · split
          · simp
          · split <;> simp
    simp only [List.length_append, List.length_cons, List.length_nil]
    omega
  · simp

theorem unicodeBody_eq (f : Fl) (u : Nat) (q : Bytes) (hu : u < 2 ^ 64) (hq : q.length ≤ 7) :
    unicodeBody f u q =
      some ([85, 43] ++ zeros ((if (f.precPresent && decide (f.prec > 4)) = true then f.prec else 4) - (digitsOf true 16 u).length)
        ++ digitsOf true 16 u ++ q) := by
  obtain ⟨out, ho⟩ := unicodeBody_isSome f u q hu hq
  unfold unicodeBody at ho ⊢
  by_cases hb : (f.precPresent && decide (f.prec > 4)) = true
  · simp only [hb, if_true] at ho ⊢
    split at ho
    · cases ho
    · rename_i hn
      rw [if_neg hn]
  · have hb' : (f.precPresent && decide (f.prec > 4)) = false := by simpa using hb
    simp only [hb', Bool.false_eq_true, if_false] at ho ⊢
    split at ho
    · cases ho
    · rename_i hn
      rw [if_neg hn]

theorem asUnsigned_toInt (v : BitVec 64) : asUnsigned v.toInt = v.toNat := by
  have hlt := BitVec.isLt v
  unfold asUnsigned
  rw [BitVec.toInt_eq_msb_cond]
  cases v.msb
  · simp only [Bool.false_eq_true, if_false]; omega
  · simp only [if_true]; omega

theorem padded_nozero_eq_field (d : GDir) (s : Bytes) :
    padded { flOf d with zero := false } s = field d false s := by
  have := padded_eq_field d false s
  simpa using this

/-- `fmtUnicode` under the flags of a directive is one guarded write of `G`'s text. -/
theorem fmtUnicode_eq_G (O : Oracle) (printable : Nat → Bool) (L : Nat) (d : GDir) (buf : Bytes) (v : BitVec 64)
    (hO : OracleAgrees O printable d.sharp v.toNat) (h : buf.length ≤ L) :
    fmtUnicode O L (flOf d) buf v.toNat = write L buf (renderU printable d v.toInt) := by
  have hlt := BitVec.isLt v
  unfold fmtUnicode
  rw [unicodeQuoted_eq O printable (flOf d) v.toNat hO]
  simp only []
  rw [unicodeBody_eq (flOf d) v.toNat _ hlt (quotedG_length printable _ _)]
  simp only []
  rw [pad_eq_write L _ buf _ h, padded_nozero_eq_field]
  unfold renderU
  rw [asUnsigned_toInt]
  congr 2
  have hp : (if ((flOf d).precPresent && decide ((flOf d).prec > 4)) = true then (flOf d).prec else 4) = max 4 (d.prec.getD 0) := by
    cases hp : d.prec with
    | none => simp [flOf, hp]
    | some p =>
      simp only [flOf, hp, Option.isSome_some, Option.getD_some, Bool.true_and, decide_eq_true_eq]
      split <;> omega
  rw [hp]
  simp only [quotedG, flOf, zeros, digitsOf, digitsText, List.append_assoc]

end Tengo.Proofs.C17U

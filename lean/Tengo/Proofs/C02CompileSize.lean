import Tengo.Model.Compiler
/-!
C02 / `compile_verifies`: a computable upper bound of the number of bytes the compiler model emits
for an AST (`szSs`), following the traversal of `Tengo.Model.Compiler` with the same depth budget.
It counts the body of a function literal into the enclosing total, so that `szSs fuel ss < 2 ^ 30`
bounds the raw (not yet optimized) size of every function of the program — what the 4-byte jump
operands need. For the ill-formed AST node `call true f []` (a spread call without argument, which
the parser never produces and for which `CALL 0 1` would be emitted) the bound is `2 ^ 32`, so that
the size hypothesis excludes it. Core Lean only.
-/
namespace Tengo.Model.Compiler
open Tengo.Model
open Tengo.Model.Spec (Expr Stmt)

mutual
  def szE : Nat → Expr → Nat
    | 0, _ => 0
    | d + 1, e =>
      match e with
      | .paren x => szE d x
      | .bin _ l r => szE d l + szE d r + 5
      | .int _ => 3
      | .float _ => 3
      | .bool _ => 1
      | .str _ => 3
      | .char _ => 3
      | .undef => 1
      | .un _ x => szE d x + 1
      | .ident _ => 3
      | .arr es => szEs d es + 3
      | .map kvs => szKVs d kvs + 3
      | .sel x s => szE d x + szE d s + 1
      | .idx x i => szE d x + szE d i + 1
      | .slice x lo hi =>
          szE d x + (match lo with | some l => szE d l | none => 1)
            + (match hi with | some h => szE d h | none => 1) + 1
      | .func _ _ body => szBlock d body + 1279
      | .call ell f args => if ell && args.isEmpty then 2 ^ 32 else szE d f + szEs d args + 3
      | .imp _ => 0
      | .error x => szE d x + 1
      | .immutable x => szE d x + 1
      | .cond c t f => szE d c + szE d t + szE d f + 10
      | .bad => 0

  def szEs : Nat → List Expr → Nat
    | 0, _ => 0
    | _ + 1, [] => 0
    | d + 1, e :: es => szE d e + szEs d es

  def szKVs : Nat → List (Spec.Bytes × Expr) → Nat
    | 0, _ => 0
    | _ + 1, [] => 0
    | d + 1, (_, v) :: rest => 3 + szE d v + szKVs d rest

  def szSels : Nat → List Expr → Nat
    | 0, _ => 0
    | _ + 1, [] => 0
    | d + 1, e :: es => szSels d es + szE d e

  def szAssign : Nat → List Expr → List Expr → Nat
    | 0, _, _ => 0
    | d + 1, lhs, rhs =>
      match lhs, rhs with
      | [l], [r] => szE d l + szE d r + 2 + szSels d (resolveAssignLHS l).2 + 4
      | _, _ => 0

  def szS : Nat → Stmt → Nat
    | 0, _ => 0
    | d + 1, s =>
      match s with
      | .expr e => szE d e + 1
      | .incdec _ e => szAssign d [e] [.int 1]
      | .assign _ lhs rhs => szAssign d lhs rhs
      | .ifs ini c body els =>
          (match ini with | some st => szS d st | none => 0) + szE d c + 5 + szBlock d body + 5
            + (match els with | some st => szS d st | none => 0)
      | .fors ini c post body =>
          (match ini with | some st => szS d st | none => 0)
            + (match c with | some c => szE d c + 5 | none => 0) + szBlock d body
            + (match post with | some st => szS d st | none => 0) + 5
      | .forin _ _ it body => szE d it + 40 + szBlock d body
      | .block ss => szBlock d ss
      | .branch _ => 5
      | .ret e => (match e with | some x => szE d x | none => 0) + 2
      | .export _ => 0
      | .empty => 0
      | .bad => 0

  def szBlock : Nat → List Stmt → Nat
    | 0, _ => 0
    | _ + 1, [] => 0
    | d + 1, ss => szSs d ss

  def szSs : Nat → List Stmt → Nat
    | 0, _ => 0
    | _ + 1, [] => 0
    | d + 1, s :: ss => szS d s + szSs d ss
end

/-- Upper bound of the code size of a whole file (main function and all function literals). -/
def codeBound (ss : List Stmt) : Nat := szSs fuel ss + 1

end Tengo.Model.Compiler

import Tengo.Proofs.VMReloc
import Tengo.Model.RenumCheck
/-!
Constant renumbering (`Bytecode.RemoveDuplicates`): the base of the simulation. The state map (function
indexes of frames and the constant index inside every function object are renumbered by `cm`, everything
else is untouched) and the fact that every simple instruction commutes with it: all opcodes other than
CONST and CLOSURE neither read the code object nor touch the function objects; CONST `cm k` / CLOSURE
`cm k` on the renumbered pool do what CONST `k` / CLOSURE `k` do on the original pool.
-/
set_option linter.unusedSectionVars false
set_option linter.unusedSimpArgs false
set_option linter.unusedVariables false
namespace Tengo.Model.VM
open Tengo.Model Tengo.Model.Spec Tengo.Model.Opcodes

/-! ### the state map -/

-- `fim` (function indexes) and `mapFobj` (function objects) are defined in `Tengo.Model.RenumCheck`.
/-- Registers: stack, `sp` and globals unchanged; every function object renumbered. -/
def mapRegsC (cm : Nat → Nat) (r : Regs) : Regs := { r with fobjs := r.fobjs.map (mapFobj cm) }
def mapSOutC (cm : Nat → Nat) (o : SimpleOut) : SimpleOut := { o with regs := mapRegsC cm o.regs }
/-- Frames: the function index is renumbered; `ip`, `bp`, captured cells, marks unchanged. -/
def mapFrameC (cm : Nat → Nat) (fr : Frame) : Frame := { fr with fnIdx := fim cm fr.fnIdx }
def mapCoreC (cm : Nat → Nat) (c : Core) : Core :=
  { regs := mapRegsC cm c.regs, cur := mapFrameC cm c.cur, callers := c.callers.map (mapFrameC cm) }
def mapOutC (cm : Nat → Nat) : ExecOut → ExecOut
  | .next c a => .next (mapCoreC cm c) a
  | .halt c => .halt (mapCoreC cm c)

@[simp] theorem fim_zero (cm : Nat → Nat) : fim cm 0 = 0 := rfl
@[simp] theorem fim_succ (cm : Nat → Nat) (k : Nat) : fim cm (k + 1) = cm k + 1 := by simp [fim]

section
variable (cm : Nat → Nat) (r : Regs)

@[simp] theorem mapRegsC_sp : (mapRegsC cm r).sp = r.sp := rfl
@[simp] theorem mapRegsC_stack : (mapRegsC cm r).stack = r.stack := rfl
@[simp] theorem mapRegsC_globals : (mapRegsC cm r).globals = r.globals := rfl
theorem mapRegsC_fobjs : (mapRegsC cm r).fobjs = r.fobjs.map (mapFobj cm) := rfl

@[simp] theorem need_mapRegsC (k : Nat) : need (mapRegsC cm r) k = need r k := rfl
@[simp] theorem getSlot_mapRegsC (i : Nat) : getSlot (mapRegsC cm r) i = getSlot r i := rfl
@[simp] theorem slots_mapRegsC (a n : Nat) : slots (mapRegsC cm r) a n = slots r a n := rfl
@[simp] theorem selArgs_mapRegsC (n : Nat) : selArgs (mapRegsC cm r) n = selArgs r n := rfl

theorem mapRegsC_with_sp (s : Nat) : ({ mapRegsC cm r with sp := s } : Regs) = mapRegsC cm { r with sp := s } := rfl

theorem map_hp_throw {α β} (F : α → β) (e : Err) : F <$> (hp (throw e) : VMM α) = hp (throw e) := by
  funext g
  funext s
  simp [hp, Spec.liftM, StateT.lift, throw, throwThe, MonadExceptOf.throw, bind, StateT.bind, Except.bind, Functor.map,
    StateT.map, Except.map]

theorem map_goPanic {α β} (F : α → β) (msg : String) : F <$> (goPanic msg : VMM α) = goPanic msg := map_hp_throw F _

theorem setSlot_mapRegsC (i : Nat) (v : Value) : setSlot (mapRegsC cm r) i v = mapRegsC cm <$> setSlot r i v := by
  unfold setSlot
  split
  · simp [mapRegsC]
  · rw [map_goPanic]

theorem push_mapRegsC (v : Value) : push (mapRegsC cm r) v = mapRegsC cm <$> push r v := by
  unfold push
  simp only [setSlot_mapRegsC, mapRegsC_sp, bind_map_left, map_bind, map_pure]
  rfl

theorem pushAll_mapRegsC (vs : List Value) : pushAll (mapRegsC cm r) vs = mapRegsC cm <$> pushAll r vs := by
  induction vs generalizing r with
  | nil => simp [pushAll]
  | cons v vs ih =>
    simp only [pushAll, push_mapRegsC, bind_map_left, map_bind, ih]

theorem em_map {α β} (F : α → β) (x : VMM α) : em (F <$> x) = F <$> em x := by
  apply ExceptT.ext
  simp [em, ExceptT.run_map, ExceptT.run_lift, Except.map]

theorem em_bind_map {α β γ} (F : β → γ) (x : VMM α) (k : α → VMM β) :
    em (x >>= fun a => F <$> k a) = F <$> em (x >>= k) := by
  rw [← em_map, map_bind]

theorem mapRegsC_mk (s : Array Value) (p : Nat) (g : Array Value) (fo : Array FnObj) :
    (Regs.mk s p g (fo.map (mapFobj cm))) = mapRegsC cm (Regs.mk s p g fo) := rfl

theorem mapSOutC_mk (r : Regs) (n : Next) (a : Bool) : SimpleOut.mk (mapRegsC cm r) n a = mapSOutC cm (SimpleOut.mk r n a) := rfl
end

macro "renum_op" x:ident : tactic => `(tactic| (
  unfold $x
  simp only [need_mapRegsC, getSlot_mapRegsC, slots_mapRegsC, selArgs_mapRegsC, mapRegsC_sp, mapRegsC_globals,
    mapRegsC_stack, mapRegsC_fobjs, mapRegsC_mk, setSlot_mapRegsC, push_mapRegsC, em_bind_map, em_map, bind_map_left, map_bind, map_pure,
    mapSOutC_mk]))

theorem map_panicE {α β} (F : α → β) (msg : String) : F <$> (panicE msg : XM α) = panicE msg := by
  unfold panicE
  rw [← em_map, map_goPanic]

macro "renum_fin" : tactic => `(tactic| repeat' (first
  | rfl
  | (simp only [*, ↓reduceIte, map_bind, map_pure, map_fault, map_rtE, map_unsupE, map_panicE, bind_map_left, mapSOutC_mk]; done)
  | split
  | (refine bind_congr ?_; intro _)))

/-! ### the opcodes that neither read the code object nor touch the function objects -/
section perOp
variable (cm : Nat → Nat) (code code' : Code) (fr fr' : Frame) (a0 a1 op : Nat) (r : Regs)
  (hbp : fr'.bp = fr.bp) (hfree : fr'.free = fr.free)
include hbp hfree

theorem exNull_renum : exNull code' fr' a0 a1 op (mapRegsC cm r) = mapSOutC cm <$> exNull code fr a0 a1 op r := by
  rw [exNull_congr code code' fr fr' a0 a1 op _ hbp hfree]
  renum_op exNull
  renum_fin

theorem exTrue_renum : exTrue code' fr' a0 a1 op (mapRegsC cm r) = mapSOutC cm <$> exTrue code fr a0 a1 op r := by
  rw [exTrue_congr code code' fr fr' a0 a1 op _ hbp hfree]
  renum_op exTrue
  renum_fin

theorem exFalse_renum : exFalse code' fr' a0 a1 op (mapRegsC cm r) = mapSOutC cm <$> exFalse code fr a0 a1 op r := by
  rw [exFalse_congr code code' fr fr' a0 a1 op _ hbp hfree]
  renum_op exFalse
  renum_fin

theorem exPop_renum : exPop code' fr' a0 a1 op (mapRegsC cm r) = mapSOutC cm <$> exPop code fr a0 a1 op r := by
  rw [exPop_congr code code' fr fr' a0 a1 op _ hbp hfree]
  renum_op exPop
  renum_fin

theorem exBinaryOp_renum : exBinaryOp code' fr' a0 a1 op (mapRegsC cm r) = mapSOutC cm <$> exBinaryOp code fr a0 a1 op r := by
  rw [exBinaryOp_congr code code' fr fr' a0 a1 op _ hbp hfree]
  renum_op exBinaryOp
  renum_fin

theorem exEqual_renum : exEqual code' fr' a0 a1 op (mapRegsC cm r) = mapSOutC cm <$> exEqual code fr a0 a1 op r := by
  rw [exEqual_congr code code' fr fr' a0 a1 op _ hbp hfree]
  renum_op exEqual
  renum_fin

theorem exLNot_renum : exLNot code' fr' a0 a1 op (mapRegsC cm r) = mapSOutC cm <$> exLNot code fr a0 a1 op r := by
  rw [exLNot_congr code code' fr fr' a0 a1 op _ hbp hfree]
  renum_op exLNot
  renum_fin

theorem exBComplement_renum : exBComplement code' fr' a0 a1 op (mapRegsC cm r) = mapSOutC cm <$> exBComplement code fr a0 a1 op r := by
  rw [exBComplement_congr code code' fr fr' a0 a1 op _ hbp hfree]
  renum_op exBComplement
  renum_fin

theorem exMinus_renum : exMinus code' fr' a0 a1 op (mapRegsC cm r) = mapSOutC cm <$> exMinus code fr a0 a1 op r := by
  rw [exMinus_congr code code' fr fr' a0 a1 op _ hbp hfree]
  renum_op exMinus
  renum_fin

theorem exJumpFalsy_renum : exJumpFalsy code' fr' a0 a1 op (mapRegsC cm r) = mapSOutC cm <$> exJumpFalsy code fr a0 a1 op r := by
  rw [exJumpFalsy_congr code code' fr fr' a0 a1 op _ hbp hfree]
  renum_op exJumpFalsy
  renum_fin

theorem exAndJump_renum : exAndJump code' fr' a0 a1 op (mapRegsC cm r) = mapSOutC cm <$> exAndJump code fr a0 a1 op r := by
  rw [exAndJump_congr code code' fr fr' a0 a1 op _ hbp hfree]
  renum_op exAndJump
  renum_fin

theorem exOrJump_renum : exOrJump code' fr' a0 a1 op (mapRegsC cm r) = mapSOutC cm <$> exOrJump code fr a0 a1 op r := by
  rw [exOrJump_congr code code' fr fr' a0 a1 op _ hbp hfree]
  renum_op exOrJump
  renum_fin

theorem exJump_renum : exJump code' fr' a0 a1 op (mapRegsC cm r) = mapSOutC cm <$> exJump code fr a0 a1 op r := by
  rw [exJump_congr code code' fr fr' a0 a1 op _ hbp hfree]
  renum_op exJump
  renum_fin

theorem exSetGlobal_renum : exSetGlobal code' fr' a0 a1 op (mapRegsC cm r) = mapSOutC cm <$> exSetGlobal code fr a0 a1 op r := by
  rw [exSetGlobal_congr code code' fr fr' a0 a1 op _ hbp hfree]
  renum_op exSetGlobal
  renum_fin

theorem exGetGlobal_renum : exGetGlobal code' fr' a0 a1 op (mapRegsC cm r) = mapSOutC cm <$> exGetGlobal code fr a0 a1 op r := by
  rw [exGetGlobal_congr code code' fr fr' a0 a1 op _ hbp hfree]
  renum_op exGetGlobal
  renum_fin

theorem exSetSelGlobal_renum : exSetSelGlobal code' fr' a0 a1 op (mapRegsC cm r) = mapSOutC cm <$> exSetSelGlobal code fr a0 a1 op r := by
  rw [exSetSelGlobal_congr code code' fr fr' a0 a1 op _ hbp hfree]
  renum_op exSetSelGlobal
  renum_fin

theorem exArray_renum : exArray code' fr' a0 a1 op (mapRegsC cm r) = mapSOutC cm <$> exArray code fr a0 a1 op r := by
  rw [exArray_congr code code' fr fr' a0 a1 op _ hbp hfree]
  renum_op exArray
  renum_fin

theorem exMap_renum : exMap code' fr' a0 a1 op (mapRegsC cm r) = mapSOutC cm <$> exMap code fr a0 a1 op r := by
  rw [exMap_congr code code' fr fr' a0 a1 op _ hbp hfree]
  renum_op exMap
  renum_fin

theorem exError_renum : exError code' fr' a0 a1 op (mapRegsC cm r) = mapSOutC cm <$> exError code fr a0 a1 op r := by
  rw [exError_congr code code' fr fr' a0 a1 op _ hbp hfree]
  renum_op exError
  renum_fin

theorem exImmutable_renum : exImmutable code' fr' a0 a1 op (mapRegsC cm r) = mapSOutC cm <$> exImmutable code fr a0 a1 op r := by
  rw [exImmutable_congr code code' fr fr' a0 a1 op _ hbp hfree]
  renum_op exImmutable
  renum_fin

theorem exIndex_renum : exIndex code' fr' a0 a1 op (mapRegsC cm r) = mapSOutC cm <$> exIndex code fr a0 a1 op r := by
  rw [exIndex_congr code code' fr fr' a0 a1 op _ hbp hfree]
  renum_op exIndex
  renum_fin

theorem exSliceIndex_renum : exSliceIndex code' fr' a0 a1 op (mapRegsC cm r) = mapSOutC cm <$> exSliceIndex code fr a0 a1 op r := by
  rw [exSliceIndex_congr code code' fr fr' a0 a1 op _ hbp hfree]
  renum_op exSliceIndex
  renum_fin

theorem exDefineLocal_renum : exDefineLocal code' fr' a0 a1 op (mapRegsC cm r) = mapSOutC cm <$> exDefineLocal code fr a0 a1 op r := by
  rw [exDefineLocal_congr code code' fr fr' a0 a1 op _ hbp hfree]
  renum_op exDefineLocal
  renum_fin

theorem exSetLocal_renum : exSetLocal code' fr' a0 a1 op (mapRegsC cm r) = mapSOutC cm <$> exSetLocal code fr a0 a1 op r := by
  rw [exSetLocal_congr code code' fr fr' a0 a1 op _ hbp hfree]
  renum_op exSetLocal
  renum_fin

theorem exSetSelLocal_renum : exSetSelLocal code' fr' a0 a1 op (mapRegsC cm r) = mapSOutC cm <$> exSetSelLocal code fr a0 a1 op r := by
  rw [exSetSelLocal_congr code code' fr fr' a0 a1 op _ hbp hfree]
  renum_op exSetSelLocal
  renum_fin

theorem exGetLocal_renum : exGetLocal code' fr' a0 a1 op (mapRegsC cm r) = mapSOutC cm <$> exGetLocal code fr a0 a1 op r := by
  rw [exGetLocal_congr code code' fr fr' a0 a1 op _ hbp hfree]
  renum_op exGetLocal
  renum_fin

theorem exGetBuiltin_renum : exGetBuiltin code' fr' a0 a1 op (mapRegsC cm r) = mapSOutC cm <$> exGetBuiltin code fr a0 a1 op r := by
  rw [exGetBuiltin_congr code code' fr fr' a0 a1 op _ hbp hfree]
  renum_op exGetBuiltin
  renum_fin

theorem exGetFreePtr_renum : exGetFreePtr code' fr' a0 a1 op (mapRegsC cm r) = mapSOutC cm <$> exGetFreePtr code fr a0 a1 op r := by
  rw [exGetFreePtr_congr code code' fr fr' a0 a1 op _ hbp hfree]
  renum_op exGetFreePtr
  renum_fin

theorem exGetFree_renum : exGetFree code' fr' a0 a1 op (mapRegsC cm r) = mapSOutC cm <$> exGetFree code fr a0 a1 op r := by
  rw [exGetFree_congr code code' fr fr' a0 a1 op _ hbp hfree]
  renum_op exGetFree
  renum_fin

theorem exSetFree_renum : exSetFree code' fr' a0 a1 op (mapRegsC cm r) = mapSOutC cm <$> exSetFree code fr a0 a1 op r := by
  rw [exSetFree_congr code code' fr fr' a0 a1 op _ hbp hfree]
  renum_op exSetFree
  renum_fin

theorem exGetLocalPtr_renum : exGetLocalPtr code' fr' a0 a1 op (mapRegsC cm r) = mapSOutC cm <$> exGetLocalPtr code fr a0 a1 op r := by
  rw [exGetLocalPtr_congr code code' fr fr' a0 a1 op _ hbp hfree]
  renum_op exGetLocalPtr
  renum_fin

theorem exSetSelFree_renum : exSetSelFree code' fr' a0 a1 op (mapRegsC cm r) = mapSOutC cm <$> exSetSelFree code fr a0 a1 op r := by
  rw [exSetSelFree_congr code code' fr fr' a0 a1 op _ hbp hfree]
  renum_op exSetSelFree
  renum_fin

theorem exIteratorInit_renum : exIteratorInit code' fr' a0 a1 op (mapRegsC cm r) = mapSOutC cm <$> exIteratorInit code fr a0 a1 op r := by
  rw [exIteratorInit_congr code code' fr fr' a0 a1 op _ hbp hfree]
  renum_op exIteratorInit
  renum_fin

theorem exIteratorNext_renum : exIteratorNext code' fr' a0 a1 op (mapRegsC cm r) = mapSOutC cm <$> exIteratorNext code fr a0 a1 op r := by
  rw [exIteratorNext_congr code code' fr fr' a0 a1 op _ hbp hfree]
  renum_op exIteratorNext
  renum_fin

theorem exIteratorKey_renum : exIteratorKey code' fr' a0 a1 op (mapRegsC cm r) = mapSOutC cm <$> exIteratorKey code fr a0 a1 op r := by
  rw [exIteratorKey_congr code code' fr fr' a0 a1 op _ hbp hfree]
  renum_op exIteratorKey
  renum_fin

end perOp

/-! ### CONST and CLOSURE -/

/-- What CONST needs of the constant it names and of its renumbered counterpart: the same value, or
function constants standing for the same function object. (A missing constant is excluded: the fault
it causes mentions the index.) -/
def ConstSame : Option Const → Option Const → Prop
  | some (.val v), some (.val v') => v' = v
  | some (.fn _ r), some (.fn _ r') => r' = r
  | _, _ => False

/-- What CLOSURE needs: function constants on both sides. -/
def IsFnPair : Option Const → Option Const → Prop
  | some (.fn _ _), some (.fn _ _) => True
  | _, _ => False

section constOps
variable (cm : Nat → Nat) (code code' : Code) (fr fr' : Frame) (a0 a1 op : Nat) (r : Regs)

theorem exConstant_renum (hc : ConstSame (code.consts[a0]?) (code'.consts[cm a0]?)) :
    exConstant code' fr' (cm a0) a1 op (mapRegsC cm r) = mapSOutC cm <$> exConstant code fr a0 a1 op r := by
  unfold exConstant
  dsimp only
  cases h1 : code.consts[a0]? with
  | none => rw [h1] at hc; simp [ConstSame] at hc
  | some c =>
    cases h2 : code'.consts[cm a0]? with
    | none => rw [h1, h2] at hc; cases c <;> simp [ConstSame] at hc
    | some c' =>
      rw [h1, h2] at hc
      cases c <;> cases c' <;> simp only [ConstSame] at hc
      · subst hc
        simp only [push_mapRegsC, em_map, bind_map_left, map_bind, map_pure, mapSOutC_mk]
      · subst hc
        simp only [push_mapRegsC, em_map, bind_map_left, map_bind, map_pure, mapSOutC_mk]

theorem exClosure_renum (hc : IsFnPair (code.consts[a0]?) (code'.consts[cm a0]?)) :
    exClosure code' fr' (cm a0) a1 op (mapRegsC cm r) = mapSOutC cm <$> exClosure code fr a0 a1 op r := by
  unfold exClosure
  dsimp only
  cases h1 : code.consts[a0]? with
  | none => rw [h1] at hc; simp [IsFnPair] at hc
  | some c =>
    cases h2 : code'.consts[cm a0]? with
    | none => rw [h1, h2] at hc; cases c <;> simp [IsFnPair] at hc
    | some c' =>
      rw [h1, h2] at hc
      cases c <;> cases c' <;> simp only [IsFnPair] at hc
      simp only [need_mapRegsC, slots_mapRegsC, mapRegsC_sp, mapRegsC_fobjs, Array.size_map, map_bind]
      refine bind_congr ?_; intro _
      refine bind_congr ?_; intro free
      have e : ∀ (s : Array Value) (p : Nat) (g : Array Value) (fo : Array FnObj) (k : Nat),
          (Regs.mk s p g ((fo.map (mapFobj cm)).push (cm k, free))) = mapRegsC cm (Regs.mk s p g (fo.push (k, free))) := by
        intro s p g fo k
        simp [mapRegsC, mapFobj]
      simp only [mapRegsC_stack, mapRegsC_globals, e, push_mapRegsC, em_map, bind_map_left, map_bind, map_pure, mapSOutC_mk]

end constOps

/-! ### all simple instructions -/

/-- How the instruction at an instruction start reads in the renumbered function: the same opcode, size
and second operand; the first operand is renumbered for CONST and CLOSURE and unchanged otherwise. -/
structure FetchRelC (cm : Nat → Nat) (i i' : Fetched) : Prop where
  op : i'.op = i.op
  a1 : i'.a1 = i.a1
  size : i'.size = i.size
  a0 : i'.a0 = if i.op = opConstant ∨ i.op = opClosure then cm i.a0 else i.a0

theorem map_ite' {α β} (F : α → β) (c : Prop) [Decidable c] (a b : XM α) :
    F <$> (if c then a else b) = if c then F <$> a else F <$> b := by
  split <;> rfl

/-- A simple instruction of the renumbered code, run on the renumbered registers, does what the
original instruction does on the original registers. -/
theorem execSimple_renum (cm : Nat → Nat) (code code' : Code) (fr fr' : Frame) (hbp : fr'.bp = fr.bp)
    (hfree : fr'.free = fr.free) (i i' : Fetched) (hi : FetchRelC cm i i') (r : Regs)
    (hK : i.op = opConstant → ConstSame (code.consts[i.a0]?) (code'.consts[cm i.a0]?))
    (hC : i.op = opClosure → IsFnPair (code.consts[i.a0]?) (code'.consts[cm i.a0]?)) :
    execSimple code' fr' i'.a0 i'.a1 i'.op (mapRegsC cm r) = mapSOutC cm <$> execSimple code fr i.a0 i.a1 i.op r := by
  rw [hi.op, hi.a1, hi.a0]
  by_cases h1 : i.op = opConstant
  · rw [if_pos (Or.inl h1), h1, execSimple_Constant, execSimple_Constant]
    exact exConstant_renum cm code code' fr fr' _ _ _ r (hK h1)
  by_cases h2 : i.op = opClosure
  · rw [if_pos (Or.inr h2), h2, execSimple_Closure, execSimple_Closure]
    exact exClosure_renum cm code code' fr fr' _ _ _ r (hC h2)
  rw [if_neg (by simp [h1, h2])]
  have b1 : (i.op == opConstant) = false := by simpa using h1
  have b2 : (i.op == opClosure) = false := by simpa using h2
  unfold execSimple
  simp only [b1, b2, Bool.false_eq_true, if_false]
  rw [exNull_renum cm code code' fr fr' i.a0 i.a1 i.op r hbp hfree,
    exTrue_renum cm code code' fr fr' i.a0 i.a1 i.op r hbp hfree,
    exFalse_renum cm code code' fr fr' i.a0 i.a1 i.op r hbp hfree,
    exPop_renum cm code code' fr fr' i.a0 i.a1 i.op r hbp hfree,
    exBinaryOp_renum cm code code' fr fr' i.a0 i.a1 i.op r hbp hfree,
    exEqual_renum cm code code' fr fr' i.a0 i.a1 i.op r hbp hfree,
    exLNot_renum cm code code' fr fr' i.a0 i.a1 i.op r hbp hfree,
    exBComplement_renum cm code code' fr fr' i.a0 i.a1 i.op r hbp hfree,
    exMinus_renum cm code code' fr fr' i.a0 i.a1 i.op r hbp hfree,
    exJumpFalsy_renum cm code code' fr fr' i.a0 i.a1 i.op r hbp hfree,
    exAndJump_renum cm code code' fr fr' i.a0 i.a1 i.op r hbp hfree,
    exOrJump_renum cm code code' fr fr' i.a0 i.a1 i.op r hbp hfree,
    exJump_renum cm code code' fr fr' i.a0 i.a1 i.op r hbp hfree,
    exSetGlobal_renum cm code code' fr fr' i.a0 i.a1 i.op r hbp hfree,
    exGetGlobal_renum cm code code' fr fr' i.a0 i.a1 i.op r hbp hfree,
    exSetSelGlobal_renum cm code code' fr fr' i.a0 i.a1 i.op r hbp hfree,
    exArray_renum cm code code' fr fr' i.a0 i.a1 i.op r hbp hfree,
    exMap_renum cm code code' fr fr' i.a0 i.a1 i.op r hbp hfree,
    exError_renum cm code code' fr fr' i.a0 i.a1 i.op r hbp hfree,
    exImmutable_renum cm code code' fr fr' i.a0 i.a1 i.op r hbp hfree,
    exIndex_renum cm code code' fr fr' i.a0 i.a1 i.op r hbp hfree,
    exSliceIndex_renum cm code code' fr fr' i.a0 i.a1 i.op r hbp hfree,
    exDefineLocal_renum cm code code' fr fr' i.a0 i.a1 i.op r hbp hfree,
    exSetLocal_renum cm code code' fr fr' i.a0 i.a1 i.op r hbp hfree,
    exSetSelLocal_renum cm code code' fr fr' i.a0 i.a1 i.op r hbp hfree,
    exGetLocal_renum cm code code' fr fr' i.a0 i.a1 i.op r hbp hfree,
    exGetBuiltin_renum cm code code' fr fr' i.a0 i.a1 i.op r hbp hfree,
    exGetFreePtr_renum cm code code' fr fr' i.a0 i.a1 i.op r hbp hfree,
    exGetFree_renum cm code code' fr fr' i.a0 i.a1 i.op r hbp hfree,
    exSetFree_renum cm code code' fr fr' i.a0 i.a1 i.op r hbp hfree,
    exGetLocalPtr_renum cm code code' fr fr' i.a0 i.a1 i.op r hbp hfree,
    exSetSelFree_renum cm code code' fr fr' i.a0 i.a1 i.op r hbp hfree,
    exIteratorInit_renum cm code code' fr fr' i.a0 i.a1 i.op r hbp hfree,
    exIteratorNext_renum cm code code' fr fr' i.a0 i.a1 i.op r hbp hfree,
    exIteratorKey_renum cm code code' fr fr' i.a0 i.a1 i.op r hbp hfree]
  simp only [map_ite', map_fault]

end Tengo.Model.VM

import Tengo.Model.F3
/-!
C11, PLACEMENT global ↦ local on fragment F3, layer 0: definitions.

* `g2E n` / `g2S n` / `g2Ss n`: the class of "F2-style" programs over the global variables `x_0 … x_{n-1}`:
  expression statements, assignments `x_i = e`, `if` / `if-else`, the three loop forms, `break` / `continue`;
  expressions over constants, `true` / `false` / `undefined`, the variables, unary / binary operators, `==` / `!=`,
  `&&` / `||`, `c ? t : f`. No calls, no local variables, no `return`.
* `renE` / `renS` / `renSs`: the same statements with every variable moved into the local slot of the same number
  (`glob i ↦ loc i`, `x_i = e` (SETG) ↦ `x_i = e` (SETL)).
* `progG body`: the program with the variables as GLOBALS (main = `body`).
* `progL n L body`: the program with the variables as LOCALS of a function:
  `f = func() { x_0 := r_0; …; x_{n-1} := r_{n-1};  body[x_i local];  r_0 = x_0; …; r_{n-1} = x_{n-1} };  f()`
  (`r_i` = global slot `i`, `f` = global slot `n`, the function is constant `L`; the definitions `:=` are at the top
  level of the function body, the moved statements use `=` only).
-/
namespace Tengo.Proofs.C11Place
open Tengo.Model Tengo.Model.F3
open Tengo.Model.F0 (Sem upd)

/-! ### the class -/

def g2E (n : Nat) : Ex → Bool
  | .lit _ => true | .tru => true | .fls => true | .undef => true
  | .glob i => decide (i < n)
  | .loc _ => false
  | .bin _ l r => g2E n l && g2E n r
  | .eq l r => g2E n l && g2E n r
  | .ne l r => g2E n l && g2E n r
  | .land l r => g2E n l && g2E n r
  | .lor l r => g2E n l && g2E n r
  | .neg e => g2E n e | .bnot e => g2E n e | .lnot e => g2E n e | .plus e => g2E n e
  | .cond c t f => g2E n c && g2E n t && g2E n f
  | .call _ _ => false

mutual
  def g2S (n : Nat) : Stm → Bool
    | .expr e => g2E n e
    | .assign i e => decide (i < n) && g2E n e
    | .defl _ _ => false
    | .setl _ _ => false
    | .ifs c b => g2E n c && g2Ss n b
    | .ifelse c b e => g2E n c && g2Ss n b && g2Ss n e
    | .whil c b => g2E n c && g2Ss n b
    | .forever b => g2Ss n b
    | .for3 c b p => g2E n c && g2Ss n b && g2S n p
    | .brk => true
    | .cont => true
    | .ret _ => false
    | .ret0 => false
  def g2Ss (n : Nat) : Stms → Bool
    | .nil => true
    | .cons s ss => g2S n s && g2Ss n ss
end

/-! ### moving the variables into local slots -/

def renE : Ex → Ex
  | .glob i => .loc i
  | .bin t l r => .bin t (renE l) (renE r)
  | .eq l r => .eq (renE l) (renE r)
  | .ne l r => .ne (renE l) (renE r)
  | .land l r => .land (renE l) (renE r)
  | .lor l r => .lor (renE l) (renE r)
  | .neg e => .neg (renE e) | .bnot e => .bnot (renE e) | .lnot e => .lnot (renE e) | .plus e => .plus (renE e)
  | .cond c t f => .cond (renE c) (renE t) (renE f)
  | e => e

mutual
  def renS : Stm → Stm
    | .expr e => .expr (renE e)
    | .assign i e => .setl i (renE e)
    | .ifs c b => .ifs (renE c) (renSs b)
    | .ifelse c b e => .ifelse (renE c) (renSs b) (renSs e)
    | .whil c b => .whil (renE c) (renSs b)
    | .forever b => .forever (renSs b)
    | .for3 c b p => .for3 (renE c) (renSs b) (renS p)
    | .defl i e => .defl i e
    | .setl i e => .setl i e
    | .brk => .brk
    | .cont => .cont
    | .ret e => .ret e
    | .ret0 => .ret0
  def renSs : Stms → Stms
    | .nil => .nil
    | .cons s ss => .cons (renS s) (renSs ss)
end

/-! ### the two placements -/

def app : Stms → Stms → Stms
  | .nil, b => b
  | .cons s ss, b => .cons s (app ss b)

def len : Stms → Nat
  | .nil => 0
  | .cons _ ss => len ss + 1

/-- `x_j := r_j; …; x_{j+c-1} := r_{j+c-1}` -/
def proFrom : Nat → Nat → Stms
  | _, 0 => .nil
  | j, c + 1 => .cons (.defl j (.glob j)) (proFrom (j + 1) c)

/-- `r_j = x_j; …; r_{j+c-1} = x_{j+c-1}` -/
def epiFrom : Nat → Nat → Stms
  | _, 0 => .nil
  | j, c + 1 => .cons (.assign j (.loc j)) (epiFrom (j + 1) c)

def fnBody (n : Nat) (body : Stms) : Stms := app (proFrom 0 n) (app (renSs body) (epiFrom 0 n))

def fnDef (n : Nat) (body : Stms) : FnDef := { nparams := 0, nlocals := n, body := fnBody n body }

/-- The variables are globals: main is `body`, no functions. -/
def progG (body : Stms) : Prog := { fns := fun _ => none, main := body }

/-- The variables are locals of a function stored in global slot `n` and called at once. -/
def progL (n L : Nat) (body : Stms) : Prog :=
  { fns := fun k => if k = L then some (fnDef n body) else none,
    main := .cons (.assign n (.lit L)) (.cons (.expr (.call (.glob n) .nil)) .nil) }

/-! ### environments and results -/

variable {V : Type}

/-- Locals of the moved program: slot `i < n` holds the value of the global `i`. -/
def mkL (n : Nat) (g : Nat → V) (l0 : Locals V) : Locals V := fun i => if i < n then some (g i) else l0 i

/-- Globals after the function wrote the first `j` variables back. -/
def mkG (j : Nat) (gL g' : Nat → V) : Nat → V := fun i => if i < j then g' i else gL i

/-- Result of an expression of the moved program, from the result of the original. -/
def tE (gL : Nat → V) : ERes V → ERes V
  | .val v _ => .val v gL
  | .err => .err
  | .out => .out
  | .bad => .bad

/-- Result of a statement of the moved program, from the result of the original. (`ret` does not occur for the
class — it has no `return` —; it is mapped to `bad`, which both sides then pass on.) -/
def tS (n : Nat) (gL : Nat → V) (l0 : Locals V) : Res V → Res V
  | .done g _ => .done gL (mkL n g l0)
  | .brk g _ => .brk gL (mkL n g l0)
  | .cont g _ => .cont gL (mkL n g l0)
  | .ret _ _ => .bad
  | .err => .err
  | .out => .out
  | .bad => .bad

end Tengo.Proofs.C11Place

import Tengo.Proofs.C03Source
/-!
C03 at source level, part 2: a decidable form of `UnoptTwin` (for concrete programs and for the driver):
`checkUnopt bc raws = true → ∃ mainIs, UnoptTwin bc mainIs raws`. Given candidate raw bodies it checks that
the main function decodes and keeps its jumps / fall-throughs inside, and per function constant that the
raw body decodes, has well-formed jumps, is shorter than `2^32` bytes and that the optimizer model makes the
stored body of it.
-/
set_option linter.unusedVariables false
set_option linter.unusedSimpArgs false
namespace Tengo.Proofs.C03Source
open Tengo.Model Tengo.Model.Opcodes Tengo.Model.Compiler Tengo.Model.Optimizer
open Tengo.Proofs.C03 Tengo.Proofs.C03Reloc Tengo.Proofs.C02Compile

def checkRaw (raw code : Bytes) : Bool :=
  (match decode raw with
   | some is => wfJumpsB is raw.length
   | none => false) && decide (raw.length < 2 ^ 32) && decide (optBody raw = code.toArray)

def checkUnopt (bc : Bytecode') (raws : Nat → Bytes) : Bool :=
  (match decode bc.main with
   | some mainIs => !mainIs.isEmpty && decide (ClosedJumps mainIs) && decide (ClosedFall mainIs)
   | none => false) &&
  (List.range bc.consts.length).all (fun k =>
    match bc.consts[k]? with
    | some (Compiler.Const.fn code _ _ _) => checkRaw (raws (k + 1)) code
    | _ => true)

theorem checkUnopt_sound {bc : Bytecode'} {raws : Nat → Bytes} (h : checkUnopt bc raws = true) :
    ∃ mainIs, UnoptTwin bc mainIs raws := by
  unfold checkUnopt at h
  rw [Bool.and_eq_true] at h
  obtain ⟨hm, hf⟩ := h
  cases hd : decode bc.main with
  | none => simp [hd] at hm
  | some mainIs =>
    simp only [hd, Bool.and_eq_true, Bool.not_eq_true', decide_eq_true_eq] at hm
    refine ⟨mainIs, hd, ?_, hm.1.2, hm.2, ?_⟩
    · intro he; rw [he] at hm; simp at hm
    · intro k code nl np va hk
      rw [List.all_eq_true] at hf
      have := hf k (List.mem_range.mpr (get?_lt hk))
      simp only [hk] at this
      unfold checkRaw at this
      simp only [Bool.and_eq_true, decide_eq_true_eq] at this
      obtain ⟨⟨h1, h2⟩, h3⟩ := this
      refine ⟨?_, h2, h3⟩
      cases hdr : decode (raws (k + 1)) with
      | none => simp [hdr] at h1
      | some is =>
        simp only [hdr] at h1
        exact ⟨is, rfl, wfJumpsB_sound h1⟩

end Tengo.Proofs.C03Source

import Tengo.Proofs.C10HeapOps
/-!
C09/C10 — "no dangling reference" is an invariant of the machine.

`RefsOk h` (every reference stored in a backing array, a Go map or an error value points to an allocated object)
is a hypothesis of `copy_disjoint`, `copy_frame`, `ops_away_keep` … . Alone it is not inductive: operations store
HANDLES into stores (`mkArr`, `setSel`, `append` …), so the handles must be allocated references too. `Wf h` is
`RefsOk h` plus "every handle is a scalar or an allocated reference"; every operation of `Heap9.step` keeps it
(`step_wf`), the empty heap has it, hence every heap built by operations has it (`wf_of_ops`).
-/
namespace Tengo.Proofs.C10Heap
open Tengo.Model.Heap9 Tengo.Model.HeapCopy Tengo.Props.C09

/-- No dangling reference anywhere: in the stores and error values (`RefsOk`) and in the handles. -/
structure Wf (h : Heap) : Prop where
  refs : RefsOk h
  regs : ∀ v ∈ h.regs, OldVal h v

theorem wf_empty : Wf {} := by
  refine ⟨⟨?_, ?_, ?_⟩, ?_⟩
  · intro st hs; cases hs
  · intro st hs; cases hs
  · intro p hp; cases hp
  · intro v hv; cases hv


theorem oldVal_scalar {h : Heap} {v : Val} (hv : ∀ r, v ≠ .ref r) : OldVal h v := fun r e => absurd e (hv r)

/-- Everything in the new heap is either something of the old heap or made of allocated references. -/
theorem wf_build {h h' : Heap} (w : Wf h) (hl : h.objs.length ≤ h'.objs.length)
    (ha : ∀ st ∈ h'.astores, st ∈ h.astores ∨ ∀ x ∈ st, OldVal h' x)
    (hm : ∀ kvs ∈ h'.mstores, kvs ∈ h.mstores ∨ ∀ x ∈ kvs.map Prod.snd, OldVal h' x)
    (he : ∀ p, Obj.err p ∈ h'.objs → Obj.err p ∈ h.objs ∨ OldVal h' p)
    (hr : ∀ v ∈ h'.regs, v ∈ h.regs ∨ OldVal h' v) : Wf h' := by
  refine ⟨⟨?_, ?_, ?_⟩, ?_⟩
  · intro st hs x hx
    rcases ha st hs with o | n
    · exact (w.refs.arrs st o x hx).mono hl
    · exact n x hx
  · intro st hs x hx
    rcases hm st hs with o | n
    · exact (w.refs.maps st o x hx).mono hl
    · exact n x hx
  · intro p hp
    rcases he p hp with o | n
    · exact (w.refs.errs p o).mono hl
    · exact n
  · intro v hv
    rcases hr v hv with o | n
    · exact (w.regs v o).mono hl
    · exact n

/-! ### Where allocated references are found -/

theorem old_reg {h : Heap} (w : Wf h) {x : Nat} {v : Val} (hx : h.regs[x]? = some v) : OldVal h v :=
  w.regs v (List.mem_of_getElem? hx)

theorem old_regsOf {h : Heap} (w : Wf h) : ∀ (is : List Nat) (vs : List Val), regsOf h is = some vs → ∀ v ∈ vs, OldVal h v
  | [], vs, e, v, hv => by simp [regsOf] at e; subst e; cases hv
  | i :: is, vs, e, v, hv => by
    unfold regsOf at e
    split at e
    · rename_i v0 vs0 h0 h1
      injection e with e; subst e
      rcases List.mem_cons.mp hv with rfl | hv
      · exact old_reg w h0
      · exact old_regsOf w is vs0 h1 v hv
    · cases e

theorem old_astore {h : Heap} (w : Wf h) {s : Nat} {x : Val} (hx : x ∈ h.astore s) : OldVal h x := by
  unfold Heap.astore at hx
  rw [List.getD_eq_getElem?_getD] at hx
  cases e : h.astores[s]? with
  | none => simp [e] at hx
  | some st =>
    simp only [e, Option.getD_some] at hx
    exact w.refs.arrs st (List.mem_of_getElem? e) x hx

theorem old_content {h : Heap} (w : Wf h) {s off len : Nat} {x : Val} (hx : x ∈ h.content s off len) : OldVal h x :=
  old_astore w (List.mem_of_mem_drop (List.mem_of_mem_take hx))

theorem old_mstore {h : Heap} (w : Wf h) {s : Nat} {x : Val} (hx : x ∈ (h.mstore s).map Prod.snd) : OldVal h x := by
  obtain ⟨st, hs, hm⟩ := mem_mstore hx
  exact w.refs.maps st (List.mem_of_getElem? hs) x hm

theorem old_payload {h : Heap} (w : Wf h) {r : Nat} {p : Val} (ho : h.obj r = Obj.err p) : OldVal h p :=
  w.refs.errs p (List.mem_of_getElem? (obj_some ho (by simp)))

theorem old_ref {h : Heap} {r : Nat} {o : Obj} (ho : h.obj r = o) (nd : o ≠ .dead) : OldVal h (.ref r) := by
  intro q e; injection e with e; subst e; exact lt_of_lookup (obj_some ho nd)

theorem mem_writeList {st vs : List Val} {i : Nat} {x : Val} (hx : x ∈ writeList st i vs) : x ∈ st ∨ x ∈ vs := by
  unfold writeList at hx
  rcases List.mem_append.mp hx with hx | hx
  · rcases List.mem_append.mp hx with hx | hx
    · exact .inl (List.mem_of_mem_take hx)
    · exact .inr hx
  · exact .inl (List.mem_of_mem_drop hx)

theorem mem_set' {st : List Val} {i : Nat} {v x : Val} (hx : x ∈ st.set i v) : x ∈ st ∨ x = v :=
  List.mem_or_eq_of_mem_set hx

theorem mem_merase {k : String} {x : Val} : ∀ (m : List (String × Val)),
    x ∈ (merase k m).map Prod.snd → x ∈ m.map Prod.snd
  | [], hx => by simp [merase] at hx
  | (k', v') :: rest, hx => by
    unfold merase at hx
    split at hx
    · simp only [List.map_cons, List.mem_cons]; exact .inr hx
    · simp only [List.map_cons, List.mem_cons] at hx ⊢
      rcases hx with rfl | hx
      · exact .inl rfl
      · exact .inr (mem_merase rest hx)

theorem mem_foldl_minsert {x : Val} : ∀ (kvs : List (String × Val)) (acc : List (String × Val)),
    x ∈ (kvs.foldl (fun acc kv => minsert kv.1 kv.2 acc) acc).map Prod.snd →
    x ∈ acc.map Prod.snd ∨ x ∈ kvs.map Prod.snd
  | [], acc, hx => .inl hx
  | kv :: kvs, acc, hx => by
    simp only [List.foldl_cons] at hx
    rcases mem_foldl_minsert kvs _ hx with h1 | h1
    · rcases mem_minsert _ h1 with h2 | h2
      · exact .inl h2
      · subst h2; exact .inr (by simp)
    · exact .inr (by simp only [List.map_cons, List.mem_cons]; exact .inr h1)

/-! ### Primitives -/

theorem wf_push {h : Heap} (w : Wf h) {v : Val} (ov : OldVal h v) : Wf (h.push v) := by
  refine wf_build w (Nat.le_refl _) (fun _ hs => .inl hs) (fun _ hs => .inl hs) (fun _ hp => .inl hp) ?_
  intro x hx
  simp only [Heap.push, List.mem_append, List.mem_singleton] at hx
  rcases hx with hx | rfl
  · exact .inl hx
  · exact .inr ov

theorem wf_pushAll {h : Heap} (w : Wf h) {vs : List Val} (ov : ∀ v ∈ vs, OldVal h v) : Wf (h.pushAll vs) := by
  refine wf_build w (Nat.le_refl _) (fun _ hs => .inl hs) (fun _ hs => .inl hs) (fun _ hp => .inl hp) ?_
  intro x hx
  simp only [Heap.pushAll, List.mem_append] at hx
  rcases hx with hx | hx
  · exact .inl hx
  · exact .inr (ov x hx)

theorem wf_setA {h : Heap} (w : Wf h) (s : Nat) {xs : List Val} (ov : ∀ x ∈ xs, OldVal h x) : Wf (h.setA s xs) := by
  refine wf_build w (Nat.le_refl _) ?_ (fun _ hs => .inl hs) (fun _ hp => .inl hp) (fun _ hv => .inl hv)
  intro st hs
  simp only [Heap.setA] at hs
  rcases List.mem_or_eq_of_mem_set hs with hs | rfl
  · exact .inl hs
  · exact .inr ov

theorem wf_setM {h : Heap} (w : Wf h) (s : Nat) {xs : List (String × Val)} (ov : ∀ x ∈ xs.map Prod.snd, OldVal h x) :
    Wf (h.setM s xs) := by
  refine wf_build w (Nat.le_refl _) (fun _ hs => .inl hs) ?_ (fun _ hp => .inl hp) (fun _ hv => .inl hv)
  intro st hs
  simp only [Heap.setM] at hs
  rcases List.mem_or_eq_of_mem_set hs with hs | rfl
  · exact .inl hs
  · exact .inr ov

theorem wf_allocObj {h : Heap} (w : Wf h) {o : Obj} (ov : ∀ p, o = .err p → OldVal h p) :
    Wf (h.allocObj o).1 ∧ OldVal (h.allocObj o).1 (.ref (h.allocObj o).2) := by
  have hl : h.objs.length ≤ (h.allocObj o).1.objs.length := by simp [Heap.allocObj]
  refine ⟨wf_build w hl (fun _ hs => .inl hs) (fun _ hs => .inl hs) ?_ (fun _ hv => .inl hv), ?_⟩
  · intro p hp
    simp only [Heap.allocObj, List.mem_append, List.mem_singleton] at hp
    rcases hp with hp | hp
    · exact .inl hp
    · exact .inr ((ov p hp.symm).mono hl)
  · intro q e; injection e with e; subst e; simp [Heap.allocObj]

theorem wf_setObj {h : Heap} (w : Wf h) (r : Nat) {o : Obj} (ov : ∀ p, o = .err p → OldVal h p) : Wf (h.setObj r o) := by
  have hl : h.objs.length ≤ (h.setObj r o).objs.length := by simp [Heap.setObj]
  refine wf_build w hl (fun _ hs => .inl hs) (fun _ hs => .inl hs) ?_ (fun _ hv => .inl hv)
  intro p hp
  simp only [Heap.setObj] at hp
  rcases List.mem_or_eq_of_mem_set hp with hp | hp
  · exact .inl hp
  · exact .inr ((ov p hp.symm).mono hl)

theorem wf_newArr {h : Heap} (w : Wf h) (mu : Bool) {xs : List Val} (ov : ∀ x ∈ xs, OldVal h x) (cap : Nat) :
    Wf (h.newArr mu xs cap).1 ∧ OldVal (h.newArr mu xs cap).1 (.ref (h.newArr mu xs cap).2) := by
  have hl : h.objs.length ≤ (h.newArr mu xs cap).1.objs.length := by simp [Heap.newArr]
  refine ⟨⟨refsOk_newArr w.refs mu ov cap, fun v hv => (w.regs v hv).mono hl⟩, ?_⟩
  intro q e; injection e with e; subst e; simp [Heap.newArr]

theorem wf_newMap {h : Heap} (w : Wf h) (mu : Bool) {kvs : List (String × Val)}
    (ov : ∀ x ∈ kvs.map Prod.snd, OldVal h x) :
    Wf (h.newMap mu kvs).1 ∧ OldVal (h.newMap mu kvs).1 (.ref (h.newMap mu kvs).2) := by
  have hl : h.objs.length ≤ (h.newMap mu kvs).1.objs.length := by simp [Heap.newMap]
  refine ⟨⟨refsOk_newMap w.refs mu ov, fun v hv => (w.regs v hv).mono hl⟩, ?_⟩
  intro q e; injection e with e; subst e; simp [Heap.newMap]

theorem wf_pushNew {p : Heap × Ref} (w : Wf p.1 ∧ OldVal p.1 (.ref p.2)) : Wf (pushNew p).1 := wf_push w.1 w.2

theorem wf_realloc {h : Heap} (w : Wf h) (r : Ref) {xs : List Val} (ov : ∀ x ∈ xs, OldVal h x) (l cp : Nat) :
    Wf { h with astores := h.astores ++ [xs], objs := h.objs.set r (Obj.arr true h.astores.length 0 l cp) } := by
  refine wf_build w (by simp) ?_ (fun _ hs => .inl hs) ?_ (fun _ hv => .inl hv)
  · intro st hs
    simp only [List.mem_append, List.mem_singleton] at hs
    rcases hs with hs | rfl
    · exact .inl hs
    · exact .inr (fun x hx => (ov x hx).mono (by simp))
  · intro p hp
    simp only at hp
    rcases List.mem_or_eq_of_mem_set hp with hp | hp
    · exact .inl hp
    · cases hp

theorem wf_consume {h : Heap} (w : Wf h) (r : Ref) (x : Nat) :
    Wf { h.setObj r Obj.dead with regs := h.regs.set x Val.undef } := by
  refine wf_build w (by simp [Heap.setObj]) (fun _ hs => .inl hs) (fun _ hs => .inl hs) ?_ ?_
  · intro p hp
    simp only [Heap.setObj] at hp
    rcases List.mem_or_eq_of_mem_set hp with hp | hp
    · exact .inl hp
    · cases hp
  · intro v hv
    simp only at hv
    rcases List.mem_or_eq_of_mem_set hv with hv | rfl
    · exact .inl hv
    · exact .inr (oldVal_scalar (by intro r; simp))

/-! ### Element reads and writes -/

theorem indexGet_old {h : Heap} (w : Wf h) {a i next : Val} (e : indexGet h a i = .val next) : OldVal h next := by
  unfold indexGet at e
  split at e
  · injection e with e; subst e; exact oldVal_scalar (by intro r; simp)
  · cases e
  · cases e
  · split at e <;> cases e
  · rename_i r
    split at e
    · rename_i m s off len cap ho
      split at e
      · split at e
        · injection e with e; subst e; exact oldVal_scalar (by intro r; simp)
        · injection e with e
          rename_i n _
          cases hn : (h.content s off len)[n.toNat]? with
          | none => rw [hn] at e; simp at e; subst e; exact oldVal_scalar (by intro r; simp)
          | some y =>
            rw [hn] at e; simp at e; subst e
            exact old_content w (List.mem_of_getElem? hn)
      · cases e
      · cases e
    · rename_i m s ho
      split at e
      · injection e with e
        rename_i k _
        cases hn : mlookup k (h.mstore s) with
        | none => rw [hn] at e; simp at e; subst e; exact oldVal_scalar (by intro r; simp)
        | some y =>
          rw [hn] at e; simp at e; subst e
          exact old_mstore w (mlookup_mem _ hn)
      · cases e
      · cases e
    · rename_i p ho
      split at e
      · split at e
        · injection e with e; subst e; exact old_payload w ho
        · cases e
      · cases e
      · cases e
    · cases e

theorem arrSet_wf {h : Heap} (w : Wf h) (s off len : Nat) (n : Int) {v : Val} (ov : OldVal h v) :
    Wf (arrSet h s off len n v).1 := by
  unfold arrSet
  split
  · exact w
  · refine wf_setA w _ ?_
    intro x hx
    rcases mem_set' hx with hx | rfl
    · exact old_astore w hx
    · exact ov

theorem indexSet_wf {h : Heap} (w : Wf h) (dst idx : Val) {v : Val} (ov : OldVal h v) : Wf (indexSet h dst idx v).1 := by
  unfold indexSet
  repeat' split
  all_goals first
    | exact w
    | exact arrSet_wf w _ _ _ _ ov
    | (refine wf_setM w _ ?_
       intro x hx
       rcases mem_minsert _ hx with hx | rfl
       · exact old_mstore w hx
       · exact ov)

theorem indexAssign_wf {h : Heap} (w : Wf h) (dst : Val) (sels : List Val) {src : Val} (ov : OldVal h src) :
    Wf (indexAssign h dst sels src).1 := by
  induction sels generalizing dst with
  | nil => exact w
  | cons i rest ih =>
    cases rest with
    | nil => exact indexSet_wf w _ _ ov
    | cons j rest' =>
      unfold indexAssign
      split
      · exact ih _
      · exact w
      · exact w

/-! ### The operations -/

theorem old_append {h : Heap} (w : Wf h) {s off len : Nat} {vs : List Val} (ov : ∀ v ∈ vs, OldVal h v) :
    ∀ x ∈ h.content s off len ++ vs, OldVal h x := by
  intro x hx
  rcases List.mem_append.mp hx with hx | hx
  · exact old_content w hx
  · exact ov x hx

theorem stepAppend_wf {h : Heap} (w : Wf h) (x : Nat) (items : List Nat) (nc : Nat) : Wf (stepAppend h x items nc).1 := by
  unfold stepAppend
  split
  · rename_i v vs hx hvs
    have ov := old_regsOf w _ _ hvs
    repeat' split
    all_goals first
      | exact w
      | exact wf_pushNew (wf_newArr w _ (old_append w ov) _)
      | (refine wf_pushNew (wf_allocObj (wf_setA w _ ?_) (by intro p e; cases e))
         intro y hy
         rcases mem_writeList hy with hy | hy
         · exact old_astore w hy
         · exact ov y hy)
  · exact w

theorem stepSlice_wf {h : Heap} (w : Wf h) (x lo hi nc : Nat) : Wf (stepSlice h x lo hi nc).1 := by
  unfold stepSlice
  repeat' split
  all_goals first
    | exact w
    | exact wf_pushNew (wf_allocObj w (by intro p e; cases e))
    | (refine wf_pushNew (wf_newArr w _ ?_ _)
       intro y hy
       exact old_content w (List.mem_of_mem_drop (List.mem_of_mem_take hy)))

theorem stepAdd_wf {h : Heap} (w : Wf h) (x y : Nat) : Wf (stepAdd h x y).1 := by
  unfold stepAdd
  repeat' split
  all_goals first
    | exact w
    | exact wf_push w (old_ref (by assumption) (by simp))
    | (refine wf_pushNew (wf_newArr w _ ?_ _)
       intro y hy
       rcases List.mem_append.mp hy with hy | hy
       · exact old_content w hy
       · exact old_content w hy)

theorem stepDelete_wf {h : Heap} (w : Wf h) (x k : Nat) : Wf (stepDelete h x k).1 := by
  unfold stepDelete
  repeat' split
  all_goals first
    | exact w
    | exact wf_setM w _ (fun y hy => old_mstore w (mem_merase _ hy))

theorem stepIter_wf {h : Heap} (w : Wf h) (x : Nat) : Wf (stepIter h x).1 := by
  unfold stepIter
  repeat' split
  all_goals first
    | exact w
    | exact wf_pushAll w (fun y hy => old_content w hy)
    | exact wf_pushAll w (fun y hy => old_mstore w hy)

theorem spliceWrite_wf {h : Heap} (w : Wf h) (r : Ref) (s off len cap st : Nat) {items : List Val}
    (ov : ∀ v ∈ items, OldVal h v) (nc : Nat) : Wf (spliceWrite h r s off len cap st items nc) := by
  unfold spliceWrite
  simp only
  split
  · refine wf_setObj (wf_setA w _ ?_) _ (by intro p e; cases e)
    intro y hy
    rcases mem_writeList hy with hy | hy
    · exact old_astore w hy
    · exact ov y hy
  · refine wf_realloc w r ?_ _ _
    intro y hy
    rcases List.mem_append.mp hy with hy | hy
    · rcases List.mem_append.mp hy with hy | hy
      · exact old_content w (List.mem_of_mem_take hy)
      · exact ov y hy
    · rw [List.mem_replicate] at hy; rw [hy.2]; exact oldVal_scalar (by intro r; simp)

theorem spliceWrite_olen (h : Heap) (r : Ref) (s off len cap st : Nat) (items : List Val) (nc : Nat) :
    h.objs.length ≤ (spliceWrite h r s off len cap st items nc).objs.length := by
  unfold spliceWrite; simp only; split <;> simp [Heap.setObj, Heap.setA]

theorem splice_core_wf {h : Heap} (w : Wf h) (r : Ref) (s off len cap st : Nat) {items deleted : List Val}
    (oi : ∀ v ∈ items, OldVal h v) (od : ∀ v ∈ deleted, OldVal h v) (nc dc : Nat) :
    Wf (pushNew ((spliceWrite h r s off len cap st items nc).newArr true deleted dc)).1 :=
  wf_pushNew (wf_newArr (spliceWrite_wf w r s off len cap st oi nc) _
    (fun y hy => (od y hy).mono (spliceWrite_olen _ _ _ _ _ _ _ _ _)) _)

theorem stepSplice_wf {h : Heap} (w : Wf h) (x : Nat) (args : List Nat) (nc dc : Nat) :
    Wf (stepSplice h x args nc dc).1 := by
  unfold stepSplice
  split
  · rename_i v avs hx havs
    have ov := old_regsOf w _ _ havs
    repeat' split
    all_goals first
      | exact w
      | (refine splice_core_wf w _ _ _ _ _ _ ?_ ?_ _ _
         · intro y hy
           rcases List.mem_append.mp hy with hy | hy
           · exact ov y (List.mem_of_mem_drop hy)
           · exact old_content w (List.mem_of_mem_drop hy)
         · intro y hy
           exact old_content w (List.mem_of_mem_drop (List.mem_of_mem_take hy)))
  · exact w

theorem stepImmutable_wf {h : Heap} (w : Wf h) (cs : Bool) (x : Nat) : Wf (stepImmutable h cs x).1 := by
  unfold stepImmutable
  split
  · rename_i r hx
    repeat' split
    all_goals first
      | exact w
      | exact wf_push w (old_reg w hx)
      | exact wf_pushNew (wf_allocObj w (by intro p e; cases e))
      | exact wf_pushNew (wf_allocObj (wf_consume w _ _) (by intro p e; cases e))
  · exact wf_push w (old_reg w (by assumption))
  · exact w

/-! ### `copy` and `freeze` -/

theorem foldVals_inv {σ : Type} {P : Heap → σ → Prop} (f : Heap → σ → Val → Option (Heap × σ × Val))
    (hf : ∀ h st v h' st' v', f h st v = some (h', st', v') → P h st → OldVal h v →
      P h' st' ∧ OldVal h' v' ∧ h.objs.length ≤ h'.objs.length) :
    ∀ (vs : List Val) (h : Heap) (st : σ) (h' : Heap) (st' : σ) (vs' : List Val),
      foldVals f h st vs = some (h', st', vs') → P h st → (∀ x ∈ vs, OldVal h x) →
      P h' st' ∧ (∀ x ∈ vs', OldVal h' x) ∧ h.objs.length ≤ h'.objs.length := by
  intro vs
  induction vs with
  | nil =>
    intro h st h' st' vs' e p _
    simp [foldVals] at e
    obtain ⟨e1, e2, e3⟩ := e
    subst e1 e2 e3
    exact ⟨p, (fun x hx => by cases hx), Nat.le_refl _⟩
  | cons v vs ihl =>
    intro h st h' st' vs' e p ov
    unfold foldVals at e
    split at e
    · cases e
    · rename_i h1 c1 v1 e1
      split at e
      · cases e
      · rename_i h2 c2 vs2 e2
        injection e with e; injection e with e3 e4; injection e4 with e4 e5
        subst e3 e4 e5
        obtain ⟨p1, o1, l1⟩ := hf _ _ _ _ _ _ e1 p (ov v (List.mem_cons_self ..))
        obtain ⟨p2, o2, l2⟩ := ihl _ _ _ _ _ e2 p1 (fun x hx => (ov x (List.mem_cons_of_mem _ hx)).mono l1)
        refine ⟨p2, ?_, Nat.le_trans l1 l2⟩
        intro x hx
        rcases List.mem_cons.mp hx with rfl | hx
        · exact o1.mono l2
        · exact o2 x hx

theorem copyN_wf : ∀ (n : Nat) (h : Heap) (caps : List Nat) (v : Val) (h' : Heap) (caps' : List Nat) (v' : Val),
    copyN n h caps v = some (h', caps', v') → Wf h → OldVal h v →
    Wf h' ∧ OldVal h' v' ∧ h.objs.length ≤ h'.objs.length := by
  intro n
  induction n with
  | zero => intro h caps v h' caps' v' e; simp [copyN] at e
  | succ n ih =>
    intro h caps v h' caps' v' e w ov
    have ih' : ∀ h st v h' st' v', copyN n h st v = some (h', st', v') → (fun h (_ : List Nat) => Wf h) h st → OldVal h v →
        (fun h (_ : List Nat) => Wf h) h' st' ∧ OldVal h' v' ∧ h.objs.length ≤ h'.objs.length :=
      fun h st v h' st' v' e p o => ih h st v h' st' v' e p o
    unfold copyN at e
    split at e
    · rename_i r
      split at e
      · rename_i m s off len cap ho
        split at e
        · cases e
        · rename_i h1 caps1 cs ef
          injection e with e; injection e with e1 e2; injection e2 with e2 e3; subst e1 e2 e3
          obtain ⟨w1, o1, l1⟩ := foldVals_inv (P := fun h _ => Wf h) _ ih' _ _ _ _ _ _ ef w (fun x hx => old_content w hx)
          obtain ⟨w2, o2⟩ := wf_newArr w1 true o1 (caps.headD 0)
          exact ⟨w2, o2, Nat.le_trans l1 (by simp [Heap.newArr])⟩
      · rename_i m s ho
        split at e
        · cases e
        · rename_i h1 caps1 cs ef
          injection e with e; injection e with e1 e2; injection e2 with e2 e3; subst e1 e2 e3
          obtain ⟨w1, o1, l1⟩ := foldVals_inv (P := fun h _ => Wf h) _ ih' _ _ _ _ _ _ ef w (fun x hx => old_mstore w hx)
          obtain ⟨w2, o2⟩ := wf_newMap w1 true (kvs := ((h.mstore s).map Prod.fst).zip cs) (by
            intro x hx
            rw [List.mem_map] at hx
            obtain ⟨kv, hkv, rfl⟩ := hx
            exact o1 _ (List.of_mem_zip hkv).2)
          exact ⟨w2, o2, Nat.le_trans l1 (by simp [Heap.newMap])⟩
      · rename_i p ho
        split at e
        · cases e
        · rename_i h1 caps1 p' ep
          injection e with e; injection e with e1 e2; injection e2 with e2 e3; subst e1 e2 e3
          obtain ⟨w1, o1, l1⟩ := ih _ _ _ _ _ _ ep w (old_payload w ho)
          obtain ⟨w2, o2⟩ := wf_allocObj w1 (o := .err p') (by intro q e; injection e with e; subst e; exact o1)
          exact ⟨w2, o2, Nat.le_trans l1 (by simp [Heap.allocObj])⟩
      · cases e
    · injection e with e; injection e with e1 e2; injection e2 with e2 e3; subst e1 e2 e3
      exact ⟨w, ov, Nat.le_refl _⟩

/-- The memo of `freeze` maps to allocated objects. -/
def MemoOld (h : Heap) (memo : Memo) : Prop := ∀ a b, (a, b) ∈ memo → b < h.objs.length

theorem memo_find_mem : ∀ (memo : Memo) (r r' : Ref), Memo.find memo r = some r' → (r, r') ∈ memo
  | [], _, _, e => by simp [Memo.find] at e
  | (a, b) :: rest, r, r', e => by
    unfold Memo.find at e
    split at e
    · rename_i hab; injection e with e; subst e; subst hab; exact List.mem_cons_self ..
    · exact List.mem_cons_of_mem _ (memo_find_mem rest r r' e)

theorem MemoOld.mono {h h' : Heap} {memo : Memo} (m : MemoOld h memo) (hl : h.objs.length ≤ h'.objs.length) :
    MemoOld h' memo := fun a b hab => Nat.lt_of_lt_of_le (m a b hab) hl

theorem MemoOld.cons {h : Heap} {memo : Memo} (m : MemoOld h memo) (a : Ref) {b : Ref} (hb : b < h.objs.length) :
    MemoOld h ((a, b) :: memo) := by
  intro x y hxy
  rcases List.mem_cons.mp hxy with e | e
  · injection e with e1 e2; subst e2; exact hb
  · exact m x y e

theorem freezeN_wf : ∀ (n : Nat) (h : Heap) (memo : Memo) (v : Val) (h' : Heap) (memo' : Memo) (v' : Val),
    freezeN n h memo v = some (h', memo', v') → (Wf h ∧ MemoOld h memo) → OldVal h v →
    (Wf h' ∧ MemoOld h' memo') ∧ OldVal h' v' ∧ h.objs.length ≤ h'.objs.length := by
  intro n
  induction n with
  | zero => intro h memo v h' memo' v' e; simp [freezeN] at e
  | succ n ih =>
    intro h memo v h' memo' v' e wm ov
    obtain ⟨w, mo⟩ := wm
    have fa : ∀ {s off len : Nat} {h1 : Heap} {memo1 : Memo} {fs : List Val},
        foldVals (freezeN n) h memo (h.content s off len) = some (h1, memo1, fs) →
        (Wf h1 ∧ MemoOld h1 memo1) ∧ (∀ x ∈ fs, OldVal h1 x) ∧ h.objs.length ≤ h1.objs.length :=
      fun ef => foldVals_inv (P := fun h m => Wf h ∧ MemoOld h m) _ ih _ _ _ _ _ _ ef ⟨w, mo⟩ (fun x hx => old_content w hx)
    have fm : ∀ {s : Nat} {h1 : Heap} {memo1 : Memo} {fs : List Val},
        foldVals (freezeN n) h memo ((h.mstore s).map Prod.snd) = some (h1, memo1, fs) →
        (Wf h1 ∧ MemoOld h1 memo1) ∧ (∀ x ∈ fs, OldVal h1 x) ∧ h.objs.length ≤ h1.objs.length :=
      fun ef => foldVals_inv (P := fun h m => Wf h ∧ MemoOld h m) _ ih _ _ _ _ _ _ ef ⟨w, mo⟩ (fun x hx => old_mstore w hx)
    have zipOld : ∀ {h1 : Heap} {ks : List String} {fs : List Val}, (∀ x ∈ fs, OldVal h1 x) →
        ∀ x ∈ (ks.zip fs).map Prod.snd, OldVal h1 x := by
      intro h1 ks fs o1 x hx
      rw [List.mem_map] at hx
      obtain ⟨kv, hkv, rfl⟩ := hx
      exact o1 _ (List.of_mem_zip hkv).2
    unfold freezeN at e
    split at e
    · rename_i r
      split at e
      · -- mutable array
        split at e
        · rename_i r' hf
          injection e with e; injection e with e1 e2; injection e2 with e2 e3; subst e1 e2 e3
          refine ⟨⟨w, mo⟩, ?_, Nat.le_refl _⟩
          intro q eq; injection eq with eq; subst eq
          exact mo _ _ (memo_find_mem _ _ _ hf)
        · split at e
          · cases e
          · rename_i h1 memo1 fs ef
            injection e with e; injection e with e1 e2; injection e2 with e2 e3; subst e1 e2 e3
            obtain ⟨⟨w1, m1⟩, o1, l1⟩ := fa ef
            obtain ⟨w2, o2⟩ := wf_newArr w1 false o1 fs.length
            have l2 : h1.objs.length ≤ (h1.newArr false fs fs.length).1.objs.length := by simp [Heap.newArr]
            exact ⟨⟨w2, (m1.mono l2).cons r (o2 _ rfl)⟩, o2, Nat.le_trans l1 l2⟩
      · -- immutable array
        split at e
        · cases e
        · rename_i h1 memo1 fs ef
          obtain ⟨⟨w1, m1⟩, o1, l1⟩ := fa ef
          split at e
          · injection e with e; injection e with e1 e2; injection e2 with e2 e3; subst e1 e2 e3
            exact ⟨⟨w1, m1⟩, ov.mono l1, l1⟩
          · injection e with e; injection e with e1 e2; injection e2 with e2 e3; subst e1 e2 e3
            obtain ⟨w2, o2⟩ := wf_newArr w1 false o1 fs.length
            have l2 : h1.objs.length ≤ (h1.newArr false fs fs.length).1.objs.length := by simp [Heap.newArr]
            exact ⟨⟨w2, m1.mono l2⟩, o2, Nat.le_trans l1 l2⟩
      · -- mutable map
        rename_i s ho
        split at e
        · rename_i r' hf
          injection e with e; injection e with e1 e2; injection e2 with e2 e3; subst e1 e2 e3
          refine ⟨⟨w, mo⟩, ?_, Nat.le_refl _⟩
          intro q eq; injection eq with eq; subst eq
          exact mo _ _ (memo_find_mem _ _ _ hf)
        · split at e
          · cases e
          · rename_i h1 memo1 fs ef
            injection e with e; injection e with e1 e2; injection e2 with e2 e3; subst e1 e2 e3
            obtain ⟨⟨w1, m1⟩, o1, l1⟩ := fm ef
            obtain ⟨w2, o2⟩ := wf_newMap w1 false (kvs := ((h.mstore s).map Prod.fst).zip fs) (zipOld o1)
            have l2 : h1.objs.length ≤ (h1.newMap false (((h.mstore s).map Prod.fst).zip fs)).1.objs.length := by
              simp [Heap.newMap]
            exact ⟨⟨w2, (m1.mono l2).cons r (o2 _ rfl)⟩, o2, Nat.le_trans l1 l2⟩
      · -- immutable map
        rename_i s ho
        split at e
        · cases e
        · rename_i h1 memo1 fs ef
          obtain ⟨⟨w1, m1⟩, o1, l1⟩ := fm ef
          split at e
          · injection e with e; injection e with e1 e2; injection e2 with e2 e3; subst e1 e2 e3
            exact ⟨⟨w1, m1⟩, ov.mono l1, l1⟩
          · injection e with e; injection e with e1 e2; injection e2 with e2 e3; subst e1 e2 e3
            obtain ⟨w2, o2⟩ := wf_newMap w1 false (kvs := ((h.mstore s).map Prod.fst).zip fs) (zipOld o1)
            have l2 : h1.objs.length ≤ (h1.newMap false (((h.mstore s).map Prod.fst).zip fs)).1.objs.length := by
              simp [Heap.newMap]
            exact ⟨⟨w2, m1.mono l2⟩, o2, Nat.le_trans l1 l2⟩
      · injection e with e; injection e with e1 e2; injection e2 with e2 e3; subst e1 e2 e3
        exact ⟨⟨w, mo⟩, ov, Nat.le_refl _⟩
      · cases e
    · injection e with e; injection e with e1 e2; injection e2 with e2 e3; subst e1 e2 e3
      exact ⟨⟨w, mo⟩, ov, Nat.le_refl _⟩

/-- Every operation keeps the heap free of dangling references. -/
theorem step_wf {h : Heap} (w : Wf h) (op : Op) : Wf (step h op).1 := by
  cases op with
  | lit l => exact wf_push w (oldVal_scalar (by intro r; cases l <;> simp [Lit.toVal]))
  | mkArr elems cap =>
    simp only [step]; split
    · rename_i vs hvs
      exact wf_pushNew (wf_newArr w _ (old_regsOf w _ _ hvs) _)
    · exact w
  | mkMap kvs =>
    simp only [step]; split
    · rename_i vs hvs
      refine wf_pushNew (wf_newMap w _ ?_)
      intro x hx
      rcases mem_foldl_minsert _ _ hx with hx | hx
      · simp at hx
      · rw [List.mem_map] at hx
        obtain ⟨kv, hkv, rfl⟩ := hx
        exact old_regsOf w _ _ hvs _ (List.of_mem_zip hkv).2
    · exact w
  | mkErr x =>
    simp only [step]; split
    · rename_i v hv
      exact wf_pushNew (wf_allocObj w (by intro p e; injection e with e; subst e; exact old_reg w hv))
    · exact w
  | immutable cs x => exact stepImmutable_wf w _ _
  | idxGet x i =>
    simp only [step]
    split
    · split
      · rename_i e; exact wf_push w (indexGet_old w e)
      · exact w
      · exact w
    · exact w
  | setSel x sels v =>
    simp only [step]; split
    · rename_i d ss src hd hss hsrc
      exact indexAssign_wf w _ _ (old_reg w hsrc)
    · exact w
  | append x items nc => exact stepAppend_wf w _ _ _
  | splice x args nc dc => exact stepSplice_wf w _ _ _ _
  | delete x k => exact stepDelete_wf w _ _
  | slice x lo hi nc => exact stepSlice_wf w _ _ _ _
  | add x y => exact stepAdd_wf w _ _
  | copy x caps =>
    simp only [step]
    split
    · rename_i v hv
      split
      · rename_i h1 c1 w1 e
        obtain ⟨w2, o2, _⟩ := copyN_wf _ _ _ _ _ _ _ e w (old_reg w hv)
        exact wf_push w2 o2
      · exact w
    · exact w
  | freeze x =>
    simp only [step]
    split
    · rename_i v hv
      split
      · rename_i h1 c1 w1 e
        obtain ⟨⟨w2, _⟩, o2, _⟩ := freezeN_wf _ _ _ _ _ _ _ e ⟨w, fun _ _ hab => by cases hab⟩ (old_reg w hv)
        exact wf_push w2 o2
      · exact w
    · exact w
  | iter x => exact stepIter_wf w _
  | eq x y =>
    simp only [step]
    repeat' split
    all_goals exact w

theorem run_wf (ops : List Op) : ∀ {h : Heap}, Wf h → Wf (run h ops) := by
  induction ops with
  | nil => intro h w; exact w
  | cons op ops ih => intro h w; exact ih (step_wf w op)

/-- Every heap the operations can build from the empty heap is free of dangling references. -/
theorem wf_of_ops (ops : List Op) : Wf (run {} ops) := run_wf ops wf_empty

end Tengo.Proofs.C10Heap

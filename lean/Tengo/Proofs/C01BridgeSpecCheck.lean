import Tengo.Proofs.C01BridgeStmt
import Tengo.Model.SpecCheck
/-!
C01 bridge, reference-interpreter side: the static check of the reference semantics (`Spec.checkProgram`:
unresolved / redeclared names, assignment to builtins, break / continue / return placement) accepts every
embedded fragment program whose slots are pre-declared as inputs (`checkProgram_fragment`).
-/
set_option linter.unusedVariables false
set_option linter.unusedSimpArgs false
namespace Tengo.Proofs.C01Bridge
open Tengo.Model Tengo.Model.F0
open Tengo.Model.Spec (Expr Stmt CSt Tab checkExpr checkStmt checkStmts checkBlock checkAssign checkOptStmt checkExprs)

/-! ### the static check of the reference semantics accepts embedded programs -/

/-- `x` succeeds and leaves the checker's state as it is. -/
def KId (x : Spec.CM Unit) (s : CSt) : Prop := x s = .ok ((), s)

theorem KId.pure (s : CSt) : KId (Pure.pure ()) s := rfl

theorem k_bind {α β : Type} (x : Spec.CM α) (f : α → Spec.CM β) (s : CSt) (a : α) (s' : CSt)
    (h : x s = .ok (a, s')) : (x >>= f) s = f a s' := by
  show (StateT.bind x f) s = _
  unfold StateT.bind
  simp only [h, bind, Except.bind]

theorem KId.seq {x y : Spec.CM Unit} {s : CSt} (hx : KId x s) (hy : KId y s) : KId (do x; y) s := by
  unfold KId at *
  rw [k_bind _ _ _ _ _ hx]; exact hy

def blkTab : Tab := { names := [], block := true }

/-- The checker's tables: the root (inputs, then builtins) under any number of empty block tables. -/
structure GoodC (names : Nat → String) (n : Nat) (s : CSt) : Prop where
  tabs : ∃ k root, s.tabs = List.replicate k blkTab ++ [root] ∧ ∀ i, i < n → root.names.contains (names i) = true
  inputs : ∀ i, i < n → s.inputs.contains (names i) = true

theorem resolve_go (nm : String) (root : Tab) (h : root.names.contains nm = true) :
    ∀ (k d : Nat), Spec.resolve.go nm (List.replicate k blkTab ++ [root]) d = some (d + k)
  | 0, d => by simp only [List.replicate_zero, List.nil_append, Spec.resolve.go, h, if_true, Nat.add_zero]
  | k + 1, d => by
    simp only [List.replicate_succ, List.cons_append, Spec.resolve.go, blkTab]
    have := resolve_go nm root h k (d + 1)
    simp only [blkTab] at this
    simp [this]; omega

theorem resolve_good {names : Nat → String} {n : Nat} {s : CSt} (h : GoodC names n s) {i : Nat} (hi : i < n) :
    ∃ k, Spec.resolve (names i) s = .ok (some k, s) := by
  obtain ⟨k, root, ht, hr⟩ := h.tabs
  refine ⟨0 + k, ?_⟩
  unfold Spec.resolve
  show (StateT.bind get _) s = _
  unfold StateT.bind
  show Except.ok _ = _
  simp only [ht, resolve_go (names i) root (hr i hi) k 0]


theorem binaryToks_tok {t : Nat} (h : validTok t = true) : Spec.binaryToks.contains (tokNameOf t) = true := by
  rcases validTok_cases h with h | h | h | h | h | h | h | h | h | h | h | h | h | h | h <;> subst h <;> decide

section
variable {names : Nat → String} {ctab : Nat → F0.Const} {n : Nat}

theorem checkExpr_ok (e : Ex) : ∀ (d k : Nat) (s : CSt), budE e ≤ d → GoodC names n s → wfE n k e = true →
    KId (checkExpr d (toAstE names ctab e)) s := by
  induction e with
  | lit j =>
    intro d k s hd hg hw
    cases d with
    | zero => simp [budE] at hd
    | succ d =>
      simp only [toAstE]
      cases ctab j <;> simp only [litExpr, checkExpr] <;> exact KId.pure s
  | tru | fls | undef =>
    intro d k s hd hg hw
    cases d with
    | zero => simp [budE] at hd
    | succ d => simp only [toAstE, checkExpr]; exact KId.pure s
  | glob i =>
    intro d k s hd hg hw
    cases d with
    | zero => simp [budE] at hd
    | succ d =>
      simp only [wfE, decide_eq_true_eq] at hw
      obtain ⟨kk, hres⟩ := resolve_good hg hw
      simp only [toAstE, checkExpr]
      unfold KId
      rw [k_bind _ _ _ _ _ hres]
      rfl
  | bin tok l r ihl ihr =>
    intro d k s hd hg hw
    cases d with
    | zero => simp [budE] at hd
    | succ d =>
      simp only [wfE, Bool.and_eq_true] at hw
      obtain ⟨⟨ht, hwl⟩, hwr⟩ := hw
      simp only [budE] at hd
      simp only [toAstE, checkExpr, binaryToks_tok ht, if_true]
      exact (ihl d _ s (by omega) hg hwl).seq ((ihr d _ s (by omega) hg hwr).seq (KId.pure s))
  | eq l r ihl ihr | ne l r ihl ihr | land l r ihl ihr | lor l r ihl ihr =>
    intro d k s hd hg hw
    cases d with
    | zero => simp [budE] at hd
    | succ d =>
      simp only [wfE, Bool.and_eq_true] at hw
      obtain ⟨hwl, hwr⟩ := hw
      simp only [budE] at hd
      simp only [toAstE, checkExpr]
      exact (ihl d _ s (by omega) hg hwl).seq ((ihr d _ s (by omega) hg hwr).seq (KId.pure s))
  | neg e ih | bnot e ih | lnot e ih | plus e ih =>
    intro d k s hd hg hw
    cases d with
    | zero => simp [budE] at hd
    | succ d =>
      simp only [wfE] at hw
      simp only [budE] at hd
      simp only [toAstE, checkExpr]
      exact (ih d _ s (by omega) hg hw).seq (KId.pure s)
  | cond c t f ihc iht ihf =>
    intro d k s hd hg hw
    cases d with
    | zero => simp [budE] at hd
    | succ d =>
      simp only [wfE, Bool.and_eq_true] at hw
      obtain ⟨⟨hwc, hwt⟩, hwf⟩ := hw
      simp only [budE] at hd
      simp only [toAstE, checkExpr]
      exact (ihc d _ s (by omega) hg hwc).seq ((iht d _ s (by omega) hg hwt).seq (ihf d _ s (by omega) hg hwf))

end


/-- `checkAssign` on `name = r` (`r` not a function literal), with the decided tests removed. -/
def chkAssignStaged (d : Nat) (nm : String) (r : Expr) : Spec.CM Unit := do
  let res ← Spec.resolve nm
  let st0 ← get
  let stillBuiltin : Bool :=
    Spec.builtinNames.contains nm && !st0.inputs.contains nm && !st0.shadowed.contains nm
  if res.isNone then Spec.cerr s!"unresolved reference '{nm}'"
  checkExpr d r
  checkExprs d []
  if stillBuiltin then
    match ← Spec.resolve nm with
    | some k => if k + 1 == (← get).tabs.length then Spec.cerr "invalid assignment variable scope: BUILTIN" else pure ()
    | none => pure ()

section
variable {names : Nat → String} {ctab : Nat → F0.Const} {n : Nat}

theorem checkAssign_staged (d : Nat) (nm : String) (r : Expr) :
    checkAssign (d + 1) "Assign" [.ident nm] [r] = chkAssignStaged d nm r := rfl

theorem checkAssign_ok (d : Nat) (i : Nat) (r : Expr) (s : CSt)
    (hg : GoodC names n s) (hi : i < n) (hre : KId (checkExpr (d + 1) r) s) :
    KId (checkAssign (d + 1 + 1) "Assign" [.ident (names i)] [r]) s := by
  obtain ⟨kk, hres⟩ := resolve_good hg hi
  rw [checkAssign_staged]
  unfold KId chkAssignStaged
  rw [k_bind _ _ _ _ _ hres]
  rw [k_bind _ _ s s s rfl]
  simp only [hg.inputs i hi, Bool.not_true, Bool.and_false, Bool.false_and, Option.isNone_some,
    Bool.false_eq_true, if_false]
  rw [k_bind _ _ _ _ _ hre]
  rw [Spec.checkExprs]
  rfl

def pushed (s : CSt) : CSt := { s with tabs := blkTab :: s.tabs }

theorem GoodC.pushed {s : CSt} (h : GoodC names n s) : GoodC names n (pushed s) := by
  obtain ⟨k, root, ht, hr⟩ := h.tabs
  exact ⟨⟨k + 1, root, by simp only [C01Bridge.pushed, ht]; rfl, hr⟩, h.inputs⟩

theorem pushTab_run (s : CSt) : Spec.pushTab true s = .ok ((), pushed s) := rfl
theorem popTab_pushed (s : CSt) : Spec.popTab (pushed s) = .ok ((), s) := by cases s; rfl

/-- `x` succeeds and turns the checker's state `s` into `s'`. -/
def KTo (x : Spec.CM Unit) (s s' : CSt) : Prop := x s = .ok ((), s')

theorem KTo.seq {x y : Spec.CM Unit} {s s1 s2 : CSt} (hx : KTo x s s1) (hy : KTo y s1 s2) : KTo (do x; y) s s2 := by
  unfold KTo at *
  rw [k_bind _ _ _ _ _ hx]; exact hy

theorem KId.to {x : Spec.CM Unit} {s : CSt} (h : KId x s) : KTo x s s := h
theorem KTo.id {x : Spec.CM Unit} {s : CSt} (h : KTo x s s) : KId x s := h

theorem kto_push (s : CSt) : KTo (Spec.pushTab true) s (pushed s) := rfl
theorem kto_pop (s : CSt) : KTo Spec.popTab (pushed s) s := popTab_pushed s

def looped (s : CSt) : CSt := { s with loops := s.loops + 1 }

theorem GoodC.looped {s : CSt} (h : GoodC names n s) : GoodC names n (looped s) := ⟨h.tabs, h.inputs⟩

theorem kto_loopIn (s : CSt) : KTo (modify (fun s => { s with loops := s.loops + 1 })) s (looped s) := rfl
theorem kto_loopOut (s : CSt) : KTo (modify (fun s => { s with loops := s.loops - 1 })) (looped s) s := by
  cases s; rfl

theorem optNone_ok (d : Nat) (s : CSt) : KId (checkOptStmt (d + 1) none) s := by
  rw [Spec.checkOptStmt]; rfl

mutual
  theorem checkStmt_ok : ∀ (st : F1.Stm) (d k : Nat) (s : CSt), budS st ≤ d → GoodC names n s → wfS n k st = true →
      KId (checkStmt d (toAstS names ctab st)) s
    | .expr e, d, k, s, hd, hg, hw => by
      simp only [budS] at hd
      obtain ⟨d, rfl⟩ : ∃ d', d = d' + 1 := ⟨d - 1, by omega⟩
      simp only [wfS] at hw
      simp only [toAstS, checkStmt]
      exact checkExpr_ok e d k s (by omega) hg hw
    | .assign i e, d, k, s, hd, hg, hw => by
      simp only [budS] at hd
      obtain ⟨d, rfl⟩ : ∃ d', d = d' + 1 + 1 + 1 := ⟨d - 3, by have := budE_pos e; omega⟩
      simp only [wfS, Bool.and_eq_true, decide_eq_true_eq] at hw
      simp only [toAstS, checkStmt]
      exact checkAssign_ok d i _ s hg hw.1 (checkExpr_ok e (d + 1) k s (by omega) hg hw.2)
    | .ifs c body, d, k, s, hd, hg, hw => by
      simp only [budS] at hd
      obtain ⟨d, rfl⟩ : ∃ d', d = d' + 1 + 1 := ⟨d - 2, by omega⟩
      simp only [wfS, Bool.and_eq_true] at hw
      simp only [toAstS, checkStmt]
      exact ((kto_push s).seq ((optNone_ok d _).to.seq ((checkExpr_ok c (d + 1) k _ (by omega) hg.pushed hw.1).to.seq
        ((checkBlock_ok body (d + 1) _ _ (by omega) hg.pushed hw.2).to.seq ((optNone_ok d _).to.seq (kto_pop s)))))).id
    | .ifelse c body els, d, k, s, hd, hg, hw => by
      simp only [budS] at hd
      obtain ⟨d, rfl⟩ : ∃ d', d = d' + 1 + 1 + 1 + 1 := ⟨d - 4, by omega⟩
      simp only [wfS, Bool.and_eq_true] at hw
      simp only [toAstS, checkStmt]
      have hels : KId (checkOptStmt (d + 1 + 1 + 1) (some (Stmt.block (toAstSs names ctab els)))) (pushed s) := by
        rw [Spec.checkOptStmt, Spec.checkStmt]
        exact checkBlock_ok els (d + 1) _ _ (by omega) hg.pushed hw.2
      exact ((kto_push s).seq ((optNone_ok _ _).to.seq ((checkExpr_ok c _ k _ (by omega) hg.pushed hw.1.1).to.seq
        ((checkBlock_ok body _ _ _ (by omega) hg.pushed hw.1.2).to.seq (hels.to.seq (kto_pop s)))))).id
    | .whil c body, d, k, s, hd, hg, hw => by
      simp only [budS] at hd
      obtain ⟨d, rfl⟩ : ∃ d', d = d' + 1 + 1 := ⟨d - 2, by omega⟩
      simp only [wfS, Bool.and_eq_true] at hw
      simp only [toAstS, checkStmt]
      exact ((kto_push s).seq ((optNone_ok d _).to.seq ((checkExpr_ok c (d + 1) k _ (by omega) hg.pushed hw.1).to.seq
        ((kto_loopIn _).seq ((checkBlock_ok body (d + 1) _ _ (by omega) hg.pushed.looped hw.2).to.seq
          ((kto_loopOut _).seq ((optNone_ok d _).to.seq (kto_pop s)))))))).id
    | .forever body, d, k, s, hd, hg, hw => by
      simp only [budS] at hd
      obtain ⟨d, rfl⟩ : ∃ d', d = d' + 1 + 1 := ⟨d - 2, by omega⟩
      simp only [wfS] at hw
      simp only [toAstS, checkStmt]
      exact ((kto_push s).seq ((optNone_ok d _).to.seq ((KId.pure _).to.seq
        ((kto_loopIn _).seq ((checkBlock_ok body (d + 1) _ _ (by omega) hg.pushed.looped hw).to.seq
          ((kto_loopOut _).seq ((optNone_ok d _).to.seq (kto_pop s)))))))).id
  theorem checkBlock_ok : ∀ (ss : F1.Stms) (d k : Nat) (s : CSt), budSs ss + 1 ≤ d → GoodC names n s →
      wfSs n k ss = true → KId (checkBlock d (toAstSs names ctab ss)) s
    | .nil, d, k, s, hd, hg, hw => by
      obtain ⟨d, rfl⟩ : ∃ d', d = d' + 1 := ⟨d - 1, by omega⟩
      simp only [toAstSs, Spec.checkBlock]
      exact KId.pure s
    | .cons st ss, d, k, s, hd, hg, hw => by
      obtain ⟨d, rfl⟩ : ∃ d', d = d' + 1 := ⟨d - 1, by omega⟩
      rw [toAstSs, Spec.checkBlock, ← toAstSs]
      · exact ((kto_push s).seq ((checkStmts_ok (.cons st ss) d k _ (by omega) hg.pushed hw).to.seq (kto_pop s))).id
      · simp
  theorem checkStmts_ok : ∀ (ss : F1.Stms) (d k : Nat) (s : CSt), budSs ss ≤ d → GoodC names n s →
      wfSs n k ss = true → KId (checkStmts d (toAstSs names ctab ss)) s
    | .nil, d, k, s, hd, hg, hw => by
      simp only [budSs] at hd
      obtain ⟨d, rfl⟩ : ∃ d', d = d' + 1 := ⟨d - 1, by omega⟩
      simp only [toAstSs, Spec.checkStmts]
      exact KId.pure s
    | .cons st ss, d, k, s, hd, hg, hw => by
      simp only [budSs] at hd
      obtain ⟨d, rfl⟩ : ∃ d', d = d' + 1 := ⟨d - 1, by omega⟩
      simp only [wfSs, Bool.and_eq_true] at hw
      simp only [toAstSs, Spec.checkStmts]
      exact (checkStmt_ok st d k s (by omega) hg hw.1).seq (checkStmts_ok ss d _ s (by omega) hg hw.2)
end

theorem inputsOf_contains (names : Nat → String) (n i : Nat) (hi : i < n) :
    (inputsOf names n).contains (names i) = true := by
  simp only [List.contains_iff_mem, inputsOf, List.mem_map, List.mem_range]
  exact ⟨i, hi, rfl⟩

/-- The checker's initial state for the pre-declared inputs. -/
def chkInit (names : Nat → String) (n : Nat) : CSt :=
  { tabs := [(⟨inputsOf names n ++ Spec.builtinNames, false⟩ : Tab)], inputs := inputsOf names n }

/-- **The static check accepts every embedded program** (within its depth budget of 4000). -/
theorem checkProgram_fragment (names : Nat → String) (ctab : Nat → F0.Const) (n : Nat) (ss : F1.Stms)
    (hwf : wfSs n 0 ss = true) (hbud : budSs ss ≤ 4000) :
    Spec.checkProgram (inputsOf names n) (toAstSs names ctab ss) = none := by
  have hg : GoodC names n (chkInit names n) := by
    refine ⟨⟨0, _, rfl, fun i hi => ?_⟩, fun i hi => inputsOf_contains names n i hi⟩
    have := inputsOf_contains names n i hi
    simp only [List.contains_iff_mem, List.mem_append] at this ⊢
    exact Or.inl this
  have h := checkStmts_ok (names := names) (ctab := ctab) ss 4000 0 _ hbud hg hwf
  unfold KId at h
  show (match (checkStmts 4000 (toAstSs names ctab ss)) (chkInit names n) with
    | .ok _ => none
    | .error e => some e) = none
  rw [h]

end
end Tengo.Proofs.C01Bridge

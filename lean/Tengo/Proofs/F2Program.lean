import Tengo.Proofs.F2Stmts
/-!
Fragment F2, whole programs: `program_correct_F2_bounded` / `program_correct_F2` (the analogues of
`program_correct_F1_bounded` / `program_correct_F1`), and what "every `break` / `continue` is inside a loop"
(`scopedSs false ss`) buys: the reference semantics never ends a program with a `break` / `continue` under way
(`exec_scoped`), and the code does not depend on the outer targets (`compSs_scoped`).
-/
set_option linter.unusedSimpArgs false
set_option linter.unusedVariables false
namespace Tengo.Model.F2
open Tengo.Model.F0
variable {V : Type}

/-- **C01 on fragment F2, with the bounded operand stack.** For every program, every fuel: if the reference
semantics finishes with globals `g'`, the machine started at offset 0 with an empty operand stack reaches the end
of the code with an empty stack and globals `g'`, never using more than `depthSs ss ≤ lim` stack slots; a
run-time error of the reference semantics is a data error of the machine. Nothing is claimed when the fuel runs
out. (For a program whose `break` / `continue` are all inside loops these are the only possible results:
`exec_scoped`.) -/
theorem program_correct_F2_bounded (lim : Nat) (S : Sem V) (cs g : Nat → V) (ss : Stms) (f : Nat)
    (hd : depthSs ss ≤ lim) :
    (∀ g', exec S cs f (.inr ss) g = .done g' →
      RunsB lim S cs (compProg ss) ⟨0, [], g⟩ ⟨sssize ss, [], g'⟩) ∧
    (exec S cs f (.inr ss) g = .err → FailsB lim S cs (compProg ss) ⟨0, [], g⟩) := by
  have h := all_okB lim S cs f (.inr ss) g (compProg ss) 0 0 0 [] (At.whole _) (by simpa [depthC] using hd)
  constructor
  · intro g' hg
    rw [hg] at h
    simpa [Good, codeSize] using h
  · intro hg
    rw [hg] at h
    exact h

/-- **C01 on fragment F2** (the analogue of `Tengo.Props.C01.program_correct_F1`): the machine with the unbounded
stack. -/
theorem program_correct_F2 (S : Sem V) (cs g : Nat → V) (ss : Stms) (f : Nat) :
    (∀ g', exec S cs f (.inr ss) g = .done g' →
      Runs S cs (compProg ss) ⟨0, [], g⟩ ⟨sssize ss, [], g'⟩) ∧
    (exec S cs f (.inr ss) g = .err → Fails S cs (compProg ss) ⟨0, [], g⟩) := by
  obtain ⟨h1, h2⟩ := program_correct_F2_bounded (depthSs ss) S cs g ss f (Nat.le_refl _)
  exact ⟨fun g' hg => (h1 g' hg).runs, fun hg => (h2 hg).fails⟩

/-! ### programs whose `break` / `continue` are inside loops -/

/-- A `break` / `continue` is under way. -/
def Res.isEsc : Res V → Bool
  | .brk _ => true
  | .cont _ => true
  | _ => false

/-- A statement (list) whose `break` / `continue` are all inside its own loops never ends with a `break` /
`continue` under way: the results of the reference semantics are `done`, `err`, `out` only. -/
theorem exec_scoped (S : Sem V) (cs : Nat → V) :
    ∀ (f : Nat) (c : Code) (g : Nat → V), scopedC false c = true → (exec S cs f c g).isEsc = false
  | 0, c, g, h => by simp [exec, Res.isEsc]
  | f + 1, .inl (.expr e), g, h => by
    simp only [exec]; cases eval S cs g e <;> rfl
  | f + 1, .inl (.assign i e), g, h => by
    simp only [exec]; cases eval S cs g e <;> rfl
  | f + 1, .inl (.ifs c body), g, h => by
    simp only [exec]
    cases eval S cs g c with
    | none => rfl
    | some a =>
      by_cases hfa : S.falsy a = true
      · simp [hfa, Res.isEsc]
      · simp only [hfa, Bool.false_eq_true, if_false]
        exact exec_scoped S cs f (.inr body) g (by simpa [scopedC, scopedS] using h)
  | f + 1, .inl (.ifelse c body els), g, h => by
    simp only [scopedC, scopedS, Bool.and_eq_true] at h
    simp only [exec]
    cases eval S cs g c with
    | none => rfl
    | some a =>
      by_cases hfa : S.falsy a = true
      · simp only [hfa, if_true]
        exact exec_scoped S cs f (.inr els) g h.2
      · simp only [hfa, Bool.false_eq_true, if_false]
        exact exec_scoped S cs f (.inr body) g h.1
  | f + 1, .inl (.whil c body), g, h => by
    simp only [exec]
    cases eval S cs g c with
    | none => rfl
    | some a =>
      by_cases hfa : S.falsy a = true
      · simp [hfa, Res.isEsc]
      · simp only [hfa, Bool.false_eq_true, if_false]
        cases heb : exec S cs f (.inr body) g with
        | done g1 => exact exec_scoped S cs f _ g1 h
        | cont g1 => exact exec_scoped S cs f _ g1 h
        | brk g1 => rfl
        | err => rfl
        | out => rfl
  | f + 1, .inl (.forever body), g, h => by
    simp only [exec]
    cases heb : exec S cs f (.inr body) g with
    | done g1 => exact exec_scoped S cs f _ g1 h
    | cont g1 => exact exec_scoped S cs f _ g1 h
    | brk g1 => rfl
    | err => rfl
    | out => rfl
  | f + 1, .inl (.for3 c body post), g, h => by
    have hp : scopedC false (.inl post) = true := by
      simp only [scopedC, scopedS, Bool.and_eq_true] at h ⊢; exact h.2
    simp only [exec]
    cases eval S cs g c with
    | none => rfl
    | some a =>
      by_cases hfa : S.falsy a = true
      · simp [hfa, Res.isEsc]
      · simp only [hfa, Bool.false_eq_true, if_false]
        have hrest : ∀ g1, (match exec S cs f (.inl post) g1 with
            | .done g2 => exec S cs f (.inl (.for3 c body post)) g2
            | r => r).isEsc = false := by
          intro g1
          have h1 := exec_scoped S cs f (.inl post) g1 hp
          cases hep : exec S cs f (.inl post) g1 with
          | done g2 => exact exec_scoped S cs f _ g2 h
          | brk g2 => rw [hep] at h1; cases h1
          | cont g2 => rw [hep] at h1; cases h1
          | err => rfl
          | out => rfl
        cases heb : exec S cs f (.inr body) g with
        | done g1 => exact hrest g1
        | cont g1 => exact hrest g1
        | brk g1 => rfl
        | err => rfl
        | out => rfl
  | f + 1, .inl .brk, g, h => by simp [scopedC, scopedS] at h
  | f + 1, .inl .cont, g, h => by simp [scopedC, scopedS] at h
  | f + 1, .inr .nil, g, h => by simp [exec, Res.isEsc]
  | f + 1, .inr (.cons s ss), g, h => by
    simp only [scopedC, scopedSs, Bool.and_eq_true] at h
    simp only [exec]
    have h1 := exec_scoped S cs f (.inl s) g h.1
    cases hes : exec S cs f (.inl s) g with
    | done g1 => exact exec_scoped S cs f (.inr ss) g1 h.2
    | brk g1 => rw [hes] at h1; cases h1
    | cont g1 => rw [hes] at h1; cases h1
    | err => rfl
    | out => rfl

/-- For a program whose `break` / `continue` are inside loops the reference semantics has exactly three kinds of
result: `done`, `err`, or fuel exhaustion. -/
theorem exec_program_cases (S : Sem V) (cs g : Nat → V) (ss : Stms) (f : Nat) (h : scopedSs false ss = true) :
    (∃ g', exec S cs f (.inr ss) g = .done g') ∨ exec S cs f (.inr ss) g = .err ∨
      exec S cs f (.inr ss) g = .out := by
  have h1 := exec_scoped S cs f (.inr ss) g h
  cases hes : exec S cs f (.inr ss) g with
  | done g1 => exact Or.inl ⟨g1, rfl⟩
  | brk g1 => rw [hes] at h1; cases h1
  | cont g1 => rw [hes] at h1; cases h1
  | err => exact Or.inr (Or.inl rfl)
  | out => exact Or.inr (Or.inr rfl)

mutual
  /-- The code of a statement whose `break` / `continue` are inside its own loops does not mention the outer
  targets. -/
  theorem compS_scoped : ∀ (s : Stm) (bt ct bt' ct' off : Nat), scopedS false s = true →
      compS bt ct off s = compS bt' ct' off s
    | .expr e, _, _, _, _, _, _ => by simp [compS]
    | .assign i e, _, _, _, _, _, _ => by simp [compS]
    | .ifs c body, bt, ct, bt', ct', off, h => by
      simp only [scopedS] at h
      simp only [compS, compSs_scoped body bt ct bt' ct' _ h]
    | .ifelse c body els, bt, ct, bt', ct', off, h => by
      simp only [scopedS, Bool.and_eq_true] at h
      simp only [compS, compSs_scoped body bt ct bt' ct' _ h.1, compSs_scoped els bt ct bt' ct' _ h.2]
    | .whil c body, _, _, _, _, _, _ => by simp only [compS]
    | .forever body, _, _, _, _, _, _ => by simp only [compS]
    | .for3 c body post, bt, ct, bt', ct', off, h => by
      simp only [scopedS, Bool.and_eq_true] at h
      simp only [compS, compS_scoped post bt ct bt' ct' _ h.2]
    | .brk, _, _, _, _, _, h => by simp [scopedS] at h
    | .cont, _, _, _, _, _, h => by simp [scopedS] at h
  theorem compSs_scoped : ∀ (ss : Stms) (bt ct bt' ct' off : Nat), scopedSs false ss = true →
      compSs bt ct off ss = compSs bt' ct' off ss
    | .nil, _, _, _, _, _, _ => by simp [compSs]
    | .cons s ss, bt, ct, bt', ct', off, h => by
      simp only [scopedSs, Bool.and_eq_true] at h
      simp only [compSs, compS_scoped s bt ct bt' ct' _ h.1, compSs_scoped ss bt ct bt' ct' _ h.2]
end

end Tengo.Model.F2

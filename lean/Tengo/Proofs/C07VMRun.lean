import Tengo.Model.VMAbort
import Tengo.Proofs.VMRun
/-!
Helper lemmas for `Props/C07VM`: `VM.run` as the iteration of `VMAbort.dispatch`, the abortable loop
`runAbort` expressed through `VM.run`, dispatch counts.
-/
namespace Tengo.Model.VMAbort
open Tengo.Model.VM Tengo.Model.Spec

/-! ### `VM.run` is the iteration of `dispatch` -/

/-- The log after a dispatch that goes on. -/
def logAfter (log : Log) (keep : Nat) (cfg : Cfg) (allocs : Int) (counted : Bool) : Log :=
  if counted then (log.tick keep (observe cfg.core allocs)).count else log.tick keep (observe cfg.core allocs)

@[simp] theorem logAfter_steps (log : Log) (keep : Nat) (cfg : Cfg) (allocs : Int) (counted : Bool) :
    (logAfter log keep cfg allocs counted).steps = log.steps + 1 := by
  cases counted <;> simp [logAfter]

theorem run_dispatch (code : Code) (keep fuel : Nat) (allocs : Int) (cfg : Cfg) (log : Log) :
    run code keep (fuel + 1) allocs cfg log =
      match dispatch code allocs cfg with
      | .stop o => (o, log.tick keep (observe cfg.core allocs))
      | .go cfg' allocs' counted => run code keep fuel allocs' cfg' (logAfter log keep cfg allocs counted) := by
  rw [run_succ]
  unfold dispatch
  generalize (((exec code cfg.core).run).run cfg.gst).run cfg.heap = x
  split
  · rfl
  · rfl
  · rfl
  · rfl
  · simp only [logAfter]
    split <;> rfl

theorem dispatch_stop_ne {code : Code} {allocs : Int} {cfg : Cfg} {o : VM.Outcome}
    (h : dispatch code allocs cfg = .stop o) (c : Cfg) : o ≠ .outOfFuel c := by
  unfold dispatch at h
  generalize (((exec code cfg.core).run).run cfg.gst).run cfg.heap = x at h
  split at h
  · cases h; simp
  · cases h; simp
  · cases h; simp
  · cases h
  · split at h
    · cases h; simp
    · cases h

@[simp] theorem run_zero (code : Code) (keep : Nat) (allocs : Int) (cfg : Cfg) (log : Log) :
    run code keep 0 allocs cfg log = (.outOfFuel cfg, log) := by
  rw [run]

/-! ### unfolding `runAbort` -/

@[simp] theorem runAbort_now (code : Code) (keep fuel : Nat) (allocs : Int) (cfg : Cfg) (log : Log) :
    runAbort code keep (some 0) fuel allocs cfg log = (.aborted cfg, log) := by
  unfold runAbort
  rfl

theorem runAbort_zero (code : Code) (keep : Nat) (ab : Option Nat) (hab : ab ≠ some 0) (allocs : Int) (cfg : Cfg)
    (log : Log) : runAbort code keep ab 0 allocs cfg log = (.fin (.outOfFuel cfg), log) := by
  unfold runAbort
  split
  · exact absurd rfl hab
  · rfl
  · rename_i h; cases h

theorem runAbort_succ (code : Code) (keep fuel : Nat) (ab : Option Nat) (hab : ab ≠ some 0) (allocs : Int)
    (cfg : Cfg) (log : Log) :
    runAbort code keep ab (fuel + 1) allocs cfg log =
      match dispatch code allocs cfg with
      | .stop o => (.fin o, log.tick keep (observe cfg.core allocs))
      | .go cfg' allocs' counted =>
        runAbort code keep (tickAbort ab) fuel allocs' cfg' (logAfter log keep cfg allocs counted) := by
  conv => lhs; unfold runAbort
  split
  · exact absurd rfl hab
  · rename_i h; cases h
  · rename_i h1 h2 h3
    cases h3
    rfl

/-! ### `runAbort` through `VM.run` -/

/-- The view of a `VM.run` result as a result of the abortable loop that was never aborted. -/
def finView (x : VM.Outcome × Log) : AOutcome × Log := (.fin x.1, x.2)

/-- The view of a `VM.run` result with fuel `k` as the result of the loop whose poll sees the flag after `k`
dispatches: if the run was still going after `k` dispatches ("out of fuel" at configuration `c`) the poll
stops it there; otherwise the run had ended by itself. -/
def abortView (x : VM.Outcome × Log) : AOutcome × Log :=
  match x.1 with
  | .outOfFuel c => (.aborted c, x.2)
  | o => (.fin o, x.2)

theorem abortView_of_ne {o : VM.Outcome} {l : Log} (h : ∀ c, o ≠ .outOfFuel c) : abortView (o, l) = (.fin o, l) := by
  unfold abortView
  split
  · rename_i c heq; exact absurd heq (h c)
  · rfl

theorem runAbort_none (code : Code) (keep : Nat) :
    ∀ (fuel : Nat) (allocs : Int) (cfg : Cfg) (log : Log),
      runAbort code keep none fuel allocs cfg log = finView (run code keep fuel allocs cfg log) := by
  intro fuel
  induction fuel with
  | zero => intro allocs cfg log; rw [runAbort_zero _ _ _ (by simp)]; simp [finView]
  | succ fuel ih =>
    intro allocs cfg log
    rw [runAbort_succ _ _ _ _ (by simp), run_dispatch]
    cases dispatch code allocs cfg with
    | stop o => rfl
    | go cfg' allocs' counted => exact ih _ _ _

theorem runAbort_some (code : Code) (keep : Nat) :
    ∀ (k fuel : Nat) (allocs : Int) (cfg : Cfg) (log : Log),
      runAbort code keep (some k) fuel allocs cfg log =
        if k ≤ fuel then abortView (run code keep k allocs cfg log)
        else finView (run code keep fuel allocs cfg log) := by
  intro k
  induction k with
  | zero => intro fuel allocs cfg log; simp [abortView]
  | succ k ih =>
    intro fuel allocs cfg log
    cases fuel with
    | zero => rw [runAbort_zero _ _ _ (by simp)]; simp [finView]
    | succ fuel =>
      rw [runAbort_succ _ _ _ _ (by simp), run_dispatch, run_dispatch]
      cases hd : dispatch code allocs cfg with
      | stop o =>
        simp only
        rw [abortView_of_ne (dispatch_stop_ne hd)]
        simp [finView]
      | go cfg' allocs' counted =>
        simp only [tickAbort, Nat.add_sub_cancel]
        rw [ih]
        simp

/-! ### dispatch counts -/

theorem run_steps_le (code : Code) (keep : Nat) :
    ∀ (fuel : Nat) (allocs : Int) (cfg : Cfg) (log : Log),
      log.steps ≤ (run code keep fuel allocs cfg log).2.steps ∧
      (run code keep fuel allocs cfg log).2.steps ≤ log.steps + fuel := by
  intro fuel
  induction fuel with
  | zero => intro allocs cfg log; simp
  | succ fuel ih =>
    intro allocs cfg log
    rw [run_dispatch]
    cases dispatch code allocs cfg with
    | stop o => simp
    | go cfg' allocs' counted =>
      have := ih allocs' cfg' (logAfter log keep cfg allocs counted)
      simp only [logAfter_steps] at this
      simp only
      omega

theorem run_steps_outOfFuel (code : Code) (keep : Nat) :
    ∀ (fuel : Nat) (allocs : Int) (cfg : Cfg) (log : Log) (c : Cfg),
      (run code keep fuel allocs cfg log).1 = .outOfFuel c →
      (run code keep fuel allocs cfg log).2.steps = log.steps + fuel := by
  intro fuel
  induction fuel with
  | zero => intro allocs cfg log c _; simp
  | succ fuel ih =>
    intro allocs cfg log c
    rw [run_dispatch]
    cases hd : dispatch code allocs cfg with
    | stop o => intro h; exact absurd h (dispatch_stop_ne hd c)
    | go cfg' allocs' counted =>
      intro h
      have := ih allocs' cfg' (logAfter log keep cfg allocs counted) c h
      simp only [logAfter_steps] at this
      simp only
      omega

/-- A run that ended by itself made at least one dispatch. -/
theorem run_steps_pos (code : Code) (keep fuel : Nat) (allocs : Int) (cfg : Cfg) (log : Log)
    (h : ∀ c, (run code keep fuel allocs cfg log).1 ≠ .outOfFuel c) :
    log.steps + 1 ≤ (run code keep fuel allocs cfg log).2.steps := by
  cases fuel with
  | zero => exact absurd (by simp) (h cfg)
  | succ fuel =>
    rw [run_dispatch]
    cases dispatch code allocs cfg with
    | stop o => simp
    | go cfg' allocs' counted =>
      have := (run_steps_le code keep fuel allocs' cfg' (logAfter log keep cfg allocs counted)).1
      simp only [logAfter_steps] at this
      exact this

/-- More fuel, at least as many dispatches. -/
theorem run_steps_mono (code : Code) (keep : Nat) :
    ∀ (fuel j : Nat) (allocs : Int) (cfg : Cfg) (log : Log),
      (run code keep fuel allocs cfg log).2.steps ≤ (run code keep (fuel + j) allocs cfg log).2.steps := by
  intro fuel
  induction fuel with
  | zero => intro j allocs cfg log; simpa using (run_steps_le code keep j allocs cfg log).1
  | succ fuel ih =>
    intro j allocs cfg log
    have hk : fuel + 1 + j = (fuel + j) + 1 := by omega
    rw [hk, run_dispatch, run_dispatch]
    cases dispatch code allocs cfg with
    | stop o => exact Nat.le_refl _
    | go cfg' allocs' counted => exact ih j _ _ _

/-- Once a run has ended by itself, every run with at least that much fuel is the same run. -/
theorem run_ended_ge (code : Code) (keep : Nat) {fuel fuel' : Nat} (hle : fuel ≤ fuel') (allocs : Int) (cfg : Cfg)
    (log : Log) (h : ∀ c, (run code keep fuel allocs cfg log).1 ≠ .outOfFuel c) :
    run code keep fuel' allocs cfg log = run code keep fuel allocs cfg log := by
  obtain ⟨j, rfl⟩ := Nat.exists_eq_add_of_le hle
  exact run_fuel_mono code keep fuel allocs cfg log j h

/-- A run that is still going after `fuel'` dispatches was still going after every smaller number. -/
theorem run_going_le (code : Code) (keep : Nat) {fuel fuel' : Nat} (hle : fuel ≤ fuel') (allocs : Int) (cfg : Cfg)
    (log : Log) (c' : Cfg) (h : (run code keep fuel' allocs cfg log).1 = .outOfFuel c') :
    ∃ c, (run code keep fuel allocs cfg log).1 = .outOfFuel c := by
  apply Classical.byContradiction
  intro hn
  have hn' : ∀ c, (run code keep fuel allocs cfg log).1 ≠ .outOfFuel c := fun c hc => hn ⟨c, hc⟩
  have := run_ended_ge code keep hle allocs cfg log hn'
  rw [this] at h
  exact hn' c' h

/-- The dispatch count with fuel `k` is `min k L`, `L` the length of the uninterrupted run. -/
theorem run_steps_min (code : Code) (keep : Nat) (k F : Nat) (allocs : Int) (cfg : Cfg) (log : Log)
    (hF : ∀ c, (run code keep F allocs cfg log).1 ≠ .outOfFuel c) :
    (run code keep k allocs cfg log).2.steps =
      log.steps + min k ((run code keep F allocs cfg log).2.steps - log.steps) := by
  have hL := run_steps_le code keep F allocs cfg log
  rcases Nat.le_total F k with hle | hle
  · rw [run_ended_ge code keep hle allocs cfg log hF]
    omega
  · by_cases hk : ∀ c, (run code keep k allocs cfg log).1 ≠ .outOfFuel c
    · have hk' := run_steps_le code keep k allocs cfg log
      rw [run_ended_ge code keep hle allocs cfg log hk]
      omega
    · have ⟨c, hc⟩ : ∃ c, (run code keep k allocs cfg log).1 = .outOfFuel c := by
        apply Classical.byContradiction
        intro hn
        exact hk (fun c hc => hn ⟨c, hc⟩)
      have h1 := run_steps_outOfFuel code keep k allocs cfg log c hc
      obtain ⟨j, rfl⟩ := Nat.exists_eq_add_of_le hle
      have h2 := run_steps_mono code keep k j allocs cfg log
      omega

end Tengo.Model.VMAbort

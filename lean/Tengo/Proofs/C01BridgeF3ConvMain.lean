import Tengo.Proofs.C01BridgeF3ConvBase
/-!
C01 bridge for fragment F3, converse direction, the main program: function literals stored by top-level statements
(`mainConv`, the converse of `mainSim`), given all forms at every fuel of the interpreter.
-/
set_option linter.unusedVariables false
set_option linter.unusedSimpArgs false
namespace Tengo.Proofs.C01BridgeF3Conv
open Tengo.Model Tengo.Model.Spec
open Tengo.Model.F3 (Ex Exs Stm Stms FnDef Prog Locals ERes EsRes Res updL bindArgs)
open Tengo.Proofs.C01Bridge
open Tengo.Proofs.C01BridgeF3 (DataRel NotCallable)
open Tengo.Proofs.C01BridgeF3Comp
open Tengo.Proofs.C01F3Opt (EnvOk)
open Tengo.Proofs.C11Rename (isFuncLit)
open Tengo.Proofs.C01BridgeF3Spec

variable {V : Type} {C : Cx V}

/-- The main program at fuel `F` of the interpreter, for every fuel `f ≥ F` of the evaluator. -/
def MainConv (C : Cx V) (F : Nat) (ss : Stms) : Prop :=
  ∀ (ctx : Ctx) (gs : GSt) (σ : St) (g : Nat → V) (l : Locals V) (k i f : Nat),
    F ≤ f → ctx.env = C.genv → GInv C σ g → wfMain C.P C.n k ss = true →
    Fz (execStmts F ctx (toAstMain C.names C.lnames C.ctab C.P ss) i) gs σ ∨
    CM C (execStmts F ctx (toAstMain C.names C.lnames C.ctab C.P ss) i) gs σ (F3.execSs C.E C.P f ss g l)

theorem mainConv (hy : Hyp C) (hall : ∀ F, AllConv C F) : ∀ (F : Nat) (ss : Stms), MainConv C F ss
  | 0, ss => by
    intro ctx gs σ g l k i f hf henv hg hw
    exact .inl (Fz.fuel (execStmts_zero _ _ _ _ _))
  | F + 1, .nil => by
    intro ctx gs σ g l k i f hf henv hg hw
    obtain ⟨f, rfl⟩ : ∃ f', f = f' + 1 := ⟨f - 1, by omega⟩
    simp only [toAstMain, execStmts.eq_2, F3.execSs]
    exact .inr ⟨σ, by rw [henv]; exact EOk.pure _ gs σ, hg⟩
  | F + 1, .cons s ss => by
    intro ctx gs σ g l k i f hf henv hg hw
    obtain ⟨f, rfl⟩ : ∃ f', f = f' + 1 := ⟨f - 1, by omega⟩
    have hf' : F ≤ f := by omega
    have hrec := mainConv hy hall F ss
    simp only [wfMain, Bool.and_eq_true] at hw
    obtain ⟨hw1, hw2⟩ := hw
    simp only [toAstMain, execStmts.eq_3, F3.execSs]
    have he : EInv C ctx.env 0 (fun _ => 0) := ⟨fun j hj => by rw [henv]; exact hy.genv j hj, fun j hj => by omega⟩
    -- the rest of the program after a first statement that ended normally in `σ1`, globals `g1`
    have hrest : ∀ (σ1 : St) (g1 : Nat → V) (l1 : Locals V) (k' : Nat), GInv C σ1 g1 →
        wfMain C.P C.n k' ss = true →
        Fz (execStmts F { env := ctx.env, callDepth := ctx.callDepth, path := ctx.path }
          (toAstMain C.names C.lnames C.ctab C.P ss) (i + 1)) gs σ1 ∨
        CM C (execStmts F { env := ctx.env, callDepth := ctx.callDepth, path := ctx.path }
          (toAstMain C.names C.lnames C.ctab C.P ss) (i + 1)) gs σ1 (F3.execSs C.E C.P f ss g1 l1) :=
      fun σ1 g1 l1 k' hg1 hwk =>
        hrec { env := ctx.env, callDepth := ctx.callDepth, path := ctx.path } gs σ1 g1 l1 k' (i + 1) f hf' henv hg1 hwk
    -- sequencing: first statement ok, then the rest
    have hseq : ∀ {x : EM (Flow × Spec.Env)} {σ1 : St} {g1 : Nat → V} {l1 : Locals V} {k' : Nat},
        EOk x gs σ (Flow.normal, ctx.env) σ1 → GInv C σ1 g1 → wfMain C.P C.n k' ss = true →
        Fz (x >>= fun r => match r with
          | (fl, env') => match fl with
            | Flow.normal => execStmts F { env := env', callDepth := ctx.callDepth, path := ctx.path }
                (toAstMain C.names C.lnames C.ctab C.P ss) (i + 1)
            | f => pure (f, env')) gs σ ∨
        CM C (x >>= fun r => match r with
          | (fl, env') => match fl with
            | Flow.normal => execStmts F { env := env', callDepth := ctx.callDepth, path := ctx.path }
                (toAstMain C.names C.lnames C.ctab C.P ss) (i + 1)
            | f => pure (f, env')) gs σ (F3.execSs C.E C.P f ss g1 l1) := by
      intro x σ1 g1 l1 k' hok1 hg1 hwk
      rcases hrest σ1 g1 l1 k' hg1 hwk with hfu | hr
      · exact .inl (Fz.bind_right hok1 hfu)
      · refine .inr ?_
        cases hss : F3.execSs C.E C.P f ss g1 l1 with
        | done g2 l2 =>
          rw [hss] at hr
          obtain ⟨σ2, hok2, hg2⟩ := hr
          exact ⟨σ2, EOk.bind hok1 hok2, hg2⟩
        | err =>
          rw [hss] at hr
          obtain ⟨err, hne, herr⟩ := hr
          exact ⟨err, hne, EErr.bind_right hok1 herr⟩
        | brk _ _ => exact True.intro
        | cont _ _ => exact True.intro
        | ret _ _ => exact True.intro
        | out => rw [hss] at hr; exact hr.elim
        | bad => exact True.intro
    cases htf : topFn C.P s with
    | none =>
      rw [htf] at hw1
      simp only [toAstTop, htf]
      rcases (hall F).s s { env := ctx.env, callDepth := ctx.callDepth, path := i :: ctx.path } gs σ
        g l 0 (fun _ => 0) 0 k false false f hf' he (HInv.noLocals hg (Nat.zero_le _) _ l) hw1 with hfu | ha
      · exact .inl hfu.bind_left
      · cases hs : F3.execS C.E C.P f s g l with
        | done g1 l1 =>
          rw [hs] at ha
          obtain ⟨σ1, hok1, hh1, hf1⟩ := ha
          exact hseq hok1 hh1.glob hw2
        | err => rw [hs] at ha; obtain ⟨err, hne, herr⟩ := ha; exact .inr ⟨err, hne, EErr.bind_left herr⟩
        | brk _ _ => exact .inr True.intro
        | cont _ _ => exact .inr True.intro
        | ret _ _ => exact .inr True.intro
        | out => rw [hs] at ha; exact ha.elim
        | bad => exact .inr True.intro
    | some t =>
      obtain ⟨i0, j, fd⟩ := t
      rw [htf] at hw1
      simp only [Bool.and_eq_true, decide_eq_true_eq] at hw1
      obtain ⟨rfl, hfd⟩ := C01BridgeF3Spec.topFn_some htf
      have hi0 : i0 < C.n := hw1.1.1
      simp only [toAstTop, htf, funcLit]
      cases F with
      | zero => exact .inl (Fz.bind_left (Fz.fuel (execStmt_zero _ _ _ _)))
      | succ F =>
        simp only [ex_assign_fn]
        cases F with
        | zero => exact .inl (Fz.bind_left (Fz.bind_left (Fz.fuel (evalExpr_zero _ _ _ _))))
        | succ F =>
          obtain ⟨f, rfl⟩ : ∃ f', f = f' + 1 + 1 := ⟨f - 2, by omega⟩
          simp only [F3.execS, F3.evalE]
          simp only [ex_assignTo]
          have hclos := clos_eq C fd ctx.env henv
          have hfunc := ev_func F { env := ctx.env, callDepth := ctx.callDepth, path := i :: ctx.path } false
            (paramsOf C.lnames fd.nparams) (toAstSs3 C.names C.lnames C.ctab fd.body) gs σ
          rw [show ({ env := ctx.env, callDepth := ctx.callDepth, path := i :: ctx.path } : Ctx).env = ctx.env from rfl,
            hclos] at hfunc
          have hh0 := (HInv.noLocals (B := 0) hg (Nat.zero_le _) (fun _ => 0) l).push (.clos (C.clos fd))
          have hvr : VR C (pushSt σ (.clos (C.clos fd))) (C.E.cs j) (.fn σ.heap.size) :=
            .inr ⟨j, fd, σ.heap.size, asFn_cs hy hfd, hfd, rfl, pushSt_get_new σ _⟩
          have hh2 := hh0.setGlob hy hi0 hvr
          have hwr := writeVar_run (he.glob i0 hi0) (.fn σ.heap.size) gs (pushSt σ (.clos (C.clos fd)))
          have hok1 : EOk (do
                let v ← evalExpr (F + 1) { env := ctx.env, callDepth := ctx.callDepth, path := i :: ctx.path }
                  (.func false (paramsOf C.lnames fd.nparams) (toAstSs3 C.names C.lnames C.ctab fd.body))
                let env' ← (do
                  writeVar ({ env := ctx.env, callDepth := ctx.callDepth, path := i :: ctx.path } : Ctx).env
                    (C.names i0) v
                  pure ({ env := ctx.env, callDepth := ctx.callDepth, path := i :: ctx.path } : Ctx).env :
                    EM Spec.Env)
                pure (Flow.normal, env')) gs σ (Flow.normal, ctx.env)
              (setSt (pushSt σ (.clos (C.clos fd))) (C.cells i0) (.cell (.fn σ.heap.size) false)) :=
            EOk.bind hfunc (EOk.bind (EOk.bind hwr (EOk.pure _ gs _)) (EOk.pure _ gs _))
          exact hseq hok1 hh2.glob hw2

end Tengo.Proofs.C01BridgeF3Conv

import Tengo.Proofs.C01BridgeF3ConvFwdExpr
import Tengo.Proofs.C01BridgeF3ConvFwdStmt
import Tengo.Proofs.C01BridgeF3ConvFwdCall
/-!
C01 bridge for fragment F3, forward direction without the fuel bound: all forms at every fuel of the evaluator
(`all_fwd3`, the variant of `all_sim3` with the `excluded` outcome instead of `2·depth + f ≤ 1800`).
-/
set_option linter.unusedVariables false
set_option linter.unusedSimpArgs false
namespace Tengo.Proofs.C01BridgeF3Conv
open Tengo.Model Tengo.Model.Spec
open Tengo.Model.F3 (Ex Exs Stm Stms FnDef Prog Locals ERes EsRes Res updL bindArgs)
open Tengo.Proofs.C01Bridge
open Tengo.Proofs.C01BridgeF3Comp
open Tengo.Proofs.C01BridgeF3Spec

variable {V : Type} {C : Cx V}

/-- **All forms, at every fuel of the fragment's evaluator, no bound.** -/
theorem all_fwd3 (hy : Hyp C) : ∀ f : Nat, AllFwd C f
  | 0 =>
    ⟨evalFwd_zero, evalsFwd_zero, callFwd_zero, stmtFwd_zero, stmtsFwd_zero, whileFwd_zero, foreverFwd_zero,
      for3Fwd_zero, deflFwd_zero, bodyFwd_zero⟩
  | f + 1 => by
    have ih := all_fwd3 hy f
    have hW : ∀ c body, WhileFwd C (f + 1) c body :=
      fun c body => whileFwd_succ hy f ih.e c body (blockFwd_of (ih.ss body)) (ih.whil c body)
    have hFo : ∀ body, ForeverFwd C (f + 1) body :=
      fun body => foreverFwd_succ f body (blockFwd_of (ih.ss body)) (ih.forever body)
    have h3 : ∀ c body post, For3Fwd C (f + 1) c body post :=
      fun c body post => for3Fwd_succ hy f ih.e c body post (blockFwd_of (ih.ss body)) (ih.s post) (ih.for3 c body post)
    refine ⟨evalFwd_succ hy f ih.e ih.es ih.call, evalsFwd_succ f ih.e ih.es, callFwd_succ hy f ih.body, fun st => ?_,
      fun ss => ?_, hW, hFo, h3, deflFwd_succ hy f ih.e, fun ss => ?_⟩
    · cases st with
      | expr e => exact stmtFwd_expr f ih.e e
      | assign i e => exact stmtFwd_assign hy f ih.e i e
      | defl i e =>
        intro F ctx gs σ g l m lc B k inFn inl hF he hh hw
        simp [wfS3] at hw
      | setl i e => exact stmtFwd_setl f ih.e i e
      | ifs c body => exact stmtFwd_ifs hy f ih.e c body (blockFwd_of (ih.ss body))
      | ifelse c body els =>
        exact stmtFwd_ifelse hy f ih.e c body els (blockFwd_of (ih.ss body)) (blockFwd_of (ih.ss els))
      | whil c body => exact stmtFwd_whil f c body (hW c body)
      | forever body => exact stmtFwd_forever f body (hFo body)
      | for3 c body post => exact stmtFwd_for3 f c body post (h3 c body post)
      | brk => exact stmtFwd_brk f
      | cont => exact stmtFwd_cont f
      | ret e => exact stmtFwd_ret f ih.e e
      | ret0 => exact stmtFwd_ret0 hy f
    · cases ss with
      | nil => exact stmtsFwd_nil f
      | cons st ss => exact stmtsFwd_cons f st ss (ih.s st) (ih.ss ss)
    · cases ss with
      | nil => exact bodyFwd_nil f
      | cons st ss => exact bodyFwd_cons f st ss (ih.s st) ih.defl (ih.body ss)

end Tengo.Proofs.C01BridgeF3Conv

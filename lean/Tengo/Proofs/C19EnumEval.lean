import Tengo.Proofs.C19EnumBase
import Tengo.Proofs.C19EnumAst
/-!
C19, enum module, layer 1: evaluation steps of the reference interpreter used by the module's functions
(identifiers, calls of closures and builtins, the `is_enumerable` guard).
-/
set_option linter.unusedVariables false
set_option linter.unusedSimpArgs false
namespace Tengo.Proofs.C19Enum
open Tengo.Model Tengo.Model.Spec

theorem ev_ident {σ : St} {ctx : Ctx} {n : String} {val : Value} (h : Var σ ctx.env n val) (F : Nat) (gs : GSt) :
    evalExpr (F + 1) ctx (.ident n) gs σ = .ok ((val, gs), σ) := by
  simp only [evalExpr]; exact readVar_run h gs

theorem ev_builtin_ident {ctx : Ctx} {n : String} (h : lookupVar ctx.env n = none)
    (hb : builtinNames.contains n = true) (F : Nat) (gs : GSt) (σ : St) :
    evalExpr (F + 1) ctx (.ident n) gs σ = .ok ((.builtin n, gs), σ) := by
  simp only [evalExpr]; unfold readVar; simp only [h, hb]; rfl

theorem evalExprs_cons (F : Nat) (ctx : Ctx) (e : Expr) (es : List Expr) :
    evalExprs (F + 1) ctx (e :: es) = (do
      let v ← evalExpr F ctx e
      let vs ← evalExprs F ctx es
      pure (v :: vs)) := by
  simp only [evalExprs]

theorem ev_args1 {σ : St} {ctx : Ctx} {a : String} {va : Value} (ha : Var σ ctx.env a va) (F : Nat) (gs : GSt) :
    evalExprs (F + 2) ctx [.ident a] gs σ = .ok (([va], gs), σ) := by
  simp only [evalExprs]
  rw [em_bind_ok (ev_ident ha F gs)]
  rfl

theorem ev_args2 {σ : St} {ctx : Ctx} {a b : String} {va vb : Value} (ha : Var σ ctx.env a va)
    (hb : Var σ ctx.env b vb) (F : Nat) (gs : GSt) :
    evalExprs (F + 3) ctx [.ident a, .ident b] gs σ = .ok (([va, vb], gs), σ) := by
  rw [evalExprs_cons, em_bind_ok (ev_ident ha (F + 1) gs), em_bind_ok (ev_args1 hb F gs)]
  rfl

theorem call_fn_run {F : Nat} {ctx : Ctx} {f : Expr} {args : List Expr} {gs : GSt} {σ : St} {r : Nat}
    {avs : List Value} {c : Closure}
    (hf : evalExpr F ctx f gs σ = .ok ((.fn r, gs), σ)) (ha : evalExprs F ctx args gs σ = .ok ((avs, gs), σ))
    (hc : σ.heap[r]? = some (.clos c)) :
    evalExpr (F + 1) ctx (.call false f args) gs σ = callClosure F ctx c avs gs σ := by
  simp only [evalExpr]
  rw [em_bind_ok hf, em_bind_ok ha]
  simp only [Bool.false_eq_true, if_false]
  rw [em_bind_ok (em_pure _ _ _), em_bind_ok (liftM_ok (getObj_run hc))]

theorem call_builtin_run {F : Nat} {ctx : Ctx} {f : Expr} {args : List Expr} {gs : GSt} {σ : St} {n : String}
    {avs : List Value}
    (hf : evalExpr F ctx f gs σ = .ok ((.builtin n, gs), σ)) (ha : evalExprs F ctx args gs σ = .ok ((avs, gs), σ)) :
    evalExpr (F + 1) ctx (.call false f args) gs σ = callBuiltin n avs gs σ := by
  simp only [evalExpr]
  rw [em_bind_ok hf, em_bind_ok ha]
  simp only [Bool.false_eq_true, if_false]
  rw [em_bind_ok (em_pure _ _ _)]

/-- Context in which the body of a two-parameter closure runs when called in heap `σ`. -/
def enter2 (env : Env) (ctx : Ctx) (p q : String) (σ : St) : Ctx :=
  { env := { vars := [(q, σ.heap.size + 1), (p, σ.heap.size)], isFn := true } :: env,
    callDepth := ctx.callDepth + 1, path := [] }

def st2 (σ : St) (a b : Value) : St := pushSt (pushSt σ (.cell a false)) (.cell b false)

theorem callClosure2 {F : Nat} {ctx : Ctx} {body : List Stmt} {env : Env} {p q : String} {a b : Value}
    (gs : GSt) (σ : St) (hd : ctx.callDepth < 900) (hpq : (p != q) = true) :
    callClosure (F + 1) ctx ⟨[p, q], false, body, env⟩ [a, b] gs σ =
      (do match ← execBlock F (enter2 env ctx p q σ) body 0 with
          | .ret v => pure v
          | _ => pure Value.undef : EM Value) gs (st2 σ a b) := by
  simp only [callClosure, Bool.false_eq_true, if_false, List.length_cons, List.length_nil]
  rw [em_bind_ok (em_pure _ _ _)]
  have hd' : ¬ (ctx.callDepth ≥ 900) := by omega
  simp only [List.length_cons, List.length_nil, bne_self_eq_false, Bool.false_eq_true, if_false, hd',
    List.zip_cons_cons, List.zip_nil_right, List.forIn_cons, List.forIn_nil]
  simp only [bind_assoc, pure_bind]
  rw [em_bind_ok (liftM_ok (alloc_run _ _)), em_bind_ok (liftM_ok (alloc_run _ _))]
  simp only [List.filter_nil, List.filter_cons, hpq, if_true, pushSt_size]
  rfl

theorem st2_get0 (σ : St) (a b : Value) : (st2 σ a b).heap[σ.heap.size]? = some (.cell a false) :=
  (ext_push _ _).keep _ _ (pushSt_new σ _)

theorem st2_get1 (σ : St) (a b : Value) : (st2 σ a b).heap[σ.heap.size + 1]? = some (.cell b false) := by
  have := pushSt_new (pushSt σ (.cell a false)) (.cell b false)
  rwa [pushSt_size] at this

theorem ext_st2 (σ : St) (a b : Value) : Ext σ (st2 σ a b) := (ext_push _ _).trans (ext_push _ _)

theorem var_push {σ : St} {E : Env} {n : String} {val : Value} (h : Var σ E n val) (tag : Nat) :
    Var σ ({ vars := [] } :: E) n val := by
  obtain ⟨c, b, h1, h2⟩ := h
  exact ⟨c, b, by rw [lookupVar_cons]; exact h1, h2⟩

/-- A block that is `return <name>`. -/
theorem block_ret_ident {σ : St} {ctx : Ctx} {n : String} {val : Value} (h : Var σ ctx.env n val)
    (F tag : Nat) (gs : GSt) :
    execBlock (F + 4) ctx [.ret (some (.ident n))] tag gs σ = .ok ((.ret val, gs), σ) := by
  simp only [execBlock, execStmts, execStmt]
  simp only [bind_assoc, pure_bind]
  rw [em_bind_ok (ev_ident (ctx := { env := { vars := [] } :: ctx.env, callDepth := ctx.callDepth, path := 0 :: tag :: ctx.path }) (var_push h 0) F gs)]
  rfl

end Tengo.Proofs.C19Enum

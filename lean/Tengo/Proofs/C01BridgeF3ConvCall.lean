import Tengo.Proofs.C01BridgeF3ConvBase
/-!
C01 bridge for fragment F3, reference-interpreter side, CONVERSE direction: local definitions at the top level of a
function body (`DeflConv`), function bodies (`BodyConv`) and the call proper (`CallConv`), each at fuel `0` and at
fuel `F + 1` of the interpreter from the statements at smaller fuels.

`callClosure (F + 1)` runs `execBlock F`, which runs `execStmts (F - 1)`: the call at fuel `F + 1` needs the bodies at
fuel `F - 1`, so `callConv_succ` takes the bodies at every fuel `≤ F`.
-/
set_option linter.unusedVariables false
set_option linter.unusedSimpArgs false
namespace Tengo.Proofs.C01BridgeF3Conv
open Tengo.Model Tengo.Model.Spec
open Tengo.Model.F3 (Ex Exs Stm Stms FnDef Prog Locals ERes EsRes Res updL bindArgs)
open Tengo.Proofs.C01Bridge
open Tengo.Proofs.C01BridgeF3 (DataRel NotCallable)
open Tengo.Proofs.C01BridgeF3Comp
open Tengo.Proofs.C01F3Opt (EnvOk)
open Tengo.Proofs.C11Rename (isFuncLit)
open Tengo.Proofs.C01BridgeF3Spec
variable {V : Type} {C : Cx V}

/-! ### fuel 0 -/

theorem deflConv_zero (e : Ex) : DeflConv C 0 e := by
  intro ctx gs σ g l m lc B k f hF hdep he hh hw
  exact .inl (Fz.fuel (execStmt_zero _ _ _ _))

theorem bodyConv_zero (ss : Stms) : BodyConv C 0 ss := by
  intro ctx gs σ g l m lc B k i f hF hdep he hh hw
  exact .inl (Fz.fuel (execStmts_zero _ _ _ _ _))

/-- A value that is not a function: the interpreter and the evaluator (with some fuel) both say "not callable". -/
theorem call_scalar (hy : Hyp C) (F : Nat) (ctx : Ctx) (gs : GSt) (σ : St) (g : Nat → V) (fv : V) (vs : List V)
    (ws : List Value) (f : Nat) (hs : Scalar (C.val fv) = true) :
    CC C (callTail F ctx (C.val fv) ws) gs σ (F3.callFn C.E C.P (f + 1) fv vs g) := by
  simp only [F3.callFn]
  cases hfn : C.E.asFn fv with
  | none =>
    dsimp only
    exact callTail_notfn _ ctx _ ws gs σ (fun r h => by rw [h] at hs; cases hs)
      (fun nm h => by rw [h] at hs; cases hs)
  | some k =>
    have := hy.env.asFn_some fv k hfn
    rw [this] at hs; cases hs

theorem callConv_zero (hy : Hyp C) : CallConv C 0 := by
  intro ctx gs σ g fv w vs ws f hF hpos hv hvs hg
  obtain ⟨f', rfl⟩ : ∃ f', f = f' + 1 := ⟨f - 1, by omega⟩
  rcases hv with ⟨hs, rfl⟩ | ⟨k, fd, r, h1, hfd, rfl, hcl⟩
  · exact .inr (call_scalar hy 0 ctx gs σ g fv vs ws f' hs)
  · exact .inl (Fz.congr (Fz.fuel (callClosure_zero ctx (C.clos fd) ws gs σ))
      (callTail_fn 0 ctx r ws (C.clos fd) gs σ hcl).symm)

/-! ### local definitions -/

/-- `nm := r` with any positive fuel (`ex_define` needs two units). -/
theorem ex_define' (F : Nat) (ctx : Ctx) (nm : String) (r : Expr) (hr : isFuncLit r = false) :
    execStmt (F + 1) ctx (.assign "Define" [.ident nm] [r]) = (do
      let v ← evalExpr F ctx r
      let env' ← assignTo F ctx "Define" (.ident nm) v
      pure (Flow.normal, env')) := by
  cases r <;> first
    | (simp [isFuncLit] at hr; done)
    | (simp only [execStmt]; rfl)

theorem deflConv_succ (hy : Hyp C) (F : Nat) (ihE : ∀ F', F' ≤ F → ∀ e, EvalConv C F' e) (e : Ex) :
    DeflConv C (F + 1) e := by
  intro ctx gs σ g l m lc B k f hF hdep he hh hw
  obtain ⟨f', rfl⟩ : ∃ f', f = f' + 1 := ⟨f - 1, by omega⟩
  cases F with
  | zero =>
    simp only [toAstS3, ex_define' _ _ _ _ (Tengo.Proofs.C01BridgeF3Spec.isFuncLit_toAstE3 _ _ _ e)]
    exact .inl (Fz.fuel (EErr.bind_left (evalExpr_zero _ _ _ _)))
  | succ F =>
    have ha := ihE (F + 1) (Nat.le_refl _) e ctx gs σ g l m lc B k f' (by omega) he hh hw
    simp only [toAstS3, ex_define _ _ _ _ (Tengo.Proofs.C01BridgeF3Spec.isFuncLit_toAstE3 _ _ _ e), F3.execS]
    rcases ha with hfu | ha
    · exact .inl hfu.bind_left
    · cases hea : F3.evalE C.E C.P f' e g l with
      | val x g1 =>
        rw [hea] at ha
        obtain ⟨wx, σ1, hok1, hvx, hh1, hf1⟩ := ha
        refine .inr ⟨bindEnv ctx.env (C.lnames m) σ1.heap.size, pushSt σ1 (.cell wx false),
          fun j => if j = m then σ1.heap.size else lc j,
          EOk.bind hok1 (EOk.bind (declare_run ctx _ wx hdep gs σ1) (EOk.pure _ gs _)), ⟨?_, ?_⟩,
          hh1.defLoc hvx, hf1.trans (frB_push B σ1 _)⟩
        · intro i hi
          rw [lookupVar_bind_ne _ _ (fun e => hy.nm.dis m i hi e.symm)]
          exact he.glob i hi
        · intro j hj
          by_cases hjm : j = m
          · subst hjm; simp only [if_true]; exact lookupVar_bind_eq _ _ _
          · simp only [hjm, if_false]
            rw [lookupVar_bind_ne _ _ (fun e => hjm (hy.nm.linj _ _ e))]
            exact he.loc j (by omega)
      | err => rw [hea] at ha; obtain ⟨err, hne, herr⟩ := ha; exact .inr ⟨err, hne, EErr.bind_left herr⟩
      | out => rw [hea] at ha; exact ha.elim
      | bad => exact .inr True.intro

/-! ### function bodies -/

theorem bodyConv_nil (F : Nat) : BodyConv C (F + 1) .nil := by
  intro ctx gs σ g l m lc B k i f hF hdep he hh hw
  obtain ⟨f', rfl⟩ : ∃ f', f = f' + 1 := ⟨f - 1, by omega⟩
  simp only [toAstSs3, execStmts.eq_2, F3.execSs]
  exact .inr ⟨ctx.env, σ, EOk.pure _ gs σ, hh.glob, FrB.refl B σ⟩

theorem body_step_plainConv {F : Nat} {s : Stm} {ss : Stms} (hS : StmtConv C F s) (hB : BodyConv C F ss)
    (ctx : Ctx) (gs : GSt) (σ : St) (g : Nat → V) (l : Locals V) (m : Nat) (lc : Nat → Nat) (B k i f' : Nat)
    (hF : F ≤ f') (hdep : ctx.callDepth ≠ 0)
    (he : EInv C ctx.env m lc) (hh : HInv C B σ g m lc l)
    (hw1 : wfS3 (isFnOf C.P) C.n m true false k s = true)
    (hw2 : wfBody (isFnOf C.P) C.n m (k + nlitsS3 s) ss = true) :
    Fz (execStmts (F + 1) ctx (toAstSs3 C.names C.lnames C.ctab (.cons s ss)) i) gs σ ∨
    CB C (execStmts (F + 1) ctx (toAstSs3 C.names C.lnames C.ctab (.cons s ss)) i) gs σ B
      (F3.execSs C.E C.P (f' + 1) (.cons s ss) g l) := by
  simp only [toAstSs3, execStmts.eq_3, F3.execSs]
  rcases hS { env := ctx.env, callDepth := ctx.callDepth, path := i :: ctx.path } gs σ g l m lc B k true false f'
    hF he hh hw1 with hfu | ha
  · exact .inl hfu.bind_left
  · cases hs : F3.execS C.E C.P f' s g l with
    | done g1 l1 =>
      rw [hs] at ha
      obtain ⟨σ1, hok1, hh1, hf1⟩ := ha
      exact CB.bind_ok hok1 hf1 (hB { env := ctx.env, callDepth := ctx.callDepth, path := ctx.path } gs σ1 g1 l1 m lc B
        _ (i + 1) f' hF hdep he hh1 hw2)
    | brk g1 l1 => exact .inr True.intro
    | cont g1 l1 => exact .inr True.intro
    | ret v g1 =>
      rw [hs] at ha
      obtain ⟨w, σ1, hok1, hv1, hg1, hf1⟩ := ha
      exact .inr ⟨w, ctx.env, σ1, EOk.bind hok1 (EOk.pure _ gs σ1), hv1, hg1, hf1⟩
    | err => rw [hs] at ha; obtain ⟨err, hne, herr⟩ := ha; exact .inr ⟨err, hne, EErr.bind_left herr⟩
    | out => rw [hs] at ha; exact ha.elim
    | bad => exact .inr True.intro

theorem bodyConv_cons (F : Nat) (s : Stm) (ss : Stms) (hS : StmtConv C F s) (hDf : ∀ e, DeflConv C F e)
    (hB : BodyConv C F ss) : BodyConv C (F + 1) (.cons s ss) := by
  intro ctx gs σ g l m lc B k i f hF hdep he hh hw
  obtain ⟨f', rfl⟩ : ∃ f', f = f' + 1 := ⟨f - 1, by omega⟩
  have hF' : F ≤ f' := by omega
  cases s with
  | defl j e =>
    simp only [wfBody, Bool.and_eq_true, beq_iff_eq] at hw
    obtain ⟨⟨rfl, hwe⟩, hwb⟩ := hw
    simp only [toAstSs3, execStmts.eq_3, F3.execSs]
    have hr := defl_res C.E C.P f' j e g l
    rcases hDf e { env := ctx.env, callDepth := ctx.callDepth, path := i :: ctx.path } gs σ g l j lc B k f'
      hF' hdep he hh hwe with hfu | ha
    · exact .inl hfu.bind_left
    · cases hs : F3.execS C.E C.P f' (.defl j e) g l with
      | done g1 l1 =>
        rw [hs] at ha
        obtain ⟨env', σ1, lc', hok1, he1, hh1, hf1⟩ := ha
        exact CB.bind_ok hok1 hf1 (hB { env := env', callDepth := ctx.callDepth, path := ctx.path } gs σ1 g1 l1
          (j + 1) lc' B _ (i + 1) f' hF' hdep he1 hh1 hwb)
      | brk g1 l1 => exact .inr True.intro
      | cont g1 l1 => exact .inr True.intro
      | ret v g1 => rw [hs] at hr; exact hr.elim
      | err => rw [hs] at ha; obtain ⟨err, hne, herr⟩ := ha; exact .inr ⟨err, hne, EErr.bind_left herr⟩
      | out => rw [hs] at ha; exact ha.elim
      | bad => exact .inr True.intro
  | _ =>
    simp only [wfBody, Bool.and_eq_true] at hw
    exact body_step_plainConv hS hB ctx gs σ g l m lc B k i f' hF' hdep he hh hw.1 hw.2

/-! ### the call -/

/-- The body block of a function: `execBlock (F + 1)` runs the body at fuel `F`. -/
theorem bodyBlockConv {F : Nat} {ss : Stms} (h : BodyConv C F ss)
    (ctx : Ctx) (gs : GSt) (σ : St) (g : Nat → V) (l : Locals V) (m : Nat) (lc : Nat → Nat) (B k f : Nat)
    (hF : F + 1 ≤ f) (hdep : ctx.callDepth ≠ 0)
    (he : EInv C ctx.env m lc) (hh : HInv C B σ g m lc l) (hw : wfBody (isFnOf C.P) C.n m k ss = true) :
    Fz (execBlock (F + 1) ctx (toAstSs3 C.names C.lnames C.ctab ss) 0) gs σ ∨
    CBk C (execBlock (F + 1) ctx (toAstSs3 C.names C.lnames C.ctab ss) 0) gs σ B (F3.execSs C.E C.P f ss g l) := by
  cases ss with
  | nil =>
    obtain ⟨f', rfl⟩ : ∃ f', f = f' + 1 := ⟨f - 1, by omega⟩
    simp only [toAstSs3, execBlock.eq_2, F3.execSs]
    exact .inr ⟨σ, EOk.pure _ gs σ, hh.glob, FrB.refl B σ⟩
  | cons st ss =>
    rw [toAstSs3, execBlock.eq_3 _ _ _ _ (by simp), ← toAstSs3]
    rcases h { env := { vars := [] } :: ctx.env, callDepth := ctx.callDepth, path := 0 :: ctx.path }
      gs σ g l m lc B k 0 f (by omega) hdep he.push hh hw with hfu | hb
    · exact .inl hfu.bind_left
    · refine .inr ?_
      cases hex : F3.execSs C.E C.P f (.cons st ss) g l with
      | done g' l' =>
        rw [hex] at hb
        obtain ⟨env', σ', hok, hg', hf'⟩ := hb
        exact ⟨σ', EOk.bind hok (EOk.pure _ gs σ'), hg', hf'⟩
      | ret v g' =>
        rw [hex] at hb
        obtain ⟨w, env', σ', hok, hv', hg', hf'⟩ := hb
        exact ⟨w, σ', EOk.bind hok (EOk.pure _ gs σ'), hv', hg', hf'⟩
      | err => rw [hex] at hb; obtain ⟨err, hne, herr⟩ := hb; exact ⟨err, hne, EErr.bind_left herr⟩
      | brk _ _ => exact True.intro
      | cont _ _ => exact True.intro
      | out => rw [hex] at hb; exact hb.elim
      | bad => exact True.intro

/-- The call at fuel `F + 1` of the interpreter. `callClosure (F + 1)` runs `execBlock F`, and that runs
`execStmts (F - 1)`: the bodies are needed at fuel `F - 1` (none at all when `F = 0`). -/
theorem callConv_succ (hy : Hyp C) (F : Nat) (ihB : ∀ F', F' ≤ F → ∀ ss, BodyConv C F' ss) : CallConv C (F + 1) := by
  intro ctx gs σ g fv w vs ws f hF hpos hv hvs hg
  obtain ⟨f', rfl⟩ : ∃ f', f = f' + 1 := ⟨f - 1, by omega⟩
  have hF' : F ≤ f' := by omega
  rcases hv with ⟨hs, rfl⟩ | ⟨k, fd, r, h1, hfd, rfl, hcl⟩
  · exact .inr (call_scalar hy (F + 1) ctx gs σ g fv vs ws f' hs)
  · simp only [F3.callFn, h1, hfd]
    have hplen : (C.clos fd).params.length = fd.nparams := by simp [Cx.clos, paramsOf]
    by_cases hlen : vs.length ≠ fd.nparams
    · rw [if_pos hlen]
      obtain ⟨err, hne, he⟩ := callClosure_wrong F ctx (C.clos fd) ws rfl
        (by rw [hplen, ← hvs.1]; exact hlen) gs σ
      refine .inr ⟨err, hne, ?_⟩
      unfold EErr at he ⊢
      rw [callTail_fn _ _ _ _ _ gs σ hcl]; exact he
    · rw [if_neg hlen]
      have hlen' : vs.length = fd.nparams := Decidable.of_not_not hlen
      have hwl : ws.length = (C.clos fd).params.length := by rw [hplen, ← hvs.1]; exact hlen'
      by_cases hdeep : 900 ≤ ctx.callDepth
      · exact .inl (Fz.congr (callClosure_deep F ctx (C.clos fd) ws rfl hwl hdeep gs σ)
          (callTail_fn (F + 1) ctx r ws (C.clos fd) gs σ hcl).symm)
      · have hdep : ctx.callDepth < 900 := by omega
        have hunf := callClosure_unf F ctx (C.clos fd) ws rfl hwl hdep
        obtain ⟨fr, σ1, hloop, hsz, hold, hnew, hlk, hoth⟩ := params_loop gs (paramsOf C.lnames fd.nparams) ws
          { vars := [], isFn := true } σ (by rw [hwl]; rfl)
          (fun i j p hi hj => hy.nm.linj i j ((paramsOf_get_some hi).2.trans (paramsOf_get_some hj).2.symm))
        cases F with
        | zero =>
          refine .inl (.inl ?_)
          unfold EErr
          rw [callTail_fn _ _ _ _ _ gs σ hcl, hunf]
          exact EErr.bind_right hloop (EErr.bind_left (execBlock_zero _ _ _ _ _))
        | succ F =>
          have hkc : KeepClos σ σ1 := fun r c h => by rw [hold r (lt_size_of_get h)]; exact h
          have hfr1 : FrB C σ.heap.size σ σ1 := ⟨by omega, hkc, fun r _ hr _ => hold r hr⟩
          have hg1 : GInv C σ1 g := hg.move hkc (fun i hi => by
            obtain ⟨w, b, h, _⟩ := hg i hi
            exact hold _ (lt_size_of_get h))
          have hh1 : HInv C σ.heap.size σ1 g fd.nparams (fun j => σ.heap.size + j) (bindArgs vs) := by
            refine ⟨hg1, ⟨?_, fun i _ => Nat.le_add_right _ _, ?_, fun i j _ _ h => by omega⟩, by omega⟩
            · intro j hj
              have hjv : j < vs.length := by omega
              have hjw : j < ws.length := by rw [← hvs.1]; exact hjv
              refine ⟨vs[j], ws[j], false, by simp [bindArgs, hjv], hnew j ws[j] (List.getElem?_eq_getElem hjw), ?_⟩
              exact (hvs.2 j _ _ (List.getElem?_eq_getElem hjv) (List.getElem?_eq_getElem hjw)).mono hkc
            · intro i j hi hj h
              obtain ⟨w, b, hc, _⟩ := hg j hj
              have := lt_size_of_get hc
              omega
          have he1 : EInv C (fr :: C.genv) fd.nparams (fun j => σ.heap.size + j) := by
            constructor
            · intro i hi
              have hx : C.names i ∉ paramsOf C.lnames fd.nparams := by
                simp only [paramsOf, List.mem_map, List.mem_range, not_exists, not_and]
                intro j _ h
                exact hy.nm.dis j i hi h
              simp only [lookupVar_cons, hoth _ hx, List.lookup]
              exact hy.genv i hi
            · intro j hj
              simp only [lookupVar_cons, hlk j _ (paramsOf_get C.lnames hj)]
          obtain ⟨k0, hwf⟩ := hy.wfns k fd hfd
          simp only [wfFn, Bool.and_eq_true] at hwf
          have hb := bodyBlockConv (ihB F (by omega) fd.body)
            { env := fr :: C.genv, callDepth := ctx.callDepth + 1, path := [] } gs σ1 g (bindArgs vs) fd.nparams
            (fun j => σ.heap.size + j) σ.heap.size k0 f' (by omega)
            (by show ctx.callDepth + 1 ≠ 0; omega) he1 hh1 hwf.2
          rcases hb with hfu | hb
          · rcases hfu with hfu | ⟨why, hfu⟩
            · refine .inl (.inl ?_)
              unfold EErr
              rw [callTail_fn _ _ _ _ _ gs σ hcl, hunf]
              exact EErr.bind_right hloop (EErr.bind_left hfu)
            · refine .inl (.inr ⟨why, ?_⟩)
              unfold EErr
              rw [callTail_fn _ _ _ _ _ gs σ hcl, hunf]
              exact EErr.bind_right hloop (EErr.bind_left hfu)
          · refine .inr ?_
            cases hex : F3.execSs C.E C.P f' fd.body g (bindArgs vs) with
            | done g' l' =>
              rw [hex] at hb
              obtain ⟨σ', hok, hg', hf'⟩ := hb
              refine ⟨.undef, σ', ?_, by rw [← hy.data.undef]; exact VR.scalar (by rw [hy.data.undef]; rfl), hg',
                hfr1.trans hf'⟩
              unfold EOk
              rw [callTail_fn _ _ _ _ _ gs σ hcl, hunf]
              exact EOk.bind hloop (EOk.bind hok (EOk.pure _ gs σ'))
            | ret v g' =>
              rw [hex] at hb
              obtain ⟨w', σ', hok, hv', hg', hf'⟩ := hb
              refine ⟨w', σ', ?_, hv', hg', hfr1.trans hf'⟩
              unfold EOk
              rw [callTail_fn _ _ _ _ _ gs σ hcl, hunf]
              exact EOk.bind hloop (EOk.bind hok (EOk.pure _ gs σ'))
            | err =>
              rw [hex] at hb
              obtain ⟨err, hne, herr⟩ := hb
              refine ⟨err, hne, ?_⟩
              unfold EErr
              rw [callTail_fn _ _ _ _ _ gs σ hcl, hunf]
              exact EErr.bind_right hloop (EErr.bind_left herr)
            | brk _ _ => exact True.intro
            | cont _ _ => exact True.intro
            | out => rw [hex] at hb; exact hb.elim
            | bad => exact True.intro

end Tengo.Proofs.C01BridgeF3Conv

import Tengo.Proofs.C02CompileLoop
/-!
C02 / `compile_verifies`: the induction over the compiler model, part 6 (`for … in`, the statement
dispatch, and the induction itself).
-/
set_option linter.unusedVariables false
set_option linter.unusedSimpArgs false
namespace Tengo.Proofs.C02Compile
open Tengo.Model Tengo.Model.Opcodes Tengo.Model.Compiler Tengo.Model.Optimizer Tengo.Model.Verifier
open Tengo.Model.Spec (Expr Stmt)
open Tengo.Proofs.C03 Tengo.Proofs.C03Reloc

/-! ### `for … in` -/

/-- store of a for-in variable (or of the hidden iterator) -/
def forinStore (ks : Sym) (mark : Bool) : CM Unit :=
  if ks.scope == .global then discard <| emit opSetGlobal [ks.index]
  else do
    if mark then setAssigned ks
    discard <| emit opDefineLocal [ks.index]

def forinVar (itSym : Sym) (name : String) (opc : Nat) : CM Unit :=
  if name != "_" then do
    let ks ← define name
    emitIt itSym
    discard <| emit opc
    if ks.scope == .global then discard <| emit opSetGlobal [ks.index]
    else do
      setAssigned ks
      discard <| emit opDefineLocal [ks.index]
  else pure ()

def forinBody (d : Nat) (itSym : Sym) (k v : String) (body : List Stmt) : CM Unit := do
  forinVar itSym k opIteratorKey
  forinVar itSym v opIteratorValue
  compileBlock d body

def forinCond (itSym : Sym) : CM Unit := do
  emitIt itSym
  discard <| emit opIteratorNext

def forinInit (d : Nat) (it : Expr) (itSym : Sym) : CM Unit := do
  compileExpr d it
  discard <| emit opIteratorInit
  if itSym.scope == .global then discard <| emit opSetGlobal [itSym.index]
  else discard <| emit opDefineLocal [itSym.index]

theorem ite_bind' {α β : Type} (c : Prop) [Decidable c] (a b : CM α) (f : α → CM β) :
    ((if c then a else b) >>= f) = if c then a >>= f else b >>= f := by split <;> rfl

theorem compile_forin (d : Nat) (k v : String) (it : Expr) (body : List Stmt) :
    compileStmt (d + 1) (.forin k v it body) = (do
      fork true
      let itSym ← define ":it"
      forinInit d it itSym
      let pre ← curPos
      forinCond itSym
      let pcp ← emit opJumpFalsy [0]
      enterLoop
      forinBody d itSym k v body
      let loop ← leaveLoop
      let pb ← curPos
      (pure () : CM Unit)
      discard <| emit opJump [pre]
      let ps ← curPos
      changeOperand pcp ps
      patchAll loop.breaks ps
      patchAll loop.continues pb
      unfork) := by
  rw [compileStmt]
  simp only [forinInit, forinCond, forinBody, forinVar, bind_assoc, pure_bind]
  congr 1; funext _
  congr 1; funext itSym
  congr 1; funext _
  congr 1; funext _
  by_cases h1 : (itSym.scope == Scope.global) = true <;> by_cases h2 : (k != "_") = true <;>
    by_cases h3 : (v != "_") = true <;> simp [h1, h2, h3, bind_assoc, ite_bind']

/-- a loop whose condition code and body code are given abstractly (no post statement) -/
theorem loopcore (condM bodyM : CM Unit) (nc nb : Nat) (Q : Chain → Prop)
    (hQ : ∀ c c', ChainLe c c' → Q c → Q c')
    (hcond : ∀ s s' L F, condM s = .ok ((), s') → Inv s L F → Q s.tables → ERes s s' L F nc)
    (hbody : ∀ s s' L F, bodyM s = .ok ((), s') → Inv s L F → Q s.tables → SRes s s' L F nb)
    {s s' : CState} {L : List Instr} {F : List Nat}
    (h : (do
      let pre ← curPos
      condM
      let pcp ← emit opJumpFalsy [0]
      enterLoop
      bodyM
      let loop ← leaveLoop
      let pb ← curPos
      (pure () : CM Unit)
      discard <| emit opJump [pre]
      let ps ← curPos
      changeOperand pcp ps
      patchAll loop.breaks ps
      patchAll loop.continues pb) s = .ok ((), s'))
    (hinv : Inv s L F) (hq : Q s.tables) : SRes s s' L F (nc + 5 + nb + 5) := by
  have hjf : isJump opJumpFalsy = true := rfl
  have hjj : isJump opJump = true := rfl
  obtain ⟨pre, s0, h0, hA⟩ := bind_ok h
  have e0 := curPos_ok h0
  have epre : pre = s.insts.size := (Prod.mk.inj e0).1
  have es0 : s0 = s := (Prod.mk.inj e0).2
  subst es0
  obtain ⟨_, s1, h1, hA1⟩ := bind_ok hA
  obtain ⟨jp, s2, h2, hB⟩ := bind_ok hA1
  clear h hA hA1 e0 h0
  obtain ⟨C, F₁, o1, hb1⟩ := hcond s0 s1 L F h1 hinv hq
  have e2 := emit_ok h2
  have ejp : jp = s1.insts.size := (Prod.mk.inj e2).1
  have es2 : s2 = emitS opJumpFalsy [0] s1 := (Prod.mk.inj e2).2
  subst es2
  have inv2 := o1.inv.emit (op := opJumpFalsy) (args := [0]) (jump_shape hjf) (opReq_jump hjf)
  have hsz1 : s1.insts.size = totalSize L + totalSize C := by rw [o1.inv.em.size, totalSize_append]
  have hjp : jp = totalSize L + totalSize C := by rw [ejp, hsz1]
  subst hjp
  have hL : totalSize (L ++ C) = totalSize L + totalSize C := totalSize_append _ _
  rw [hL] at inv2
  have hpre : pre = totalSize L := by rw [epre, hinv.em.size]
  subst hpre
  have hq1 : Q (emitS opJumpFalsy [0] s1).tables := hQ _ _ o1.step.tabs hq
  obtain ⟨s8, Bd, P, F', bs, cs, bsP, csP, hK, hinv8, hst, hl8, hnp, hbd, hbp, hsb, hsp⟩ :=
    loop_mid bodyM (pure ()) nb 0 Q hQ hbody
      (fun s s' L F h hi _ => by
        have e : s' = s := (Prod.mk.inj (pure_ok h)).2
        subst e; exact SRes.nil hi)
      (totalSize L) (K := fun loop pb ps => do
        changeOperand (totalSize L + totalSize C) ps; patchAll loop.breaks ps; patchAll loop.continues pb)
      hB inv2 hq1
  have hP : totalSize P = 0 := by omega
  have hM : totalSize (L ++ C ++ [⟨totalSize L + totalSize C, opJumpFalsy, [0]⟩]) = totalSize L + totalSize C + 5 := by
    simp only [totalSize_append, totalSize_cons, totalSize_nil, jump_size hjf]
  rw [hM] at hK hinv8 hbd hbp
  obtain ⟨_, s9, h9, hK2⟩ := bind_ok hK
  have e9 := changeOperand_ok h9
  have es9 : s9 = _ := (Prod.mk.inj e9).2
  subst es9
  have hinv8' : Inv s8 ((L ++ C) ++ ⟨totalSize L + totalSize C, opJumpFalsy, [0]⟩ ::
      (Bd ++ P ++ [⟨totalSize L + totalSize C + 5 + totalSize Bd + totalSize P, opJump, [totalSize L]⟩])) F' := by
    simpa using hinv8
  have hinv9 := hinv8'.patch (t := totalSize L + totalSize C + 5 + totalSize Bd + totalSize P + 5) hjf
  have hf9 := chgS_frame (totalSize L + totalSize C) (totalSize L + totalSize C + 5 + totalSize Bd + totalSize P + 5) s8
  have hinv9' : Inv (chgS (totalSize L + totalSize C) (totalSize L + totalSize C + 5 + totalSize Bd + totalSize P + 5) s8)
      ((L ++ C ++ [⟨totalSize L + totalSize C, opJumpFalsy, [totalSize L + totalSize C + 5 + totalSize Bd + totalSize P + 5]⟩])
        ++ Bd ++ (P ++ [⟨totalSize L + totalSize C + 5 + totalSize Bd + totalSize P, opJump, [totalSize L]⟩])) F' := by
    simpa using hinv9
  obtain ⟨hinv', q1, q2, q3, q4⟩ := loop_patches hK2 hinv9' hbd (by
    simp only [totalSize_append, totalSize_cons, totalSize_nil, jump_size hjf])
  refine ⟨C ++ ⟨totalSize L + totalSize C, opJumpFalsy, [totalSize L + totalSize C + 5 + totalSize Bd + totalSize P + 5]⟩ ::
      (P2 bs (totalSize L + totalSize C + 5 + totalSize Bd + totalSize P + 5) cs (totalSize L + totalSize C + 5 + totalSize Bd) Bd
        ++ P ++ [⟨totalSize L + totalSize C + 5 + totalSize Bd + totalSize P, opJump, [totalSize L]⟩]), F', bsP, csP,
    ⟨by simpa using hinv', ?_, ?_, ?_, ?_, ?_⟩⟩
  · have st2 : Step s1 (emitS opJumpFalsy [0] s1) F₁ F₁ := Step.of_eq F₁ rfl rfl rfl
    exact (((o1.step.trans st2).trans hst).trans (Step.of_eq F' hf9.2.2.1 hf9.2.1 hf9.1)).trans
      (Step.of_eq F' q3 q2 q1)
  · rw [q4, hf9.2.2.2, hl8]
    show addPend s1.loops bsP csP = _
    rw [o1.loops]
  · intro hn
    exact hnp (by show s1.loops = []; rw [o1.loops]; exact hn)
  · simp only [totalSize_append, totalSize_cons, totalSize_nil, totalSize_P2, jump_size hjf, jump_size hjj]
    have := o1.size; omega
  · exact (SBlk.loopC (hb1 0) hbd hbp).cast rfl (by
      simp only [totalSize_append, totalSize_cons, totalSize_nil, totalSize_P2, jump_size hjf, jump_size hjj] <;> omega)

/-- the hidden iterator symbol: within its bound, local or global -/
def ItOK (it : Sym) (c : Chain) : Prop := SymOK c it ∧ (it.scope = .local ∨ it.scope = .global)

theorem ItOK.mono {it : Sym} {c c' : Chain} (h : ChainLe c c') (hi : ItOK it c) : ItOK it c' :=
  ⟨hi.1.mono h, hi.2⟩

theorem qres_emitIt {it : Sym} {s s₁ s₂ : CState} {L : List Instr} {F : List Nat} {n k : Nat}
    (q : QRes s s₁ L F n k) (h : emitIt it s₁ = .ok ((), s₂)) (hit : ItOK it s₁.tables) :
    QRes s s₂ L F (n + 3) (k + 1) := by
  unfold emitIt at h
  obtain ⟨hsym, hsc⟩ := hit
  split at h
  · rename_i hg
    have hg' : it.scope = .global := by simpa using hg
    have e := demit_ok h; simp only at e; subst e
    exact (q.emit (op := opGetGlobal) (args := [it.index]) (ws := [2]) (pops := 0) (pushes := 1) rfl rfl
      (fun _ => rfl) (by omega) (by omega) (by decide) (fun p F₁ _ => opReq_glob hsym hg' rfl)).castK (by omega)
  · rename_i hg
    have hl : it.scope = .local := by
      rcases hsc with h | h
      · exact h
      · rw [h] at hg; simp at hg
    have e := demit_ok h; simp only at e; subst e
    exact ((q.emit (op := opGetLocal) (args := [it.index]) (ws := [1]) (pops := 0) (pushes := 1) rfl rfl
      (fun _ => rfl) (by omega) (by omega) (by decide) (fun p F₁ _ => opReq_loc hsym hl rfl)).mono (by simp)).castK
        (by omega)

/-- `SETG i` / `DEFL i` of a freshly defined symbol -/
theorem sres_store {ks : Sym} {s s₁ s' : CState} {L : List Instr} {F : List Nat} {n : Nat}
    (q : QRes s s₁ L F n 1) (hks : SymOK s₁.tables ks) (hsc : ks.scope = .local ∨ ks.scope = .global)
    (h : (if ks.scope == .global then discard <| emit opSetGlobal [ks.index]
          else discard <| emit opDefineLocal [ks.index]) s₁ = .ok ((), s')) :
    SRes s s' L F (n + 3) := by
  split at h
  · rename_i hg
    have hg' : ks.scope = .global := by simpa using hg
    have e := demit_ok h; simp only at e; subst e
    exact sres_emit q (op := opSetGlobal) (args := [ks.index]) (ws := [2]) (pops := 1) rfl rfl (fun _ => rfl) rfl
      (by decide) (fun p F₁ _ => opReq_glob hks hg' rfl)
  · rename_i hg
    have hl : ks.scope = .local := by
      rcases hsc with h | h
      · exact h
      · rw [h] at hg; simp at hg
    have e := demit_ok h; simp only at e; subst e
    exact (sres_emit q (op := opDefineLocal) (args := [ks.index]) (ws := [1]) (pops := 1) rfl rfl (fun _ => rfl) rfl
      (by decide) (fun p F₁ _ => opReq_loc hks hl rfl)).mono (by simp)

theorem forinVar_spec (it : Sym) (name : String) (opc : Nat) (hopc : opc = opIteratorKey ∨ opc = opIteratorValue)
    {s s' : CState} {L : List Instr} {F : List Nat}
    (h : forinVar it name opc s = .ok ((), s')) (hinv : Inv s L F) (hit : ItOK it s.tables) :
    SRes s s' L F 7 := by
  unfold forinVar at h
  split at h
  · obtain ⟨ks, s1, h1, hA⟩ := bind_ok h
    obtain ⟨_, s2, h2, hB⟩ := bind_ok hA
    obtain ⟨_, s3, h3, hC⟩ := bind_ok hB
    clear h hA hB
    have e1 := define_ok h1
    have eks : ks = (defS name s).1 := (Prod.mk.inj e1).1
    have es1 : s1 = (defS name s).2 := (Prod.mk.inj e1).2
    subst es1
    obtain ⟨hinv1, hst1, hks, hksc⟩ := hinv.define name
    rw [← eks] at hks hksc
    have q2 := qres_emitIt (QRes.nil hinv1) h2 (hit.mono hst1.tabs)
    have e3 := demit_ok h3; simp only at e3; subst e3
    have hop : opClass opc = .other := by rcases hopc with e | e <;> subst e <;> rfl
    have hw : widths opc = some [] := by rcases hopc with e | e <;> subst e <;> rfl
    have he : ∀ p, stackEffect ⟨p, opc, []⟩ = some (1, 1) := by
      intro p; rcases hopc with e | e <;> subst e <;> rfl
    have hnp : opc ≠ opPop := by rcases hopc with e | e <;> subst e <;> decide
    have q3 := q2.emit (op := opc) (args := []) (ws := []) (pops := 1) (pushes := 1) hw rfl he (by omega)
      (by omega) hnp (fun p F₁ _ => opReq_other hop)
    have hks2 : SymOK s2.tables ks := by
      obtain ⟨B, F', ho, _⟩ := q2
      exact hks.mono ho.step.tabs
    refine SRes.pre hst1 rfl ?_
    split at hC
    · rename_i hg
      have hg' : ks.scope = .global := by simpa using hg
      have e := demit_ok hC; simp only at e; subst e
      exact (sres_emit (q3.castK (by simp)) (op := opSetGlobal) (args := [ks.index]) (ws := [2]) (pops := 1) rfl rfl
        (fun _ => rfl) rfl (by decide) (fun p F₁ _ => opReq_glob hks2 hg' rfl)).mono (by simp)
    · rename_i hg
      have hl : ks.scope = .local := by
        rcases hksc with h | h
        · exact h
        · rw [h] at hg; simp at hg
      obtain ⟨_, s4, h4, hD⟩ := bind_ok hC
      obtain ⟨q1', q2', q3', q4', q5'⟩ := setAssigned_ok h4
      simp only at q1' q2' q3' q4' q5'
      have e := demit_ok hD; simp only at e; subst e
      have q4 := (q3.castK (k' := 1) (by simp)).post_eq q1' q2' q3' q4' q5'
      exact (sres_emit q4 (op := opDefineLocal) (args := [ks.index]) (ws := [1]) (pops := 1) rfl rfl
        (fun _ => rfl) rfl (by decide) (fun p F₁ _ => by rw [q2']; exact opReq_loc hks2 hl rfl)).mono (by simp)
  · have e : s' = s := (Prod.mk.inj (pure_ok h)).2
    subst e
    exact (SRes.nil hinv).mono (by omega)

theorem SRes.tabs {s s' : CState} {L : List Instr} {F : List Nat} {n : Nat} (h : SRes s s' L F n) :
    ChainLe s.tables s'.tables := by
  obtain ⟨B, F', bs, cs, ho⟩ := h
  exact ho.step.tabs

/-- sequencing where the continuation needs a monotone fact about the tables -/
theorem SRes.bindQ {s s₁ s₂ : CState} {L : List Instr} {F : List Nat} {n₁ n₂ : Nat} {Q : Chain → Prop}
    (hQ : ∀ c c', ChainLe c c' → Q c → Q c') (hq : Q s.tables)
    (h1 : SRes s s₁ L F n₁) (h2 : ∀ L₁ F₁, Inv s₁ L₁ F₁ → Q s₁.tables → SRes s₁ s₂ L₁ F₁ n₂) :
    SRes s s₂ L F (n₁ + n₂) :=
  h1.bind (fun L₁ F₁ hi => h2 L₁ F₁ hi (hQ _ _ h1.tabs hq))

theorem forinBody_spec {d : Nat} (ih : All d) (it : Sym) (k v : String) (body : List Stmt)
    {s s' : CState} {L : List Instr} {F : List Nat}
    (h : forinBody d it k v body s = .ok ((), s')) (hinv : Inv s L F) (hit : ItOK it s.tables)
    (hsz : szBlock d body < 2 ^ 30) : SRes s s' L F (7 + (7 + szBlock d body)) := by
  unfold forinBody at h
  obtain ⟨_, s1, h1, hA⟩ := bind_ok h
  obtain ⟨_, s2, h2, hB⟩ := bind_ok hA
  have r1 := forinVar_spec it k opIteratorKey (Or.inl rfl) h1 hinv hit
  refine SRes.bindQ (Q := ItOK it) (fun c c' hc hi => hi.mono hc) hit r1 (fun L₁ F₁ hinv1 hit1 => ?_)
  have r2 := forinVar_spec it v opIteratorValue (Or.inr rfl) h2 hinv1 hit1
  exact r2.bind (fun L₂ F₂ hinv2 => ih.b body s2 s' L₂ F₂ hB hinv2 hsz)

theorem forinInit_spec {d : Nat} (ih : All d) (itx : Expr) (it : Sym) {s s' : CState} {L : List Instr}
    {F : List Nat} (h : forinInit d itx it s = .ok ((), s')) (hinv : Inv s L F) (hit : ItOK it s.tables)
    (hsz : szE d itx < 2 ^ 30) : SRes s s' L F (szE d itx + 1 + 3) := by
  unfold forinInit at h
  obtain ⟨_, s1, h1, hA⟩ := bind_ok h
  obtain ⟨_, s2, h2, hB⟩ := bind_ok hA
  have e2 := demit_ok h2; simp only at e2; subst e2
  have r1 := (ih.e itx s s1 L F h1 hinv hsz).toQ
  have hit1 : ItOK it s1.tables := hit.mono r1.tabs
  have q2 := r1.emit (op := opIteratorInit) (args := []) (ws := []) (pops := 1) (pushes := 1) rfl rfl
    (fun _ => rfl) (by omega) (by omega) (by decide) (fun p F₁ _ => opReq_other rfl)
  exact (sres_store (q2.castK (by simp)) hit1.1 hit1.2 hB).mono (by simp)

theorem forinCond_spec (it : Sym) {s s' : CState} {L : List Instr} {F : List Nat}
    (h : forinCond it s = .ok ((), s')) (hinv : Inv s L F) (hit : ItOK it s.tables) : ERes s s' L F 4 := by
  unfold forinCond at h
  obtain ⟨_, s1, h1, hA⟩ := bind_ok h
  have e2 := demit_ok hA; simp only at e2; subst e2
  have q1 := qres_emitIt (QRes.nil hinv) h1 hit
  exact (q1.emitE (op := opIteratorNext) (args := []) (ws := []) rfl rfl (fun _ => rfl) (by simp) (by decide)
    (fun p F₁ _ => opReq_other rfl)).mono (by simp)

theorem sspec_forin {d : Nat} (ih : All d) (k v : String) (itx : Expr) (body : List Stmt)
    (s s' : CState) (L : List Instr) (F : List Nat)
    (h : compileStmt (d + 1) (.forin k v itx body) s = .ok ((), s')) (hinv : Inv s L F)
    (hsz : szS (d + 1) (.forin k v itx body) < 2 ^ 30) :
    SRes s s' L F (szS (d + 1) (.forin k v itx body)) := by
  rw [compile_forin] at h
  have hszd : szS (d + 1) (.forin k v itx body) = szE d itx + 40 + szBlock d body := by rw [szS]
  rw [hszd] at hsz ⊢
  obtain ⟨_, s0, h0, hA⟩ := bind_ok h
  have e0 : s0 = forkS true s := by
    rw [fork_run] at h0; injection h0 with h0; exact (Prod.mk.inj h0).2.symm
  subst e0
  obtain ⟨it, s1, h1, hB⟩ := bind_ok hA
  have e1 := define_ok h1
  have eit : it = (defS ":it" (forkS true s)).1 := (Prod.mk.inj e1).1
  have es1 : s1 = (defS ":it" (forkS true s)).2 := (Prod.mk.inj e1).2
  subst es1
  obtain ⟨hinv1, hst1, hitok, hitsc⟩ := hinv.fork.define ":it"
  rw [← eit] at hitok hitsc
  have hit : ItOK it (defS ":it" (forkS true s)).2.tables := ⟨hitok, hitsc⟩
  obtain ⟨_, s2, h2, hC⟩ := bind_ok hB
  have hC' : ((do
      let pre ← curPos
      forinCond it
      let pcp ← emit opJumpFalsy [0]
      enterLoop
      forinBody d it k v body
      let loop ← leaveLoop
      let pb ← curPos
      (pure () : CM Unit)
      discard <| emit opJump [pre]
      let ps ← curPos
      changeOperand pcp ps
      patchAll loop.breaks ps
      patchAll loop.continues pb) >>= fun _ => unfork) s2 = .ok ((), s') := by
    simpa [bind_assoc] using hC
  obtain ⟨_, s3, h3, hD⟩ := bind_ok hC'
  have e3 : s' = unforkS s3 := by
    rw [unfork_run] at hD; injection hD with hD; exact (Prod.mk.inj hD).2.symm
  subst e3
  refine SRes.forked hinv ?_
  refine SRes.pre hst1 rfl ?_
  have r1 := forinInit_spec ih itx it h2 hinv1 hit (by omega)
  refine (SRes.bindQ (Q := ItOK it) (fun c c' hc hi => hi.mono hc) hit r1 (fun L₁ F₁ hinv2 hit2 => ?_)).mono
    (by show szE d itx + 1 + 3 + (4 + 5 + (7 + (7 + szBlock d body)) + 5) ≤ _; omega)
  exact loopcore (forinCond it) (forinBody d it k v body) 4 (7 + (7 + szBlock d body)) (ItOK it)
    (fun c c' hc hi => hi.mono hc)
    (fun s s' L F h hi hq => forinCond_spec it h hi hq)
    (fun s s' L F h hi hq => forinBody_spec ih it k v body h hi hq (by omega))
    h3 hinv2 hit2

/-! ### all statements, and the induction -/

theorem sspec_succ {d : Nat} (ih : All d) : SSpec (d + 1) := by
  intro st s s' L F h hinv hsz
  cases st with
  | expr e => exact sspec_expr ih e s s' L F h hinv hsz
  | assign tok lhs rhs =>
    rw [compileStmt] at h
    have hszd : szS (d + 1) (.assign tok lhs rhs) = szAssign d lhs rhs := by rw [szS]
    rw [hszd] at hsz ⊢
    exact ih.a lhs rhs tok s s' L F h hinv hsz
  | incdec tok e =>
    rw [compileStmt] at h
    have hszd : szS (d + 1) (.incdec tok e) = szAssign d [e] [.int 1] := by rw [szS]
    rw [hszd] at hsz ⊢
    exact ih.a [e] [.int 1] _ s s' L F h hinv hsz
  | ifs ini c body els => exact sspec_ifs ih ini c body els s s' L F h hinv hsz
  | fors ini c post body => exact sspec_fors ih ini c post body s s' L F h hinv hsz
  | forin k v it body => exact sspec_forin ih k v it body s s' L F h hinv hsz
  | block ss =>
    rw [compileStmt] at h
    have hszd : szS (d + 1) (.block ss) = szBlock d ss := by rw [szS]
    rw [hszd] at hsz ⊢
    exact ih.b ss s s' L F h hinv hsz
  | branch tok => exact sspec_branch tok s s' L F h hinv
  | ret e => exact sspec_ret ih e s s' L F h hinv hsz
  | «export» e =>
    rw [compileStmt] at h
    obtain ⟨st, s0, h0, hA⟩ := bind_ok h
    have e0 := get_ok h0
    have es0 : s0 = s := (Prod.mk.inj e0).2
    subst es0
    split at hA
    · exact (cerr_ok hA).elim
    · have e : s' = s0 := (Prod.mk.inj (pure_ok hA)).2
      subst e
      exact (SRes.nil hinv).mono (Nat.zero_le _)
  | empty =>
    rw [compileStmt] at h
    have e : s' = s := (Prod.mk.inj (pure_ok h)).2
    subst e
    exact (SRes.nil hinv).mono (Nat.zero_le _)
  | bad => rw [compileStmt] at h; exact (unsupported_ok h).elim

theorem all_zero : All 0 := by
  refine ⟨?_, ?_, ?_, ?_, ?_, ?_, ?_, ?_⟩
  · intro e s s' L F h; rw [compileExpr] at h; exact (unsupported_ok h).elim
  · intro e s s' L F h; rw [compileExprs] at h; exact (unsupported_ok h).elim
  · intro e s s' L F h; rw [compileKVs] at h; exact (unsupported_ok h).elim
  · intro e s s' L F h; rw [compileSelsRev] at h; exact (unsupported_ok h).elim
  · intro l r op s s' L F h; unfold compileAssign at h; exact (unsupported_ok h).elim
  · intro e s s' L F h; rw [compileStmt] at h; exact (unsupported_ok h).elim
  · intro e s s' L F h; rw [compileBlock] at h; exact (unsupported_ok h).elim
  · intro e s s' L F h; rw [compileStmts] at h; exact (unsupported_ok h).elim

/-- **The induction over the compiler model**: at every depth budget, every compile function of
`Tengo.Model.Compiler` extends the instruction list of the current function by a block of the right
kind, keeping the invariant `Inv`. -/
theorem all_spec : ∀ d, All d
  | 0 => all_zero
  | d + 1 =>
    have ih := all_spec d
    ⟨espec_succ ih, esspec_succ ih, kvspec_succ ih, selspec_succ ih, aspec_succ ih, sspec_succ ih,
      bspec_succ ih, ssspec_succ ih⟩

end Tengo.Proofs.C02Compile

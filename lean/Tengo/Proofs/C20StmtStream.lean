import Tengo.Proofs.C20StmtPrint
import Tengo.Proofs.C20StmtScan
/-!
C20 — statements, byte level, part 2: the printed statement stream never fuses (`StreamOk3 (laySs ss) eofR`), its last
token sets `insertSemi`, and the composition scanner ∘ printer ∘ parser on a printed statement list.
-/
namespace Tengo.Proofs.C20Stmt
open Tengo.Model.Token Tengo.Model.Scanner Tengo.Model.Ast Tengo.Model.Parser Tengo.Model.Literal
open Tengo.Model.Printer
open Tengo.Proofs.C20Parser Tengo.Proofs.C20BytesScan Tengo.Proofs.C20BytesParse Tengo.Proofs.C20BytesPrint
open Tengo.Proofs.C20Bytes2Scan Tengo.Proofs.C20Bytes2Stream Tengo.Proofs.C20Bytes2Parse Tengo.Proofs.C20Bytes2Print
open Tengo.Proofs.C20StmtEq Tengo.Proofs.C20StmtScan
open Tengo.Proofs.C20BytesStream (endToks)

variable {fo : Bs → Option Nat}

/-- A blank follows: it ends every word and number. -/
macro "sp_tac" : tactic =>
  `(tactic| first | (show identStop 32 = true; decide) | (show (32 : Nat) ≠ 46; decide))

/-- The rune behind a statement: `;`, `}`, the end of input; behind init / post of a `for` a blank or `{`. -/
def EndR (e : Nat) : Prop := e = 59 ∨ e = 125 ∨ e = eofR ∨ e = 32 ∨ e = 123

theorem endR_facts {e : Nat} (h : EndR e) : identStop e = true ∧ e ≠ 46 := by
  rcases h with rfl | rfl | rfl | rfl | rfl <;> decide

theorem kw_words : wordOk Tok.If.bytes = true ∧ wordOk Tok.For.bytes = true ∧ wordOk Tok.Return.bytes = true ∧
    wordOk Tok.Break.bytes = true ∧ wordOk Tok.Continue.bytes = true ∧ wordOk Tok.Else.bytes = true := by
  decide +kernel

theorem kw_in_word : wordOk Tok.In.bytes = true := by decide +kernel


theorem frag3 (t : Tok) (hop : fragOp2 t = true) (r : List El2) (e : Nat)
    (hf : fuses2 t (firstR2 r e) = false) (hr : StreamOk3 r e) : StreamOk3 (opE t :: r) e := by
  have hi : (Item2.op t).ok = true := hop
  refine ⟨by simp [ok3, hi], ?_, hr⟩
  rw [(ok_same _ hi).1]
  simp [Item2.sepOk, hf]

theorem kw3 (t : Tok) (hw : wordOk t.bytes = true) (r : List El2) (e : Nat)
    (hs : identStop (firstR2 r e) = true) (hr : StreamOk3 r e) : StreamOk3 (kwE t :: r) e :=
  ⟨by simp [ok3, Item2.ok, hw], by simpa [sepOk3, Item2.sepOk] using hs, hr⟩

theorem word3 (n : Bs) (hw : wordOk n = true) (r : List El2) (e : Nat)
    (hs : identStop (firstR2 r e) = true) (hr : StreamOk3 r e) : StreamOk3 (.it (.word n) :: r) e :=
  ⟨by simp [ok3, Item2.ok, hw], by simpa [sepOk3, Item2.sepOk] using hs, hr⟩

theorem op3 (t : Tok) (hop : stmtOp t = true) (r : List El2) (e : Nat)
    (hf : fuses3 t (firstR2 r e) = false) (hr : StreamOk3 r e) : StreamOk3 (opE t :: r) e :=
  ⟨by simp [ok3, opE, isStmtOpItem, hop], by simp [opE, sepOk3, hop, hf], hr⟩

theorem semi3 (r : List El2) (e : Nat) (hr : StreamOk3 r e) : StreamOk3 (semiE :: r) e :=
  ⟨by decide, by simp [sepOk3, Item2.sepOk], hr⟩

theorem brace3 (t : Tok) (ht : t = .LBrace ∨ t = .RBrace) (r : List El2) (e : Nat) (hr : StreamOk3 r e) :
    StreamOk3 (opE t :: r) e := by
  rcases ht with rfl | rfl
  · exact ⟨by decide, by simp [opE, sepOk3, stmtOp, Item2.sepOk, fuses2, fuses], hr⟩
  · exact ⟨by decide, by simp [opE, sepOk3, stmtOp, Item2.sepOk, fuses2, fuses], hr⟩

theorem expr3 (x : Expr) (h : Frag2 fo x) (e : Nat) (he : identStop e = true) (h46 : e ≠ 46) :
    StreamOk3 (layE x) e :=
  streamOk_23 _ _ (stream_lay x h e he (fun _ => h46))

theorem args3 (es : Exprs) (h : Frag2s fo es) (e : Nat) (he : identStop e = true) (h46 : e ≠ 46) :
    StreamOk3 (layArgs es) e :=
  streamOk_23 _ _ (stream_args es h e he (fun _ => h46))

theorem blk3 (l : List El2) (e : Nat) (hl : StreamOk3 l 125) : StreamOk3 (blk l) e := by
  refine brace3 .LBrace (Or.inl rfl) _ _ ?_
  rw [streamOk3_append]
  exact ⟨hl, brace3 .RBrace (Or.inr rfl) _ _ trivial⟩

theorem asg_stmtOp {tok : Tok} {l r : Exprs} (h : asgShape tok l r = true) : stmtOp tok = true := by
  have : ∀ k : Tok, ((k == .Assign || k == .Define) = true ∨ isOpAssign k = true) → stmtOp k = true := by
    intro k; cases k <;> simp [isOpAssign, stmtOp]
  simp only [asgShape, Bool.or_eq_true, Bool.and_eq_true] at h
  rcases h with ⟨⟨h, -⟩, -⟩ | ⟨⟨⟨h, -⟩, -⟩, -⟩
  · exact this _ (Or.inl (by simpa using h))
  · exact this _ (Or.inr h)

theorem first_tail (ss : Stmts) (e : Nat) (he : EndR e) : EndR (firstR2 (laySTail ss) e) := by
  cases ss with
  | nil => exact he
  | cons s ss => exact Or.inl rfl

theorem first_else (o : OptStmt) (e : Nat) (he : EndR e) :
    firstR2 (layElse o) e = 32 ∨ EndR (firstR2 (layElse o) e) := by
  cases o with
  | none => exact Or.inr he
  | some s => exact Or.inl rfl

mutual
  /-- **The printed statement never fuses**, whatever ends it (`;`, `}`, end of input). -/
  theorem streamS : (x : Stmt) → FragS fo x → ∀ e, EndR e → StreamOk3 (layS x) e
    | .expr x, h, e, he => by
      simp only [FragS] at h
      exact expr3 x h e (endR_facts he).1 (endR_facts he).2
    | .assign tok l r, h, e, he => by
      simp only [FragS] at h
      simp only [layS]
      rw [streamOk3_append]
      refine ⟨args3 l h.2.1 _ (by sp_tac) (by sp_tac), ?_⟩
      refine op3 tok (asg_stmtOp h.1) _ _ (by simp [fuses3, firstR2]) ?_
      exact args3 r h.2.2 e (endR_facts he).1 (endR_facts he).2
    | .incdec tok x, h, e, he => by
      simp only [FragS] at h
      simp only [layS]
      rw [streamOk3_append]
      rcases h.1 with rfl | rfl
      · refine ⟨expr3 x h.2 _ ?_ ?_, op3 _ rfl _ _ (by simp [fuses3]) trivial⟩
        · rw [firstR2_opE _ 43 [43] (by decide)]; decide
        · rw [firstR2_opE _ 43 [43] (by decide)]; decide
      · refine ⟨expr3 x h.2 _ ?_ ?_, op3 _ rfl _ _ (by simp [fuses3]) trivial⟩
        · rw [firstR2_opE _ 45 [45] (by decide)]; decide
        · rw [firstR2_opE _ 45 [45] (by decide)]; decide
    | .ret .none, _, e, he => by
      simp only [layS, layRet]
      exact kw3 _ kw_words.2.2.1 _ _ (endR_facts he).1 trivial
    | .ret (.some x), h, e, he => by
      simp only [FragS, Frag2O] at h
      simp only [layS, layRet]
      exact kw3 _ kw_words.2.2.1 _ _ (by sp_tac) (expr3 x h e (endR_facts he).1 (endR_facts he).2)
    | .branch tok none, h, e, he => by
      simp only [FragS] at h
      simp only [layS, layLabel]
      rcases h.1 with rfl | rfl
      · exact kw3 _ kw_words.2.2.2.1 _ _ (endR_facts he).1 trivial
      · exact kw3 _ kw_words.2.2.2.2.1 _ _ (endR_facts he).1 trivial
    | .branch tok (some l), h, e, he => by
      simp only [FragS, labelOk] at h
      simp only [layS, layLabel]
      have hw := (wordAtom_atom h.2).1
      rcases h.1 with rfl | rfl
      · exact kw3 _ kw_words.2.2.2.1 _ _ (by sp_tac) (word3 l hw _ _ (endR_facts he).1 trivial)
      · exact kw3 _ kw_words.2.2.2.2.1 _ _ (by sp_tac) (word3 l hw _ _ (endR_facts he).1 trivial)
    | .ifS i c body .none, h, e, he => by
      simp only [FragS] at h
      simp only [layS, layElse, List.append_nil]
      refine kw3 _ kw_words.1 _ _ (by sp_tac) ?_
      show StreamOk3 (layInit i ++ (layE c ++ .sp :: blk (laySs body))) e
      rw [streamOk3_append]
      refine ⟨streamInit i h.1 _, ?_⟩
      rw [streamOk3_append]
      exact ⟨expr3 c h.2.1 _ (by sp_tac) (by sp_tac),
        blk3 _ _ (streamSs body h.2.2.2.1 125 (Or.inr (Or.inl rfl)))⟩
    | .ifS i c body (.some s), h, e, he => by
      simp only [FragS, FragEl] at h
      simp only [layS, layElse]
      refine kw3 _ kw_words.1 _ _ (by sp_tac) ?_
      show StreamOk3 (layInit i ++ (layE c ++ .sp :: (blk (laySs body) ++ .sp :: kwE .Else :: .sp :: layS s))) e
      rw [streamOk3_append]
      refine ⟨streamInit i h.1 _, ?_⟩
      rw [streamOk3_append]
      refine ⟨expr3 c h.2.1 _ (by sp_tac) (by sp_tac), ?_⟩
      show StreamOk3 (blk (laySs body) ++ .sp :: kwE .Else :: .sp :: layS s) e
      rw [streamOk3_append]
      refine ⟨blk3 _ _ (streamSs body h.2.2.2.1 125 (Or.inr (Or.inl rfl))), ?_⟩
      exact kw3 _ kw_words.2.2.2.2.2 _ _ (by sp_tac) (streamS s h.2.2.2.2.2 e he)
    | .forS i c p body, h, e, he => by
      simp only [FragS] at h
      have hb := blk3 (laySs body) e (streamSs body h.2.2.2.2 125 (Or.inr (Or.inl rfl)))
      have hcond : ∀ e', StreamOk3 (layCond c) e' := by
        intro e'
        cases c with
        | none => trivial
        | some x =>
          have hx : Frag2 fo x := h.2.2.1
          simp only [layCond]
          rw [streamOk3_append]
          exact ⟨expr3 x hx _ (by sp_tac) (by sp_tac), trivial⟩
      cases hform : (isNoneS i && isNoneS p) with
      | true =>
        simp only [layS, hform, if_true]
        refine kw3 _ kw_words.2.1 _ _ (by sp_tac) ?_
        show StreamOk3 (layCond c ++ blk (laySs body)) e
        rw [streamOk3_append]
        exact ⟨hcond _, hb⟩
      | false =>
        simp only [layS, hform, Bool.false_eq_true, if_false]
        refine kw3 _ kw_words.2.1 _ _ (by sp_tac) ?_
        show StreamOk3 (layOS i ++ .sp :: semiE :: .sp ::
          (layCond c ++ .sp :: semiE :: .sp :: (layOS p ++ blk (laySs body)))) e
        rw [streamOk3_append]
        refine ⟨streamOS i h.1 _ (Or.inr (Or.inr (Or.inr (Or.inl rfl)))), ?_⟩
        refine semi3 _ _ ?_
        show StreamOk3 (layCond c ++ .sp :: semiE :: .sp :: (layOS p ++ blk (laySs body))) e
        rw [streamOk3_append]
        refine ⟨hcond _, semi3 _ _ ?_⟩
        show StreamOk3 (layOS p ++ blk (laySs body)) e
        rw [streamOk3_append]
        exact ⟨streamOS p h.2.1 _ (Or.inr (Or.inr (Or.inr (Or.inr rfl)))), hb⟩
    | .forIn k v it body, h, e, he => by
      simp only [FragS] at h
      cases k with
      | none => simp [nameOk] at h
      | some kn =>
        cases v with
        | none => simp [nameOk] at h
        | some vn =>
          simp only [nameOk] at h
          simp only [layS, Option.getD]
          refine kw3 _ kw_words.2.1 _ _ (by sp_tac) ?_
          refine word3 kn (wordAtom_atom h.1).1 _ _ (by rw [firstR2_opE _ 44 [] comma_bytes]; decide) ?_
          refine frag3 .Comma (by decide) _ _ (fuses2_blank _) ?_
          refine word3 vn (wordAtom_atom h.2.1).1 _ _ (by sp_tac) ?_
          refine kw3 _ kw_in_word _ _ (by sp_tac) ?_
          show StreamOk3 (layE it ++ .sp :: blk (laySs body)) e
          rw [streamOk3_append]
          exact ⟨expr3 it h.2.2.1 _ (by sp_tac) (by sp_tac),
            blk3 _ _ (streamSs body h.2.2.2 125 (Or.inr (Or.inl rfl)))⟩
    | .block ss, h, e, he => by
      simp only [FragS] at h
      simp only [layS]
      exact blk3 _ _ (streamSs ss h 125 (Or.inr (Or.inl rfl)))
    | .export _, h, _, _ => by simp [FragS] at h
    | .empty _, h, _, _ => by simp [FragS] at h
    | .bad, h, _, _ => by simp [FragS] at h
  theorem streamSs : (ss : Stmts) → FragSs fo ss → ∀ e, EndR e → StreamOk3 (laySs ss) e
    | .nil, _, _, _ => trivial
    | .cons x xs, h, e, he => by
      simp only [FragSs] at h
      simp only [laySs]
      rw [streamOk3_append]
      exact ⟨streamS x h.2.1 _ (first_tail xs e he), streamSTail xs h.2.2 e he⟩
  theorem streamSTail : (ss : Stmts) → FragSs fo ss → ∀ e, EndR e → StreamOk3 (laySTail ss) e
    | .nil, _, _, _ => trivial
    | .cons x xs, h, e, he => by
      simp only [FragSs] at h
      simp only [laySTail]
      refine semi3 _ _ ?_
      show StreamOk3 (layS x ++ laySTail xs) e
      rw [streamOk3_append]
      exact ⟨streamS x h.2.1 _ (first_tail xs e he), streamSTail xs h.2.2 e he⟩
  theorem streamInit : (i : OptStmt) → FragInit fo i → ∀ e, StreamOk3 (layInit i) e
    | .none, _, _ => trivial
    | .some x, h, e => by
      simp only [FragInit] at h
      simp only [layInit]
      rw [streamOk3_append]
      exact ⟨streamS x h.2.2 _ (Or.inl rfl), semi3 _ _ trivial⟩
  theorem streamOS : (i : OptStmt) → FragInit fo i → ∀ e, EndR e → StreamOk3 (layOS i) e
    | .none, _, _, _ => trivial
    | .some x, h, e, he => by
      simp only [FragInit] at h
      simp only [layOS]
      exact streamS x h.2.2 e he
end

/-! ### The last token sets `insertSemi` -/

theorem last_expr3 (x : Expr) (h : Frag2 fo x) (ins : Bool) : lastIns3 ins (layE x) = true := by
  rw [lastIns_23 _ eofR (stream_lay x h eofR (by decide) (fun _ => by decide)) ins]
  exact last_lay x h ins

theorem last_args3 : (e : Expr) → (es : Exprs) → Frag2 fo e → Frag2s fo es → ∀ ins,
    lastIns3 ins (layE e ++ layTail es) = true
  | e, .nil, he, _, ins => by
    simp only [layTail, List.append_nil]
    exact last_expr3 e he ins
  | e, .cons e' es', _, hes, ins => by
    simp only [Frag2s] at hes
    simp only [layTail]
    rw [lastIns3_append]
    show lastIns3 _ (layE e' ++ layTail es') = true
    exact last_args3 e' es' hes.1 hes.2 _

theorem last_close3 (ins : Bool) (a : List El2) : lastIns3 ins (a ++ [opE .RBrace]) = true := by
  rw [lastIns3_append]
  rfl

theorem lastS : (x : Stmt) → FragS fo x → ∀ ins, lastIns3 ins (layS x) = true
  | .expr x, h, ins => by
    simp only [FragS] at h
    exact last_expr3 x h ins
  | .assign tok l .nil, h, _ => by simp [FragS, asgShape, nonEmpty, single] at h
  | .assign tok l (.cons e2 es2), h, ins => by
    simp only [FragS, Frag2s] at h
    simp only [layS, layArgs]
    rw [lastIns3_append]
    show lastIns3 _ (layE e2 ++ layTail es2) = true
    exact last_args3 e2 es2 h.2.2.1 h.2.2.2 _
  | .incdec tok x, h, ins => by
    simp only [FragS] at h
    simp only [layS]
    rw [lastIns3_append]
    rcases h.1 with rfl | rfl <;> rfl
  | .ret .none, _, ins => by
    simp only [layS, layRet]
    show insAfter3 (.word Tok.Return.bytes) = true
    decide +kernel
  | .ret (.some x), h, ins => by
    simp only [FragS, Frag2O] at h
    simp only [layS, layRet]
    show lastIns3 _ (layE x) = true
    exact last_expr3 x h _
  | .branch tok none, h, ins => by
    simp only [FragS] at h
    simp only [layS, layLabel]
    show insAfter3 (.word tok.bytes) = true
    rcases h.1 with rfl | rfl <;> decide +kernel
  | .branch tok (some l), h, ins => by
    simp only [FragS, labelOk] at h
    simp only [layS, layLabel]
    show insAfter3 (.word l) = true
    obtain ⟨-, h2, -, h4, -⟩ := wordAtom_atom h.2
    simp [insAfter3, Item2.insAfter, h2, h4]
  | .ifS i c body .none, _, ins => by
    have : layS (.ifS i c body .none) =
        (kwE .If :: .sp :: (layInit i ++ (layE c ++ .sp :: opE .LBrace :: laySs body))) ++ [opE .RBrace] := by
      simp [layS, layElse, blk]
    rw [this]
    exact last_close3 _ _
  | .ifS i c body (.some s), h, ins => by
    simp only [FragS, FragEl] at h
    have : layS (.ifS i c body (.some s)) =
        (kwE .If :: .sp :: (layInit i ++ (layE c ++ .sp :: (blk (laySs body) ++ [.sp, kwE .Else, .sp])))) ++ layS s := by
      simp [layS, layElse]
    rw [this, lastIns3_append]
    exact lastS s h.2.2.2.2.2 _
  | .forS i c p body, _, ins => by
    cases hform : (isNoneS i && isNoneS p) with
    | true =>
      have : layS (.forS i c p body) =
          (kwE .For :: .sp :: (layCond c ++ opE .LBrace :: laySs body)) ++ [opE .RBrace] := by
        simp [layS, hform, blk]
      rw [this]
      exact last_close3 _ _
    | false =>
      have : layS (.forS i c p body) = (kwE .For :: .sp :: (layOS i ++ .sp :: semiE :: .sp ::
          (layCond c ++ .sp :: semiE :: .sp :: (layOS p ++ opE .LBrace :: laySs body)))) ++ [opE .RBrace] := by
        simp [layS, hform, blk]
      rw [this]
      exact last_close3 _ _
  | .forIn k v it body, _, ins => by
    have : layS (.forIn k v it body) = (kwE .For :: .sp :: .it (.word (k.getD [])) :: opE .Comma :: .sp ::
        .it (.word (v.getD [])) :: .sp :: kwE .In :: .sp :: (layE it ++ .sp :: opE .LBrace :: laySs body)) ++
        [opE .RBrace] := by
      simp [layS, blk]
    rw [this]
    exact last_close3 _ _
  | .block ss, _, ins => by
    have : layS (.block ss) = (opE .LBrace :: laySs ss) ++ [opE .RBrace] := by simp [layS, blk]
    rw [this]
    exact last_close3 _ _
  | .export _, h, _ => by simp [FragS] at h
  | .empty _, h, _ => by simp [FragS] at h
  | .bad, h, _ => by simp [FragS] at h

theorem lastSs : (x : Stmt) → (xs : Stmts) → FragS fo x → FragSs fo xs → ∀ ins,
    lastIns3 ins (layS x ++ laySTail xs) = true
  | x, .nil, hx, _, ins => by
    simp only [laySTail, List.append_nil]
    exact lastS x hx ins
  | x, .cons y ys, _, hs, ins => by
    simp only [FragSs] at hs
    simp only [laySTail]
    rw [lastIns3_append]
    show lastIns3 _ (layS y ++ laySTail ys) = true
    exact lastSs y ys hs.2.1 hs.2.2 _

/-! ### Scanner ∘ parser on the printed bytes -/

/-- **parse ∘ scan ∘ print for statement lists, byte level.** -/
theorem parseFile_stmts (cls : Nat → Nat) (s : Stmt) (ss : Stmts) (h : FragSs fo (.cons s ss)) :
    parseFile fo cls (printFile (.cons s ss)) = some (pfSs (.cons s ss)) := by
  rw [printFile_lay _ h]
  obtain ⟨hT, hE⟩ := scan_print_tokens3 cls (laySs (.cons s ss)) (streamSs _ h eofR (Or.inr (Or.inr (Or.inl rfl))))
  have hlast : lastIns3 false (laySs (.cons s ss)) = true := by
    have h' := h
    simp only [FragSs] at h'
    simp only [laySs]
    exact lastSs s ss h'.2.1 h'.2.2 false
  simp only [hlast, endToks, if_true] at hT
  generalize (render2 (laySs (.cons s ss))).length = n at hT
  have := parseToks_stmts s ss h (place2 0 (laySs (.cons s ss))) ⟨.Semicolon, [10], n⟩ ⟨.EOF, [], n⟩
    (place2_keys _ 0) rfl rfl
  unfold parseFile
  simp only [hE, List.isEmpty_nil, if_true, hT]
  exact this

/-- The empty file. -/
theorem parseFile_nil (cls : Nat → Nat) : parseFile fo cls (printFile .nil) = some .nil := by
  have hp : printFile .nil = render2 [] := rfl
  rw [hp]
  obtain ⟨hT, hE⟩ := scan_print_tokens3 cls [] trivial
  unfold parseFile
  simp only [hE, List.isEmpty_nil, if_true, hT]
  exact parseToks_empty _ rfl

end Tengo.Proofs.C20Stmt

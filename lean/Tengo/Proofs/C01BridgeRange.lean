import Tengo.Proofs.C01BridgeVMStep
/-!
C01 bridge: the operands of the code the fragment's compiler emits for a well-formed program are in range
(`compSs_good`): constants below the number of literals, globals below the number of slots, binary
tokens operators of the language, jump targets inside the code. Hence they fit their encoded widths as
soon as there are at most 65536 constants and globals and the code is shorter than 2^32 bytes
(`InsGood.fits`).
-/
set_option linter.unusedVariables false
set_option linter.unusedSimpArgs false
namespace Tengo.Proofs.C01Bridge
open Tengo.Model Tengo.Model.F0

/-- Operands of an emitted instruction: constant below `K`, global below `n`, operator token, jump target at most `J`. -/
def InsGood (K n J : Nat) : Ins → Prop
  | .const k => k < K
  | .getg i | .setg i => i < n
  | .binop t => validTok t = true
  | .jmpf t | .jmp t | .andjmp t | .orjmp t => t ≤ J
  | _ => True

theorem InsGood.mono {K n J J' : Nat} (hJ : J ≤ J') {i : Ins} (h : InsGood K n J i) : InsGood K n J' i := by
  cases i <;> simp only [InsGood] at h ⊢ <;> first | exact h | omega

theorem InsGood.monoK {K K' n J : Nat} (hK : K ≤ K') {i : Ins} (h : InsGood K n J i) : InsGood K' n J i := by
  cases i <;> simp only [InsGood] at h ⊢ <;> first | exact h | omega

theorem validTok_lt {t : Nat} (h : validTok t = true) : t < 256 := by
  simp [validTok] at h; omega

theorem InsGood.fits {K n J : Nat} (hK : K ≤ 65536) (hn : n ≤ 65536) (hJ : J < 4294967296) {i : Ins}
    (h : InsGood K n J i) : InsFits i ∧ InsRange K n i := by
  cases i <;> simp only [InsGood, InsFits, InsRange] at h ⊢ <;>
    first | exact ⟨trivial, trivial⟩ | (have := validTok_lt h; exact ⟨this, trivial⟩) | (constructor <;> first | trivial | omega)

theorem comp_good (n K : Nat) (e : Ex) : ∀ (off k : Nat), wfE n k e = true → k + nlitsE e ≤ K →
    ∀ i, i ∈ comp off e → InsGood K n (off + esize e) i := by
  induction e with
  | lit j =>
    intro off k hw hk i hi
    simp only [wfE, beq_iff_eq] at hw
    simp only [comp, List.mem_singleton] at hi
    subst hi hw
    simp only [nlitsE] at hk
    simp only [InsGood]; omega
  | tru | fls | undef =>
    intro off k hw hk i hi
    simp only [comp, List.mem_singleton] at hi
    subst hi; trivial
  | glob j =>
    intro off k hw hk i hi
    simp only [wfE, decide_eq_true_eq] at hw
    simp only [comp, List.mem_singleton] at hi
    subst hi; exact hw
  | bin tok l r ihl ihr =>
    intro off k hw hk i hi
    simp only [wfE, Bool.and_eq_true] at hw
    obtain ⟨⟨ht, hwl⟩, hwr⟩ := hw
    simp only [nlitsE] at hk
    simp only [comp, csize_comp, List.mem_append, List.mem_singleton] at hi
    rcases hi with (hi | hi) | hi
    · exact (ihl off k hwl (by omega) i hi).mono (by simp [esize]; omega)
    · exact (ihr _ _ hwr (by omega) i hi).mono (by simp [esize]; omega)
    · subst hi; exact ht
  | eq l r ihl ihr | ne l r ihl ihr =>
    intro off k hw hk i hi
    simp only [wfE, Bool.and_eq_true] at hw
    obtain ⟨hwl, hwr⟩ := hw
    simp only [nlitsE] at hk
    simp only [comp, csize_comp, List.mem_append, List.mem_singleton] at hi
    rcases hi with (hi | hi) | hi
    · exact (ihl off k hwl (by omega) i hi).mono (by simp [esize]; omega)
    · exact (ihr _ _ hwr (by omega) i hi).mono (by simp [esize]; omega)
    · subst hi; trivial
  | neg e ih | bnot e ih | lnot e ih =>
    intro off k hw hk i hi
    simp only [wfE] at hw
    simp only [nlitsE] at hk
    simp only [comp, List.mem_append, List.mem_singleton] at hi
    rcases hi with hi | hi
    · exact (ih off k hw hk i hi).mono (by simp [esize])
    · subst hi; trivial
  | plus e ih =>
    intro off k hw hk i hi
    simp only [wfE] at hw
    simp only [nlitsE] at hk
    simp only [comp] at hi
    exact (ih off k hw hk i hi).mono (by simp [esize])
  | cond c t f ihc iht ihf =>
    intro off k hw hk i hi
    simp only [wfE, Bool.and_eq_true] at hw
    obtain ⟨⟨hwc, hwt⟩, hwf⟩ := hw
    simp only [nlitsE] at hk
    simp only [comp, csize_comp, List.mem_append, List.mem_singleton] at hi
    rcases hi with (((hi | hi) | hi) | hi) | hi
    · exact (ihc off k hwc (by omega) i hi).mono (by simp [esize]; omega)
    · subst hi; simp only [InsGood, esize]; omega
    · exact (iht _ _ hwt (by omega) i hi).mono (by simp [esize]; omega)
    · subst hi; simp only [InsGood, esize]; omega
    · exact (ihf _ _ hwf (by omega) i hi).mono (by simp [esize]; omega)
  | land l r ihl ihr | lor l r ihl ihr =>
    intro off k hw hk i hi
    simp only [wfE, Bool.and_eq_true] at hw
    obtain ⟨hwl, hwr⟩ := hw
    simp only [nlitsE] at hk
    simp only [comp, csize_comp, List.mem_append, List.mem_singleton] at hi
    rcases hi with (hi | hi) | hi
    · exact (ihl off k hwl (by omega) i hi).mono (by simp [esize]; omega)
    · subst hi; simp only [InsGood, esize]; omega
    · exact (ihr _ _ hwr (by omega) i hi).mono (by simp [esize]; omega)


mutual
  theorem compS_good (n K : Nat) : ∀ (s : F1.Stm) (off k : Nat), wfS n k s = true → k + nlitsS s ≤ K →
      ∀ i, i ∈ F1.compS off s → InsGood K n (off + F1.ssize s) i
    | .expr e, off, k, hw, hk, i, hi => by
      simp only [wfS] at hw
      simp only [nlitsS] at hk
      simp only [F1.compS, List.mem_append, List.mem_singleton] at hi
      rcases hi with hi | hi
      · exact (comp_good n K e off k hw hk i hi).mono (by simp [F1.ssize])
      · subst hi; trivial
    | .assign j e, off, k, hw, hk, i, hi => by
      simp only [wfS, Bool.and_eq_true, decide_eq_true_eq] at hw
      simp only [nlitsS] at hk
      simp only [F1.compS, List.mem_append, List.mem_singleton] at hi
      rcases hi with hi | hi
      · exact (comp_good n K e off k hw.2 hk i hi).mono (by simp [F1.ssize])
      · subst hi; exact hw.1
    | .ifs c body, off, k, hw, hk, i, hi => by
      simp only [wfS, Bool.and_eq_true] at hw
      simp only [nlitsS] at hk
      simp only [F1.compS, csize_comp, F1.csize_compSs, List.mem_append, List.mem_singleton] at hi
      rcases hi with (hi | hi) | hi
      · exact (comp_good n K c off k hw.1 (by omega) i hi).mono (by simp [F1.ssize]; omega)
      · subst hi; simp only [InsGood, F1.ssize]; omega
      · exact (compSs_good n K body _ _ hw.2 (by omega) i hi).mono (by simp [F1.ssize]; omega)
    | .ifelse c body els, off, k, hw, hk, i, hi => by
      simp only [wfS, Bool.and_eq_true] at hw
      simp only [nlitsS] at hk
      simp only [F1.compS, csize_comp, F1.csize_compSs, List.mem_append, List.mem_singleton] at hi
      rcases hi with (((hi | hi) | hi) | hi) | hi
      · exact (comp_good n K c off k hw.1.1 (by omega) i hi).mono (by simp [F1.ssize]; omega)
      · subst hi; simp only [InsGood, F1.ssize]; omega
      · exact (compSs_good n K body _ _ hw.1.2 (by omega) i hi).mono (by simp [F1.ssize]; omega)
      · subst hi; simp only [InsGood, F1.ssize]; omega
      · exact (compSs_good n K els _ _ hw.2 (by omega) i hi).mono (by simp [F1.ssize]; omega)
    | .whil c body, off, k, hw, hk, i, hi => by
      simp only [wfS, Bool.and_eq_true] at hw
      simp only [nlitsS] at hk
      simp only [F1.compS, csize_comp, F1.csize_compSs, List.mem_append, List.mem_singleton] at hi
      rcases hi with ((hi | hi) | hi) | hi
      · exact (comp_good n K c off k hw.1 (by omega) i hi).mono (by simp [F1.ssize]; omega)
      · subst hi; simp only [InsGood, F1.ssize]; omega
      · exact (compSs_good n K body _ _ hw.2 (by omega) i hi).mono (by simp [F1.ssize]; omega)
      · subst hi; simp only [InsGood, F1.ssize]; omega
    | .forever body, off, k, hw, hk, i, hi => by
      simp only [wfS] at hw
      simp only [nlitsS] at hk
      simp only [F1.compS, F1.csize_compSs, List.mem_append, List.mem_singleton] at hi
      rcases hi with hi | hi
      · exact (compSs_good n K body _ _ hw (by omega) i hi).mono (by simp [F1.ssize])
      · subst hi; simp only [InsGood, F1.ssize]; omega
  theorem compSs_good (n K : Nat) : ∀ (ss : F1.Stms) (off k : Nat), wfSs n k ss = true → k + nlitsSs ss ≤ K →
      ∀ i, i ∈ F1.compSs off ss → InsGood K n (off + F1.sssize ss) i
    | .nil, off, k, hw, hk, i, hi => by simp [F1.compSs] at hi
    | .cons s ss, off, k, hw, hk, i, hi => by
      simp only [wfSs, Bool.and_eq_true] at hw
      simp only [nlitsSs] at hk
      simp only [F1.compSs, F1.csize_compS, List.mem_append] at hi
      rcases hi with hi | hi
      · exact (compS_good n K s off k hw.1 (by omega) i hi).mono (by simp [F1.sssize])
      · exact (compSs_good n K ss _ _ hw.2 (by omega) i hi).mono (by simp [F1.sssize]; omega)
end

end Tengo.Proofs.C01Bridge

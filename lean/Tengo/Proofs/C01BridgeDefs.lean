import Tengo.Model.Compiler
import Tengo.Model.F1
import Tengo.Proofs.F1Stmts
/-!
C01 bridge, layer 0: the embedding of the fragment F1 (`Tengo.Model.F1`) into the real AST
(`Tengo.Model.Spec.Expr/Stmt`), the side conditions under which the embedding is faithful
(`wfE`/`wfS`/`wfSs`), the depth budget the compiler model's traversal needs, and the byte encoding of
the fragment's instructions.

* global slot `i` ↦ the identifier `names i`; all slots are pre-declared as `inputs`
  (`inputsOf names n = [names 0, …, names (n-1)]`), so `Compiler.initState` gives slot `i` to `names i`
  when `names` is injective below `n`;
* `.lit k` ↦ the literal expression of `ctab k`. The real compiler numbers constants in `addConstant`
  order without de-duplication, so the embedding is faithful exactly for programs whose `k`-th literal
  occurrence (in compilation order) is `.lit k` — that is what `wfE n k e` says (`k` = pool size before `e`);
* `.bin tok l r` ↦ `bin (tokNameOf tok) l r` for the 15 token numbers of `F0.tokNumbers` (`validTok`);
* assignments use `=` (never `:=`): the fragment has no declarations.
-/
namespace Tengo.Proofs.C01Bridge
open Tengo.Model Tengo.Model.F0 Tengo.Model.Opcodes
open Tengo.Model.Spec (Expr Stmt)

/-! ### the embedding -/

/-- The literal expression of a constant of the fragment's pool. -/
def litExpr : F0.Const → Expr
  | .int v => .int v | .float b => .float b | .char v => .char v | .str b => .str b

/-- The constant the real compiler adds for that literal. -/
def constOf : F0.Const → Compiler.Const
  | .int v => .int v | .float b => .float b | .char v => .char v | .str b => .str b

/-- The token numbers that are binary operators of the language (the keys of `F0.tokNumbers`). -/
def validTok (n : Nat) : Bool :=
  n == 11 || n == 12 || n == 13 || n == 14 || n == 15 || n == 16 || n == 17 || n == 18 || n == 19 ||
  n == 20 || n == 21 || n == 38 || n == 39 || n == 43 || n == 44

section embed
variable (names : Nat → String) (ctab : Nat → F0.Const)

def toAstE : Ex → Expr
  | .lit k => litExpr (ctab k)
  | .tru => .bool true
  | .fls => .bool false
  | .undef => .undef
  | .glob i => .ident (names i)
  | .bin tok l r => .bin (tokNameOf tok) (toAstE l) (toAstE r)
  | .eq l r => .bin "Equal" (toAstE l) (toAstE r)
  | .ne l r => .bin "NotEqual" (toAstE l) (toAstE r)
  | .neg e => .un "Sub" (toAstE e)
  | .bnot e => .un "Xor" (toAstE e)
  | .lnot e => .un "Not" (toAstE e)
  | .plus e => .un "Add" (toAstE e)
  | .cond c t f => .cond (toAstE c) (toAstE t) (toAstE f)
  | .land l r => .bin "LAnd" (toAstE l) (toAstE r)
  | .lor l r => .bin "LOr" (toAstE l) (toAstE r)

mutual
  def toAstS : F1.Stm → Stmt
    | .expr e => .expr (toAstE names ctab e)
    | .assign i e => .assign "Assign" [.ident (names i)] [toAstE names ctab e]
    | .ifs c body => .ifs none (toAstE names ctab c) (toAstSs body) none
    | .ifelse c body els => .ifs none (toAstE names ctab c) (toAstSs body) (some (.block (toAstSs els)))
    | .whil c body => .fors none (some (toAstE names ctab c)) none (toAstSs body)
    | .forever body => .fors none none none (toAstSs body)
  def toAstSs : F1.Stms → List Stmt
    | .nil => []
    | .cons s ss => toAstS s :: toAstSs ss
end

/-- The inputs that pre-declare the global slots `0 … n-1` in slot order. -/
def inputsOf (n : Nat) : List String := (List.range n).map names

end embed

/-! ### literal numbering, slots, tokens -/

/-- Number of literal occurrences (= constants the real compiler adds). -/
def nlitsE : Ex → Nat
  | .lit _ => 1
  | .tru | .fls | .undef | .glob _ => 0
  | .bin _ l r | .eq l r | .ne l r | .land l r | .lor l r => nlitsE l + nlitsE r
  | .neg e | .bnot e | .lnot e | .plus e => nlitsE e
  | .cond c t f => nlitsE c + nlitsE t + nlitsE f

/-- `wfE n k e`: every global slot of `e` is below `n`, every binary token is an operator of the language,
and the literal occurrences of `e` are numbered `k, k+1, …` in compilation order. -/
def wfE (n : Nat) : Nat → Ex → Bool
  | k, .lit j => j == k
  | _, .tru | _, .fls | _, .undef => true
  | _, .glob i => decide (i < n)
  | k, .bin tok l r => validTok tok && wfE n k l && wfE n (k + nlitsE l) r
  | k, .eq l r | k, .ne l r | k, .land l r | k, .lor l r => wfE n k l && wfE n (k + nlitsE l) r
  | k, .neg e | k, .bnot e | k, .lnot e | k, .plus e => wfE n k e
  | k, .cond c t f => wfE n k c && wfE n (k + nlitsE c) t && wfE n (k + nlitsE c + nlitsE t) f

mutual
  def nlitsS : F1.Stm → Nat
    | .expr e => nlitsE e
    | .assign _ e => nlitsE e
    | .ifs c body => nlitsE c + nlitsSs body
    | .ifelse c body els => nlitsE c + nlitsSs body + nlitsSs els
    | .whil c body => nlitsE c + nlitsSs body
    | .forever body => nlitsSs body
  def nlitsSs : F1.Stms → Nat
    | .nil => 0
    | .cons s ss => nlitsS s + nlitsSs ss
end

mutual
  def wfS (n : Nat) : Nat → F1.Stm → Bool
    | k, .expr e => wfE n k e
    | k, .assign i e => decide (i < n) && wfE n k e
    | k, .ifs c body => wfE n k c && wfSs n (k + nlitsE c) body
    | k, .ifelse c body els =>
      wfE n k c && wfSs n (k + nlitsE c) body && wfSs n (k + nlitsE c + nlitsSs body) els
    | k, .whil c body => wfE n k c && wfSs n (k + nlitsE c) body
    | k, .forever body => wfSs n k body
  def wfSs (n : Nat) : Nat → F1.Stms → Bool
    | _, .nil => true
    | k, .cons s ss => wfS n k s && wfSs n (k + nlitsS s) ss
end

/-! ### depth budget of the compiler model's traversal -/

def budE : Ex → Nat
  | .lit _ | .tru | .fls | .undef | .glob _ => 1
  | .bin _ l r | .eq l r | .ne l r | .land l r | .lor l r => 1 + max (budE l) (budE r)
  | .neg e | .bnot e | .lnot e | .plus e => 1 + budE e
  | .cond c t f => 1 + max (budE c) (max (budE t) (budE f))

mutual
  def budS : F1.Stm → Nat
    | .expr e => 1 + budE e
    | .assign _ e => 2 + budE e
    | .ifs c body => 2 + max (budE c) (budSs body)
    | .ifelse c body els => 4 + max (budE c) (max (budSs body) (budSs els))
    | .whil c body => 2 + max (budE c) (budSs body)
    | .forever body => 2 + budSs body
  def budSs : F1.Stms → Nat
    | .nil => 1
    | .cons s ss => 1 + max (budS s) (budSs ss)
end

/-! ### byte encoding of the fragment's instructions -/

def be2 (v : Nat) : List UInt8 := [UInt8.ofNat (v / 256 % 256), UInt8.ofNat (v % 256)]
def be4 (v : Nat) : List UInt8 :=
  [UInt8.ofNat (v / 16777216 % 256), UInt8.ofNat (v / 65536 % 256), UInt8.ofNat (v / 256 % 256), UInt8.ofNat (v % 256)]

/-- The bytes of one instruction of the fragment: opcode byte of parser/opcodes.go, then the operand
big-endian in 2 (CONST, GETG, SETG), 1 (BINARYOP) or 4 (the four jumps) bytes. -/
def encI : Ins → List UInt8
  | .const k => 0 :: be2 k
  | .getg i => 22 :: be2 i
  | .setg i => 23 :: be2 i
  | .binop t => [40, UInt8.ofNat (t % 256)]
  | .eql => [5] | .neq => [6] | .minus => [7] | .bcompl => [1] | .lnot => [8]
  | .tru => [3] | .fls => [4] | .null => [13] | .pop => [2]
  | .jmpf t => 9 :: be4 t
  | .jmp t => 12 :: be4 t
  | .andjmp t => 10 :: be4 t
  | .orjmp t => 11 :: be4 t

theorem beBytes_2 (v : Nat) : beBytes 2 v = be2 v := by
  simp [beBytes, be2]

theorem beBytes_4 (v : Nat) : beBytes 4 v = be4 v := by
  simp [beBytes, be4]

theorem beBytes_1 (v : Nat) : beBytes 1 v = [UInt8.ofNat (v % 256)] := by
  simp [beBytes]

theorem enc_jump (op t : Nat) (h : widths op = some [4]) :
    encodeInstr op [t] = UInt8.ofNat op :: be4 t := by
  simp [encodeInstr, h, encodeOperands, beBytes_4]

theorem encI_eq (i : Ins) : encodeInstr i.toInstr.1 i.toInstr.2 = encI i := by
  cases i <;> simp [Ins.toInstr, encodeInstr, encI, encodeOperands, beBytes_1, beBytes_2, beBytes_4,
    show widths opConstant = some [2] from rfl, show widths opGetGlobal = some [2] from rfl,
    show widths opSetGlobal = some [2] from rfl, show widths opBinaryOp = some [1] from rfl,
    show widths opEqual = some [] from rfl, show widths opNotEqual = some [] from rfl,
    show widths opMinus = some [] from rfl, show widths opBComplement = some [] from rfl,
    show widths opLNot = some [] from rfl, show widths opTrue = some [] from rfl,
    show widths opFalse = some [] from rfl, show widths opNull = some [] from rfl,
    show widths opPop = some [] from rfl, show widths opJumpFalsy = some [4] from rfl,
    show widths opJump = some [4] from rfl, show widths opAndJump = some [4] from rfl,
    show widths opOrJump = some [4] from rfl] <;> rfl

theorem encodeIns_eq (is : List Ins) : encodeIns is = is.flatMap encI := by
  unfold encodeIns
  congr 1
  funext i
  exact encI_eq i

@[simp] theorem encodeIns_nil : encodeIns [] = [] := rfl

theorem encodeIns_cons (i : Ins) (is : List Ins) : encodeIns (i :: is) = encI i ++ encodeIns is := by
  simp [encodeIns_eq]

theorem encodeIns_append (a b : List Ins) : encodeIns (a ++ b) = encodeIns a ++ encodeIns b := by
  simp [encodeIns_eq]

theorem encodeIns_single (i : Ins) : encodeIns [i] = encI i := by
  simp [encodeIns_eq]

theorem encI_length (i : Ins) : (encI i).length = i.size := by
  cases i <;> simp [encI, Ins.size, be2, be4]

theorem encodeIns_length (is : List Ins) : (encodeIns is).length = csize is := by
  induction is with
  | nil => rfl
  | cons i is ih => rw [encodeIns_cons, List.length_append, encI_length, ih]; rfl

end Tengo.Proofs.C01Bridge

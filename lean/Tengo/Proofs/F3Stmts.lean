import Tengo.Proofs.F3Call
/-!
Fragment F3, proof layer 4: the STATEMENT cases of the compiler-correctness induction (those of F2 on the new
machine, plus local definition / assignment and `return`).
-/
set_option linter.unusedSimpArgs false
set_option linter.unusedVariables false
namespace Tengo.Model.F3
open Tengo.Model.F0 (Sem upd)
variable {V : Type}

theorem GoodS.pre {E : Env V} {M : Mach} {code : List Ins} {s : St V} {ip1 : Nat} {stk1 g1 : Nat → V}
    {nl fin bt ct : Nat}
    {r : Res V} (h : Runs E M s ⟨s.fn, ip1, s.bp, s.sp, stk1, g1, s.dis, s.callers⟩)
    (hsame : Same nl s.bp s.sp s.stk stk1) (hbp : s.bp ≤ s.sp)
    (hg : GoodS E M code ⟨s.fn, ip1, s.bp, s.sp, stk1, g1, s.dis, s.callers⟩ nl fin bt ct r) :
    GoodS E M code s nl fin bt ct r := by
  have hbelow : ∀ i, i < s.bp - 1 → stk1 i = s.stk i := fun i hi => hsame i (by omega) (Or.inl (by omega))
  cases r with
  | done g' l' =>
    rcases hg with ⟨stk', hr, hl, hsm⟩ | ⟨hrn, hret⟩
    · exact Or.inl ⟨stk', h.trans hr, hl, hsame.trans hsm⟩
    · exact Or.inr ⟨hrn, Returned.pre h hbelow hret⟩
  | brk g' l' =>
    obtain ⟨stk', hr, hl, hsm⟩ := hg
    exact ⟨stk', h.trans hr, hl, hsame.trans hsm⟩
  | cont g' l' =>
    obtain ⟨stk', hr, hl, hsm⟩ := hg
    exact ⟨stk', h.trans hr, hl, hsame.trans hsm⟩
  | ret v g' => exact Returned.pre h hbelow hg
  | err => exact h.fails hg
  | out => trivial
  | bad => trivial

theorem GoodS.fin {E : Env V} {M : Mach} {code : List Ins} {s : St V} {nl fin fin' bt ct : Nat} {r : Res V}
    (hg : GoodS E M code s nl fin bt ct r) (e : fin = fin') : GoodS E M code s nl fin' bt ct r := e ▸ hg

/-! ### statements whose code starts with `RET` -/

mutual
  /-- The code of the statement starts with `RET 0`. -/
  def startsRetS : Stm → Bool
    | .ret0 => true
    | .forever body => startsRetSs body
    | _ => false
  def startsRetSs : Stms → Bool
    | .nil => false
    | .cons s _ => startsRetS s
end

theorem not_ret_of_plain {i : Ins} (hp : i.plain = true) {P : Prop} (h : ∃ b, i = .ret b) : P := by
  obtain ⟨b, rfl⟩ := h
  cases hp

mutual
  theorem compS_head : ∀ (s : Stm) (bt ct off : Nat), ∃ i rest, compS bt ct off s = i :: rest ∧
      ((∃ b, i = .ret b) → startsRetS s = true)
    | .expr e, bt, ct, off | .assign _ e, bt, ct, off | .defl _ e, bt, ct, off | .setl _ e, bt, ct, off
    | .ret e, bt, ct, off => by
      obtain ⟨i, rest, h, hp⟩ := comp_head e off
      exact ⟨i, _, by simp only [compS, h, List.cons_append]; rfl, not_ret_of_plain hp⟩
    | .ifs c _, bt, ct, off | .ifelse c _ _, bt, ct, off | .whil c _, bt, ct, off
    | .for3 c _ _, bt, ct, off => by
      obtain ⟨i, rest, h, hp⟩ := comp_head c off
      exact ⟨i, _, by simp only [compS, h, List.cons_append]; rfl, not_ret_of_plain hp⟩
    | .brk, bt, ct, off => ⟨_, _, rfl, fun h => not_ret_of_plain (i := .jmp bt) rfl h⟩
    | .cont, bt, ct, off => ⟨_, _, rfl, fun h => not_ret_of_plain (i := .jmp ct) rfl h⟩
    | .ret0, bt, ct, off => ⟨_, _, rfl, fun _ => rfl⟩
    | .forever body, bt, ct, off => by
      rcases compSs_head body (off + sssize body + 5) (off + sssize body) off with hn | ⟨i, rest, h, hr⟩
      · subst hn
        exact ⟨_, _, rfl, fun h => not_ret_of_plain (i := .jmp off) rfl h⟩
      · exact ⟨i, _, by simp only [compS, h, List.cons_append]; rfl, fun hb => by
          simp only [startsRetS]; exact hr hb⟩
  theorem compSs_head : ∀ (ss : Stms) (bt ct off : Nat), ss = .nil ∨ ∃ i rest, compSs bt ct off ss = i :: rest ∧
      ((∃ b, i = .ret b) → startsRetSs ss = true)
    | .nil, _, _, _ => Or.inl rfl
    | .cons s ss, bt, ct, off => by
      obtain ⟨i, rest, h, hr⟩ := compS_head s bt ct off
      exact Or.inr ⟨i, _, by simp only [compSs, h, List.cons_append]; rfl, fun hb => by
        simp only [startsRetSs]; exact hr hb⟩
end

theorem ret_of_retNext {code : List Ins} {p : Nat} {i : Ins} (hf : fetch code p = some i)
    (hr : retNext code p = true) : ∃ b, i = .ret b := by
  unfold retNext at hr
  rw [hf] at hr
  cases i <;> simp_all

section startsRet
variable {E : Env V} {P : Prog}

mutual
  theorem execS_startsRet : ∀ (s : Stm), startsRetS s = true → ∀ (f : Nat) (g : Nat → V) (l : Locals V),
      execS E P f s g l = .ret E.S.undef g ∨ execS E P f s g l = .out
    | .ret0, _, 0, g, l => Or.inr (by simp only [execS])
    | .ret0, _, f + 1, g, l => Or.inl (by simp only [execS])
    | .forever body, h, 0, g, l => Or.inr (by simp only [execS])
    | .forever body, h, f + 1, g, l => by
      have hb : startsRetSs body = true := by simpa [startsRetS] using h
      rcases execSs_startsRet body hb f g l with h1 | h1
      · exact Or.inl (by simp only [execS, h1])
      · exact Or.inr (by simp only [execS, h1])
    | .expr _, h, _, _, _ | .assign _ _, h, _, _, _ | .defl _ _, h, _, _, _ | .setl _ _, h, _, _, _
    | .ifs _ _, h, _, _, _ | .ifelse _ _ _, h, _, _, _ | .whil _ _, h, _, _, _ | .for3 _ _ _, h, _, _, _
    | .brk, h, _, _, _ | .cont, h, _, _, _ | .ret _, h, _, _, _ => by simp [startsRetS] at h
  theorem execSs_startsRet : ∀ (ss : Stms), startsRetSs ss = true → ∀ (f : Nat) (g : Nat → V) (l : Locals V),
      execSs E P f ss g l = .ret E.S.undef g ∨ execSs E P f ss g l = .out
    | .nil, h, _, _, _ => by simp [startsRetSs] at h
    | .cons s ss, h, 0, g, l => Or.inr (by simp only [execSs])
    | .cons s ss, h, f + 1, g, l => by
      have hb : startsRetS s = true := by simpa [startsRetSs] using h
      rcases execS_startsRet s hb f g l with h1 | h1
      · exact Or.inl (by simp only [execSs, h1])
      · exact Or.inr (by simp only [execSs, h1])
end

/-- A statement list whose code starts where a `RET` is: it is empty, or it returns undefined at once. -/
theorem execSs_at_ret {code : List Ins} {p bt ct : Nat} {ss : Stms} (hat : At code p (compSs bt ct p ss))
    (hr : retNext code p = true) (f : Nat) (g : Nat → V) (l : Locals V) :
    ss = .nil ∨ execSs E P f ss g l = .ret E.S.undef g ∨ execSs E P f ss g l = .out := by
  rcases compSs_head ss bt ct p with hn | ⟨i, rest, h, hs⟩
  · exact Or.inl hn
  · rw [h] at hat
    exact Or.inr (execSs_startsRet ss (hs (ret_of_retNext hat.fetch hr)) f g l)

theorem execS_at_ret {code : List Ins} {p bt ct : Nat} {s : Stm} (hat : At code p (compS bt ct p s))
    (hr : retNext code p = true) (f : Nat) (g : Nat → V) (l : Locals V) :
    execS E P f s g l = .ret E.S.undef g ∨ execS E P f s g l = .out := by
  obtain ⟨i, rest, h, hs⟩ := compS_head s bt ct p
  rw [h] at hat
  exact execS_startsRet s (hs (ret_of_retNext hat.fetch hr)) f g l

end startsRet

section cases
variable {E : Env V} {P : Prog}

/-- An expression followed by the instruction `I`, as a run to the state before `I`. -/
theorem evalI {f : Nat} {a : Ex} (iha : OkE E P f a)
    {g : Nat → V} {l : Locals V} {fn : Nat} {code : List Ins} {nl off bp sp : Nat} {stk : Nat → V} {dis : Bool}
    {cl : List Frame} (I : Ins) (hI : I.plain = true)
    (hc : (compProg P).code fn = some code) (hnt : FrameOk P fn nl)
    (hat : At code off (comp off a ++ [I])) (hl : LocRel nl l stk bp) (hsp : bp + nl ≤ sp) :
    fetch code (off + esize a) = some I ∧
    match evalE E P f a g l with
    | .val v g1 => ∃ stk1, Runs E (compProg P) ⟨fn, off, bp, sp, stk, g, dis, cl⟩
        ⟨fn, off + esize a, bp, sp + 1, stk1, g1, dis, cl⟩ ∧ stk1 sp = v ∧ (∀ i, i < sp → stk1 i = stk i) ∧
        LocRel nl l stk1 bp
    | .err => Fails E (compProg P) ⟨fn, off, bp, sp, stk, g, dis, cl⟩
    | _ => True := by
  obtain ⟨hf, h⟩ := eval1 (g := g) (dis := dis) (cl := cl) iha I hc hnt hat hl hsp
  refine ⟨hf, ?_⟩
  cases ha : evalE E P f a g l with
  | val v g1 =>
    rw [ha] at h
    obtain ⟨stk1, hr, hv, hs⟩ := h.normal (tailNext_of_fetch hf hI)
    exact ⟨stk1, hr, hv, hs, hl.frame hsp hs⟩
  | err => rw [ha] at h; exact h
  | out => trivial
  | bad => trivial

theorem okS_zero (c : Stm) : OkS E P 0 c := by
  intro g l fn code nl bt ct off bp sp stk dis cl hc hnt hat hsl hl hsp
  simp only [execS]
  trivial

theorem okSs_zero (c : Stms) : OkSs E P 0 c := by
  intro g l fn code nl bt ct off bp sp stk dis cl hc hnt hat hsl hl hsp
  simp only [execSs]
  trivial

theorem okS_expr (f : Nat) (e : Ex) (ihe : OkE E P f e) : OkS E P (f + 1) (.expr e) := by
  intro g l fn code nl bt ct off bp sp stk dis cl hc hnt hat hsl hl hsp
  have hA : At code off (comp off e ++ [Ins.pop]) := by simpa [compS] using hat
  obtain ⟨hfI, h⟩ := eval1 (g := g) (dis := dis) (cl := cl) ihe _ hc hnt hA hl hsp
  simp only [execS]
  cases ha : evalE E P f e g l with
  | val v g1 =>
    rw [ha] at h
    rcases h with ⟨stk1, hr, hv, hs⟩ | ⟨htn, hret⟩
    · have hst := step_pop (E := E) (bp := bp) (g := g1) (dis := dis) (cl := cl) (stk := stk1) (sp := sp) hc hfI
      exact Or.inl ⟨stk1, (hr.trans (Runs.step hst)).of_eq (by simp [ssize]; omega), hl.frame hsp hs,
        Same.of_below hs⟩
    · -- `f(x)` as a statement directly before a `RET`: the reused frame has returned undefined
      obtain ⟨h1, h2⟩ := tailNext_pop hfI
      rw [h1] at htn
      rw [h2] at hret
      refine Or.inr ⟨by simpa [ssize, Nat.add_assoc] using htn, ?_⟩
      simpa using hret
  | err => rw [ha] at h; exact h
  | out => trivial
  | bad => trivial

theorem okS_assign (f i : Nat) (e : Ex) (ihe : OkE E P f e) : OkS E P (f + 1) (.assign i e) := by
  intro g l fn code nl bt ct off bp sp stk dis cl hc hnt hat hsl hl hsp
  have hA : At code off (comp off e ++ [Ins.setg i]) := by simpa [compS] using hat
  obtain ⟨hfI, h⟩ := evalI (g := g) (dis := dis) (cl := cl) ihe _ rfl hc hnt hA hl hsp
  simp only [execS]
  cases ha : evalE E P f e g l with
  | val v g1 =>
    rw [ha] at h
    obtain ⟨stk1, hr, hv, hs, hl1⟩ := h
    have hst := step_setg (E := E) (bp := bp) (g := g1) (dis := dis) (cl := cl) (stk := stk1) (sp := sp) hc hfI
    rw [hv] at hst
    exact Or.inl ⟨stk1, (hr.trans (Runs.step hst)).of_eq (by simp [ssize]; omega), hl1, Same.of_below hs⟩
  | err => rw [ha] at h; exact h
  | out => trivial
  | bad => trivial

/-- Writing local slot `i < nl` of the frame. -/
theorem locRel_upd {nl i bp : Nat} {l : Locals V} {stk : Nat → V} {v : V} (hi : i < nl)
    (hl : LocRel nl l stk bp) : LocRel nl (updL l i v) (upd stk (bp + i) v) bp := by
  intro j w hj
  simp only [updL] at hj
  by_cases hji : j = i
  · subst hji
    simp only [if_true, Option.some.injEq] at hj
    exact ⟨hi, by simp [upd, hj]⟩
  · simp only [hji, if_false] at hj
    obtain ⟨h1, h2⟩ := hl j w hj
    exact ⟨h1, by simp only [upd]; rw [if_neg (by omega)]; exact h2⟩

theorem same_upd {nl i bp sp : Nat} {stk stk1 : Nat → V} {v : V} (hi : i < nl)
    (hs : ∀ j, j < sp → stk1 j = stk j) : Same nl bp sp stk (upd stk1 (bp + i) v) := by
  intro j hj hc
  simp only [upd]
  rw [if_neg (by omega)]
  exact hs j hj

theorem okS_defl (f i : Nat) (e : Ex) (ihe : OkE E P f e) : OkS E P (f + 1) (.defl i e) := by
  intro g l fn code nl bt ct off bp sp stk dis cl hc hnt hat hsl hl hsp
  have hi : i < nl := by simpa [slotsS] using hsl
  have hA : At code off (comp off e ++ [Ins.defl i]) := by simpa [compS] using hat
  obtain ⟨hfI, h⟩ := evalI (g := g) (dis := dis) (cl := cl) ihe _ rfl hc hnt hA hl hsp
  simp only [execS]
  cases ha : evalE E P f e g l with
  | val v g1 =>
    rw [ha] at h
    obtain ⟨stk1, hr, hv, hs, hl1⟩ := h
    have hst := step_defl (E := E) (bp := bp) (g := g1) (dis := dis) (cl := cl) (stk := stk1) (sp := sp) hc hfI
    rw [hv] at hst
    exact Or.inl ⟨upd stk1 (bp + i) v, (hr.trans (Runs.step hst)).of_eq (by simp [ssize]; omega),
      locRel_upd hi hl1, same_upd hi hs⟩
  | err => rw [ha] at h; exact h
  | out => trivial
  | bad => trivial

theorem okS_setl (f i : Nat) (e : Ex) (ihe : OkE E P f e) : OkS E P (f + 1) (.setl i e) := by
  intro g l fn code nl bt ct off bp sp stk dis cl hc hnt hat hsl hl hsp
  have hi : i < nl := by simpa [slotsS] using hsl
  have hA : At code off (comp off e ++ [Ins.setl i]) := by simpa [compS] using hat
  obtain ⟨hfI, h⟩ := evalI (g := g) (dis := dis) (cl := cl) ihe _ rfl hc hnt hA hl hsp
  simp only [execS]
  cases ha : evalE E P f e g l with
  | val v g1 =>
    rw [ha] at h
    obtain ⟨stk1, hr, hv, hs, hl1⟩ := h
    have hst := step_setl (E := E) (bp := bp) (g := g1) (dis := dis) (cl := cl) (stk := stk1) (sp := sp) hc hfI
    rw [hv] at hst
    exact Or.inl ⟨upd stk1 (bp + i) v, (hr.trans (Runs.step hst)).of_eq (by simp [ssize]; omega),
      locRel_upd hi hl1, same_upd hi hs⟩
  | err => rw [ha] at h; exact h
  | out => trivial
  | bad => trivial

theorem okS_brk (f : Nat) : OkS E P (f + 1) .brk := by
  intro g l fn code nl bt ct off bp sp stk dis cl hc hnt hat hsl hl hsp
  have hf : fetch code off = some (Ins.jmp bt) := by
    have hA : At code off [Ins.jmp bt] := by simpa [compS] using hat
    exact hA.fetch
  simp only [execS]
  exact ⟨stk, Runs.step (step_jmp hc hf), hl, Same.refl _ _ _ _⟩

theorem okS_cont (f : Nat) : OkS E P (f + 1) .cont := by
  intro g l fn code nl bt ct off bp sp stk dis cl hc hnt hat hsl hl hsp
  have hf : fetch code off = some (Ins.jmp ct) := by
    have hA : At code off [Ins.jmp ct] := by simpa [compS] using hat
    exact hA.fetch
  simp only [execS]
  exact ⟨stk, Runs.step (step_jmp hc hf), hl, Same.refl _ _ _ _⟩

theorem okS_ret0 (f : Nat) : OkS E P (f + 1) .ret0 := by
  intro g l fn code nl bt ct off bp sp stk dis cl hc hnt hat hsl hl hsp
  have hf : fetch code off = some (Ins.ret false) := by
    have hA : At code off [Ins.ret false] := by simpa [compS] using hat
    exact hA.fetch
  simp only [execS]
  cases cl with
  | nil => trivial
  | cons c rest =>
    refine ⟨upd stk (bp - 1) E.S.undef, Runs.step (step_ret0 hc hf), ?_, ?_⟩
    · cases dis <;> simp [upd]
    · intro i hi
      dsimp only at hi ⊢
      simp only [upd]; rw [if_neg (by omega)]

theorem okS_ret (f : Nat) (e : Ex) (ihe : OkE E P f e) : OkS E P (f + 1) (.ret e) := by
  intro g l fn code nl bt ct off bp sp stk dis cl hc hnt hat hsl hl hsp
  have hA : At code off (comp off e ++ [Ins.ret true]) := by simpa [compS] using hat
  obtain ⟨hfI, h⟩ := eval1 (g := g) (dis := dis) (cl := cl) ihe _ hc hnt hA hl hsp
  simp only [execS]
  cases ha : evalE E P f e g l with
  | val v g1 =>
    rw [ha] at h
    rcases h with ⟨stk1, hr, hv, hs⟩ | ⟨htn, hret⟩
    · cases cl with
      | nil => trivial
      | cons c rest =>
        have hst := step_ret1 (E := E) (bp := bp) (g := g1) (dis := dis) (cl := rest) (c := c) (stk := stk1)
          (sp := sp) hc hfI
        rw [hv] at hst
        refine ⟨_, hr.trans (Runs.step hst), ?_, ?_⟩
        · simp [upd]
        · intro i hi
          dsimp only at hi ⊢
          simp only [upd]; rw [if_neg (by omega)]
          exact hs i (by omega)
    · -- `return f(x)` with `f` the running function: the reused frame has returned the value
      rw [(tailNext_ret hfI).2] at hret
      simp only [Bool.or_false] at hret
      exact hret
  | err => rw [ha] at h; exact h
  | out => trivial
  | bad => trivial

theorem okSs_nil (f : Nat) : OkSs E P (f + 1) .nil := by
  intro g l fn code nl bt ct off bp sp stk dis cl hc hnt hat hsl hl hsp
  simp only [execSs]
  exact Or.inl ⟨stk, (Runs.refl _ _ _).of_eq (by simp [sssize]), hl, Same.refl _ _ _ _⟩

theorem okSs_cons (f : Nat) (s : Stm) (ss : Stms) (ihs : OkS E P f s) (ihss : OkSs E P f ss) :
    OkSs E P (f + 1) (.cons s ss) := by
  intro g l fn code nl bt ct off bp sp stk dis cl hc hnt hat hsl hl hsp
  have hA : At code off (compS bt ct off s ++ compSs bt ct (off + ssize s) ss) := by
    simpa [compSs] using hat
  simp only [slotsSs, Bool.and_eq_true] at hsl
  have h1 := ihs g l fn code nl bt ct off bp sp stk dis cl hc hnt hA.left hsl.1 hl hsp
  simp only [execSs]
  cases hes : execS E P f s g l with
  | done g1 l1 =>
    rw [hes] at h1
    have hB : At code (off + ssize s) (compSs bt ct (off + ssize s) ss) := hA.right (by rw [csize_compS])
    rcases h1 with ⟨stk1, hr, hl1, hsm⟩ | ⟨hrn, hret⟩
    · dsimp only at hr hl1 hsm ⊢
      have h2 := ihss g1 l1 fn code nl bt ct (off + ssize s) bp sp stk1 dis cl hc hnt hB hsl.2 hl1 hsp
      exact (GoodS.pre (s := ⟨fn, off, bp, sp, stk, g, dis, cl⟩) hr hsm (by dsimp only; omega) h2).fin
        (by simp [sssize]; omega)
    · -- the frame has already returned: what follows starts with the `RET` that would have done it
      dsimp only
      rcases execSs_at_ret (E := E) (P := P) hB hrn f g1 l1 with hn | he | he
      · subst hn
        cases f with
        | zero => simp only [execSs]; trivial
        | succ f =>
          simp only [execSs]
          exact Or.inr ⟨by simpa [sssize] using hrn, hret⟩
      · rw [he]
        show Returned _ _ _ (if dis then E.S.undef else E.S.undef) g1
        cases dis <;> exact hret
      · rw [he]; trivial
  | brk g1 l1 => rw [hes] at h1; exact h1
  | cont g1 l1 => rw [hes] at h1; exact h1
  | ret v g1 => rw [hes] at h1; exact h1
  | err => rw [hes] at h1; exact h1
  | out => trivial
  | bad => trivial

end cases

end Tengo.Model.F3

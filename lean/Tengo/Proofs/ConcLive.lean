import Tengo.Proofs.Conc
/-!
Progress of the RunContext protocol system under a fair scheduler: if the context is cancelled or the
program terminates, and the behaviour never reaches a Go-fatal condition, the caller returns.
-/
namespace Tengo.Proofs.Conc
open Tengo.Model.Conc

/-- Weak fairness of an infinite schedule: the caller and the runner are chosen again and again. (Choosing
a disabled agent is a stutter step, so this does not assume that anybody can move.) -/
def Fair (σ : Nat → Choice) : Prop :=
  (∀ n, ∃ m, n ≤ m ∧ (σ m).isCaller = true) ∧ (∀ n, ∃ m, n ≤ m ∧ σ m = .runner)

def shift (σ : Nat → Choice) (k : Nat) : Nat → Choice := fun i => σ (k + i)

theorem fair_shift {σ : Nat → Choice} (h : Fair σ) (k : Nat) : Fair (shift σ k) := by
  constructor
  · intro n
    obtain ⟨m, hm, hc⟩ := h.1 (k + n)
    exact ⟨m - k, by omega, by simp only [shift]; rw [show k + (m - k) = m by omega]; exact hc⟩
  · intro n
    obtain ⟨m, hm, hc⟩ := h.2 (k + n)
    exact ⟨m - k, by omega, by simp only [shift]; rw [show k + (m - k) = m by omega]; exact hc⟩

theorem run_succ_shift (b : Beh) (σ : Nat → Choice) (s : State) (n : Nat) :
    run b σ s (n + 1) = run b (shift σ 1) (stepD b s (σ 0)) n := by
  induction n with
  | zero => simp [run]
  | succ n ih =>
    rw [run, ih, run]
    simp only [shift]
    rw [show 1 + n = n + 1 by omega]

theorem stepD_inv {b : Beh} {s : State} (c : Choice) (h : Inv b s) : Inv b (stepD b s c) := by
  unfold stepD
  cases hs : step b s c with
  | none => simpa using h
  | some t => simpa using inv_step h hs

theorem stepD_reach {b : Beh} {pre : Bool} {s : State} (c : Choice) (h : Reach b pre s) :
    Reach b pre (stepD b s c) := by
  unfold stepD
  cases hs : step b s c with
  | none => simpa using h
  | some t => simpa using Reach.step c h hs

theorem run_reach {b : Beh} {pre : Bool} {s : State} (σ : Nat → Choice) (h : Reach b pre s) (n : Nat) :
    Reach b pre (run b σ s n) := by
  induction n with
  | zero => exact h
  | succ n ih => exact stepD_reach _ ih

theorem runList_reach {b : Beh} {pre : Bool} (cs : List Choice) : ∀ {s : State}, Reach b pre s →
    Reach b pre (runList b s cs) := by
  induction cs with
  | nil => intro s h; exact h
  | cons c cs ih => intro s h; exact ih (stepD_reach c h)

/-! ### Measures -/

def crank : CallerPc → Nat
  | .start => 6 | .locked => 5 | .waiting => 4 | .ctxTaken => 3 | .draining => 2
  | .unlocking _ => 1 | .returned _ => 0

/-- Runner transitions to go until the goroutine is done; `F` = index of the finishing instruction. -/
def rr (F : Nat) (s : State) : Nat :=
  match s.rpc with
  | .notStarted => 0 | .done => 0 | .crashed => 0
  | .sending _ => 1 | .ranOut _ => 2 | .recovering => 2
  | .poll i => if s.aborting then 3 else 2 * (F + 1 - i) + 3
  | .exec i => if s.aborting then 4 else 2 * (F - i) + 4
  | .spawned => if s.aborting then 4 else 2 * (F + 1) + 4

def callerEn (s : State) : Bool :=
  match s.cpc with
  | .start => !s.lockHeld
  | .locked => true
  | .waiting => s.cancelled || s.chan.isSome
  | .ctxTaken => true
  | .draining => s.chan.isSome
  | .unlocking _ => true
  | .returned _ => false

/-- The hypotheses under which the call makes progress. -/
structure Live (b : Beh) (F : Nat) (s : State) : Prop where
  inv : Inv b s
  noFatal : ¬ ReachesFatal b
  ends : s.cancelled = true ∨ ∃ o, FinishesAt b F o

theorem callerStep_cancelled {s t : State} {p : Bool} (hs : callerStep s p = some t) :
    t.cancelled = s.cancelled := by
  unfold callerStep at hs
  repeat' split at hs
  all_goals first
    | (simp at hs; done)
    | (simp only [Option.some.injEq, recvInto] at hs; subst hs; rfl)

theorem runnerStep_cancelled {b : Beh} {s t : State} (hs : runnerStep b s = some t) :
    t.cancelled = s.cancelled := by
  unfold runnerStep at hs
  repeat' split at hs
  all_goals first
    | (simp at hs; done)
    | (simp only [Option.some.injEq] at hs; subst hs; simp only [tick]; split <;> rfl)

theorem step_cancelled {b : Beh} {s t : State} {c : Choice} (hs : step b s c = some t) (hc : s.cancelled = true) :
    t.cancelled = true := by
  unfold step at hs
  split at hs
  · simp at hs
  · cases c with
    | caller p => rw [callerStep_cancelled hs]; exact hc
    | runner => rw [runnerStep_cancelled hs]; exact hc
    | cancel => simp [hc] at hs

theorem live_step {b : Beh} {F : Nat} {s t : State} {c : Choice} (h : Live b F s) (hs : step b s c = some t) :
    Live b F t := by
  refine ⟨inv_step h.inv hs, h.noFatal, ?_⟩
  rcases h.ends with hc | hf
  · left; exact step_cancelled hs hc
  · right; exact hf

theorem live_stepD {b : Beh} {F : Nat} {s : State} (c : Choice) (h : Live b F s) : Live b F (stepD b s c) := by
  unfold stepD
  cases hs : step b s c with
  | none => simpa using h
  | some t => simpa using live_step h hs

end Tengo.Proofs.Conc

import Tengo.Proofs.Conc
/-!
Progress of the RunContext protocol system under a fair scheduler: if the context is cancelled or the
program terminates, and the behaviour never reaches a Go-fatal condition, the caller returns.
-/
namespace Tengo.Proofs.Conc
open Tengo.Model.Conc

/-- Weak fairness of an infinite schedule: the caller and the runner are chosen again and again. (Choosing
a disabled agent is a stutter step, so this does not assume that anybody can move.) -/
def Fair (σ : Nat → Choice) : Prop :=
  (∀ n, ∃ m, n ≤ m ∧ (σ m).isCaller = true) ∧ (∀ n, ∃ m, n ≤ m ∧ σ m = .runner)

def shift (σ : Nat → Choice) (k : Nat) : Nat → Choice := fun i => σ (k + i)

theorem fair_shift {σ : Nat → Choice} (h : Fair σ) (k : Nat) : Fair (shift σ k) := by
  constructor
  · intro n
    obtain ⟨m, hm, hc⟩ := h.1 (k + n)
    exact ⟨m - k, by omega, by simp only [shift]; rw [show k + (m - k) = m by omega]; exact hc⟩
  · intro n
    obtain ⟨m, hm, hc⟩ := h.2 (k + n)
    exact ⟨m - k, by omega, by simp only [shift]; rw [show k + (m - k) = m by omega]; exact hc⟩

theorem run_succ_shift (b : Beh) (σ : Nat → Choice) (s : State) (n : Nat) :
    run b σ s (n + 1) = run b (shift σ 1) (stepD b s (σ 0)) n := by
  induction n with
  | zero => simp [run]
  | succ n ih =>
    rw [run, ih, run]
    simp only [shift]
    rw [show 1 + n = n + 1 by omega]

theorem stepD_inv {b : Beh} {s : State} (c : Choice) (h : Inv b s) : Inv b (stepD b s c) := by
  unfold stepD
  cases hs : step b s c with
  | none => simpa using h
  | some t => simpa using inv_step h hs

theorem stepD_reach {b : Beh} {pre : Bool} {s : State} (c : Choice) (h : Reach b pre s) :
    Reach b pre (stepD b s c) := by
  unfold stepD
  cases hs : step b s c with
  | none => simpa using h
  | some t => simpa using Reach.step c h hs

theorem run_reach {b : Beh} {pre : Bool} {s : State} (σ : Nat → Choice) (h : Reach b pre s) (n : Nat) :
    Reach b pre (run b σ s n) := by
  induction n with
  | zero => exact h
  | succ n ih => exact stepD_reach _ ih

theorem runList_reach {b : Beh} {pre : Bool} (cs : List Choice) : ∀ {s : State}, Reach b pre s →
    Reach b pre (runList b s cs) := by
  induction cs with
  | nil => intro s h; exact h
  | cons c cs ih => intro s h; exact ih (stepD_reach c h)

/-! ### Measures -/

def crank : CallerPc → Nat
  | .start => 6 | .locked => 5 | .waiting => 4 | .ctxTaken => 3 | .draining => 2
  | .unlocking _ => 1 | .returned _ => 0

/-- Runner transitions to go until the goroutine is done; `F` = index of the finishing instruction. -/
def rr (F : Nat) (s : State) : Nat :=
  match s.rpc with
  | .notStarted => 0 | .done => 0 | .crashed => 0
  | .sending _ => 1 | .ranOut _ => 2 | .recovering => 2
  | .poll i => if s.aborting then 3 else 2 * (F + 1 - i) + 3
  | .exec i => if s.aborting then 4 else 2 * (F - i) + 4
  | .spawned => if s.aborting then 4 else 2 * (F + 1) + 4

def callerEn (s : State) : Bool :=
  match s.cpc with
  | .start => !s.lockHeld
  | .locked => true
  | .waiting => s.cancelled || s.chan.isSome
  | .ctxTaken => true
  | .draining => s.chan.isSome
  | .unlocking _ => true
  | .returned _ => false

/-- The hypotheses under which the call makes progress. -/
structure Live (b : Beh) (F : Nat) (s : State) : Prop where
  inv : Inv b s
  noFatal : ¬ ReachesFatal b
  ends : s.cancelled = true ∨ ∃ o, FinishesAt b F o

theorem callerStep_cancelled {s t : State} {p : Bool} (hs : callerStep s p = some t) :
    t.cancelled = s.cancelled := by
  unfold callerStep at hs
  repeat' split at hs
  all_goals first
    | (simp at hs; done)
    | (simp only [Option.some.injEq, recvInto] at hs; subst hs; rfl)

theorem runnerStep_cancelled {b : Beh} {s t : State} (hs : runnerStep b s = some t) :
    t.cancelled = s.cancelled := by
  unfold runnerStep at hs
  repeat' split at hs
  all_goals first
    | (simp at hs; done)
    | (simp only [Option.some.injEq] at hs; subst hs; simp only [tick]; split <;> rfl)

theorem step_cancelled {b : Beh} {s t : State} {c : Choice} (hs : step b s c = some t) (hc : s.cancelled = true) :
    t.cancelled = true := by
  unfold step at hs
  split at hs
  · simp at hs
  · cases c with
    | caller p => rw [callerStep_cancelled hs]; exact hc
    | runner => rw [runnerStep_cancelled hs]; exact hc
    | cancel => simp_all

theorem live_step {b : Beh} {F : Nat} {s t : State} {c : Choice} (h : Live b F s) (hs : step b s c = some t) :
    Live b F t := by
  refine ⟨inv_step h.inv hs, h.noFatal, ?_⟩
  rcases h.ends with hc | hf
  · left; exact step_cancelled hs hc
  · right; exact hf

theorem live_stepD {b : Beh} {F : Nat} {s : State} (c : Choice) (h : Live b F s) : Live b F (stepD b s c) := by
  unfold stepD
  cases hs : step b s c with
  | none => simpa using h
  | some t => simpa using live_step h hs

theorem caller_enabled_step {s : State} (p : Bool) (h : callerEn s = true) :
    ∃ t, callerStep s p = some t ∧ crank t.cpc < crank s.cpc := by
  obtain ⟨lockHeld, chan, aborting, cancelled, cpc, rpc, sends, recvs, runOut, abortCalled, sa, ia⟩ := s
  cases cpc <;> cases chan <;> cases cancelled <;> cases p <;> cases lockHeld <;>
    simp_all [callerEn, callerStep, recvInto, crank]

theorem caller_disabled_step {s : State} (p : Bool) (h : callerEn s = false) : callerStep s p = none := by
  obtain ⟨lockHeld, chan, aborting, cancelled, cpc, rpc, sends, recvs, runOut, abortCalled, sa, ia⟩ := s
  cases cpc <;> cases chan <;> cases cancelled <;> cases p <;> cases lockHeld <;>
    simp_all [callerEn, callerStep]

theorem runnerStep_cpc {b : Beh} {s t : State} (hs : runnerStep b s = some t) :
    t.cpc = s.cpc ∧ t.lockHeld = s.lockHeld ∧ (s.chan.isSome = true → t.chan.isSome = true) := by
  unfold runnerStep at hs
  repeat' split at hs
  all_goals first
    | (simp at hs; done)
    | (simp only [Option.some.injEq] at hs; subst hs; simp only [tick]; split <;> simp_all)

theorem runner_keeps_callerEn {b : Beh} {s t : State} (hs : runnerStep b s = some t) (h : callerEn s = true) :
    callerEn t = true := by
  obtain ⟨h1, h2, h3⟩ := runnerStep_cpc hs
  have h4 := runnerStep_cancelled hs
  unfold callerEn at *
  rw [h1, h2, h4]
  cases hc : s.cpc <;> simp_all
  rcases h with h | h
  · exact Or.inl h
  · exact Or.inr (h3 h)


theorem le_finish {b : Beh} {i F : Nat} {o : Outcome} (hi : ReachesInstr b i) (hF : FinishesAt b F o) : i ≤ F := by
  apply Nat.le_of_not_lt
  intro hlt
  have := hi F hlt
  rw [hF.2] at this
  cases this

theorem lt_finish {b : Beh} {i F : Nat} {o : Outcome} (hi : ReachesInstr b i) (hc : b i = .cont)
    (hF : FinishesAt b F o) : i < F := by
  have h1 := le_finish hi hF
  rcases Nat.lt_or_eq_of_le h1 with h | h
  · exact h
  · subst h; rw [hF.2] at hc; cases hc

theorem runner_progress_waiting {b : Beh} {F : Nat} {s : State} (h : Live b F s) (hd : callerEn s = false)
    (hw : s.cpc = .waiting) : ∃ t, runnerStep b s = some t ∧ rr F t < rr F s := by
  obtain ⟨⟨h1, h2, h3, h4, h5, h6, h7, h8, h9, h10, h11, h12, h13, h14, h15, h16, h17, h18, h19⟩, hnf, hends⟩ := h
  obtain ⟨lockHeld, chan, aborting, cancelled, cpc, rpc, sends, recvs, runOut, abortCalled, sa, ia⟩ := s
  simp only at hw
  subst hw
  simp [callerEn] at hd
  obtain ⟨hd1, hd2⟩ := hd
  subst hd1 hd2
  simp at hends
  obtain ⟨o, hF⟩ := hends
  have hab : abortCalled = false := by simpa [aborted] using h7
  have hag : aborting = false := by
    cases aborting
    · rfl
    · simp [hab] at h8
  subst hab hag
  cases rpc with
  | notStarted => simp [preGo] at h2
  | done => simp [received] at h6
  | crashed => exact absurd (h13 rfl) hnf
  | spawned => simp [runnerStep, tick, rr]
  | poll i =>
    have := le_finish (h11 i (Or.inl rfl)) hF
    simp [runnerStep, tick, rr]; omega
  | exec i =>
    have hi := h11 i (Or.inr rfl)
    cases hb : b i with
    | cont =>
      have := lt_finish hi hb hF
      simp [runnerStep, tick, rr, hb]
      try omega
    | fin o' =>
      cases o' with
      | fatal => exact absurd ⟨i, hi, hb⟩ hnf
      | ok => simp [runnerStep, tick, rr, hb]
      | err => simp [runnerStep, tick, rr, hb]
      | goPanic => simp [runnerStep, tick, rr, hb]
  | ranOut m => simp [runnerStep, tick, rr]
  | recovering => simp [runnerStep, tick, rr]
  | sending m => simp [runnerStep, tick, rr]

theorem runner_progress_draining {b : Beh} {F : Nat} {s : State} (h : Live b F s) (hd : callerEn s = false)
    (hw : s.cpc = .draining) : ∃ t, runnerStep b s = some t ∧ rr F t < rr F s := by
  obtain ⟨⟨h1, h2, h3, h4, h5, h6, h7, h8, h9, h10, h11, h12, h13, h14, h15, h16, h17, h18, h19⟩, hnf, hends⟩ := h
  obtain ⟨lockHeld, chan, aborting, cancelled, cpc, rpc, sends, recvs, runOut, abortCalled, sa, ia⟩ := s
  simp only at hw
  subst hw
  simp [callerEn] at hd
  subst hd
  have hab : abortCalled = true := by simpa [aborted] using h7
  subst hab
  cases rpc with
  | notStarted => simp [preGo] at h2
  | done => simp [received] at h6
  | crashed => exact absurd (h13 rfl) hnf
  | spawned =>
    have hag : aborting = true := by simpa [inLoop] using h10
    subst hag
    simp [runnerStep, tick, rr]
  | poll i =>
    have hag : aborting = true := by simpa [inLoop] using h10
    subst hag
    simp [runnerStep, tick, rr]
  | exec i =>
    have hag : aborting = true := by simpa [inLoop] using h10
    subst hag
    have hi := h11 i (Or.inr rfl)
    cases hb : b i with
    | cont => simp [runnerStep, tick, rr, hb]
    | fin o' =>
      cases o' with
      | fatal => exact absurd ⟨i, hi, hb⟩ hnf
      | ok => simp [runnerStep, tick, rr, hb]
      | err => simp [runnerStep, tick, rr, hb]
      | goPanic => simp [runnerStep, tick, rr, hb]
  | ranOut m => simp [runnerStep, tick, rr]
  | recovering => simp [runnerStep, tick, rr]
  | sending m => simp [runnerStep, tick, rr]


def Returned (s : State) : Prop := ∃ r, s.cpc = .returned r

theorem peel {b : Beh} {s : State} {σ : Nat → Choice}
    (h : ∃ n, Returned (run b (shift σ 1) (stepD b s (σ 0)) n)) : ∃ n, Returned (run b σ s n) := by
  obtain ⟨n, hn⟩ := h
  exact ⟨n + 1, by rw [run_succ_shift]; exact hn⟩

theorem live_not_crashed {b : Beh} {F : Nat} {s : State} (h : Live b F s) : s.rpc ≠ .crashed :=
  fun hc => h.noFatal (h.inv.crashedFatal hc)

/-- A step of another agent neither disables the caller nor moves it. -/
theorem other_keeps {b : Beh} {F : Nat} {s : State} (h : Live b F s) (he : callerEn s = true) (c : Choice)
    (hc : c.isCaller = false) : (stepD b s c).cpc = s.cpc ∧ callerEn (stepD b s c) = true := by
  unfold stepD step
  rw [if_neg (live_not_crashed h)]
  cases c with
  | caller p => simp [Choice.isCaller] at hc
  | runner =>
    simp only
    cases hs : runnerStep b s with
    | none => simp [he]
    | some t => simp; exact ⟨(runnerStep_cpc hs).1, runner_keeps_callerEn hs he⟩
  | cancel =>
    simp only
    split
    · simp [he]
    · simp
      unfold callerEn at *
      cases hcp : s.cpc <;> simp_all

theorem caller_moves {b : Beh} {F : Nat} {s : State} (h : Live b F s) (he : callerEn s = true) (c : Choice)
    (hc : c.isCaller = true) : crank (stepD b s c).cpc < crank s.cpc := by
  unfold stepD step
  rw [if_neg (live_not_crashed h)]
  cases c with
  | caller p =>
    obtain ⟨t, ht, hlt⟩ := caller_enabled_step p he
    simp [ht, hlt]
  | runner => simp [Choice.isCaller] at hc
  | cancel => simp [Choice.isCaller] at hc

def Eventually (b : Beh) (s : State) : Prop := ∀ σ, Fair σ → ∃ n, Returned (run b σ s n)

/-- The caller is enabled: whenever the scheduler next picks it, its rank drops. -/
theorem enabled_case {b : Beh} {F : Nat} (c : Nat)
    (IH : ∀ s, Live b F s → crank s.cpc < c → Eventually b s) :
    ∀ m s σ, Live b F s → crank s.cpc = c → callerEn s = true → Fair σ → (σ m).isCaller = true →
      ∃ n, Returned (run b σ s n) := by
  intro m
  induction m with
  | zero =>
    intro s σ hl hc he hf hm
    apply peel
    exact IH _ (live_stepD _ hl) (by rw [← hc]; exact caller_moves hl he _ hm) _ (fair_shift hf 1)
  | succ m ih =>
    intro s σ hl hc he hf hm
    apply peel
    cases h0 : (σ 0).isCaller with
    | true => exact IH _ (live_stepD _ hl) (by rw [← hc]; exact caller_moves hl he _ h0) _ (fair_shift hf 1)
    | false =>
      obtain ⟨h1, h2⟩ := other_keeps hl he (σ 0) h0
      exact ih _ _ (live_stepD _ hl) (by rw [h1]; exact hc) h2 (fair_shift hf 1)
        (by simp only [shift]; rw [show 1 + m = m + 1 by omega]; exact hm)

/-- The measure used while the caller is blocked. -/
def blockedMeasure (F : Nat) (s : State) : Nat := rr F s + (if s.cancelled then 0 else 1)

/-- While the caller is blocked (at the select with nothing ready, or in `<-ch`), any choice either
stutters (and is not the runner) or keeps the caller's pc and lowers the measure. -/
theorem blocked_step {b : Beh} {F : Nat} {s : State} (hl : Live b F s) (hd : callerEn s = false)
    (hw : s.cpc = .waiting ∨ s.cpc = .draining) (c : Choice) :
    (stepD b s c = s ∧ c ≠ .runner) ∨
    ((stepD b s c).cpc = s.cpc ∧ blockedMeasure F (stepD b s c) < blockedMeasure F s) := by
  unfold stepD step
  rw [if_neg (live_not_crashed hl)]
  cases c with
  | caller p => left; simp [caller_disabled_step p hd]
  | runner =>
    right
    have ⟨t, ht, hlt⟩ : ∃ t, runnerStep b s = some t ∧ rr F t < rr F s := by
      rcases hw with hw | hw
      · exact runner_progress_waiting hl hd hw
      · exact runner_progress_draining hl hd hw
    simp only [ht, Option.getD_some]
    refine ⟨(runnerStep_cpc ht).1, ?_⟩
    unfold blockedMeasure
    rw [runnerStep_cancelled ht]
    omega
  | cancel =>
    simp only
    cases hc : s.cancelled with
    | true => left; simp
    | false =>
      right
      simp [blockedMeasure, hc, rr]

/-- If the caller is disabled and has not returned it is blocked at the select or in `<-ch`. -/
theorem disabled_blocked {b : Beh} {s : State} (hi : Inv b s) (hd : callerEn s = false)
    (hr : ¬ Returned s) : s.cpc = .waiting ∨ s.cpc = .draining := by
  have hlock := hi.lock
  unfold callerEn at hd
  cases hc : s.cpc with
  | start => rw [hc] at hlock hd; simp [holdsLock] at hlock; simp [hlock] at hd
  | locked => simp [hc] at hd
  | waiting => exact Or.inl rfl
  | ctxTaken => simp [hc] at hd
  | draining => exact Or.inr rfl
  | unlocking r => simp [hc] at hd
  | returned r => exact absurd ⟨r, hc⟩ hr

theorem blocked_case {b : Beh} {F : Nat} (c : Nat)
    (EN : ∀ s σ, Live b F s → crank s.cpc = c → callerEn s = true → Fair σ → ∃ n, Returned (run b σ s n)) :
    ∀ k s, Live b F s → crank s.cpc = c → callerEn s = false → ¬ Returned s → blockedMeasure F s ≤ k →
      Eventually b s := by
  intro k
  induction k with
  | zero =>
    -- measure 0: the runner is enabled and would lower it, impossible
    intro s hl hc hd hr hk σ hf
    have hw := disabled_blocked hl.inv hd hr
    rcases blocked_step hl hd hw .runner with h | h
    · exact absurd rfl h.2
    · omega
  | succ k ihk =>
    intro s hl hc hd hr hk σ hf
    have hw := disabled_blocked hl.inv hd hr
    -- the runner is chosen at some time m; induction on m over the stutter steps before it
    obtain ⟨m0, _, hm0⟩ := hf.2 0
    suffices H : ∀ m σ, Fair σ → σ m = .runner → ∃ n, Returned (run b σ s n) from H m0 σ hf hm0
    intro m
    induction m with
    | zero =>
      intro σ hf hm
      apply peel
      rcases blocked_step hl hd hw (σ 0) with h | h
      · exact absurd hm h.2
      · have hl' := live_stepD (σ 0) hl
        have hc' : crank (stepD b s (σ 0)).cpc = c := by rw [h.1]; exact hc
        cases he : callerEn (stepD b s (σ 0)) with
        | true => exact EN _ _ hl' hc' he (fair_shift hf 1)
        | false =>
          have hr' : ¬ Returned (stepD b s (σ 0)) := by
            intro ⟨r, hr'⟩; rw [h.1] at hr'; exact hr ⟨r, hr'⟩
          exact ihk _ hl' hc' he hr' (by omega) _ (fair_shift hf 1)
    | succ m ihm =>
      intro σ hf hm
      apply peel
      rcases blocked_step hl hd hw (σ 0) with h | h
      · rw [h.1]
        exact ihm _ (fair_shift hf 1) (by simp only [shift]; rw [show 1 + m = m + 1 by omega]; exact hm)
      · have hl' := live_stepD (σ 0) hl
        have hc' : crank (stepD b s (σ 0)).cpc = c := by rw [h.1]; exact hc
        cases he : callerEn (stepD b s (σ 0)) with
        | true => exact EN _ _ hl' hc' he (fair_shift hf 1)
        | false =>
          have hr' : ¬ Returned (stepD b s (σ 0)) := by
            intro ⟨r, hr'⟩; rw [h.1] at hr'; exact hr ⟨r, hr'⟩
          exact ihk _ hl' hc' he hr' (by omega) _ (fair_shift hf 1)

/-- Progress: from every state satisfying the invariant, if the behaviour cannot reach a Go-fatal
condition and either the context is cancelled or the program terminates, every fair schedule makes
`RunContext` return. -/
theorem eventually_returns {b : Beh} {F : Nat} : ∀ c s, Live b F s → crank s.cpc = c → Eventually b s := by
  intro c
  induction c using Nat.strongRecOn with
  | _ c IH =>
    intro s hl hc
    have EN : ∀ s σ, Live b F s → crank s.cpc = c → callerEn s = true → Fair σ →
        ∃ n, Returned (run b σ s n) := by
      intro s σ hl hc he hf
      obtain ⟨m, _, hm⟩ := hf.1 0
      exact enabled_case c (fun s hl hlt => IH _ hlt s hl rfl) m s σ hl hc he hf hm
    intro σ hf
    cases he : callerEn s with
    | true => exact EN s σ hl hc he hf
    | false =>
      by_cases hr : Returned s
      · exact ⟨0, hr⟩
      · exact blocked_case c EN _ s hl hc he hr (Nat.le_refl _) σ hf


theorem run_add (b : Beh) (σ : Nat → Choice) (s : State) (k n : Nat) :
    run b σ s (k + n) = run b (shift σ k) (run b σ s k) n := by
  induction n with
  | zero => rfl
  | succ n ih =>
    rw [← Nat.add_assoc, run, ih, run]
    rfl

/-- Everything that holds once the caller has returned. -/
theorem returned_facts {b : Beh} {s : State} {r : Ret} (h : Inv b s) (hr : s.cpc = .returned r) :
    s.lockHeld = false ∧ s.rpc = .done ∧ s.sends = 1 ∧ s.recvs = 1 ∧ s.chan = none ∧
    (r = .ctxErr → s.cancelled = true ∧ s.abortCalled = true) ∧
    (∀ m, r = .res m → s.abortCalled = false ∧ ∃ o i, FinishesAt b i o ∧ o.msg = m ∧ s.runOut = some o) := by
  have hdone : s.rpc = .done := h.recvDone (by rw [hr]; rfl)
  have hchan : s.chan = none := by
    cases hc : s.chan with
    | none => rfl
    | some m =>
      have := h.chanFull.mp (by rw [hc]; rfl)
      rw [hr] at this
      simp [received] at this
  refine ⟨by rw [h.lock, hr]; rfl, hdone, by rw [h.sends, hdone]; rfl, by rw [h.recvs, hr]; rfl, hchan, ?_, ?_⟩
  · intro hre
    subst hre
    exact ⟨h.ctx (by rw [hr]; rfl), by rw [h.abortCalled, hr]; rfl⟩
  · intro m hre
    subst hre
    obtain ⟨o, ho, hm⟩ := h.resRet m (Or.inr hr)
    obtain ⟨i, hi⟩ := h.runOutFin o ho
    exact ⟨by rw [h.abortCalled, hr]; rfl, o, i, hi, hm, ho⟩

theorem step_not_cancel_cancelled {b : Beh} {s t : State} {c : Choice} (hs : step b s c = some t)
    (hc : c ≠ .cancel) : t.cancelled = s.cancelled := by
  unfold step at hs
  split at hs
  · simp at hs
  · cases c with
    | caller p => exact callerStep_cancelled hs
    | runner => exact runnerStep_cancelled hs
    | cancel => exact absurd rfl hc

theorem run_never_cancel {b : Beh} {σ : Nat → Choice} {s : State} (hσ : ∀ n, σ n ≠ .cancel) (n : Nat) :
    (run b σ s n).cancelled = s.cancelled := by
  induction n with
  | zero => rfl
  | succ n ih =>
    rw [run]
    unfold stepD
    cases hs : step b (run b σ s n) (σ n) with
    | none => simpa using ih
    | some t => simp; rw [step_not_cancel_cancelled hs (hσ n)]; exact ih

theorem finishesAt_unique {b : Beh} {i j : Nat} {o o' : Outcome} (h : FinishesAt b i o) (h' : FinishesAt b j o') :
    i = j ∧ o = o' := by
  have h1 := le_finish h.1 h'
  have h2 := le_finish h'.1 h
  have : i = j := Nat.le_antisymm h1 h2
  subst this
  have := h.2.symm.trans h'.2
  cases this
  exact ⟨rfl, rfl⟩

end Tengo.Proofs.Conc

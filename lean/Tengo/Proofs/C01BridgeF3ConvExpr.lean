import Tengo.Proofs.C01BridgeF3ConvBase
/-!
C01 bridge for fragment F3, reference-interpreter side, CONVERSE direction, layer 1 (expressions): the step
`F → F + 1` of the interpreter's fuel for `EvalConv` and `EvalsConv` (the call itself is the hypothesis `CallConv`),
and fuel 0. Mirrors Proofs/C01BridgeF3SpecExpr.lean (`evalSim_succ`, `evalsSim_succ`).
-/
set_option linter.unusedVariables false
set_option linter.unusedSimpArgs false
namespace Tengo.Proofs.C01BridgeF3Conv
open Tengo.Model Tengo.Model.Spec
open Tengo.Model.F3 (Ex Exs Stm Stms FnDef Prog Locals ERes EsRes Res updL bindArgs)
open Tengo.Proofs.C01Bridge
open Tengo.Proofs.C01BridgeF3 (DataRel NotCallable)
open Tengo.Proofs.C01BridgeF3Comp
open Tengo.Proofs.C01F3Opt (EnvOk)
open Tengo.Proofs.C01BridgeF3Spec
variable {V : Type} {C : Cx V}

theorem evalConv_zero (e : Ex) : EvalConv C 0 e := by
  intro ctx gs σ g l m lc B k f hf he hh hw
  exact .inl (Fz.fuel (evalExpr_zero _ _ gs σ))

theorem evalsConv_zero (es : Exs) : EvalsConv C 0 es := by
  intro ctx gs σ g l m lc B k f hf he hh hw
  exact .inl (Fz.fuel (evalExprs_zero _ _ gs σ))

theorem evalConv_succ (hy : Hyp C) (F : Nat) (ihE : ∀ e, EvalConv C F e) (ihEs : ∀ es, EvalsConv C F es)
    (ihC : CallConv C F) (e : Ex) : EvalConv C (F + 1) e := by
  intro ctx gs σ g l m lc B k f hf he hh hw
  obtain ⟨f', rfl⟩ : ∃ f', f = f' + 1 := ⟨f - 1, by omega⟩
  cases e with
  | lit j =>
    simp only [wfE3, Bool.and_eq_true, beq_iff_eq, Bool.not_eq_true'] at hw
    have hfn : C.P.fns j = none := by
      have := hw.2
      simp only [isFnOf] at this
      cases h : C.P.fns j with
      | none => rfl
      | some fd => rw [h] at this; cases this
    simp only [toAstE3, F3.evalE]
    have hval := hy.cs j hfn
    refine .inr ⟨_, σ, evalExpr_lit F ctx _ gs σ, ?_, hh, FrB.refl B σ⟩
    rw [← hval]
    exact VR.scalar (by rw [hval]; exact constValue_scalar _)
  | tru =>
    simp only [toAstE3, F3.evalE, evalExpr.eq_7]
    exact CE.pure (by rw [← hy.data.ofBool true]; exact VR.scalar (by rw [hy.data.ofBool]; rfl)) hh
  | fls =>
    simp only [toAstE3, F3.evalE, evalExpr.eq_7]
    exact CE.pure (by rw [← hy.data.ofBool false]; exact VR.scalar (by rw [hy.data.ofBool]; rfl)) hh
  | undef =>
    simp only [toAstE3, F3.evalE, evalExpr.eq_8]
    exact CE.pure (by rw [← hy.data.undef]; exact VR.scalar (by rw [hy.data.undef]; rfl)) hh
  | glob i =>
    simp only [wfE3, decide_eq_true_eq] at hw
    simp only [toAstE3, F3.evalE, evalExpr.eq_2]
    obtain ⟨w, b, hc, hv⟩ := hh.glob i hw
    exact .inr ⟨w, σ, readVar_run (he.glob i hw) hc gs, hv, hh, FrB.refl B σ⟩
  | loc i =>
    simp only [wfE3, decide_eq_true_eq] at hw
    simp only [toAstE3, F3.evalE, evalExpr.eq_2]
    obtain ⟨v, w, b, hl, hc, hv⟩ := hh.loc.loc i hw
    rw [hl]
    exact .inr ⟨w, σ, readVar_run (he.loc i hw) hc gs, hv, hh, FrB.refl B σ⟩
  | bin tok a b =>
    simp only [wfE3, Bool.and_eq_true] at hw
    obtain ⟨⟨ht, hwa⟩, hwb⟩ := hw
    simp only [toAstE3, ev_tok F ctx tok ht, F3.evalE]
    rcases ihE a ctx gs σ g l m lc B _ f' (by omega) he hh hwa with hfu | ha
    · exact .inl hfu.bind_left
    cases hea : F3.evalE C.E C.P f' a g l with
    | val x g1 =>
      rw [hea] at ha
      obtain ⟨wx, σ1, hok1, hvx, hh1, hf1⟩ := ha
      refine CE.bind_ok hok1 hf1 ?_
      dsimp only
      rcases ihE b ctx gs σ1 g1 l m lc B _ f' (by omega) he hh1 hwb with hfu | hb
      · exact .inl hfu.bind_left
      cases heb : F3.evalE C.E C.P f' b g1 l with
      | val y g2 =>
        rw [heb] at hb
        obtain ⟨wy, σ2, hok2, hvy, hh2, hf2⟩ := hb
        refine CE.bind_ok hok2 hf2 ?_
        obtain ⟨h1, h2⟩ := vr_binop hy (hvx.mono hf2.kc) hvy tok gs σ2
        dsimp only
        cases hop : C.E.S.binop tok x y with
        | some v =>
          obtain ⟨hok, hs⟩ := h1 v hop
          exact .inr ⟨_, σ2, hok, VR.scalar hs, hh2, FrB.refl B σ2⟩
        | none => exact .inr (h2 hop)
      | err => rw [heb] at hb; obtain ⟨err, hne, herr⟩ := hb; exact .inr ⟨err, hne, EErr.bind_left herr⟩
      | out => rw [heb] at hb; exact False.elim hb
      | bad => exact .inr True.intro
    | err => rw [hea] at ha; obtain ⟨err, hne, herr⟩ := ha; exact .inr ⟨err, hne, EErr.bind_left herr⟩
    | out => rw [hea] at ha; exact False.elim ha
    | bad => exact .inr True.intro
  | eq a b =>
    simp only [wfE3, Bool.and_eq_true] at hw
    obtain ⟨hwa, hwb⟩ := hw
    simp only [toAstE3, ev_eq, F3.evalE]
    rcases ihE a ctx gs σ g l m lc B _ f' (by omega) he hh hwa with hfu | ha
    · exact .inl hfu.bind_left
    cases hea : F3.evalE C.E C.P f' a g l with
    | val x g1 =>
      rw [hea] at ha
      obtain ⟨wx, σ1, hok1, hvx, hh1, hf1⟩ := ha
      refine CE.bind_ok hok1 hf1 ?_
      dsimp only
      rcases ihE b ctx gs σ1 g1 l m lc B _ f' (by omega) he hh1 hwb with hfu | hb
      · exact .inl hfu.bind_left
      cases heb : F3.evalE C.E C.P f' b g1 l with
      | val y g2 =>
        rw [heb] at hb
        obtain ⟨wy, σ2, hok2, hvy, hh2, hf2⟩ := hb
        refine CE.bind_ok hok2 hf2 ?_
        dsimp only
        refine CE.bind_ok (vr_eqv hy (hvx.mono hf2.kc) hvy gs σ2) (FrB.refl B σ2) ?_
        exact CE.pure (vr_bool hy _) hh2
      | err => rw [heb] at hb; obtain ⟨err, hne, herr⟩ := hb; exact .inr ⟨err, hne, EErr.bind_left herr⟩
      | out => rw [heb] at hb; exact False.elim hb
      | bad => exact .inr True.intro
    | err => rw [hea] at ha; obtain ⟨err, hne, herr⟩ := ha; exact .inr ⟨err, hne, EErr.bind_left herr⟩
    | out => rw [hea] at ha; exact False.elim ha
    | bad => exact .inr True.intro
  | ne a b =>
    simp only [wfE3, Bool.and_eq_true] at hw
    obtain ⟨hwa, hwb⟩ := hw
    simp only [toAstE3, ev_ne, F3.evalE]
    rcases ihE a ctx gs σ g l m lc B _ f' (by omega) he hh hwa with hfu | ha
    · exact .inl hfu.bind_left
    cases hea : F3.evalE C.E C.P f' a g l with
    | val x g1 =>
      rw [hea] at ha
      obtain ⟨wx, σ1, hok1, hvx, hh1, hf1⟩ := ha
      refine CE.bind_ok hok1 hf1 ?_
      dsimp only
      rcases ihE b ctx gs σ1 g1 l m lc B _ f' (by omega) he hh1 hwb with hfu | hb
      · exact .inl hfu.bind_left
      cases heb : F3.evalE C.E C.P f' b g1 l with
      | val y g2 =>
        rw [heb] at hb
        obtain ⟨wy, σ2, hok2, hvy, hh2, hf2⟩ := hb
        refine CE.bind_ok hok2 hf2 ?_
        dsimp only
        refine CE.bind_ok (vr_eqv hy (hvx.mono hf2.kc) hvy gs σ2) (FrB.refl B σ2) ?_
        exact CE.pure (vr_bool hy _) hh2
      | err => rw [heb] at hb; obtain ⟨err, hne, herr⟩ := hb; exact .inr ⟨err, hne, EErr.bind_left herr⟩
      | out => rw [heb] at hb; exact False.elim hb
      | bad => exact .inr True.intro
    | err => rw [hea] at ha; obtain ⟨err, hne, herr⟩ := ha; exact .inr ⟨err, hne, EErr.bind_left herr⟩
    | out => rw [hea] at ha; exact False.elim ha
    | bad => exact .inr True.intro
  | neg a =>
    simp only [wfE3] at hw
    simp only [toAstE3, ev_sub', F3.evalE]
    rcases ihE a ctx gs σ g l m lc B _ f' (by omega) he hh hw with hfu | ha
    · exact .inl hfu.bind_left
    cases hea : F3.evalE C.E C.P f' a g l with
    | val x g1 =>
      rw [hea] at ha
      obtain ⟨wx, σ1, hok1, hvx, hh1, hf1⟩ := ha
      refine CE.bind_ok hok1 hf1 ?_
      dsimp only
      obtain ⟨h1, h2⟩ := vr_neg hy hvx gs σ1
      cases hop : C.E.S.neg x with
      | some v =>
        obtain ⟨hok, hs⟩ := h1 v hop
        exact .inr ⟨_, σ1, hok, VR.scalar hs, hh1, FrB.refl B σ1⟩
      | none => exact .inr (h2 hop)
    | err => rw [hea] at ha; obtain ⟨err, hne, herr⟩ := ha; exact .inr ⟨err, hne, EErr.bind_left herr⟩
    | out => rw [hea] at ha; exact False.elim ha
    | bad => exact .inr True.intro
  | bnot a =>
    simp only [wfE3] at hw
    simp only [toAstE3, ev_xor', F3.evalE]
    rcases ihE a ctx gs σ g l m lc B _ f' (by omega) he hh hw with hfu | ha
    · exact .inl hfu.bind_left
    cases hea : F3.evalE C.E C.P f' a g l with
    | val x g1 =>
      rw [hea] at ha
      obtain ⟨wx, σ1, hok1, hvx, hh1, hf1⟩ := ha
      refine CE.bind_ok hok1 hf1 ?_
      dsimp only
      obtain ⟨h1, h2⟩ := vr_bnot hy hvx gs σ1
      cases hop : C.E.S.bnot x with
      | some v =>
        obtain ⟨hok, hs⟩ := h1 v hop
        exact .inr ⟨_, σ1, hok, VR.scalar hs, hh1, FrB.refl B σ1⟩
      | none => exact .inr (h2 hop)
    | err => rw [hea] at ha; obtain ⟨err, hne, herr⟩ := ha; exact .inr ⟨err, hne, EErr.bind_left herr⟩
    | out => rw [hea] at ha; exact False.elim ha
    | bad => exact .inr True.intro
  | lnot a =>
    simp only [wfE3] at hw
    simp only [toAstE3, ev_not, F3.evalE]
    rcases ihE a ctx gs σ g l m lc B _ f' (by omega) he hh hw with hfu | ha
    · exact .inl hfu.bind_left
    cases hea : F3.evalE C.E C.P f' a g l with
    | val x g1 =>
      rw [hea] at ha
      obtain ⟨wx, σ1, hok1, hvx, hh1, hf1⟩ := ha
      refine CE.bind_ok hok1 hf1 ?_
      dsimp only
      refine CE.bind_ok (vr_falsy hy hvx gs σ1) (FrB.refl B σ1) ?_
      exact CE.pure (vr_bool hy _) hh1
    | err => rw [hea] at ha; obtain ⟨err, hne, herr⟩ := ha; exact .inr ⟨err, hne, EErr.bind_left herr⟩
    | out => rw [hea] at ha; exact False.elim ha
    | bad => exact .inr True.intro
  | plus a =>
    simp only [wfE3] at hw
    simp only [toAstE3, ev_plus, F3.evalE]
    rcases ihE a ctx gs σ g l m lc B _ f' (by omega) he hh hw with hfu | ha
    · exact .inl hfu.bind_left
    cases hea : F3.evalE C.E C.P f' a g l with
    | val x g1 =>
      rw [hea] at ha
      obtain ⟨wx, σ1, hok1, hvx, hh1, hf1⟩ := ha
      exact CE.bind_ok hok1 hf1 (CE.pure hvx hh1)
    | err => rw [hea] at ha; obtain ⟨err, hne, herr⟩ := ha; exact .inr ⟨err, hne, EErr.bind_left herr⟩
    | out => rw [hea] at ha; exact False.elim ha
    | bad => exact .inr True.intro
  | cond a t e =>
    simp only [wfE3, Bool.and_eq_true] at hw
    obtain ⟨⟨hw, hwt⟩, hwe⟩ := hw
    simp only [toAstE3, ev_cond, F3.evalE]
    rcases ihE a ctx gs σ g l m lc B _ f' (by omega) he hh hw with hfu | ha
    · exact .inl hfu.bind_left
    cases hea : F3.evalE C.E C.P f' a g l with
    | val x g1 =>
      rw [hea] at ha
      obtain ⟨wx, σ1, hok1, hvx, hh1, hf1⟩ := ha
      refine CE.bind_ok hok1 hf1 ?_
      dsimp only
      refine CE.bind_ok (vr_falsy hy hvx gs σ1) (FrB.refl B σ1) ?_
      cases hfa : C.E.S.falsy x with
      | true =>
        simp only [if_true]
        exact ihE e ctx gs σ1 g1 l m lc B _ f' (by omega) he hh1 hwe
      | false =>
        simp only [Bool.false_eq_true, if_false]
        exact ihE t ctx gs σ1 g1 l m lc B _ f' (by omega) he hh1 hwt
    | err => rw [hea] at ha; obtain ⟨err, hne, herr⟩ := ha; exact .inr ⟨err, hne, EErr.bind_left herr⟩
    | out => rw [hea] at ha; exact False.elim ha
    | bad => exact .inr True.intro
  | land a b =>
    simp only [wfE3, Bool.and_eq_true] at hw
    obtain ⟨hw, hwb⟩ := hw
    simp only [toAstE3, ev_land, F3.evalE]
    rcases ihE a ctx gs σ g l m lc B _ f' (by omega) he hh hw with hfu | ha
    · exact .inl hfu.bind_left
    cases hea : F3.evalE C.E C.P f' a g l with
    | val x g1 =>
      rw [hea] at ha
      obtain ⟨wx, σ1, hok1, hvx, hh1, hf1⟩ := ha
      refine CE.bind_ok hok1 hf1 ?_
      dsimp only
      refine CE.bind_ok (vr_falsy hy hvx gs σ1) (FrB.refl B σ1) ?_
      cases hfa : C.E.S.falsy x with
      | true =>
        simp only [if_true]
        exact CE.pure hvx hh1
      | false =>
        simp only [Bool.false_eq_true, if_false]
        exact ihE b ctx gs σ1 g1 l m lc B _ f' (by omega) he hh1 hwb
    | err => rw [hea] at ha; obtain ⟨err, hne, herr⟩ := ha; exact .inr ⟨err, hne, EErr.bind_left herr⟩
    | out => rw [hea] at ha; exact False.elim ha
    | bad => exact .inr True.intro
  | lor a b =>
    simp only [wfE3, Bool.and_eq_true] at hw
    obtain ⟨hw, hwb⟩ := hw
    simp only [toAstE3, ev_lor, F3.evalE]
    rcases ihE a ctx gs σ g l m lc B _ f' (by omega) he hh hw with hfu | ha
    · exact .inl hfu.bind_left
    cases hea : F3.evalE C.E C.P f' a g l with
    | val x g1 =>
      rw [hea] at ha
      obtain ⟨wx, σ1, hok1, hvx, hh1, hf1⟩ := ha
      refine CE.bind_ok hok1 hf1 ?_
      dsimp only
      refine CE.bind_ok (vr_falsy hy hvx gs σ1) (FrB.refl B σ1) ?_
      cases hfa : C.E.S.falsy x with
      | true =>
        simp only [if_true]
        exact ihE b ctx gs σ1 g1 l m lc B _ f' (by omega) he hh1 hwb
      | false =>
        simp only [Bool.false_eq_true, if_false]
        exact CE.pure hvx hh1
    | err => rw [hea] at ha; obtain ⟨err, hne, herr⟩ := ha; exact .inr ⟨err, hne, EErr.bind_left herr⟩
    | out => rw [hea] at ha; exact False.elim ha
    | bad => exact .inr True.intro
  | call a args =>
    simp only [wfE3, Bool.and_eq_true, decide_eq_true_eq] at hw
    obtain ⟨⟨_, hw⟩, hwargs⟩ := hw
    simp only [toAstE3, ev_call, F3.evalE]
    rcases ihE a ctx gs σ g l m lc B _ f' (by omega) he hh hw with hfu | ha
    · exact .inl hfu.bind_left
    cases hea : F3.evalE C.E C.P f' a g l with
    | val x g1 =>
      rw [hea] at ha
      obtain ⟨wx, σ1, hok1, hvx, hh1, hf1⟩ := ha
      have hpos : 0 < f' := evalE_pos (by rw [hea]; exact fun h => by cases h)
      refine CE.bind_ok hok1 hf1 ?_
      dsimp only
      rcases ihEs args ctx gs σ1 g1 l m lc B _ f' (by omega) he hh1 hwargs with hfu | hb
      · exact .inl hfu.bind_left
      cases heb : F3.evalEs C.E C.P f' args g1 l with
      | vals vs g2 =>
        rw [heb] at hb
        obtain ⟨ws, σ2, hok2, hvs, hh2, hf2⟩ := hb
        refine CE.bind_ok hok2 hf2 ?_
        dsimp only
        rcases ihC ctx gs σ2 g2 x wx vs ws f' (by omega) hpos (hvx.mono hf2.kc) hvs hh2.glob with hfu | hc
        · exact .inl hfu
        cases hec : F3.callFn C.E C.P f' x vs g2 with
        | val v g' =>
          rw [hec] at hc
          obtain ⟨w', σ', hok, hv', hg', hf'⟩ := hc
          exact .inr ⟨w', σ', hok, hv', hh2.call hg' hf', hf'.mono hh2.bsz⟩
        | err => rw [hec] at hc; exact .inr hc
        | out => rw [hec] at hc; exact False.elim hc
        | bad => exact .inr True.intro
      | err => rw [heb] at hb; obtain ⟨err, hne, herr⟩ := hb; exact .inr ⟨err, hne, EErr.bind_left herr⟩
      | out => rw [heb] at hb; exact False.elim hb
      | bad => exact .inr True.intro
    | err => rw [hea] at ha; obtain ⟨err, hne, herr⟩ := ha; exact .inr ⟨err, hne, EErr.bind_left herr⟩
    | out => rw [hea] at ha; exact False.elim ha
    | bad => exact .inr True.intro

theorem evalsConv_succ (F : Nat) (ihE : ∀ e, EvalConv C F e) (ihEs : ∀ es, EvalsConv C F es) (es : Exs) :
    EvalsConv C (F + 1) es := by
  intro ctx gs σ g l m lc B k f hf he hh hw
  obtain ⟨f', rfl⟩ : ∃ f', f = f' + 1 := ⟨f - 1, by omega⟩
  cases es with
  | nil =>
    simp only [toAstEs3, F3.evalEs, evalExprs.eq_2]
    exact .inr ⟨[], σ, EOk.pure _ gs σ, VRs.nil σ, hh, FrB.refl B σ⟩
  | cons e es =>
    simp only [wfEs3, Bool.and_eq_true] at hw
    simp only [toAstEs3, F3.evalEs, evalExprs.eq_3]
    rcases ihE e ctx gs σ g l m lc B _ f' (by omega) he hh hw.1 with hfu | ha
    · exact .inl hfu.bind_left
    cases hea : F3.evalE C.E C.P f' e g l with
    | val x g1 =>
      rw [hea] at ha
      obtain ⟨wx, σ1, hok1, hvx, hh1, hf1⟩ := ha
      refine CEs.bind_ok hok1 hf1 ?_
      dsimp only
      rcases ihEs es ctx gs σ1 g1 l m lc B _ f' (by omega) he hh1 hw.2 with hfu | hb
      · exact .inl hfu.bind_left
      cases heb : F3.evalEs C.E C.P f' es g1 l with
      | vals vs g2 =>
        rw [heb] at hb
        obtain ⟨ws, σ2, hok2, hvs, hh2, hf2⟩ := hb
        refine CEs.bind_ok hok2 hf2 ?_
        exact .inr ⟨wx :: ws, σ2, EOk.pure _ gs σ2, VRs.cons (hvx.mono hf2.kc) hvs, hh2, FrB.refl B σ2⟩
      | err => rw [heb] at hb; obtain ⟨err, hne, herr⟩ := hb; exact .inr ⟨err, hne, EErr.bind_left herr⟩
      | out => rw [heb] at hb; exact False.elim hb
      | bad => exact .inr True.intro
    | err => rw [hea] at ha; obtain ⟨err, hne, herr⟩ := ha; exact .inr ⟨err, hne, EErr.bind_left herr⟩
    | out => rw [hea] at ha; exact False.elim ha
    | bad => exact .inr True.intro

end Tengo.Proofs.C01BridgeF3Conv

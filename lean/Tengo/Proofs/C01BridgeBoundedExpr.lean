import Tengo.Proofs.C01BridgeBounded
/-!
C01 bridge: compiler correctness of fragment F0's expressions on the machine with a bounded operand stack
(`comp_correctB`). The proof is `Tengo.Model.F0.comp_correct` (Proofs/F0Correct.lean) with the stack bound
carried along: the code of `e` started on a stack of height `h` never uses more than `h + depthE e` slots.
-/
namespace Tengo.Model.F0
variable {V : Type}

/-- Discharge a bound on the height of a stack from the depth hypothesis in context. -/
macro "bnd" : tactic => `(tactic| ((try dsimp only) <;> (try simp only [List.length_cons] at *) <;> omega))

theorem comp_correctB (lim : Nat) (S : Sem V) (cs g : Nat → V) (e : Ex) :
    ∀ (pre post : List Ins) (st : List V), st.length + depthE e ≤ lim →
      (∀ v, eval S cs g e = some v →
        RunsB lim S cs (pre ++ comp (csize pre) e ++ post) ⟨csize pre, st, g⟩
          ⟨csize pre + esize e, v :: st, g⟩) ∧
      (eval S cs g e = none → FailsB lim S cs (pre ++ comp (csize pre) e ++ post) ⟨csize pre, st, g⟩) := by
  induction e with
  | lit k =>
    intro pre post st hd
    simp only [depthE] at hd
    have hf : fetch (pre ++ comp (csize pre) (.lit k) ++ post) (csize pre) = some (.const k) :=
      fetch_mid' pre [] [] post _ _ (by simp [csize])
    refine ⟨?_, by simp [eval]⟩
    intro v hv
    simp only [eval, Option.some.injEq] at hv
    subst hv
    exact RunsB.step (lim := lim) (step_const S cs _ hf) (by bnd)
  | tru =>
    intro pre post st hd
    simp only [depthE] at hd
    have hf : fetch (pre ++ comp (csize pre) .tru ++ post) (csize pre) = some .tru :=
      fetch_mid' pre [] [] post _ _ (by simp [csize])
    refine ⟨?_, by simp [eval]⟩
    intro v hv
    simp only [eval, Option.some.injEq] at hv
    subst hv
    exact RunsB.step (lim := lim) (step_tru S cs _ hf) (by bnd)
  | fls =>
    intro pre post st hd
    simp only [depthE] at hd
    have hf : fetch (pre ++ comp (csize pre) .fls ++ post) (csize pre) = some .fls :=
      fetch_mid' pre [] [] post _ _ (by simp [csize])
    refine ⟨?_, by simp [eval]⟩
    intro v hv
    simp only [eval, Option.some.injEq] at hv
    subst hv
    exact RunsB.step (lim := lim) (step_fls S cs _ hf) (by bnd)
  | undef =>
    intro pre post st hd
    simp only [depthE] at hd
    have hf : fetch (pre ++ comp (csize pre) .undef ++ post) (csize pre) = some .null :=
      fetch_mid' pre [] [] post _ _ (by simp [csize])
    refine ⟨?_, by simp [eval]⟩
    intro v hv
    simp only [eval, Option.some.injEq] at hv
    subst hv
    exact RunsB.step (lim := lim) (step_null S cs _ hf) (by bnd)
  | glob i =>
    intro pre post st hd
    simp only [depthE] at hd
    have hf : fetch (pre ++ comp (csize pre) (.glob i) ++ post) (csize pre) = some (.getg i) :=
      fetch_mid' pre [] [] post _ _ (by simp [csize])
    refine ⟨?_, by simp [eval]⟩
    intro v hv
    simp only [eval, Option.some.injEq] at hv
    subst hv
    exact RunsB.step (lim := lim) (step_getg S cs _ hf) (by bnd)
  | bin tok l r ihl ihr =>
    intro pre post st hd
    simp only [depthE] at hd
    have hp_l := depthE_pos l
    have hp_r := depthE_pos r
    have hcode : pre ++ comp (csize pre) (.bin tok l r) ++ post =
        pre ++ comp (csize pre) l ++ (comp (csize pre + esize l) r ++ [Ins.binop tok] ++ post) := by
      simp [comp, csize_comp, List.append_assoc]
    have hcode2 : pre ++ comp (csize pre) (.bin tok l r) ++ post =
        (pre ++ comp (csize pre) l) ++ comp (csize (pre ++ comp (csize pre) l)) r ++ ([Ins.binop tok] ++ post) := by
      simp [comp, csize_comp, csize_append, List.append_assoc]
    have hfetch : fetch (pre ++ comp (csize pre) (.bin tok l r) ++ post) (csize pre + esize l + esize r) =
        some (Ins.binop tok) := by
      have h := fetch_mid' pre (comp (csize pre) l ++ comp (csize pre + esize l) r) [] post (Ins.binop tok)
        (csize pre + esize l + esize r) (by simp [csize_append, csize_comp]; omega)
      simpa [comp, csize_comp, List.append_assoc] using h
    obtain ⟨hl1, hl2⟩ := ihl pre (comp (csize pre + esize l) r ++ [Ins.binop tok] ++ post) st (by bnd)
    rw [← hcode] at hl1 hl2
    have hr := fun a => ihr (pre ++ comp (csize pre) l) ([Ins.binop tok] ++ post) (a :: st) (by bnd)
    rw [← hcode2] at hr
    simp only [csize_append, csize_comp] at hr
    constructor
    · intro v hv
      simp only [eval] at hv
      cases hel : eval S cs g l with
      | none => simp [hel] at hv
      | some a =>
        cases her : eval S cs g r with
        | none => simp [hel, her] at hv
        | some b =>
          simp only [hel, her] at hv
          exact (((hl1 a hel).trans ((hr a).1 b her)).trans
            (RunsB.step (lim := lim) (step_binop_ok S cs _ hfetch hv) (by bnd))).to (by simp [esize]; omega)
    · intro hv
      simp only [eval] at hv
      cases hel : eval S cs g l with
      | none => exact hl2 hel
      | some a =>
        cases her : eval S cs g r with
        | none => exact (hl1 a hel).fails ((hr a).2 her)
        | some b =>
          simp only [hel, her] at hv
          exact ((hl1 a hel).trans ((hr a).1 b her)).fails (FailsB.here (ErrAt.binop hfetch hv))
  | eq l r ihl ihr =>
    intro pre post st hd
    simp only [depthE] at hd
    have hp_l := depthE_pos l
    have hp_r := depthE_pos r
    have hcode : pre ++ comp (csize pre) (.eq l r) ++ post =
        pre ++ comp (csize pre) l ++ (comp (csize pre + esize l) r ++ [Ins.eql] ++ post) := by
      simp [comp, csize_comp, List.append_assoc]
    have hcode2 : pre ++ comp (csize pre) (.eq l r) ++ post =
        (pre ++ comp (csize pre) l) ++ comp (csize (pre ++ comp (csize pre) l)) r ++ ([Ins.eql] ++ post) := by
      simp [comp, csize_comp, csize_append, List.append_assoc]
    have hfetch : fetch (pre ++ comp (csize pre) (.eq l r) ++ post) (csize pre + esize l + esize r) =
        some Ins.eql := by
      have h := fetch_mid' pre (comp (csize pre) l ++ comp (csize pre + esize l) r) [] post Ins.eql
        (csize pre + esize l + esize r) (by simp [csize_append, csize_comp]; omega)
      simpa [comp, csize_comp, List.append_assoc] using h
    obtain ⟨hl1, hl2⟩ := ihl pre (comp (csize pre + esize l) r ++ [Ins.eql] ++ post) st (by bnd)
    rw [← hcode] at hl1 hl2
    have hr := fun a => ihr (pre ++ comp (csize pre) l) ([Ins.eql] ++ post) (a :: st) (by bnd)
    rw [← hcode2] at hr
    simp only [csize_append, csize_comp] at hr
    constructor
    · intro v hv
      simp only [eval] at hv
      cases hel : eval S cs g l with
      | none => simp [hel] at hv
      | some a =>
        cases her : eval S cs g r with
        | none => simp [hel, her] at hv
        | some b =>
          simp only [hel, her, Option.some.injEq] at hv
          subst hv
          exact (((hl1 a hel).trans ((hr a).1 b her)).trans
            (RunsB.step (lim := lim) (step_eql S cs _ hfetch) (by bnd))).to (by simp [esize]; omega)
    · intro hv
      simp only [eval] at hv
      cases hel : eval S cs g l with
      | none => exact hl2 hel
      | some a =>
        cases her : eval S cs g r with
        | none => exact (hl1 a hel).fails ((hr a).2 her)
        | some b => simp [hel, her] at hv
  | ne l r ihl ihr =>
    intro pre post st hd
    simp only [depthE] at hd
    have hp_l := depthE_pos l
    have hp_r := depthE_pos r
    have hcode : pre ++ comp (csize pre) (.ne l r) ++ post =
        pre ++ comp (csize pre) l ++ (comp (csize pre + esize l) r ++ [Ins.neq] ++ post) := by
      simp [comp, csize_comp, List.append_assoc]
    have hcode2 : pre ++ comp (csize pre) (.ne l r) ++ post =
        (pre ++ comp (csize pre) l) ++ comp (csize (pre ++ comp (csize pre) l)) r ++ ([Ins.neq] ++ post) := by
      simp [comp, csize_comp, csize_append, List.append_assoc]
    have hfetch : fetch (pre ++ comp (csize pre) (.ne l r) ++ post) (csize pre + esize l + esize r) =
        some Ins.neq := by
      have h := fetch_mid' pre (comp (csize pre) l ++ comp (csize pre + esize l) r) [] post Ins.neq
        (csize pre + esize l + esize r) (by simp [csize_append, csize_comp]; omega)
      simpa [comp, csize_comp, List.append_assoc] using h
    obtain ⟨hl1, hl2⟩ := ihl pre (comp (csize pre + esize l) r ++ [Ins.neq] ++ post) st (by bnd)
    rw [← hcode] at hl1 hl2
    have hr := fun a => ihr (pre ++ comp (csize pre) l) ([Ins.neq] ++ post) (a :: st) (by bnd)
    rw [← hcode2] at hr
    simp only [csize_append, csize_comp] at hr
    constructor
    · intro v hv
      simp only [eval] at hv
      cases hel : eval S cs g l with
      | none => simp [hel] at hv
      | some a =>
        cases her : eval S cs g r with
        | none => simp [hel, her] at hv
        | some b =>
          simp only [hel, her, Option.some.injEq] at hv
          subst hv
          exact (((hl1 a hel).trans ((hr a).1 b her)).trans
            (RunsB.step (lim := lim) (step_neq S cs _ hfetch) (by bnd))).to (by simp [esize]; omega)
    · intro hv
      simp only [eval] at hv
      cases hel : eval S cs g l with
      | none => exact hl2 hel
      | some a =>
        cases her : eval S cs g r with
        | none => exact (hl1 a hel).fails ((hr a).2 her)
        | some b => simp [hel, her] at hv
  | neg e ih =>
    intro pre post st hd
    simp only [depthE] at hd
    have hp_e := depthE_pos e
    have hcode : pre ++ comp (csize pre) (.neg e) ++ post = pre ++ comp (csize pre) e ++ ([Ins.minus] ++ post) := by
      simp [comp, List.append_assoc]
    have hfetch : fetch (pre ++ comp (csize pre) (.neg e) ++ post) (csize pre + esize e) = some Ins.minus := by
      have h := fetch_mid' pre (comp (csize pre) e) [] post Ins.minus (csize pre + esize e) (by simp [csize_comp])
      simpa [comp, List.append_assoc] using h
    obtain ⟨h1, h2⟩ := ih pre ([Ins.minus] ++ post) st (by bnd)
    rw [← hcode] at h1 h2
    constructor
    · intro v hv
      simp only [eval] at hv
      cases he : eval S cs g e with
      | none => simp [he] at hv
      | some a =>
        simp only [he] at hv
        exact ((h1 a he).trans (RunsB.step (lim := lim) (step_minus_ok S cs _ hfetch hv) (by bnd))).to (by simp [esize]; omega)
    · intro hv
      simp only [eval] at hv
      cases he : eval S cs g e with
      | none => exact h2 he
      | some a =>
        simp only [he] at hv
        exact (h1 a he).fails (FailsB.here (ErrAt.minus hfetch hv))
  | bnot e ih =>
    intro pre post st hd
    simp only [depthE] at hd
    have hp_e := depthE_pos e
    have hcode : pre ++ comp (csize pre) (.bnot e) ++ post = pre ++ comp (csize pre) e ++ ([Ins.bcompl] ++ post) := by
      simp [comp, List.append_assoc]
    have hfetch : fetch (pre ++ comp (csize pre) (.bnot e) ++ post) (csize pre + esize e) = some Ins.bcompl := by
      have h := fetch_mid' pre (comp (csize pre) e) [] post Ins.bcompl (csize pre + esize e) (by simp [csize_comp])
      simpa [comp, List.append_assoc] using h
    obtain ⟨h1, h2⟩ := ih pre ([Ins.bcompl] ++ post) st (by bnd)
    rw [← hcode] at h1 h2
    constructor
    · intro v hv
      simp only [eval] at hv
      cases he : eval S cs g e with
      | none => simp [he] at hv
      | some a =>
        simp only [he] at hv
        exact ((h1 a he).trans (RunsB.step (lim := lim) (step_bcompl_ok S cs _ hfetch hv) (by bnd))).to (by simp [esize]; omega)
    · intro hv
      simp only [eval] at hv
      cases he : eval S cs g e with
      | none => exact h2 he
      | some a =>
        simp only [he] at hv
        exact (h1 a he).fails (FailsB.here (ErrAt.bcompl hfetch hv))
  | lnot e ih =>
    intro pre post st hd
    simp only [depthE] at hd
    have hp_e := depthE_pos e
    have hcode : pre ++ comp (csize pre) (.lnot e) ++ post = pre ++ comp (csize pre) e ++ ([Ins.lnot] ++ post) := by
      simp [comp, List.append_assoc]
    have hfetch : fetch (pre ++ comp (csize pre) (.lnot e) ++ post) (csize pre + esize e) = some Ins.lnot := by
      have h := fetch_mid' pre (comp (csize pre) e) [] post Ins.lnot (csize pre + esize e) (by simp [csize_comp])
      simpa [comp, List.append_assoc] using h
    obtain ⟨h1, h2⟩ := ih pre ([Ins.lnot] ++ post) st (by bnd)
    rw [← hcode] at h1 h2
    constructor
    · intro v hv
      simp only [eval] at hv
      cases he : eval S cs g e with
      | none => simp [he] at hv
      | some a =>
        simp only [he, Option.some.injEq] at hv
        subst hv
        exact ((h1 a he).trans (RunsB.step (lim := lim) (step_lnot S cs _ hfetch) (by bnd))).to (by simp [esize]; omega)
    · intro hv
      simp only [eval] at hv
      cases he : eval S cs g e with
      | none => exact h2 he
      | some a => simp [he] at hv
  | plus e ih =>
    intro pre post st hd
    simp only [depthE] at hd
    have hp_e := depthE_pos e
    simpa [comp, eval, esize] using ih pre post st (by bnd)
  | cond c t f ihc iht ihf =>
    intro pre post st hd
    simp only [depthE] at hd
    have hp_c := depthE_pos c
    have hp_t := depthE_pos t
    have hp_f := depthE_pos f
    -- offsets
    have htoff : csize (pre ++ comp (csize pre) c ++ [Ins.jmpf (csize pre + esize c + 5 + esize t + 5)]) =
        csize pre + esize c + 5 := by simp [csize_append, csize_comp, csize, Ins.size]; omega
    have hfoff : csize (pre ++ comp (csize pre) c ++ [Ins.jmpf (csize pre + esize c + 5 + esize t + 5)] ++
        comp (csize pre + esize c + 5) t ++ [Ins.jmp (csize pre + esize c + 5 + esize t + 5 + esize f)]) =
        csize pre + esize c + 5 + esize t + 5 := by simp [csize_append, csize_comp, csize, Ins.size]; omega
    have hcomp : comp (csize pre) (.cond c t f) =
        comp (csize pre) c ++ [Ins.jmpf (csize pre + esize c + 5 + esize t + 5)] ++
          comp (csize pre + esize c + 5) t ++ [Ins.jmp (csize pre + esize c + 5 + esize t + 5 + esize f)] ++
          comp (csize pre + esize c + 5 + esize t + 5) f := by
      simp [comp, csize_comp, List.append_assoc]
    have hcode0 : pre ++ comp (csize pre) (.cond c t f) ++ post =
        pre ++ comp (csize pre) c ++ ([Ins.jmpf (csize pre + esize c + 5 + esize t + 5)] ++
          comp (csize pre + esize c + 5) t ++ [Ins.jmp (csize pre + esize c + 5 + esize t + 5 + esize f)] ++
          comp (csize pre + esize c + 5 + esize t + 5) f ++ post) := by
      rw [hcomp]; simp [List.append_assoc]
    have hcode1 : pre ++ comp (csize pre) (.cond c t f) ++ post =
        (pre ++ comp (csize pre) c ++ [Ins.jmpf (csize pre + esize c + 5 + esize t + 5)]) ++
          comp (csize (pre ++ comp (csize pre) c ++ [Ins.jmpf (csize pre + esize c + 5 + esize t + 5)])) t ++
          ([Ins.jmp (csize pre + esize c + 5 + esize t + 5 + esize f)] ++
          comp (csize pre + esize c + 5 + esize t + 5) f ++ post) := by
      rw [hcomp, htoff]; simp [List.append_assoc]
    have hcode2 : pre ++ comp (csize pre) (.cond c t f) ++ post =
        (pre ++ comp (csize pre) c ++ [Ins.jmpf (csize pre + esize c + 5 + esize t + 5)] ++
          comp (csize pre + esize c + 5) t ++ [Ins.jmp (csize pre + esize c + 5 + esize t + 5 + esize f)]) ++
          comp (csize (pre ++ comp (csize pre) c ++ [Ins.jmpf (csize pre + esize c + 5 + esize t + 5)] ++
          comp (csize pre + esize c + 5) t ++ [Ins.jmp (csize pre + esize c + 5 + esize t + 5 + esize f)])) f ++ post := by
      rw [hcomp, hfoff]; simp [List.append_assoc]
    have hfj : fetch (pre ++ comp (csize pre) (.cond c t f) ++ post) (csize pre + esize c) =
        some (Ins.jmpf (csize pre + esize c + 5 + esize t + 5)) := by
      rw [hcomp]
      have h := fetch_mid' pre (comp (csize pre) c)
        (comp (csize pre + esize c + 5) t ++ [Ins.jmp (csize pre + esize c + 5 + esize t + 5 + esize f)] ++
          comp (csize pre + esize c + 5 + esize t + 5) f) post
        (Ins.jmpf (csize pre + esize c + 5 + esize t + 5)) (csize pre + esize c) (by simp [csize_comp])
      simpa [List.append_assoc] using h
    have hfj2 : fetch (pre ++ comp (csize pre) (.cond c t f) ++ post) (csize pre + esize c + 5 + esize t) =
        some (Ins.jmp (csize pre + esize c + 5 + esize t + 5 + esize f)) := by
      rw [hcomp]
      have h := fetch_mid' pre (comp (csize pre) c ++ [Ins.jmpf (csize pre + esize c + 5 + esize t + 5)] ++
          comp (csize pre + esize c + 5) t)
        (comp (csize pre + esize c + 5 + esize t + 5) f) post
        (Ins.jmp (csize pre + esize c + 5 + esize t + 5 + esize f)) (csize pre + esize c + 5 + esize t)
        (by simp [csize_append, csize_comp, csize, Ins.size]; omega)
      simpa [List.append_assoc] using h
    obtain ⟨hc1, hc2⟩ := ihc pre ([Ins.jmpf (csize pre + esize c + 5 + esize t + 5)] ++
          comp (csize pre + esize c + 5) t ++ [Ins.jmp (csize pre + esize c + 5 + esize t + 5 + esize f)] ++
          comp (csize pre + esize c + 5 + esize t + 5) f ++ post) st (by bnd)
    rw [← hcode0] at hc1 hc2
    obtain ⟨ht1, ht2⟩ := iht (pre ++ comp (csize pre) c ++ [Ins.jmpf (csize pre + esize c + 5 + esize t + 5)])
      ([Ins.jmp (csize pre + esize c + 5 + esize t + 5 + esize f)] ++
          comp (csize pre + esize c + 5 + esize t + 5) f ++ post) st (by bnd)
    rw [← hcode1, htoff] at ht1 ht2
    obtain ⟨hf1, hf2⟩ := ihf (pre ++ comp (csize pre) c ++ [Ins.jmpf (csize pre + esize c + 5 + esize t + 5)] ++
          comp (csize pre + esize c + 5) t ++ [Ins.jmp (csize pre + esize c + 5 + esize t + 5 + esize f)]) post st (by bnd)
    rw [← hcode2, hfoff] at hf1 hf2
    constructor
    · intro v hv
      simp only [eval] at hv
      cases hec : eval S cs g c with
      | none => simp [hec] at hv
      | some a =>
        simp only [hec] at hv
        have hstep := RunsB.step (lim := lim) (step_jmpf S cs _ (st := st) (g := g) (a := a) hfj) (by bnd)
        by_cases hfa : S.falsy a = true
        · simp only [hfa, ↓reduceIte] at hv hstep
          exact (((hc1 a hec).trans hstep).trans (hf1 v hv)).to (by simp [esize]; omega)
        · simp only [hfa, Bool.false_eq_true, ↓reduceIte] at hv hstep
          exact ((((hc1 a hec).trans hstep).trans (ht1 v hv)).trans
            (RunsB.step (lim := lim) (step_jmp S cs _ hfj2) (by bnd))).to (by simp [esize]; omega)
    · intro hv
      simp only [eval] at hv
      cases hec : eval S cs g c with
      | none => exact hc2 hec
      | some a =>
        simp only [hec] at hv
        have hstep := RunsB.step (lim := lim) (step_jmpf S cs _ (st := st) (g := g) (a := a) hfj) (by bnd)
        by_cases hfa : S.falsy a = true
        · simp only [hfa, ↓reduceIte] at hv hstep
          exact ((hc1 a hec).trans hstep).fails (hf2 hv)
        · simp only [hfa, Bool.false_eq_true, ↓reduceIte] at hv hstep
          exact ((hc1 a hec).trans hstep).fails (ht2 hv)
  | land l r ihl ihr =>
    intro pre post st hd
    simp only [depthE] at hd
    have hp_l := depthE_pos l
    have hp_r := depthE_pos r
    have hroff : csize (pre ++ comp (csize pre) l ++ [Ins.andjmp (csize pre + esize l + 5 + esize r)]) =
        csize pre + esize l + 5 := by simp [csize_append, csize_comp, csize, Ins.size]; omega
    have hcomp : comp (csize pre) (.land l r) =
        comp (csize pre) l ++ [Ins.andjmp (csize pre + esize l + 5 + esize r)] ++ comp (csize pre + esize l + 5) r := by
      simp [comp, csize_comp, List.append_assoc]
    have hcode0 : pre ++ comp (csize pre) (.land l r) ++ post =
        pre ++ comp (csize pre) l ++ ([Ins.andjmp (csize pre + esize l + 5 + esize r)] ++
          comp (csize pre + esize l + 5) r ++ post) := by
      rw [hcomp]; simp [List.append_assoc]
    have hcode1 : pre ++ comp (csize pre) (.land l r) ++ post =
        (pre ++ comp (csize pre) l ++ [Ins.andjmp (csize pre + esize l + 5 + esize r)]) ++
          comp (csize (pre ++ comp (csize pre) l ++ [Ins.andjmp (csize pre + esize l + 5 + esize r)])) r ++ post := by
      rw [hcomp, hroff]; simp [List.append_assoc]
    have hfj : fetch (pre ++ comp (csize pre) (.land l r) ++ post) (csize pre + esize l) =
        some (Ins.andjmp (csize pre + esize l + 5 + esize r)) := by
      rw [hcomp]
      have h := fetch_mid' pre (comp (csize pre) l) (comp (csize pre + esize l + 5) r) post
        (Ins.andjmp (csize pre + esize l + 5 + esize r)) (csize pre + esize l) (by simp [csize_comp])
      simpa [List.append_assoc] using h
    obtain ⟨hl1, hl2⟩ := ihl pre ([Ins.andjmp (csize pre + esize l + 5 + esize r)] ++
          comp (csize pre + esize l + 5) r ++ post) st (by bnd)
    rw [← hcode0] at hl1 hl2
    obtain ⟨hr1, hr2⟩ := ihr (pre ++ comp (csize pre) l ++ [Ins.andjmp (csize pre + esize l + 5 + esize r)]) post st (by bnd)
    rw [← hcode1, hroff] at hr1 hr2
    constructor
    · intro v hv
      simp only [eval] at hv
      cases hel : eval S cs g l with
      | none => simp [hel] at hv
      | some a =>
        simp only [hel] at hv
        have hstep0 := step_andjmp S cs _ (st := st) (g := g) (a := a) hfj
        by_cases hfa : S.falsy a = true
        · simp only [hfa, ↓reduceIte] at hv hstep0
          have hstep := RunsB.step (lim := lim) hstep0 (by bnd)
          simp only [Option.some.injEq] at hv
          subst hv
          exact ((hl1 a hel).trans hstep).to (by simp [esize]; omega)
        · simp only [hfa, Bool.false_eq_true, ↓reduceIte] at hv hstep0
          have hstep := RunsB.step (lim := lim) hstep0 (by bnd)
          exact (((hl1 a hel).trans hstep).trans (hr1 v hv)).to (by simp [esize]; omega)
    · intro hv
      simp only [eval] at hv
      cases hel : eval S cs g l with
      | none => exact hl2 hel
      | some a =>
        simp only [hel] at hv
        have hstep0 := step_andjmp S cs _ (st := st) (g := g) (a := a) hfj
        by_cases hfa : S.falsy a = true
        · simp only [hfa, ↓reduceIte] at hv hstep0
          have hstep := RunsB.step (lim := lim) hstep0 (by bnd)
          simp at hv
        · simp only [hfa, Bool.false_eq_true, ↓reduceIte] at hv hstep0
          have hstep := RunsB.step (lim := lim) hstep0 (by bnd)
          exact ((hl1 a hel).trans hstep).fails (hr2 hv)
  | lor l r ihl ihr =>
    intro pre post st hd
    simp only [depthE] at hd
    have hp_l := depthE_pos l
    have hp_r := depthE_pos r
    have hroff : csize (pre ++ comp (csize pre) l ++ [Ins.orjmp (csize pre + esize l + 5 + esize r)]) =
        csize pre + esize l + 5 := by simp [csize_append, csize_comp, csize, Ins.size]; omega
    have hcomp : comp (csize pre) (.lor l r) =
        comp (csize pre) l ++ [Ins.orjmp (csize pre + esize l + 5 + esize r)] ++ comp (csize pre + esize l + 5) r := by
      simp [comp, csize_comp, List.append_assoc]
    have hcode0 : pre ++ comp (csize pre) (.lor l r) ++ post =
        pre ++ comp (csize pre) l ++ ([Ins.orjmp (csize pre + esize l + 5 + esize r)] ++
          comp (csize pre + esize l + 5) r ++ post) := by
      rw [hcomp]; simp [List.append_assoc]
    have hcode1 : pre ++ comp (csize pre) (.lor l r) ++ post =
        (pre ++ comp (csize pre) l ++ [Ins.orjmp (csize pre + esize l + 5 + esize r)]) ++
          comp (csize (pre ++ comp (csize pre) l ++ [Ins.orjmp (csize pre + esize l + 5 + esize r)])) r ++ post := by
      rw [hcomp, hroff]; simp [List.append_assoc]
    have hfj : fetch (pre ++ comp (csize pre) (.lor l r) ++ post) (csize pre + esize l) =
        some (Ins.orjmp (csize pre + esize l + 5 + esize r)) := by
      rw [hcomp]
      have h := fetch_mid' pre (comp (csize pre) l) (comp (csize pre + esize l + 5) r) post
        (Ins.orjmp (csize pre + esize l + 5 + esize r)) (csize pre + esize l) (by simp [csize_comp])
      simpa [List.append_assoc] using h
    obtain ⟨hl1, hl2⟩ := ihl pre ([Ins.orjmp (csize pre + esize l + 5 + esize r)] ++
          comp (csize pre + esize l + 5) r ++ post) st (by bnd)
    rw [← hcode0] at hl1 hl2
    obtain ⟨hr1, hr2⟩ := ihr (pre ++ comp (csize pre) l ++ [Ins.orjmp (csize pre + esize l + 5 + esize r)]) post st (by bnd)
    rw [← hcode1, hroff] at hr1 hr2
    constructor
    · intro v hv
      simp only [eval] at hv
      cases hel : eval S cs g l with
      | none => simp [hel] at hv
      | some a =>
        simp only [hel] at hv
        have hstep0 := step_orjmp S cs _ (st := st) (g := g) (a := a) hfj
        by_cases hfa : S.falsy a = true
        · simp only [hfa, ↓reduceIte] at hv hstep0
          have hstep := RunsB.step (lim := lim) hstep0 (by bnd)
          exact (((hl1 a hel).trans hstep).trans (hr1 v hv)).to (by simp [esize]; omega)
        · simp only [hfa, Bool.false_eq_true, ↓reduceIte] at hv hstep0
          have hstep := RunsB.step (lim := lim) hstep0 (by bnd)
          simp only [Option.some.injEq] at hv
          subst hv
          exact ((hl1 a hel).trans hstep).to (by simp [esize]; omega)
    · intro hv
      simp only [eval] at hv
      cases hel : eval S cs g l with
      | none => exact hl2 hel
      | some a =>
        simp only [hel] at hv
        have hstep0 := step_orjmp S cs _ (st := st) (g := g) (a := a) hfj
        by_cases hfa : S.falsy a = true
        · simp only [hfa, ↓reduceIte] at hv hstep0
          have hstep := RunsB.step (lim := lim) hstep0 (by bnd)
          exact ((hl1 a hel).trans hstep).fails (hr2 hv)
        · simp only [hfa, Bool.false_eq_true, ↓reduceIte] at hv hstep0
          have hstep := RunsB.step (lim := lim) hstep0 (by bnd)
          simp at hv


end Tengo.Model.F0
